/-
Models of the hash-order-dependent sites of lian (property C14).

Convention (DESIGN §4.4): every place where the Python iterates a `set` (or a dict keyed by objects
whose `__hash__` includes a string) is written here as iteration over a **list parameter** that stands
for "the elements in the order this interpreter happened to produce".  Determinism of the site is then
the statement that the result does not depend on that order (a permutation-invariance theorem, in
LianVerif/Properties/C14.lean), or — where the code does depend on it — a negative theorem.

Sites (anchors in /repo/src/lian):
* `mapArgs`        core/stmt_states.py  StmtStates.map_arguments          (live: after the two `fix:` commits that
                   sort `rest_parameters` by position and the keyword-argument sets by index_in_space)
  `mapArgs0`       the same function at the pinned commit (frozen)
* `requireValues`  core/stmt_states.py  StmtStates.require_stmt_state     (live: list ordered by state index)
  `requireValues0` pinned commit: a set of value strings (frozen)
* `arrayTypes`     lang/typescript_parser.py  Parser.array            (live: `list(dict.fromkeys(...))`)
  `arrayTypes0`    pinned commit: `list(set_of_node_type_strings)` (frozen)
* `mockUnit`       lang/lang_analysis.py  GIRParser.parse: extern mock code?  (live: the scan's `is_extern` flag)
  `mockUnit0`      pinned commit: substring test on the unit path, which embeds the workspace location (frozen)
* `originalPath`   preparation.py  ModuleSymbolsBuilder: source path of a unit (live: looked up by real path)
  `originalPath0`  pinned commit: looked up by the path in the form -w was given (frozen)
* `bundleExport`   util/loader.py       GeneralLoader.convert_active_bundle_to_dataframe  (`sorted(keys)`)
* `callPathRows`   util/loader.py       CallPathLoader.export             (`enumerate(set)` — NOT sorted)
* `numberModules`  preparation.py       ModuleSymbolsBuilder.scan_modules_by_scanning_workspace_dir
                   (ids from one counter advanced in `os.scandir` order)

`sortLe` is a stable insertion sort; it stands for Python's `sorted(…, key=…)` (also stable).  It is
structurally recursive so that `decide` can evaluate the negative witnesses.

No imports: this file is linked into the `lvdrv` executable.
-/
namespace LianVerif.Determinism

/-! ### stable sort -/

def insertLe {α : Type} (le : α → α → Bool) (x : α) : List α → List α
  | [] => [x]
  | y :: ys => if le x y then x :: y :: ys else y :: insertLe le x ys

/-- stable: an element is inserted in front of the first element it is `le` to, and elements are
inserted from the right, so elements with equal keys keep their input order (like `sorted`). -/
def sortLe {α : Type} (le : α → α → Bool) (l : List α) : List α := l.foldr (insertLe le) []

def leBy {α : Type} (key : α → Int) (a b : α) : Bool := decide (key a ≤ key b)

/-- Python's comparison of tuples of ints (and of ints, as 1-tuples): lexicographic. -/
def lexLe : List Int → List Int → Bool
  | [], _ => true
  | _ :: _, [] => false
  | a :: as, b :: bs => decide (a < b) || (a == b && lexLe as bs)

/-! ### `StmtStates.map_arguments` -/

structure Param where
  position : Int
  name : String
  symbolId : Int
deriving DecidableEq, Repr

/-- an `Argument`; the access path is opaque to `map_arguments` (copied into the mapping). -/
structure Arg where
  indexInSpace : Int
  stateId : Int
  sourceSymbolId : Int
  accessPath : String
deriving DecidableEq, Repr

structure AP where
  kind : Int
  key : String
  stateId : Int
deriving DecidableEq, Repr

structure Mapping where
  argIndexInSpace : Int
  argStateId : Int
  argSourceSymbolId : Int
  paramSymbolId : Int
  argAccessPath : String
  paramType : String
  paramAccessPath : Option AP
  isDefault : Bool
deriving DecidableEq, Repr

/-- constants read from the live `lian.config.constants` by the harness -/
structure Consts where
  parameterDecl : String        -- LIAN_INTERNAL.PARAMETER_DECL
  packedPositional : String     -- LIAN_INTERNAL.PACKED_POSITIONAL_PARAMETER
  packedNamed : String          -- LIAN_INTERNAL.PACKED_NAMED_PARAMETER
  arrayElement : Int            -- ACCESS_POINT_KIND.ARRAY_ELEMENT
  fieldElement : Int            -- ACCESS_POINT_KIND.FIELD_ELEMENT
deriving Repr

structure MapIn where
  /-- `parameters.all_parameters.copy()` in ITERATION order (a set of `Parameter`, hash includes the name) -/
  allParams : List Param
  positional : List Param                    -- `parameters.positional_parameters` (a list)
  packedPositional : Option Param
  packedNamed : Option Param
  /-- `args.positional_args`: a list of sets of `Argument`, each in iteration order (hash: ints and `""`) -/
  posArgs : List (List Arg)
  /-- `args.named_args`: dict (insertion-ordered) name ↦ set of `Argument` in ITERATION order (hash includes the name) -/
  namedArgs : List (String × List Arg)
  /-- `callee_method_def_use_summary.parameter_symbol_ids` in iteration order: (parameter symbol id,
  default-value symbol id; 0 stands for None/0, which the code treats alike: `if default_value_symbol_id:`) -/
  defaults : List (Int × Int)
deriving Repr

def discard (rest : List Param) (p : Param) : List Param := rest.filter (fun q => q != p)

def mkMap (c : Consts) (a : Arg) (sym : Int) : Mapping :=
  { argIndexInSpace := a.indexInSpace, argStateId := a.stateId, argSourceSymbolId := a.sourceSymbolId,
    paramSymbolId := sym, argAccessPath := a.accessPath, paramType := c.parameterDecl,
    paramAccessPath := none, isDefault := false }

/-- `for pair in parameter_symbol_ids: if sym == pair[0]: default = pair[1]; break` -/
def lookupDefault (defaults : List (Int × Int)) (sym : Int) : Int :=
  match defaults.find? (fun pr => pr.1 == sym) with
  | some pr => pr.2
  | none => 0

/-- `name_to_parameter[name]` after the dict was filled from `positional[common_len:]`: the LAST
parameter of that name wins. -/
def lookupName (ps : List Param) (name : String) : Option Param :=
  ps.reverse.find? (fun p => p.name == name)

/-- first loop: positions below `common_len`. Returns (rest, out). -/
def positionalLoop (c : Consts) : List (List Arg) → List Param → List Param → List Mapping → List Param × List Mapping
  | args :: argss, p :: ps, rest, out =>
    let rest' := if args.isEmpty then rest else discard rest p
    positionalLoop c argss ps rest' (out ++ args.map (fun a => mkMap c a p.symbolId))
  | _, _, rest, out => (rest, out)

/-- keyword arguments matched against the positional parameters that got no positional argument.
Returns (rest, matched names, out). -/
def namedLoop (c : Consts) (ordA : List Arg → List Arg) (tailParams : List Param) :
    List (String × List Arg) → List Param → List String → List Mapping → List Param × List String × List Mapping
  | [], rest, matched, out => (rest, matched, out)
  | (name, args) :: more, rest, matched, out =>
    match lookupName tailParams name with
    | none => namedLoop c ordA tailParams more rest matched out
    | some p =>
      if args.isEmpty then namedLoop c ordA tailParams more rest matched out
      else namedLoop c ordA tailParams more (discard rest p) (matched ++ [name])
             (out ++ (ordA args).map (fun a => mkMap c a p.symbolId))

/-- surplus positional arguments collected by `*args`. -/
def packedPosLoop (c : Consts) (pp : Param) : List (List Arg) → Nat → List Param → List Mapping → List Param × List Mapping
  | [], _, rest, out => (rest, out)
  | args :: argss, idx, rest, out =>
    let rest' := if args.isEmpty then rest else discard rest pp
    packedPosLoop c pp argss (idx + 1) rest'
      (out ++ args.map (fun a =>
        { mkMap c a pp.symbolId with
          paramType := c.packedPositional,
          paramAccessPath := some { kind := c.arrayElement, key := toString idx, stateId := a.stateId } }))

/-- unmatched keyword arguments collected by `**kwargs`. -/
def packedNamedLoop (c : Consts) (ordA : List Arg → List Arg) (pn : Param) :
    List (String × List Arg) → List Param → List String → List Mapping → List Param × List Mapping
  | [], rest, _, out => (rest, out)
  | (name, args) :: more, rest, matched, out =>
    if matched.contains name then packedNamedLoop c ordA pn more rest matched out
    else
      let rest' := if args.isEmpty then rest else discard rest pn
      packedNamedLoop c ordA pn more rest' (matched ++ [name])
        (out ++ (ordA args).map (fun a =>
          { mkMap c a pn.symbolId with
            paramType := c.packedNamed,
            paramAccessPath := some { kind := c.fieldElement, key := name, stateId := a.stateId } }))

/-- parameters that received nothing: mapped to their default value, if they have one. -/
def defaultsLoop (c : Consts) (defaults : List (Int × Int)) (rest : List Param) : List Mapping :=
  rest.filterMap (fun p =>
    let d := lookupDefault defaults p.symbolId
    if d == 0 then none
    else some { argIndexInSpace := -1, argStateId := d, argSourceSymbolId := -1, paramSymbolId := p.symbolId,
                argAccessPath := "[]", paramType := c.parameterDecl, paramAccessPath := none, isDefault := true })

/-- the `while pos < common_len` loop -/
def stage1 (c : Consts) (i : MapIn) : List Param × List Mapping :=
  let commonLen := min i.posArgs.length i.positional.length
  positionalLoop c (i.posArgs.take commonLen) (i.positional.take commonLen) i.allParams []

/-- `if common_len < positional_parameter_len: … elif common_len < positional_arg_len: …` -/
def stage2 (ordA : List Arg → List Arg) (c : Consts) (i : MapIn) (s1 : List Param × List Mapping) :
    List Param × List String × List Mapping :=
  let commonLen := min i.posArgs.length i.positional.length
  if commonLen < i.positional.length then
    if !i.namedArgs.isEmpty && !(i.positional.drop commonLen).isEmpty then
      namedLoop c ordA (i.positional.drop commonLen) i.namedArgs s1.1 [] s1.2
    else (s1.1, [], s1.2)
  else if commonLen < i.posArgs.length then
    match i.packedPositional with
    | some pp =>
      ((packedPosLoop c pp (i.posArgs.drop commonLen) 0 s1.1 s1.2).1, [],
       (packedPosLoop c pp (i.posArgs.drop commonLen) 0 s1.1 s1.2).2)
    | none => (s1.1, [], s1.2)
  else (s1.1, [], s1.2)

/-- `if util.is_available(parameters.packed_named_parameter): …` -/
def stage3 (ordA : List Arg → List Arg) (c : Consts) (i : MapIn) (s2 : List Param × List String × List Mapping) :
    List Param × List Mapping :=
  match i.packedNamed with
  | some pn => packedNamedLoop c ordA pn i.namedArgs s2.1 s2.2.1 s2.2.2
  | none => (s2.1, s2.2.2)

/-- `map_arguments`, parameterised by how the two hash-ordered sets are put in order before they are
visited (`ordP` for `rest_parameters`, `ordA` for the keyword-argument sets). -/
def mapArgsWith (ordP : List Param → List Param) (ordA : List Arg → List Arg) (c : Consts) (i : MapIn) : List Mapping :=
  let s3 := stage3 ordA c i (stage2 ordA c i (stage1 c i))
  s3.2 ++ defaultsLoop c i.defaults (ordP s3.1)

/-- the code in /repo now: `sorted(rest_parameters, key=position)`, `sorted(arg_set, key=index_in_space)` -/
def mapArgs (c : Consts) (i : MapIn) : List Mapping :=
  mapArgsWith (sortLe (leBy Param.position)) (sortLe (leBy Arg.indexInSpace)) c i

/-- the pinned commit: both sets visited in their iteration order -/
def mapArgs0 (c : Consts) (i : MapIn) : List Mapping := mapArgsWith id id c i

/-- only the first repair applied (used to attribute a difference to one of the two sites) -/
def mapArgs1 (c : Consts) (i : MapIn) : List Mapping :=
  mapArgsWith (sortLe (leBy Param.position)) id c i

/-! ### `StmtStates.require_stmt_state` -/

/-- ordered de-duplication: `if v and v not in require_values: require_values.append(v)` -/
def dedupTruthy : List String → List String → List String
  | [], acc => acc
  | v :: vs, acc => if v.isEmpty || acc.contains v then dedupTruthy vs acc else dedupTruthy vs (acc ++ [v])

/-- live code. input: the (state index, value) pairs of the name's states, in the iteration order of
the index set.  output: the values in the order in which the REQUIRED_MODULE states are created. -/
def requireValues (states : List (Int × String)) : List String :=
  dedupTruthy ((sortLe (leBy Prod.fst) states).map Prod.snd) []

/-- pinned commit: `require_values` is a set of strings; the states are created in ITS iteration order,
which is the list parameter here. -/
def requireValues0 (valueSetIter : List String) : List String := valueSetIter

/-! ### `typescript_parser.Parser.array` -/

/-- `list(dict.fromkeys(xs))`: the distinct elements in order of first occurrence -/
def dedupFirst : List String → List String → List String
  | [], acc => acc
  | v :: vs, acc => if acc.contains v then dedupFirst vs acc else dedupFirst vs (acc ++ [v])

/-- live code: `data_type` of a `new_array` statement from the node types of the elements of the literal,
in source order.  No set is iterated any more. -/
def arrayTypes (elementTypes : List String) : List String := dedupFirst elementTypes []

/-- pinned commit: `list(data_type_set)` — the list parameter is the iteration order of that set of strings. -/
def arrayTypes0 (typeSetIter : List String) : List String := typeSetIter

/-! ### `GIRParser.parse` (lang/lang_analysis.py): is this unit extern mock code? -/

/-- `pat in s` on character lists -/
def hasInfix (pat : List Char) : List Char → Bool
  | [] => pat.isEmpty
  | c :: cs => pat.isPrefixOf (c :: cs) || hasInfix pat cs

/-- live code: `unit_info.is_extern`, the flag the module scan recorded for the units of this workspace's
externs tree.  The unit path (which embeds the workspace location) is not consulted. -/
def mockUnit (isExtern : Bool) (_unitPath : String) : Bool := isExtern

/-- pinned commit: `f"{DEFAULT_WORKSPACE}/{EXTERNS_DIR}" in file_path` — a substring test on the unit path.
`marker` is that string, built by the harness from the live `config` constants. -/
def mockUnit0 (marker : String) (unitPath : String) : Bool := hasInfix marker.toList unitPath.toList

/-! ### `ModuleSymbolsBuilder`: the original (source) path of a scanned unit -/

/-- `dst_file_to_src_file.get(key, "")`; the dict is keyed by REAL paths of the copied files -/
def lookupPath (table : List (String × String)) (key : String) : String :=
  match table.find? (fun kv => kv.1 == key) with
  | some kv => kv.2
  | none => ""

/-- live code: the entry is looked up by its real path (`realpath` = `os.path.realpath`, a parameter). -/
def originalPath (table : List (String × String)) (realpath : String → String) (entryPath : String) : String :=
  lookupPath table (realpath entryPath)

/-- pinned commit: looked up by `entry.path`, which has the form the workspace was given in (-w). -/
def originalPath0 (table : List (String × String)) (entryPath : String) : String := lookupPath table entryPath

/-! ### `GeneralLoader.convert_active_bundle_to_dataframe` -/

/-- `for key in sorted(self.active_bundle.keys()): rows.extend(active_bundle[key].flattened_item)`.
`items` is the dict in insertion (= save) order; `cmpKey` is what the comparison looks at: the identity
for ints and tuples, `(caller_id, call_stmt_id)` for `CallSite` keys (`CallSite.__lt__` ignores the callee). -/
def bundleExport {ρ : Type} (cmpKey : List Int → List Int) (items : List (List Int × List ρ)) : List ρ :=
  ((sortLe (fun a b => lexLe (cmpKey a.1) (cmpKey b.1)) items).map Prod.snd).flatten

def callSiteKey (k : List Int) : List Int := k.take 2

/-! ### `CallPathLoader.export` -/

/-- `for index, path in enumerate(self.all_paths)`: the row index is the position in the set's
iteration order — nothing is sorted. -/
def callPathRows {π : Type} (iter : List π) : List (Nat × π) := iter.zipIdx.map (fun (p, i) => (i, p))

/-! ### `ModuleSymbolsBuilder`: ids from one counter advanced in scandir order -/

inductive Entry where
  | file (name : String)
  | dir (name : String) (children : List Entry)
deriving Repr

/-- one output row: (module id, name, parent module id, is a unit) -/
abbrev ModRow := Nat × String × Nat × Bool

mutual
  /-- returns (next free id, rows in emission order) -/
  def numberEntry (parent : Nat) (next : Nat) : Entry → Nat × List ModRow
    | .file name => (next + 1, [(next, name, parent, true)])
    | .dir name children =>
      let (n', rows) := numberEntries next (next + 1) children
      (n', (next, name, parent, false) :: rows)
  def numberEntries (parent : Nat) (next : Nat) : List Entry → Nat × List ModRow
    | [] => (next, [])
    | e :: es =>
      let (n1, r1) := numberEntry parent next e
      let (n2, r2) := numberEntries parent n1 es
      (n2, r1 ++ r2)
end

/-- `ModuleSymbolsBuilder.run` (non-strict mode): the source tree, then the externs tree, one counter. -/
def numberModules (start : Nat) (src externs : List Entry) : List ModRow :=
  let (n1, r1) := numberEntries 0 start src
  let (_, r2) := numberEntries 0 n1 externs
  r1 ++ r2

end LianVerif.Determinism
