/-
Model of `adjust_variable_decls` / `process_variable_decl` / `finalize_frame`
(src/lian/events/default_event_handlers/add_var_decl.py) on the unflattened GIR tree.

A statement is reduced to what the handler looks at: its key, the `name` and `attrs` of its value,
its statement-list fields in dict order (`subs`), and a `tag` that gives it an identity so that the
harness can compare positions.  (`remove_unnecessary_tmp_variables`, the first step of the handler,
is not modelled; the correspondence inputs contain no `%vv` temporaries.)

The Python walks the tree with an explicit stack of frames that SHARE dicts and lists by reference:
a block frame shares `variables` with its parent frame, and (Python/ABC always, every language after
the `fix:` for `var`) the hoist collector.  Because a frame is pushed and completely processed
before its parent continues, threading the shared state through a recursive traversal is the same
computation; `frame` below is one `StackFrame` from creation to `finalize_frame`.

`Cfg` selects the variant: `fixedVar = catchClause = true` is the code as it is in /repo now,
`false/false` is the pinned commit (frozen; documents the two repaired findings).

No imports: this file is linked into the `lvdrv` executable.
-/
namespace LianVerif.Hoist

inductive Stmt (ν : Type) where
  | mk (key : String) (name : Option ν) (attrs : List String)
       (subs : List (String × List (Stmt ν))) (tag : Nat)

def Stmt.key {ν : Type} : Stmt ν → String | .mk k _ _ _ _ => k
def Stmt.name {ν : Type} : Stmt ν → Option ν | .mk _ n _ _ _ => n
def Stmt.attrs {ν : Type} : Stmt ν → List String | .mk _ _ a _ _ => a
def Stmt.subs {ν : Type} : Stmt ν → List (String × List (Stmt ν)) | .mk _ _ _ s _ => s
def Stmt.tag {ν : Type} : Stmt ν → Nat | .mk _ _ _ _ t => t
def Stmt.withSubs {ν : Type} : Stmt ν → List (String × List (Stmt ν)) → Stmt ν
  | .mk k n a _ t, s => .mk k n a s t

structure Cfg where
  py : Bool            -- data.lang in ["python", "abc"]
  fixedVar : Bool      -- nested blocks share the function frame's collector in every language
  catchClause : Bool   -- `catch_clause` bodies are traversed like `*_stmt` bodies
deriving Repr

def Cfg.current (py : Bool) : Cfg := { py := py, fixedVar := true, catchClause := true }
def Cfg.pinned (py : Bool) : Cfg := { py := py, fixedVar := false, catchClause := false }

variable {ν : Type} [DecidableEq ν]

/-- `frame.variables`: name -> True (function-scoped) / False (let/const of an open block). -/
abbrev Vars (ν : Type) := List (Option ν × Bool)

def Vars.get (v : Vars ν) (n : Option ν) : Option Bool := (v.find? (fun p => p.1 == n)).map (·.2)

def Vars.set (v : Vars ν) (n : Option ν) (b : Bool) : Vars ν :=
  match v with
  | [] => [(n, b)]
  | p :: ps => if p.1 == n then (n, b) :: ps else p :: Vars.set ps n b

structure St (ν : Type) where
  vars : Vars ν               -- the (shared) `variables` dict of the current frame
  coll : List (Stmt ν)        -- the (shared) hoist collector of the current frame
  globs : List (Stmt ν)       -- `global_stmts_to_insert`

/-- `process_variable_decl`; returns whether the statement stays in place. -/
def processVarDecl (cfg : Cfg) (s : Stmt ν) (st : St ν) : Bool × St ν :=
  let hoistLike : Bool × St ν :=
    match st.vars.get s.name with
    | some _ => (false, st)
    | none => (false, { st with vars := st.vars.set s.name true, coll := st.coll ++ [s] })
  if cfg.py then hoistLike
  else if s.attrs.contains "var" then hoistLike
  else if s.attrs.contains "global" then
    match st.vars.get s.name with
    | some _ => (false, st)
    | none => (false, { st with vars := st.vars.set s.name true, globs := st.globs ++ [s] })
  else if s.attrs.contains "let" || s.attrs.contains "const" then
    match st.vars.get s.name with
    | some false => (false, st)
    | _ => (true, { st with vars := st.vars.set s.name false })
  else (true, st)

def classLike (k : String) : Bool :=
  k == "class_decl" || k == "interface_decl" || k == "record_decl" || k == "annotation_type_decl" ||
  k == "enum_decl" || k == "struct_decl"

/-- names of the `parameter_decl` entries of `value["parameters"]` -/
def paramVars (subs : List (String × List (Stmt ν))) : Vars ν :=
  match subs.find? (fun p => p.1 == "parameters") with
  | some p => (p.2.filter (fun s => s.key == "parameter_decl")).foldl (fun v s => v.set s.name true) []
  | none => []

mutual

/-- the statements of one frame, in order; returns the statements that stay (already rewritten). -/
def procList (cfg : Cfg) : Nat → List (Stmt ν) → St ν → List (Stmt ν) × St ν
  | 0, l, st => (l, st)
  | _ + 1, [], st => ([], st)
  | f + 1, s :: rest, st =>
    let r := procStmt cfg f s st
    let r2 := procList cfg f rest r.2.2
    (if r.2.1 then r.1 :: r2.1 else r2.1, r2.2)

/-- one `StackFrame` from creation to `finalize_frame`.  `ownVars` / `ownColl` say whether the frame
was created with a fresh `variables` dict (given) / a fresh collector. -/
def frame (cfg : Cfg) : Nat → List (Stmt ν) → St ν → (inBlock : Bool) → (ownVars : Option (Vars ν)) →
    (ownColl : Bool) → List (Stmt ν) × St ν
  | 0, l, st, _, _, _ => (l, st)
  | f + 1, l, st, inBlock, ownVars, ownColl =>
    let start : St ν := { vars := ownVars.getD st.vars, coll := if ownColl then [] else st.coll, globs := st.globs }
    let r := procList cfg f l start
    let kept := r.1
    let st1 := r.2
    let ins : List (Stmt ν) × List (Stmt ν) :=
      if cfg.py || cfg.fixedVar then
        if !inBlock && !st1.coll.isEmpty then (st1.coll.reverse ++ kept, []) else (kept, st1.coll)
      else
        if !st1.coll.isEmpty then (st1.coll.reverse ++ kept, st1.coll) else (kept, st1.coll)
    let vars' := if !cfg.py && inBlock then st1.vars.filter (fun p => p.2 != false) else st1.vars
    (ins.1, { vars := if ownVars.isSome then st.vars else vars',
              coll := if ownColl then st.coll else ins.2,
              globs := st1.globs })

/-- the sub-frames of one statement, processed in order. `blockMode`: block frames (shared variables)
vs. member lists of a class (fresh everything). -/
def procSubs (cfg : Cfg) : Nat → List (String × List (Stmt ν)) → St ν → (sel : String → Bool) →
    (blockMode : Bool) → List (String × List (Stmt ν)) × St ν
  | 0, subs, st, _, _ => (subs, st)
  | _ + 1, [], st, _, _ => ([], st)
  | f + 1, (k, l) :: rest, st, sel, blockMode =>
    if sel k && !l.isEmpty then
      let r := if blockMode then frame cfg f l st true none (!(cfg.py || cfg.fixedVar))
               else frame cfg f l st false (some []) true
      let r2 := procSubs cfg f rest r.2 sel blockMode
      ((k, r.1) :: r2.1, r2.2)
    else
      let r2 := procSubs cfg f rest st sel blockMode
      ((k, l) :: r2.1, r2.2)

/-- one iteration of the main loop; returns (rewritten statement, stays in place?, state). -/
def procStmt (cfg : Cfg) : Nat → Stmt ν → St ν → Stmt ν × Bool × St ν
  | 0, s, st => (s, true, st)
  | f + 1, s, st =>
    if classLike s.key then
      -- sub-frames for methods, fields, nested, in this order
      let r1 := procSubs cfg f s.subs st (fun k => k == "methods") false
      let r2 := procSubs cfg f r1.1 r1.2 (fun k => k == "fields") false
      let r3 := procSubs cfg f r2.1 r2.2 (fun k => k == "nested") false
      (s.withSubs r3.1, true, r3.2)
    else if s.key == "method_decl" then
      let pv := paramVars s.subs
      -- a method frame has fresh variables = the parameters
      let r' := procSubsMethod cfg f s.subs st pv
      (s.withSubs r'.1, true, r'.2)
    else if s.key == "variable_decl" then
      let r := processVarDecl cfg s st
      (s, r.1, r.2)
    else if s.key == "global_stmt" || s.key == "nonlocal_stmt" then
      match st.vars.get s.name with
      | some _ => (s, true, st)
      | none => (s, true, { st with vars := st.vars.set s.name true })
    else if s.key.endsWith "_stmt" || (cfg.catchClause && s.key == "catch_clause") then
      let r := procSubs cfg f s.subs st (fun k => k.endsWith "body") true
      (s.withSubs r.1, true, r.2)
    else (s, true, st)

/-- the body frame of a method: fresh collector, `variables` = the parameter names. -/
def procSubsMethod (cfg : Cfg) : Nat → List (String × List (Stmt ν)) → St ν → Vars ν →
    List (String × List (Stmt ν)) × St ν
  | 0, subs, st, _ => (subs, st)
  | _ + 1, [], st, _ => ([], st)
  | f + 1, (k, l) :: rest, st, pv =>
    if k == "body" && !l.isEmpty then
      let r := frame cfg f l st false (some pv) true
      let r2 := procSubsMethod cfg f rest r.2 pv
      ((k, r.1) :: r2.1, r2.2)
    else
      let r2 := procSubsMethod cfg f rest st pv
      ((k, l) :: r2.1, r2.2)

end

/-- `adjust_variable_decls` on a whole unit (after the temp-variable clean-up). -/
def hoist (cfg : Cfg) (fuel : Nat) (tree : List (Stmt ν)) : List (Stmt ν) :=
  let r := frame cfg fuel tree { vars := [], coll := [], globs := [] } false (some []) true
  r.2.globs.reverse ++ r.1

/-! ### a flat, comparable rendering of a tree (used by the theorems about concrete witnesses) -/

mutual
/-- pre-order list of statement tags; every statement-list field is bracketed by `-1 … -2`. -/
def lin : Nat → List (Stmt ν) → List Int
  | 0, _ => []
  | _ + 1, [] => []
  | f + 1, s :: rest => (s.tag : Int) :: (linSubs f s.subs ++ lin f rest)

def linSubs : Nat → List (String × List (Stmt ν)) → List Int
  | 0, _ => []
  | _ + 1, [] => []
  | f + 1, (_, l) :: rest => (-1 : Int) :: (lin f l ++ ((-2 : Int) :: linSubs f rest))
end

end LianVerif.Hoist
