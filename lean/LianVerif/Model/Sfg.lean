/-
Serialised state flow graph (SFG) as the taint phase sees it (src/lian/taint/taint_analysis.py).

The real graph is a `networkx.DiGraph` whose nodes are `SFGNode` objects (identity = the 5-tuple
node_type, def_stmt_id, index, node_id, context_id) and whose single edge attribute `weight` is an
`SFGEdge` (edge_type, stmt_id, round, pos, name): at most ONE edge per ordered pair of nodes.
Every loop in the taint phase is either `for v in sfg.successors(u)` + `get_edge_data(u, v)` or
`for p in sfg.predecessors(u)` + `get_edge_data(p, u)`, so the model stores, per node, the list of
out-edges in successor-adjacency order and the list of in-edges in predecessor-adjacency order
(the two orders are independent in networkx; both are serialised by the harness).  A node is
referred to by its position in `sfg.nodes` order.

Only the attributes the taint phase reads are kept: of the GIR row `node.stmt` the columns
`field`, `receiver_object`, `name`, `key`, `start_row`; of the loader the original path and the
language of the unit that contains `node.def_stmt_id`.

No imports: linked into `lvdrv`.
-/
namespace LianVerif.Sfg

/-! constants of lian.config.constants (checked against the live module by the driver) -/
def K_STMT : Nat := 1
def K_SYMBOL : Nat := 2
def K_STATE : Nat := 3
def E_DEFINED : Nat := 1      -- SYMBOL_IS_DEFINED
def E_USED : Nat := 2         -- SYMBOL_IS_USED
def E_FLOW : Nat := 3         -- SYMBOL_FLOW
def E_IFLOW : Nat := 4        -- INDIRECT_SYMBOL_FLOW
def E_SYMSTATE : Nat := 5     -- SYMBOL_STATE
def E_INCL : Nat := 7         -- STATE_INCLUSION
def E_IINCL : Nat := 8        -- INDIRECT_STATE_INCLUSION

/-- one `AccessPoint` of a state's access path: only `.key` is read; `text = str(key)` and `isStr`
says whether `key` is a Python `str` (`check_method_name` compares the raw key with a string). -/
structure APKey where
  isStr : Bool
  text : String
deriving Repr, DecidableEq, Inhabited

structure Node where
  kind : Nat := 0
  defStmt : Int := -1
  index : Int := -1
  nodeId : Int := -1
  ctx : Int := -1
  name : String := ""
  lineNo : Int := -1
  operation : String := ""
  ap : List APKey := []
  sField : String := ""
  sReceiver : String := ""
  sName : String := ""
  sKey : String := ""
  startRow : Int := -1
  unitPath : String := ""
  unitLang : String := ""
deriving Repr, Inhabited

/-- an out-edge (`peer` = successor) or an in-edge (`peer` = predecessor). -/
structure Edge where
  peer : Nat
  etype : Nat
  pos : Int
deriving Repr, DecidableEq, Inhabited

structure Graph where
  nodes : List Node
  out : List (List Edge)
  inn : List (List Edge)
deriving Repr, Inhabited

def Graph.node (g : Graph) (i : Nat) : Node := g.nodes.getD i default
def Graph.outE (g : Graph) (i : Nat) : List Edge := g.out.getD i []
def Graph.inE (g : Graph) (i : Nat) : List Edge := g.inn.getD i []
def Graph.size (g : Graph) : Nat := g.nodes.length
def Graph.nid (g : Graph) (i : Nat) : Int := (g.node i).nodeId
def Graph.kindOf (g : Graph) (i : Nat) : Nat := (g.node i).kind

/-- the serialisation is consistent: same number of adjacency rows as nodes, every peer in range,
and the in-lists describe exactly the edges of the out-lists. -/
def Graph.wf (g : Graph) : Bool :=
  g.out.length == g.nodes.length && g.inn.length == g.nodes.length &&
  (List.range g.nodes.length).all (fun u =>
    (g.outE u).all (fun e => decide (e.peer < g.nodes.length) &&
      (g.inE e.peer).contains { peer := u, etype := e.etype, pos := e.pos }) &&
    (g.inE u).all (fun e => decide (e.peer < g.nodes.length) &&
      (g.outE e.peer).contains { peer := u, etype := e.etype, pos := e.pos }))

/-! ### the two graph look-ups of `TaintAnalysis` -/

/-- `get_stmt_used_symbol_and_state_by_pos(node, pos)`: the LAST predecessor whose edge has
`pos == pos` (any edge type) and its STATE-kind successors.  `(None, None)` and `(None, [])` are
identified (every use in the code guards with `not …`). -/
def usedByPos (g : Graph) (n : Nat) (pos : Int) : Option Nat × List Nat :=
  if g.kindOf n != K_STMT then (none, [])
  else
    match (g.inE n).foldl (fun acc e => if e.pos == pos then some e.peer else acc) none with
    | none => (none, [])
    | some p => (some p, ((g.outE p).filter (fun e => g.kindOf e.peer == K_STATE)).map (·.peer))

/-- first component of `get_stmt_define_symbol_and_states_node(node)`: the LAST successor over a
SYMBOL_IS_DEFINED edge, skipping successors with `node_id == -1` or an empty name. -/
def defSym (g : Graph) (n : Nat) : Option Nat :=
  if g.kindOf n != K_STMT then none
  else
    (g.outE n).foldl (fun acc e =>
      let s := g.node e.peer
      if s.nodeId == -1 || s.name == "" then acc
      else if e.etype == E_DEFINED then some e.peer else acc) none

/-- second component: the SYMBOL_STATE successors of the defined symbol. -/
def defStates (g : Graph) (d : Option Nat) : List Nat :=
  match d with
  | none => []
  | some p => ((g.outE p).filter (fun e => e.etype == E_SYMSTATE)).map (·.peer)

/-! ### string helpers -/

/-- Python `a in b` on strings. -/
def infixChars : List Char → List Char → Bool
  | a, [] => a.isEmpty
  | a, c :: t => a.isPrefixOf (c :: t) || infixChars a t

def strIn (a b : String) : Bool := infixChars a.toList b.toList

/-- Python `s.split(sep)` for a one-character separator, by structural recursion on the characters
(so that the kernel can evaluate it; `String.splitOn` does not reduce). -/
def splitAux (sep : Char) : List Char → List Char → List (List Char)
  | [], cur => [cur.reverse]
  | c :: t, cur => if c == sep then cur.reverse :: splitAux sep t [] else splitAux sep t (c :: cur)

def splitOnChar (s : String) (sep : Char) : List String :=
  (splitAux sep s.toList []).map String.ofList

/-- `os.path.basename` for '/'-separated paths. -/
def basename (p : String) : String := (splitOnChar p '/').getLastD ""

/-- `this_field_write.access_path_formatter`: keys as text, empty keys dropped, joined by '.'. -/
def apFmtDrop (ap : List APKey) : String := ".".intercalate ((ap.map (·.text)).filter (· != ""))

/-- `util.access_path_formatter`: keys as text, joined by '.'. -/
def apFmtAll (ap : List APKey) : String := ".".intercalate (ap.map (·.text))

end LianVerif.Sfg
