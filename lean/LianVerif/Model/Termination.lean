/-
C13 — abstract termination models, part 1: the statement visit loop.

Mirrors `P2PrelimSemanticAnalysis.analyze_stmts` (src/lian/core/prelim_semantics.py; shared by the
bottom-up phase P2 and, by inheritance, the top-down phase P3) together with `SimpleWorkList`
(src/lian/common_structs.py).  Only the loop skeleton is modelled: which statement is peeked, whether
it is analysed or skipped, what is pushed, what is popped, how the visit counter moves.  The cost of
ONE statement analysis (`analyze_reachable_symbols`, `compute_stmt_states`) is outside the model; it
appears as the abstract callback `analyse`, whose only observable effect on the loop is whether it
interrupts (a callee has to be analysed first).

Every loop in this file is written WITHOUT fuel: Lean's termination checker accepts the definition
only because the ranking function given in `termination_by` decreases.

The worklist is abstract (`Discipline`): any structure with `size / peek / push / pop` such that a
push adds at most one element and never removes one, and a pop of a non-empty list removes at least
one.  The real discipline (`heapDiscipline`: `heapq.heappush` on insert but `list.pop(0)` on removal,
which is not a heap pop and breaks the heap shape) is one instance; FIFO is another.

No imports: this file is linked into the `lvdrv` executable.
-/
namespace LianVerif.Termination

/-! ### Sums over a finite carrier (core-only replacements for the Mathlib lemmas) -/

/-- `Σ_{v ∈ V} f v` (with multiplicity when `V` has duplicates). -/
def sumOver {α : Type} (f : α → Nat) : List α → Nat
  | [] => 0
  | v :: V => f v + sumOver f V

theorem sumOver_le {α : Type} {f g : α → Nat} (V : List α) (h : ∀ v, f v ≤ g v) :
    sumOver f V ≤ sumOver g V := by
  induction V with
  | nil => exact Nat.le_refl _
  | cons v V ih => simp only [sumOver]; have := h v; omega

/-- pointwise `≤` everywhere and a drop of `d` at one member gives a drop of `d` of the sum. -/
theorem sumOver_drop {α : Type} {f g : α → Nat} {V : List α} {s : α} {d : Nat}
    (hs : s ∈ V) (h : ∀ v, f v ≤ g v) (hd : f s + d ≤ g s) :
    sumOver f V + d ≤ sumOver g V := by
  induction V with
  | nil => cases hs
  | cons v V ih =>
    simp only [sumOver]
    rcases List.mem_cons.1 hs with rfl | hm
    · have := sumOver_le V h; omega
    · have := ih hm; have := h v; omega

/-! ### Worklist disciplines -/

/-- What the visit loop needs from a worklist.  `peek` is only consulted when `size ≠ 0`. -/
structure Discipline (ω : Type) where
  size : ω → Nat
  peek : ω → Int
  push : ω → Int → ω
  pop : ω → ω
  push_le : ∀ w x, size (push w x) ≤ size w + 1
  push_ge : ∀ w x, size w ≤ size (push w x)
  pop_lt : ∀ w, size w ≠ 0 → size (pop w) < size w

theorem Discipline.foldl_push_le {ω : Type} (D : Discipline ω) (xs : List Int) (w : ω) :
    D.size (xs.foldl D.push w) ≤ D.size w + xs.length := by
  induction xs generalizing w with
  | nil => simp
  | cons x xs ih =>
    simp only [List.foldl_cons, List.length_cons]
    have := ih (D.push w x); have := D.push_le w x; omega

theorem Discipline.foldl_push_ge {ω : Type} (D : Discipline ω) (xs : List Int) (w : ω) :
    D.size w ≤ D.size (xs.foldl D.push w) := by
  induction xs generalizing w with
  | nil => simp
  | cons x xs ih =>
    simp only [List.foldl_cons]
    have := ih (D.push w x); have := D.push_ge w x; omega

/-! #### The real discipline: `SimpleWorkList` built with `graph=cfg`

`work_list` is a Python list of `(priority, item)` tuples, `all_data` the set of items in it (the
only mutators used on a frame's statement worklist are `add` and `pop`, which keep the two in step).
`add` = `heapq.heappush` unless the item is already present; `pop` = `work_list.pop(0)`. -/

structure HeapWL where
  heap : List (Nat × Int)
  prio : List (Int × Nat)        -- `priority_dict` (reverse DFS post-order index)
deriving Repr

def lookupPrio (prio : List (Int × Nat)) (x : Int) : Nat :=
  match prio.find? (fun p => p.1 == x) with
  | some p => p.2
  | none => 0                    -- `self.priority_dict.get(item, 0)`

/-- Python tuple comparison `(p1, i1) < (p2, i2)`. -/
def tupleLt (a b : Nat × Int) : Bool := a.1 < b.1 || (a.1 == b.1 && decide (a.2 < b.2))

/-- `heapq._siftdown(heap, 0, pos)` with `newitem` carried along; `fuel ≥ pos` always suffices
because `pos` at least halves in every round. -/
def siftDown : Nat → List (Nat × Int) → Nat → Nat × Int → List (Nat × Int)
  | 0, h, pos, x => h.set pos x
  | fuel + 1, h, pos, x =>
    if pos = 0 then h.set pos x
    else
      let pp := (pos - 1) / 2
      let parent := h.getD pp (0, 0)
      if tupleLt x parent then siftDown fuel (h.set pos parent) pp x else h.set pos x

theorem siftDown_length (fuel : Nat) (h : List (Nat × Int)) (pos : Nat) (x : Nat × Int) :
    (siftDown fuel h pos x).length = h.length := by
  induction fuel generalizing h pos with
  | zero => simp [siftDown]
  | succ n ih =>
    simp only [siftDown]
    split
    · simp
    · split
      · rw [ih]; simp
      · simp

def heapPushRaw (h : List (Nat × Int)) (x : Nat × Int) : List (Nat × Int) :=
  siftDown (h.length + 1) (h ++ [x]) h.length x

def HeapWL.push (w : HeapWL) (x : Int) : HeapWL :=
  if w.heap.any (fun p => p.2 == x) then w           -- `if item not in self.all_data`
  else { w with heap := heapPushRaw w.heap (lookupPrio w.prio x, x) }

def HeapWL.pop (w : HeapWL) : HeapWL := { w with heap := w.heap.drop 1 }   -- `work_list.pop(0)`

def HeapWL.peek (w : HeapWL) : Int :=
  match w.heap with
  | [] => 0
  | p :: _ => p.2

def heapDiscipline : Discipline HeapWL where
  size w := w.heap.length
  peek := HeapWL.peek
  push := HeapWL.push
  pop := HeapWL.pop
  push_le w x := by
    unfold HeapWL.push
    split
    · omega
    · simp [heapPushRaw, siftDown_length]
  push_ge w x := by
    unfold HeapWL.push
    split
    · omega
    · simp [heapPushRaw, siftDown_length]
  pop_lt w h := by
    simp only [HeapWL.pop, List.length_drop]
    omega

/-! #### The same list with a genuine `heapq.heappop` on removal

Not what the pinned code does; kept so that the harness can follow a repair of `SimpleWorkList.pop`
(it probes the live class and replays with whichever discipline it exhibits).  The step-bound
theorems hold for every discipline, so they are unaffected by the choice. -/

/-- the loop of `heapq._siftup`: move the smaller child up until a leaf is reached; returns the
list and the final hole position -/
def siftUpLoop : Nat → List (Nat × Int) → Nat → List (Nat × Int) × Nat
  | 0, h, pos => (h, pos)
  | fuel + 1, h, pos =>
    let child := 2 * pos + 1
    if child < h.length then
      let right := child + 1
      let c := if right < h.length && !tupleLt (h.getD child (0, 0)) (h.getD right (0, 0)) then right else child
      siftUpLoop fuel (h.set pos (h.getD c (0, 0))) c
    else (h, pos)

theorem siftUpLoop_length (fuel : Nat) : ∀ (h : List (Nat × Int)) (pos : Nat),
    (siftUpLoop fuel h pos).1.length = h.length := by
  induction fuel with
  | zero => intro h pos; rfl
  | succ n ih =>
    intro h pos
    simp only [siftUpLoop]
    split
    · rw [ih]; simp
    · rfl

/-- `heapq.heappop` (the popped item is the head) -/
def heapPopRaw (h : List (Nat × Int)) : List (Nat × Int) :=
  match h.getLast? with
  | none => []
  | some last =>
    let h1 := h.dropLast
    if h1.isEmpty then []
    else
      let h2 := h1.set 0 last
      let r := siftUpLoop h2.length h2 0
      siftDown (r.1.length + 1) r.1 r.2 last

theorem heapPopRaw_length (h : List (Nat × Int)) (hne : h.length ≠ 0) :
    (heapPopRaw h).length < h.length := by
  unfold heapPopRaw
  cases hl : h.getLast? with
  | none => simp; omega
  | some last =>
    simp only
    split
    · simp; omega
    · rw [siftDown_length, siftUpLoop_length]; simp; omega

def HeapWL.popq (w : HeapWL) : HeapWL := { w with heap := heapPopRaw w.heap }

def heapqDiscipline : Discipline HeapWL where
  size w := w.heap.length
  peek := HeapWL.peek
  push := HeapWL.push
  pop := HeapWL.popq
  push_le w x := heapDiscipline.push_le w x
  push_ge w x := heapDiscipline.push_ge w x
  pop_lt w h := heapPopRaw_length w.heap h

/-! #### `SimpleWorkList()` without a graph: a plain list, append at the end unless present,
`pop(0)` — first in, first out with de-duplication against the current content. -/

def fifoDiscipline : Discipline (List Int) where
  size w := w.length
  peek w := w.headD 0
  push w x := if w.contains x then w else w ++ [x]
  pop w := w.drop 1
  push_le w x := by split <;> simp
  push_ge w x := by split <;> simp
  pop_lt w h := by simp only [List.length_drop]; omega

/-! ### The visit loop -/

inductive Ev where
  | skip (s : Int)      -- popped without analysis (id ≤ 0, not a statement of the method, or budget used up)
  | visit (s : Int)     -- analysed, popped, counter incremented
  | intr (s : Int)      -- analysis interrupted (callee first): nothing popped, counter unchanged
deriving Repr, DecidableEq

structure VOut (ω γ : Type) where
  events : List Ev
  w : ω
  cnt : Int → Nat
  g : γ
  interrupted : Bool

def bump (cnt : Int → Nat) (s : Int) : Int → Nat := fun x => if x = s then cnt x + 1 else cnt x

/-- the ranking function: pushes still payable by the visit budget + current worklist size. -/
def rank {ω : Type} (D : Discipline ω) (succ : Int → List Int) (V : List Int) (lim : Int → Nat)
    (w : ω) (cnt : Int → Nat) : Nat :=
  sumOver (fun v => (lim v - cnt v) * (succ v).length) V + D.size w

theorem rank_visit {ω : Type} (D : Discipline ω) (succ : Int → List Int) (V : List Int)
    (lim : Int → Nat) (w : ω) (cnt : Int → Nat) (s : Int)
    (hne : D.size w ≠ 0) (hV : s ∈ V) (hlt : cnt s < lim s) :
    rank D succ V lim (D.pop ((succ s).foldl D.push w)) (bump cnt s) < rank D succ V lim w cnt := by
  unfold rank
  have h1 := D.foldl_push_le (succ s) w
  have h2 := D.foldl_push_ge (succ s) w
  have h3 := D.pop_lt ((succ s).foldl D.push w) (by omega)
  have h4 : sumOver (fun v => (lim v - bump cnt s v) * (succ v).length) V + (succ s).length
      ≤ sumOver (fun v => (lim v - cnt v) * (succ v).length) V := by
    apply sumOver_drop hV
    · intro v
      apply Nat.mul_le_mul_right
      unfold bump; split <;> omega
    · have : lim s - bump cnt s s + 1 = lim s - cnt s := by
        unfold bump; simp only [if_true]; omega
      rw [← this, Nat.add_mul]; omega
  omega

set_option linter.unusedVariables false in
/--
`analyze_stmts(frame)`.

* `succ`   — `util.graph_successors(frame.cfg, ·)` (distinct successors, in networkx order);
* `V`      — the keys of `frame.stmt_counters` (all statements of the method);
* `lim s`  — the number of analyses statement `s` is entitled to: `max_analysis_round`, or
             `loop_total_rounds[s] + 1` for the (currently never populated) loop table;
* `cnt`    — `frame.stmt_counters`;
* `analyse s g` — everything between the budget test and `stmt_worklist.pop()`; returns the new
             abstract analysis state and whether `result_flag.interruption_flag` was set.
-/
def visitLoop {ω γ : Type} (D : Discipline ω) (succ : Int → List Int) (V : List Int)
    (lim : Int → Nat) (analyse : Int → γ → γ × Bool) (w : ω) (cnt : Int → Nat) (g : γ) :
    VOut ω γ :=
  if h0 : D.size w = 0 then
    { events := [], w := w, cnt := cnt, g := g, interrupted := false }     -- `while len(worklist) != 0`
  else
    let s := D.peek w
    if hs : s ≤ 0 ∨ V.contains s = false then                                -- not a statement: pop, continue
      let r := visitLoop D succ V lim analyse (D.pop w) cnt g
      { r with events := Ev.skip s :: r.events }
    else if hl : cnt s < lim s then
      let w1 := (succ s).foldl D.push w                                      -- `worklist.add(successors)`
      match analyse s g with
      | (g1, true) =>                                                        -- interruption: return at once
        { events := [Ev.intr s], w := w1, cnt := cnt, g := g1, interrupted := true }
      | (g1, false) =>
        let r := visitLoop D succ V lim analyse (D.pop w1) (bump cnt s) g1   -- pop; counter += 1
        { r with events := Ev.visit s :: r.events }
    else                                                                     -- budget used up: pop, continue
      let r := visitLoop D succ V lim analyse (D.pop w) cnt g
      { r with events := Ev.skip s :: r.events }
termination_by rank D succ V lim w cnt
decreasing_by
  · unfold rank; have := D.pop_lt w h0; omega
  · have hV : s ∈ V := by
      have : V.contains s = true := by
        cases hc : V.contains s with
        | true => rfl
        | false => exact absurd (Or.inr hc) hs
      exact List.contains_iff_mem.1 this
    exact rank_visit D succ V lim w cnt s h0 hV hl
  · unfold rank; have := D.pop_lt w h0; omega

/-- the step count of one invocation -/
def visitSteps {ω γ : Type} (D : Discipline ω) (succ : Int → List Int) (V : List Int)
    (lim : Int → Nat) (analyse : Int → γ → γ × Bool) (w : ω) (cnt : Int → Nat) (g : γ) : Nat :=
  (visitLoop D succ V lim analyse w cnt g).events.length

/-- number of CFG edges leaving statements of the method -/
def edgeCount (succ : Int → List Int) (V : List Int) : Nat := sumOver (fun v => (succ v).length) V

end LianVerif.Termination
