/-
Model of `preprocess_python_import_statements` (src/lian/events/default_event_handlers/basic.py),
the `ORIGINAL_SOURCE_CODE_READY` handler that runs on every Python file before tree-sitter sees it.

Line-wise model on `List Char` (DESIGN §4.4: functions that really inspect text work on characters).
Input = `code.splitlines()` (Python's `splitlines` itself is not modelled), output = the list
`processed_lines` that the code joins with "\n".

Python                                               model
------                                               -----
`line.lstrip()` / `name.strip()`                     `lstrip` / `strip` over `isSpace` (= `str.isspace` on ASCII)
`stripped_line.startswith('import ')`                `importKw.isPrefixOf`
`re.sub(r"^import", "", stripped_line, count=1)`     `drop 6`
`.split(',')`                                        `splitOn ','`
`'.' in name`, `name.replace('.', '_')`              `hasDot`, `under`
`replacements[name] = new_name` (dict, insertion     `addKey`: the keys in first-insertion order (the value is a
  order, overwrite keeps the position)                 function of the key)
`re.sub(rf'\b{re.escape(old)}\b', repl, line)`       `subWord`: leftmost non-overlapping matches, scanned left to
                                                       right; `\b` looks at the ORIGINAL neighbours (`prev`)
`\w` (str pattern)                                   `isWord` = `[A-Za-z0-9_]` — exact on ASCII text; the harness keeps
                                                       non-ASCII characters out of the exact comparison
`python_literal_spans` (tokenize)                    NOT modelled: the spans of string literals / comments of each
                                                       line are an input (`Spans`), like the frontends in C03
`overlaps_spans(spans, a, b)`                        `overlaps`

Two variants are kept side by side:
* `preprocess`  — the code as it is in /repo now (after the three `fix:` commits): the rewritten imports
                  of one line stay on ONE line joined by "; "; a line whose first non-blank character
                  lies in a literal is not an import line; a match of a dotted name that overlaps a
                  literal span is left as it is; the trailing comment of an import line is set aside
                  before the names are extracted and put back behind the rewritten imports;
* `preprocess0` — the pinned commit (frozen; documents the findings): one output line per imported
                  name, no notion of literals (a trailing comment becomes part of the last name).

What neither variant knows is scopes: after `import a.b` EVERY later occurrence of `a.b` in the file
is rewritten (open finding C12/import-rewrite-scope-blind).

Core Lean only: linked into `lvdrv`.
-/
namespace LianVerif.PyImportPre

abbrev Line := List Char

/-- `str.isspace` for ASCII characters: space, \t \n \v \f \r, \x1c–\x1f. -/
def isSpace (c : Char) : Bool :=
  c == ' ' || (9 ≤ c.toNat && c.toNat ≤ 13) || (28 ≤ c.toNat && c.toNat ≤ 31)

/-- `\w` of a `str` pattern on ASCII characters. -/
def isWord (c : Char) : Bool := c.isAlphanum || c == '_'

def lstrip (l : Line) : Line := l.dropWhile isSpace
def rstrip (l : Line) : Line := (l.reverse.dropWhile isSpace).reverse
def strip (l : Line) : Line := rstrip (lstrip l)
/-- `line[:len(line) - len(line.lstrip())]` -/
def leading (l : Line) : Line := l.takeWhile isSpace

def importKw : Line := ['i', 'm', 'p', 'o', 'r', 't', ' ']
def fromKw : Line := ['f', 'r', 'o', 'm', ' ']
def importMid : Line := [' ', 'i', 'm', 'p', 'o', 'r', 't', ' ']
def sepSemi : Line := [';', ' ']

/-- `str.split(sep)` for a one-character separator (never returns the empty list). -/
def splitOn (sep : Char) : Line → List Line
  | [] => [[]]
  | c :: cs =>
    if c == sep then [] :: splitOn sep cs
    else match splitOn sep cs with
      | [] => [[c]]
      | h :: t => (c :: h) :: t

def hasDot (n : Line) : Bool := n.contains '.'
/-- `name.replace('.', '_')` -/
def under (n : Line) : Line := n.map (fun c => if c == '.' then '_' else c)

/-- `replacements[name] = …`: keys in first-insertion order. -/
def addKey (keys : List Line) (n : Line) : List Line := if keys.contains n then keys else keys ++ [n]

/-- `sep.join(parts)` -/
def joinWith (sep : Line) : List Line → Line
  | [] => []
  | [x] => x
  | x :: y :: rest => x ++ sep ++ joinWith sep (y :: rest)

/-! ### `\bold\b` substitution -/

def wordO : Option Char → Bool
  | none => false
  | some c => isWord c

/-- `\b` between two neighbouring characters (`none` = start / end of the line). -/
def boundary (a b : Option Char) : Bool := wordO a != wordO b

/-- does `\bold\b` match at the head of `rest`, whose left neighbour in the line is `prev`? -/
def matchAt (old : Line) (prev : Option Char) (rest : Line) : Bool :=
  !old.isEmpty && old.isPrefixOf rest &&
  boundary prev rest.head? && boundary old.getLast? (rest.drop old.length).head?

abbrev Spans := List (Nat × Nat)

/-- `overlaps_spans(spans, a, b)` -/
def overlaps (spans : Spans) (a b : Nat) : Bool := spans.any (fun s => decide (s.1 < b) && decide (a < s.2))

/-- `re.sub(rf'\b{old}\b', lambda m: m.group(0) if keep(m.start(), m.end()) else new, line)`.
`skip` counts the characters of the current match that are still to be consumed (they were emitted,
replaced or not, when the match was found); `pos` is the column of the head of the list; `prev` the
original character before it. -/
def subAux (old new : Line) (keep : Nat → Nat → Bool) : Nat → Nat → Option Char → Line → Line
  | _, _, _, [] => []
  | skip + 1, pos, _, c :: cs => subAux old new keep skip (pos + 1) (some c) cs
  | 0, pos, prev, c :: cs =>
    if matchAt old prev (c :: cs) then
      (if keep pos (pos + old.length) then old else new) ++
        subAux old new keep (old.length - 1) (pos + 1) (some c) cs
    else c :: subAux old new keep 0 (pos + 1) (some c) cs

def subWord (old new : Line) (keep : Nat → Nat → Bool) (line : Line) : Line :=
  subAux old new keep 0 0 none line

/-- the `for old_name, new_name in replacements.items()` loop on a non-import line. -/
def rewriteLine (keys : List Line) (keep : Nat → Nat → Bool) (line : Line) : Line :=
  keys.foldl (fun l old => subWord old (under old) keep l) line

/-- the imported names of an import line: `[name.strip() for name in rest.split(',')]` -/
def importNames (stripped : Line) : List Line := (splitOn ',' (stripped.drop 6)).map strip

def newImport (n : Line) : Line :=
  if hasDot n then fromKw ++ n ++ importMid ++ under n else importKw ++ n

def addKeys (keys : List Line) (names : List Line) : List Line :=
  names.foldl (fun ks n => if hasDot n then addKey ks n else ks) keys

/-! ### the code as it is now -/

/-- is `line` handled as an import statement? (`spans` = literal spans of this line) -/
def isImportLine (spans : Spans) (line : Line) : Bool :=
  importKw.isPrefixOf (lstrip line) && !overlaps spans (leading line).length ((leading line).length + 1)

/-- column of the trailing comment of an import line: the first literal span that starts with `#`
(`line[span_start:span_start + 1] == '#'`). -/
def commentStart (spans : Spans) (line : Line) : Option Nat :=
  (spans.find? (fun s => (line.drop s.1).head? == some '#')).map (·.1)

/-- the import line without its trailing comment and the blanks in front of it
(`line[:span_start].rstrip()`); the whole line when there is no comment. -/
def importPart (spans : Spans) (line : Line) : Line :=
  match commentStart spans line with
  | some c => rstrip (line.take c)
  | none => line

/-- what is put back behind the rewritten imports: blanks + comment (`line[len(import_part):]`). -/
def trailingComment (spans : Spans) (line : Line) : Line :=
  match commentStart spans line with
  | some _ => line.drop (importPart spans line).length
  | none => []

/-- one iteration of the loop: new key list and the ONE output line. -/
def stepLine (spans : Spans) (keys : List Line) (line : Line) : List Line × Line :=
  if isImportLine spans line then
    let names := importNames (lstrip (importPart spans line))
    (addKeys keys names,
     leading line ++ joinWith sepSemi (names.map newImport) ++ trailingComment spans line)
  else (keys, rewriteLine keys (overlaps spans) line)

def run (keys : List Line) : List Line → List Spans → List Line
  | [], _ => []
  | l :: ls, sp =>
    let r := stepLine (sp.head?.getD []) keys l
    r.2 :: run r.1 ls sp.tail

/-- `processed_lines` for `lines`, given the literal spans of every line (missing entries = none). -/
def preprocess (spans : List Spans) (lines : List Line) : List Line := run [] lines spans

/-! ### the pinned commit (frozen) -/

def stepLine0 (keys : List Line) (line : Line) : List Line × List Line :=
  if importKw.isPrefixOf (lstrip line) then
    let names := importNames (lstrip line)
    (addKeys keys names, names.map (fun n => leading line ++ newImport n))
  else (keys, [rewriteLine keys (fun _ _ => false) line])

def run0 (keys : List Line) : List Line → List Line
  | [] => []
  | l :: ls =>
    let r := stepLine0 keys l
    r.2 ++ run0 r.1 ls

def preprocess0 (lines : List Line) : List Line := run0 [] lines

/-! ### the reported line of a flow (taint_analysis.print_and_write_flows) -/

/-- `"source_line": int(source_stmt.start_row) + 1` -/
def reportLine (startRow : Nat) : Nat := startRow + 1

end LianVerif.PyImportPre
