/-
Model of `EntryPointGenerator` (src/lian/basics/entry_points.py), of the loop in
`P1BasicSemanticAnalysis.run` that drives it (src/lian/basics/basic_analysis.py), of
`EntryPointsLoader` (src/lian/util/loader.py) and — abstractly — of the two consumers of the saved
entry set: `P3GlobalSemanticAnalysis.run` (src/lian/core/global_semantics.py) and
`TaintAnalysis.run` (src/lian/taint/taint_analysis.py).

Texts are `List Char` (Python `str` = sequence of code points).  Python's `a in b` on two strings
is `isInfix a b`; on a list it is `List.contains`.  `util.is_available(x)` on a `str`/`list` is
"non-empty".  The quirks that are mirrored on purpose:

* `unit_name` / `unit_path` are *substring* tests (`"a.py"` matches `"aa.py"`), `unit_name` is
  tested against `os.path.basename(unit_path)`;
* a rule with `method_id ≥ 0` is decided by the id alone (`break` / `continue` before anything else
  is looked at);
* `method_list` / `attrs` given in YAML as a plain string instead of a list: `name in "…"` is a
  substring test, `for attr in "…"` iterates characters;
* `attrs`: a scope with an empty attribute string never satisfies a rule that sets `attrs`;
* `args` / `return_type`: compared with `""`, so a rule that sets either never matches;
* the generator keeps one result set across units, and saves it to the loader only for units that
  have at least one candidate rule (`saved` below; `C20_saved_eq_results` shows the two agree);
* `P1.run` skips units whose path contains `"{{"` (cookiecutter templates) before anything else.

No imports: this file is linked into the `lvdrv` executable.
-/
namespace LianVerif.EntryPoints

abbrev Text := List Char

/-- Python `p in s` for two `str`. -/
def isInfix (p : Text) : Text → Bool
  | [] => p.isEmpty
  | c :: cs => p.isPrefixOf (c :: cs) || isInfix p cs

/-- `os.path.basename` on a POSIX path: everything after the last `/`. -/
def basename (p : Text) : Text := (p.reverse.takeWhile (fun c => c != '/')).reverse

/-- A YAML value that the dataclass annotates as `list[str]` but that may arrive as a `str`. -/
inductive StrOrList where
  | str (s : Text)
  | list (l : List Text)
deriving Repr, DecidableEq

/-- `util.is_available` -/
def StrOrList.avail : StrOrList → Bool
  | .str s => !s.isEmpty
  | .list l => !l.isEmpty

/-- Python `x in v` -/
def StrOrList.has (v : StrOrList) (x : Text) : Bool :=
  match v with
  | .str s => isInfix x s
  | .list l => l.contains x

/-- Python `for a in v` -/
def StrOrList.items : StrOrList → List Text
  | .str s => s.map (fun c => [c])
  | .list l => l

/-- `EntryPointRule` (defaults as in the dataclass). -/
structure Rule where
  lang : Text := []
  unitId : Int := -1
  unitPath : Text := []
  unitName : Text := []
  methodId : Int := -1
  methodList : StrOrList := .list []
  attrs : StrOrList := .list []
  args : Text := []
  returnType : Text := []
deriving Repr, DecidableEq

/-- the three fields of a unit-info row that the generator reads -/
structure UnitInfo where
  lang : Text
  moduleId : Int
  path : Text
deriving Repr, DecidableEq

/-- a `METHOD_KIND` row of the unit's scope hierarchy, after
`name = scope.name if is_available(scope.name) else ""` (same for attrs) -/
structure MethodScope where
  stmtId : Int
  name : Text
  attrs : Text
deriving Repr, DecidableEq

/-- body of the loop in `filter_rule_by_unit_info`: `false` = one of the four `continue`s. -/
def unitMatches (r : Rule) (u : UnitInfo) : Bool :=
  if !r.lang.isEmpty && r.lang != u.lang then false
  else if decide (r.unitId ≥ 0) && r.unitId != u.moduleId then false
  else if !r.unitName.isEmpty && !isInfix r.unitName (basename u.path) then false
  else if !r.unitPath.isEmpty && !isInfix r.unitPath u.path then false
  else true

def filterRules (rules : List Rule) (u : UnitInfo) : List Rule := rules.filter (fun r => unitMatches r u)

/-- body of the inner loop of `check_rules` for one rule: `true` = `matched = True; break`,
`false` = `continue`. -/
def methodMatches (r : Rule) (m : MethodScope) : Bool :=
  if decide (r.methodId ≥ 0) then r.methodId == m.stmtId
  else if r.methodList.avail && !r.methodList.has m.name then false
  else if r.attrs.avail && (m.attrs.isEmpty || !r.attrs.items.all (fun a => isInfix a m.attrs)) then false
  else if !r.args.isEmpty && r.args != [] then false
  else if !r.returnType.isEmpty && r.returnType != [] then false
  else true

/-- the inner `for rule in candidate_rules` with its `break`. -/
def matchedLoop : List Rule → MethodScope → Bool
  | [], _ => false
  | r :: rs, m => if methodMatches r m then true else matchedLoop rs m

/-- Python `set.add` on a list standing for a set (insertion order kept, no duplicates). -/
def setAdd (s : List Int) (x : Int) : List Int := if s.contains x then s else s ++ [x]

/-- Python `a |= b` -/
def setUnion (a b : List Int) : List Int := b.foldl setAdd a

/-- `check_rules`: the outer loop over the unit's method scopes. -/
def checkRules (cands : List Rule) (ms : List MethodScope) (results : List Int) : List Int :=
  ms.foldl (fun acc m => if matchedLoop cands m then setAdd acc m.stmtId else acc) results

/-- `results` = `EntryPointGenerator.entry_point_results`, `saved` = `EntryPointsLoader.entry_points`. -/
structure State where
  results : List Int := []
  saved : List Int := []
deriving Repr

/-- `collect_entry_points_from_unit_scope` -/
def collectUnit (rules : List Rule) (st : State) (um : UnitInfo × List MethodScope) : State :=
  let cands := filterRules rules um.1
  if cands.isEmpty then st
  else
    let results := checkRules cands um.2 st.results
    { results := results, saved := setUnion st.saved results }

def collectAll (rules : List Rule) (units : List (UnitInfo × List MethodScope)) : State :=
  units.foldl (collectUnit rules) {}

/-- what `loader.get_entry_points()` returns after all units were offered to the generator. -/
def select (rules : List Rule) (units : List (UnitInfo × List MethodScope)) : List Int :=
  (collectAll rules units).saved

/-- `P1BasicSemanticAnalysis.is_cookiecutter_file` -/
def isCookiecutter (u : UnitInfo) : Bool := isInfix ['{', '{'] u.path

/-- one iteration of the unit loop of `P1.run`: the unit-info row, whether `loader.get_unit_gir`
came back empty, and the method scopes `UnitScopeHierarchyAnalysis.analyze()` would return -/
structure P1Unit where
  info : UnitInfo
  girEmpty : Bool := false
  methods : List MethodScope
deriving Repr

/-- the two `continue`s at the top of the unit loop -/
def p1Skipped (u : P1Unit) : Bool := isCookiecutter u.info || u.girEmpty

/-- the units that reach `collect_entry_points_from_unit_scope`, in order -/
def p1Analysed (units : List P1Unit) : List (UnitInfo × List MethodScope) :=
  (units.filter (fun u => !p1Skipped u)).map (fun u => (u.info, u.methods))

/-- the part of `P1.run` that concerns entry points -/
def runP1 (rules : List Rule) (units : List P1Unit) : List Int :=
  select rules (p1Analysed units)

/-- the state after every prefix of the unit list (for step-by-step comparison with the code) -/
def trace (rules : List Rule) : State → List (UnitInfo × List MethodScope) → List State
  | _, [] => []
  | st, um :: rest => let st' := collectUnit rules st um; st' :: trace rules st' rest

/-! ### Settings files: which file names `_load_settings` parses -/

/-- `util.check_file_processing_flag_and_extract_lang(file_name, requirement)`, first component:
the name equals `requirement`, or ends with `"-" ++ requirement` and the text before the first
`-` (`file_name.split("-")[0]`) is non-empty. -/
def fileSelected (requirement name : Text) : Bool :=
  if name == requirement then true
  else if (('-' :: requirement).isSuffixOf name) then
    !(name.takeWhile (fun c => c != '-')).isEmpty
  else false

/-- rules of all parsed files, in walk order -/
def loadRules (requirement : Text) (files : List (Text × List Rule)) : List Rule :=
  (files.filter (fun f => fileSelected requirement f.1)).flatMap (fun f => f.2)

/-! ### The consumers of the saved set, abstractly

`analyse e` stands for everything `P3GlobalSemanticAnalysis.run` does for one root frame created by
`init_frame_stack(e, …)` and yields the state-flow graph saved under key `e`; `flowsOf g` stands for
`find_sources` / `find_sinks` / `find_flows` on one loaded graph.  The taint phase iterates all
method ids and only finds a graph for ids under which P3 saved one. -/

def p3Run {G : Type} (analyse : Int → G) (entries : List Int) : List (Int × G) :=
  entries.map (fun e => (e, analyse e))

/-- the root frames created by `P3.run`, in order -/
def p3Roots {G : Type} (analyse : Int → G) (entries : List Int) : List Int :=
  (p3Run analyse entries).map (fun p => p.1)

def sfgLookup {G : Type} (tbl : List (Int × G)) (m : Int) : Option G :=
  (tbl.find? (fun p => p.1 == m)).map (fun p => p.2)

def taintRun {G F : Type} (flowsOf : G → List F) (tbl : List (Int × G)) (allMethods : List Int) : List F :=
  allMethods.flatMap (fun m => match sfgLookup tbl m with
    | none => []
    | some g => flowsOf g)

end LianVerif.EntryPoints
