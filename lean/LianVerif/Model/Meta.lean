/-
C12 — the notion of "edit" on flattened GIR rows, and the actions of an edit on the inputs of the
models of C03 / C04 / C05.

`MRow` is a GIR row as the harness abstracts it from `frontend/gir.bundle*`:
  * `loc`   — `start_row, start_col, end_row, end_col` (absent on block markers and synthetic rows);
  * `rowAttrs` — other attributes that hold a line number (Python `method_decl.decorators`: the row of the
              first decorator, or of the `def` itself);
  * `refs`  — the attributes that hold statement / block ids (every integer attribute whose value is
              the id of a `block_start` row of the unit, plus `original_stmt`);
  * `names` — every string attribute, split into its items when it is the `str()` of a Python list
              (`positional_args = "['x', 'y']"`), otherwise one item;
  * `other` — the remaining attributes as text.
The three maps an edit induces act on disjoint parts of a row:
  * `renumber ρ` on `id`, `parent`, `refs`           (inserting a no-op statement, reordering, moving)
  * `rename σ`   on the items of `names`             (consistent renaming)
  * `relocate λ` on `loc`                            (blank lines, comments, everything that moves text)
`editRows` is what the driver (model "meta") applies to the REAL rows of the base program before it
compares them with the REAL rows of the edited program.

`toScopeRow` is the projection the scope / resolver models of C05 read (the same columns the C05
harness sends); the C12 theorems state that it — hence everything downstream — is blind to
`relocate`, and commutes with `rename` and `renumber`.

Core Lean only: linked into `lvdrv`.
-/
import LianVerif.Model.Scope
import LianVerif.Model.Resolver
import LianVerif.Model.Cfg
import LianVerif.Gir.Rows

namespace LianVerif.Meta

structure Loc where
  startRow : Nat
  startCol : Nat
  endRow : Nat
  endCol : Nat
deriving DecidableEq, Repr

structure MRow where
  op : String
  id : Nat
  parent : Nat
  loc : Option Loc
  rowAttrs : List (String × Nat)
  refs : List (String × Nat)
  names : List (String × List String)
  other : List (String × String)
deriving DecidableEq, Repr

/-! ### the three actions -/

def renumber (ρ : Nat → Nat) (r : MRow) : MRow :=
  { r with id := ρ r.id, parent := ρ r.parent, refs := r.refs.map (fun kv => (kv.1, ρ kv.2)) }

def rename (σ : String → String) (r : MRow) : MRow :=
  { r with names := r.names.map (fun kv => (kv.1, kv.2.map σ)) }

/-- `rowMap` maps line numbers (0-based `start_row` / `end_row`); columns are kept unless `dropCols`
(a renaming changes the width of the renamed tokens), in which case they are zeroed on both sides. -/
def relocateLoc (rowMap : Nat → Nat) (dropCols : Bool) (l : Loc) : Loc :=
  { startRow := rowMap l.startRow, endRow := rowMap l.endRow,
    startCol := if dropCols then 0 else l.startCol, endCol := if dropCols then 0 else l.endCol }

/-- forget where a statement ends (a comment placed right after a block is counted into the extent
of the enclosing compound statements by tree-sitter: `end_row` / `end_col` grow, nothing else changes) -/
def dropEnd (r : MRow) : MRow :=
  { r with loc := r.loc.map (fun l => { l with endRow := 0, endCol := 0 }) }

def relocate (rowMap : Nat → Nat) (dropCols : Bool) (r : MRow) : MRow :=
  { r with loc := r.loc.map (relocateLoc rowMap dropCols),
           rowAttrs := r.rowAttrs.map (fun kv => (kv.1, rowMap kv.2)) }

def eraseLoc (r : MRow) : MRow := { r with loc := none, rowAttrs := [] }

/-- an edit as the harness describes it -/
structure Edit where
  ρ : Nat → Nat
  σ : String → String
  /-- the rows (by base id) whose identifiers the renaming touches: all rows for a unit-wide renaming
  of a function / class, the rows of the renamed occurrences for a local variable -/
  σOn : Nat → Bool
  rowMap : Nat → Nat
  dropCols : Bool

def editRow (e : Edit) (r : MRow) : MRow :=
  relocate e.rowMap e.dropCols (renumber e.ρ (if e.σOn r.id then rename e.σ r else r))

def editRows (e : Edit) (rows : List MRow) : List MRow := rows.map (editRow e)

/-- the rows of the edited program that the edit did not insert, columns treated as on the base side -/
def surviving (inserted : List Nat) (dropCols : Bool) (rows : List MRow) : List MRow :=
  (rows.filter (fun r => !inserted.contains r.id)).map (relocate id dropCols)

def dropEnds (b : Bool) (rows : List MRow) : List MRow := if b then rows.map dropEnd else rows

/-- index of the first position where the two tables differ (`none` = equal) -/
def firstDiff : List MRow → List MRow → Nat → Option Nat
  | [], [], _ => none
  | a :: as, b :: bs, i => if a == b then firstDiff as bs (i + 1) else some i
  | _, _, i => some i

/-! ### finite maps sent by the harness -/

def lookupD (m : List (Nat × Nat)) (k : Nat) : Nat :=
  match m.find? (fun p => p.1 == k) with
  | some p => p.2
  | none => k

def lookupS (m : List (String × String)) (k : String) : String :=
  match m.find? (fun p => p.1 == k) with
  | some p => p.2
  | none => k

/-- piecewise line map: `(from, to, target)` sends `from ≤ r ≤ to` to `target + (r - from)` -/
def pieceMap (ps : List (Nat × Nat × Nat)) (r : Nat) : Nat :=
  match ps.find? (fun p => decide (p.1 ≤ r) && decide (r ≤ p.2.1)) with
  | some p => p.2.2 + (r - p.1)
  | none => r

/-- strictly increasing on the listed keys, in key order; `0 ↦ 0` is implicit (0 is never a key) -/
def strictMonoOn : List (Nat × Nat) → Bool
  | [] => true
  | [p] => decide (0 < p.1) && decide (0 < p.2)
  | p :: q :: rest => decide (0 < p.1) && decide (0 < p.2) && decide (p.1 < q.1) && decide (p.2 < q.2) &&
      strictMonoOn (q :: rest)

def injectiveOn (m : List (Nat × Nat)) : Bool :=
  match m with
  | [] => true
  | p :: rest => !(rest.any (fun q => q.2 == p.2 || q.1 == p.1)) && decide (0 < p.1) && decide (0 < p.2) &&
      injectiveOn rest

/-! ### projections read by the other models -/

def refOf (r : MRow) (k : String) : Option Nat := (r.refs.find? (fun kv => kv.1 == k)).map (·.2)

/-- first item of a name attribute; empty text is `none` (`util.is_available`) -/
def nameOf (r : MRow) (k : String) : Option String :=
  match r.names.find? (fun kv => kv.1 == k) with
  | some (_, n :: _) => if n.isEmpty then none else some n
  | _ => none

/-- the row the scope / resolver models read -/
def toScopeRow (r : MRow) : Scopes.Row String :=
  { op := r.op, id := r.id, parent := r.parent, name := nameOf r "name", alias := nameOf r "alias",
    fields := refOf r "fields", methods := refOf r "methods", nested := refOf r "nested",
    parameters := refOf r "parameters", initBody := refOf r "init_body", body := refOf r "body" }

/-! ### renumbering on the inputs of the models -/

def mapShape (ρ : Nat → Nat) (s : Scopes.Shape) : Scopes.Shape :=
  { s with id := ρ s.id, parent := ρ s.parent, fields := s.fields.map ρ, methods := s.methods.map ρ,
           nested := s.nested.map ρ, parameters := s.parameters.map ρ, initBody := s.initBody.map ρ,
           body := s.body.map ρ }

def mapScopeRow {ν : Type} (ρ : Nat → Nat) (r : Scopes.Row ν) : Scopes.Row ν :=
  { r with id := ρ r.id, parent := ρ r.parent, fields := r.fields.map ρ, methods := r.methods.map ρ,
           nested := r.nested.map ρ, parameters := r.parameters.map ρ, initBody := r.initBody.map ρ,
           body := r.body.map ρ }

/-- ids that may be negative (`-1` = no scope / exit node, `-2` = case without body): the map is the
identity on negatives. -/
def mapInt (ρ : Nat → Nat) (i : Int) : Int := if 0 ≤ i then (ρ i.toNat : Int) else i

def mapDecl {ν : Type} (ρ : Nat → Nat) (d : Resolver.Decl ν) : Resolver.Decl ν :=
  { d with scope := mapInt ρ d.scope, stmt := ρ d.stmt }

def mapSummary {ν : Type} (ρ : Nat → Nat) (S : Resolver.Summary ν) : Resolver.Summary ν :=
  { decls := S.decls.map (mapDecl ρ),
    avail := S.avail.map (fun p => (ρ p.1, p.2.map (mapInt ρ))),
    implicit := S.implicit.map (mapInt ρ) }

open LianVerif.Cfg in
/-- renumbering of a structured statement sequence (the input of the CFG model) -/
def mapS (ρ : Nat → Nat) : S → S
  | .nil => .nil
  | .simple id rest => .simple (ρ id) (mapS ρ rest)
  | .ifS id thn els rest => .ifS (ρ id) (mapS ρ thn) (mapS ρ els) (mapS ρ rest)
  | .whileS id ct pre body els rest => .whileS (ρ id) ct (mapS ρ pre) (mapS ρ body) (mapS ρ els) (mapS ρ rest)
  | .doS id ct body pre rest => .doS (ρ id) ct (mapS ρ body) (mapS ρ pre) (mapS ρ rest)
  | .forS id ct init pre upd body rest =>
    .forS (ρ id) ct (mapS ρ init) (mapS ρ pre) (mapS ρ upd) (mapS ρ body) (mapS ρ rest)
  | .brk id rest => .brk (ρ id) (mapS ρ rest)
  | .cont id rest => .cont (ρ id) (mapS ρ rest)
  | .ret id rest => .ret (ρ id) (mapS ρ rest)
  | .decl id rest => .decl (ρ id) (mapS ρ rest)
  | .classS id flds sinit init methods nested rest =>
    .classS (ρ id) flds (mapS ρ sinit) (mapS ρ init) (mapS ρ methods) (mapS ρ nested) (mapS ρ rest)
  | .tryS id body catches els fin rest =>
    .tryS (ρ id) (mapS ρ body) (mapS ρ catches) (mapS ρ els) (mapS ρ fin) (mapS ρ rest)
  | .clause id body rest => .clause (ρ id) (mapS ρ body) (mapS ρ rest)
  | .switchS id ft cases rest => .switchS (ρ id) ft (mapS ρ cases) (mapS ρ rest)
  | .caseS id dflt body rest => .caseS (ρ id) dflt (mapS ρ body) (mapS ρ rest)

def mapEdge (ρ : Nat → Nat) (e : Cfg.Edge) : Cfg.Edge := (ρ e.1, mapInt ρ e.2.1, e.2.2)

def mapResult (ρ : Nat → Nat) : Cfg.Result → Cfg.Result
  | .ok es => .ok (es.map (mapEdge ρ))
  | .error c => .error c

/-! ### location attributes on `Gir.Row` (the rows `add_main_func` works on) -/

def locKeys : List String := ["start_row", "start_col", "end_row", "end_col"]

/-- drop the four location attributes -/
def eraseLocG (r : Gir.Row) : Gir.Row := { r with attrs := r.attrs.filter (fun kv => !locKeys.contains kv.1) }

def renumberG (ρ : Nat → Nat) (r : Gir.Row) : Gir.Row := { r with id := ρ r.id, parent := ρ r.parent }

end LianVerif.Meta
