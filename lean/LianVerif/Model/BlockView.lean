/-
Model of `GIRBlockViewer` (src/lian/util/gir_block.py): the constructor's single pass over the
statements of a unit (duplicate detection, operation index left out, block geometry with a stack) and
the range-based views.  A viewer is immutable after construction (`append_other` re-runs the
constructor), so there is no history here: the property is about one pass.

No imports: this file is linked into the `lvdrv` executable.
-/
namespace LianVerif.BlockView

inductive Kind where
  | start   -- operation == "block_start"
  | fin     -- operation == "block_end"
  | other
deriving DecidableEq, Repr

structure Stmt where
  kind : Kind
  id : Int
deriving DecidableEq, Repr

/-- the four `RuntimeError`s of the constructor -/
inductive BErr where
  | dup        -- "duplicate stmt_id detected"
  | noStart    -- "block_end without block_start"
  | mismatch   -- "block nesting mismatch"
  | unclosed   -- "unclosed block detected"
deriving DecidableEq, Repr

structure St where
  /-- statements consumed so far (Python: `index + 1`) -/
  n : Nat
  /-- `_stmt_id_to_index`, with the operation of the statement stored at that index -/
  first : List (Int × Nat × Kind)
  /-- `_block_id_to_range`; a later entry for the same id shadows an earlier one, like the dict -/
  ranges : List (Int × Nat × Nat)
  /-- `block_stack`, top first -/
  stack : List (Int × Nat)
deriving DecidableEq, Repr

def St.init : St := { n := 0, first := [], ranges := [], stack := [] }

def lookupFirst (l : List (Int × Nat × Kind)) (id : Int) : Option (Nat × Kind) :=
  match l.find? (fun e => e.1 = id) with
  | some e => some e.2
  | none => none

def lookupRange (l : List (Int × Nat × Nat)) (id : Int) : Option (Nat × Nat) :=
  match l.find? (fun e => e.1 = id) with
  | some e => some e.2
  | none => none

/-- one iteration of `for stmt in unit_gir` -/
def consume (s : St) (st : Stmt) : Except BErr St :=
  -- duplicate detection (only block_start … block_end may share an id)
  let first? : Except BErr (List (Int × Nat × Kind)) :=
    match lookupFirst s.first st.id with
    | none => .ok (s.first ++ [(st.id, s.n, st.kind)])
    | some (_, k0) => if k0 = Kind.start ∧ st.kind = Kind.fin then .ok s.first else .error .dup
  match first? with
  | .error e => .error e
  | .ok first =>
    match st.kind with
    | .start => .ok { n := s.n + 1, first := first, ranges := s.ranges, stack := (st.id, s.n) :: s.stack }
    | .fin =>
      match s.stack with
      | [] => .error .noStart
      | (bid, p) :: rest =>
        if bid ≠ st.id then .error .mismatch
        else .ok { n := s.n + 1, first := first, ranges := (st.id, p, s.n) :: s.ranges, stack := rest }
    | .other => .ok { s with n := s.n + 1, first := first }

def consumeAll (s : St) : List Stmt → Except BErr St
  | [] => .ok s
  | st :: rest =>
    match consume s st with
    | .error e => .error e
    | .ok s' => consumeAll s' rest

/-- `GIRBlockViewer(unit_gir)` -/
def build (stmts : List Stmt) : Except BErr St :=
  match consumeAll St.init stmts with
  | .error e => .error e
  | .ok s => if s.stack.isEmpty then .ok s else .error .unclosed

/-- a view: `BlockRange(lo, hi)`, visible indices `lo < i < hi`; the root view is `(-1, n)` -/
abbrev Range := Int × Int

def root (s : St) : Range := (-1, s.n)

/-- `read_block` from a view: the block's own range when it lies strictly inside the view -/
def readBlock (s : St) (v : Range) (id : Int) : Option Range :=
  match lookupRange s.ranges id with
  | none => none
  | some (p, q) => if v.1 < (p : Int) ∧ (q : Int) < v.2 then some ((p : Int), (q : Int)) else none

/-- `__iter__` of a view over the statement collection -/
def visible (stmts : List Stmt) (v : Range) : List Stmt :=
  (stmts.drop (v.1 + 1).toNat).take (v.2 - (v.1 + 1)).toNat

end LianVerif.BlockView
