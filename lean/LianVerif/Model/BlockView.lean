/-
Model of `GIRBlockViewer` (src/lian/util/gir_block.py): the constructor's single pass over the
statements of a unit (duplicate detection, operation index left out, block geometry with a stack) and
the range-based views.  A viewer is immutable after construction (`append_other` re-runs the
constructor), so there is no history here: the property is about one pass.

No imports: this file is linked into the `lvdrv` executable.
-/
namespace LianVerif.BlockView

inductive Kind where
  | start   -- operation == "block_start"
  | fin     -- operation == "block_end"
  | other
deriving DecidableEq, Repr

structure Stmt where
  kind : Kind
  id : Int
deriving DecidableEq, Repr

/-- the four `RuntimeError`s of the constructor -/
inductive BErr where
  | dup        -- "duplicate stmt_id detected"
  | noStart    -- "block_end without block_start"
  | mismatch   -- "block nesting mismatch"
  | unclosed   -- "unclosed block detected"
deriving DecidableEq, Repr

structure St where
  /-- statements consumed so far (Python: `index + 1`) -/
  n : Nat
  /-- `_stmt_id_to_index`, with the operation of the statement stored at that index -/
  first : List (Int × Nat × Kind)
  /-- `_block_id_to_range`; a later entry for the same id shadows an earlier one, like the dict -/
  ranges : List (Int × Nat × Nat)
  /-- `block_stack`, top first -/
  stack : List (Int × Nat)
deriving DecidableEq, Repr

def St.init : St := { n := 0, first := [], ranges := [], stack := [] }

def lookupFirst (l : List (Int × Nat × Kind)) (id : Int) : Option (Nat × Kind) :=
  match l.find? (fun e => e.1 = id) with
  | some e => some e.2
  | none => none

def lookupRange (l : List (Int × Nat × Nat)) (id : Int) : Option (Nat × Nat) :=
  match l.find? (fun e => e.1 = id) with
  | some e => some e.2
  | none => none

/-- one iteration of `for stmt in unit_gir` -/
def consume (s : St) (st : Stmt) : Except BErr St :=
  -- duplicate detection (only block_start … block_end may share an id)
  let first? : Except BErr (List (Int × Nat × Kind)) :=
    match lookupFirst s.first st.id with
    | none => .ok (s.first ++ [(st.id, s.n, st.kind)])
    | some (_, k0) => if k0 = Kind.start ∧ st.kind = Kind.fin then .ok s.first else .error .dup
  match first? with
  | .error e => .error e
  | .ok first =>
    match st.kind with
    | .start => .ok { n := s.n + 1, first := first, ranges := s.ranges, stack := (st.id, s.n) :: s.stack }
    | .fin =>
      match s.stack with
      | [] => .error .noStart
      | (bid, p) :: rest =>
        if bid ≠ st.id then .error .mismatch
        else .ok { n := s.n + 1, first := first, ranges := (st.id, p, s.n) :: s.ranges, stack := rest }
    | .other => .ok { s with n := s.n + 1, first := first }

def consumeAll (s : St) : List Stmt → Except BErr St
  | [] => .ok s
  | st :: rest =>
    match consume s st with
    | .error e => .error e
    | .ok s' => consumeAll s' rest

/-- `GIRBlockViewer(unit_gir)` -/
def build (stmts : List Stmt) : Except BErr St :=
  match consumeAll St.init stmts with
  | .error e => .error e
  | .ok s => if s.stack.isEmpty then .ok s else .error .unclosed

/-- a view: `BlockRange(lo, hi)`, visible indices `lo < i < hi`; the root view is `(-1, n)` -/
abbrev Range := Int × Int

def root (s : St) : Range := (-1, s.n)

/-- `read_block` from a view: the block's own range when it lies strictly inside the view -/
def readBlock (s : St) (v : Range) (id : Int) : Option Range :=
  match lookupRange s.ranges id with
  | none => none
  | some (p, q) => if v.1 < (p : Int) ∧ (q : Int) < v.2 then some ((p : Int), (q : Int)) else none

/-- `__iter__` of a view over the statement collection -/
def visible (stmts : List Stmt) (v : Range) : List Stmt :=
  (stmts.drop (v.1 + 1).toNat).take (v.2 - (v.1 + 1)).toNat

end LianVerif.BlockView

/-! ### viewers as objects: every public method of `GIRBlockViewer`

A statement now also carries the identity of its `Row` object (`uid`) and a code for its operation
string.  A `Viewer` is a value: `append_other` re-runs `__init__` on the receiver, which binds *new*
lists/dicts, so viewers that shared the old ones (block views, copies) are not affected. -/
namespace LianVerif.BlockView

structure VStmt where
  core : Stmt
  uid : Nat
  /-- code of the operation string for statements that are neither block_start nor block_end -/
  tag : Nat
  /-- `Row.get_index()` -/
  label : Int
deriving DecidableEq, Repr

/-- operation code: 0 = "block_start", 1 = "block_end", 2 + tag otherwise -/
def VStmt.opcode (s : VStmt) : Nat :=
  match s.core.kind with
  | .start => 0
  | .fin => 1
  | .other => 2 + s.tag

structure Viewer where
  coll : List VStmt
  st : St
  range : Range
deriving DecidableEq, Repr

/-- the fields `__init__` sets before it looks at its argument -/
def Viewer.empty : Viewer := { coll := [], st := St.init, range := (-1, 0) }

def visibleOf {α : Type} (l : List α) (r : Range) : List α :=
  (l.drop (r.1 + 1).toNat).take (r.2 - (r.1 + 1)).toNat

def Viewer.visible (v : Viewer) : List VStmt := visibleOf v.coll v.range

/-- `__len__` = `BlockRange.size()` -/
def Viewer.len (v : Viewer) : Nat := (v.range.2 - v.range.1 - 1).toNat

/-- the loop of `__init__`, keeping what had been done when it raised: state after the accepted
prefix, number of accepted statements, the error -/
def consumeKeep (s : St) (k : Nat) : List Stmt → St × Nat × Option BErr
  | [] => (s, k, none)
  | st :: rest =>
    match consume s st with
    | .error e => (s, k, some e)
    | .ok s' => consumeKeep s' (k + 1) rest

/-- `GIRBlockViewer(unit_gir)` for an iterable of statements -/
def Viewer.ofList (l : List VStmt) : Except BErr Viewer :=
  if l.isEmpty then .ok Viewer.empty
  else match build (l.map (fun s => s.core)) with
    | .ok s => .ok { coll := l, st := s, range := (-1, (l.length : Int)) }
    | .error e => .error e

/-- `GIRBlockViewer(other_viewer)`: `util.is_empty(unit_gir)` is asked first, and a viewer without a
visible statement is "empty" -/
def Viewer.copy (v : Viewer) : Viewer := if v.len == 0 then Viewer.empty else v

/-- `read_block` as an object -/
def Viewer.readBlock (v : Viewer) (id : Option Int) : Option Viewer :=
  match id with
  | none => none          -- `util.is_empty(block_id)`
  | some i =>
    match LianVerif.BlockView.readBlock v.st v.range i with
    | some r => some { v with range := r }
    | none => none

/-- `append_other`.  `atomic = true`: the code in the repository now (the rebuild happens on a fresh
object and is adopted only when it succeeded); `atomic = false`: the pinned commit, where `__init__`
runs on the receiver itself and a `RuntimeError` leaves it half-built with the range `(-1, 0)`. -/
def Viewer.appendOther (atomic : Bool) (v o : Viewer) : Viewer × Option BErr :=
  let combined := v.visible ++ o.visible
  match Viewer.ofList combined with
  | .ok r => (r, none)
  | .error e =>
    if atomic then (v, some e)
    else
      match consumeKeep St.init 0 (combined.map (fun s => s.core)) with
      | (s, k, _) => ({ coll := combined.take (k + 1), st := s, range := (-1, 0) }, some e)

/-! queries -/

def inRange (r : Range) (k : Int) : Bool := decide (r.1 < k) && decide (k < r.2)

/-- `__getitem__(int)`; `none` = `IndexError` -/
def Viewer.getItem (v : Viewer) (i : Int) : Option VStmt :=
  let n : Int := v.len
  let j := if i < 0 then i + n else i
  if j < 0 ∨ j ≥ n then none else v.coll[(v.range.1 + 1 + j).toNat]?

/-- `__getitem__(slice(a, b))` = `list(self)[a:b]` -/
def Viewer.getSlice (v : Viewer) (a b : Int) : List VStmt :=
  let l := v.visible
  let n := l.length
  let cl (x : Int) : Nat := if x < 0 then (x + n).toNat else min x.toNat n
  (l.drop (cl a)).take (cl b - cl a)

/-- `__contains__`: first index of the statement's id, inside the range, and the very same object -/
def Viewer.contains (v : Viewer) (uid : Nat) (id : Int) : Bool :=
  match lookupFirst v.st.first id with
  | none => false
  | some (i, _) =>
    inRange v.range i && (match v.coll[i]? with | some s => s.uid == uid | none => false)

def Viewer.containsStmtId (v : Viewer) (id : Int) : Bool :=
  match lookupFirst v.st.first id with
  | none => false
  | some (i, _) => inRange v.range i

def insertNodup (x : Int) : List Int → List Int
  | [] => [x]
  | y :: ys => if x = y then y :: ys else if x < y then x :: y :: ys else y :: insertNodup x ys

/-- `get_all_stmt_ids`: `sorted(set(...))` -/
def Viewer.allStmtIds (v : Viewer) : List Int :=
  (v.visible.map (fun s => s.core.id)).foldl (fun acc x => insertNodup x acc) []

/-- `get_block_stmt_ids`: no visibility check -/
def Viewer.blockStmtIds (v : Viewer) (id : Option Int) : List Int :=
  match id with
  | none => []
  | some i =>
    match lookupRange v.st.ranges i with
    | none => []
    | some (p, q) => (visibleOf v.coll ((p : Int), (q : Int))).map (fun s => s.core.id)

def Viewer.stmtById (v : Viewer) (id : Int) : Option VStmt :=
  match lookupFirst v.st.first id with
  | none => none
  | some (i, _) => if inRange v.range i then v.coll[i]? else none

def Viewer.stmtByPos (v : Viewer) (k : Int) : Option VStmt :=
  if inRange v.range k then v.coll[k.toNat]? else none

def Viewer.queryOperation (v : Viewer) (code : Nat) : List VStmt :=
  v.visible.filter (fun s => s.opcode == code)

/-- `boundary_of_multi_blocks`: no visibility check -/
def Viewer.boundary (v : Viewer) (ids : List (Option Int)) : Int :=
  ids.foldl (fun m id =>
    match id with
    | none => m
    | some i =>
      match lookupRange v.st.ranges i with
      | none => m
      | some (_, q) => if (q : Int) > m then (q : Int) else m) (-1)

/-- the objects of a history -/
inductive VOp where
  | new (l : List VStmt)
  | empty
  | copy (i : Nat)
  | read (i : Nat) (id : Option Int)
  | append (i j : Nat)
deriving DecidableEq, Repr

inductive VOut where
  | ok | none | err (e : BErr) | badSlot
deriving DecidableEq, Repr

def stepV (atomic : Bool) (slots : List Viewer) : VOp → List Viewer × VOut
  | .new l =>
    match Viewer.ofList l with
    | .ok v => (slots ++ [v], .ok)
    | .error e => (slots, .err e)
  | .empty => (slots ++ [Viewer.empty], .ok)
  | .copy i =>
    match slots[i]? with
    | some v => (slots ++ [v.copy], .ok)
    | none => (slots, .badSlot)
  | .read i id =>
    match slots[i]? with
    | some v =>
      match v.readBlock id with
      | some b => (slots ++ [b], .ok)
      | none => (slots, .none)
    | none => (slots, .badSlot)
  | .append i j =>
    match slots[i]?, slots[j]? with
    | some v, some o =>
      match Viewer.appendOther atomic v o with
      | (v', none) => (slots.set i v', .ok)
      | (v', some e) => (slots.set i v', .err e)
    | _, _ => (slots, .badSlot)

end LianVerif.BlockView
