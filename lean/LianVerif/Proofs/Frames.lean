/-
Helper lemmas for C07 (frame-stack driver).  The property theorems are in Properties/C07.lean.
-/
import LianVerif.Model.Frames
import LianVerif.Proofs.PathStore

namespace LianVerif.MaxPaths
open LianVerif.PathStore

variable {α : Type} [DecidableEq α]

/-- the specification's `add`: covers the added path, never loses coverage, adds nothing else -/
theorem specAdd_props (valid : α → Bool) (S : List (List α)) (p : List α) (hv : p.all valid = true) :
    (∃ q ∈ (specAdd valid S p).1, p <+: q) ∧
    (∀ p', (∃ q ∈ S, p' <+: q) → ∃ q ∈ (specAdd valid S p).1, p' <+: q) ∧
    (∀ q ∈ (specAdd valid S p).1, q ∈ S ∨ q = p) := by
  simp only [specAdd, hv, Bool.not_true, Bool.false_or]
  by_cases hc : (S.contains p || S.any (fun q => strictPrefix p q)) = true
  · rw [if_pos hc]
    refine ⟨?_, fun p' hp' => hp', fun q hq => Or.inl hq⟩
    rw [Bool.or_eq_true] at hc
    rcases hc with hc | hc
    · exact ⟨p, List.contains_iff_mem.1 hc, List.prefix_refl p⟩
    · obtain ⟨q, hq, hpq⟩ := List.any_eq_true.1 hc
      exact ⟨q, hq, (strictPrefix_iff.1 hpq).1⟩
  · rw [if_neg hc]
    refine ⟨⟨p, by simp, List.prefix_refl p⟩, ?_, ?_⟩
    · rintro p' ⟨q, hq, hpq⟩
      by_cases hqp : strictPrefix q p = true
      · exact ⟨p, by simp, hpq.trans (strictPrefix_iff.1 hqp).1⟩
      · refine ⟨q, ?_, hpq⟩
        simp only [List.mem_append, List.mem_filter, Bool.not_eq_true', List.mem_singleton]
        exact Or.inl ⟨hq, by simpa using hqp⟩
    · intro q hq
      simp only [List.mem_append, List.mem_filter, List.mem_singleton] at hq
      rcases hq with ⟨hq, _⟩ | hq
      · exact Or.inl hq
      · exact Or.inr hq

end LianVerif.MaxPaths

namespace LianVerif.Frames
open LianVerif.PathStore LianVerif.MaxPaths

/-! ### counters -/

theorem ctrGet_ctrInc_eq (c : Counter) (s : Site) : ctrGet (ctrInc c s) s = ctrGet c s + 1 := by
  induction c with
  | nil => simp [ctrInc, ctrGet]
  | cons kv rest ih =>
    obtain ⟨k, v⟩ := kv
    by_cases h : k = s
    · simp [ctrInc, ctrGet, h]
    · simp [ctrInc, ctrGet, h, ih]

theorem ctrGet_ctrInc_ne (c : Counter) {s t : Site} (h : s ≠ t) : ctrGet (ctrInc c s) t = ctrGet c t := by
  induction c with
  | nil => simp [ctrInc, ctrGet, h]
  | cons kv rest ih =>
    obtain ⟨k, v⟩ := kv
    by_cases hk : k = s
    · subst hk; simp [ctrInc, ctrGet, h]
    · by_cases hkt : k = t
      · subst hkt; simp [ctrInc, ctrGet, hk]
      · simp [ctrInc, ctrGet, hk, hkt, ih]

theorem ctrGet_ctrInc_ge (c : Counter) (s t : Site) : ctrGet c t ≤ ctrGet (ctrInc c s) t := by
  by_cases h : s = t
  · subst h; rw [ctrGet_ctrInc_eq]; omega
  · rw [ctrGet_ctrInc_ne c h]; exact Nat.le_refl _

/-! ### content_already_analyzed -/

def countFalse : Caa → Nat
  | [] => 0
  | (_, v) :: rest => (if v then 0 else 1) + countFalse rest

theorem firstFalse_none {c : Caa} (h : firstFalse c = none) : countFalse c = 0 := by
  induction c with
  | nil => rfl
  | cons kv rest ih =>
    obtain ⟨k, v⟩ := kv
    cases v with
    | false => simp [firstFalse] at h
    | true =>
      simp only [firstFalse, if_true] at h
      cases hr : firstFalse rest with
      | none => simp [countFalse, ih hr]
      | some x => rw [hr] at h; obtain ⟨a, b⟩ := x; simp at h

theorem firstFalse_some {c : Caa} {k : Site} {c' : Caa} (h : firstFalse c = some (k, c')) :
    countFalse c = countFalse c' + 1 := by
  induction c generalizing c' with
  | nil => simp [firstFalse] at h
  | cons kv rest ih =>
    obtain ⟨k0, v⟩ := kv
    cases v with
    | false =>
      simp only [firstFalse, Bool.false_eq_true, if_false, Option.some.injEq, Prod.mk.injEq] at h
      obtain ⟨_, rfl⟩ := h
      simp [countFalse]; omega
    | true =>
      simp only [firstFalse, if_true] at h
      cases hr : firstFalse rest with
      | none => rw [hr] at h; simp at h
      | some x =>
        obtain ⟨a, b⟩ := x
        rw [hr] at h
        simp only [Option.some.injEq, Prod.mk.injEq] at h
        obtain ⟨rfl, rfl⟩ := h
        simp [countFalse, ih hr]

theorem countFalse_append (a b : Caa) : countFalse (a ++ b) = countFalse a + countFalse b := by
  induction a with
  | nil => simp [countFalse]
  | cons kv rest ih => obtain ⟨k, v⟩ := kv; simp [countFalse, ih]; omega

theorem countFalse_newCaa_le (m stmt : Nat) (acc : List Nat) :
    countFalse (newCaa m stmt acc) ≤ acc.length := by
  unfold newCaa
  suffices h : ∀ (d : Caa), countFalse (acc.foldl
      (fun d c => if caaHas d (m, stmt, c) then d else d ++ [((m, stmt, c), false)]) d)
      ≤ countFalse d + acc.length by
    have := h []; simpa [countFalse] using this
  induction acc with
  | nil => intro d; simp
  | cons c cs ih =>
    intro d
    simp only [List.foldl_cons, List.length_cons]
    split
    · have := ih d; omega
    · have := ih (d ++ [((m, stmt, c), false)])
      rw [countFalse_append] at this
      simp [countFalse] at this
      omega

/-! ### the potential that bounds the number of frames -/

/-- Σ over the universe `U` of call sites of `min (counter site) (max+1)` -/
def phi (max : Nat) (U : List Site) (c : Counter) : Nat :=
  (U.map (fun u => Nat.min (ctrGet c u) (max + 1))).sum

theorem phi_le (max : Nat) (U : List Site) (c : Counter) : phi max U c ≤ (max + 1) * U.length := by
  unfold phi
  induction U with
  | nil => simp
  | cons u U ih =>
    simp only [List.map_cons, List.sum_cons, List.length_cons]
    have : Nat.min (ctrGet c u) (max + 1) ≤ max + 1 := Nat.min_le_right _ _
    rw [Nat.mul_succ]; omega

theorem phi_nil (max : Nat) (U : List Site) : phi max U ([] : Counter) = 0 := by
  unfold phi
  induction U with
  | nil => rfl
  | cons u U ih =>
    simp only [List.map_cons, List.sum_cons, ih]
    simp [ctrGet]

theorem phi_mono_inc (max : Nat) (U : List Site) (c : Counter) (s : Site) :
    phi max U c ≤ phi max U (ctrInc c s) := by
  unfold phi
  induction U with
  | nil => simp
  | cons u U ih =>
    simp only [List.map_cons, List.sum_cons]
    have h1 := ctrGet_ctrInc_ge c s u
    have : Nat.min (ctrGet c u) (max + 1) ≤ Nat.min (ctrGet (ctrInc c s) u) (max + 1) := by
      simp only [Nat.min_def]; split <;> split <;> omega
    omega

theorem phi_inc_descend (max : Nat) (U : List Site) (c : Counter) (s : Site) (hs : s ∈ U)
    (hle : ctrGet c s ≤ max) : phi max U c + 1 ≤ phi max U (ctrInc c s) := by
  unfold phi
  induction U with
  | nil => simp at hs
  | cons u U ih =>
    simp only [List.map_cons, List.sum_cons]
    by_cases hu : u = s
    · subst hu
      have h1 : Nat.min (ctrGet (ctrInc c u) u) (max + 1) = Nat.min (ctrGet c u) (max + 1) + 1 := by
        rw [ctrGet_ctrInc_eq]; simp only [Nat.min_def]; split <;> split <;> omega
      have h2 := phi_mono_inc max U c u
      unfold phi at h2
      omega
    · have hs' : s ∈ U := by
        rcases List.mem_cons.1 hs with h | h
        · exact absurd h.symm hu
        · exact h
      have := ih hs'
      have h1 := ctrGet_ctrInc_ge c s u
      have : Nat.min (ctrGet c u) (max + 1) ≤ Nat.min (ctrGet (ctrInc c s) u) (max + 1) := by
        simp only [Nat.min_def]; split <;> split <;> omega
      omega

theorem descendOk_ctr_le {max : Nat} {store : Store Site} {f : Frame} {ctr : Counter} {stmt c : Nat}
    (h : descendOk max store f ctr stmt c = true) : ctrGet ctr (f.method, stmt, c) ≤ max := by
  simp only [descendOk, Bool.not_eq_true', Bool.or_eq_false_iff, decide_eq_false_iff_not] at h
  omega

theorem firstLoop_phi (max : Nat) (U : List Site) (store : Store Site) (f : Frame) (stmt : Nat)
    (cs : List Nat) (hU : ∀ c ∈ cs, (f.method, stmt, c) ∈ U) :
    ∀ (ctr : Counter) (acc : List Nat),
      phi max U ctr + (firstLoop max store f stmt cs ctr acc).2.length ≤
        phi max U (firstLoop max store f stmt cs ctr acc).1 + acc.length := by
  induction cs with
  | nil => intro ctr acc; simp [firstLoop]
  | cons c cs ih =>
    intro ctr acc
    have hU' : ∀ c' ∈ cs, (f.method, stmt, c') ∈ U := fun c' hc' => hU c' (List.mem_cons_of_mem _ hc')
    simp only [firstLoop]
    split
    · rename_i hd
      have h1 := ih hU' (ctrInc ctr (f.method, stmt, c)) (acc ++ [c])
      have h2 := phi_inc_descend max U ctr (f.method, stmt, c) (hU c List.mem_cons_self)
        (descendOk_ctr_le hd)
      simp only [List.length_append, List.length_cons, List.length_nil] at h1
      omega
    · exact ih hU' ctr acc

theorem secondLoop_phi (max : Nat) (U : List Site) (f : Frame) (stmt : Nat) (cs : List Nat) :
    ∀ (ctr : Counter) (st : Store Site), phi max U ctr ≤ phi max U (secondLoop f stmt cs ctr st).1 := by
  induction cs with
  | nil => intro ctr st; simp [secondLoop]
  | cons c cs ih =>
    intro ctr st
    simp only [secondLoop]
    exact Nat.le_trans (phi_mono_inc max U ctr _) (ih _ _)

/-- what `analyze` guarantees for the frame bound -/
theorem analyze_phi (max : Nat) (U : List Site) (f : Frame) (todo : List Inv)
    (hU : ∀ inv ∈ todo, ∀ c ∈ inv.callees, (f.method, inv.stmt, c) ∈ U) :
    ∀ (st : Store Site) (ctr : Counter) (log : List Event),
      (∀ inv ∈ (analyze max f todo st ctr log).todo, inv ∈ todo) ∧
      (match (analyze max f todo st ctr log).outcome with
       | .finished => phi max U ctr ≤ phi max U (analyze max f todo st ctr log).counter
       | .interrupt _ acc => phi max U ctr + acc.length ≤ phi max U (analyze max f todo st ctr log).counter) := by
  induction todo with
  | nil => intro st ctr log; simp [analyze]
  | cons inv rest ih =>
    intro st ctr log
    have hU' : ∀ inv' ∈ rest, ∀ c ∈ inv'.callees, (f.method, inv'.stmt, c) ∈ U :=
      fun inv' h => hU inv' (List.mem_cons_of_mem _ h)
    have hfl := firstLoop_phi max U st f inv.stmt inv.callees (hU inv List.mem_cons_self) ctr []
    simp only [analyze]
    split
    · rename_i hemp
      have hlen : (firstLoop max st f inv.stmt inv.callees ctr []).2.length = 0 := by
        simpa [List.isEmpty_iff] using hemp
      have h2 := secondLoop_phi max U f inv.stmt inv.callees
        (firstLoop max st f inv.stmt inv.callees ctr []).1 st
      obtain ⟨ih1, ih2⟩ := ih hU'
        (secondLoop f inv.stmt inv.callees (firstLoop max st f inv.stmt inv.callees ctr []).1 st).2
        (secondLoop f inv.stmt inv.callees (firstLoop max st f inv.stmt inv.callees ctr []).1 st).1
        (log ++ [.cts f.serial f.method inv.stmt inv.callees []
          (reasons max st f inv.stmt inv.callees ctr)])
      refine ⟨fun i hi => List.mem_cons_of_mem _ (ih1 i hi), ?_⟩
      simp only [List.length_nil] at hfl
      revert ih2
      split <;> intro ih2 <;> omega
    · refine ⟨fun i hi => List.mem_cons_of_mem _ hi, ?_⟩
      simp only [List.length_nil] at hfl
      omega

/-! ### the first loop selects exactly the callees that pass the cut-off test -/

theorem descendOk_congr {max : Nat} {store : Store Site} {f : Frame} {ctr ctr0 : Counter} {stmt c : Nat}
    (h : ctrGet ctr (f.method, stmt, c) = ctrGet ctr0 (f.method, stmt, c)) :
    descendOk max store f ctr stmt c = descendOk max store f ctr0 stmt c := by
  simp only [descendOk, h]

theorem firstLoop_filter (max : Nat) (store : Store Site) (f : Frame) (stmt : Nat) (ctr0 : Counter)
    (cs : List Nat) (hnd : cs.Nodup) :
    ∀ (ctr : Counter) (acc : List Nat),
      (∀ c ∈ cs, ctrGet ctr (f.method, stmt, c) = ctrGet ctr0 (f.method, stmt, c)) →
      (firstLoop max store f stmt cs ctr acc).2 =
        acc ++ cs.filter (fun c => descendOk max store f ctr0 stmt c) := by
  induction cs with
  | nil => intro ctr acc _; simp [firstLoop]
  | cons c cs ih =>
    intro ctr acc hag
    have hnd' : cs.Nodup := (List.nodup_cons.1 hnd).2
    have hc : c ∉ cs := (List.nodup_cons.1 hnd).1
    have hd : descendOk max store f ctr stmt c = descendOk max store f ctr0 stmt c :=
      descendOk_congr (hag c List.mem_cons_self)
    simp only [firstLoop, List.filter_cons, hd]
    split
    · rw [ih hnd' _ _ ?_]
      · simp
      · intro c' hc'
        have hne : (f.method, stmt, c) ≠ (f.method, stmt, c') := by
          intro e; simp only [Prod.mk.injEq, true_and] at e; exact hc (e ▸ hc')
        rw [ctrGet_ctrInc_ne _ hne]
        exact hag c' (List.mem_cons_of_mem _ hc')
    · exact ih hnd' _ _ (fun c' hc' => hag c' (List.mem_cons_of_mem _ hc'))

/-! ### G1: the frame bound invariant -/

def pending (stack : List Frame) : Nat := (stack.map (fun f => countFalse f.caa)).sum

/-- every call site the oracle can ever produce lies in `U` -/
def SitesIn (oracle : Oracle) (U : List Site) : Prop :=
  ∀ n m inv, inv ∈ (oracle n m).script → ∀ c ∈ inv.callees, (m, inv.stmt, c) ∈ U

def isCreate : Event → Bool
  | .create _ _ => true
  | _ => false

/-- number of frames pushed by the driver (the entry frame is not pushed by the driver) -/
def countCreates (log : List Event) : Nat := (log.filter isCreate).length

theorem countCreates_append (a b : List Event) : countCreates (a ++ b) = countCreates a + countCreates b := by
  simp [countCreates, List.filter_append]

theorem analyze_creates (max : Nat) (f : Frame) (todo : List Inv) :
    ∀ (st : Store Site) (ctr : Counter) (log : List Event),
      countCreates (analyze max f todo st ctr log).log = countCreates log := by
  induction todo with
  | nil => intro st ctr log; simp [analyze]
  | cons inv rest ih =>
    intro st ctr log
    simp only [analyze]
    split
    · rw [ih, countCreates_append]; simp [countCreates, isCreate]
    · simp only [countCreates_append]; simp [countCreates, isCreate]

/-- `base` = serial of the entry frame, `c0` = create events already in the log when the entry starts -/
structure BoundInv (max : Nat) (U : List Site) (base c0 : Nat) (s : St) : Prop where
  count : s.created + pending s.stack ≤ base + 1 + phi max U s.counter
  todoU : ∀ f ∈ s.stack, ∀ inv ∈ f.todo, ∀ c ∈ inv.callees, (f.method, inv.stmt, c) ∈ U
  creates : countCreates s.log + base + 1 = s.created + c0

theorem step_boundInv (max : Nat) (oracle : Oracle) (U : List Site) (hU : SitesIn oracle U) (base c0 : Nat)
    (s : St) (h : BoundInv max U base c0 s) : BoundInv max U base c0 (step max oracle s) := by
  obtain ⟨hc, ht, hcr⟩ := h
  cases hst : s.stack with
  | nil => simp only [step, hst]; exact ⟨hc, ht, hcr⟩
  | cons f below =>
    rw [hst] at hc ht
    have htb : ∀ g ∈ below, ∀ inv ∈ g.todo, ∀ c ∈ inv.callees, (g.method, inv.stmt, c) ∈ U :=
      fun g hg => ht g (List.mem_cons_of_mem _ hg)
    have htf := ht f List.mem_cons_self
    simp only [pending, List.map_cons, List.sum_cons] at hc
    simp only [step, hst]
    split
    · -- push a child (fused with its init)
      rename_i key caa' hff
      have := firstFalse_some hff
      split
      · refine ⟨?_, ?_, ?_⟩
        · simp only [pending, List.map_cons, List.sum_cons, countFalse]; omega
        · intro g hg
          rcases List.mem_cons.1 hg with rfl | hg
          · exact fun inv hinv c hcc => hU _ _ inv hinv c hcc
          · rcases List.mem_cons.1 hg with rfl | hg
            · exact htf
            · exact htb g hg
        · have : countCreates (s.log ++ [Event.create s.created key,
              Event.init s.created key.callee (f.path ++ [(f.method, key.stmt, key.callee)]) true])
              = countCreates s.log + 1 := by simp [countCreates, List.filter_append, isCreate, List.filter]
          rw [this]; simp only; omega
      · refine ⟨?_, ?_, ?_⟩
        · simp only [pending, List.map_cons, List.sum_cons]; omega
        · intro g hg
          rcases List.mem_cons.1 hg with rfl | hg
          · exact htf
          · exact htb g hg
        · have : countCreates (s.log ++ [Event.create s.created key,
              Event.init s.created key.callee [] false, Event.pop s.created])
              = countCreates s.log + 1 := by simp [countCreates, List.filter_append, isCreate, List.filter]
          rw [this]; simp only; omega
    · -- analyze
      rename_i hff
      have h0 := firstFalse_none hff
      obtain ⟨ha1, ha2⟩ := analyze_phi max U f f.todo htf s.store s.counter s.log
      have hcr' := analyze_creates max f f.todo s.store s.counter s.log
      have e0 : ∀ (l : List Event) (e : Event), isCreate e = false → countCreates (l ++ [e]) = countCreates l := by
        intro l e he; simp [countCreates, List.filter_append, he]
      split
      · rename_i hout
        rw [hout] at ha2
        refine ⟨?_, htb, ?_⟩
        · simp only [pending]; simp only at ha2; omega
        · rw [e0 _ _ rfl, hcr']; exact hcr
      · rename_i stmt acc hout
        rw [hout] at ha2
        have hn := countFalse_newCaa_le f.method stmt acc
        refine ⟨?_, ?_, ?_⟩
        · simp only [pending, List.map_cons, List.sum_cons]; simp only at ha2; omega
        · intro g hg
          rcases List.mem_cons.1 hg with rfl | hg
          · exact fun inv hinv => htf inv (ha1 inv hinv)
          · exact htb g hg
        · simp only [hcr']; exact hcr

theorem drive_boundInv (max : Nat) (oracle : Oracle) (U : List Site) (hU : SitesIn oracle U) (base c0 : Nat) :
    ∀ (fuel : Nat) (s : St), BoundInv max U base c0 s → BoundInv max U base c0 (drive max oracle fuel s) := by
  intro fuel
  induction fuel with
  | zero => intro s h; exact h
  | succ n ih =>
    intro s h
    simp only [drive]
    split
    · exact h
    · exact ih _ (step_boundInv max oracle U hU base c0 s h)

theorem initSt_boundInv (max : Nat) (oracle : Oracle) (U : List Site) (hU : SitesIn oracle U) (entry : Nat)
    (store : Store Site) (k : Nat) (log : List Event) :
    BoundInv max U k (countCreates log) (initSt oracle entry store k log) := by
  simp only [initSt]
  split
  · refine ⟨?_, ?_, ?_⟩
    · simp [pending, countFalse, phi, ctrGet]
    · intro f hf
      simp only [List.mem_singleton] at hf
      subst hf
      exact fun inv hinv c hc => hU _ _ inv hinv c hc
    · simp [countCreates, List.filter_append, isCreate, List.filter]; omega
  · refine ⟨?_, ?_, ?_⟩
    · simp [pending, phi, ctrGet]
    · intro f hf; simp at hf
    · simp [countCreates, List.filter_append, isCreate, List.filter]; omega

/-! ### termination: a potential that every step of the driver decreases -/

/-- `2·(frames still allowed) + stack height + (counter potential still available)` -/
def psi (max : Nat) (U : List Site) (base : Nat) (s : St) : Nat :=
  2 * (base + 1 + (max + 1) * U.length - s.created) + s.stack.length +
    ((max + 1) * U.length - phi max U s.counter)

theorem analyze_interrupt_nonempty (max : Nat) (f : Frame) (todo : List Inv) :
    ∀ (st : Store Site) (ctr : Counter) (log : List Event) (stmt : Nat) (acc : List Nat),
      (analyze max f todo st ctr log).outcome = .interrupt stmt acc → acc ≠ [] := by
  induction todo with
  | nil => intro st ctr log stmt acc h; simp [analyze] at h
  | cons inv rest ih =>
    intro st ctr log stmt acc h
    simp only [analyze] at h
    split at h
    · exact ih _ _ _ stmt acc h
    · rename_i hne
      simp only [Outcome.interrupt.injEq] at h
      obtain ⟨_, rfl⟩ := h
      intro he; rw [he] at hne; simp at hne

/-- while the stack is not empty, one step strictly decreases `psi` -/
theorem step_psi (max : Nat) (oracle : Oracle) (U : List Site) (hU : SitesIn oracle U) (base c0 : Nat)
    (s : St) (h : BoundInv max U base c0 s) (hne : s.stack ≠ []) :
    psi max U base (step max oracle s) + 1 ≤ psi max U base s := by
  have h' := step_boundInv max oracle U hU base c0 s h
  have hb1 := h.count
  have hb2 := h'.count
  have hp1 := phi_le max U s.counter
  have hp2 := phi_le max U (step max oracle s).counter
  cases hst : s.stack with
  | nil => exact absurd hst hne
  | cons f below =>
    have htf := h.todoU f (by rw [hst]; exact List.mem_cons_self)
    rw [hst] at hb1
    simp only [pending, List.map_cons, List.sum_cons] at hb1
    unfold psi
    rw [hst]
    revert hb2 hp2
    simp only [step, hst]
    split
    · rename_i key caa' hff
      split
      · intro hb2 hp2
        dsimp only at hb2 hp2 ⊢
        simp only [List.length_cons]
        omega
      · intro hb2 hp2
        dsimp only at hb2 hp2 ⊢
        simp only [List.length_cons]
        omega
    · obtain ⟨_, ha2⟩ := analyze_phi max U f f.todo htf s.store s.counter s.log
      split
      · rename_i hout
        rw [hout] at ha2
        intro hb2 hp2
        dsimp only at hb2 hp2 ha2 ⊢
        simp only [List.length_cons]
        omega
      · rename_i stmt acc hout
        rw [hout] at ha2
        have hacc := analyze_interrupt_nonempty max f f.todo s.store s.counter s.log stmt acc hout
        have hlen : 0 < acc.length := List.length_pos_iff.2 hacc
        intro hb2 hp2
        dsimp only at hb2 hp2 ha2 ⊢
        simp only [List.length_cons]
        omega

/-- with enough fuel the driver empties its stack -/
theorem drive_terminates (max : Nat) (oracle : Oracle) (U : List Site) (hU : SitesIn oracle U) (base c0 : Nat) :
    ∀ (fuel : Nat) (s : St), BoundInv max U base c0 s → psi max U base s ≤ fuel →
      (drive max oracle fuel s).stack = [] := by
  intro fuel
  induction fuel with
  | zero =>
    intro s h hpsi
    simp only [drive]
    cases hst : s.stack with
    | nil => rfl
    | cons f below =>
      unfold psi at hpsi; rw [hst] at hpsi; simp only [List.length_cons] at hpsi; omega
  | succ n ih =>
    intro s h hpsi
    simp only [drive]
    split
    · rename_i he; simpa [List.isEmpty_iff] using he
    · rename_i he
      have hne : s.stack ≠ [] := by simpa [List.isEmpty_iff] using he
      have := step_psi max oracle U hU base c0 s h hne
      exact ih _ (step_boundInv max oracle U hU base c0 s h) (by omega)

/-! ### G2: what is recorded in the path store -/

/-- `p` is a prefix of a stored path -/
def Covered (st : Store Site) (p : List Site) : Prop := ∃ q ∈ st.terms, p <+: q

/-- the call site is an edge of a stored path -/
def EdgeIn (st : Store Site) (site : Site) : Prop := ∃ q ∈ st.terms, site ∈ q

theorem edgeInStore_iff (st : Store Site) (site : Site) : edgeInStore st site = true ↔ EdgeIn st site := by
  simp [edgeInStore, EdgeIn, List.any_eq_true]

theorem Covered.edgeIn {st : Store Site} {p : List Site} {site : Site} (h : Covered st p) (hs : site ∈ p) :
    EdgeIn st site := by
  obtain ⟨q, hq, hpq⟩ := h
  exact ⟨q, hq, hpq.subset hs⟩

theorem all_allValid (p : List Site) : p.all allValid = true := by
  simp [allValid]

/-- `PathManager.add_path` never loses coverage, covers the added path, and adds nothing else -/
theorem mgrAdd_props {st : Store Site} (h : PathStore.Inv st) (p : List Site) :
    PathStore.Inv (mgrAdd allValid st p).1 ∧ Covered (mgrAdd allValid st p).1 p ∧
      (∀ p', Covered st p' → Covered (mgrAdd allValid st p).1 p') ∧
      (∀ q ∈ (mgrAdd allValid st p).1.terms, q ∈ st.terms ∨ q = p) := by
  obtain ⟨hinv, hterms, _⟩ := step_refines allValid h (Op.add p)
  simp only [PathStore.step] at hinv hterms
  refine ⟨hinv, ?_⟩
  unfold Covered
  rw [hterms]
  simp only [specStep]
  exact specAdd_props allValid st.terms p (all_allValid p)

theorem EdgeIn.mono {st st' : Store Site} (hm : ∀ p', Covered st p' → Covered st' p') {site : Site}
    (h : EdgeIn st site) : EdgeIn st' site := by
  obtain ⟨q, hq, hs⟩ := h
  exact (hm q ⟨q, hq, List.prefix_refl q⟩).edgeIn hs

theorem secondLoop_store (f : Frame) (stmt : Nat) (cs : List Nat) :
    ∀ (ctr : Counter) (st : Store Site), PathStore.Inv st →
      PathStore.Inv (secondLoop f stmt cs ctr st).2 ∧
      (∀ p', Covered st p' → Covered (secondLoop f stmt cs ctr st).2 p') ∧
      (∀ c ∈ cs, c ≠ f.method → Covered (secondLoop f stmt cs ctr st).2 (f.path ++ [(f.method, stmt, c)])) ∧
      (∀ q ∈ (secondLoop f stmt cs ctr st).2.terms,
          q ∈ st.terms ∨ ∃ c ∈ cs, q = f.path ++ [(f.method, stmt, c)]) := by
  induction cs with
  | nil => intro ctr st h; simp only [secondLoop]; exact ⟨h, fun _ hp => hp, by simp, fun q hq => Or.inl hq⟩
  | cons c cs ih =>
    intro ctr st h
    simp only [secondLoop]
    by_cases hmc : (f.method != c) = true
    · simp only [hmc, if_true]
      obtain ⟨a1, a2, a3, a4⟩ := mgrAdd_props h (f.path ++ [(f.method, stmt, c)])
      obtain ⟨b1, b2, b3, b4⟩ := ih (ctrInc ctr (f.method, stmt, c)) _ a1
      refine ⟨b1, fun p' hp' => b2 p' (a3 p' hp'), ?_, ?_⟩
      · intro c' hc' hne
        rcases List.mem_cons.1 hc' with rfl | hc'
        · exact b2 _ a2
        · exact b3 c' hc' hne
      · intro q hq
        rcases b4 q hq with hq | ⟨c', hc', rfl⟩
        · rcases a4 q hq with hq | rfl
          · exact Or.inl hq
          · exact Or.inr ⟨c, List.mem_cons_self, rfl⟩
        · exact Or.inr ⟨c', List.mem_cons_of_mem _ hc', rfl⟩
    · have hmc' : f.method = c := by simpa using hmc
      simp only [hmc, Bool.false_eq_true, if_false]
      obtain ⟨b1, b2, b3, b4⟩ := ih (ctrInc ctr (f.method, stmt, c)) st h
      refine ⟨b1, b2, ?_, ?_⟩
      · intro c' hc' hne
        rcases List.mem_cons.1 hc' with rfl | hc'
        · exact absurd hmc'.symm hne
        · exact b3 c' hc' hne
      · intro q hq
        rcases b4 q hq with hq | ⟨c', hc', rfl⟩
        · exact Or.inl hq
        · exact Or.inr ⟨c', List.mem_cons_of_mem _ hc', rfl⟩

/-- what a logged event promises about the store -/
def EvGood (st : Store Site) : Event → Prop
  | .cts _ m stmt cs d _ => d = [] → ∀ c ∈ cs, c ≠ m → EdgeIn st (m, stmt, c)
  | .init _ _ p true => ∀ site ∈ p, EdgeIn st site
  | _ => True

theorem EvGood.mono {st st' : Store Site} (hm : ∀ p', Covered st p' → Covered st' p') {e : Event}
    (h : EvGood st e) : EvGood st' e := by
  cases e with
  | cts n m stmt cs d rs => exact fun hd c hc hne => (h hd c hc hne).mono hm
  | init n m p ok =>
    cases ok with
    | true => exact fun site hs => (h site hs).mono hm
    | false => trivial
  | create n site => trivial
  | pop n => trivial

theorem analyze_store (max : Nat) (f : Frame) (todo : List Inv) :
    ∀ (st : Store Site) (ctr : Counter) (log : List Event), PathStore.Inv st → (∀ e ∈ log, EvGood st e) →
      PathStore.Inv (analyze max f todo st ctr log).store ∧
      (∀ p', Covered st p' → Covered (analyze max f todo st ctr log).store p') ∧
      (∀ e ∈ (analyze max f todo st ctr log).log, EvGood (analyze max f todo st ctr log).store e) := by
  induction todo with
  | nil => intro st ctr log h hg; simp only [analyze]; exact ⟨h, fun _ hp => hp, hg⟩
  | cons inv rest ih =>
    intro st ctr log h hg
    simp only [analyze]
    split
    · obtain ⟨b1, b2, b3, _⟩ := secondLoop_store f inv.stmt inv.callees
        (firstLoop max st f inv.stmt inv.callees ctr []).1 st h
      have hg' : ∀ e ∈ log ++ [Event.cts f.serial f.method inv.stmt inv.callees []
          (reasons max st f inv.stmt inv.callees ctr)],
          EvGood (secondLoop f inv.stmt inv.callees (firstLoop max st f inv.stmt inv.callees ctr []).1 st).2 e := by
        intro e he
        rcases List.mem_append.1 he with he | he
        · exact (hg e he).mono b2
        · rw [List.mem_singleton] at he; subst he
          intro _ c hc hne
          exact (b3 c hc hne).edgeIn (by simp)
      obtain ⟨c1, c2, c3⟩ := ih _ _ _ b1 hg'
      exact ⟨c1, fun p' hp' => c2 p' (b2 p' hp'), c3⟩
    · rename_i hne
      refine ⟨h, fun _ hp => hp, ?_⟩
      intro e he
      rcases List.mem_append.1 he with he | he
      · exact hg e he
      · rw [List.mem_singleton] at he; subst he
        intro hd
        rw [hd] at hne; simp at hne

structure StoreInv (s : St) : Prop where
  inv : PathStore.Inv s.store
  good : ∀ e ∈ s.log, EvGood s.store e
  paths : ∀ f ∈ s.stack, ∀ site ∈ f.path, EdgeIn s.store site

theorem step_storeInv (max : Nat) (oracle : Oracle) (s : St) (h : StoreInv s) :
    StoreInv (step max oracle s) := by
  obtain ⟨hi, hg, hp⟩ := h
  cases hst : s.stack with
  | nil => simp only [step, hst]; exact ⟨hi, hg, hp⟩
  | cons f below =>
    rw [hst] at hp
    have hpb : ∀ g ∈ below, ∀ site ∈ g.path, EdgeIn s.store site := fun g hg' => hp g (List.mem_cons_of_mem _ hg')
    have hpf := hp f List.mem_cons_self
    simp only [step, hst]
    split
    · rename_i key caa' hff
      split
      · obtain ⟨a1, a2, a3, _⟩ := mgrAdd_props hi (f.path ++ [(f.method, key.stmt, key.callee)])
        refine ⟨a1, ?_, ?_⟩
        · intro e he
          rcases List.mem_append.1 he with he | he
          · exact (hg e he).mono a3
          · simp only [List.mem_cons, List.not_mem_nil, or_false] at he
            rcases he with rfl | rfl
            · trivial
            · exact fun site hs => a2.edgeIn hs
        · intro g hg'
          rcases List.mem_cons.1 hg' with rfl | hg'
          · exact fun site hs => a2.edgeIn hs
          · rcases List.mem_cons.1 hg' with rfl | hg'
            · exact fun site hs => (hpf site hs).mono a3
            · exact fun site hs => (hpb g hg' site hs).mono a3
      · refine ⟨hi, ?_, ?_⟩
        · intro e he
          rcases List.mem_append.1 he with he | he
          · exact hg e he
          · simp only [List.mem_cons, List.not_mem_nil, or_false] at he
            rcases he with rfl | rfl | rfl <;> trivial
        · intro g hg'
          rcases List.mem_cons.1 hg' with rfl | hg'
          · exact hpf
          · exact hpb g hg'
    · obtain ⟨c1, c2, c3⟩ := analyze_store max f f.todo s.store s.counter s.log hi hg
      split
      · refine ⟨c1, ?_, fun g hg' site hs => (hpb g hg' site hs).mono c2⟩
        intro e he
        rcases List.mem_append.1 he with he | he
        · exact c3 e he
        · rw [List.mem_singleton] at he; subst he; trivial
      · refine ⟨c1, c3, ?_⟩
        intro g hg'
        rcases List.mem_cons.1 hg' with rfl | hg'
        · exact fun site hs => (hpf site hs).mono c2
        · exact fun site hs => (hpb g hg' site hs).mono c2

theorem drive_storeInv (max : Nat) (oracle : Oracle) :
    ∀ (fuel : Nat) (s : St), StoreInv s → StoreInv (drive max oracle fuel s) := by
  intro fuel
  induction fuel with
  | zero => intro s h; exact h
  | succ n ih =>
    intro s h
    simp only [drive]
    split
    · exact h
    · exact ih _ (step_storeInv max oracle s h)

theorem initSt_storeInv (oracle : Oracle) (entry : Nat) : StoreInv (initSt oracle entry Store.empty 0 []) := by
  simp only [initSt]
  split
  · refine ⟨inv_empty, ?_, ?_⟩
    · intro e he
      simp only [List.nil_append, List.mem_singleton] at he; subst he
      intro site hs; simp at hs
    · intro f hf site hs
      simp only [List.mem_singleton] at hf; subst hf; simp at hs
  · refine ⟨inv_empty, ?_, ?_⟩
    · intro e he
      simp only [List.nil_append, List.mem_cons, List.not_mem_nil, or_false] at he
      rcases he with rfl | rfl <;> trivial
    · intro f hf; simp at hf

end LianVerif.Frames
