/-
`flatten` on `WfGir` trees: total, ids exactly `[n, n')` in emission order, rows form the `Lvl`
grammar (balanced, parents, ownership), body attributes name owned blocks.
Structural (functional) induction over the three mutually recursive model functions.
-/
import LianVerif.Gir.Flatten
import LianVerif.Gir.WellFormed
import LianVerif.Proofs.WellFormed

namespace LianVerif.Gir

/-! ### small facts about rows, attrs, ids -/

theorem assocSet_fresh {β : Type} (l : List (String × β)) (k : String) (v : β)
    (h : k ∉ l.map Prod.fst) : assocSet l k v = l ++ [(k, v)] := by
  induction l with
  | nil => rfl
  | cons a rest ih =>
    obtain ⟨k', v'⟩ := a
    simp only [List.map_cons, List.mem_cons, not_or] at h
    have hne : (k' == k) = false := by
      rw [beq_eq_false_iff_ne]; exact fun e => h.1 e.symm
    simp [assocSet, hne, ih h.2]

theorem setKeyE_plain (r : Row) (k : String) (v : AVal) (h : reservedKey k = false) :
    setKeyE r k v = .ok { r with attrs := assocSet r.attrs k v } := by
  simp only [reservedKey, Bool.or_eq_false_iff] at h
  simp [setKeyE, Row.setKey, h.1.1, h.1.2, h.2]

theorem setKeyE_fresh (r : Row) (k : String) (v : AVal) (h : reservedKey k = false)
    (hf : k ∉ r.attrs.map Prod.fst) :
    setKeyE r k v = .ok { r with attrs := r.attrs ++ [(k, v)] } := by
  rw [setKeyE_plain r k v h, assocSet_fresh _ _ _ hf]

theorem hasIntAttr_of_mem {r : Row} {k : String} {b : Nat} (h : (k, AVal.int b) ∈ r.attrs) :
    r.hasIntAttr b = true := by
  simp only [Row.hasIntAttr, List.any_eq_true, beq_iff_eq]
  exact ⟨_, h, rfl⟩

theorem defIds_nil : defIds [] = [] := rfl

theorem defIds_append (a b : Rows) : defIds (a ++ b) = defIds a ++ defIds b := by
  simp [defIds, List.filter_append]

theorem defIds_cons_of_not_end {r : Row} (h : r.isEnd = false) (rows : Rows) :
    defIds (r :: rows) = r.id :: defIds rows := by
  simp [defIds, h]

theorem defIds_cons_of_end {r : Row} (h : r.isEnd = true) (rows : Rows) :
    defIds (r :: rows) = defIds rows := by
  simp [defIds, h]

theorem mkStart_isStart (b o : Nat) : (mkStart b o).isStart = true := by simp [mkStart, Row.isStart]
theorem mkEnd_isEnd (b o : Nat) : (mkEnd b o).isEnd = true := by simp [mkEnd, Row.isEnd]
theorem mkStart_not_end (b o : Nat) : (mkStart b o).isEnd = false := isStart_not_isEnd (mkStart_isStart b o)

theorem keysNodup_iff : ∀ (kvs : List (String × JVal)), keysNodup kvs = true ↔ (kvs.map Prod.fst).Nodup := by
  intro kvs
  induction kvs with
  | nil => simp [keysNodup]
  | cons a rest ih =>
    obtain ⟨k, v⟩ := a
    simp only [keysNodup, Bool.and_eq_true, Bool.not_eq_true', List.any_eq_false, beq_iff_eq, ih,
      List.map_cons, List.nodup_cons, List.mem_map, not_exists, not_and]

/-! ### the invariant carried through the induction -/

/-- every body-valued attribute of a statement row names a block start (in `pool`) owned by it -/
def RowBodies (bk : String → Bool) (pool : Rows) (rid : Nat) (attrs : List (String × AVal)) : Prop :=
  ∀ kv ∈ attrs, bk kv.1 = true → ∀ b : Int, kv.2 = AVal.int b →
    ∃ s ∈ pool, s.isStart = true ∧ (s.id : Int) = b ∧ s.parent = rid

def BodiesOK (bk : String → Bool) (rows : Rows) : Prop :=
  ∀ r ∈ rows, r.isMarker = false → RowBodies bk rows r.id r.attrs

theorem RowBodies.mono {bk pool pool' rid attrs} (h : RowBodies bk pool rid attrs)
    (hsub : ∀ s ∈ pool, s ∈ pool') : RowBodies bk pool' rid attrs := by
  intro kv hkv hb b hv
  obtain ⟨s, hs, h'⟩ := h kv hkv hb b hv
  exact ⟨s, hsub s hs, h'⟩

theorem BodiesOK.append {bk a b} (ha : BodiesOK bk a) (hb : BodiesOK bk b) : BodiesOK bk (a ++ b) := by
  intro r hr hm
  rcases List.mem_append.1 hr with h | h
  · exact (ha r h hm).mono (fun s hs => List.mem_append_left _ hs)
  · exact (hb r h hm).mono (fun s hs => List.mem_append_right _ hs)

/-- rows that use exactly the ids `[n, n')`, in emission order -/
structure Seg (bk : String → Bool) (n n' : Nat) (rows : Rows) : Prop where
  le : n ≤ n'
  ids : defIds rows = List.range' n (n' - n)
  bound : ∀ r ∈ rows, n ≤ r.id ∧ r.id < n'
  bodies : BodiesOK bk rows
  keys : ∀ r ∈ rows, "unit_id" ∉ r.attrs.map Prod.fst

theorem Seg.nil (bk : String → Bool) (n : Nat) : Seg bk n n [] :=
  ⟨Nat.le_refl _, by simp [defIds], by simp, by intro r hr; simp at hr, by simp⟩

theorem range'_split (n m k : Nat) (h1 : n ≤ m) (h2 : m ≤ k) :
    List.range' n (m - n) ++ List.range' m (k - m) = List.range' n (k - n) := by
  have : k - n = (m - n) + (k - m) := by omega
  rw [this, ← List.range'_append_1]
  congr 2
  omega

theorem Seg.append {bk n m k a b} (ha : Seg bk n m a) (hb : Seg bk m k b) : Seg bk n k (a ++ b) := by
  refine ⟨Nat.le_trans ha.le hb.le, ?_, ?_, ha.bodies.append hb.bodies, ?_⟩
  · rw [defIds_append, ha.ids, hb.ids, range'_split n m k ha.le hb.le]
  · intro r hr
    rcases List.mem_append.1 hr with h | h
    · have := ha.bound r h; have := hb.le; omega
    · have := hb.bound r h; have := ha.le; omega
  · intro r hr
    rcases List.mem_append.1 hr with h | h
    · exact ha.keys r h
    · exact hb.keys r h

/-- a block: `start n owner`, a segment using `[n+1, n')`, `end n owner` -/
theorem Seg.block {bk n n' owner inner} (h : Seg bk (n + 1) n' inner) :
    Seg bk n n' (mkStart n owner :: inner ++ [mkEnd n owner]) := by
  have hle := h.le
  refine ⟨by omega, ?_, ?_, ?_, ?_⟩
  · rw [List.cons_append, defIds_cons_of_not_end (mkStart_not_end n owner), defIds_append, h.ids,
      defIds_cons_of_end (mkEnd_isEnd n owner), defIds_nil, List.append_nil]
    have : n' - n = (n' - (n + 1)) + 1 := by omega
    rw [this, List.range'_succ]
    rfl
  · intro r hr
    simp only [List.cons_append, List.mem_cons, List.mem_append, List.not_mem_nil, or_false] at hr
    rcases hr with rfl | hr | rfl
    · simp [mkStart]; omega
    · have := h.bound r hr; omega
    · simp [mkEnd]; omega
  · intro r hr hm
    simp only [List.cons_append, List.mem_cons, List.mem_append, List.not_mem_nil, or_false] at hr
    rcases hr with rfl | hr | rfl
    · simp [Row.isMarker, mkStart_isStart] at hm
    · exact (h.bodies r hr hm).mono (fun s hs => by simp [hs])
    · simp [Row.isMarker, mkEnd_isEnd] at hm
  · intro r hr
    simp only [List.cons_append, List.mem_cons, List.mem_append, List.not_mem_nil, or_false] at hr
    rcases hr with rfl | hr | rfl
    · simp [mkStart]
    · exact h.keys r hr
    · simp [mkEnd]

/-- a statement row followed by the rows of its blocks -/
theorem Seg.stmt {bk n n' row sub} (hid : row.id = n) (hm : row.isMarker = false)
    (hseg : Seg bk (n + 1) n' sub) (hrb : RowBodies bk sub n row.attrs)
    (hkey : "unit_id" ∉ row.attrs.map Prod.fst) : Seg bk n n' (row :: sub) := by
  have hle := hseg.le
  refine ⟨by omega, ?_, ?_, ?_, ?_⟩
  · rw [defIds_cons_of_not_end (isMarker_false_iff.1 hm).2, hseg.ids, hid]
    have : n' - n = (n' - (n + 1)) + 1 := by omega
    rw [this, List.range'_succ]
  · intro r hr
    rcases List.mem_cons.1 hr with rfl | hr
    · omega
    · have := hseg.bound r hr; omega
  · intro r hr hmr
    rcases List.mem_cons.1 hr with rfl | hr
    · rw [hid]; exact hrb.mono (fun s hs => List.mem_cons_of_mem _ hs)
    · exact (hseg.bodies r hr hmr).mono (fun s hs => List.mem_cons_of_mem _ hs)
  · intro r hr
    rcases List.mem_cons.1 hr with rfl | hr
    · exact hkey
    · exact hseg.keys r hr

/-- closure of the grammar under prepending the blocks of the last statement -/
def BlocksClosed (oid : Nat) (need : List (String × AVal)) (new : Rows) : Prop :=
  ∀ (M : Row → Nat → Bool) (inM : Bool) (p : Nat) (o : Row) (rest : Rows),
    o.id = oid → (∀ kv ∈ need, kv ∈ o.attrs) →
    Lvl M NoCond p inM (some o) rest → Lvl M NoCond p inM (some o) (new ++ rest)

def LvlAny (parent : Nat) (rows : Rows) : Prop :=
  ∀ (M : Row → Nat → Bool) (inM : Bool) (last : Option Row), Lvl M NoCond parent inM last rows

/-! ### wf unfoldings -/

theorem wfStmt_obj (bk : String → Bool) (op : String) (kvs tl) :
    wfStmt bk (.obj ((op, .obj kvs) :: tl)) =
      (!(op == opStart) && !(op == opEnd) && (keysNodup kvs && wfAttrs bk op kvs)) := by
  simp [wfStmt]

theorem wfList_cons (bk : String → Bool) (c : JVal) (rest : List JVal) :
    wfList bk (c :: rest) = (wfStmt bk c && wfList bk rest) := by rw [wfList]

theorem wfAttrs_list (bk : String → Bool) (op k : String) (xs rest) :
    wfAttrs bk op ((k, .list xs) :: rest) =
      (!reservedKey k && !(k == "original_stmt") && !(k == "unit_id") &&
        (if isGirFormat xs || (op == "method_decl" && k == "body") then wfList bk xs else true) &&
        wfAttrs bk op rest) := by
  rw [wfAttrs]

theorem wfAttrs_int (bk : String → Bool) (op k : String) (m : Int) (rest) :
    wfAttrs bk op ((k, .int m) :: rest) =
      (!reservedKey k && !(k == "original_stmt") && !(k == "unit_id") && (!bk k) && wfAttrs bk op rest) := by
  rw [wfAttrs]

theorem wfAttrs_obj (bk : String → Bool) (op k : String) (kvs rest) :
    wfAttrs bk op ((k, .obj kvs) :: rest) = false := by
  rw [wfAttrs]; simp

theorem wfAttrs_null (bk : String → Bool) (op k : String) (rest) :
    wfAttrs bk op ((k, .null) :: rest) =
      (!reservedKey k && !(k == "original_stmt") && !(k == "unit_id") && true && wfAttrs bk op rest) := by
  rw [wfAttrs] <;> (intros; contradiction)

theorem wfAttrs_str (bk : String → Bool) (op k s : String) (rest) :
    wfAttrs bk op ((k, .str s) :: rest) =
      (!reservedKey k && !(k == "original_stmt") && !(k == "unit_id") && true && wfAttrs bk op rest) := by
  rw [wfAttrs] <;> (intros; contradiction)

theorem wfAttrs_cons {bk op k v rest} (h : wfAttrs bk op ((k, v) :: rest) = true) :
    reservedKey k = false ∧ (k ≠ "original_stmt" ∧ k ≠ "unit_id") ∧ wfAttrs bk op rest = true := by
  cases v with
  | obj kvs => rw [wfAttrs_obj] at h; cases h
  | list xs =>
    rw [wfAttrs_list] at h
    simp only [Bool.and_eq_true, Bool.not_eq_true', beq_eq_false_iff_ne, ne_eq] at h
    exact ⟨h.1.1.1.1, ⟨h.1.1.1.2, h.1.1.2⟩, h.2⟩
  | int m =>
    rw [wfAttrs_int] at h
    simp only [Bool.and_eq_true, Bool.not_eq_true', beq_eq_false_iff_ne, ne_eq] at h
    exact ⟨h.1.1.1.1, ⟨h.1.1.1.2, h.1.1.2⟩, h.2⟩
  | null =>
    rw [wfAttrs_null] at h
    simp only [Bool.and_eq_true, Bool.not_eq_true', beq_eq_false_iff_ne, ne_eq] at h
    exact ⟨h.1.1.1.1, ⟨h.1.1.1.2, h.1.1.2⟩, h.2⟩
  | str s =>
    rw [wfAttrs_str] at h
    simp only [Bool.and_eq_true, Bool.not_eq_true', beq_eq_false_iff_ne, ne_eq] at h
    exact ⟨h.1.1.1.1, ⟨h.1.1.1.2, h.1.1.2⟩, h.2⟩

theorem wfAttrs_keys {bk op} : ∀ {kvs : List (String × JVal)}, wfAttrs bk op kvs = true →
    ∀ k ∈ kvs.map Prod.fst, reservedKey k = false ∧ (k ≠ "original_stmt" ∧ k ≠ "unit_id") := by
  intro kvs
  induction kvs with
  | nil => intro _ k hk; simp at hk
  | cons a rest ih =>
    obtain ⟨k0, v0⟩ := a
    intro h k hk
    obtain ⟨h1, h2, h3⟩ := wfAttrs_cons h
    simp only [List.map_cons, List.mem_cons] at hk
    rcases hk with rfl | hk
    · exact ⟨h1, h2⟩
    · exact ih h3 k hk

/-! ### the main induction -/

section
variable (P : FlatParams) (bk : String → Bool)

def Mot1 (n parent : Nat) (t : JVal) : Prop :=
  wfStmt bk t = true →
  ∃ row sub n', flattenStmt P n parent t = .ok ({ emitted := some (row, sub), returned := true }, n') ∧
    row.id = n ∧ row.parent = parent ∧ row.isMarker = false ∧
    (∀ k ∈ row.attrs.map Prod.fst, reservedKey k = false ∧ (k ≠ "original_stmt" ∧ k ≠ "unit_id")) ∧
    Seg bk (n + 1) n' sub ∧ RowBodies bk sub n row.attrs ∧ BlocksClosed n row.attrs sub

def Mot2 (n : Nat) (row : Row) (acc : Rows) (kvs : List (String × JVal)) : Prop :=
  wfAttrs bk row.op kvs = true → (row.attrs.map Prod.fst ++ kvs.map Prod.fst).Nodup →
  ∃ added new n', flattenAttrs P n row acc kvs = .ok ({ row with attrs := row.attrs ++ added }, acc ++ new, n') ∧
    added.map Prod.fst = kvs.map Prod.fst ∧
    Seg bk n n' new ∧ RowBodies bk new row.id added ∧ BlocksClosed row.id added new

def Mot3 (n parent : Nat) (xs : List JVal) : Prop :=
  wfList bk xs = true →
  ∃ rows n', flattenList P n parent xs = .ok (rows, n') ∧ Seg bk n n' rows ∧ LvlAny parent rows

end

theorem wfStmt_split {bk : String → Bool} {op : String} {kvs : List (String × JVal)} {tl}
    (h : wfStmt bk (.obj ((op, .obj kvs) :: tl)) = true) :
    (op == opStart) = false ∧ (op == opEnd) = false ∧ (kvs.map Prod.fst).Nodup ∧ wfAttrs bk op kvs = true := by
  rw [wfStmt_obj] at h
  simp only [Bool.and_eq_true, Bool.not_eq_true'] at h
  exact ⟨h.1.1, h.1.2, (keysNodup_iff kvs).1 h.2.1, h.2.2⟩

theorem flatten_induction (P : FlatParams) (bk : String → Bool) (hbk : bk "original_stmt" = false) :
    (∀ n parent t, Mot1 P bk n parent t) ∧ (∀ n row acc kvs, Mot2 P bk n row acc kvs) ∧
    (∀ n parent xs, Mot3 P bk n parent xs) := by
  apply flattenStmt.mutual_induct P (Mot1 P bk) (Mot2 P bk) (Mot3 P bk)
  -- 1 flattenStmt: `{}`
  · intro n parent h
    have : wfStmt bk (.obj []) = false := rfl
    rw [this] at h; cases h
  -- 2 flattenStmt: `{op: {kvs}}`, attrs ok
  · intro n parent op tail row0 kvs row sub n' hfa ih h
    obtain ⟨hns, hne, hnd, hwa⟩ := wfStmt_split h
    obtain ⟨added, new, n'', hfa', hkeys, hseg, hrb, hbc⟩ := ih hwa (by simpa [row0] using hnd)
    rw [hfa] at hfa'
    simp only [List.nil_append, Except.ok.injEq, Prod.mk.injEq] at hfa'
    obtain ⟨hrow, hsub, hn⟩ := hfa'
    subst hsub; subst hn; subst hrow
    refine ⟨{ op := row0.op, id := row0.id, parent := row0.parent, attrs := row0.attrs ++ added }, sub, n',
      ?_, rfl, rfl, ?_, ?_, hseg, ?_, ?_⟩
    · rw [flattenStmt]
      show (match flattenAttrs P (n + 1) row0 [] kvs with
        | .ok (row, sub, n') => Except.ok (({ emitted := some (row, sub), returned := true } : StmtOut), n')
        | .error e => .error e) = _
      rw [hfa]
    · simp only [Row.isMarker, Row.isStart, Row.isEnd, Bool.or_eq_false_iff]
      exact ⟨hns, hne⟩
    · intro k hk
      simp only [row0, List.nil_append] at hk
      rw [hkeys] at hk
      exact wfAttrs_keys hwa k hk
    · simpa [row0] using hrb
    · simpa [row0] using hbc
  -- 3 flattenStmt: attrs error
  · intro n parent op tail row0 kvs e hfa ih h
    obtain ⟨_, _, hnd, hwa⟩ := wfStmt_split h
    obtain ⟨added, new, n'', hfa', _⟩ := ih hwa (by simpa [row0] using hnd)
    rw [hfa] at hfa'; cases hfa'
  -- 4 flattenStmt: content not a dict
  · intro n parent op content tail hno h
    cases content with
    | obj kvs => exact absurd rfl (hno kvs)
    | null => simp [wfStmt] at h
    | int _ => simp [wfStmt] at h
    | str _ => simp [wfStmt] at h
    | list _ => simp [wfStmt] at h
  -- 5 flattenStmt: not a dict
  · intro t n parent h1 h2 h
    cases t with
    | obj kvs =>
      cases kvs with
      | nil => exact absurd rfl h1
      | cons a tl => obtain ⟨k, v⟩ := a; exact absurd rfl (h2 k v tl)
    | null => have : wfStmt bk .null = false := rfl
              rw [this] at h; cases h
    | int m => have : wfStmt bk (.int m) = false := rfl
               rw [this] at h; cases h
    | str m => have : wfStmt bk (.str m) = false := rfl
               rw [this] at h; cases h
    | list m => have : wfStmt bk (.list m) = false := rfl
                rw [this] at h; cases h
  -- 6 flattenList: []
  · intro n parent _
    exact ⟨[], n, by simp [flattenList], Seg.nil bk n, fun M inM last => Lvl.nil⟩
  -- 7 flattenList: statement error
  · intro n parent c rest e hfs ih h
    rw [wfList_cons, Bool.and_eq_true] at h
    obtain ⟨row, sub, n', hfs', _⟩ := ih h.1
    rw [hfs] at hfs'; cases hfs'
  -- 8 flattenList: TypeError
  · intro n parent c rest out n' hfs hty ih h
    rw [wfList_cons, Bool.and_eq_true] at h
    obtain ⟨row, sub, n'', hfs', _⟩ := ih h.1
    rw [hfs] at hfs'
    simp only [Except.ok.injEq, Prod.mk.injEq] at hfs'
    obtain ⟨rfl, rfl⟩ := hfs'
    simp at hty
  -- 9 flattenList: nothing emitted
  · intro n parent c rest out n' hfs _ hem ih _ h
    rw [wfList_cons, Bool.and_eq_true] at h
    obtain ⟨row, sub, n'', hfs', _⟩ := ih h.1
    rw [hfs] at hfs'
    simp only [Except.ok.injEq, Prod.mk.injEq] at hfs'
    obtain ⟨rfl, rfl⟩ := hfs'
    simp at hem
  -- 10 flattenList: patch error
  · intro n parent c rest out n' hfs _ row sub hem patched e hpe ih h
    rw [wfList_cons, Bool.and_eq_true] at h
    obtain ⟨row1, sub1, n'', hfs', _, _, _, hk, _⟩ := ih h.1
    rw [hfs] at hfs'
    simp only [Except.ok.injEq, Prod.mk.injEq] at hfs'
    obtain ⟨rfl, rfl⟩ := hfs'
    simp only [Option.some.injEq, Prod.mk.injEq] at hem
    obtain ⟨rfl, rfl⟩ := hem
    have hfresh : "original_stmt" ∉ row1.attrs.map Prod.fst := fun hm => (hk _ hm).2.1 rfl
    simp only [patched] at hpe
    split at hpe
    · rw [setKeyE_fresh _ _ _ (by decide) hfresh] at hpe; cases hpe
    · cases hpe
  -- 11 flattenList: all ok
  · intro n parent c rest out n' hfs hnt row sub hem patched row' hpo rows n2 hfl ih1 ih3 h
    rw [wfList_cons, Bool.and_eq_true] at h
    obtain ⟨row1, sub1, n'', hfs', hid, hpar, hmk, hk, hseg, hrb, hbc⟩ := ih1 h.1
    rw [hfs] at hfs'
    simp only [Except.ok.injEq, Prod.mk.injEq] at hfs'
    obtain ⟨rfl, rfl⟩ := hfs'
    simp only [Option.some.injEq, Prod.mk.injEq] at hem
    obtain ⟨rfl, rfl⟩ := hem
    obtain ⟨rows2, n3, hfl', hseg2, hlvl2⟩ := ih3 h.2
    rw [hfl] at hfl'
    simp only [Except.ok.injEq, Prod.mk.injEq] at hfl'
    obtain ⟨hr2, hn3⟩ := hfl'
    subst hr2; subst hn3
    have hfresh : "original_stmt" ∉ row1.attrs.map Prod.fst := fun hm => (hk _ hm).2.1 rfl
    have hunit : "unit_id" ∉ row1.attrs.map Prod.fst := fun hm => (hk _ hm).2.2 rfl
    have hrow' : row'.id = n ∧ row'.parent = parent ∧ row'.isMarker = false ∧
        (∀ kv ∈ row1.attrs, kv ∈ row'.attrs) ∧ RowBodies bk sub1 n row'.attrs ∧
        "unit_id" ∉ row'.attrs.map Prod.fst := by
      simp only [patched] at hpo
      split at hpo
      · rw [setKeyE_fresh _ _ _ (by decide) hfresh] at hpo
        simp only [Except.ok.injEq] at hpo
        subst hpo
        refine ⟨hid, hpar, hmk, fun kv hkv => List.mem_append_left _ hkv, ?_, ?_⟩
        · intro kv hkv hb b hv
          rcases List.mem_append.1 hkv with hkv | hkv
          · exact hrb kv hkv hb b hv
          · simp only [List.mem_singleton] at hkv
            subst hkv
            rw [hbk] at hb; cases hb
        · simp only [List.map_append, List.map_cons, List.map_nil, List.mem_append, List.mem_singleton, not_or]
          exact ⟨hunit, by decide⟩
      · simp only [Except.ok.injEq] at hpo
        subst hpo
        exact ⟨hid, hpar, hmk, fun kv hkv => hkv, hrb, hunit⟩
    obtain ⟨hid', hpar', hmk', hsub', hrb', hunit'⟩ := hrow'
    refine ⟨row' :: sub1 ++ rows, n2, ?_, ?_, ?_⟩
    · rw [flattenList, hfs]
      simp only [hnt]
      simp only [patched] at hpo
      simp only [Bool.false_eq_true, if_false, hpo, hfl]
    · exact (Seg.stmt hid' hmk' hseg hrb' hunit').append hseg2
    · intro M inM last
      rw [List.cons_append]
      exact Lvl.stmt hmk' hpar' trivial (hbc M inM parent row' rows hid' hsub' (hlvl2 M inM (some row')))
  -- 12 flattenList: rest error
  · intro n parent c rest out n' hfs _ row sub hem patched row' hpo e hfl ih1 ih3 h
    rw [wfList_cons, Bool.and_eq_true] at h
    obtain ⟨row1, sub1, n'', hfs', _⟩ := ih1 h.1
    rw [hfs] at hfs'
    simp only [Except.ok.injEq, Prod.mk.injEq] at hfs'
    obtain ⟨rfl, rfl⟩ := hfs'
    obtain ⟨rows2, n3, hfl', _⟩ := ih3 h.2
    rw [hfl] at hfl'; cases hfl'
  -- 13 flattenAttrs: []
  · intro n row acc _ _
    refine ⟨[], [], n, by simp [flattenAttrs], rfl, Seg.nil bk n, ?_, ?_⟩
    · intro kv hkv; simp at hkv
    · intro M inM p o rest _ _ hl; simpa using hl
  -- 14 flattenAttrs: block, all ok
  · intro n row acc k rest xs hcond rows n' hwb row' hset ih3 ih2 hwf hnd
    obtain ⟨hres, hno, hwr⟩ := wfAttrs_cons hwf
    have hwl : wfList bk xs = true := by
      rw [wfAttrs_list] at hwf
      simp only [Bool.and_eq_true] at hwf
      have := hwf.1.2
      rw [if_pos hcond] at this; exact this
    obtain ⟨inner, n1, hfl, hsegi, hlvli⟩ := ih3 hwl
    rw [hfl] at hwb
    simp only [wrapBlock, Except.ok.injEq, Prod.mk.injEq] at hwb
    obtain ⟨rfl, rfl⟩ := hwb
    have hfreshk : k ∉ row.attrs.map Prod.fst := by
      simp only [List.map_cons, List.nodup_append, List.nodup_cons] at hnd
      intro hm
      exact hnd.2.2 k hm k (by simp) rfl
    rw [setKeyE_fresh _ _ _ hres hfreshk] at hset
    simp only [Except.ok.injEq] at hset
    subst hset
    obtain ⟨added2, new2, n2, hfa2, hkeys2, hseg2, hrb2, hbc2⟩ := ih2 hwr (by
      simp only [List.map_append, List.map_cons, List.map_nil, List.append_assoc, List.cons_append,
        List.nil_append]
      simpa using hnd)
    refine ⟨(k, AVal.int n) :: added2, (mkStart n row.id :: inner ++ [mkEnd n row.id]) ++ new2, n2, ?_, ?_, ?_, ?_, ?_⟩
    · rw [flattenAttrs]
      simp only [hcond, if_true, hfl, wrapBlock, setKeyE_fresh _ _ _ hres hfreshk, hfa2]
      simp [List.append_assoc]
    · simp [hkeys2]
    · exact (Seg.block hsegi).append hseg2
    · intro kv hkv hb b hv
      rcases List.mem_cons.1 hkv with rfl | hkv
      · simp only [AVal.int.injEq] at hv
        refine ⟨mkStart n row.id, by simp, mkStart_isStart _ _, hv, rfl⟩
      · exact (hrb2.mono (fun s hs => List.mem_append_right _ hs)) kv hkv hb b hv
    · intro M inM p o rest' hoid hneed hl
      have hattr : o.hasIntAttr n = true := hasIntAttr_of_mem (hneed _ (List.mem_cons_self))
      have h2 := hbc2 M inM p o rest' hoid (fun kv hkv => hneed kv (List.mem_cons_of_mem _ hkv)) hl
      have : (mkStart n row.id :: inner ++ [mkEnd n row.id]) ++ new2 ++ rest'
          = mkStart n row.id :: (inner ++ mkEnd n row.id :: (new2 ++ rest')) := by simp
      rw [this]
      exact Lvl.block (s := mkStart n row.id) (e := mkEnd n row.id) (mkStart_isStart _ _) (mkEnd_isEnd _ _) rfl
        hoid.symm hoid.symm hattr (hlvli M _ none) h2
  -- 15 flattenAttrs: block ok, set error
  · intro n row acc k rest xs hcond rows n' hwb e hset ih3 hwf hnd
    obtain ⟨hres, _, _⟩ := wfAttrs_cons hwf
    rw [setKeyE_plain _ _ _ hres] at hset; cases hset
  -- 16 flattenAttrs: block error
  · intro n row acc k rest xs hcond e hwb ih3 hwf hnd
    have hwl : wfList bk xs = true := by
      rw [wfAttrs_list] at hwf
      simp only [Bool.and_eq_true] at hwf
      have := hwf.1.2
      rw [if_pos hcond] at this; exact this
    obtain ⟨inner, n1, hfl, _⟩ := ih3 hwl
    rw [hfl] at hwb
    simp [wrapBlock] at hwb
  -- 17 flattenAttrs: plain list
  · intro n row acc k rest xs hcond row' hset ih2 hwf hnd
    obtain ⟨hres, hno, hwr⟩ := wfAttrs_cons hwf
    have hfreshk : k ∉ row.attrs.map Prod.fst := by
      simp only [List.map_cons, List.nodup_append, List.nodup_cons] at hnd
      intro hm
      exact hnd.2.2 k hm k (by simp) rfl
    rw [setKeyE_fresh _ _ _ hres hfreshk] at hset
    simp only [Except.ok.injEq] at hset
    subst hset
    obtain ⟨added2, new2, n2, hfa2, hkeys2, hseg2, hrb2, hbc2⟩ := ih2 hwr (by
      simp only [List.map_append, List.map_cons, List.map_nil, List.append_assoc, List.cons_append,
        List.nil_append]
      simpa using hnd)
    refine ⟨(k, (if xs.isEmpty then AVal.none else AVal.str (pyRepr (.list xs)))) :: added2, new2, n2,
      ?_, ?_, hseg2, ?_, ?_⟩
    · rw [flattenAttrs]
      simp only [hcond, Bool.false_eq_true, if_false, setKeyE_fresh _ _ _ hres hfreshk, hfa2]
      simp [List.append_assoc]
    · simp [hkeys2]
    · intro kv hkv hb b hv
      rcases List.mem_cons.1 hkv with rfl | hkv
      · simp only at hv
        split at hv <;> cases hv
      · exact hrb2 kv hkv hb b hv
    · intro M inM p o rest' hoid hneed hl
      exact hbc2 M inM p o rest' hoid (fun kv hkv => hneed kv (List.mem_cons_of_mem _ hkv)) hl
  -- 18 flattenAttrs: plain list, set error
  · intro n row acc k rest xs hcond e hset hwf hnd
    obtain ⟨hres, _, _⟩ := wfAttrs_cons hwf
    rw [setKeyE_plain _ _ _ hres] at hset; cases hset
  -- 19 flattenAttrs: dict attribute
  · intro n row acc k rest kvs hwf hnd
    rw [wfAttrs_obj] at hwf; cases hwf
  -- 20 flattenAttrs: leaf
  · intro n row acc k rest leaf hnl hno' row' hset ih2 hwf hnd
    obtain ⟨hres, hno, hwr⟩ := wfAttrs_cons hwf
    have hfreshk : k ∉ row.attrs.map Prod.fst := by
      simp only [List.map_cons, List.nodup_append, List.nodup_cons] at hnd
      intro hm
      exact hnd.2.2 k hm k (by simp) rfl
    rw [setKeyE_fresh _ _ _ hres hfreshk] at hset
    simp only [Except.ok.injEq] at hset
    subst hset
    obtain ⟨added2, new2, n2, hfa2, hkeys2, hseg2, hrb2, hbc2⟩ := ih2 hwr (by
      simp only [List.map_append, List.map_cons, List.map_nil, List.append_assoc, List.cons_append,
        List.nil_append]
      simpa using hnd)
    refine ⟨(k, leafVal leaf) :: added2, new2, n2, ?_, ?_, hseg2, ?_, ?_⟩
    · cases leaf with
      | list xs => exact absurd rfl (hnl xs)
      | obj kvs => exact absurd rfl (hno' kvs)
      | null =>
        rw [flattenAttrs]
        · simp [setKeyE_fresh _ _ _ hres hfreshk, hfa2, List.append_assoc]
        all_goals (intros; contradiction)
      | int m =>
        rw [flattenAttrs]
        · simp [setKeyE_fresh _ _ _ hres hfreshk, hfa2, List.append_assoc]
        all_goals (intros; contradiction)
      | str m =>
        rw [flattenAttrs]
        · simp [setKeyE_fresh _ _ _ hres hfreshk, hfa2, List.append_assoc]
        all_goals (intros; contradiction)
    · simp [hkeys2]
    · intro kv hkv hb b hv
      rcases List.mem_cons.1 hkv with rfl | hkv
      · -- an int leaf under a body key is excluded by `WfGir`
        cases leaf with
        | list xs => exact absurd rfl (hnl xs)
        | obj kvs => exact absurd rfl (hno' kvs)
        | null => simp [leafVal] at hv
        | str m => simp [leafVal] at hv
        | int m =>
          rw [wfAttrs_int] at hwf
          simp only [Bool.and_eq_true, Bool.not_eq_true'] at hwf
          simp only at hb
          rw [hwf.1.2] at hb; cases hb
      · exact hrb2 kv hkv hb b hv
    · intro M inM p o rest' hoid hneed hl
      exact hbc2 M inM p o rest' hoid (fun kv hkv => hneed kv (List.mem_cons_of_mem _ hkv)) hl
  -- 21 flattenAttrs: leaf, set error
  · intro n row acc k rest leaf _ _ e hset hwf hnd
    obtain ⟨hres, _, _⟩ := wfAttrs_cons hwf
    rw [setKeyE_plain _ _ _ hres] at hset; cases hset

/-! ### `flatten` -/

theorem isGirFormat_cons {xs : List JVal} (h : isGirFormat xs = true) : ∃ x rest, xs = x :: rest := by
  cases xs with
  | nil => simp [isGirFormat] at h
  | cons x rest => exact ⟨x, rest, rfl⟩

/-- **`flatten` on a `WfGir` tree**: succeeds, uses exactly the ids `[n, n')` in emission order,
and the rows form the grammar at the top level. -/
theorem flatten_spec (P : FlatParams) (bk : String → Bool) (hbk : bk "original_stmt" = false)
    (n : Nat) (t : JVal) (h : WfGir bk t = true) :
    ∃ n' rows, flatten P n t = .ok (n', rows) ∧ n < n' ∧ Seg bk n n' rows ∧ LvlAny 0 rows := by
  cases t with
  | list xs =>
    simp only [WfGir, Bool.and_eq_true] at h
    obtain ⟨hg, hw⟩ := h
    obtain ⟨rows, n', hfl, hseg, hlvl⟩ := (flatten_induction P bk hbk).2.2 n 0 xs hw
    refine ⟨n', rows, by simp [flatten, hg, hfl], ?_, hseg, hlvl⟩
    -- at least one row: the first statement is a non-empty dict
    obtain ⟨x, rest, rfl⟩ := isGirFormat_cons hg
    rw [wfList_cons, Bool.and_eq_true] at hw
    obtain ⟨row, sub, n1, hfs, hid, _, hm, _, hseg1, _⟩ := (flatten_induction P bk hbk).1 n 0 x hw.1
    have h1 := hseg1.le
    -- n' ≥ n1 ≥ n + 1
    rw [flattenList, hfs] at hfl
    simp only [Bool.not_true, Bool.false_and, Bool.false_eq_true, if_false] at hfl
    split at hfl
    · cases hfl
    · rename_i row' _
      split at hfl
      · rename_i rs n2 hrest
        simp only [Except.ok.injEq, Prod.mk.injEq] at hfl
        obtain ⟨_, rfl⟩ := hfl
        obtain ⟨rows2, n3, hfl2, hseg2, _⟩ := (flatten_induction P bk hbk).2.2 n1 0 rest hw.2
        rw [hrest] at hfl2
        simp only [Except.ok.injEq, Prod.mk.injEq] at hfl2
        obtain ⟨_, rfl⟩ := hfl2
        have := hseg2.le
        omega
      · cases hfl
  | null => simp [WfGir] at h
  | int _ => simp [WfGir] at h
  | str _ => simp [WfGir] at h
  | obj _ => simp [WfGir] at h

theorem range'_pairwise_lt (n k : Nat) : (List.range' n k).Pairwise (· < ·) := by
  induction k generalizing n with
  | zero => simp
  | succ k ih =>
    rw [List.range'_succ, List.pairwise_cons]
    refine ⟨?_, ih (n + 1)⟩
    intro b hb
    have := (List.mem_range'_1.1 hb).1
    omega

theorem range'_nodup (n k : Nat) : (List.range' n k).Nodup := by
  have := range'_pairwise_lt n k
  exact this.imp (fun h => Nat.ne_of_lt h)

/-- ids in emission order are increasing ⇒ the `ordered` clause -/
theorem ordered_of_ids {rows : Rows} {n k : Nat} (h : defIds rows = List.range' n k) :
    rows.Pairwise (fun a b => a.isMarker = false → b.isMarker = false → a.parent = b.parent → a.id < b.id) := by
  have h1 : (defIds rows).Pairwise (· < ·) := by rw [h]; exact range'_pairwise_lt n k
  simp only [defIds, List.pairwise_map, List.pairwise_filter] at h1
  refine h1.imp ?_
  intro a b hab ha hb _
  exact hab (by simp [(isMarker_false_iff.1 ha).2]) (by simp [(isMarker_false_iff.1 hb).2])

theorem Seg.wfCore {bk n n' rows} (hn : 1 ≤ n) (hseg : Seg bk n n' rows) (hl : LvlAny 0 rows) : WFCore bk rows :=
  ⟨fun M inM => hl M inM none, by rw [hseg.ids]; exact range'_nodup _ _,
   fun r hr => by have := hseg.bound r hr; omega, hseg.bodies⟩

end LianVerif.Gir
