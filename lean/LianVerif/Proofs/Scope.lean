/-
Helper lemmas for C05 about the scope tables: under `IdOrder` the worklist closure of
`summarize_symbol_decls` computes, for every scope, exactly the path to the unit root, and ids
strictly decrease along that path.  The property theorems are in Properties/C05.lean.
-/
import LianVerif.Model.Scope
import LianVerif.Spec.Lexical

namespace LianVerif.Scopes
open LianVerif.Lexical

/-! ### small list / assoc-list facts -/

theorem mem_addNew {xs : List Int} {x y : Int} : y ∈ addNew xs x ↔ y ∈ xs ∨ y = x := by
  unfold addNew
  by_cases h : xs.contains x = true
  · rw [if_pos h]
    constructor
    · intro hy; exact Or.inl hy
    · rintro (hy | rfl)
      · exact hy
      · exact List.contains_iff_mem.1 h
  · rw [if_neg h]; simp

theorem mem_union {xs ys : List Int} {y : Int} : y ∈ union xs ys ↔ y ∈ xs ∨ y ∈ ys := by
  unfold union
  induction ys generalizing xs with
  | nil => simp
  | cons z zs ih =>
    rw [List.foldl_cons, ih, mem_addNew]
    simp only [List.mem_cons]
    constructor
    · rintro ((h | h) | h)
      · exact Or.inl h
      · exact Or.inr (Or.inl h)
      · exact Or.inr (Or.inr h)
    · rintro (h | h | h)
      · exact Or.inl (Or.inl h)
      · exact Or.inl (Or.inr h)
      · exact Or.inr h

theorem Avail.get_nil (k : Nat) : Avail.get [] k = none := rfl

theorem Avail.get_cons (p : Nat × List Int) (ps : Avail) (k : Nat) :
    Avail.get (p :: ps) k = if p.1 == k then some p.2 else Avail.get ps k := by
  unfold Avail.get
  rw [List.find?_cons]
  by_cases h : (p.1 == k) = true
  · simp [h]
  · simp [h]

theorem Avail.get_eq_none {a : Avail} {k : Nat} : a.get k = none ↔ k ∉ a.map (·.1) := by
  induction a with
  | nil => simp [Avail.get_nil]
  | cons p ps ih =>
    rw [Avail.get_cons]
    by_cases h : (p.1 == k) = true
    · rw [if_pos h]
      have : p.1 = k := by simpa using h
      simp [this]
    · rw [if_neg h, ih]
      have : ¬ p.1 = k := by simpa using h
      simp only [List.map_cons, List.mem_cons, not_or]
      constructor
      · intro hk; exact ⟨fun e => this e.symm, hk⟩
      · intro hk; exact hk.2

theorem Avail.get_set_self (a : Avail) (k : Nat) (v : List Int) : (a.set k v).get k = some v := by
  induction a with
  | nil => simp [Avail.set, Avail.get_cons]
  | cons p ps ih =>
    unfold Avail.set
    by_cases h : (p.1 == k) = true
    · rw [if_pos h, Avail.get_cons]; simp
    · rw [if_neg h, Avail.get_cons, if_neg h, ih]

theorem Avail.get_set_other (a : Avail) {k k' : Nat} (v : List Int) (hne : k' ≠ k) :
    (a.set k v).get k' = a.get k' := by
  induction a with
  | nil =>
    simp only [Avail.set, Avail.get_cons, Avail.get_nil]
    have : ¬ ((k == k') = true) := by simpa using fun e : k = k' => hne e.symm
    rw [if_neg this]
  | cons p ps ih =>
    unfold Avail.set
    by_cases h : (p.1 == k) = true
    · rw [if_pos h, Avail.get_cons, Avail.get_cons]
      have hpk : p.1 = k := by simpa using h
      have h1 : ¬ ((k == k') = true) := by simpa using fun e : k = k' => hne e.symm
      have h2 : ¬ ((p.1 == k') = true) := by rw [hpk]; exact h1
      rw [if_neg h1, if_neg h2]
    · rw [if_neg h, Avail.get_cons, Avail.get_cons, ih]

theorem Avail.keys_set {a : Avail} {k : Nat} (v : List Int) (hk : k ∈ a.map (·.1)) :
    (a.set k v).map (·.1) = a.map (·.1) := by
  induction a with
  | nil => simp at hk
  | cons p ps ih =>
    unfold Avail.set
    by_cases h : (p.1 == k) = true
    · rw [if_pos h]
      have : p.1 = k := by simpa using h
      simp [this]
    · rw [if_neg h]
      have hne : ¬ p.1 = k := by simpa using h
      simp only [List.map_cons, List.mem_cons] at hk
      rcases hk with hk | hk
      · exact absurd hk.symm hne
      · simp only [List.map_cons, ih hk]

theorem Avail.keys_set_new {a : Avail} {k : Nat} (v : List Int) (hk : k ∉ a.map (·.1)) :
    (a.set k v).map (·.1) = a.map (·.1) ++ [k] := by
  induction a with
  | nil => simp [Avail.set]
  | cons p ps ih =>
    simp only [List.map_cons, List.mem_cons, not_or] at hk
    unfold Avail.set
    have h : ¬ ((p.1 == k) = true) := by simpa using fun e : p.1 = k => hk.1 e.symm
    rw [if_neg h]
    simp only [List.map_cons, List.cons_append, ih hk.2]

theorem Avail.get_append_new {a : Avail} {k k' : Nat} {v : List Int} :
    Avail.get (a ++ [(k, v)]) k' = match a.get k' with
      | some w => some w
      | none => if k == k' then some v else none := by
  induction a with
  | nil => simp [Avail.get_cons, Avail.get_nil]
  | cons p ps ih =>
    rw [List.cons_append, Avail.get_cons, Avail.get_cons]
    by_cases h : (p.1 == k') = true
    · rw [if_pos h, if_pos h]
    · rw [if_neg h, if_neg h, ih]

/-- lookup through the "add the own id" map of `closure`. -/
theorem Avail.get_map_self (a : Avail) (k : Nat) :
    Avail.get (a.map (fun p => (p.1, addNew p.2 (p.1 : Int)))) k =
      (a.get k).map (fun v => addNew v (k : Int)) := by
  induction a with
  | nil => rfl
  | cons p ps ih =>
    rw [List.map_cons, Avail.get_cons, Avail.get_cons]
    by_cases h : (p.1 == k) = true
    · have hpk : p.1 = k := by simpa using h
      simp [hpk]
    · rw [if_neg h, if_neg h, ih]

/-! ### unpacking `idOrder` -/

theorem ascending_pairwise {recs : List ScopeRec} (h : ascending recs = true) :
    recs.Pairwise (fun a b => a.stmt < b.stmt) := by
  induction recs with
  | nil => exact List.Pairwise.nil
  | cons a rest ih =>
    cases rest with
    | nil => exact List.pairwise_singleton _ _
    | cons b rest' =>
      simp only [ascending, Bool.and_eq_true, decide_eq_true_eq] at h
      obtain ⟨hab, hrest⟩ := h
      have ih' := ih hrest
      rw [List.pairwise_cons]
      refine ⟨?_, ih'⟩
      intro c hc
      rcases List.mem_cons.1 hc with rfl | hc
      · exact hab
      · have := (List.pairwise_cons.1 ih').1 c hc
        exact Nat.lt_trans hab this

/-- the two halves of `idOrder`. -/
structure WF (recs : List ScopeRec) : Prop where
  asc : recs.Pairwise (fun a b => a.stmt < b.stmt)
  par : ∀ r ∈ recs, r.kind.isScope = true →
    0 < r.stmt ∧ (r.scope = 0 ∨ (0 < r.scope ∧ r.scope < (r.stmt : Int) ∧ isScopeStmt recs r.scope = true))

theorem wf_of_idOrder {recs : List ScopeRec} (h : idOrder recs = true) : WF recs := by
  unfold idOrder at h
  rw [Bool.and_eq_true] at h
  refine ⟨ascending_pairwise h.1, ?_⟩
  intro r hr hs
  have := List.all_eq_true.1 h.2 r hr
  rw [hs] at this
  simp only [Bool.not_true, Bool.false_or, Bool.and_eq_true, decide_eq_true_eq, Bool.or_eq_true,
    beq_iff_eq] at this
  obtain ⟨h0, h1⟩ := this
  refine ⟨h0, ?_⟩
  rcases h1 with h1 | ⟨⟨h1, h2⟩, h3⟩
  · exact Or.inl h1
  · exact Or.inr ⟨h1, h2, h3⟩

/-- two entries with the same statement id are the same entry. -/
theorem unique_of_pairwise {recs : List ScopeRec} (hp : recs.Pairwise (fun a b => a.stmt < b.stmt))
    {a b : ScopeRec} (ha : a ∈ recs) (hb : b ∈ recs) (h : a.stmt = b.stmt) : a = b := by
  induction recs with
  | nil => simp at ha
  | cons c rest ih =>
    rw [List.pairwise_cons] at hp
    rcases List.mem_cons.1 ha with rfl | ha' <;> rcases List.mem_cons.1 hb with rfl | hb'
    · rfl
    · have := hp.1 b hb'; omega
    · have := hp.1 a ha'; omega
    · exact ih hp.2 ha' hb'

theorem WF.unique {recs : List ScopeRec} (w : WF recs) {a b : ScopeRec} (ha : a ∈ recs) (hb : b ∈ recs)
    (h : a.stmt = b.stmt) : a = b := unique_of_pairwise w.asc ha hb h

/-! ### parent links and the path to the root -/

theorem isScopeStmt_iff {recs : List ScopeRec} {s : Int} :
    isScopeStmt recs s = true ↔ ∃ r ∈ recs, r.kind.isScope = true ∧ (r.stmt : Int) = s := by
  unfold isScopeStmt
  simp only [List.any_eq_true, Bool.and_eq_true, beq_iff_eq]

/-- the parent link of a scope entry is its `scope` field. -/
theorem parentOf_of_mem {recs : List ScopeRec} (w : WF recs) {r : ScopeRec} (hr : r ∈ recs)
    (hs : r.kind.isScope = true) : parentOf recs (r.stmt : Int) = some r.scope := by
  unfold parentOf
  have hpos : ¬ ((r.stmt : Int) ≤ 0) := by have := (w.par r hr hs).1; omega
  rw [if_neg hpos]
  cases hf : recs.find? (fun x => x.kind.isScope && ((x.stmt : Int) == (r.stmt : Int))) with
  | none =>
    have := List.find?_eq_none.1 hf r hr
    simp [hs] at this
  | some r' =>
    have hmem : r' ∈ recs := List.mem_of_find?_eq_some hf
    have hp := List.find?_some hf
    simp only [Bool.and_eq_true, beq_iff_eq] at hp
    have : r' = r := w.unique hmem hr (by have := hp.2; omega)
    rw [this]; rfl

theorem parentOf_some {recs : List ScopeRec} {s p : Int} (h : parentOf recs s = some p) :
    0 < s ∧ ∃ r ∈ recs, r.kind.isScope = true ∧ (r.stmt : Int) = s ∧ r.scope = p := by
  unfold parentOf at h
  by_cases hs : s ≤ 0
  · rw [if_pos hs] at h; simp at h
  · rw [if_neg hs] at h
    cases hf : recs.find? (fun x => x.kind.isScope && ((x.stmt : Int) == s)) with
    | none => rw [hf] at h; simp at h
    | some r =>
      rw [hf] at h
      simp only [Option.map_some, Option.some.injEq] at h
      have hmem : r ∈ recs := List.mem_of_find?_eq_some hf
      have hp := List.find?_some hf
      simp only [Bool.and_eq_true, beq_iff_eq] at hp
      exact ⟨by omega, r, hmem, hp.1, hp.2, h⟩

theorem parentOf_nonpos {recs : List ScopeRec} {s : Int} (h : s ≤ 0) : parentOf recs s = none := by
  unfold parentOf; rw [if_pos h]

/-- parents are smaller and non-negative. -/
theorem parentOf_lt {recs : List ScopeRec} (w : WF recs) {s p : Int} (h : parentOf recs s = some p) :
    0 ≤ p ∧ p < s := by
  obtain ⟨_, r, hr, hs, hst, hsc⟩ := parentOf_some h
  obtain ⟨h0, h1⟩ := w.par r hr hs
  rcases h1 with h1 | h1
  · rw [← hsc, h1]; omega
  · rw [← hsc]; omega

/-- one more unit of fuel does not change the path once the fuel covers the id. -/
theorem chainAux_succ {recs : List ScopeRec} (w : WF recs) :
    ∀ (f : Nat) (s : Int), s.toNat ≤ f → chainAux recs (f + 1) s = chainAux recs f s := by
  intro f
  induction f with
  | zero =>
    intro s hs
    have : s ≤ 0 := by omega
    simp [chainAux, parentOf_nonpos this]
  | succ f ih =>
    intro s hs
    rw [chainAux, chainAux]
    cases hp : parentOf recs s with
    | none => rfl
    | some p =>
      simp only
      have := parentOf_lt w hp
      rw [ih p (by omega)]

theorem chainAux_stable {recs : List ScopeRec} (w : WF recs) (s : Int) :
    ∀ (d : Nat), chainAux recs (s.toNat + d) s = chainAux recs s.toNat s := by
  intro d
  induction d with
  | zero => rfl
  | succ d ih => rw [← Nat.add_assoc, chainAux_succ w _ _ (by omega), ih]

theorem chain_nonpos {recs : List ScopeRec} {s : Int} (h : s ≤ 0) : chain recs s = [s] := by
  unfold chain
  have : s.toNat = 0 := by omega
  rw [this]; rfl

/-- unfolding the path at a scope entry. -/
theorem chain_unfold {recs : List ScopeRec} (w : WF recs) {r : ScopeRec} (hr : r ∈ recs)
    (hs : r.kind.isScope = true) : chain recs (r.stmt : Int) = (r.stmt : Int) :: chain recs r.scope := by
  have hp := parentOf_of_mem w hr hs
  have hlt := parentOf_lt w hp
  unfold chain
  have hpos := (w.par r hr hs).1
  obtain ⟨k, hk⟩ : ∃ k, ((r.stmt : Int)).toNat = k + 1 := ⟨r.stmt - 1, by omega⟩
  rw [hk, chainAux, hp]
  simp only
  have : k = r.scope.toNat + (k - r.scope.toNat) := by omega
  rw [this, chainAux_stable w]

/-- every member of a path is the root or a scope entry, and is bounded by the start. -/
theorem chain_mem {recs : List ScopeRec} (w : WF recs) :
    ∀ (n : Nat) (s : Int), s.toNat ≤ n → (s = 0 ∨ isScopeStmt recs s = true) →
      ∀ x ∈ chain recs s, (x = 0 ∨ (0 < x ∧ isScopeStmt recs x = true)) ∧ x ≤ s := by
  intro n
  induction n with
  | zero =>
    intro s hn hs x hx
    have hs0 : s = 0 := by
      rcases hs with h | h
      · exact h
      · obtain ⟨r, hr, hk, hst⟩ := isScopeStmt_iff.1 h
        have := (w.par r hr hk).1
        omega
    rw [hs0, chain_nonpos (Int.le_refl 0)] at hx
    simp only [List.mem_singleton] at hx
    rw [hx, hs0]; exact ⟨Or.inl rfl, Int.le_refl 0⟩
  | succ n ih =>
    intro s hn hs x hx
    rcases hs with h | h
    · rw [h, chain_nonpos (Int.le_refl 0)] at hx
      simp only [List.mem_singleton] at hx
      rw [hx, h]; exact ⟨Or.inl rfl, Int.le_refl 0⟩
    · obtain ⟨r, hr, hk, hst⟩ := isScopeStmt_iff.1 h
      rw [← hst, chain_unfold w hr hk] at hx
      obtain ⟨h0, h1⟩ := w.par r hr hk
      rcases List.mem_cons.1 hx with rfl | hx
      · rw [hst]
        exact ⟨Or.inr ⟨by omega, h⟩, Int.le_refl _⟩
      · have hsc : r.scope = 0 ∨ isScopeStmt recs r.scope = true := by
          rcases h1 with h1 | h1
          · exact Or.inl h1
          · exact Or.inr h1.2.2
        have hlt : r.scope < s := by
          rcases h1 with h1 | h1
          · rw [h1]; omega
          · omega
        have := ih r.scope (by omega) hsc x hx
        exact ⟨this.1, by omega⟩

theorem chain_mem' {recs : List ScopeRec} (w : WF recs) {s : Int}
    (hs : s = 0 ∨ isScopeStmt recs s = true) {x : Int} (hx : x ∈ chain recs s) :
    (x = 0 ∨ (0 < x ∧ isScopeStmt recs x = true)) ∧ x ≤ s :=
  chain_mem w s.toNat s (Nat.le_refl _) hs x hx

/-- ids strictly decrease along the path. -/
theorem chain_desc {recs : List ScopeRec} (w : WF recs) :
    ∀ (n : Nat) (s : Int), s.toNat ≤ n → (s = 0 ∨ isScopeStmt recs s = true) →
      (chain recs s).Pairwise (fun a b => a > b) := by
  intro n
  induction n with
  | zero =>
    intro s hn hs
    have hs0 : s = 0 := by
      rcases hs with h | h
      · exact h
      · obtain ⟨r, hr, hk, hst⟩ := isScopeStmt_iff.1 h
        have := (w.par r hr hk).1
        omega
    rw [hs0, chain_nonpos (Int.le_refl 0)]
    exact List.pairwise_singleton _ _
  | succ n ih =>
    intro s hn hs
    rcases hs with h | h
    · rw [h, chain_nonpos (Int.le_refl 0)]
      exact List.pairwise_singleton _ _
    · obtain ⟨r, hr, hk, hst⟩ := isScopeStmt_iff.1 h
      rw [← hst, chain_unfold w hr hk]
      obtain ⟨h0, h1⟩ := w.par r hr hk
      have hsc : r.scope = 0 ∨ isScopeStmt recs r.scope = true := by
        rcases h1 with h1 | h1
        · exact Or.inl h1
        · exact Or.inr h1.2.2
      have hlt : r.scope < (r.stmt : Int) := by
        rcases h1 with h1 | h1
        · rw [h1]; omega
        · omega
      rw [List.pairwise_cons]
      refine ⟨?_, ih r.scope (by omega) hsc⟩
      intro x hx
      have := (chain_mem' w hsc hx).2
      omega

theorem chain_desc' {recs : List ScopeRec} (w : WF recs) {s : Int}
    (hs : s = 0 ∨ isScopeStmt recs s = true) : (chain recs s).Pairwise (fun a b => a > b) :=
  chain_desc w s.toNat s (Nat.le_refl _) hs

/-! ### the initial visible-scope table -/

/-- the scope entries, in scope-space order. -/
def scopeRecs (recs : List ScopeRec) : List ScopeRec := recs.filter (fun r => r.kind.isScope)

def initOf (l : List ScopeRec) : Avail := l.map (fun r => (r.stmt, [r.scope]))

theorem availInit_aux (l : List ScopeRec) :
    ∀ (a : Avail), l.Pairwise (fun x y => x.stmt < y.stmt) → (∀ r ∈ l, r.stmt ∉ a.map (·.1)) →
      l.foldl initStep a = a ++ initOf (l.filter (fun r => r.kind.isScope)) := by
  induction l with
  | nil => intro a _ _; simp [initOf]
  | cons r l ih =>
    intro a hp ha
    rw [List.pairwise_cons] at hp
    rw [List.foldl_cons]
    by_cases hs : r.kind.isScope = true
    · have hnone : a.get r.stmt = none := Avail.get_eq_none.2 (ha r List.mem_cons_self)
      have hstep : initStep a r = a ++ [(r.stmt, [r.scope])] := by
        unfold initStep; rw [if_pos hs, hnone]
      rw [hstep, ih _ hp.2]
      · rw [List.filter_cons_of_pos (by simpa using hs)]
        simp [initOf]
      · intro r' hr'
        simp only [List.map_append, List.map_cons, List.map_nil, List.mem_append, List.mem_singleton,
          not_or]
        refine ⟨ha r' (List.mem_cons_of_mem _ hr'), ?_⟩
        have := hp.1 r' hr'
        omega
    · have hstep : initStep a r = a := by unfold initStep; rw [if_neg hs]
      rw [hstep, ih _ hp.2 (fun r' hr' => ha r' (List.mem_cons_of_mem _ hr'))]
      rw [List.filter_cons_of_neg (by simpa using hs)]

theorem availInit_eq {recs : List ScopeRec} (w : WF recs) : availInit recs = initOf (scopeRecs recs) := by
  unfold availInit
  rw [availInit_aux recs [] w.asc (by simp)]
  simp [scopeRecs]

theorem mem_scopeRecs {recs : List ScopeRec} {r : ScopeRec} :
    r ∈ scopeRecs recs ↔ r ∈ recs ∧ r.kind.isScope = true := by
  unfold scopeRecs; rw [List.mem_filter]

theorem scopeRecs_pairwise {recs : List ScopeRec} (w : WF recs) :
    (scopeRecs recs).Pairwise (fun a b => a.stmt < b.stmt) := by
  unfold scopeRecs
  exact w.asc.filter _

/-! ### the inner worklist loop -/

theorem expand_skip (A : Avail) (V : List Nat) (s : Nat) :
    ∀ (wl : List Int) (f : Nat) (acc : List Int), (∀ t ∈ wl, t ≤ 0) → wl.length < f →
      expand A V s f wl acc = (acc, true) := by
  intro wl
  induction wl with
  | nil =>
    intro f acc _ hf
    cases f with
    | zero => simp at hf
    | succ f => simp [expand]
  | cons t wl ih =>
    intro f acc hall hf
    cases f with
    | zero => simp at hf
    | succ f =>
      have ht : t ≤ 0 := hall t List.mem_cons_self
      rw [expand, if_pos ht]
      exact ih f acc (fun x hx => hall x (List.mem_cons_of_mem _ hx)) (by simpa using hf)

theorem pushAll_zero (V : List Nat) :
    ∀ (vp w : List Int), (∀ i ∈ vp, i = 0 ∨ (0 < i ∧ V.contains i.toNat = true)) →
      (∀ t ∈ w, t = 0) → w.Nodup →
      (∀ t ∈ vp.foldl (pushNew V) w, t = 0) ∧ (vp.foldl (pushNew V) w).Nodup := by
  intro vp
  induction vp with
  | nil => intro w _ hw hn; exact ⟨hw, hn⟩
  | cons i vp ih =>
    intro w hvp hw hn
    rw [List.foldl_cons]
    apply ih
    · intro j hj; exact hvp j (List.mem_cons_of_mem _ hj)
    · unfold pushNew
      split
      · exact hw
      · rename_i hc
        have hi := hvp i List.mem_cons_self
        have hi0 : i = 0 := by
          rcases hi with h | ⟨hpos, hin⟩
          · exact h
          · exfalso; apply hc
            rw [Bool.or_eq_true, Bool.and_eq_true, decide_eq_true_eq]
            exact Or.inl ⟨Int.le_of_lt hpos, hin⟩
        intro t ht
        rcases List.mem_append.1 ht with ht | ht
        · exact hw t ht
        · simp only [List.mem_singleton] at ht; rw [ht, hi0]
    · unfold pushNew
      split
      · exact hn
      · rename_i hc
        have hni : i ∉ w := by
          intro hmem; apply hc
          rw [Bool.or_eq_true]
          exact Or.inr (List.contains_iff_mem.2 hmem)
        rw [List.nodup_append]
        refine ⟨hn, by simp, ?_⟩
        intro a ha b hb
        simp only [List.mem_singleton] at hb
        rw [hb]; intro e; rw [e] at ha; exact hni ha

theorem allZero_nodup_length {w : List Int} (hw : ∀ t ∈ w, t = 0) (hn : w.Nodup) : w.length ≤ 1 := by
  cases w with
  | nil => simp
  | cons a rest =>
    cases rest with
    | nil => simp
    | cons b rest' =>
      exfalso
      have ha := hw a List.mem_cons_self
      have hb := hw b (List.mem_cons_of_mem _ List.mem_cons_self)
      rw [List.nodup_cons] at hn
      apply hn.1
      rw [ha, ← hb]; exact List.mem_cons_self

/-! ### the closure loop -/

/-- loop invariant of the closure: `done` = entries already processed, `todo` = the rest. -/
structure Inv (recs done todo : List ScopeRec) (st : CState) : Prop where
  ok : st.ok = true
  vis : st.visited = done.map (·.stmt)
  keys : st.avail.map (·.1) = (done ++ todo).map (·.stmt)
  dn : ∀ r ∈ done, ∃ v, st.avail.get r.stmt = some v ∧ ∀ x, x ∈ v ↔ x ∈ chain recs r.scope
  td : ∀ r ∈ todo, st.avail.get r.stmt = some [r.scope]

theorem closeStep_inv {recs done todo : List ScopeRec} {r : ScopeRec} {st : CState} {fuel : Nat}
    (w : WF recs) (hsr : scopeRecs recs = done ++ r :: todo) (hfuel : 3 ≤ fuel)
    (inv : Inv recs done (r :: todo) st) :
    Inv recs (done ++ [r]) todo (closeStep fuel st r.stmt) := by
  have hpw := scopeRecs_pairwise w
  rw [hsr, List.pairwise_append] at hpw
  obtain ⟨_, hpw2, hpw3⟩ := hpw
  rw [List.pairwise_cons] at hpw2
  have hrmem : r ∈ scopeRecs recs := by rw [hsr]; simp
  obtain ⟨hrrecs, hrs⟩ := mem_scopeRecs.1 hrmem
  obtain ⟨hrpos, hrpar⟩ := w.par r hrrecs hrs
  have hget : st.avail.get r.stmt = some [r.scope] := inv.td r List.mem_cons_self
  -- entries of `done` have smaller ids than `r`, entries of `todo` larger ones
  have hdone_lt : ∀ a ∈ done, a.stmt < r.stmt := fun a ha => hpw3 a ha r List.mem_cons_self
  have htodo_gt : ∀ b ∈ todo, r.stmt < b.stmt := fun b hb => hpw2.1 b hb
  -- a scope statement below `r` is an entry of `done`
  have hbelow : ∀ (i : Int), 0 < i → i < (r.stmt : Int) → isScopeStmt recs i = true →
      ∃ r' ∈ done, (r'.stmt : Int) = i := by
    intro i _ hlt hi
    obtain ⟨r', hr', hk', hst'⟩ := isScopeStmt_iff.1 hi
    have hmem' : r' ∈ scopeRecs recs := mem_scopeRecs.2 ⟨hr', hk'⟩
    rw [hsr] at hmem'
    rcases List.mem_append.1 hmem' with h | h
    · exact ⟨r', h, hst'⟩
    · rcases List.mem_cons.1 h with h | h
      · rw [h] at hst'; omega
      · have := htodo_gt r' h; omega
  -- the value computed by the inner loop
  have hexp : ∃ acc, expand st.avail st.visited r.stmt fuel [r.scope] [r.scope] = (acc, true) ∧
      ∀ x, x ∈ acc ↔ x ∈ chain recs r.scope := by
    obtain ⟨f, rfl⟩ : ∃ f, fuel = f + 1 := ⟨fuel - 1, by omega⟩
    rcases hrpar with h0 | ⟨hppos, hplt, hpscope⟩
    · refine ⟨[r.scope], ?_, ?_⟩
      · rw [expand, if_pos (by omega)]
        exact expand_skip _ _ _ [] f _ (by simp) (by simp; omega)
      · intro x; rw [h0, chain_nonpos (Int.le_refl 0)]
    · obtain ⟨r', hr'done, hr'st⟩ := hbelow r.scope hppos hplt hpscope
      obtain ⟨vp, hvp, hvpmem⟩ := inv.dn r' hr'done
      have hr'sr : r' ∈ scopeRecs recs := by rw [hsr]; exact List.mem_append_left _ hr'done
      obtain ⟨hr'recs, hr's⟩ := mem_scopeRecs.1 hr'sr
      have htoNat : r.scope.toNat = r'.stmt := by omega
      have hne : ¬ ((r.scope.toNat == r.stmt) = true) := by
        simp only [beq_iff_eq]; omega
      have hsc' : r'.scope = 0 ∨ isScopeStmt recs r'.scope = true := by
        rcases (w.par r' hr'recs hr's).2 with h | h
        · exact Or.inl h
        · exact Or.inr h.2.2
      have hr'scope_lt : r'.scope < r.scope := by
        rcases (w.par r' hr'recs hr's).2 with h | h
        · rw [h]; exact hppos
        · omega
      refine ⟨union [r.scope] vp, ?_, ?_⟩
      · rw [expand, if_neg (by omega), if_neg hne, htoNat, hvp]
        simp only
        have hall : ∀ i ∈ vp, i = 0 ∨ (0 < i ∧ st.visited.contains i.toNat = true) := by
          intro i hi
          have hci := (hvpmem i).1 hi
          obtain ⟨hi1, hi2⟩ := chain_mem' w hsc' hci
          rcases hi1 with h | ⟨hpos, hsci⟩
          · exact Or.inl h
          · refine Or.inr ⟨hpos, ?_⟩
            obtain ⟨r'', hr''done, hr''st⟩ := hbelow i hpos (by omega) hsci
            rw [inv.vis, List.contains_iff_mem, List.mem_map]
            exact ⟨r'', hr''done, by omega⟩
        obtain ⟨hz, hnd⟩ := pushAll_zero st.visited vp [] hall (by simp) List.nodup_nil
        have hlen := allZero_nodup_length hz hnd
        exact expand_skip _ _ _ _ f _ (fun t ht => by rw [hz t ht]; exact Int.le_refl 0) (by omega)
      · intro x
        rw [mem_union, hvpmem x]
        have hunf := chain_unfold w hr'recs hr's
        rw [hr'st] at hunf
        rw [hunf]
        simp only [List.mem_cons, List.not_mem_nil, or_false]
  obtain ⟨acc, hacc, haccmem⟩ := hexp
  have hstep : closeStep fuel st r.stmt =
      { avail := st.avail.set r.stmt acc, visited := st.visited ++ [r.stmt], ok := st.ok && true } := by
    unfold closeStep
    rw [hget]
    simp only [hacc]
  rw [hstep]
  have hkey : r.stmt ∈ st.avail.map (·.1) := by rw [inv.keys]; simp
  refine ⟨by simp [inv.ok], by simp [inv.vis], ?_, ?_, ?_⟩
  · show (st.avail.set r.stmt acc).map (·.1) = _
    rw [Avail.keys_set _ hkey, inv.keys]; simp
  · intro a ha
    show ∃ v, (st.avail.set r.stmt acc).get a.stmt = some v ∧ _
    rcases List.mem_append.1 ha with ha | ha
    · have hne : a.stmt ≠ r.stmt := by have := hdone_lt a ha; omega
      rw [Avail.get_set_other _ _ hne]
      exact inv.dn a ha
    · simp only [List.mem_singleton] at ha
      rw [ha, Avail.get_set_self]
      exact ⟨acc, rfl, haccmem⟩
  · intro b hb
    show (st.avail.set r.stmt acc).get b.stmt = some [b.scope]
    have hne : b.stmt ≠ r.stmt := by have := htodo_gt b hb; omega
    rw [Avail.get_set_other _ _ hne]
    exact inv.td b (List.mem_cons_of_mem _ hb)

theorem closeLoop_inv {recs : List ScopeRec} (w : WF recs) {fuel : Nat} (hfuel : 3 ≤ fuel) :
    ∀ (todo done : List ScopeRec) (st : CState), scopeRecs recs = done ++ todo →
      Inv recs done todo st →
      Inv recs (done ++ todo) [] (todo.foldl (fun st r => closeStep fuel st r.stmt) st) := by
  intro todo
  induction todo with
  | nil => intro done st _ inv; simpa using inv
  | cons r todo ih =>
    intro done st hsr inv
    rw [List.foldl_cons]
    have := ih (done ++ [r]) (closeStep fuel st r.stmt) (by rw [hsr]; simp)
      (closeStep_inv w hsr hfuel inv)
    simpa using this

/-- what the theorems need from a visible-scope table: the root and every scope hold exactly the
path to the root. -/
def AvailOkP (recs : List ScopeRec) (avail : Avail) : Prop :=
  ∀ cur : Int, (cur = 0 ∨ isScopeStmt recs cur = true) →
    ∃ v, avail.get cur.toNat = some v ∧ ∀ x, x ∈ v ↔ x ∈ chain recs cur

/-- **the closure computes ancestor paths.**  Under `IdOrder` the worklist loop of
`summarize_symbol_decls` terminates within its fuel and yields, for the unit root and for every
scope, exactly the set of scopes on the path to the root. -/
theorem closure_spec {recs : List ScopeRec} (w : WF recs) :
    (closure (availInit recs)).2 = true ∧ AvailOkP recs (closure (availInit recs)).1 := by
  rw [availInit_eq w]
  have hfuel : 3 ≤ ((initOf (scopeRecs recs)).length + 2) * ((initOf (scopeRecs recs)).length + 2) + 8 := by
    omega
  have hinit : Inv recs [] (scopeRecs recs) { avail := initOf (scopeRecs recs), visited := [], ok := true } := by
    refine ⟨rfl, rfl, by simp [initOf], by simp, ?_⟩
    intro r hr
    show Avail.get (initOf (scopeRecs recs)) r.stmt = some [r.scope]
    have hpw := scopeRecs_pairwise w
    generalize scopeRecs recs = l at hr hpw
    induction l with
    | nil => simp at hr
    | cons a l ih =>
      rw [List.pairwise_cons] at hpw
      simp only [initOf, List.map_cons]
      rw [Avail.get_cons]
      rcases List.mem_cons.1 hr with rfl | hr'
      · simp
      · have := hpw.1 r hr'
        have hne : ¬ ((a.stmt == r.stmt) = true) := by simp only [beq_iff_eq]; omega
        rw [if_neg hne]
        exact ih hr' hpw.2
  have hfin := closeLoop_inv w hfuel (scopeRecs recs) [] _ (by simp) hinit
  simp only [List.nil_append] at hfin
  unfold closure
  simp only
  have hkeys : (initOf (scopeRecs recs)).map (·.1) = (scopeRecs recs).map (·.stmt) := by simp [initOf]
  rw [hkeys, List.foldl_map]
  refine ⟨hfin.ok, ?_⟩
  intro cur hcur
  rcases hcur with h0 | hsc
  · refine ⟨[0], ?_, ?_⟩
    · rw [h0]; exact Avail.get_set_self _ _ _
    · intro x; rw [h0, chain_nonpos (Int.le_refl 0)]
  · obtain ⟨r, hr, hk, hst⟩ := isScopeStmt_iff.1 hsc
    have hrsr : r ∈ scopeRecs recs := mem_scopeRecs.2 ⟨hr, hk⟩
    obtain ⟨v, hv, hvmem⟩ := hfin.dn r hrsr
    have hpos := (w.par r hr hk).1
    have htoNat : cur.toNat = r.stmt := by omega
    refine ⟨addNew v (r.stmt : Int), ?_, ?_⟩
    · rw [htoNat, Avail.get_set_other _ _ (by omega), Avail.get_map_self, hv]
      rfl
    · intro x
      rw [mem_addNew, hvmem x, ← hst, chain_unfold w hr hk]
      simp only [List.mem_cons]
      constructor
      · rintro (h | h)
        · exact Or.inr h
        · exact Or.inl h
      · rintro (h | h)
        · exact Or.inr h
        · exact Or.inl h

/-- soundness of the driver's monitor `availOk`. -/
theorem availOk_sound {recs : List ScopeRec} {avail : Avail} (h : availOk recs avail = true) :
    AvailOkP recs avail := by
  unfold availOk at h
  rw [Bool.and_eq_true] at h
  obtain ⟨h0, hall⟩ := h
  have hsame : ∀ {a b : List Int}, sameSet a b = true → ∀ x, x ∈ a ↔ x ∈ b := by
    intro a b hs x
    unfold sameSet at hs
    rw [Bool.and_eq_true, List.all_eq_true, List.all_eq_true] at hs
    constructor
    · intro hx; exact List.contains_iff_mem.1 (hs.1 x hx)
    · intro hx; exact List.contains_iff_mem.1 (hs.2 x hx)
  intro cur hcur
  rcases hcur with hc | hc
  · rw [hc]
    show ∃ v, avail.get 0 = some v ∧ _
    cases hg : avail.get 0 with
    | none => rw [hg] at h0; simp at h0
    | some v =>
      rw [hg] at h0
      refine ⟨v, rfl, ?_⟩
      intro x
      rw [chain_nonpos (Int.le_refl 0)]
      exact hsame h0 x
  · obtain ⟨r, hr, hk, hst⟩ := isScopeStmt_iff.1 hc
    have := List.all_eq_true.1 hall r hr
    rw [hk] at this
    simp only [Bool.not_true, Bool.false_or] at this
    have htoNat : cur.toNat = r.stmt := by omega
    rw [htoNat]
    cases hg : avail.get r.stmt with
    | none => rw [hg] at this; simp at this
    | some v =>
      rw [hg] at this
      refine ⟨v, rfl, ?_⟩
      intro x
      rw [← hst]
      exact hsame this x

end LianVerif.Scopes
