/-
C12 for `add_main_func`: (1) it never reads a location attribute; (2) exchanging two adjacent
top-level declaration subtrees in its input exchanges them in its output and changes nothing else.
-/
import LianVerif.Model.Meta
import LianVerif.Proofs.MainFunc

namespace LianVerif.Meta
open LianVerif.Gir LianVerif.MainFunc

/-! ### attribute-only maps -/

/-- a map on rows that leaves operation, id and parent alone -/
structure AttrOnly (f : Row → Row) : Prop where
  op : ∀ r, (f r).op = r.op
  id : ∀ r, (f r).id = r.id
  parent : ∀ r, (f r).parent = r.parent
  /-- it commutes with re-parenting -/
  reparent : ∀ b r, f (MainFunc.reparent b r) = MainFunc.reparent b (f r)

theorem split_map {f : Row → Row} (hf : AttrOnly f) (P : Params) : ∀ (rows : Rows) (mv : Bool),
    split P mv (rows.map f) = ((split P mv rows).1.map f, (split P mv rows).2.map f) := by
  intro rows
  induction rows with
  | nil => intro mv; rfl
  | cons r rest ih =>
    intro mv
    simp only [List.map_cons, split, hf.parent, hf.op]
    by_cases h0 : (r.parent == 0) = true
    · by_cases hk : MainFunc.keepsTop P r.op = true
      · simp only [h0, hk, if_true, ih false, List.map_cons]
      · simp only [h0, hk, if_true, Bool.false_eq_true, if_false, ih true, List.map_cons]
    · cases mv with
      | true => simp only [h0, Bool.false_eq_true, if_false, if_true, ih true, List.map_cons]
      | false => simp only [h0, Bool.false_eq_true, if_false, ih false, List.map_cons]

theorem nextId_map {f : Row → Row} (hf : AttrOnly f) (rows : Rows) : nextId (rows.map f) = nextId rows := by
  unfold nextId
  generalize 0 = m
  induction rows generalizing m with
  | nil => rfl
  | cons r rest ih => simp only [List.map_cons, List.foldl_cons, hf.id, ih]

theorem addMainFunc_map {f : Row → Row} (hf : AttrOnly f) (P : Params)
    (hinit : ∀ m, f (initDecl P m) = initDecl P m) (hs : ∀ b o, f (mkStart b o) = mkStart b o)
    (he : ∀ b o, f (mkEnd b o) = mkEnd b o) (rows : Rows) :
    addMainFunc P (rows.map f) = (addMainFunc P rows).map f := by
  rw [addMainFunc_eq, addMainFunc_eq, split_map hf, nextId_map hf]
  simp only [List.isEmpty_map]
  split
  · rfl
  · simp only [List.map_append, List.map_cons, List.map_nil, hinit, hs, he, List.map_map]
    congr 3
    funext r
    exact (hf.reparent _ r).symm

theorem eraseLocG_attrOnly : AttrOnly eraseLocG where
  op := fun _ => rfl
  id := fun _ => rfl
  parent := fun _ => rfl
  reparent := fun b r => by
    unfold MainFunc.reparent eraseLocG
    split <;> rfl

/-! ### exchanging two top-level declaration subtrees -/

/-- a top-level declaration with everything below it: first row at the top level and kept there by
`add_main_func`, all other rows below the top level -/
structure DeclTree (P : Params) (T : Rows) : Prop where
  ne : T ≠ []
  head_top : ∀ r ∈ T.head?, r.parent = 0 ∧ MainFunc.keepsTop P r.op = true
  tail_nz : ∀ r ∈ T.tail, r.parent ≠ 0

/-- empty, or starting with a top-level row -/
def HeadTop (X : Rows) : Prop := ∀ r ∈ X.head?, r.parent = 0

theorem split_flag_irrelevant (P : Params) {X : Rows} (h : HeadTop X) (b b' : Bool) : split P b X = split P b' X := by
  cases X with
  | nil => rfl
  | cons r rest =>
    have h0 : (r.parent == 0) = true := by
      rw [beq_iff_eq]; exact h r (by simp)
    simp only [split, h0, if_true]

theorem split_append (P : Params) {X : Rows} (h : HeadTop X) (b : Bool) : ∀ (pre : Rows) (mv : Bool),
    split P mv (pre ++ X) = ((split P mv pre).1 ++ (split P b X).1, (split P mv pre).2 ++ (split P b X).2) := by
  intro pre
  induction pre with
  | nil => intro mv; simp only [List.nil_append, split]; rw [split_flag_irrelevant P h mv b]
  | cons r rest ih =>
    intro mv
    simp only [List.cons_append, split]
    by_cases h0 : (r.parent == 0) = true
    · by_cases hk : MainFunc.keepsTop P r.op = true
      · simp only [h0, hk, if_true, ih false, List.cons_append]
      · simp only [h0, hk, if_true, Bool.false_eq_true, if_false, ih true, List.cons_append]
    · cases mv with
      | true => simp only [h0, Bool.false_eq_true, if_false, if_true, ih true, List.cons_append]
      | false => simp only [h0, Bool.false_eq_true, if_false, ih false, List.cons_append]

theorem split_declTree (P : Params) {T : Rows} (hT : DeclTree P T) (rest : Rows) (mv : Bool) :
    split P mv (T ++ rest) = (T ++ (split P false rest).1, (split P false rest).2) := by
  cases T with
  | nil => exact absurd rfl hT.ne
  | cons r sub =>
    obtain ⟨hp, hk⟩ := hT.head_top r (by simp)
    have h0 : (r.parent == 0) = true := by rw [beq_iff_eq]; exact hp
    simp only [List.cons_append, split, h0, hk, if_true]
    have := split_nz P rest sub false (fun x hx => hT.tail_nz x hx)
    simp only [Bool.false_eq_true, if_false] at this
    rw [this]

theorem DeclTree.headTop {P : Params} {T : Rows} (hT : DeclTree P T) (rest : Rows) : HeadTop (T ++ rest) := by
  cases T with
  | nil => exact absurd rfl hT.ne
  | cons r sub =>
    intro x hx
    simp only [List.cons_append, List.head?_cons, Option.mem_def, Option.some.injEq] at hx
    subst hx
    exact (hT.head_top r (by simp)).1

theorem nextId_congr {X Y : Rows} (h : ∀ r, r ∈ X ↔ r ∈ Y) : nextId X = nextId Y := by
  apply Nat.le_antisymm
  · exact nextId_le (fun r hr => lt_nextId ((h r).1 hr))
  · exact nextId_le (fun r hr => lt_nextId ((h r).2 hr))

/-- **exchange lemma**: both inputs are split into the same prefix, the two subtrees in their
respective order, and the same rest. -/
theorem addMainFunc_swap (P : Params) {A B : Rows} (hA : DeclTree P A) (hB : DeclTree P B) (pre post : Rows) :
    ∃ hd tl, addMainFunc P (pre ++ (A ++ (B ++ post))) = hd ++ (A ++ (B ++ tl)) ∧
             addMainFunc P (pre ++ (B ++ (A ++ post))) = hd ++ (B ++ (A ++ tl)) := by
  have hAB : split P false (pre ++ (A ++ (B ++ post))) =
      ((split P false pre).1 ++ (A ++ (B ++ (split P false post).1)), (split P false pre).2 ++ (split P false post).2) := by
    rw [split_append P (hA.headTop _) false, split_declTree P hA, split_declTree P hB]
  have hBA : split P false (pre ++ (B ++ (A ++ post))) =
      ((split P false pre).1 ++ (B ++ (A ++ (split P false post).1)), (split P false pre).2 ++ (split P false post).2) := by
    rw [split_append P (hB.headTop _) false, split_declTree P hB, split_declTree P hA]
  have hn : nextId (pre ++ (B ++ (A ++ post))) = nextId (pre ++ (A ++ (B ++ post))) := by
    apply nextId_congr
    intro r
    simp only [List.mem_append]
    constructor <;> (intro h; rcases h with h | h | h | h <;> simp [h])
  rw [addMainFunc_eq, addMainFunc_eq, hAB, hBA, hn]
  simp only
  by_cases he : ((split P false pre).2 ++ (split P false post).2).isEmpty = true
  · exact ⟨pre, post, by rw [if_pos he], by rw [if_pos he]⟩
  · refine ⟨(split P false pre).1, (split P false post).1 ++
      ([initDecl P (nextId (pre ++ (A ++ (B ++ post)))),
        mkStart (nextId (pre ++ (A ++ (B ++ post))) + 1) (nextId (pre ++ (A ++ (B ++ post))))] ++
       (((split P false pre).2 ++ (split P false post).2).map (MainFunc.reparent (nextId (pre ++ (A ++ (B ++ post))) + 1)) ++
        [mkEnd (nextId (pre ++ (A ++ (B ++ post))) + 1) (nextId (pre ++ (A ++ (B ++ post))))])), ?_, ?_⟩
    · rw [if_neg he]; simp only [List.append_assoc]
    · rw [if_neg he]; simp only [List.append_assoc]

end LianVerif.Meta
