/-
Helper lemmas for C12 about `Model/PyImportPre.lean`.
-/
import LianVerif.Model.PyImportPre

namespace LianVerif.PyImportPre

/-! ### line count -/

theorem run_length (keys : List Line) (lines : List Line) (spans : List Spans) :
    (run keys lines spans).length = lines.length := by
  induction lines generalizing keys spans with
  | nil => rfl
  | cons l ls ih => simp only [run, List.length_cons, ih]

/-! ### a line that does not contain the dotted name is not touched -/

theorem matchAt_prefix {old : Line} {prev : Option Char} {rest : Line} (h : matchAt old prev rest = true) :
    old <+: rest ∧ old ≠ [] := by
  unfold matchAt at h
  simp only [Bool.and_eq_true, Bool.not_eq_true', List.isEmpty_eq_false_iff, List.isPrefixOf_iff_prefix] at h
  exact ⟨h.1.1.2, h.1.1.1⟩

theorem subAux_of_not_infix (old new : Line) (keep : Nat → Nat → Bool) :
    ∀ (l : Line) (pos : Nat) (prev : Option Char), ¬ old <:+: l → subAux old new keep 0 pos prev l = l := by
  intro l
  induction l with
  | nil => intro pos prev _; rfl
  | cons c cs ih =>
    intro pos prev h
    have hm : matchAt old prev (c :: cs) = false := by
      cases hmm : matchAt old prev (c :: cs) with
      | false => rfl
      | true => exact absurd (matchAt_prefix hmm).1.isInfix h
    rw [subAux, if_neg (by rw [hm]; exact Bool.false_ne_true)]
    rw [ih (pos + 1) (some c) (fun hi => h (hi.trans (List.suffix_cons c cs).isInfix))]

theorem subWord_of_not_infix (old new : Line) (keep : Nat → Nat → Bool) (l : Line) (h : ¬ old <:+: l) :
    subWord old new keep l = l := subAux_of_not_infix old new keep l 0 none h

theorem rewriteLine_of_not_infix (keep : Nat → Nat → Bool) (l : Line) :
    ∀ (keys : List Line), (∀ k ∈ keys, ¬ k <:+: l) → rewriteLine keys keep l = l := by
  intro keys
  unfold rewriteLine
  induction keys with
  | nil => intro _; rfl
  | cons k ks ih =>
    intro h
    rw [List.foldl_cons, subWord_of_not_infix k (under k) keep l (h k List.mem_cons_self)]
    exact ih (fun k' hk' => h k' (List.mem_cons_of_mem _ hk'))

/-! ### the keys are dotted names of earlier import lines -/

theorem mem_addKey {keys : List Line} {n k : Line} (h : k ∈ addKey keys n) : k ∈ keys ∨ k = n := by
  unfold addKey at h
  split at h
  · exact Or.inl h
  · rcases List.mem_append.1 h with h | h
    · exact Or.inl h
    · exact Or.inr (List.mem_singleton.1 h)

theorem mem_addKeys {names : List Line} : ∀ {keys : List Line} {k : Line}, k ∈ addKeys keys names →
    k ∈ keys ∨ (k ∈ names ∧ hasDot k = true) := by
  unfold addKeys
  induction names with
  | nil => intro keys k h; exact Or.inl h
  | cons n ns ih =>
    intro keys k h
    rw [List.foldl_cons] at h
    rcases ih h with h1 | h1
    · by_cases hd : hasDot n = true
      · rw [if_pos hd] at h1
        rcases mem_addKey h1 with h2 | h2
        · exact Or.inl h2
        · exact Or.inr ⟨h2 ▸ List.mem_cons_self, h2 ▸ hd⟩
      · rw [if_neg hd] at h1; exact Or.inl h1
    · exact Or.inr ⟨List.mem_cons_of_mem _ h1.1, h1.2⟩

/-! ### same length, literal columns untouched -/

theorem under_length (n : Line) : (under n).length = n.length := by simp [under]

theorem getElem?_of_prefix {old l : Line} (h : old <+: l) {j : Nat} (hj : j < old.length) : l[j]? = old[j]? := by
  obtain ⟨t, rfl⟩ := h
  exact List.getElem?_append_left hj

/-- columns `[a, b)` every overlapping match of which is kept -/
def Guarded (keep : Nat → Nat → Bool) (col : Nat) : Prop := ∀ a b, a ≤ col → col < b → keep a b = true

theorem subAux_length (old new : Line) (keep : Nat → Nat → Bool) (hlen : new.length = old.length) :
    ∀ (l : Line) (skip pos : Nat) (prev : Option Char),
      (subAux old new keep skip pos prev l).length = l.length - skip := by
  intro l
  induction l with
  | nil => intro skip pos prev; cases skip <;> simp [subAux]
  | cons c cs ih =>
    intro skip pos prev
    cases skip with
    | succ k => rw [subAux, ih]; simp
    | zero =>
      rw [subAux]
      split
      · rename_i hm
        obtain ⟨hp, hne⟩ := matchAt_prefix hm
        have h1 : old.length ≤ cs.length + 1 := by simpa using hp.length_le
        have h2 : 0 < old.length := List.length_pos_iff.2 hne
        rw [List.length_append, ih]
        have : (if keep pos (pos + old.length) = true then old else new).length = old.length := by
          split <;> simp [hlen]
        rw [this]; simp only [List.length_cons]; omega
      · rw [List.length_cons, ih]; simp

theorem subAux_getElem? (old new : Line) (keep : Nat → Nat → Bool) (hlen : new.length = old.length) :
    ∀ (l : Line) (skip pos : Nat) (prev : Option Char) (j : Nat), Guarded keep (pos + skip + j) →
      (subAux old new keep skip pos prev l)[j]? = l[skip + j]? := by
  intro l
  induction l with
  | nil => intro skip pos prev j _; cases skip <;> simp [subAux]
  | cons c cs ih =>
    intro skip pos prev j hg
    cases skip with
    | succ k =>
      rw [subAux, ih k (pos + 1) (some c) j (by rw [show pos + 1 + k + j = pos + (k + 1) + j by omega]; exact hg)]
      rw [show k + 1 + j = (k + j) + 1 by omega, List.getElem?_cons_succ]
    | zero =>
      rw [subAux]
      split
      · rename_i hm
        obtain ⟨hp, hne⟩ := matchAt_prefix hm
        have h2 : 0 < old.length := List.length_pos_iff.2 hne
        have hw : (if keep pos (pos + old.length) = true then old else new).length = old.length := by
          split <;> simp [hlen]
        by_cases hj : j < old.length
        · -- inside the match: it is kept
          have hk : keep pos (pos + old.length) = true := hg pos (pos + old.length) (by omega) (by omega)
          rw [if_pos hk, List.getElem?_append_left hj, Nat.zero_add]
          exact (getElem?_of_prefix hp hj).symm
        · have hge : old.length ≤ j := Nat.le_of_not_lt hj
          rw [List.getElem?_append_right (by rw [hw]; exact hge), hw]
          rw [ih (old.length - 1) (pos + 1) (some c) (j - old.length)
            (by rw [show pos + 1 + (old.length - 1) + (j - old.length) = pos + 0 + j by omega]; exact hg)]
          rw [Nat.zero_add, show old.length - 1 + (j - old.length) = j - 1 by omega]
          cases j with
          | zero => omega
          | succ j' => simp
      · cases j with
        | zero => simp
        | succ j' =>
          rw [List.getElem?_cons_succ, ih 0 (pos + 1) (some c) j'
            (by rw [show pos + 1 + 0 + j' = pos + 0 + (j' + 1) by omega]; exact hg)]
          simp

theorem subWord_length (old : Line) (keep : Nat → Nat → Bool) (l : Line) :
    (subWord old (under old) keep l).length = l.length := by
  unfold subWord; rw [subAux_length old (under old) keep (under_length old)]; simp

theorem subWord_getElem? (old : Line) (keep : Nat → Nat → Bool) (l : Line) (j : Nat) (hg : Guarded keep j) :
    (subWord old (under old) keep l)[j]? = l[j]? := by
  unfold subWord
  rw [subAux_getElem? old (under old) keep (under_length old) l 0 0 none j (by simpa using hg)]
  simp

theorem rewriteLine_spec (keep : Nat → Nat → Bool) : ∀ (keys : List Line) (l : Line),
    (rewriteLine keys keep l).length = l.length ∧
    ∀ j, Guarded keep j → (rewriteLine keys keep l)[j]? = l[j]? := by
  intro keys
  unfold rewriteLine
  induction keys with
  | nil => intro l; exact ⟨rfl, fun _ _ => rfl⟩
  | cons k ks ih =>
    intro l
    rw [List.foldl_cons]
    obtain ⟨h1, h2⟩ := ih (subWord k (under k) keep l)
    refine ⟨by rw [h1, subWord_length], fun j hg => ?_⟩
    rw [h2 j hg, subWord_getElem? k keep l j hg]

theorem guarded_of_span {spans : Spans} {col : Nat} {s : Nat × Nat} (hs : s ∈ spans) (h1 : s.1 ≤ col) (h2 : col < s.2) :
    Guarded (overlaps spans) col := by
  intro a b ha hb
  unfold overlaps
  rw [List.any_eq_true]
  exact ⟨s, hs, by simp only [Bool.and_eq_true, decide_eq_true_eq]; omega⟩

/-! ### the trailing comment of an import line -/

theorem rstrip_length_le (l : Line) : (rstrip l).length ≤ l.length := by
  unfold rstrip
  rw [List.length_reverse]
  have := (List.dropWhile_sublist isSpace (l := l.reverse)).length_le
  rwa [List.length_reverse] at this

theorem importPart_length_le {spans : Spans} {line : Line} {c : Nat} (h : commentStart spans line = some c) :
    (importPart spans line).length ≤ c := by
  unfold importPart
  rw [h]
  exact Nat.le_trans (rstrip_length_le _) (by rw [List.length_take]; exact Nat.min_le_left _ _)

theorem drop_suffix_of_le (l : Line) {n c : Nat} (h : n ≤ c) : l.drop c <:+ l.drop n := by
  have : l.drop c = (l.drop n).drop (c - n) := by rw [List.drop_drop]; congr 1; omega
  rw [this]
  exact List.drop_suffix _ _

theorem comment_suffix_trailing {spans : Spans} {line : Line} {c : Nat} (h : commentStart spans line = some c) :
    line.drop c <:+ trailingComment spans line := by
  have hlen := importPart_length_le h
  unfold trailingComment
  rw [h]
  exact drop_suffix_of_le line hlen

end LianVerif.PyImportPre
