/-
Helper lemmas for C18: the repaired directory walk terminates — with fuel `maxDepth + 2` it never
reports `fuelOut` — because it never enters the workspace it is filling: every directory it visits
exists in the reference file system outside the workspace, whose depth is bounded.
-/
import LianVerif.Proofs.WorkspaceMain

namespace LianVerif.Workspace
open LianVerif.Fs

/-! ### nothing but the walk itself runs out of fuel -/

theorem mkdirsOp_noFuel (cwd : Path) (p : RPath) (s : St) : (mkdirsOp cwd p s).2 ≠ some .fuelOut := by
  unfold mkdirsOp
  cases mkdirs cwd p s with
  | mk s' r => cases r <;> simp

theorem copy2To_noFuel (cwd : Path) (src dst : RPath) (s : St) : (copy2To cwd src dst s).2 ≠ some .fuelOut := by
  unfold copy2To
  repeat' split
  all_goals simp

theorem andThen_noFuel {r : Res} {k : St → Res} (h1 : r.2 ≠ some .fuelOut)
    (h2 : ∀ s', (k s').2 ≠ some .fuelOut) : (andThen r k).2 ≠ some .fuelOut := by
  obtain ⟨s', o⟩ := r
  cases o with
  | none => exact h2 s'
  | some x => simpa [andThen] using h1

theorem copyFile_noFuel (cfg : Cfg) (src dst : RPath) (s : St) : (copyFile cfg src dst s).2 ≠ some .fuelOut := by
  unfold copyFile
  simp only
  split
  · simp
  · split
    · apply andThen_noFuel
      · unfold copy2; exact copy2To_noFuel _ _ _ _
      · intro s'; simp
    · simp
    · simp

theorem copyEntry_noFuel (cfg : Cfg) (src dst : RPath) (s : St) : (copyEntry cfg src dst s).2 ≠ some .fuelOut := by
  unfold copyEntry
  split
  · simp
  · split
    · exact copyFile_noFuel cfg src dst s
    · simp

theorem seqAll_noFuel {α : Type} {f : α → St → Res} {P : St → Prop} :
    ∀ (l : List α), (∀ a ∈ l, ∀ s, P s → (f a s).2 ≠ some .fuelOut ∧ P (f a s).1) →
      ∀ s, P s → (seqAll f l s).2 ≠ some .fuelOut ∧ P (seqAll f l s).1 := by
  intro l
  induction l with
  | nil => intro _ s hs; exact ⟨by simp [seqAll], hs⟩
  | cons a r ih =>
    intro h s hs
    obtain ⟨h1, h2⟩ := h a (by simp) s hs
    simp only [seqAll]
    cases hfa : f a s with
    | mk s' o =>
      rw [hfa] at h1 h2
      cases o with
      | none => exact ih (fun b hb => h b (List.mem_cons_of_mem _ hb)) s' h2
      | some x => exact ⟨h1, h2⟩


/-! ### `stat` of a directory and of its children -/

theorem mstat_of_leads {cwd : Path} {s : St} {p : RPath} {q : Path} (h : LeadsTo cwd s p q) :
    mstat cwd s p = .ok (q, some .dir) := by
  obtain ⟨hno, st, hst, hres⟩ := h
  unfold mstat
  simp only [hno, Bool.false_eq_true, if_false]
  unfold stat
  rw [hst]
  simp only
  have : resolveDir s.fs (linkFuelPred + 1) st p.comps = .ok q := by
    rw [← resolveDir_dropTrailingEmpty]; exact hres
  exact resolve_of_resolveDir _ _ _ _ this

theorem leads_of_mstat {cwd : Path} {s : St} {p : RPath} {q : Path}
    (h : mstat cwd s p = .ok (q, some .dir)) : LeadsTo cwd s p q := by
  unfold mstat at h
  split at h
  · simp at h
  · rename_i hno
    unfold stat at h
    cases hst : startOf s.fs cwd p with
    | error e => rw [hst] at h; simp at h
    | ok st =>
      rw [hst] at h
      simp only at h
      refine ⟨by simpa using hno, st, hst, ?_⟩
      show resolveDir s.fs (linkFuelPred + 1) st (dropTrailingEmpty p.comps) = .ok q
      rw [resolveDir_dropTrailingEmpty]
      exact resolveDir_of_resolve _ _ _ _ h

theorem mListDir_of_leads {cwd : Path} {s : St} {p : RPath} {q : Path} (h : LeadsTo cwd s p q) :
    mListDir cwd s p = .ok (q, childNames s.fs q) := by
  unfold mListDir; rw [mstat_of_leads h]

theorem mRealpath_of_leads {cwd : Path} {s : St} {p : RPath} {q : Path} (h : LeadsTo cwd s p q) :
    mRealpath cwd s p = .ok q := by
  have hm := mstat_of_leads h
  unfold mstat at hm
  unfold mRealpath
  split
  · rename_i hno; simp [hno] at hm
  · rename_i hno
    simp only [hno, Bool.false_eq_true, if_false] at hm
    rw [hm]

/-- `lstat` of a plain name in a directory the path leads to -/
theorem mlstat_child_of_leads {cwd : Path} {s : St} {top : RPath} {q : Path} {n : String}
    (h : LeadsTo cwd s top q) (hn : plain n = true) :
    mlstat cwd s (joinName top n) = .ok (q ++ [n], lookup s.fs (q ++ [n])) := by
  obtain ⟨hno, st, hst, hres⟩ := h
  have hno' : noCwd s (joinName top n) = false := by rw [joinName_eq]; simpa [noCwd] using hno
  unfold mlstat
  simp only [hno', Bool.false_eq_true, if_false]
  unfold lstat
  rw [startOf_abs_eq (p := top) (by rw [joinName_eq]), hst]
  simp only
  rw [joinName_eq]
  exact resolve_snoc hn hres (Or.inl rfl)

theorem mstat_child_of_leads {cwd : Path} {s : St} {top : RPath} {q : Path} {n : String}
    (h : LeadsTo cwd s top q) (hn : plain n = true)
    (hl : ∀ t, lookup s.fs (q ++ [n]) ≠ some (.link t)) :
    mstat cwd s (joinName top n) = .ok (q ++ [n], lookup s.fs (q ++ [n])) := by
  obtain ⟨hno, st, hst, hres⟩ := h
  have hno' : noCwd s (joinName top n) = false := by rw [joinName_eq]; simpa [noCwd] using hno
  unfold mstat
  simp only [hno', Bool.false_eq_true, if_false]
  unfold stat
  rw [startOf_abs_eq (p := top) (by rw [joinName_eq]), hst]
  simp only
  rw [joinName_eq]
  exact resolve_snoc hn hres (Or.inr hl)

theorem leads_child {cwd : Path} {s : St} {top : RPath} {q : Path} {n : String}
    (h : LeadsTo cwd s top q) (hn : plain n = true) (hl : lookup s.fs (q ++ [n]) = some .dir) :
    LeadsTo cwd s (joinName top n) (q ++ [n]) := by
  apply leads_of_mstat
  rw [mstat_child_of_leads h hn (fun t => by rw [hl]; simp), hl]


/-! ### the repaired walk never runs out of fuel -/

structure BoundCtx (W : Path) (base : FS) (cwd : Path) : Prop where
  physCwd : PhysDir base cwd
  cwdOut : ¬ Below W cwd

theorem andThen_noFuel' {r : Res} {k : St → Res} (h1 : r.2 ≠ some .fuelOut)
    (h2 : r.2 = none → (k r.1).2 ≠ some .fuelOut) : (andThen r k).2 ≠ some .fuelOut := by
  obtain ⟨s', o⟩ := r
  cases o with
  | none => exact h2 rfl
  | some x => simpa [andThen] using h1

theorem physCwd_of_inv {W : Path} {base : FS} {cwd : Path} {s : St} (b : BoundCtx W base cwd)
    (hs : Inv W base s) : PhysDir s.fs cwd := by
  refine ⟨b.physCwd.1, fun k hk => ?_⟩
  have hnb : ¬ Below W (cwd.take (k + 1)) := fun h => b.cwdOut (below_trans h (List.take_prefix _ _))
  rw [hs.agree _ hnb]; exact b.physCwd.2 k hk

theorem leads_phys {W : Path} {base : FS} {cwd : Path} {s : St} (b : BoundCtx W base cwd)
    (hs : Inv W base s) {p : RPath} {q : Path} (h : LeadsTo cwd s p q) : PhysDir s.fs q := by
  obtain ⟨_, st, hst, hres⟩ := h
  refine resolveDir_phys _ _ _ _ ?_ hres
  rw [startOf_ok hst]
  split
  · exact physDir_nil _
  · exact physCwd_of_inv b hs

theorem mem_length_le_maxDepth {fs : FS} {e : Path × Node} (h : e ∈ fs) : e.1.length ≤ maxDepth fs :=
  (mem_length_le_maxDepth_aux fs 0 e).1 h

theorem depth_le_of_outside {W : Path} {base : FS} {s : St} (hs : Inv W base s) {q : Path}
    (hq : PhysDir s.fs q) (hnb : ¬ Below W q) : q.length ≤ maxDepth base := by
  by_cases hne : q = []
  · subst hne; simp
  · have hl : lookup base q = some .dir := by rw [← hs.agree q hnb]; exact physDir_lookup hq
    exact mem_length_le_maxDepth (mem_of_lookup hne hl)

theorem not_below_child {W q : Path} (h : ¬ W <+: q) (n : String) : ¬ Below W (q ++ [n]) := by
  intro hb
  obtain ⟨r, hr⟩ := hb.1
  rcases List.eq_nil_or_concat r with hnil | ⟨r', x, hx⟩
  · subst hnil; exact hb.2 (by simpa using hr.symm)
  · rw [List.concat_eq_append] at hx
    subst hx
    rw [← List.append_assoc] at hr
    have := List.append_inj' hr (by simp)
    exact h ⟨r', this.1⟩

theorem walk_noFuel {W : Path} {base : FS} {cfg : Cfg} {ws : RPath} (ctx : WsCtx W base cfg.cwd ws)
    (b : BoundCtx W base cfg.cwd) (src : RPath) {dst : RPath} (hdst : InWs ws dst) :
    ∀ (fuel : Nat) (top : RPath) (q : Path) (s : St), Inv W base s → TopOk cfg.cwd src top →
      LeadsTo cfg.cwd s top q →
      (¬ Below W q → maxDepth base + 2 ≤ fuel + q.length) → (Below W q → 1 ≤ fuel) →
      (walk .live cfg W src dst fuel top s).2 ≠ some .fuelOut := by
  intro fuel
  induction fuel with
  | zero =>
    intro top q s hs _ hlead h1 h2
    exfalso
    by_cases hb : Below W q
    · have := h2 hb; omega
    · have := h1 hb
      have := depth_le_of_outside hs (leads_phys b hs hlead) hb
      omega
  | succ fuel ih =>
    intro top q s hs htop hlead h1 _
    simp only [walk]
    rw [mListDir_of_leads hlead]
    simp only
    have hnames : ∀ n ∈ childNames s.fs q, plain n = true := by
      intro n hn
      obtain ⟨e, he, hpe⟩ := mem_childNames.1 hn
      exact hs.plainAll e he n (by rw [hpe]; simp)
    have hprune : insideWorkspace cfg W s top = insideOrEq q W := by
      unfold insideWorkspace; rw [mRealpath_of_leads hlead]
    rw [hprune]
    by_cases hpre : W <+: q
    · have : insideOrEq q W = true := by simpa [insideOrEq, List.isPrefixOf_iff_prefix] using hpre
      simp [Variant.prune, this]
    · have hio : insideOrEq q W = false := by
        rw [Bool.eq_false_iff]; intro hc
        exact hpre (by simpa [insideOrEq, List.isPrefixOf_iff_prefix] using hc)
      simp only [Variant.prune, hio, Bool.and_false, Bool.false_eq_true, if_false]
      have hnbq : ¬ Below W q := fun hb => hpre hb.1
      obtain ⟨ns, hns, hnsp⟩ := htop
      have hrel : relpath cfg.cwd top src = { abs := false, comps := if ns.isEmpty then ["."] else ns } :=
        relpath_of_top hns
      have hInWs : InWs ws (Fs.join dst (relpath cfg.cwd top src)) := by
        apply hdst.join
        · rw [hrel]
        · rw [hrel]
          simp only
          intro c hc
          split at hc
          · simp at hc; subst hc; exact Or.inr (by simp [trivialComp])
          · exact Or.inl (hnsp c hc)
      have hmk := mkdirs_inws ctx hs hInWs
      apply andThen_noFuel' (mkdirsOp_noFuel _ _ _)
      intro hnone1
      have hstep1 : Step W base s (mkdirsOp cfg.cwd (Fs.join dst (relpath cfg.cwd top src)) s).1 := by
        rw [mkdirsOp_fst]; exact hmk.1
      have hready : DstReady W cfg.cwd (mkdirsOp cfg.cwd (Fs.join dst (relpath cfg.cwd top src)) s).1
          (Fs.join dst (relpath cfg.cwd top src)) := (mkdirsOp_inws ctx hs hInWs).2 hnone1
      -- files
      have hfiles := step_seqAll (W := W) (base := base)
        (f := fun n => copyEntry cfg (joinName top n) (Fs.join dst (relpath cfg.cwd top src)))
        (P := fun st => DstReady W cfg.cwd st (Fs.join dst (relpath cfg.cwd top src)))
        (fun a b h hst => h.step hst)
        ((childNames s.fs q).filter (fun n => !mIsDir cfg.cwd s (joinName top n)))
        (fun n _ st hst hp => by
          obtain ⟨d, hd1, hd2, hd3⟩ := hp
          exact copyEntry_step hst hd1 hd2 hd3 _) _ hstep1.inv hready
      apply andThen_noFuel'
      · exact (seqAll_noFuel (P := fun _ => True) _
          (fun n _ st _ => ⟨copyEntry_noFuel _ _ _ _, trivial⟩) _ trivial).1
      · intro _
        have hstep2 := hstep1.trans hfiles
        refine (seqAll_noFuel (P := fun st => Step W base s st) _ ?_ _ hstep2).1
        intro n hn st hst
        have hnp : plain n = true := hnames n (List.mem_filter.1 hn).1
        have hdir : mIsDir cfg.cwd s (joinName top n) = true := by
          simpa using (List.mem_filter.1 hn).2
        have hlead' : LeadsTo cfg.cwd st top q := hlead.step hst
        have hml' := mlstat_child_of_leads hlead' hnp
        by_cases hlk : ∃ t, lookup st.fs (q ++ [n]) = some (.link t)
        · obtain ⟨t, ht⟩ := hlk
          have : mIsLink cfg.cwd st (joinName top n) = true := by unfold mIsLink; rw [hml', ht]
          simp only [this, if_true]
          exact ⟨by simp, hst⟩
        · have hnl' : ∀ t, lookup st.fs (q ++ [n]) ≠ some (.link t) := fun t ht => hlk ⟨t, ht⟩
          have hfalse : mIsLink cfg.cwd st (joinName top n) = false := by
            unfold mIsLink; rw [hml']
            cases hl : lookup st.fs (q ++ [n]) with
            | none => rfl
            | some nd =>
              cases nd with
              | link t => exact absurd hl (hnl' t)
              | file x => rfl
              | dir => rfl
          simp only [hfalse, Bool.false_eq_true, if_false]
          -- in `s` the child is no link either, hence a directory, and it still is one in `st`
          have hnl : ∀ t, lookup s.fs (q ++ [n]) ≠ some (.link t) :=
            fun t ht => hnl' t ((hst.ext _).2 t ht)
          have hms := mstat_child_of_leads hlead hnp hnl
          have hd : lookup s.fs (q ++ [n]) = some .dir := by
            unfold mIsDir at hdir
            rw [hms] at hdir
            cases hl : lookup s.fs (q ++ [n]) with
            | none => rw [hl] at hdir; simp at hdir
            | some nd => cases nd <;> rw [hl] at hdir <;> simp at hdir ⊢
          have hd' : lookup st.fs (q ++ [n]) = some .dir := (hst.ext _).1 hd
          have hleadc := leads_child hlead' hnp hd'
          refine ⟨?_, hst.trans (walk_good ctx .live W src hdst fuel _ (TopOk.child ⟨ns, hns, hnsp⟩ hnp) st hst.inv)⟩
          refine ih (joinName top n) (q ++ [n]) st hst.inv (TopOk.child ⟨ns, hns, hnsp⟩ hnp) hleadc ?_ ?_
          · intro _
            have := h1 hnbq
            simp only [List.length_append, List.length_singleton]; omega
          · intro hb; exact absurd hb (not_below_child hpre n)


/-! ### `copytree_with_extension`, the inputs, the fill phase, the whole run -/

theorem copyTree_noFuel {W : Path} {base : FS} {cfg : Cfg} {ws : RPath} (ctx : WsCtx W base cfg.cwd ws)
    (b : BoundCtx W base cfg.cwd) {fuel : Nat} (hfuel : maxDepth base + 2 ≤ fuel) (src : RPath)
    {dst : RPath} (hdst : InWs ws dst) {s : St} (hs : Inv W base s) :
    (copyTree .live cfg W fuel src dst s).2 ≠ some .fuelOut := by
  unfold copyTree
  split
  · simp
  · split
    · rename_i hd
      have hlead : ∃ q, LeadsTo cfg.cwd s src q := by
        unfold mIsDir at hd
        cases hm : mstat cfg.cwd s src with
        | error e => rw [hm] at hd; simp at hd
        | ok r =>
          obtain ⟨q, n⟩ := r
          rw [hm] at hd
          cases n with
          | none => simp at hd
          | some n =>
            cases n with
            | file x => simp at hd
            | link t => simp at hd
            | dir => exact ⟨q, leads_of_mstat hm⟩
      obtain ⟨q, hq⟩ := hlead
      exact walk_noFuel ctx b src hdst fuel src q s hs (TopOk.refl _ _) hq (fun _ => by omega)
        (fun _ => by omega)
    · split
      · exact copyFile_noFuel _ _ _ _
      · simp

theorem copyInput_noFuel {W : Path} {base : FS} {cfg : Cfg} {ws : RPath} (ctx : WsCtx W base cfg.cwd ws)
    (b : BoundCtx W base cfg.cwd) (hp : ParamsOk cfg) {fuel : Nat} (hfuel : maxDepth base + 2 ≤ fuel)
    (i : RPath) {s : St} (hs : Inv W base s) :
    (copyInput .live cfg W fuel (joinName ws cfg.srcDir) i s).2 ≠ some .fuelOut := by
  have hsrc : plain cfg.srcDir = true := hp.plainSub _ hp.srcIn
  unfold copyInput
  cases mRealpath cfg.cwd s i with
  | error e => simp
  | ok real =>
    simp only
    split
    · simp
    · split
      · exact copyTree_noFuel ctx b hfuel i (InWs.second ws hsrc _) hs
      · exact copyTree_noFuel ctx b hfuel i (InWs.first ws hsrc) hs

theorem fill_noFuel {W : Path} {base : FS} {cfg : Cfg} {ws : RPath} (ctx : WsCtx W base cfg.cwd ws)
    (b : BoundCtx W base cfg.cwd) (hp : ParamsOk cfg) {fuel : Nat} (hfuel : maxDepth base + 2 ≤ fuel)
    {s1 : St} (hs : Inv W base s1) :
    (fill .live fuel cfg ws W s1).2 ≠ some .fuelOut := by
  unfold fill
  obtain ⟨hsub, hsubq⟩ := seqAll_post (W := W) (base := base)
    (f := fun d => mkdirsOp cfg.cwd (joinName ws d))
    (Q := fun d st => DstReady W cfg.cwd st (joinName ws d))
    (fun a s s' h hst => h.step hst) cfg.subdirs
    (fun d hd s hs => mkdirsOp_inws ctx hs (InWs.first ws (hp.plainSub d hd))) s1 hs
  apply andThen_noFuel'
  · exact (seqAll_noFuel (P := fun _ => True) _
      (fun d _ st _ => ⟨mkdirsOp_noFuel _ _ _, trivial⟩) _ trivial).1
  · intro hnone
    have hsrcReady := hsubq hnone _ hp.srcIn
    simp only
    have hin := seqAll_noFuel
      (f := copyInput .live cfg W fuel (joinName ws cfg.srcDir))
      (P := fun st => Inv W base st ∧ DstReady W cfg.cwd st (joinName ws cfg.srcDir)) cfg.inputs
      (fun i _ st hst => by
        have hstep := copyInput_step ctx hp .live W fuel i hst.1 hst.2
        exact ⟨copyInput_noFuel ctx b hp hfuel i hst.1, hstep.inv, hst.2.step hstep⟩)
      _ ⟨hsub.inv, hsrcReady⟩
    apply andThen_noFuel' hin.1
    intro _
    cases cfg.mock with
    | none => simp
    | some m =>
      simp only
      exact copyTree_noFuel ctx b hfuel m (InWs.first ws (hp.plainSub _ hp.extIn)) hin.2.1

theorem wipeChild_noFuel (cwd : Path) (path : RPath) (n : String) (s : St) :
    (wipeChild cwd path n s).2 ≠ some .fuelOut := by
  unfold wipeChild
  simp only
  split
  · cases unlinkOp cwd (joinName path n) s with
    | mk s' r => cases r <;> simp
  · split
    · cases rmtreeOp cwd (joinName path n) s with
      | mk s' r => cases r <;> simp
    · simp

theorem wipe_noFuel (cwd : Path) (path : RPath) (s : St) : (wipe cwd path s).2 ≠ some .fuelOut := by
  unfold wipe
  cases mListDir cwd s path with
  | error e => simp
  | ok r =>
    exact (seqAll_noFuel (P := fun _ => True) _
      (fun n _ st _ => ⟨wipeChild_noFuel _ _ _ _, trivial⟩) _ trivial).1

theorem prepareDirectory_noFuel (cwd : Path) (path : RPath) (s : St) :
    (prepareDirectory cwd path s).2 ≠ some .fuelOut := by
  unfold prepareDirectory
  split
  · simp
  · exact mkdirsOp_noFuel _ _ _

/-- the repaired run never reports `fuelOut` when the walk gets `maxDepth + 2` levels -/
theorem prepare_noFuel {cfg : Cfg} {fs : FS} {W : Path} (hf : Frag cfg fs W)
    (hreal : realpath fs cfg.cwd (setWorkspaceDir cfg) = W)
    (b : BoundCtx W (prepState cfg fs).fs cfg.cwd) {fuel : Nat}
    (hfuel : maxDepth (prepState cfg fs).fs + 2 ≤ fuel) :
    (prepare .live fuel cfg fs).2 ≠ some .fuelOut := by
  unfold prepare manage
  simp only
  split
  · simp [andThen]
  · split
    · simp [andThen]
    · rw [hreal]
      apply andThen_noFuel'
      · exact andThen_noFuel' (prepareDirectory_noFuel _ _ _) (fun _ => wipe_noFuel _ _ _)
      · intro hnone
        -- the state the clean-up loop leaves satisfies the fill invariant
        have hprep : prepareDirectory cfg.cwd (wsAbsPath cfg (setWorkspaceDir cfg)) (initSt fs) =
            (prepState cfg fs, none) := by
          unfold prepState
          cases hpd : prepareDirectory cfg.cwd (wsAbsPath cfg (setWorkspaceDir cfg)) (initSt fs) with
          | mk s1 o =>
            cases o with
            | none => rfl
            | some x => rw [hpd] at hnone; simp [andThen] at hnone
        rw [hprep] at hnone ⊢
        simp only [andThen] at hnone ⊢
        cases hw : wipe cfg.cwd (wsAbsPath cfg (setWorkspaceDir cfg)) (prepState cfg fs) with
        | mk s2 o =>
          rw [hw] at hnone
          simp only at hnone
          subst hnone
          have hinv := wipe_establishes hf hw
          have ctx : WsCtx W (prepState cfg fs).fs cfg.cwd (setWorkspaceDir cfg) :=
            ⟨hf.ne, hf.phys, hf.robustRaw⟩
          exact fill_noFuel ctx b hf.params hfuel hinv

end LianVerif.Workspace
