/-
Helper lemmas for C18: the clean-up loop of `manage_directory` (`wipe`) deletes only strictly below
the workspace directory, and — on a well-formed file system — leaves nothing below it, which
establishes the invariant of the fill phase.
-/
import LianVerif.Proofs.Workspace

namespace LianVerif.Workspace
open LianVerif.Fs

/-- every proper non-empty prefix of every entry is a directory -/
def WFp (fs : FS) : Prop :=
  ∀ e ∈ fs, ∀ k, 0 < k → k < e.1.length → lookup fs (e.1.take k) = some .dir

structure InvW (W : Path) (base : FS) (s : St) : Prop where
  agree : ∀ p, ¬ Below W p → lookup s.fs p = lookup base p
  plainAll : ∀ e ∈ s.fs, ∀ c ∈ e.1, plain c = true
  wf : WFp s.fs

structure StepW (W : Path) (base : FS) (s s' : St) : Prop where
  inv : InvW W base s'
  log : LogExt W s s'
  sub : ∀ e ∈ s'.fs, e ∈ s.fs

theorem StepW.refl {W : Path} {base : FS} {s : St} (h : InvW W base s) : StepW W base s s :=
  ⟨h, LogExt.refl _ _, fun _ h => h⟩

theorem StepW.trans {W : Path} {base : FS} {a b c : St} (h1 : StepW W base a b) (h2 : StepW W base b c) :
    StepW W base a c := ⟨h2.inv, h1.log.trans h2.log, fun e he => h1.sub e (h2.sub e he)⟩

/-- an entry with that path exists iff `lookup` finds something -/
theorem lookup_ne_none_of_mem {fs : FS} {e : Path × Node} (he : e ∈ fs) (hne : e.1 ≠ []) :
    lookup fs e.1 ≠ none := by
  rw [lookup_of_ne_nil _ hne]
  intro h
  simp only [Option.map_eq_none_iff] at h
  have := List.find?_eq_none.1 h e he
  simp at this

theorem mem_of_lookup {fs : FS} {p : Path} {n : Node} (hne : p ≠ []) (h : lookup fs p = some n) :
    (p, n) ∈ fs := by
  rw [lookup_of_ne_nil _ hne] at h
  simp only [Option.map_eq_some_iff] at h
  obtain ⟨e, he, hn⟩ := h
  have h1 := List.mem_of_find?_eq_some he
  have h2 := List.find?_some he
  simp at h2
  obtain ⟨a, b⟩ := e
  simp at h2 hn
  subst h2; subst hn
  exact h1

/-! ### what the clean-up loop sees of a child `n` of the workspace directory -/

section child
variable {W : Path} {base : FS} {A : Path} {s : St} {n : String}

theorem wipe_resolveA (hA : resolveDir (hideBelow W base) linkFuel [] A = .ok W)
    (hag : ∀ p, ¬ Below W p → lookup s.fs p = lookup base p) :
    resolveDir s.fs (linkFuelPred + 1) [] (dropTrailingEmpty A) = .ok W := by
  rw [resolveDir_dropTrailingEmpty]
  exact resolveDir_ext (ext_hide_of_agree hag) _ _ _ _ hA

theorem child_path (A : Path) (n : String) :
    joinName (ofPath A) n = { abs := true, comps := dropTrailingEmpty A ++ [n] } := by
  simp [joinName_eq, ofPath]

theorem mlstat_child (cwd : Path) (hA : resolveDir (hideBelow W base) linkFuel [] A = .ok W)
    (hag : ∀ p, ¬ Below W p → lookup s.fs p = lookup base p) (hn : plain n = true) :
    mlstat cwd s (joinName (ofPath A) n) = .ok (W ++ [n], lookup s.fs (W ++ [n])) := by
  rw [child_path]
  simp only [mlstat, noCwd, Bool.not_true, Bool.false_and, Bool.false_eq_true, if_false, lstat, startOf,
    if_true]
  exact resolve_snoc hn (wipe_resolveA hA hag) (Or.inl rfl)

theorem mstat_child (cwd : Path) (hA : resolveDir (hideBelow W base) linkFuel [] A = .ok W)
    (hag : ∀ p, ¬ Below W p → lookup s.fs p = lookup base p) (hn : plain n = true)
    (hl : ∀ t, lookup s.fs (W ++ [n]) ≠ some (.link t)) :
    mstat cwd s (joinName (ofPath A) n) = .ok (W ++ [n], lookup s.fs (W ++ [n])) := by
  rw [child_path]
  simp only [mstat, noCwd, Bool.not_true, Bool.false_and, Bool.false_eq_true, if_false, stat, startOf,
    if_true]
  exact resolve_snoc hn (wipe_resolveA hA hag) (Or.inr hl)

end child


/-! ### removing entries strictly below `W` -/

theorem below_trans {a b c : Path} (h1 : Below a b) (h2 : b <+: c) : Below a c := by
  refine ⟨h1.1.trans h2, ?_⟩
  intro e
  have := h1.length_lt
  have := h2.length_le
  rw [e] at this; omega

theorem take_prefix_ne {p : Path} {k : Nat} (hk : k < p.length) : Below (p.take k) p := by
  refine ⟨List.take_prefix _ _, ?_⟩
  intro e
  have : (p.take k).length = p.length := by rw [← e]
  simp at this; omega

/-- removing `q` when no entry lies strictly inside it -/
theorem wfp_remove {fs : FS} (h : WFp fs) {q : Path} (hno : ∀ e ∈ fs, ¬ Below q e.1) :
    WFp (remove fs q) := by
  intro e he k hk0 hk
  have he' : e ∈ fs ∧ e.1 ≠ q := by
    unfold remove at he
    have := List.mem_filter.1 he
    exact ⟨this.1, by simpa using this.2⟩
  have hne : e.1.take k ≠ q := by
    intro hq
    exact hno e he'.1 (hq ▸ take_prefix_ne hk)
  rw [lookup_remove_ne _ _ hne]
  exact h e he'.1 k hk0 hk

theorem wfp_filter_inside {fs : FS} (h : WFp fs) (q : Path) :
    WFp (fs.filter (fun e => !(strictlyInside e.1 q))) := by
  intro e he k hk0 hk
  obtain ⟨he1, he2⟩ := List.mem_filter.1 he
  have hnot : ¬ Below q e.1 := by
    intro hb; rw [strictlyInside_iff.2 hb] at he2; simp at he2
  have hnot' : ¬ Below q (e.1.take k) := fun hb => hnot (below_trans hb (List.take_prefix _ _))
  have hne : e.1.take k ≠ [] := by
    intro hnil
    have : (e.1.take k).length = 0 := by rw [hnil]; rfl
    rw [List.length_take] at this; omega
  rw [lookup_filter fs (fun x => !(strictlyInside x q)) hne]
  have : strictlyInside (e.1.take k) q = false := by
    rw [Bool.eq_false_iff]; intro hc; exact hnot' (strictlyInside_iff.1 hc)
  simp only [this, Bool.not_false, if_true]
  exact h e he1 k hk0 hk

theorem no_entry_inside_of_not_dir {fs : FS} (h : WFp fs) {q : Path} (hq : q ≠ [])
    (hl : lookup fs q ≠ some .dir) : ∀ e ∈ fs, ¬ Below q e.1 := by
  intro e he hb
  obtain ⟨r, hr⟩ := hb.1
  have hlen := hb.length_lt
  have : e.1.take q.length = q := by rw [← hr]; simp
  have hd := h e he q.length (by cases q with | nil => exact absurd rfl hq | cons a b => simp) hlen
  rw [this] at hd
  exact hl hd

section removal
variable {W : Path} {base : FS} {s : St}

theorem invW_remove (hs : InvW W base s) {q : Path} (hq : Below W q)
    (hno : ∀ e ∈ s.fs, ¬ Below q e.1) (log : List Eff) (g : Bool) :
    InvW W base { fs := remove s.fs q, log := log, map := s.map, cwdGone := g } := by
  refine ⟨?_, ?_, wfp_remove hs.wf hno⟩
  · intro p hp
    have : p ≠ q := fun e => hp (e ▸ hq)
    simp only
    rw [lookup_remove_ne _ _ this]; exact hs.agree p hp
  · intro e he
    have : e ∈ s.fs := by
      simp only [remove] at he
      exact (List.mem_filter.1 he).1
    exact hs.plainAll e this

theorem invW_filter (hs : InvW W base s) {q : Path} (hq : W <+: q) (log : List Eff) (g : Bool) :
    InvW W base { fs := s.fs.filter (fun e => !(strictlyInside e.1 q)), log := log, map := s.map,
                  cwdGone := g } := by
  refine ⟨?_, ?_, wfp_filter_inside hs.wf q⟩
  · intro p hp
    simp only
    by_cases hpn : p = []
    · subst hpn; rfl
    · rw [lookup_filter s.fs (fun x => !(strictlyInside x q)) hpn]
      have : strictlyInside p q = false := by
        rw [Bool.eq_false_iff]; intro hc
        have hb := strictlyInside_iff.1 hc
        refine hp ⟨hq.trans hb.1, ?_⟩
        intro e
        have h1 := hb.length_lt
        have h2 := hq.length_le
        rw [e] at h1; omega
      simp only [this, Bool.not_false, if_true]
      exact hs.agree p hp
  · intro e he
    exact hs.plainAll e (List.mem_filter.1 he).1

end removal


/-! ### one iteration of the clean-up loop -/

theorem prefix_cases {q p : Path} (h : q <+: p) : p = q ∨ Below q p := by
  by_cases e : p = q
  · exact Or.inl e
  · exact Or.inr ⟨h, e⟩

theorem wipeChild_spec {W : Path} {base : FS} {A : Path} {s : St} {n : String} (cwd : Path)
    (hA : resolveDir (hideBelow W base) linkFuel [] A = .ok W) (hs : InvW W base s)
    (hn : plain n = true) :
    StepW W base s (wipeChild cwd (ofPath A) n s).1 ∧
    ((wipeChild cwd (ofPath A) n s).2 = none →
      ∀ e ∈ (wipeChild cwd (ofPath A) n s).1.fs, ¬ (W ++ [n]) <+: e.1) := by
  have hq : Below W (W ++ [n]) := below_append_singleton (List.prefix_refl W) n
  have hqne : W ++ [n] ≠ [] := by simp
  have hml := mlstat_child (s := s) cwd hA hs.agree hn
  -- the unlink branch, shared by files and links
  have unlinkCase : (∃ x, lookup s.fs (W ++ [n]) = some (.file x)) ∨
      (∃ t, lookup s.fs (W ++ [n]) = some (.link t)) →
      StepW W base s (match unlinkOp cwd (joinName (ofPath A) n) s with
        | (s', .ok _) => ((s', none) : Res)
        | (s', .error _) => (s', some .quit)).1 ∧
      ((match unlinkOp cwd (joinName (ofPath A) n) s with
        | (s', .ok _) => ((s', none) : Res)
        | (s', .error _) => (s', some .quit)).2 = none →
        ∀ e ∈ (match unlinkOp cwd (joinName (ofPath A) n) s with
          | (s', .ok _) => ((s', none) : Res)
          | (s', .error _) => (s', some .quit)).1.fs, ¬ (W ++ [n]) <+: e.1) := by
    intro hcase
    have hnd : lookup s.fs (W ++ [n]) ≠ some .dir := by
      rcases hcase with ⟨x, hx⟩ | ⟨t, ht⟩ <;> simp [*]
    have hno := no_entry_inside_of_not_dir hs.wf hqne hnd
    have hun : unlinkOp cwd (joinName (ofPath A) n) s =
        (St.mk (remove s.fs (W ++ [n])) (s.log ++ [Eff.unlink (W ++ [n])]) s.map s.cwdGone, .ok ()) := by
      unfold unlinkOp
      rw [hml]
      rcases hcase with ⟨x, hx⟩ | ⟨t, ht⟩
      · rw [hx]
      · rw [ht]
    rw [hun]
    simp only
    refine ⟨⟨invW_remove hs hq hno _ _, ?_, ?_⟩, ?_⟩
    · intro e he
      simp only [List.mem_append, List.mem_singleton] at he
      rcases he with he | he
      · exact Or.inl he
      · subst he; exact Or.inr hq
    · intro e he
      simp only [remove] at he
      exact (List.mem_filter.1 he).1
    · intro _ e he hpre
      simp only [remove] at he
      obtain ⟨he1, he2⟩ := List.mem_filter.1 he
      rcases prefix_cases hpre with h | h
      · simp [h] at he2
      · exact hno e he1 h
  unfold wipeChild
  simp only
  cases hl : lookup s.fs (W ++ [n]) with
  | none =>
    have hms := mstat_child (s := s) cwd hA hs.agree hn (by rw [hl]; simp)
    have h1 : mIsFile cwd s (joinName (ofPath A) n) = false := by unfold mIsFile; rw [hms, hl]
    have h2 : mIsLink cwd s (joinName (ofPath A) n) = false := by unfold mIsLink; rw [hml, hl]
    have h3 : mIsDir cwd s (joinName (ofPath A) n) = false := by unfold mIsDir; rw [hms, hl]
    simp only [h1, h2, h3, Bool.or_self, Bool.false_eq_true, if_false]
    refine ⟨StepW.refl hs, ?_⟩
    intro _ e he hpre
    rcases prefix_cases hpre with h | h
    · exact lookup_ne_none_of_mem he (h ▸ hqne) (h ▸ hl)
    · exact no_entry_inside_of_not_dir hs.wf hqne (by rw [hl]; simp) e he h
  | some node =>
    cases node with
    | file x =>
      have hms := mstat_child (s := s) cwd hA hs.agree hn (by rw [hl]; simp)
      have h1 : mIsFile cwd s (joinName (ofPath A) n) = true := by unfold mIsFile; rw [hms, hl]
      simp only [h1, Bool.true_or, if_true]
      exact unlinkCase (Or.inl ⟨x, hl⟩)
    | link t =>
      have h2 : mIsLink cwd s (joinName (ofPath A) n) = true := by unfold mIsLink; rw [hml, hl]
      simp only [h2, Bool.or_true, if_true]
      exact unlinkCase (Or.inr ⟨t, hl⟩)
    | dir =>
      have hms := mstat_child (s := s) cwd hA hs.agree hn (by rw [hl]; simp)
      have h1 : mIsFile cwd s (joinName (ofPath A) n) = false := by unfold mIsFile; rw [hms, hl]
      have h2 : mIsLink cwd s (joinName (ofPath A) n) = false := by unfold mIsLink; rw [hml, hl]
      have h3 : mIsDir cwd s (joinName (ofPath A) n) = true := by unfold mIsDir; rw [hms, hl]
      simp only [h1, h2, h3, Bool.or_self, Bool.false_eq_true, if_false, if_true]
      -- rmtree
      have hs1 := invW_filter hs hq.1 (s.log ++ [Eff.rmtree (W ++ [n])])
        (s.cwdGone || strictlyInside cwd (W ++ [n]))
      have hml1 : mlstat cwd (St.mk (s.fs.filter (fun e => !(strictlyInside e.1 (W ++ [n]))))
            (s.log ++ [Eff.rmtree (W ++ [n])]) s.map
            (s.cwdGone || strictlyInside cwd (W ++ [n]))) (joinName (ofPath A) n) =
          .ok (W ++ [n], lookup (s.fs.filter (fun e => !(strictlyInside e.1 (W ++ [n])))) (W ++ [n])) :=
        mlstat_child cwd hA hs1.agree hn
      have hl1 : lookup (s.fs.filter (fun e => !(strictlyInside e.1 (W ++ [n])))) (W ++ [n]) = some .dir := by
        rw [lookup_filter s.fs (fun x => !(strictlyInside x (W ++ [n]))) hqne]
        have : strictlyInside (W ++ [n]) (W ++ [n]) = false := by simp [strictlyInside]
        simp [this, hl]
      have hno1 : ∀ e ∈ s.fs.filter (fun e => !(strictlyInside e.1 (W ++ [n]))), ¬ Below (W ++ [n]) e.1 := by
        intro e he hb
        have := (List.mem_filter.1 he).2
        rw [strictlyInside_iff.2 hb] at this; simp at this
      have hrm : rmtreeOp cwd (joinName (ofPath A) n) s =
          (St.mk (remove (s.fs.filter (fun e => !(strictlyInside e.1 (W ++ [n])))) (W ++ [n]))
             (s.log ++ [Eff.rmtree (W ++ [n])]) s.map
             ((s.cwdGone || strictlyInside cwd (W ++ [n])) || cwd == W ++ [n]), .ok ()) := by
        unfold rmtreeOp
        rw [hml, hl]
        simp only [List.isEmpty_iff, hqne, if_false, Bool.false_eq_true]
        rw [hml1]
        simp only [hl1, beq_self_eq_true, if_true]
      rw [hrm]
      simp only
      refine ⟨⟨invW_remove hs1 hq hno1 _ _, ?_, ?_⟩, ?_⟩
      · intro e he
        simp only [List.mem_append, List.mem_singleton] at he
        rcases he with he | he
        · exact Or.inl he
        · subst he; exact Or.inr hq
      · intro e he
        simp only [remove] at he
        exact (List.mem_filter.1 (List.mem_filter.1 he).1).1
      · intro _ e he hpre
        simp only [remove] at he
        obtain ⟨he1, he2⟩ := List.mem_filter.1 he
        rcases prefix_cases hpre with h | h
        · simp [h] at he2
        · exact hno1 e he1 h


/-! ### the whole clean-up loop -/

theorem wipe_seq {W : Path} {base : FS} {A : Path} (cwd : Path)
    (hA : resolveDir (hideBelow W base) linkFuel [] A = .ok W) :
    ∀ (l : List String), (∀ n ∈ l, plain n = true) → ∀ s, InvW W base s →
      StepW W base s (seqAll (wipeChild cwd (ofPath A)) l s).1 ∧
      ((seqAll (wipeChild cwd (ofPath A)) l s).2 = none →
        ∀ n ∈ l, ∀ e ∈ (seqAll (wipeChild cwd (ofPath A)) l s).1.fs, ¬ (W ++ [n]) <+: e.1) := by
  intro l
  induction l with
  | nil => intro _ s hs; exact ⟨StepW.refl hs, fun _ n hn => by simp at hn⟩
  | cons a r ih =>
    intro hpl s hs
    obtain ⟨h1, h1c⟩ := wipeChild_spec cwd hA hs (hpl a (by simp))
    simp only [seqAll]
    cases hw : wipeChild cwd (ofPath A) a s with
    | mk s' o =>
      rw [hw] at h1 h1c
      cases o with
      | some x => exact ⟨h1, fun hn => by simp at hn⟩
      | none =>
        simp only
        obtain ⟨h2, h2c⟩ := ih (fun n hn => hpl n (List.mem_cons_of_mem _ hn)) s' h1.inv
        refine ⟨h1.trans h2, ?_⟩
        intro hn n hmem e he
        rcases List.mem_cons.1 hmem with hmem | hmem
        · subst hmem; exact h1c rfl e (h2.sub e he)
        · exact h2c hn n hmem e he

theorem mListDir_ws {W : Path} {base : FS} {A : Path} {s : St} (cwd : Path)
    (hA : resolveDir (hideBelow W base) linkFuel [] A = .ok W)
    (hag : ∀ p, ¬ Below W p → lookup s.fs p = lookup base p) :
    mListDir cwd s (ofPath A) = .ok (W, childNames s.fs W) := by
  have h1 : resolveDir s.fs linkFuel [] A = .ok W := resolveDir_ext (ext_hide_of_agree hag) _ _ _ _ hA
  unfold mListDir
  rw [mstat_ofPath, resolve_of_resolveDir _ _ _ _ h1]

/-- The clean-up loop deletes only strictly below `W`; when it completes, nothing is left below `W`. -/
theorem wipe_spec {W : Path} {base : FS} {A : Path} {s : St} (cwd : Path)
    (hA : resolveDir (hideBelow W base) linkFuel [] A = .ok W) (hs : InvW W base s) :
    StepW W base s (wipe cwd (ofPath A) s).1 ∧
    ((wipe cwd (ofPath A) s).2 = none → ∀ e ∈ (wipe cwd (ofPath A) s).1.fs, ¬ Below W e.1) := by
  unfold wipe
  rw [mListDir_ws cwd hA hs.agree]
  simp only
  have hpl : ∀ n ∈ childNames s.fs W, plain n = true := by
    intro n hn
    obtain ⟨e, he, hpe⟩ := mem_childNames.1 hn
    exact hs.plainAll e he n (by rw [hpe]; simp)
  obtain ⟨h1, h2⟩ := wipe_seq cwd hA _ hpl s hs
  refine ⟨h1, ?_⟩
  intro hn e he hb
  -- the first component of `e` below `W`
  obtain ⟨r, hr⟩ := hb.1
  have hrne : r ≠ [] := by intro h; subst h; exact hb.2 (by simpa using hr.symm)
  obtain ⟨n, rest, hrest⟩ := List.exists_cons_of_ne_nil hrne
  subst hrest
  have hpre : (W ++ [n]) <+: e.1 := ⟨rest, by rw [← hr]; simp⟩
  have hes : e ∈ s.fs := h1.sub e he
  have hmem : n ∈ childNames s.fs W := by
    rw [mem_childNames]
    by_cases hrest : rest = []
    · subst hrest; exact ⟨e, hes, by rw [← hr]⟩
    · have hlen : W.length + 1 < e.1.length := by
        rw [← hr]; simp
        cases rest with
        | nil => exact absurd rfl hrest
        | cons a b => simp
      have hd := hs.wf e hes (W.length + 1) (by omega) hlen
      have htake : e.1.take (W.length + 1) = W ++ [n] := by
        rw [← hr, List.take_append, List.take_of_length_le (by omega)]; simp
      rw [htake] at hd
      exact ⟨(W ++ [n], .dir), mem_of_lookup (by simp) hd, rfl⟩
  exact h2 hn n hmem e he hpre

end LianVerif.Workspace
