/-
Helper lemmas for C18: the invariant of the fill phase of workspace preparation and its
preservation by `os.makedirs`, `shutil.copy2`, the per-file copy and the directory walk.
The property theorems are in Properties/C18.lean.
-/
import LianVerif.Proofs.Fs
import LianVerif.Model.Workspace

namespace LianVerif.Workspace
open LianVerif.Fs

/-! ### strict containment as a proposition -/

theorem strictlyInside_iff {p w : Path} : strictlyInside p w = true ↔ Below w p := by
  simp only [strictlyInside, Bool.and_eq_true, List.isPrefixOf_iff_prefix, bne_iff_ne, ne_eq, Below]
  constructor
  · rintro ⟨h, hl⟩; exact ⟨h, fun e => hl (by rw [e])⟩
  · rintro ⟨h, hne⟩; exact ⟨h, fun hl => hne (h.eq_of_length hl.symm).symm⟩

theorem lookup_hideBelow_of_below {W p : Path} (fs : FS) (h : Below W p) :
    lookup (hideBelow W fs) p = none := by
  have hp : p ≠ [] := by
    intro e; subst e
    have := h.1.length_le
    have hw : W = [] := by cases W with | nil => rfl | cons a b => simp at this
    exact h.2 hw.symm
  unfold hideBelow
  rw [lookup_filter fs (fun x => !(strictlyInside x W)) hp]
  simp [strictlyInside_iff.2 h]

theorem lookup_hideBelow_of_not_below {W p : Path} (fs : FS) (h : ¬ Below W p) :
    lookup (hideBelow W fs) p = lookup fs p := by
  by_cases hp : p = []
  · subst hp; rfl
  · unfold hideBelow
    rw [lookup_filter fs (fun x => !(strictlyInside x W)) hp]
    have : strictlyInside p W = false := by
      rw [Bool.eq_false_iff]; intro hc; exact h (strictlyInside_iff.1 hc)
    simp [this]

/-! ### the invariant of the fill phase -/

/-- `s` agrees with the reference file system `base` everywhere except strictly below `W`, and
holds no symbolic link strictly below `W` -/
structure Inv (W : Path) (base : FS) (s : St) : Prop where
  agree : ∀ p, ¬ Below W p → lookup s.fs p = lookup base p
  lf : LinkFreeBelow W s.fs
  plainAll : ∀ e ∈ s.fs, ∀ c ∈ e.1, plain c = true

/-- every effect logged between `s` and `s'` is strictly below `W` -/
def LogExt (W : Path) (s s' : St) : Prop := ∀ e ∈ s'.log, e ∈ s.log ∨ Below W e.path

theorem LogExt.refl (W : Path) (s : St) : LogExt W s s := fun _ h => Or.inl h

theorem LogExt.trans {W : Path} {a b c : St} (h1 : LogExt W a b) (h2 : LogExt W b c) : LogExt W a c := by
  intro e he
  rcases h2 e he with h | h
  · exact h1 e h
  · exact Or.inr h

/-- what one step of the fill phase guarantees -/
structure Step (W : Path) (base : FS) (s s' : St) : Prop where
  inv : Inv W base s'
  log : LogExt W s s'
  ext : Ext s.fs s'.fs
  gone : s'.cwdGone = s.cwdGone

theorem Step.refl {W : Path} {base : FS} {s : St} (h : Inv W base s) : Step W base s s :=
  ⟨h, LogExt.refl _ _, Ext.refl _, rfl⟩

theorem Step.trans {W : Path} {base : FS} {a b c : St} (h1 : Step W base a b) (h2 : Step W base b c) :
    Step W base a c := ⟨h2.inv, h1.log.trans h2.log, h1.ext.trans h2.ext, h2.gone.trans h1.gone⟩

/-- `f` keeps the invariant, logs only below `W`, removes no directory or link -/
def Good (W : Path) (base : FS) (f : St → Res) : Prop :=
  ∀ s, Inv W base s → Step W base s (f s).1

theorem good_seqAll {α : Type} {W : Path} {base : FS} {f : α → St → Res}
    (h : ∀ a, Good W base (f a)) (l : List α) : Good W base (seqAll f l) := by
  induction l with
  | nil => intro s hs; exact Step.refl hs
  | cons a r ih =>
    intro s hs
    have h1 := h a s hs
    simp only [seqAll]
    cases hfa : f a s with
    | mk s' o =>
      rw [hfa] at h1
      cases o with
      | none => exact h1.trans (ih s' h1.inv)
      | some x => exact h1

theorem good_andThen {W : Path} {base : FS} {f k : St → Res}
    (hf : Good W base f) (hk : Good W base k) : Good W base (fun s => andThen (f s) k) := by
  intro s hs
  have h1 := hf s hs
  simp only [andThen]
  cases hfa : f s with
  | mk s' o =>
    rw [hfa] at h1
    cases o with
    | none => exact h1.trans (hk s' h1.inv)
    | some x => exact h1

/-- the hidden view is kept by every file system that agrees with `base` outside `W` -/
theorem ext_hide_of_agree {W : Path} {base fs : FS}
    (h : ∀ p, ¬ Below W p → lookup fs p = lookup base p) : Ext (hideBelow W base) fs := by
  intro p
  by_cases hb : Below W p
  · rw [lookup_hideBelow_of_below _ hb]; exact ⟨fun h => by simp at h, fun t h => by simp at h⟩
  · rw [lookup_hideBelow_of_not_below _ hb, ← h p hb]
    exact ⟨id, fun _ => id⟩

theorem ext_hide_of_inv {W : Path} {base : FS} {s : St} (h : Inv W base s) :
    Ext (hideBelow W base) s.fs := ext_hide_of_agree h.agree

/-! ### creating a directory / writing a file strictly below `W` -/

theorem mem_setNode {fs : FS} {p : Path} {n : Node} {e : Path × Node} (h : e ∈ setNode fs p n) :
    e ∈ fs ∨ e = (p, n) := by
  unfold setNode remove at h
  rcases List.mem_append.1 h with h | h
  · exact Or.inl (List.mem_filter.1 h).1
  · exact Or.inr (by simpa using h)

theorem inv_setNode {W : Path} {base : FS} {s : St} (h : Inv W base s) {p : Path} (hp : Below W p)
    (hpl : ∀ c ∈ p, plain c = true)
    (n : Node) (hn : ∀ t, n ≠ .link t) (log : List Eff) (m : List (Path × Path)) (g : Bool) :
    Inv W base { fs := setNode s.fs p n, log := log, map := m, cwdGone := g } := by
  refine ⟨?_, ?_, ?_⟩
  rotate_left 2
  · intro e he c hc
    rcases mem_setNode he with he | he
    · exact h.plainAll e he c hc
    · subst he; exact hpl c hc
  · intro q hq
    have : q ≠ p := fun e => hq (e ▸ hp)
    simp only
    rw [lookup_setNode_ne _ _ _ this]
    exact h.agree q hq
  · intro q t hq
    simp only
    by_cases e : q = p
    · subst e
      have hne : q ≠ [] := by
        intro e; subst e
        have := hq.length_lt; simp at this
      rw [lookup_setNode_self _ _ hne]
      intro hc; exact hn t (by simpa using hc)
    · rw [lookup_setNode_ne _ _ _ e]; exact h.lf q t hq

/-- adding a node where there was none, or replacing a file by a file, keeps directories and links -/
theorem ext_setNode (fs : FS) {p : Path} (n : Node)
    (h : lookup fs p = none ∨ ∃ c, lookup fs p = some (.file c)) : Ext fs (setNode fs p n) := by
  intro q
  by_cases e : q = p
  · subst e
    rcases h with h | ⟨c, h⟩ <;> rw [h] <;> exact ⟨fun h => by simp at h, fun t h => by simp at h⟩
  · rw [lookup_setNode_ne _ _ _ e]; exact ⟨id, fun _ => id⟩


/-! ### `os.makedirs` -/

theorem foldl_mkdirStep_error (s : St) (e : Err) (comps : List String) :
    comps.foldl mkdirStep (s, .error e) = (s, .error e) := by
  induction comps with
  | nil => rfl
  | cons c r ih => simpa [List.foldl_cons, mkdirStep] using ih

/-- over components that already lead through directories, `makedirs` creates nothing -/
theorem mkdir_fold_exists (s : St) : ∀ (comps : List String) (cur q : Path),
    resolveDir s.fs linkFuel cur comps = .ok q → comps.foldl mkdirStep (s, .ok cur) = (s, .ok q) := by
  intro comps
  induction comps with
  | nil =>
    intro cur q h
    have : resolveDir s.fs (linkFuelPred + 1) cur [] = .ok q := h
    simp [resolveDir_nil] at this; subst this; rfl
  | cons c r ih =>
    intro cur q h
    have h' : resolveDir s.fs (linkFuelPred + 1) cur (c :: r) = .ok q := h
    rw [resolveDir_cons] at h'
    rw [List.foldl_cons]
    simp only [stepDir] at h'
    simp only [mkdirStep]
    by_cases ht : trivialComp c = true
    · simp only [ht, if_true] at h' ⊢; exact ih cur q h'
    · simp only [ht, if_false, Bool.false_eq_true] at h' ⊢
      by_cases hd : (c == "..") = true
      · simp only [hd, if_true] at h' ⊢; exact ih _ q h'
      · simp only [hd, if_false, Bool.false_eq_true] at h' ⊢
        cases hl : lookup s.fs (cur ++ [c]) with
        | none => rw [hl] at h'; simp at h'
        | some n =>
          rw [hl] at h'
          cases n with
          | file x => simp at h'
          | dir => simp only at h' ⊢; exact ih _ q h'
          | link t =>
            simp only at h' ⊢
            cases hr : resolveDir s.fs linkFuelPred (if t.abs = true then [] else cur) t.comps with
            | error e => rw [hr] at h'; simp at h'
            | ok q1 => rw [hr] at h'; simp only at h' ⊢; exact ih _ q h'

/-- one step of `makedirs`: it only adds a directory, and the step it took is the step the kernel
walk takes in every later file system that keeps directories and links -/
theorem mkdirStep_spec (s : St) (cur : Path) (c : String) :
    Ext s.fs (mkdirStep (s, .ok cur) c).1.fs ∧
    ∀ cur1, (mkdirStep (s, .ok cur) c).2 = .ok cur1 →
      ∀ fs', Ext (mkdirStep (s, .ok cur) c).1.fs fs' →
        stepDir fs' (resolveDir fs' linkFuelPred) (.ok cur) c = .ok cur1 := by
  simp only [mkdirStep, stepDir]
  by_cases ht : trivialComp c = true
  · simp only [ht, if_true]
    exact ⟨Ext.refl _, fun cur1 h _ _ => h⟩
  · simp only [ht, if_false, Bool.false_eq_true]
    by_cases hd : (c == "..") = true
    · simp only [hd, if_true]
      exact ⟨Ext.refl _, fun cur1 h _ _ => h⟩
    · simp only [hd, if_false, Bool.false_eq_true]
      cases hl : lookup s.fs (cur ++ [c]) with
      | none =>
        simp only
        refine ⟨ext_setNode s.fs .dir (Or.inl hl), ?_⟩
        intro cur1 h fs' hx
        have hne : cur ++ [c] ≠ [] := by simp
        rw [(hx (cur ++ [c])).1 (lookup_setNode_self s.fs .dir hne)]
        exact h
      | some n =>
        cases n with
        | file x => exact ⟨Ext.refl _, fun cur1 h => by simp at h⟩
        | dir =>
          refine ⟨Ext.refl _, ?_⟩
          intro cur1 h fs' hx
          rw [(hx (cur ++ [c])).1 hl]; exact h
        | link t =>
          simp only
          cases hr : resolveDir s.fs linkFuelPred (if t.abs = true then [] else cur) t.comps with
          | error e => exact ⟨Ext.refl _, fun cur1 h => by simp at h⟩
          | ok q1 =>
            refine ⟨Ext.refl _, ?_⟩
            intro cur1 h fs' hx
            rw [(hx (cur ++ [c])).2 t hl]
            simp only at h ⊢
            rw [resolveDir_ext hx _ _ _ _ hr]
            exact h

theorem mkdirStep_error (s : St) (e : Err) (c : String) : mkdirStep (s, .error e) c = (s, .error e) := rfl

/-- `makedirs` never removes or changes a directory or a link -/
theorem mkdir_fold_ext : ∀ (comps : List String) (s : St) (a : Except Err Path),
    Ext s.fs (comps.foldl mkdirStep (s, a)).1.fs := by
  intro comps
  induction comps with
  | nil => intro s a; exact Ext.refl _
  | cons c r ih =>
    intro s a
    rw [List.foldl_cons]
    cases a with
    | error e => rw [mkdirStep_error]; exact ih s _
    | ok cur =>
      have h1 := (mkdirStep_spec s cur c).1
      cases hm : mkdirStep (s, .ok cur) c with
      | mk s1 a1 =>
        rw [hm] at h1
        exact h1.trans (ih s1 a1)

/-- after a successful `makedirs` the path leads to the directory it returned -/
theorem mkdir_fold_resolves : ∀ (comps : List String) (s : St) (cur q : Path),
    (comps.foldl mkdirStep (s, .ok cur)).2 = .ok q →
    resolveDir (comps.foldl mkdirStep (s, .ok cur)).1.fs linkFuel cur comps = .ok q := by
  intro comps
  induction comps with
  | nil => intro s cur q h; simp at h; subst h; rfl
  | cons c r ih =>
    intro s cur q h
    rw [List.foldl_cons] at h ⊢
    show resolveDir _ (linkFuelPred + 1) cur (c :: r) = .ok q
    rw [resolveDir_cons]
    have hspec := (mkdirStep_spec s cur c).2
    cases hm : mkdirStep (s, .ok cur) c with
    | mk s1 a1 =>
      rw [hm] at hspec h
      cases a1 with
      | error e => rw [foldl_mkdirStep_error] at h; simp at h
      | ok cur1 =>
        rw [hspec cur1 rfl _ (mkdir_fold_ext r s1 (.ok cur1))]
        exact ih s1 cur1 q h


/-- below `W` (link-free), `makedirs` over components that never climb above `W` creates
directories strictly below `W` only and ends below-or-at `W` -/
theorem mkdir_fold_inside {W : Path} {base : FS} : ∀ (comps : List String) (s : St) (cur : Path) (d : Nat),
    Inv W base s → W <+: cur → (∀ x ∈ cur, plain x = true) → cur.length = W.length + d →
    safeComps d comps = true →
    Step W base s (comps.foldl mkdirStep (s, .ok cur)).1 ∧
    ∀ q, (comps.foldl mkdirStep (s, .ok cur)).2 = .ok q → W <+: q := by
  intro comps
  induction comps with
  | nil =>
    intro s cur d hs hw _ _ _
    exact ⟨Step.refl hs, fun q h => by simp at h; subst h; exact hw⟩
  | cons c r ih =>
    intro s cur d hs hw hpl hlen hsafe
    rw [List.foldl_cons]
    simp only [safeComps] at hsafe
    simp only [mkdirStep]
    by_cases ht : trivialComp c = true
    · simp only [ht, if_true] at hsafe ⊢
      exact ih s cur d hs hw hpl hlen hsafe
    · simp only [ht, if_false, Bool.false_eq_true] at hsafe ⊢
      by_cases hd : (c == "..") = true
      · simp only [hd, if_true, Bool.and_eq_true, bne_iff_ne, ne_eq] at hsafe ⊢
        have hb : Below W cur := ⟨hw, fun e => hsafe.1 (by rw [e] at hlen; omega)⟩
        refine ih s cur.dropLast (d - 1) hs (prefix_dropLast_of_below hb)
          (fun x hx => hpl x (List.dropLast_subset _ hx)) ?_ hsafe.2
        rw [List.length_dropLast]; omega
      · simp only [hd, if_false, Bool.false_eq_true] at hsafe ⊢
        have hb : Below W (cur ++ [c]) := below_append_singleton hw c
        have hlen' : (cur ++ [c]).length = W.length + (d + 1) := by simp; omega
        have hpl' : ∀ x ∈ cur ++ [c], plain x = true := by
          intro x hx
          rcases List.mem_append.1 hx with hx | hx
          · exact hpl x hx
          · simp at hx; subst hx; exact plain_of ht hd
        cases hl : lookup s.fs (cur ++ [c]) with
        | none =>
          simp only
          have hs1 : Inv W base { fs := setNode s.fs (cur ++ [c]) Node.dir,
                                  log := s.log ++ [Eff.mkdir (cur ++ [c])],
                                  map := s.map, cwdGone := s.cwdGone } :=
            inv_setNode hs hb hpl' .dir (fun t => by simp) _ _ _
          have hstep : Step W base s { fs := setNode s.fs (cur ++ [c]) Node.dir,
                                       log := s.log ++ [Eff.mkdir (cur ++ [c])],
                                       map := s.map, cwdGone := s.cwdGone } := by
            refine ⟨hs1, ?_, ext_setNode s.fs .dir (Or.inl hl), rfl⟩
            intro e he
            simp only [List.mem_append, List.mem_singleton] at he
            rcases he with he | he
            · exact Or.inl he
            · subst he; exact Or.inr hb
          obtain ⟨h1, h2⟩ := ih _ (cur ++ [c]) (d + 1) hs1 hb.1 hpl' hlen' hsafe
          exact ⟨hstep.trans h1, h2⟩
        | some n =>
          cases n with
          | file x =>
            simp only
            rw [foldl_mkdirStep_error]
            exact ⟨Step.refl hs, fun q h => by simp at h⟩
          | dir => exact ih s (cur ++ [c]) (d + 1) hs hb.1 hpl' hlen' hsafe
          | link t => exact absurd hl (hs.lf _ t hb)


/-! ### the workspace context: where the workspace option leads, independently of what is inside -/

structure WsCtx (W : Path) (base : FS) (cwd : Path) (ws : RPath) : Prop where
  ne : W ≠ []
  phys : PhysDir base W
  robust : resolveDir (hideBelow W base) linkFuel (if ws.abs then [] else cwd)
    (dropTrailingEmpty ws.comps) = .ok W

theorem not_below_take (W : Path) (k : Nat) : ¬ Below W (W.take k) := by
  intro h
  have h1 : W.take k <+: W := List.take_prefix _ _
  exact h.2 (h1.eq_of_length (Nat.le_antisymm h1.length_le h.1.length_le))

theorem WsCtx.physW {W : Path} {base : FS} {cwd : Path} {ws : RPath} {s : St}
    (ctx : WsCtx W base cwd ws) (hs : Inv W base s) : PhysDir s.fs W :=
  ⟨ctx.phys.1, fun k hk => by rw [hs.agree _ (not_below_take W (k + 1))]; exact ctx.phys.2 k hk⟩

theorem WsCtx.resolveWs {W : Path} {base : FS} {cwd : Path} {ws : RPath} {s : St}
    (ctx : WsCtx W base cwd ws) (hs : Inv W base s) :
    resolveDir s.fs linkFuel (if ws.abs then [] else cwd) (dropTrailingEmpty ws.comps) = .ok W :=
  resolveDir_ext (ext_hide_of_inv hs) _ _ _ _ ctx.robust

/-- a path the fill phase writes to: the workspace option, one plain component, then components
that never climb above that component's parent -/
def InWs (ws p : RPath) : Prop :=
  p.abs = ws.abs ∧ ∃ t0 rest, p.comps = dropTrailingEmpty ws.comps ++ t0 :: rest ∧
    plain t0 = true ∧ safeComps 1 rest = true

/-- `p` leads to the directory `d` in state `s` -/
def LeadsTo (cwd : Path) (s : St) (p : RPath) (d : Path) : Prop :=
  noCwd s p = false ∧ ∃ st, startOf s.fs cwd p = .ok st ∧
    resolveDir s.fs linkFuel st (dropTrailingEmpty p.comps) = .ok d

theorem LeadsTo.step {W : Path} {base : FS} {cwd : Path} {s s' : St} {p : RPath} {d : Path}
    (h : LeadsTo cwd s p d) (hst : Step W base s s') : LeadsTo cwd s' p d := by
  obtain ⟨h1, st, h2, h3⟩ := h
  refine ⟨?_, st, startOf_ext hst.ext h2, resolveDir_ext hst.ext _ _ _ _ h3⟩
  simpa [noCwd, hst.gone] using h1

theorem safeComps_cons_plain {d : Nat} {c : String} {r : List String} (hc : plain c = true) :
    safeComps d (c :: r) = safeComps (d + 1) r := by
  simp [safeComps, plain_not_trivial hc, plain_not_dotdot hc]

theorem mkdirs_inws {W : Path} {base : FS} {cwd : Path} {ws : RPath} {s : St} {p : RPath}
    (ctx : WsCtx W base cwd ws) (hs : Inv W base s) (hp : InWs ws p) :
    Step W base s (mkdirs cwd p s).1 ∧
    ∀ q, (mkdirs cwd p s).2 = .ok q →
      W <+: q ∧ PhysDir (mkdirs cwd p s).1.fs q ∧ LeadsTo cwd (mkdirs cwd p s).1 p q := by
  obtain ⟨habs, t0, rest, hcomps, ht0, hsafe⟩ := hp
  unfold mkdirs
  by_cases hno : noCwd s p = true
  · simp only [hno, if_true]
    exact ⟨Step.refl hs, fun q h => by simp at h⟩
  · simp only [hno, if_false, Bool.false_eq_true]
    cases hst : startOf s.fs cwd p with
    | error e => exact ⟨Step.refl hs, fun q h => by simp at h⟩
    | ok st =>
      simp only
      have hstv : st = if ws.abs then [] else cwd := by rw [startOf_ok hst, habs]
      have hws : resolveDir s.fs linkFuel st (dropTrailingEmpty ws.comps) = .ok W := by
        rw [hstv]; exact ctx.resolveWs hs
      rw [hcomps, List.foldl_append, mkdir_fold_exists s _ _ _ hws]
      have hsafe0 : safeComps 0 (t0 :: rest) = true := by rw [safeComps_cons_plain ht0]; exact hsafe
      obtain ⟨h1, h2⟩ := mkdir_fold_inside (t0 :: rest) s W 0 hs (List.prefix_refl W)
        (ctx.physW hs).1 (by simp) hsafe0
      refine ⟨h1, ?_⟩
      intro q hq
      have hres := mkdir_fold_resolves (t0 :: rest) s W q hq
      have hw' := ctx.resolveWs h1.inv
      have hphysW := ctx.physW h1.inv
      refine ⟨h2 q hq, resolveDir_phys _ _ _ _ hphysW hres, ?_, st, startOf_ext h1.ext hst, ?_⟩
      · have hg := h1.gone
        simp only [noCwd] at hno ⊢
        rw [hg]; simpa using hno
      · show resolveDir _ (linkFuelPred + 1) st (dropTrailingEmpty p.comps) = .ok q
        rw [resolveDir_dropTrailingEmpty, hcomps, resolveDir_append]
        rw [← hstv] at hw'
        have hw'' : resolveDir (List.foldl mkdirStep (s, Except.ok W) (t0 :: rest)).1.fs
            (linkFuelPred + 1) st (dropTrailingEmpty ws.comps) = .ok W := hw'
        rw [hw'']
        exact hres


/-! ### `shutil.copy2` -/

/-- writing a file strictly below `W`, where there was nothing or a file -/
theorem write_step {W : Path} {base : FS} {s : St} (hs : Inv W base s) {pd : Path} (hb : Below W pd)
    (hpl : ∀ x ∈ pd, plain x = true)
    (hl : lookup s.fs pd = none ∨ ∃ c0, lookup s.fs pd = some (.file c0)) (c : Nat) (e : Eff)
    (he : e.path = pd) :
    Step W base s { fs := setNode s.fs pd (.file c), log := s.log ++ [e], map := s.map,
                    cwdGone := s.cwdGone } := by
  refine ⟨inv_setNode hs hb hpl _ (fun t => by simp) _ _ _, ?_, ext_setNode s.fs _ hl, rfl⟩
  intro x hx
  simp only [List.mem_append, List.mem_singleton] at hx
  rcases hx with hx | hx
  · exact Or.inl hx
  · subst hx; exact Or.inr (he ▸ hb)

/-- if the destination exists as a file or not at all, it is a plain-named place strictly below `W` -/
def SafeTarget (W : Path) (s : St) (r : Except Err (Path × Option Node)) : Prop :=
  ∀ pd nd, r = .ok (pd, nd) → (nd = none ∨ ∃ c0, nd = some (.file c0)) →
    Below W pd ∧ (∀ x ∈ pd, plain x = true) ∧ lookup s.fs pd = nd

theorem copy2To_safe {W : Path} {base : FS} {s : St} (hs : Inv W base s) (cwd : Path)
    (src dst' : RPath) (hsafe : SafeTarget W s (mstat cwd s dst')) :
    Step W base s (copy2To cwd src dst' s).1 := by
  unfold copy2To
  cases hsrc : mstat cwd s src with
  | error e => exact Step.refl hs
  | ok r =>
    obtain ⟨ps, n⟩ := r
    cases n with
    | none => exact Step.refl hs
    | some n =>
      cases n with
      | dir => exact Step.refl hs
      | link t => exact Step.refl hs
      | file c =>
        simp only
        cases hdst : mstat cwd s dst' with
        | error e => exact Step.refl hs
        | ok r2 =>
          obtain ⟨pd, nd⟩ := r2
          simp only
          by_cases hsame : (ps == pd) = true
          · simp only [hsame, if_true]; exact Step.refl hs
          · simp only [hsame, if_false, Bool.false_eq_true]
            cases nd with
            | none =>
              obtain ⟨hb, hpl, hl⟩ := hsafe pd none hdst (Or.inl rfl)
              exact write_step hs hb hpl (Or.inl hl) c _ rfl
            | some n2 =>
              cases n2 with
              | dir => exact Step.refl hs
              | link t => exact Step.refl hs
              | file c0 =>
                obtain ⟨hb, hpl, hl⟩ := hsafe pd _ hdst (Or.inr ⟨c0, rfl⟩)
                exact write_step hs hb hpl (Or.inr ⟨c0, hl⟩) c _ rfl

theorem mstat_ofPath (cwd : Path) (s : St) (q : Path) :
    mstat cwd s (ofPath q) = resolve s.fs linkFuel true [] q := by
  simp [mstat, noCwd, ofPath, stat, startOf]

/-- `stat` of a physical place `d ++ [c]` that holds no link -/
theorem mstat_phys {s : St} (cwd : Path) {d : Path} {c : String} (hd : PhysDir s.fs d)
    (hc : plain c = true) (hl : ∀ t, lookup s.fs (d ++ [c]) ≠ some (.link t)) :
    mstat cwd s (ofPath (d ++ [c])) = .ok (d ++ [c], lookup s.fs (d ++ [c])) := by
  rw [mstat_ofPath]
  exact resolve_snoc hc (physDir_resolves linkFuelPred hd) (Or.inr hl)

theorem plain_ne_empty {c : String} (h : plain c = true) : c ≠ "" := by
  intro e; subst e; simp [plain, trivialComp] at h

theorem copy2_phys {W : Path} {base : FS} {s : St} (hs : Inv W base s) (cwd : Path) {d : Path}
    {c : String} (hd : PhysDir s.fs d) (hw : W <+: d) (hc : plain c = true) (src : RPath) :
    Step W base s (copy2 cwd src (ofPath (d ++ [c])) s).1 := by
  have hb : Below W (d ++ [c]) := below_append_singleton hw c
  have hl : ∀ t, lookup s.fs (d ++ [c]) ≠ some (.link t) := fun t => hs.lf _ t hb
  have hq : mstat cwd s (ofPath (d ++ [c])) = .ok (d ++ [c], lookup s.fs (d ++ [c])) :=
    mstat_phys cwd hd hc hl
  have hplq : ∀ x ∈ d ++ [c], plain x = true := by
    intro x hx
    rcases List.mem_append.1 hx with hx | hx
    · exact hd.1 x hx
    · simp at hx; subst hx; exact hc
  unfold copy2
  apply copy2To_safe hs
  by_cases hdir : mIsDir cwd s (ofPath (d ++ [c])) = true
  · -- the destination is an existing directory: copy into it
    simp only [hdir, if_true]
    have hlq : lookup s.fs (d ++ [c]) = some .dir := by
      unfold mIsDir at hdir
      rw [hq] at hdir
      cases hn : lookup s.fs (d ++ [c]) with
      | none => rw [hn] at hdir; simp at hdir
      | some n => cases n <;> rw [hn] at hdir <;> simp at hdir ⊢
    have hdq : PhysDir s.fs (d ++ [c]) := physDir_snoc hd hc hlq
    have hcomps : (joinName (ofPath (d ++ [c])) (basename src)) =
        { abs := true, comps := (d ++ [c]) ++ [basename src] } := by
      simp only [joinName, join, ofPath, Bool.false_eq_true, if_false]
      rw [dropTrailingEmpty_snoc_ne d (plain_ne_empty hc)]
    have hm : mstat cwd s (joinName (ofPath (d ++ [c])) (basename src)) =
        resolve s.fs linkFuel true [] ((d ++ [c]) ++ [basename src]) := by
      rw [hcomps]; exact mstat_ofPath cwd s _
    rw [hm]
    intro pd nd hr hnd
    by_cases ht : trivialComp (basename src) = true
    · rw [show linkFuel = linkFuelPred + 1 from rfl,
        resolve_snoc_trivial ht (physDir_resolves linkFuelPred hdq)] at hr
      simp only [Except.ok.injEq, Prod.mk.injEq] at hr
      rcases hnd with hnd | ⟨c0, hnd⟩ <;> rw [hnd] at hr <;> simp at hr
    · by_cases hdd : (basename src == "..") = true
      · have hbn : basename src = ".." := by simpa using hdd
        rw [hbn, show linkFuel = linkFuelPred + 1 from rfl,
          resolve_snoc_dotdot (physDir_resolves linkFuelPred hdq)] at hr
        simp only [Except.ok.injEq, Prod.mk.injEq] at hr
        rcases hnd with hnd | ⟨c0, hnd⟩ <;> rw [hnd] at hr <;> simp at hr
      · have hpb : plain (basename src) = true := plain_of ht hdd
        have hb2 : Below W ((d ++ [c]) ++ [basename src]) := below_append_singleton hb.1 _
        rw [show linkFuel = linkFuelPred + 1 from rfl,
          resolve_snoc hpb (physDir_resolves linkFuelPred hdq) (Or.inr (fun t => hs.lf _ t hb2))] at hr
        simp only [Except.ok.injEq, Prod.mk.injEq] at hr
        obtain ⟨h1, h2⟩ := hr
        subst h1
        refine ⟨hb2, ?_, h2⟩
        intro x hx
        rcases List.mem_append.1 hx with hx | hx
        · exact hplq x hx
        · simp at hx; subst hx; exact hpb
  · simp only [hdir, if_false, Bool.false_eq_true]
    rw [hq]
    intro pd nd hr _
    simp only [Except.ok.injEq, Prod.mk.injEq] at hr
    obtain ⟨h1, h2⟩ := hr
    subst h1
    exact ⟨hb, hplq, h2⟩


/-! ### the per-file copy -/

theorem joinName_eq (p : RPath) (n : String) :
    joinName p n = { abs := p.abs, comps := dropTrailingEmpty p.comps ++ [n] } := by
  simp [joinName, join]

/-- changing only the dst→src map -/
theorem step_map {W : Path} {base : FS} {s : St} (hs : Inv W base s) (m : List (Path × Path)) :
    Step W base s { s with map := m } :=
  ⟨⟨hs.agree, hs.lf, hs.plainAll⟩, fun _ h => Or.inl h, Ext.refl _, rfl⟩

/-- `os.path.realpath` of a plain name in a directory the path leads to -/
theorem mRealpath_child {W : Path} {base : FS} {cwd : Path} {s : St} (hs : Inv W base s) {dst : RPath}
    {d : Path} (hlead : LeadsTo cwd s dst d) (hw : W <+: d) {b : String} (hb : plain b = true) :
    mRealpath cwd s (joinName dst b) = .ok (d ++ [b]) := by
  obtain ⟨hno, st, hst, hres⟩ := hlead
  have hbel : Below W (d ++ [b]) := below_append_singleton hw b
  unfold mRealpath
  have hno' : noCwd s (joinName dst b) = false := by
    rw [joinName_eq]; simpa [noCwd] using hno
  simp only [hno', Bool.false_eq_true, if_false]
  have hstat : stat s.fs cwd (joinName dst b) = .ok (d ++ [b], lookup s.fs (d ++ [b])) := by
    unfold stat
    rw [startOf_abs_eq (p := dst) (by rw [joinName_eq]), hst]
    simp only
    rw [joinName_eq]
    exact resolve_snoc hb hres (Or.inr (fun t => hs.lf _ t hbel))
  rw [hstat]

theorem copyFile_step {W : Path} {base : FS} {cfg : Cfg} {s : St} (hs : Inv W base s) {dst : RPath}
    {d : Path} (hlead : LeadsTo cfg.cwd s dst d) (hw : W <+: d) (hd : PhysDir s.fs d) {src : RPath}
    (hb : plain (basename src) = true) :
    Step W base s (copyFile cfg src dst s).1 := by
  unfold copyFile
  simp only
  split
  · exact Step.refl hs
  · rw [mRealpath_child hs hlead hw hb]
    cases hsrc : mRealpath cfg.cwd s src with
    | error e => exact Step.refl hs
    | ok srcFile =>
      simp only
      have h1 := copy2_phys hs cfg.cwd hd hw hb (ofPath srcFile)
      simp only [andThen]
      cases hc : copy2 cfg.cwd (ofPath srcFile) (ofPath (d ++ [basename src])) s with
      | mk s' o =>
        rw [hc] at h1
        cases o with
        | none => exact h1.trans (step_map h1.inv _)
        | some x => exact h1


/-! ### safe component lists, paths below the workspace option -/

def softComp (c : String) : Prop := plain c = true ∨ trivialComp c = true

theorem safeComps_soft : ∀ (b : List String) (d : Nat), (∀ c ∈ b, softComp c) → safeComps d b = true := by
  intro b
  induction b with
  | nil => intro d _; rfl
  | cons c r ih =>
    intro d h
    have hr : ∀ x ∈ r, softComp x := fun x hx => h x (List.mem_cons_of_mem _ hx)
    rcases h c (by simp) with hc | hc
    · rw [safeComps_cons_plain hc]; exact ih _ hr
    · simp only [safeComps, hc, if_true]; exact ih _ hr

theorem safeComps_append_soft : ∀ (a b : List String) (d : Nat), safeComps d a = true →
    (∀ c ∈ b, softComp c) → safeComps d (a ++ b) = true := by
  intro a
  induction a with
  | nil => intro b d _ hb; exact safeComps_soft b d hb
  | cons c r ih =>
    intro b d ha hb
    simp only [List.cons_append, safeComps] at ha ⊢
    by_cases ht : trivialComp c = true
    · simp only [ht, if_true] at ha ⊢; exact ih b d ha hb
    · simp only [ht, if_false, Bool.false_eq_true] at ha ⊢
      by_cases hd : (c == "..") = true
      · simp only [hd, if_true, Bool.and_eq_true] at ha ⊢
        exact ⟨ha.1, ih b _ ha.2 hb⟩
      · simp only [hd, if_false, Bool.false_eq_true] at ha ⊢; exact ih b _ ha hb

theorem safeComps_prefix : ∀ (a b : List String) (d : Nat), safeComps d (a ++ b) = true →
    safeComps d a = true := by
  intro a
  induction a with
  | nil => intro b d _; rfl
  | cons c r ih =>
    intro b d h
    simp only [List.cons_append, safeComps] at h ⊢
    by_cases ht : trivialComp c = true
    · simp only [ht, if_true] at h ⊢; exact ih b d h
    · simp only [ht, if_false, Bool.false_eq_true] at h ⊢
      by_cases hd : (c == "..") = true
      · simp only [hd, if_true, Bool.and_eq_true] at h ⊢
        exact ⟨h.1, ih b _ h.2⟩
      · simp only [hd, if_false, Bool.false_eq_true] at h ⊢; exact ih b _ h

theorem safeComps_dropTrailingEmpty {d : Nat} {l : List String} (h : safeComps d l = true) :
    safeComps d (dropTrailingEmpty l) = true := by
  rcases dropTrailingEmpty_cases l with e | e
  · rw [e]; exact h
  · rw [e] at h; exact safeComps_prefix _ _ _ h

theorem dropTrailingEmpty_append_cons (a : List String) {t0 : String} (ht : plain t0 = true)
    (rest : List String) :
    dropTrailingEmpty (a ++ t0 :: rest) = a ++ t0 :: dropTrailingEmpty rest := by
  rcases List.eq_nil_or_concat rest with h | ⟨r', x, h⟩
  · subst h
    have : dropTrailingEmpty ([] : List String) = [] := rfl
    rw [this, show a ++ [t0] = a ++ [t0] from rfl, dropTrailingEmpty_snoc_ne a (plain_ne_empty ht)]
  · rw [List.concat_eq_append] at h
    subst h
    have e : a ++ t0 :: (r' ++ [x]) = (a ++ t0 :: r') ++ [x] := by simp
    rw [e]
    by_cases hx : x = ""
    · subst hx
      rw [dropTrailingEmpty_snoc_empty, dropTrailingEmpty_snoc_empty]
    · rw [dropTrailingEmpty_snoc_ne _ hx, dropTrailingEmpty_snoc_ne _ hx]; simp

theorem InWs.join {ws dst rel : RPath} (h : InWs ws dst) (habs : rel.abs = false)
    (hsoft : ∀ c ∈ rel.comps, softComp c) : InWs ws (join dst rel) := by
  obtain ⟨ha, t0, rest, hc, ht0, hsafe⟩ := h
  refine ⟨by simp [Fs.join, habs, ha], t0, dropTrailingEmpty rest ++ rel.comps, ?_, ht0, ?_⟩
  · simp only [Fs.join, habs, Bool.false_eq_true, if_false]
    rw [hc, dropTrailingEmpty_append_cons _ ht0]; simp
  · exact safeComps_append_soft _ _ _ (safeComps_dropTrailingEmpty hsafe) hsoft

/-- the first level below the workspace option: any single further component is fine -/
theorem InWs.first (ws : RPath) {t0 : String} (ht0 : plain t0 = true) : InWs ws (joinName ws t0) := by
  refine ⟨by simp [joinName_eq], t0, [], by simp [joinName_eq], ht0, rfl⟩

theorem InWs.second (ws : RPath) {t0 : String} (ht0 : plain t0 = true) (n : String) :
    InWs ws (joinName (joinName ws t0) n) := by
  refine ⟨by simp [joinName_eq], t0, [n], ?_, ht0, ?_⟩
  · rw [joinName_eq (joinName ws t0) n, joinName_eq ws t0]
    simp only
    rw [dropTrailingEmpty_snoc_ne _ (plain_ne_empty ht0)]; simp
  · simp only [safeComps]
    split
    · rfl
    · split <;> simp

/-! ### names listed by `os.scandir`, file names -/

theorem names_plain {W : Path} {base : FS} {cwd : Path} {s : St} (hs : Inv W base s) {top : RPath}
    {q : Path} {names : List String} (h : mListDir cwd s top = .ok (q, names)) :
    ∀ n ∈ names, plain n = true := by
  unfold mListDir at h
  cases hm : mstat cwd s top with
  | error e => rw [hm] at h; simp at h
  | ok r =>
    rw [hm] at h
    obtain ⟨q', n⟩ := r
    cases n with
    | none => simp at h
    | some n =>
      cases n with
      | file c => simp at h
      | link t => simp at h
      | dir =>
        simp only [Except.ok.injEq, Prod.mk.injEq] at h
        obtain ⟨h1, h2⟩ := h
        subst h1; subst h2
        intro n hn
        obtain ⟨e, he, hpe⟩ := mem_childNames.1 hn
        exact hs.plainAll e he n (by rw [hpe]; simp)

/-- what `resolve` reports as a regular file has a plain last component -/
theorem resolve_file_last_plain {fs : FS} : ∀ (f : Nat) (follow : Bool) (cur : Path)
    (comps : List String) (q : Path) (x : Nat),
    resolve fs f follow cur comps = .ok (q, some (.file x)) →
    ∃ c, comps.getLast? = some c ∧ plain c = true := by
  intro f
  cases f with
  | zero => intro follow cur comps q x h; simp [resolve] at h
  | succ f =>
    intro follow cur comps q x h
    simp only [resolve] at h
    cases hl : comps.getLast? with
    | none => rw [hl] at h; simp at h
    | some c =>
      rw [hl] at h
      simp only at h
      cases hd : resolveDir fs (f + 1) cur comps.dropLast with
      | error e => rw [hd] at h; simp at h
      | ok d =>
        rw [hd] at h
        simp only at h
        by_cases ht : trivialComp c = true
        · simp [ht] at h
        · by_cases hdd : (c == "..") = true
          · simp [ht, hdd] at h
          · exact ⟨c, rfl, plain_of ht hdd⟩

theorem plain_basename_of_isFile {cwd : Path} {s : St} {p : RPath} (h : mIsFile cwd s p = true) :
    plain (basename p) = true := by
  unfold mIsFile at h
  cases hm : mstat cwd s p with
  | error e => rw [hm] at h; simp at h
  | ok r =>
    obtain ⟨q, n⟩ := r
    rw [hm] at h
    cases n with
    | none => simp at h
    | some n =>
      cases n with
      | dir => simp at h
      | link t => simp at h
      | file x =>
        unfold mstat at hm
        split at hm
        · simp at hm
        · unfold stat at hm
          cases hs : startOf s.fs cwd p with
          | error e => rw [hs] at hm; simp at hm
          | ok st =>
            rw [hs] at hm
            obtain ⟨c, hc, hp⟩ := resolve_file_last_plain _ _ _ _ _ _ hm
            simp [basename, hc, hp]

theorem copyEntry_step {W : Path} {base : FS} {cfg : Cfg} {s : St} (hs : Inv W base s) {dst : RPath}
    {d : Path} (hlead : LeadsTo cfg.cwd s dst d) (hw : W <+: d) (hd : PhysDir s.fs d) (src : RPath) :
    Step W base s (copyEntry cfg src dst s).1 := by
  unfold copyEntry
  split
  · exact Step.refl hs
  · split
    · rename_i hf
      exact copyFile_step hs hlead hw hd (plain_basename_of_isFile hf)
    · exact Step.refl hs


/-! ### sequencing with a persistent side condition -/

theorem step_andThen {W : Path} {base : FS} {s : St} {r : Res} {k : St → Res}
    (h1 : Step W base s r.1) (h2 : r.2 = none → Step W base r.1 (k r.1).1) :
    Step W base s (andThen r k).1 := by
  obtain ⟨s', o⟩ := r
  cases o with
  | none => simp only [andThen]; exact h1.trans (h2 rfl)
  | some x => simpa [andThen] using h1

theorem step_seqAll {α : Type} {W : Path} {base : FS} {f : α → St → Res} {P : St → Prop}
    (hP : ∀ s s', P s → Step W base s s' → P s') :
    ∀ (l : List α), (∀ a ∈ l, ∀ s, Inv W base s → P s → Step W base s (f a s).1) →
      ∀ s, Inv W base s → P s → Step W base s (seqAll f l s).1 := by
  intro l
  induction l with
  | nil => intro _ s hs _; exact Step.refl hs
  | cons a r ih =>
    intro h s hs hp
    have h1 := h a (by simp) s hs hp
    simp only [seqAll]
    cases hfa : f a s with
    | mk s' o =>
      rw [hfa] at h1
      cases o with
      | none =>
        exact h1.trans (ih (fun b hb => h b (List.mem_cons_of_mem _ hb)) s' h1.inv (hP s s' hp h1))
      | some x => exact h1

/-! ### the directory walk -/

/-- `top` is textually `src` followed by plain names -/
def TopOk (cwd : Path) (src top : RPath) : Prop :=
  ∃ ns, abspath cwd top = abspath cwd src ++ ns ∧ ∀ n ∈ ns, plain n = true

theorem TopOk.refl (cwd : Path) (src : RPath) : TopOk cwd src src := ⟨[], by simp, by simp⟩

theorem TopOk.child {cwd : Path} {src top : RPath} (h : TopOk cwd src top) {n : String}
    (hn : plain n = true) : TopOk cwd src (joinName top n) := by
  obtain ⟨ns, h1, h2⟩ := h
  refine ⟨ns ++ [n], by rw [abspath_joinName_plain _ _ hn, h1]; simp, ?_⟩
  intro x hx
  rcases List.mem_append.1 hx with hx | hx
  · exact h2 x hx
  · simp at hx; subst hx; exact hn

theorem walk_good {W : Path} {base : FS} {cfg : Cfg} {ws : RPath} (ctx : WsCtx W base cfg.cwd ws)
    (v : Variant) (wsReal : Path) (src : RPath) {dst : RPath} (hdst : InWs ws dst) :
    ∀ (fuel : Nat) (top : RPath), TopOk cfg.cwd src top →
      Good W base (walk v cfg wsReal src dst fuel top) := by
  intro fuel
  induction fuel with
  | zero => intro top _ s hs; exact Step.refl hs
  | succ fuel ih =>
    intro top htop s hs
    simp only [walk]
    cases hls : mListDir cfg.cwd s top with
    | error e => exact Step.refl hs
    | ok r =>
      obtain ⟨q, names⟩ := r
      simp only
      have hnames := names_plain hs hls
      split
      · exact Step.refl hs
      · -- the destination directory of this level
        obtain ⟨ns, hns, hnsp⟩ := htop
        have hrel : relpath cfg.cwd top src = { abs := false, comps := if ns.isEmpty then ["."] else ns } :=
          relpath_of_top hns
        have hInWs : InWs ws (Fs.join dst (relpath cfg.cwd top src)) := by
          apply hdst.join
          · rw [hrel]
          · rw [hrel]
            simp only
            intro c hc
            split at hc
            · simp at hc; subst hc; exact Or.inr (by simp [trivialComp])
            · exact Or.inl (hnsp c hc)
        have hmk := mkdirs_inws ctx hs hInWs
        unfold mkdirsOp
        cases hm : mkdirs cfg.cwd (Fs.join dst (relpath cfg.cwd top src)) s with
        | mk s1 r1 =>
          rw [hm] at hmk
          cases r1 with
          | error e => simpa [andThen] using hmk.1
          | ok q1 =>
            simp only [andThen]
            obtain ⟨hw1, hphys1, hlead1⟩ := hmk.2 q1 rfl
            -- files
            have hfiles : Step W base s1
                (seqAll (fun n => copyEntry cfg (joinName top n) (Fs.join dst (relpath cfg.cwd top src)))
                  (names.filter (fun n => !mIsDir cfg.cwd s (joinName top n))) s1).1 := by
              refine step_seqAll
                (P := fun st => LeadsTo cfg.cwd st (Fs.join dst (relpath cfg.cwd top src)) q1 ∧
                  PhysDir st.fs q1)
                (fun a b hp hst => ⟨hp.1.step hst, hp.2.ext hst.ext⟩) _ ?_ s1 hmk.1.inv ⟨hlead1, hphys1⟩
              intro n _ st hst hp
              exact copyEntry_step hst hp.1 hw1 hp.2 _
            refine hmk.1.trans (step_andThen hfiles ?_)
            intro _
            -- sub-directories
            refine step_seqAll (P := fun _ => True) (fun _ _ _ _ => trivial) _ ?_ _ hfiles.inv trivial
            intro n hn st hst _
            split
            · exact Step.refl hst
            · have hnp : plain n = true := hnames n (List.mem_filter.1 hn).1
              exact ih (joinName top n) (TopOk.child ⟨ns, hns, hnsp⟩ hnp) st hst


/-! ### `copytree_with_extension`, the loop over the inputs, the whole fill phase -/

/-- `dst` exists: it leads to a physical directory below-or-at `W` -/
def DstReady (W : Path) (cwd : Path) (s : St) (dst : RPath) : Prop :=
  ∃ d, LeadsTo cwd s dst d ∧ W <+: d ∧ PhysDir s.fs d

theorem DstReady.step {W : Path} {base : FS} {cwd : Path} {s s' : St} {dst : RPath}
    (h : DstReady W cwd s dst) (hst : Step W base s s') : DstReady W cwd s' dst := by
  obtain ⟨d, h1, h2, h3⟩ := h
  exact ⟨d, h1.step hst, h2, h3.ext hst.ext⟩

theorem not_isFile_of_isDir {cwd : Path} {s : St} {p : RPath} (h : mIsDir cwd s p = true) :
    mIsFile cwd s p = false := by
  unfold mIsDir at h
  unfold mIsFile
  cases hm : mstat cwd s p with
  | error e => rfl
  | ok r =>
    obtain ⟨q, n⟩ := r
    rw [hm] at h
    cases n with
    | none => rfl
    | some n => cases n <;> simp at h ⊢

theorem copyTree_step {W : Path} {base : FS} {cfg : Cfg} {ws : RPath} (ctx : WsCtx W base cfg.cwd ws)
    (v : Variant) (wsReal : Path) (fuel : Nat) (src : RPath) {dst : RPath} (hdst : InWs ws dst)
    {s : St} (hs : Inv W base s)
    (hfile : mIsFile cfg.cwd s src = true → DstReady W cfg.cwd s dst) :
    Step W base s (copyTree v cfg wsReal fuel src dst s).1 := by
  unfold copyTree
  split
  · exact Step.refl hs
  · split
    · exact walk_good ctx v wsReal src hdst fuel src (TopOk.refl _ _) s hs
    · split
      · rename_i hf
        obtain ⟨d, h1, h2, h3⟩ := hfile hf
        exact copyFile_step hs h1 h2 h3 (plain_basename_of_isFile hf)
      · exact Step.refl hs

structure ParamsOk (cfg : Cfg) : Prop where
  plainSub : ∀ d ∈ cfg.subdirs, plain d = true
  srcIn : cfg.srcDir ∈ cfg.subdirs
  extIn : cfg.externsDir ∈ cfg.subdirs

theorem copyInput_step {W : Path} {base : FS} {cfg : Cfg} {ws : RPath} (ctx : WsCtx W base cfg.cwd ws)
    (hp : ParamsOk cfg) (v : Variant) (wsReal : Path) (fuel : Nat) (i : RPath) {s : St}
    (hs : Inv W base s) (hready : DstReady W cfg.cwd s (joinName ws cfg.srcDir)) :
    Step W base s (copyInput v cfg wsReal fuel (joinName ws cfg.srcDir) i s).1 := by
  have hsrc : plain cfg.srcDir = true := hp.plainSub _ hp.srcIn
  unfold copyInput
  cases mRealpath cfg.cwd s i with
  | error e => exact Step.refl hs
  | ok real =>
    simp only
    split
    · exact Step.refl hs
    · split
      · rename_i hd
        refine copyTree_step ctx v wsReal fuel i (InWs.second ws hsrc _) hs ?_
        intro hf
        rw [not_isFile_of_isDir hd] at hf; simp at hf
      · exact copyTree_step ctx v wsReal fuel i (InWs.first ws hsrc) hs (fun _ => hready)

theorem seqAll_post {α : Type} {W : Path} {base : FS} {f : α → St → Res} {Q : α → St → Prop}
    (hQ : ∀ a s s', Q a s → Step W base s s' → Q a s') :
    ∀ (l : List α),
      (∀ a ∈ l, ∀ s, Inv W base s → Step W base s (f a s).1 ∧ ((f a s).2 = none → Q a (f a s).1)) →
      ∀ s, Inv W base s → Step W base s (seqAll f l s).1 ∧
        ((seqAll f l s).2 = none → ∀ a ∈ l, Q a (seqAll f l s).1) := by
  intro l
  induction l with
  | nil => intro _ s hs; exact ⟨Step.refl hs, fun _ a ha => by simp at ha⟩
  | cons a r ih =>
    intro h s hs
    obtain ⟨h1, h1q⟩ := h a (by simp) s hs
    simp only [seqAll]
    cases hfa : f a s with
    | mk s' o =>
      rw [hfa] at h1 h1q
      cases o with
      | some x => exact ⟨h1, fun hn => by simp at hn⟩
      | none =>
        simp only
        obtain ⟨h2, h2q⟩ := ih (fun b hb => h b (List.mem_cons_of_mem _ hb)) s' h1.inv
        refine ⟨h1.trans h2, ?_⟩
        intro hn b hb
        rcases List.mem_cons.1 hb with hb | hb
        · subst hb; exact hQ _ _ _ (h1q rfl) h2
        · exact h2q hn b hb

theorem mkdirsOp_inws {W : Path} {base : FS} {cwd : Path} {ws : RPath} {s : St} {p : RPath}
    (ctx : WsCtx W base cwd ws) (hs : Inv W base s) (hp : InWs ws p) :
    Step W base s (mkdirsOp cwd p s).1 ∧
    ((mkdirsOp cwd p s).2 = none → DstReady W cwd (mkdirsOp cwd p s).1 p) := by
  have h := mkdirs_inws ctx hs hp
  unfold mkdirsOp
  cases hm : mkdirs cwd p s with
  | mk s1 r =>
    rw [hm] at h
    cases r with
    | error e => exact ⟨h.1, fun hn => by simp at hn⟩
    | ok q =>
      obtain ⟨h1, h2, h3⟩ := h.2 q rfl
      exact ⟨h.1, fun _ => ⟨q, h3, h1, h2⟩⟩

theorem fill_step {W : Path} {base : FS} {cfg : Cfg} {ws : RPath} (ctx : WsCtx W base cfg.cwd ws)
    (hp : ParamsOk cfg) (v : Variant) (fuel : Nat) (wsReal : Path) {s1 : St} (hs : Inv W base s1) :
    Step W base s1 (fill v fuel cfg ws wsReal s1).1 := by
  unfold fill
  obtain ⟨hsub, hsubq⟩ := seqAll_post (W := W) (base := base)
    (f := fun d => mkdirsOp cfg.cwd (joinName ws d))
    (Q := fun d st => DstReady W cfg.cwd st (joinName ws d))
    (fun a s s' h hst => h.step hst) cfg.subdirs
    (fun d hd s hs => mkdirsOp_inws ctx hs (InWs.first ws (hp.plainSub d hd))) s1 hs
  refine step_andThen hsub ?_
  intro hnone
  have hsrcReady := hsubq hnone _ hp.srcIn
  have hextReady := hsubq hnone _ hp.extIn
  simp only
  have hinputs : Step W base _ (seqAll (copyInput v cfg wsReal fuel (joinName ws cfg.srcDir))
      cfg.inputs (seqAll (fun d => mkdirsOp cfg.cwd (joinName ws d)) cfg.subdirs s1).1).1 :=
    step_seqAll (P := fun st => DstReady W cfg.cwd st (joinName ws cfg.srcDir))
      (fun a b h hst => h.step hst) _
      (fun i _ st hst hpst => copyInput_step ctx hp v wsReal fuel i hst hpst) _ hsub.inv hsrcReady
  refine step_andThen hinputs ?_
  intro _
  cases cfg.mock with
  | none => exact Step.refl hinputs.inv
  | some m =>
    simp only
    exact copyTree_step ctx v wsReal fuel m (InWs.first ws (hp.plainSub _ hp.extIn)) hinputs.inv
      (fun _ => (hextReady.step hinputs))

end LianVerif.Workspace
