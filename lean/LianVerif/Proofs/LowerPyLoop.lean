/-
Proofs/LowerPyLoop.lean — GROUNDWORK for the (still OPEN) extension of `lowerB_sim` to `while`
(without `continue`) and `break`: how `Gir.exec` runs `break`, an `if` whose arm breaks, and the
`while_stmt` shape the handler emits (`loop c [] (body ++ condition statements) [] []`); the fragment
with loops; and the fact that a `continue`-free body never ends by `continue` (so the condition
statements at the end of the lowered body are never skipped).
What is missing for the loop theorem: the continuation-style fuel accounting of `Runs`
(`exec (N + length) τ (ss ++ rest) = exec N τ' rest`) is false for loops, whose iterations consume
fuel; it has to be replaced by a big-step statement plus a fuel-monotonicity lemma for `exec` on the
emitted code class.  Not done.
-/
import LianVerif.Proofs.LowerPyStmt

namespace LianVerif.LowerPy
open LianVerif.Gir LianVerif.PySrc

/-! ### executing `break` and the `while_stmt` -/

theorem exec_brk (N : Nat) (τ : State) (rest : List Stmt) (hb : τ.budget = none) :
    exec (N + 1) τ (.brk :: rest) = (.brk, τ) := by
  simp only [exec, State.tick, hb]

theorem exec_if_brk (N : Nat) (τ τ' : State) (c : Opd) (v : Val) (t e rest : List Stmt)
    (hb : τ.budget = none) (hv : τ.evalOpd c = .ok v)
    (hbr : exec N τ (if τ.truthy v then t else e) = (.brk, τ')) :
    exec (N + 1) τ (.ifS c t e :: rest) = (.brk, τ') := by
  simp only [exec, State.tick, hb, hv, hbr]

theorem loop_true_normal (N : Nat) (τ τ2 : State) (c : Opd) (v : Val) (body rest : List Stmt)
    (hb : τ.budget = none) (hv : τ.evalOpd c = .ok v) (ht : τ.truthy v = true)
    (hbody : exec (N + 1) τ body = (.normal, τ2)) :
    exec (N + 2) τ (.loop c [] body [] [] :: rest) = exec (N + 1) τ2 (.loop c [] body [] [] :: rest) := by
  have h1 : exec (N + 1) τ [] = (.normal, τ) := by simp [exec]
  have h2 : exec (N + 1) τ2 [] = (.normal, τ2) := by simp [exec]
  simp only [exec, State.tick, hb, hv, ht, if_true, hbody]

theorem loop_true_brk (N : Nat) (τ τ2 : State) (c : Opd) (v : Val) (body rest : List Stmt)
    (hb : τ.budget = none) (hv : τ.evalOpd c = .ok v) (ht : τ.truthy v = true)
    (hbody : exec (N + 1) τ body = (.brk, τ2)) :
    exec (N + 2) τ (.loop c [] body [] [] :: rest) = exec (N + 1) τ2 rest := by
  simp only [exec, State.tick, hb, hv, ht, if_true, hbody]

theorem loop_true_ret (N : Nat) (τ τ2 : State) (c : Opd) (v w : Val) (body rest : List Stmt)
    (hb : τ.budget = none) (hv : τ.evalOpd c = .ok v) (ht : τ.truthy v = true)
    (hbody : exec (N + 1) τ body = (.ret w, τ2)) :
    exec (N + 2) τ (.loop c [] body [] [] :: rest) = (.ret w, τ2) := by
  simp only [exec, State.tick, hb, hv, ht, if_true, hbody]

theorem loop_false (N : Nat) (τ : State) (c : Opd) (v : Val) (body rest : List Stmt)
    (hb : τ.budget = none) (hv : τ.evalOpd c = .ok v) (ht : τ.truthy v = false) :
    exec (N + 2) τ (.loop c [] body [] [] :: rest) = exec (N + 1) τ rest := by
  simp only [exec, State.tick, hb, hv, ht, Bool.false_eq_true, if_false]


/-! ### the fragment with loops -/

mutual
/-- `stmtFrag` plus `while` (pure condition, body in the fragment) and `break`; no `continue`. -/
def stmtFragW : PStmt → Bool
  | .assign x e => pureFrag e && !isNameOf e x
  | .aug _ _ e => pureFrag e
  | .exprS e => pureFrag e
  | .ifS c t e => pureFrag c && bodyFragW t && bodyFragW e
  | .whileS c b => pureFrag c && bodyFragW b
  | .pass => true
  | .brk => true
  | .ret e => pureFrag e
  | _ => false

def bodyFragW : List PStmt → Bool
  | [] => true
  | s :: r => stmtFragW s && bodyFragW r
end

mutual
def NoTmpSW : PStmt → Prop
  | .assign x e => (∀ n, x ≠ tmp n) ∧ NoTmp e
  | .aug x _ e => (∀ n, x ≠ tmp n) ∧ NoTmp e
  | .exprS e => NoTmp e
  | .ifS c t e => NoTmp c ∧ NoTmpBW t ∧ NoTmpBW e
  | .whileS c b => NoTmp c ∧ NoTmpBW b
  | .ret e => NoTmp e
  | _ => True

def NoTmpBW : List PStmt → Prop
  | [] => True
  | s :: r => NoTmpSW s ∧ NoTmpBW r
end

/-- the outcomes of the fragment: normal end, `return w`, `break`. -/
def OKO (o : Outcome) : Prop := o = .normal ∨ (∃ w, o = .ret w) ∨ o = .brk

theorem not_OKO_err (e : String) : ¬ OKO (.err e) := by
  intro h; rcases h with h | ⟨w, h⟩ | h <;> cases h

theorem not_OKO_cont : ¬ OKO .cont := by
  intro h; rcases h with h | ⟨w, h⟩ | h <;> cases h

/-- a `continue`-free body never ends by `continue`. -/
theorem execP_no_cont (fns : Prog) : ∀ (fuel : Nat) (B : List PStmt) (σ σ' : State) (o : Outcome),
    bodyFragW B = true → execP fns fuel σ B = (o, σ') → o ≠ .cont := by
  intro fuel
  induction fuel with
  | zero => intro B σ σ' o _ h; simp only [execP, Prod.mk.injEq] at h; rw [← h.1]; intro hc; cases hc
  | succ f ih =>
    intro B σ σ' o hfrag h
    cases B with
    | nil => simp only [execP, Prod.mk.injEq] at h; rw [← h.1]; intro hc; cases hc
    | cons s B' =>
      simp only [bodyFragW, Bool.and_eq_true] at hfrag
      obtain ⟨hsf, hBf⟩ := hfrag
      cases s with
      | pass => simp only [execP] at h; exact ih B' σ σ' o hBf h
      | brk => simp only [execP, Prod.mk.injEq] at h; rw [← h.1]; intro hc; cases hc
      | cont => simp [stmtFragW] at hsf
      | globalS _ => simp [stmtFragW] at hsf
      | assign x e =>
        simp only [execP] at h
        cases h1 : evalE fns f σ e with
        | mk r1 σ1 =>
        rw [h1] at h
        cases r1 with
        | error er => simp only [Prod.mk.injEq] at h; rw [← h.1]; intro hc; cases hc
        | ok v =>
        simp only at h
        cases h2 : assignPy σ1 x v with
        | error er => rw [h2] at h; simp only [Prod.mk.injEq] at h; rw [← h.1]; intro hc; cases hc
        | ok σ2 => rw [h2] at h; exact ih B' σ2 σ' o hBf h
      | exprS e =>
        simp only [execP] at h
        cases h1 : evalE fns f σ e with
        | mk r1 σ1 =>
        rw [h1] at h
        cases r1 with
        | error er => simp only [Prod.mk.injEq] at h; rw [← h.1]; intro hc; cases hc
        | ok v => exact ih B' σ1 σ' o hBf h
      | ret e =>
        simp only [execP] at h
        cases h1 : evalE fns f σ e with
        | mk r1 σ1 =>
        rw [h1] at h
        cases r1 with
        | error er => simp only [Prod.mk.injEq] at h; rw [← h.1]; intro hc; cases hc
        | ok v => simp only [Prod.mk.injEq] at h; rw [← h.1]; intro hc; cases hc
      | aug x op e =>
        simp only [execP] at h
        cases h0 : σ.lookup x with
        | error er => rw [h0] at h; simp only [Prod.mk.injEq] at h; rw [← h.1]; intro hc; cases hc
        | ok old =>
        rw [h0] at h
        simp only at h
        cases h1 : evalE fns f σ e with
        | mk r1 σ1 =>
        rw [h1] at h
        cases r1 with
        | error er => simp only [Prod.mk.injEq] at h; rw [← h.1]; intro hc; cases hc
        | ok v =>
        simp only at h
        cases h3 : σ1.binop op old v with
        | error er => rw [h3] at h; simp only [Prod.mk.injEq] at h; rw [← h.1]; intro hc; cases hc
        | ok p =>
        obtain ⟨nv, σ2⟩ := p
        rw [h3] at h
        simp only at h
        cases h2 : assignPy σ2 x nv with
        | error er => rw [h2] at h; simp only [Prod.mk.injEq] at h; rw [← h.1]; intro hc; cases hc
        | ok σ3 => rw [h2] at h; exact ih B' σ3 σ' o hBf h
      | ifS c t e =>
        simp only [stmtFragW, Bool.and_eq_true] at hsf
        simp only [execP] at h
        cases h1 : evalE fns f σ c with
        | mk r1 σ1 =>
        rw [h1] at h
        cases r1 with
        | error er => simp only [Prod.mk.injEq] at h; rw [← h.1]; intro hc; cases hc
        | ok vc =>
        simp only at h
        cases hbr : execP fns f σ1 (if σ1.truthy vc = true then t else e) with
        | mk ob σ2 =>
        rw [hbr] at h
        have hob : ob ≠ .cont := by
          by_cases htr : σ1.truthy vc = true
          · rw [if_pos htr] at hbr; exact ih t σ1 σ2 ob hsf.1.2 hbr
          · rw [if_neg htr] at hbr; exact ih e σ1 σ2 ob hsf.2 hbr
        cases ob with
        | normal => exact ih B' σ2 σ' o hBf h
        | cont => exact absurd rfl hob
        | brk => simp only [Prod.mk.injEq] at h; rw [← h.1]; intro hc; cases hc
        | ret w => simp only [Prod.mk.injEq] at h; rw [← h.1]; intro hc; cases hc
        | err er => simp only [Prod.mk.injEq] at h; rw [← h.1]; intro hc; cases hc
      | whileS c b =>
        simp only [stmtFragW, Bool.and_eq_true] at hsf
        simp only [execP] at h
        cases h1 : evalE fns f σ c with
        | mk r1 σ1 =>
        rw [h1] at h
        cases r1 with
        | error er => simp only [Prod.mk.injEq] at h; rw [← h.1]; intro hc; cases hc
        | ok vc =>
        simp only at h
        by_cases htr : σ1.truthy vc = true
        · rw [if_pos htr] at h
          cases hbr : execP fns f σ1 b with
          | mk ob σ2 =>
          rw [hbr] at h
          have hWf : bodyFragW (.whileS c b :: B') = true := by
            simp only [bodyFragW, stmtFragW, Bool.and_eq_true]; exact ⟨hsf, hBf⟩
          cases ob with
          | normal => exact ih (.whileS c b :: B') σ2 σ' o hWf h
          | cont => exact ih (.whileS c b :: B') σ2 σ' o hWf h
          | brk => exact ih B' σ2 σ' o hBf h
          | ret w => simp only [Prod.mk.injEq] at h; rw [← h.1]; intro hc; cases hc
          | err er => simp only [Prod.mk.injEq] at h; rw [← h.1]; intro hc; cases hc
        · rw [if_neg htr] at h
          exact ih B' σ1 σ' o hBf h

end LianVerif.LowerPy
