/-
C12 (renumbering): `summarize_symbol_decls` — declarations, the worklist closure of the visible-scope
table, implicit roots — and `convert_stmt_id_to_scope_id` commute with every strictly monotone
renumbering fixing 0; with `scopeTable_map` and `bind_mapSummary` this gives the whole per-unit
pipeline on ROWS.
-/
import LianVerif.Proofs.MetaScope

namespace LianVerif.Meta
open LianVerif.Scopes LianVerif.Resolver

variable {ρ : Nat → Nat}

def mapAvail (ρ : Nat → Nat) (a : Avail) : Avail := a.map (fun p => (ρ p.1, p.2.map (mapInt ρ)))

theorem mapAvail_get (h : Mono ρ) (a : Avail) (k : Nat) :
    Avail.get (mapAvail ρ a) (ρ k) = (Avail.get a k).map (List.map (mapInt ρ)) := availGet_map h a k

theorem mapAvail_set (h : Mono ρ) (k : Nat) (v : List Int) : ∀ (a : Avail),
    Avail.set (mapAvail ρ a) (ρ k) (v.map (mapInt ρ)) = mapAvail ρ (Avail.set a k v) := by
  intro a
  induction a with
  | nil => rfl
  | cons p ps ih =>
    simp only [mapAvail, List.map_cons, Avail.set]
    rw [h.beq]
    cases p.1 == k
    · simp only [Bool.false_eq_true, if_false, List.map_cons]
      have := ih
      simp only [mapAvail] at this
      rw [this]
    · simp only [if_true, List.map_cons]

theorem containsInt_map (h : Mono ρ) (l : List Int) (x : Int) :
    (l.map (mapInt ρ)).contains (mapInt ρ x) = l.contains x :=
  contains_map_inj (mapInt ρ) (fun _ _ e => mapInt_inj h e) l x

theorem addNew_map (h : Mono ρ) (xs : List Int) (x : Int) :
    addNew (xs.map (mapInt ρ)) (mapInt ρ x) = (addNew xs x).map (mapInt ρ) := by
  unfold addNew
  rw [containsInt_map h]
  split
  · rfl
  · simp only [List.map_append, List.map_cons, List.map_nil]

theorem union_map (h : Mono ρ) (ys : List Int) : ∀ (xs : List Int),
    union (xs.map (mapInt ρ)) (ys.map (mapInt ρ)) = (union xs ys).map (mapInt ρ) := by
  unfold union
  induction ys with
  | nil => intro xs; rfl
  | cons y ys ih => intro xs; simp only [List.map_cons, List.foldl_cons, addNew_map h, ih]

/-! ### availInit -/

theorem initStep_map (h : Mono ρ) (a : Avail) (r : ScopeRec) :
    initStep (mapAvail ρ a) (mapRec ρ r) = mapAvail ρ (initStep a r) := by
  unfold initStep
  have hk : (mapRec ρ r).kind = r.kind := rfl
  have hs : (mapRec ρ r).stmt = ρ r.stmt := rfl
  have hsc : (mapRec ρ r).scope = mapInt ρ r.scope := rfl
  rw [hk, hs, hsc]
  split
  · rw [mapAvail_get h]
    cases Avail.get a r.stmt with
    | none => simp only [Option.map_none, mapAvail, List.map_append, List.map_cons, List.map_nil]
    | some v =>
      simp only [Option.map_some]
      rw [addNew_map h, mapAvail_set h]
  · rfl

theorem availInit_map (h : Mono ρ) (recs : List ScopeRec) :
    availInit (recs.map (mapRec ρ)) = mapAvail ρ (availInit recs) := by
  unfold availInit
  have : ∀ (a : Avail), (recs.map (mapRec ρ)).foldl initStep (mapAvail ρ a) = mapAvail ρ (recs.foldl initStep a) := by
    induction recs with
    | nil => intro a; rfl
    | cons r rs ih => intro a; simp only [List.map_cons, List.foldl_cons, initStep_map h, ih]
  exact this []

/-! ### the closure -/

theorem mapInt_le_zero (h : Mono ρ) (t : Int) : (mapInt ρ t ≤ 0) ↔ (t ≤ 0) := by
  by_cases ht : 0 ≤ t
  · rw [mapInt_nonneg ht]
    constructor
    · intro hle
      have h0 : ρ t.toNat = 0 := by omega
      have : t.toNat = 0 := h.inj (h0.trans h.zero.symm)
      omega
    · intro hle
      have : t.toNat = 0 := by omega
      rw [this, h.zero]; exact Int.le_refl 0
  · rw [mapInt_neg ht]

theorem pushNew_map (h : Mono ρ) (V : List Nat) (w : List Int) (i : Int) :
    pushNew (V.map ρ) (w.map (mapInt ρ)) (mapInt ρ i) = (pushNew V w i).map (mapInt ρ) := by
  unfold pushNew
  rw [containsInt_map h]
  have hc : (decide (0 ≤ mapInt ρ i) && (V.map ρ).contains (mapInt ρ i).toNat) = (decide (0 ≤ i) && V.contains i.toNat) := by
    by_cases hi : 0 ≤ i
    · rw [mapInt_toNat hi, contains_map h]
      simp only [hi, (mapInt_nonneg_iff ρ i).2 hi]
    · have : ¬ 0 ≤ mapInt ρ i := fun hh => hi ((mapInt_nonneg_iff ρ i).1 hh)
      simp only [hi, this, decide_false, Bool.false_and]
  rw [hc]
  split
  · rfl
  · simp only [List.map_append, List.map_cons, List.map_nil]

theorem foldl_pushNew_map (h : Mono ρ) (V : List Nat) (at_ : List Int) : ∀ (w : List Int),
    (at_.map (mapInt ρ)).foldl (pushNew (V.map ρ)) (w.map (mapInt ρ)) = (at_.foldl (pushNew V) w).map (mapInt ρ) := by
  induction at_ with
  | nil => intro w; rfl
  | cons x xs ih => intro w; simp only [List.map_cons, List.foldl_cons, pushNew_map h, ih]

theorem expand_map (h : Mono ρ) (A : Avail) (V : List Nat) (s : Nat) : ∀ (fuel : Nat) (wl acc : List Int),
    expand (mapAvail ρ A) (V.map ρ) (ρ s) fuel (wl.map (mapInt ρ)) (acc.map (mapInt ρ)) =
      ((expand A V s fuel wl acc).1.map (mapInt ρ), (expand A V s fuel wl acc).2) := by
  intro fuel
  induction fuel with
  | zero => intro wl acc; simp only [expand, List.isEmpty_map]
  | succ f ih =>
    intro wl acc
    cases wl with
    | nil => simp only [List.map_nil, expand]
    | cons t wl =>
      simp only [List.map_cons, expand]
      by_cases ht : t ≤ 0
      · rw [if_pos ht, if_pos ((mapInt_le_zero h t).2 ht)]
        exact ih wl acc
      · rw [if_neg ht, if_neg (fun hh => ht ((mapInt_le_zero h t).1 hh))]
        have hpos : 0 ≤ t := by omega
        rw [mapInt_toNat hpos, h.beq, mapAvail_get h]
        -- the current set
        have hcur : (if (t.toNat == s) = true then some (acc.map (mapInt ρ)) else (Avail.get A t.toNat).map (List.map (mapInt ρ))) =
            (if (t.toNat == s) = true then some acc else Avail.get A t.toNat).map (List.map (mapInt ρ)) := by
          split <;> rfl
        rw [hcur]
        cases (if (t.toNat == s) = true then some acc else Avail.get A t.toNat) with
        | none => exact ih wl acc
        | some at_ =>
          simp only [Option.map_some]
          rw [foldl_pushNew_map h, union_map h]
          exact ih _ _

theorem closeStep_map (h : Mono ρ) (fuel : Nat) (st : CState) (s : Nat) :
    closeStep fuel { avail := mapAvail ρ st.avail, visited := st.visited.map ρ, ok := st.ok } (ρ s) =
      { avail := mapAvail ρ (closeStep fuel st s).avail, visited := (closeStep fuel st s).visited.map ρ,
        ok := (closeStep fuel st s).ok } := by
  unfold closeStep
  simp only
  rw [mapAvail_get h]
  cases Avail.get st.avail s with
  | none => rfl
  | some v =>
    simp only [Option.map_some]
    rw [expand_map h]
    simp only [mapAvail_set h, List.map_append, List.map_cons, List.map_nil]

theorem closure_map (h : Mono ρ) (a : Avail) :
    closure (mapAvail ρ a) = (mapAvail ρ (closure a).1, (closure a).2) := by
  unfold closure
  simp only
  have hlen : (mapAvail ρ a).length = a.length := by simp [mapAvail]
  have hkeys : (mapAvail ρ a).map (·.1) = (a.map (·.1)).map ρ := by
    simp only [mapAvail, List.map_map]; rfl
  rw [hlen, hkeys]
  generalize (a.length + 2) * (a.length + 2) + 8 = fuel
  have hfold : ∀ (keys : List Nat) (st : CState),
      (keys.map ρ).foldl (closeStep fuel) { avail := mapAvail ρ st.avail, visited := st.visited.map ρ, ok := st.ok } =
        { avail := mapAvail ρ (keys.foldl (closeStep fuel) st).avail,
          visited := (keys.foldl (closeStep fuel) st).visited.map ρ,
          ok := (keys.foldl (closeStep fuel) st).ok } := by
    intro keys
    induction keys with
    | nil => intro st; rfl
    | cons k ks ih =>
      intro st
      simp only [List.map_cons, List.foldl_cons]
      rw [closeStep_map h, ih]
  have := hfold (a.map (·.1)) { avail := a, visited := [], ok := true }
  simp only [List.map_nil] at this
  rw [this]
  simp only
  generalize ((a.map (·.1)).foldl (closeStep fuel) { avail := a, visited := [], ok := true }) = fin
  congr 1
  -- add(scope_id) and avail[0] = {0}
  have hself : (mapAvail ρ fin.avail).map (fun p => (p.1, addNew p.2 (p.1 : Int))) =
      mapAvail ρ (fin.avail.map (fun p => (p.1, addNew p.2 (p.1 : Int)))) := by
    simp only [mapAvail, List.map_map]
    apply List.map_congr_left
    intro p _
    simp only [Function.comp]
    rw [← mapInt_cast ρ p.1, addNew_map h]
  rw [hself]
  have := mapAvail_set h 0 [0] (fin.avail.map (fun p => (p.1, addNew p.2 (p.1 : Int))))
  simp only [List.map_cons, List.map_nil, mapInt_zero h, h.zero] at this
  exact this

/-! ### the remaining lookups -/

theorem implicitRoots_map (h : Mono ρ) (recs : List ScopeRec) :
    implicitRoots (recs.map (mapRec ρ)) = (implicitRoots recs).map (mapInt ρ) := by
  unfold implicitRoots
  rw [List.filter_map, List.map_map, List.map_map]
  have hp : ((fun (r : ScopeRec) => r.scope == 0 && r.kind == SKind.block) ∘ mapRec ρ) =
      (fun (r : ScopeRec) => r.scope == 0 && r.kind == SKind.block) := by
    funext r
    simp only [Function.comp]
    have : ((mapRec ρ r).scope == 0) = (r.scope == 0) := by
      have := mapInt_beq h r.scope 0
      rwa [mapInt_zero h] at this
    rw [this]; rfl
  rw [hp]
  apply List.map_congr_left
  intro r _
  simp only [Function.comp]
  exact (mapInt_cast ρ r.stmt).symm

theorem stmtScope_map (h : Mono ρ) (st : DState) (stmt : Nat) :
    stmtScope (mapDState ρ st) (ρ stmt) = mapInt ρ (stmtScope st stmt) := by
  unfold stmtScope
  show (match Cache.get (mapCache ρ st.cache) (ρ stmt) with
    | some r => (r : Int)
    | none => if (ρ stmt == 0) = true then -1
      else match (st.recs.map (mapRec ρ)).find? (fun (r : ScopeRec) => r.stmt == ρ stmt) with
        | some r => r.scope
        | none => -1) = _
  rw [cacheGet_map h, h.eq_zero]
  cases Cache.get st.cache stmt with
  | some r => simp only [Option.map_some, mapInt_cast]
  | none =>
    simp only [Option.map_none]
    by_cases h0 : (stmt == 0) = true
    · simp only [h0, if_true, mapInt_neg_one]
    · simp only [h0, Bool.false_eq_true, if_false]
      have hfind : (st.recs.map (mapRec ρ)).find? (fun r => r.stmt == ρ stmt) =
          (st.recs.find? (fun r => r.stmt == stmt)).map (mapRec ρ) := by
        induction st.recs with
        | nil => rfl
        | cons r rs ih =>
          simp only [List.map_cons, List.find?_cons]
          have : ((mapRec ρ r).stmt == ρ stmt) = (r.stmt == stmt) := h.beq _ _
          rw [this]
          cases r.stmt == stmt
          · exact ih
          · rfl
      rw [hfind]
      cases st.recs.find? (fun r => r.stmt == stmt) with
      | none => simp only [Option.map_none, mapInt_neg_one]
      | some r => rfl

variable {ν : Type} [DecidableEq ν]

theorem findRow_map (h : Mono ρ) (rows : List (Row ν)) (id : Nat) :
    (rows.map (mapScopeRow ρ)).find? (fun r => r.id == ρ id) = (rows.find? (fun r => r.id == id)).map (mapScopeRow ρ) := by
  induction rows with
  | nil => rfl
  | cons r rs ih =>
    simp only [List.map_cons, List.find?_cons]
    have : ((mapScopeRow ρ r).id == ρ id) = (r.id == id) := h.beq _ _
    rw [this]
    cases r.id == id
    · exact ih
    · rfl

theorem decls_mapRows (h : Mono ρ) (lastSeg : ν → Option ν) (rows : List (Row ν)) (recs : List ScopeRec) :
    decls lastSeg (rows.map (mapScopeRow ρ)) (recs.map (mapRec ρ)) = (decls lastSeg rows recs).map (mapDecl ρ) := by
  unfold decls
  induction recs with
  | nil => rfl
  | cons rec rs ih =>
    simp only [List.map_cons, List.filterMap_cons]
    have hk : (mapRec ρ rec).kind = rec.kind := rfl
    have hs : (mapRec ρ rec).stmt = ρ rec.stmt := rfl
    rw [hk, hs, findRow_map h]
    by_cases hd : rec.kind.declares = true
    · simp only [hd, if_true]
      cases rows.find? (fun r => r.id == rec.stmt) with
      | none => simp only [Option.map_none]; exact ih
      | some r =>
        simp only [Option.map_some]
        have hn : declName lastSeg rec.kind (mapScopeRow ρ r) = declName lastSeg rec.kind r := rfl
        rw [hn]
        cases declName lastSeg rec.kind r with
        | none => exact ih
        | some n => simp only [List.map_cons, ih]; rfl
    · simp only [hd, Bool.false_eq_true, if_false]; exact ih

theorem summaryOf_map (h : Mono ρ) (ds : List (Decl ν)) (recs : List ScopeRec) :
    summaryOf (ds.map (mapDecl ρ)) (recs.map (mapRec ρ)) = mapSummary ρ (summaryOf ds recs) := by
  unfold summaryOf mapSummary
  rw [availInit_map h, closure_map h, implicitRoots_map h]
  rfl

theorem shapes_mapScopeRow (ρ : Nat → Nat) (rows : List (Row ν)) :
    (rows.map (mapScopeRow ρ)).map Row.shape = (rows.map Row.shape).map (mapShape ρ) := by
  rw [List.map_map, List.map_map]; rfl

/-- **the whole per-unit pipeline on rows commutes with the renumbering** -/
theorem bindRows_mapRows (h : Mono ρ) (lastSeg : ν → Option ν) (t : OpTable) (rows : List (Row ν))
    (stmt : Nat) (n : ν) (mode : Mode) :
    bindRows lastSeg t (rows.map (mapScopeRow ρ)) (ρ stmt) n mode =
      (bindRows lastSeg t rows stmt n mode).map (mapDecl ρ) := by
  unfold bindRows
  simp only
  rw [shapes_mapScopeRow, scopeTable_map h]
  have hrecs : (mapDState ρ (scopeTable t (rows.map Row.shape))).recs =
      (scopeTable t (rows.map Row.shape)).recs.map (mapRec ρ) := rfl
  rw [hrecs, decls_mapRows h, summaryOf_map h]
  exact bind_mapSummary h _ _ _ stmt (stmtScope_map h _ stmt) n mode

theorem bindRows0_mapRows (h : Mono ρ) (lastSeg : ν → Option ν) (t : OpTable) (rows : List (Row ν))
    (stmt : Nat) (n : ν) (mode : Mode) :
    bindRows0 lastSeg t (rows.map (mapScopeRow ρ)) (ρ stmt) n mode =
      (bindRows0 lastSeg t rows stmt n mode).map (mapDecl ρ) := by
  unfold bindRows0
  simp only
  rw [shapes_mapScopeRow, scopeTable0_map h]
  have hrecs : (mapDState ρ (scopeTable0 t (rows.map Row.shape))).recs =
      (scopeTable0 t (rows.map Row.shape)).recs.map (mapRec ρ) := rfl
  rw [hrecs, decls_mapRows h, summaryOf_map h]
  exact bind_mapSummary h _ _ _ stmt (stmtScope_map h _ stmt) n mode

end LianVerif.Meta
