/-
Proofs/GirStore.lean — lemmas about the variable store of the GIR reference semantics
(association lists, frames, name resolution, assignment).  Used by Properties/C01.lean.
-/
import LianVerif.Gir.Sem

namespace LianVerif.Gir

/-! ### association lists -/

theorem alGet_alSet_eq {β : Type} (l : List (String × β)) (k : String) (v : β) :
    alGet (alSet l k v) k = some v := by
  induction l with
  | nil => simp [alSet, alGet]
  | cons p rest ih =>
    obtain ⟨k', v'⟩ := p
    by_cases h : k' = k
    · subst h; simp [alSet, alGet]
    · have hb : (k' == k) = false := by simpa using h
      simp [alSet, alGet, hb, ih]

theorem alGet_alSet_ne {β : Type} (l : List (String × β)) (k x : String) (v : β) (h : x ≠ k) :
    alGet (alSet l k v) x = alGet l x := by
  induction l with
  | nil =>
    have hb : (k == x) = false := by simpa using (Ne.symm h)
    simp [alSet, alGet, hb]
  | cons p rest ih =>
    obtain ⟨k', v'⟩ := p
    by_cases h1 : k' = k
    · subst h1
      have hb : (k' == x) = false := by simpa using (Ne.symm h)
      simp [alSet, alGet, hb]
    · have hb : (k' == k) = false := by simpa using h1
      simp [alSet, alGet, hb, ih]

theorem alHas_eq_isSome {β : Type} (l : List (String × β)) (x : String) :
    alHas l x = (alGet l x).isSome := by
  induction l with
  | nil => simp [alHas, alGet]
  | cons p rest ih =>
    obtain ⟨k', v'⟩ := p
    by_cases h : k' = x
    · subst h; simp [alHas, alGet]
    · have hb : (k' == x) = false := by simpa using h
      simp [alHas, alGet, hb, ih]

theorem alHas_alSet_eq {β : Type} (l : List (String × β)) (k : String) (v : β) :
    alHas (alSet l k v) k = true := by
  rw [alHas_eq_isSome, alGet_alSet_eq]; rfl

theorem alHas_alSet_ne {β : Type} (l : List (String × β)) (k x : String) (v : β) (h : x ≠ k) :
    alHas (alSet l k v) x = alHas l x := by
  rw [alHas_eq_isSome, alHas_eq_isSome, alGet_alSet_ne l k x v h]

/-! ### frames -/

/-- the state after writing `t := v` into frame `a` (whose current content is `f`). -/
def State.wr (σ : State) (a : Nat) (f : Frame) (t : String) (v : Val) : State :=
  σ.setFrame a { f with vars := alSet f.vars t (some v) }

theorem frame_wr_same (σ : State) (a : Nat) (f : Frame) (t : String) (v : Val)
    (h : σ.frame a = some f) :
    (σ.wr a f t v).frame a = some { f with vars := alSet f.vars t (some v) } := by
  unfold State.frame at h
  have hlt : a < σ.frames.length := by
    rcases Nat.lt_or_ge a σ.frames.length with h1 | h1
    · exact h1
    · rw [List.getElem?_eq_none h1] at h; cases h
  simp [State.wr, State.setFrame, State.frame, hlt]

theorem frame_wr_other (σ : State) (a b : Nat) (f : Frame) (t : String) (v : Val) (h : b ≠ a) :
    (σ.wr a f t v).frame b = σ.frame b := by
  simp [State.wr, State.setFrame, State.frame, Ne.symm h]

theorem findDecl_wr_ne (σ : State) (a : Nat) (f : Frame) (t x : String) (v : Val)
    (hf : σ.frame a = some f) (hx : x ≠ t) (env : List Nat) :
    (σ.wr a f t v).findDecl env x = σ.findDecl env x := by
  induction env with
  | nil => simp [State.findDecl]
  | cons b rest ih =>
    by_cases hb : b = a
    · subst hb
      simp only [State.findDecl, frame_wr_same σ b f t v hf, hf, alHas_alSet_ne f.vars t x (some v) hx, ih]
    · simp only [State.findDecl, frame_wr_other σ a b f t v hb, ih]

theorem resolve_wr_ne (σ : State) (a : Nat) (f : Frame) (t x : String) (v : Val)
    (hf : σ.frame a = some f) (hx : x ≠ t) (env : List Nat) :
    (σ.wr a f t v).resolve env x = σ.resolve env x := by
  cases env with
  | nil => simp [State.resolve]
  | cons fp outer =>
    by_cases hb : fp = a
    · subst hb
      simp only [State.resolve, frame_wr_same σ fp f t v hf, hf, findDecl_wr_ne σ fp f t x v hf hx]
    · simp only [State.resolve, frame_wr_other σ a fp f t v hb, findDecl_wr_ne σ a f t x v hf hx]

theorem lookupIn_wr_ne (σ : State) (a : Nat) (f : Frame) (t x : String) (v : Val)
    (hf : σ.frame a = some f) (hx : x ≠ t) (env : List Nat) :
    (σ.wr a f t v).lookupIn env x = σ.lookupIn env x := by
  unfold State.lookupIn
  rw [resolve_wr_ne σ a f t x v hf hx env]
  cases hr : σ.resolve env x with
  | none => rfl
  | some b =>
    by_cases hb : b = a
    · subst hb
      simp only [frame_wr_same σ b f t v hf, hf, alGet_alSet_ne f.vars t x (some v) hx]
    · simp only [frame_wr_other σ a b f t v hb]


/-! ### assignment -/

theorem findDecl_some (σ : State) (env : List Nat) (x : String) (a : Nat)
    (h : σ.findDecl env x = some a) : ∃ f, σ.frame a = some f ∧ alHas f.vars x = true := by
  induction env with
  | nil => simp [State.findDecl] at h
  | cons b rest ih =>
    simp only [State.findDecl] at h
    cases hb : σ.frame b with
    | none => simp only [hb] at h; exact ih h
    | some g =>
      simp only [hb] at h
      by_cases hh : alHas g.vars x = true
      · rw [if_pos hh] at h
        cases h
        exact ⟨g, hb, hh⟩
      · rw [if_neg hh] at h; exact ih h

theorem findDecl_wr_same (σ : State) (env : List Nat) (t : String) (v : Val) (a : Nat) (f : Frame)
    (hf : σ.frame a = some f) (h : σ.findDecl env t = some a) :
    (σ.wr a f t v).findDecl env t = some a := by
  induction env with
  | nil => simp [State.findDecl] at h
  | cons b rest ih =>
    by_cases hb : b = a
    · subst hb
      simp only [State.findDecl, frame_wr_same σ b f t v hf, alHas_alSet_eq, if_true]
    · simp only [State.findDecl] at h
      simp only [State.findDecl, frame_wr_other σ a b f t v hb]
      cases hfb : σ.frame b with
      | none => simp only [hfb] at h; exact ih h
      | some g =>
        simp only [hfb] at h
        by_cases hh : alHas g.vars t = true
        · rw [if_pos hh] at h; cases h; exact absurd rfl hb
        · rw [if_neg hh] at h
          simp only [hh]
          exact ih h

theorem findDecl_wr_head (σ : State) (rest : List Nat) (t : String) (v : Val) (fp : Nat) (f : Frame)
    (hf : σ.frame fp = some f) :
    (σ.wr fp f t v).findDecl (fp :: rest) t = some fp := by
  simp only [State.findDecl, frame_wr_same σ fp f t v hf, alHas_alSet_eq, if_true]

/-- `t` is resolved like a plain local in the current frame: the frame exists and does not declare
`t` global or nonlocal. -/
def State.Loc (σ : State) (t : String) : Prop :=
  ∃ fp rest f, σ.env = fp :: rest ∧ σ.frame fp = some f ∧
    f.globals.contains t = false ∧ f.nonlocals.contains t = false

theorem wr_env (σ : State) (a : Nat) (f : Frame) (t : String) (v : Val) : (σ.wr a f t v).env = σ.env := rfl
theorem wr_heap (σ : State) (a : Nat) (f : Frame) (t : String) (v : Val) : (σ.wr a f t v).heap = σ.heap := rfl
theorem wr_out (σ : State) (a : Nat) (f : Frame) (t : String) (v : Val) : (σ.wr a f t v).out = σ.out := rfl
theorem wr_budget (σ : State) (a : Nat) (f : Frame) (t : String) (v : Val) : (σ.wr a f t v).budget = σ.budget := rfl

theorem setVarAt_eq (σ : State) (a : Nat) (f : Frame) (t : String) (v : Val) (hf : σ.frame a = some f) :
    σ.setVarAt a t v = .ok (σ.wr a f t v) := by
  simp [State.setVarAt, hf, State.wr]

/-- assignment to a name that resolves like a local: it succeeds, is a single-variable write into
some existing frame, and a subsequent read returns the value. -/
theorem assign_loc (σ : State) (t : String) (v : Val) (hl : σ.Loc t) :
    ∃ a f, σ.frame a = some f ∧ σ.assign t v = .ok (σ.wr a f t v) ∧
      (σ.wr a f t v).lookup t = .ok v := by
  obtain ⟨fp, rest, f0, henv, hfp, hg, hn⟩ := hl
  have hres : σ.resolve σ.env t = σ.findDecl σ.env t := by
    rw [henv]; simp only [State.resolve, hfp, hg, hn, Bool.false_eq_true, if_false]
  cases hfd : σ.findDecl σ.env t with
  | some a =>
    obtain ⟨f, hfa, _⟩ := findDecl_some σ σ.env t a hfd
    refine ⟨a, f, hfa, ?_, ?_⟩
    · unfold State.assign
      rw [henv]; simp only []
      rw [← henv, hres, hfd]; simp only []
      exact setVarAt_eq σ a f t v hfa
    · have hfd' := findDecl_wr_same σ σ.env t v a f hfa hfd
      -- resolution in the new state
      have hfp' : ∃ g, (σ.wr a f t v).frame fp = some g ∧ g.globals = f0.globals ∧ g.nonlocals = f0.nonlocals := by
        by_cases hb : fp = a
        · subst hb
          rw [hfp] at hfa; cases hfa
          exact ⟨_, frame_wr_same σ fp f0 t v hfp, rfl, rfl⟩
        · exact ⟨f0, by rw [frame_wr_other σ a fp f t v hb]; exact hfp, rfl, rfl⟩
      obtain ⟨g, hg1, hg2, hg3⟩ := hfp'
      have hres' : (σ.wr a f t v).resolve σ.env t = some a := by
        rw [henv]; simp only [State.resolve, hg1, hg2, hg3, hg, hn, Bool.false_eq_true, if_false]
        rw [← henv]; exact hfd'
      unfold State.lookup State.lookupIn
      rw [wr_env, hres']; simp only [frame_wr_same σ a f t v hfa, alGet_alSet_eq]
  | none =>
    refine ⟨fp, f0, hfp, ?_, ?_⟩
    · unfold State.assign
      rw [henv]; simp only []
      rw [← henv, hres, hfd]; simp only [hfp, hn, Bool.false_eq_true, if_false]
      exact setVarAt_eq σ fp f0 t v hfp
    · have hres' : (σ.wr fp f0 t v).resolve σ.env t = some fp := by
        rw [henv]
        simp only [State.resolve, frame_wr_same σ fp f0 t v hfp, hg, hn, Bool.false_eq_true, if_false]
        exact findDecl_wr_head σ rest t v fp f0 hfp
      unfold State.lookup State.lookupIn
      rw [wr_env, hres']; simp only [frame_wr_same σ fp f0 t v hfp, alGet_alSet_eq]

theorem loc_wr (σ : State) (a : Nat) (f : Frame) (t x : String) (v : Val) (hf : σ.frame a = some f)
    (hl : σ.Loc x) : (σ.wr a f t v).Loc x := by
  obtain ⟨fp, rest, f0, henv, hfp, hg, hn⟩ := hl
  by_cases hb : fp = a
  · subst hb
    rw [hfp] at hf; cases hf
    exact ⟨fp, rest, _, henv, frame_wr_same σ fp _ t v hfp, hg, hn⟩
  · exact ⟨fp, rest, f0, henv, by rw [frame_wr_other σ a fp f t v hb]; exact hfp, hg, hn⟩

theorem lookup_wr_ne (σ : State) (a : Nat) (f : Frame) (t x : String) (v : Val)
    (hf : σ.frame a = some f) (hx : x ≠ t) : (σ.wr a f t v).lookup x = σ.lookup x := by
  unfold State.lookup
  rw [wr_env]
  exact lookupIn_wr_ne σ a f t x v hf hx σ.env


/-! ### name resolution depends on `frames` (and the chain) only -/

theorem frame_congr (σ σ' : State) (hf : σ'.frames = σ.frames) (a : Nat) : σ'.frame a = σ.frame a := by
  unfold State.frame; rw [hf]

theorem findDecl_congr (σ σ' : State) (hf : σ'.frames = σ.frames) (x : String) (env : List Nat) :
    σ'.findDecl env x = σ.findDecl env x := by
  induction env with
  | nil => simp [State.findDecl]
  | cons b rest ih => simp only [State.findDecl, frame_congr σ σ' hf, ih]

theorem resolve_congr (σ σ' : State) (hf : σ'.frames = σ.frames) (x : String) (env : List Nat) :
    σ'.resolve env x = σ.resolve env x := by
  cases env with
  | nil => simp [State.resolve]
  | cons fp outer => simp only [State.resolve, frame_congr σ σ' hf, findDecl_congr σ σ' hf]

theorem lookupIn_congr (σ σ' : State) (hf : σ'.frames = σ.frames) (x : String) (env : List Nat) :
    σ'.lookupIn env x = σ.lookupIn env x := by
  simp only [State.lookupIn, resolve_congr σ σ' hf, frame_congr σ σ' hf]

theorem lookup_congr (σ σ' : State) (hf : σ'.frames = σ.frames) (he : σ'.env = σ.env) (x : String) :
    σ'.lookup x = σ.lookup x := by
  unfold State.lookup
  rw [he]
  exact lookupIn_congr σ σ' hf x σ.env

end LianVerif.Gir
