/-
Soundness of the repaired CFG builder model (`analyze Q.live`) on the fragment F₀: every
control-skeleton run of an F₀ block, entered from a statement of the analysed frontier, is a chain of
edges the analysis emits, and ends in the frontier / pending specials the analysis returns
(`sim_all`).  `build_has`: the graph built by `_add_one_edge` from the emissions contains every
emitted pair (up to self loops).
-/
import LianVerif.Proofs.Ctl

namespace LianVerif.Cfg

section
variable (R : Int → Int → Prop)

def HasE (es : List Edge) : Prop := ∀ e ∈ es, R (e.1 : Int) e.2.1

theorem hasE_append {es1 es2 : List Edge} : HasE R (es1 ++ es2) ↔ HasE R es1 ∧ HasE R es2 := by
  unfold HasE
  constructor
  · intro h
    exact ⟨fun e he => h e (List.mem_append.2 (Or.inl he)), fun e he => h e (List.mem_append.2 (Or.inr he))⟩
  · rintro ⟨h1, h2⟩ e he
    rcases List.mem_append.1 he with he | he
    · exact h1 e he
    · exact h2 e he

theorem hasE_nil : HasE R [] := by intro e he; cases he

/-- the predecessor is one of the statements of the frontier -/
def InFr : Option Int → List Fr → Prop
  | none, _ => True
  | some x, F => ∃ f ∈ F, (f.id : Int) = x

theorem inFr_link {a : Option Int} {F : List Fr} {dst : Int} (ha : InFr a F) (h : HasE R (link F dst)) :
    linkO R a dst := by
  cases a with
  | none => trivial
  | some x =>
    obtain ⟨f, hf, rfl⟩ := ha
    exact h (f.id, dst, f.kind.getD kEMPTY) (List.mem_map.2 ⟨f, hf, rfl⟩)

theorem inFr_mono {a : Option Int} {F G : List Fr} (ha : InFr a F) (h : ∀ f ∈ F, f ∈ G) : InFr a G := by
  cases a with
  | none => trivial
  | some x => obtain ⟨f, hf, hx⟩ := ha; exact ⟨f, h f hf, hx⟩

/-- what a run must satisfy relative to the analysis result (`F'`, new specials `dsp`) -/
def Concl (a : Option Int) (r : Res) (F' : List Fr) (dsp : List Sp) : Prop :=
  chainO R a r.tr ∧
    match r.out with
    | .normal => InFr (lastO a r.tr) F'
    | .brk => ∃ s ∈ dsp, s.isBrk = true ∧ lastO a r.tr = some (s.id : Int)
    | .cont => ∃ s ∈ dsp, s.isBrk = false ∧ lastO a r.tr = some (s.id : Int)
    | .ret => ∃ x, lastO a r.tr = some x ∧ R x (-1)
    | .raise => False
    | .stop => True

theorem concl_stop (a : Option Int) (o : List Bool) (F' : List Fr) (dsp : List Sp) :
    Concl R a (stopRes o) F' dsp := by
  simp [Concl, stopRes, chainO]

/-- sequencing: `r` against (F1, sp1), then `f` against (F2, sp2); all specials end up in `sp` -/
theorem concl_bind {a : Option Int} {r : Res} {f : List Bool → Res} {F1 F2 : List Fr} {sp1 sp : List Sp}
    (h1 : Concl R a r F1 sp1) (hs1 : ∀ s ∈ sp1, s ∈ sp)
    (h2 : r.out = .normal → InFr (lastO a r.tr) F1 → Concl R (lastO a r.tr) (f r.o) F2 sp) :
    Concl R a (r.bind f) F2 sp := by
  obtain ⟨hch, hout⟩ := h1
  unfold Res.bind
  cases hr : r.out with
  | normal =>
    simp only [hr] at hout ⊢
    obtain ⟨hch2, hout2⟩ := h2 hr hout
    refine ⟨(chainO_append R a _ _).2 ⟨hch, hch2⟩, ?_⟩
    simp only [lastO_append]
    exact hout2
  | brk =>
    simp only [hr] at hout ⊢
    obtain ⟨s, hs, h⟩ := hout
    exact ⟨hch, by simp only [hr]; exact ⟨s, hs1 s hs, h⟩⟩
  | cont =>
    simp only [hr] at hout ⊢
    obtain ⟨s, hs, h⟩ := hout
    exact ⟨hch, by simp only [hr]; exact ⟨s, hs1 s hs, h⟩⟩
  | ret => simp only [hr] at hout ⊢; exact ⟨hch, by simpa [hr] using hout⟩
  | raise => simp only [hr] at hout
  | stop => simp only [hr] at hout ⊢; exact ⟨hch, by simp [hr]⟩

/-- the simulation statement at fuel `n`, for the repaired model -/
def Sim (n : Nat) : Prop :=
  ∀ s, inF0 s = true → ∀ F a o, HasE R (analyze Q.live s F).es → InFr a F →
    Concl R a (exec n .stmt false s o) (analyze Q.live s F).F (analyze Q.live s F).sp

theorem tick_false (id : Nat) (o : List Bool) : tick false id o = ⟨[(id : Int)], .normal, o⟩ := by
  simp [tick]

/-- a step linked from the frontier, then a continuation entered from `[id]` -/
theorem concl_node {a : Option Int} {id : Nat} {o : List Bool} {F F2 : List Fr} {sp : List Sp}
    {f : List Bool → Res} (ha : InFr a F) (hl : HasE R (link F id))
    (hf : ∀ o', Concl R (some (id : Int)) (f o') F2 sp) :
    Concl R a ((tick false id o).bind f) F2 sp := by
  rw [tick_false]
  refine concl_bind R (F1 := [⟨id, none⟩]) (sp1 := []) ?_ (by simp) ?_
  · simp only [Concl, chainO, lastO]
    exact ⟨⟨inFr_link R ha hl, trivial⟩, ⟨⟨id, none⟩, by simp, rfl⟩⟩
  · intro _ _
    exact hf o

theorem sim_succ_simple (n : Nat) (ih : Sim R n) (id : Nat) (rest : S) (hin : inF0 rest = true)
    (F : List Fr) (a : Option Int) (o : List Bool)
    (hE : HasE R (analyze Q.live (.simple id rest) F).es) (ha : InFr a F) :
    Concl R a (exec (n + 1) .stmt false (.simple id rest) o) (analyze Q.live (.simple id rest) F).F
      (analyze Q.live (.simple id rest) F).sp := by
  simp only [exec]
  simp only [analyze, Em.andThen, hasE_append, List.nil_append] at hE ⊢
  exact concl_node R ha hE.1 (fun o' => ih rest hin _ _ o' hE.2 ⟨⟨id, none⟩, by simp, rfl⟩)

theorem lastO_some (x : Int) (t : List Int) : ∃ y, lastO (some x) t = some y := by
  induction t generalizing x with
  | nil => exact ⟨x, rfl⟩
  | cons z t ih => simpa [lastO] using ih z

theorem concl_mono {a : Option Int} {r : Res} {F G : List Fr} {sp sp' : List Sp}
    (h : Concl R a r F sp) (hF : ∀ f ∈ F, f ∈ G) (hs : ∀ s ∈ sp, s ∈ sp') : Concl R a r G sp' := by
  obtain ⟨hch, hout⟩ := h
  refine ⟨hch, ?_⟩
  cases hr : r.out <;> simp only [hr] at hout ⊢
  · exact inFr_mono hout hF
  · obtain ⟨s, h1, h2⟩ := hout; exact ⟨s, hs s h1, h2⟩
  · obtain ⟨s, h1, h2⟩ := hout; exact ⟨s, hs s h1, h2⟩
  · exact hout

/-- after the handler of a compound statement (`Em.cont`): the run `r1` of the statement itself
against the handler's result `r`, then `f` = the rest of the block, which the analysis enters from
`r.F` unless the handler stops the block (possible only when nothing falls through). -/
theorem concl_cont {x : Int} {r1 : Res} {f : List Bool → Res} {r : Em} {stop : Bool} {g : List Fr → Em}
    (h1 : Concl R (some x) r1 r.F r.sp) (hstop : stop = true → r.F = [])
    (h2 : stop = false → r1.out = .normal → InFr (lastO (some x) r1.tr) r.F →
      Concl R (lastO (some x) r1.tr) (f r1.o) (g r.F).F (g r.F).sp) :
    Concl R (some x) (r1.bind f) (r.cont stop g).F (r.cont stop g).sp := by
  cases hs : stop with
  | true =>
    simp only [Em.cont, if_true]
    refine concl_bind R h1 (fun s hs => hs) ?_
    intro hn hin
    rw [hstop hs] at hin
    obtain ⟨y, hy⟩ := lastO_some x r1.tr
    rw [hy] at hin
    obtain ⟨f', hf', _⟩ := hin
    cases hf'
  | false =>
    simp only [Em.cont, Bool.false_eq_true, if_false, Em.andThen]
    refine concl_bind R h1 (fun s hs => List.mem_append.2 (Or.inl hs)) ?_
    intro hn hin
    exact concl_mono R (h2 hs hn hin) (fun f hf => hf) (fun s hs => List.mem_append.2 (Or.inr hs))

theorem hasE_cont {r : Em} {stop : Bool} {g : List Fr → Em} (h : HasE R (r.cont stop g).es) :
    HasE R r.es ∧ (stop = false → HasE R (g r.F).es) := by
  cases stop with
  | true => simp only [Em.cont, if_true] at h; exact ⟨h, by simp⟩
  | false =>
    simp only [Em.cont, Bool.false_eq_true, if_false, Em.andThen, hasE_append] at h
    exact ⟨h.1, fun _ => h.2⟩

theorem stops_live {nb : Bool} {F : List Fr} (h : stops Q.live nb F = true) : F = [] := by
  simp only [stops, Q.live, Bool.not_true, Bool.false_or, Bool.and_eq_true, List.isEmpty_iff] at h
  exact h.2

theorem sim_succ_if (n : Nat) (ih : Sim R n) (id : Nat) (thn els rest : S)
    (hin : inF0 (.ifS id thn els rest) = true)
    (F : List Fr) (a : Option Int) (o : List Bool)
    (hE : HasE R (analyze Q.live (.ifS id thn els rest) F).es) (ha : InFr a F) :
    Concl R a (exec (n + 1) .stmt false (.ifS id thn els rest) o) (analyze Q.live (.ifS id thn els rest) F).F
      (analyze Q.live (.ifS id thn els rest) F).sp := by
  simp only [inF0, Bool.and_eq_true] at hin
  obtain ⟨⟨hthn, hels⟩, hrest⟩ := hin
  simp only [exec]
  simp only [analyze] at hE ⊢
  have hT := fun o'' h => ih thn hthn [⟨id, some kIF_TRUE⟩] (some (id : Int)) o'' h ⟨⟨id, some kIF_TRUE⟩, by simp, rfl⟩
  have hF := fun o'' h => ih els hels [⟨id, some kIF_FALSE⟩] (some (id : Int)) o'' h ⟨⟨id, some kIF_FALSE⟩, by simp, rfl⟩
  generalize analyze Q.live thn [⟨id, some kIF_TRUE⟩] = rt at hE hT ⊢
  generalize analyze Q.live els [⟨id, some kIF_FALSE⟩] = re at hE hF ⊢
  obtain ⟨hr, hrest_es⟩ := hasE_cont R hE
  simp only [hasE_append] at hr
  obtain ⟨⟨hlink, hrt⟩, hre⟩ := hr
  refine concl_node R ha hlink ?_
  intro o'
  cases o' with
  | nil => exact concl_stop R _ _ _ _
  | cons b o'' =>
    simp only
    refine concl_cont R ?_ (fun h => stops_live h) ?_
    · cases b with
      | true =>
        exact concl_mono R (hT o'' hrt) (fun f hf => List.mem_append.2 (Or.inl hf))
          (fun s hs => List.mem_append.2 (Or.inl hs))
      | false =>
        exact concl_mono R (hF o'' hre) (fun f hf => List.mem_append.2 (Or.inr hf))
          (fun s hs => List.mem_append.2 (Or.inr hs))
    · intro hs _ hin
      exact ih rest hrest _ _ _ (hrest_es hs) hin

theorem sim_succ_jump (n : Nat) (id : Nat) (rest : S) (F : List Fr) (a : Option Int) (o : List Bool) :
    (HasE R (analyze Q.live (.brk id rest) F).es → InFr a F →
      Concl R a (exec (n + 1) .stmt false (.brk id rest) o) (analyze Q.live (.brk id rest) F).F
        (analyze Q.live (.brk id rest) F).sp) ∧
    (HasE R (analyze Q.live (.cont id rest) F).es → InFr a F →
      Concl R a (exec (n + 1) .stmt false (.cont id rest) o) (analyze Q.live (.cont id rest) F).F
        (analyze Q.live (.cont id rest) F).sp) ∧
    (HasE R (analyze Q.live (.ret id rest) F).es → InFr a F →
      Concl R a (exec (n + 1) .stmt false (.ret id rest) o) (analyze Q.live (.ret id rest) F).F
        (analyze Q.live (.ret id rest) F).sp) := by
  refine ⟨?_, ?_, ?_⟩
  · intro hE ha
    simp only [exec, analyze] at hE ⊢
    simp only [Concl, chainO, lastO]
    exact ⟨⟨inFr_link R ha hE, trivial⟩, ⟨⟨id, true⟩, by simp, rfl, rfl⟩⟩
  · intro hE ha
    simp only [exec, analyze] at hE ⊢
    simp only [Concl, chainO, lastO]
    exact ⟨⟨inFr_link R ha hE, trivial⟩, ⟨⟨id, false⟩, by simp, rfl, rfl⟩⟩
  · intro hE ha
    simp only [exec, analyze, hasE_append] at hE ⊢
    simp only [Concl, chainO, lastO]
    exact ⟨⟨inFr_link R ha hE.1, trivial⟩, ⟨(id : Int), rfl, hE.2 (id, -1, kRETURN) (by simp)⟩⟩
theorem exec_nil (k : Nat) (rz : Bool) (o : List Bool) :
    exec k .stmt rz .nil o = stopRes o ∨ exec k .stmt rz .nil o = ⟨[], .normal, o⟩ := by
  cases k with
  | zero => left; rfl
  | succ k => right; simp [exec]

/-- generic loop lemma for `whileS` without condition_prebody: from what the analysis guarantees
about the body, the back edges and the two ways out, every (re-)entry linked to the loop statement
satisfies the conclusion. -/
theorem while_loop (n : Nat) (id : Nat) (ct : Bool) (body els rest : S) (Fb : List Fr) (spb : List Sp)
    (Ffin : List Fr) (spfin : List Sp)
    (hbody : ∀ k, k ≤ n → ∀ o, Concl R (some (id : Int)) (exec k .stmt false body o) Fb spb)
    (hback : ∀ f ∈ Fb, R (f.id : Int) id)
    (hcont : ∀ s ∈ spb, s.isBrk = false → R (s.id : Int) id)
    (hexitB : ∀ k, k ≤ n → ∀ s ∈ spb, s.isBrk = true → ∀ o,
      Concl R (some (s.id : Int)) (exec k .stmt false rest o) Ffin spfin)
    (hexitF : ct = false → ∀ k, k ≤ n → ∀ o,
      Concl R (some (id : Int)) ((exec k .stmt false els o).bind (exec k .stmt false rest)) Ffin spfin) :
    ∀ k, k ≤ n + 1 → ∀ a o, linkO R a id →
      Concl R a (exec k .stmt false (.whileS id ct .nil body els rest) o) Ffin spfin := by
  intro k
  induction k with
  | zero => intro _ a o _; exact concl_stop R _ _ _ _
  | succ k ihk =>
    intro hk a o ha
    have hk' : k ≤ n := by omega
    simp only [exec]
    rcases exec_nil k false o with h0 | h0
    · rw [h0]; exact concl_stop R _ _ _ _
    · rw [h0, bind_pure, tick_false]
      -- after the loop statement itself
      have key : ∀ o1, Concl R (some (id : Int))
          (match choose ct o1 with
            | none => stopRes o1
            | some (true, o') =>
              afterBody (exec k Mode.stmt false body o')
                (exec k Mode.stmt false (S.whileS id ct S.nil body els rest)) (exec k Mode.stmt false rest)
            | some (false, o') => (exec k Mode.stmt false els o').bind (exec k Mode.stmt false rest))
          Ffin spfin := by
        intro o1
        cases hch : choose ct o1 with
        | none => exact concl_stop R _ _ _ _
        | some p =>
          obtain ⟨b, o'⟩ := p
          cases b with
          | false => simp only; exact hexitF (choose_false hch) k hk' o'
          | true =>
            simp only
            have hb := hbody k hk' o'
            generalize exec k Mode.stmt false body o' = rb at hb ⊢
            obtain ⟨hch1, hout⟩ := hb
            unfold afterBody
            cases hr : rb.out with
            | normal =>
              simp only [hr] at hout ⊢
              unfold Res.norm Res.bind
              simp only
              obtain ⟨y, hy⟩ := lastO_some (id : Int) rb.tr
              rw [hy] at hout
              obtain ⟨f, hf, hfy⟩ := hout
              have hl : linkO R (some y) id := by rw [← hfy]; exact hback f hf
              obtain ⟨hc2, ho2⟩ := ihk (by omega) (some y) rb.o hl
              refine ⟨(chainO_append R _ _ _).2 ⟨hch1, by rw [hy]; exact hc2⟩, ?_⟩
              simpa [lastO_append, hy] using ho2
            | cont =>
              simp only [hr] at hout ⊢
              unfold Res.norm Res.bind
              simp only
              obtain ⟨s, hs, hsb, hy⟩ := hout
              have hl : linkO R (some (s.id : Int)) id := hcont s hs hsb
              obtain ⟨hc2, ho2⟩ := ihk (by omega) (some (s.id : Int)) rb.o hl
              refine ⟨(chainO_append R _ _ _).2 ⟨hch1, by rw [hy]; exact hc2⟩, ?_⟩
              simpa [lastO_append, hy] using ho2
            | brk =>
              simp only [hr] at hout ⊢
              unfold Res.norm Res.bind
              simp only
              obtain ⟨s, hs, hsb, hy⟩ := hout
              obtain ⟨hc2, ho2⟩ := hexitB k hk' s hs hsb rb.o
              refine ⟨(chainO_append R _ _ _).2 ⟨hch1, by rw [hy]; exact hc2⟩, ?_⟩
              simpa [lastO_append, hy] using ho2
            | ret => simp only [hr] at hout ⊢; exact ⟨hch1, by simpa [hr] using hout⟩
            | raise => simp only [hr] at hout
            | stop => simp only [hr] at hout ⊢; exact ⟨hch1, by simp [hr]⟩
      refine concl_bind R (F1 := [⟨id, none⟩]) (sp1 := []) ?_ (by simp) (fun _ _ => key o)
      simp only [Concl, chainO, lastO]
      exact ⟨⟨ha, trivial⟩, ⟨⟨id, none⟩, by simp, rfl⟩⟩
theorem dealLoop_back {id : Nat} {ct : Bool} {F : List Fr} {lsp : List Sp}
    (h : HasE R (dealLoop id ct F lsp).2) :
    (∀ f ∈ F, R (f.id : Int) id) ∧ (∀ s ∈ lsp, s.isBrk = false → R (s.id : Int) id) := by
  simp only [dealLoop, hasE_append] at h
  obtain ⟨h1, h2⟩ := h
  constructor
  · intro f hf
    exact h1 (f.id, (id : Int), (Fr.wrap kLOOP_BACK f).kind.getD kEMPTY)
      (List.mem_map.2 ⟨Fr.wrap kLOOP_BACK f, List.mem_map.2 ⟨f, hf, rfl⟩, rfl⟩)
  · intro s hs hb
    refine h2 (s.id, (id : Int), kCONTINUE) (List.mem_map.2 ⟨⟨s.id, some kCONTINUE⟩, ?_, rfl⟩)
    unfold conts
    refine List.mem_map.2 ⟨s, List.mem_filter.2 ⟨List.mem_reverse.2 hs, by simp [hb]⟩, rfl⟩

theorem dealLoop_brk {id : Nat} {ct : Bool} {F : List Fr} {lsp : List Sp} :
    ∀ s ∈ lsp, s.isBrk = true → (⟨s.id, none⟩ : Fr) ∈ (dealLoop id ct F lsp).1 := by
  intro s hs hb
  have : (⟨s.id, none⟩ : Fr) ∈ plain (lsp.reverse.filter (fun s => s.isBrk)) :=
    List.mem_map.2 ⟨s, List.mem_filter.2 ⟨List.mem_reverse.2 hs, hb⟩, rfl⟩
  simp only [dealLoop]
  cases ct with
  | true => simpa using this
  | false => simp only [Bool.false_eq_true, if_false]; exact List.mem_append.2 (Or.inl this)

theorem dealLoop_false {id : Nat} {F : List Fr} {lsp : List Sp} :
    (⟨id, some kLOOP_FALSE⟩ : Fr) ∈ (dealLoop id false F lsp).1 := by
  simp [dealLoop]

theorem popLast_keep {res : List Fr} {f : Fr} (hf : f ∈ res) (hk : f.kind ≠ some kLOOP_FALSE) :
    f ∈ (popLast Q.live res).1 := by
  simp only [popLast, Q.live, if_true]
  cases hl : res.getLast? with
  | none => simpa using hf
  | some l =>
    simp only
    by_cases hc : (l.kind == some kLOOP_FALSE) = true
    · simp only [hc, if_true]
      have hne : res ≠ [] := by intro h; rw [h] at hf; cases hf
      have hlast : res.getLast hne = l := by
        have := List.getLast?_eq_some_getLast hne
        rw [hl] at this
        exact (Option.some.inj this).symm
      have hsplit := List.dropLast_concat_getLast hne
      rw [← hsplit] at hf
      rcases List.mem_append.1 hf with hf | hf
      · exact hf
      · exfalso
        simp only [List.mem_singleton] at hf
        rw [hf, hlast] at hk
        exact hk (by simpa using hc)
    · simp only [hc, Bool.false_eq_true, if_false]
      exact hf

theorem isNil_eq {s : S} (h : s.isNil = true) : s = .nil := by
  cases s <;> simp [S.isNil] at h ⊢

/-- entering the rest of a block after a compound statement whose result is `r` -/
theorem concl_enter_cont {k : Nat} (hs : Sim R k) {rest : S} (hrest : inF0 rest = true) {r : Em} {stop : Bool}
    (hstop : stop = true → r.F = []) (hE : HasE R (r.cont stop (analyze Q.live rest)).es)
    {x : Int} (hx : InFr (some x) r.F) (o : List Bool) :
    Concl R (some x) (exec k .stmt false rest o) (r.cont stop (analyze Q.live rest)).F
      (r.cont stop (analyze Q.live rest)).sp := by
  cases hst : stop with
  | true =>
    rw [hstop hst] at hx
    obtain ⟨f, hf, _⟩ := hx
    cases hf
  | false =>
    subst hst
    obtain ⟨_, h2⟩ := hasE_cont R hE
    simp only [Em.cont, Bool.false_eq_true, if_false, Em.andThen]
    exact concl_mono R (hs rest hrest r.F (some x) o (h2 rfl) hx) (fun f hf => hf)
      (fun s hs => List.mem_append.2 (Or.inr hs))
theorem live_forCont : Q.live.forCont = true := rfl
theorem live_pre : Q.live.pre = true := rfl
theorem live_popGuard : Q.live.popGuard = true := rfl
theorem live_elseSp : Q.live.elseSp = true := rfl
theorem live_emptyBnd : Q.live.emptyBnd = true := rfl
theorem nil_isNil : S.nil.isNil = true := rfl

theorem sim_succ_while (n : Nat) (ihle : ∀ m, m ≤ n → Sim R m) (id : Nat) (ct : Bool) (pre body els rest : S)
    (hin : inF0 (.whileS id ct pre body els rest) = true)
    (F : List Fr) (a : Option Int) (o : List Bool)
    (hE : HasE R (analyze Q.live (.whileS id ct pre body els rest) F).es) (ha : InFr a F) :
    Concl R a (exec (n + 1) .stmt false (.whileS id ct pre body els rest) o)
      (analyze Q.live (.whileS id ct pre body els rest) F).F
      (analyze Q.live (.whileS id ct pre body els rest) F).sp := by
  simp only [inF0, Bool.and_eq_true] at hin
  obtain ⟨⟨⟨hpre, hbody⟩, hels⟩, hrest⟩ := hin
  have := isNil_eq hpre
  subst this
  have hB := fun k (hk : k ≤ n) o' h =>
    ihle k hk body hbody [⟨id, some kLOOP_TRUE⟩] (some (id : Int)) o' h ⟨⟨id, some kLOOP_TRUE⟩, by simp, rfl⟩
  have hEl := fun k (hk : k ≤ n) o' h =>
    ihle k hk els hels [⟨id, some kLOOP_TRUE⟩] (some (id : Int)) o' h ⟨⟨id, some kLOOP_TRUE⟩, by simp, rfl⟩
  simp only [analyze, withPre, nil_isNil, live_pre, live_elseSp, Bool.not_true, Bool.and_false,
    Bool.false_eq_true, if_false, if_true, List.nil_append, Bool.or_true, Bool.and_true] at hE ⊢
  generalize analyze Q.live body [⟨id, some kLOOP_TRUE⟩] = rb at hE hB ⊢
  generalize analyze Q.live els [⟨id, some kLOOP_TRUE⟩] = re at hE hEl ⊢
  have hlink : ∀ x, InFr x F → HasE R (link F id) → linkO R x id := fun x hx h => inFr_link R hx h
  cases hen : els.isNil with
  | true =>
    have := isNil_eq hen
    subst this
    simp only [nil_isNil, if_true] at hE ⊢
    obtain ⟨hr, _⟩ := hasE_cont R hE
    simp only [hasE_append] at hr
    obtain ⟨⟨hl, hrb⟩, hd⟩ := hr
    obtain ⟨hback, hcont⟩ := dealLoop_back R hd
    refine while_loop R n id ct body .nil rest rb.F rb.sp _ _ (fun k hk o' => hB k hk o' hrb) hback hcont ?_ ?_
      (n + 1) (Nat.le_refl _) a o (hlink a ha hl)
    · intro k hk s hs hsb o'
      exact concl_enter_cont R (ihle k hk) hrest (fun h => stops_live h) hE
        ⟨⟨s.id, none⟩, dealLoop_brk (id := id) (ct := ct) (F := rb.F) s hs hsb, rfl⟩ o'
    · intro hct k hk o'
      subst hct
      rcases exec_nil k false o' with h0 | h0
      · rw [h0]; exact concl_stop R _ _ _ _
      · rw [h0, bind_pure]
        exact concl_enter_cont R (ihle k hk) hrest (fun h => stops_live h) hE
          ⟨⟨id, some kLOOP_FALSE⟩, dealLoop_false (F := rb.F) (lsp := rb.sp), rfl⟩ o'
  | false =>
    simp only [hen, Bool.false_eq_true, if_false] at hE ⊢
    have hcont_eq : ∀ (r : Em) (g : List Fr → Em), r.andThen g = r.cont false g := by
      intro r g; simp [Em.cont]
    rw [hcont_eq] at hE ⊢
    obtain ⟨hr, _⟩ := hasE_cont R hE
    simp only [hasE_append] at hr
    obtain ⟨⟨⟨hl, hrb⟩, hd⟩, hre⟩ := hr
    obtain ⟨hback, hcont⟩ := dealLoop_back R hd
    refine while_loop R n id ct body els rest rb.F rb.sp _ _ (fun k hk o' => hB k hk o' hrb) hback hcont ?_ ?_
      (n + 1) (Nat.le_refl _) a o (hlink a ha hl)
    · intro k hk s hs hsb o'
      refine concl_enter_cont R (ihle k hk) hrest (by simp) hE ⟨⟨s.id, none⟩, ?_, rfl⟩ o'
      exact List.mem_append.2 (Or.inl (popLast_keep
        (dealLoop_brk (id := id) (ct := ct) (F := rb.F) s hs hsb) (by simp)))
    · intro hct k hk o'
      refine concl_bind R (F1 := re.F) (sp1 := re.sp) (hEl k hk o' hre) ?_ ?_
      · intro s hs
        simp only [Em.cont, Bool.false_eq_true, if_false, Em.andThen]
        exact List.mem_append.2 (Or.inl hs)
      · intro _ hin
        obtain ⟨y, hy⟩ := lastO_some (id : Int) (exec k Mode.stmt false els o').tr
        rw [hy] at hin ⊢
        exact concl_enter_cont R (ihle k hk) hrest (by simp) hE
          (inFr_mono hin (fun f hf => List.mem_append.2 (Or.inr hf))) _
theorem inFr_linkAll {a : Option Int} {F : List Fr} {id : Nat} (ha : InFr a F) (h : ∀ f ∈ F, R (f.id : Int) id) :
    linkO R a id := by
  cases a with
  | none => trivial
  | some x => obtain ⟨f, hf, rfl⟩ := ha; exact h f hf

/-- generic loop lemma for `doS` without condition_prebody; `Fin` is the frontier the body is
analysed from (`parent_stmts + [CFGNode(dowhile, LOOP_TRUE)]`) -/
theorem do_loop (n : Nat) (id : Nat) (ct : Bool) (body rest : S) (Fin Fb : List Fr) (spb : List Sp)
    (Ffin : List Fr) (spfin : List Sp)
    (hbody : ∀ k, k ≤ n → ∀ a o, InFr a Fin → Concl R a (exec k .stmt false body o) Fb spb)
    (hid : InFr (some (id : Int)) Fin)
    (hback : ∀ f ∈ Fb, R (f.id : Int) id)
    (hcont : ∀ s ∈ spb, s.isBrk = false → R (s.id : Int) id)
    (hexitB : ∀ k, k ≤ n → ∀ s ∈ spb, s.isBrk = true → ∀ o,
      Concl R (some (s.id : Int)) (exec k .stmt false rest o) Ffin spfin)
    (hexitF : ct = false → ∀ k, k ≤ n → ∀ o,
      Concl R (some (id : Int)) (exec k .stmt false rest o) Ffin spfin) :
    ∀ k, k ≤ n + 1 → ∀ a o, InFr a Fin →
      Concl R a (exec k .stmt false (.doS id ct body .nil rest) o) Ffin spfin := by
  intro k
  induction k with
  | zero => intro _ a o _; exact concl_stop R _ _ _ _
  | succ k ihk =>
    intro hk a o ha
    have hk' : k ≤ n := by omega
    simp only [exec]
    -- the test at the end of an iteration, entered from a' linked to the dowhile statement
    have again : ∀ a' o1, linkO R a' id → Concl R a'
        ((exec k Mode.stmt false S.nil o1).bind fun o => (tick false id o).bind fun o =>
          match choose ct o with
          | none => stopRes o
          | some (true, o') => exec k Mode.stmt false (S.doS id ct body S.nil rest) o'
          | some (false, o') => exec k Mode.stmt false rest o') Ffin spfin := by
      intro a' o1 hl
      rcases exec_nil k false o1 with h0 | h0
      · rw [h0]; exact concl_stop R _ _ _ _
      · rw [h0, bind_pure, tick_false]
        refine concl_bind R (F1 := [⟨id, none⟩]) (sp1 := []) ?_ (by simp) ?_
        · simp only [Concl, chainO, lastO]
          exact ⟨⟨hl, trivial⟩, ⟨⟨id, none⟩, by simp, rfl⟩⟩
        · intro _ _
          simp only [lastO]
          cases hch : choose ct o1 with
          | none => exact concl_stop R _ _ _ _
          | some p =>
            obtain ⟨b, o'⟩ := p
            cases b with
            | true => exact ihk (by omega) _ _ hid
            | false => exact hexitF (choose_false hch) k hk' o'
    have hb := hbody k hk' a o ha
    generalize exec k Mode.stmt false body o = rb at hb ⊢
    obtain ⟨hch1, hout⟩ := hb
    unfold afterBody
    cases hr : rb.out with
    | normal =>
      simp only [hr] at hout ⊢
      have hl : linkO R (lastO a rb.tr) id := inFr_linkAll R hout hback
      obtain ⟨hc2, ho2⟩ := again (lastO a rb.tr) rb.o hl
      unfold Res.norm
      refine concl_bind R (F1 := Fb) (sp1 := []) ⟨hch1, by simpa using hout⟩ (by simp) ?_
      intro _ _
      exact ⟨hc2, ho2⟩
    | cont =>
      simp only [hr] at hout ⊢
      obtain ⟨s, hs, hsb, hy⟩ := hout
      have hl : linkO R (lastO a rb.tr) id := by rw [hy]; exact hcont s hs hsb
      obtain ⟨hc2, ho2⟩ := again (lastO a rb.tr) rb.o hl
      unfold Res.norm
      refine concl_bind R (F1 := [⟨s.id, none⟩]) (sp1 := []) ⟨hch1, ?_⟩ (by simp) ?_
      · simp only [hy]; exact ⟨⟨s.id, none⟩, by simp, rfl⟩
      · intro _ _
        exact ⟨hc2, ho2⟩
    | brk =>
      simp only [hr] at hout ⊢
      obtain ⟨s, hs, hsb, hy⟩ := hout
      unfold Res.norm
      refine concl_bind R (F1 := [⟨s.id, none⟩]) (sp1 := []) ⟨hch1, ?_⟩ (by simp) ?_
      · simp only [hy]; exact ⟨⟨s.id, none⟩, by simp, rfl⟩
      · intro _ _
        simp only [hy]
        exact hexitB k hk' s hs hsb rb.o
    | ret => simp only [hr] at hout ⊢; exact ⟨hch1, by simpa [hr] using hout⟩
    | raise => simp only [hr] at hout
    | stop => simp only [hr] at hout ⊢; exact ⟨hch1, by simp [hr]⟩
theorem sim_succ_do (n : Nat) (ihle : ∀ m, m ≤ n → Sim R m) (id : Nat) (ct : Bool) (body pre rest : S)
    (hin : inF0 (.doS id ct body pre rest) = true)
    (F : List Fr) (a : Option Int) (o : List Bool)
    (hE : HasE R (analyze Q.live (.doS id ct body pre rest) F).es) (ha : InFr a F) :
    Concl R a (exec (n + 1) .stmt false (.doS id ct body pre rest) o)
      (analyze Q.live (.doS id ct body pre rest) F).F
      (analyze Q.live (.doS id ct body pre rest) F).sp := by
  simp only [inF0, Bool.and_eq_true] at hin
  obtain ⟨⟨hpre, hbody⟩, hrest⟩ := hin
  have := isNil_eq hpre
  subst this
  have hB := fun k (hk : k ≤ n) a' o' h hin' =>
    ihle k hk body hbody (F ++ [⟨id, some kLOOP_TRUE⟩]) a' o' h hin'
  simp only [analyze, withPre, nil_isNil, live_pre, Bool.not_true, Bool.and_false,
    Bool.false_eq_true, if_false] at hE ⊢
  generalize analyze Q.live body (F ++ [⟨id, some kLOOP_TRUE⟩]) = rb at hE hB ⊢
  obtain ⟨hr, _⟩ := hasE_cont R hE
  simp only [hasE_append] at hr
  obtain ⟨hrb, hd⟩ := hr
  obtain ⟨hback, hcont⟩ := dealLoop_back R hd
  refine do_loop R n id ct body rest (F ++ [⟨id, some kLOOP_TRUE⟩]) rb.F rb.sp _ _
    (fun k hk a' o' hin' => hB k hk a' o' hrb hin') ⟨⟨id, some kLOOP_TRUE⟩, by simp, rfl⟩ hback hcont ?_ ?_
    (n + 1) (Nat.le_refl _) a o (inFr_mono ha (fun f hf => List.mem_append.2 (Or.inl hf)))
  · intro k hk s hs hsb o'
    exact concl_enter_cont R (ihle k hk) hrest (fun h => stops_live h) hE
      ⟨⟨s.id, none⟩, dealLoop_brk (id := id) (ct := ct) (F := rb.F) s hs hsb, rfl⟩ o'
  · intro hct k hk o'
    subst hct
    exact concl_enter_cont R (ihle k hk) hrest (fun h => stops_live h) hE
      ⟨⟨id, some kLOOP_FALSE⟩, dealLoop_false (F := rb.F) (lsp := rb.sp), rfl⟩ o'
theorem straight_inF0 {s : S} (h : straight s = true) : inF0 s = true := by
  induction s with
  | nil => rfl
  | simple id rest ih => simp only [straight] at h; simpa [inF0] using ih h
  | decl id rest ih => simp only [straight] at h; simpa [inF0] using ih h
  | _ => simp [straight] at h

theorem analyze_straight_sp {q : Q} {s : S} (h : straight s = true) : ∀ F, (analyze q s F).sp = [] := by
  induction s with
  | nil => intro F; simp [analyze]
  | simple id rest ih => intro F; simp only [straight] at h; simp [analyze, Em.andThen, ih h]
  | decl id rest ih => intro F; simp only [straight] at h; simp [analyze, Em.andThen, ih h]
  | _ => simp [straight] at h

theorem mem_conts {sp : List Sp} {s : Sp} (hs : s ∈ sp) (hb : s.isBrk = false) :
    (⟨s.id, some kCONTINUE⟩ : Fr) ∈ conts sp := by
  unfold conts
  exact List.mem_map.2 ⟨s, List.mem_filter.2 ⟨hs, by simp [hb]⟩, rfl⟩

/-- generic loop lemma for `forS`, stated for the re-entry form (init = nil).  `F1` = frontier the
first evaluation of condition_prebody is analysed from, `Fu`/`Fq` = results of the re-evaluation
(they only exist when something falls out of the body). -/
theorem for_loop (n : Nat) (id : Nat) (ct : Bool) (pre upd body rest : S)
    (F1 Fp Fb : List Fr) (spb : List Sp) (Fu Fq : List Fr) (Ffin : List Fr) (spfin : List Sp)
    (hpre1 : ∀ k, k ≤ n → ∀ a o, InFr a F1 → Concl R a (exec k .stmt false pre o) Fp [])
    (hbody : ∀ k, k ≤ n → ∀ o, Concl R (some (id : Int)) (exec k .stmt false body o) Fb spb)
    (hupd : Fb ++ conts spb ≠ [] → ∀ k, k ≤ n → ∀ a o, InFr a (Fb ++ conts spb) →
      Concl R a (exec k .stmt false upd o) Fu [])
    (hpre2 : Fb ++ conts spb ≠ [] → ∀ k, k ≤ n → ∀ a o, InFr a Fu →
      Concl R a (exec k .stmt false pre o) Fq [])
    (hhead1 : ∀ f ∈ Fp, R (f.id : Int) id)
    (hhead2 : Fb ++ conts spb ≠ [] → ∀ f ∈ Fq, R (f.id : Int) id)
    (hexitB : ∀ k, k ≤ n → ∀ s ∈ spb, s.isBrk = true → ∀ o,
      Concl R (some (s.id : Int)) (exec k .stmt false rest o) Ffin spfin)
    (hexitF : ct = false → ∀ k, k ≤ n → ∀ o,
      Concl R (some (id : Int)) (exec k .stmt false rest o) Ffin spfin) :
    ∀ k, k ≤ n + 1 → ∀ a o, (InFr a F1 ∨ (Fb ++ conts spb ≠ [] ∧ InFr a Fu)) →
      Concl R a (exec k .stmt false (.forS id ct .nil pre upd body rest) o) Ffin spfin := by
  intro k
  induction k with
  | zero => intro _ a o _; exact concl_stop R _ _ _ _
  | succ k ihk =>
    intro hk a o ha
    have hk' : k ≤ n := by omega
    simp only [exec]
    rcases exec_nil k false o with h0 | h0
    · rw [h0]; exact concl_stop R _ _ _ _
    · rw [h0, bind_pure]
      -- condition_prebody, entered from the init block or from update_body
      obtain ⟨G, hP, hG⟩ : ∃ G, Concl R a (exec k Mode.stmt false pre o) G [] ∧ ∀ f ∈ G, R (f.id : Int) id := by
        rcases ha with ha | ⟨hne, ha⟩
        · exact ⟨Fp, hpre1 k hk' a o ha, hhead1⟩
        · exact ⟨Fq, hpre2 hne k hk' a o ha, hhead2 hne⟩
      refine concl_bind R hP (by simp) ?_
      intro _ hin
      rw [tick_false]
      refine concl_bind R (F1 := [⟨id, none⟩]) (sp1 := []) ?_ (by simp) ?_
      · simp only [Concl, chainO, lastO]
        exact ⟨⟨inFr_linkAll R hin hG, trivial⟩, ⟨⟨id, none⟩, by simp, rfl⟩⟩
      · intro _ _
        simp only [lastO]
        generalize (exec k Mode.stmt false pre o).o = o1
        cases hch : choose ct o1 with
        | none => exact concl_stop R _ _ _ _
        | some p =>
          obtain ⟨b, o'⟩ := p
          cases b with
          | false => simp only; exact hexitF (choose_false hch) k hk' o'
          | true =>
            simp only
            -- update_body then the loop again, entered from something that fell out of the body
            have again : ∀ x o2, InFr (some x) (Fb ++ conts spb) → Concl R (some x)
                ((exec k Mode.stmt false upd o2).bind
                  (exec k Mode.stmt false (S.forS id ct S.nil pre upd body rest))) Ffin spfin := by
              intro x o2 hx
              have hne : Fb ++ conts spb ≠ [] := by
                obtain ⟨f, hf, _⟩ := hx
                intro h; rw [h] at hf; cases hf
              refine concl_bind R (hupd hne k hk' (some x) o2 hx) (by simp) ?_
              intro _ hin2
              exact ihk (by omega) _ _ (Or.inr ⟨hne, hin2⟩)
            have hb := hbody k hk' o'
            generalize exec k Mode.stmt false body o' = rb at hb ⊢
            obtain ⟨hch1, hout⟩ := hb
            unfold afterBody
            cases hr : rb.out with
            | normal =>
              simp only [hr] at hout ⊢
              obtain ⟨y, hy⟩ := lastO_some (id : Int) rb.tr
              unfold Res.norm
              refine concl_bind R (F1 := Fb) (sp1 := []) ⟨hch1, by simpa using hout⟩ (by simp) ?_
              intro _ _
              simp only [hy] at hout ⊢
              exact again y rb.o (inFr_mono hout (fun f hf => List.mem_append.2 (Or.inl hf)))
            | cont =>
              simp only [hr] at hout ⊢
              obtain ⟨s, hs, hsb, hy⟩ := hout
              unfold Res.norm
              refine concl_bind R (F1 := [⟨s.id, none⟩]) (sp1 := []) ⟨hch1, ?_⟩ (by simp) ?_
              · simp only [hy]; exact ⟨⟨s.id, none⟩, by simp, rfl⟩
              · intro _ _
                simp only [hy]
                exact again _ rb.o ⟨⟨s.id, some kCONTINUE⟩, List.mem_append.2 (Or.inr (mem_conts hs hsb)), rfl⟩
            | brk =>
              simp only [hr] at hout ⊢
              obtain ⟨s, hs, hsb, hy⟩ := hout
              unfold Res.norm
              refine concl_bind R (F1 := [⟨s.id, none⟩]) (sp1 := []) ⟨hch1, ?_⟩ (by simp) ?_
              · simp only [hy]; exact ⟨⟨s.id, none⟩, by simp, rfl⟩
              · intro _ _
                simp only [hy]
                exact hexitB k hk' s hs hsb rb.o
            | ret => simp only [hr] at hout ⊢; exact ⟨hch1, by simpa [hr] using hout⟩
            | raise => simp only [hr] at hout
            | stop => simp only [hr] at hout ⊢; exact ⟨hch1, by simp [hr]⟩
theorem forTail_sp {Fb : List Fr} {lsp : List Sp} {ru rq : Em} : ∀ s ∈ lsp, s ∈ (forTail Fb lsp ru rq).sp := by
  intro s hs
  unfold forTail
  cases Fb.isEmpty with
  | true => simpa using hs
  | false =>
    simp only [Bool.false_eq_true, if_false]
    exact List.mem_append.2 (Or.inl (List.mem_append.2 (Or.inl hs)))

theorem forTail_ne {Fb : List Fr} {lsp : List Sp} {ru rq : Em} (h : Fb ≠ []) :
    (forTail Fb lsp ru rq).F = rq.F ∧ (forTail Fb lsp ru rq).es = ru.es ++ rq.es := by
  unfold forTail
  cases Fb with
  | nil => exact absurd rfl h
  | cons _ _ => simp

theorem sim_succ_for (n : Nat) (ihle : ∀ m, m ≤ n → Sim R m) (id : Nat) (ct : Bool) (init pre upd body rest : S)
    (hin : inF0 (.forS id ct init pre upd body rest) = true)
    (F : List Fr) (a : Option Int) (o : List Bool)
    (hE : HasE R (analyze Q.live (.forS id ct init pre upd body rest) F).es) (ha : InFr a F) :
    Concl R a (exec (n + 1) .stmt false (.forS id ct init pre upd body rest) o)
      (analyze Q.live (.forS id ct init pre upd body rest) F).F
      (analyze Q.live (.forS id ct init pre upd body rest) F).sp := by
  simp only [inF0, Bool.and_eq_true] at hin
  obtain ⟨⟨⟨⟨hinit, hpre⟩, hupd⟩, hbody⟩, hrest⟩ := hin
  have hpre0 := straight_inF0 hpre
  have hupd0 := straight_inF0 hupd
  generalize hres : analyze Q.live (.forS id ct init pre upd body rest) F = res at hE ⊢
  simp only [analyze, live_forCont, if_true] at hres
  have hI := fun o' h => ihle n (Nat.le_refl n) init hinit F a o' h ha
  generalize analyze Q.live init F = r1 at hres hI
  have hP1 := fun k (hk : k ≤ n) a' o' h hin' => ihle k hk pre hpre0 r1.F a' o' h hin'
  have hsp1 : (analyze Q.live pre r1.F).sp = [] := analyze_straight_sp hpre _
  generalize analyze Q.live pre r1.F = rp at hres hP1 hsp1
  have hB := fun k (hk : k ≤ n) o' h =>
    ihle k hk body hbody [⟨id, some kLOOP_TRUE⟩] (some (id : Int)) o' h ⟨⟨id, some kLOOP_TRUE⟩, by simp, rfl⟩
  generalize analyze Q.live body [⟨id, some kLOOP_TRUE⟩] = rb at hres hB
  have hU := fun k (hk : k ≤ n) a' o' h hin' => ihle k hk upd hupd0 (rb.F ++ conts rb.sp) a' o' h hin'
  have hspu : (analyze Q.live upd (rb.F ++ conts rb.sp)).sp = [] := analyze_straight_sp hupd _
  generalize analyze Q.live upd (rb.F ++ conts rb.sp) = ru at hres hU hspu
  have hP2 := fun k (hk : k ≤ n) a' o' h hin' => ihle k hk pre hpre0 ru.F a' o' h hin'
  have hsp2 : (analyze Q.live pre ru.F).sp = [] := analyze_straight_sp hpre _
  generalize analyze Q.live pre ru.F = rq at hres hP2 hsp2
  rw [hsp1] at hP1
  rw [hspu] at hU
  rw [hsp2] at hP2
  have hE' := hE
  rw [← hres] at hE'
  obtain ⟨hr, _⟩ := hasE_cont R hE'
  simp only [hasE_append] at hr
  obtain ⟨⟨⟨⟨he1, hep⟩, heb⟩, he2⟩, hd⟩ := hr
  obtain ⟨hback, _⟩ := dealLoop_back R hd
  have hspres : ∀ s ∈ r1.sp, s ∈ res.sp := by
    intro s hs
    rw [← hres]
    generalize stops Q.live _ _ = st
    cases st with
    | true => simp only [Em.cont, if_true]; exact List.mem_append.2 (Or.inl hs)
    | false =>
      simp only [Em.cont, Bool.false_eq_true, if_false, Em.andThen]
      exact List.mem_append.2 (Or.inl (List.mem_append.2 (Or.inl hs)))
  -- the loop, entered after init
  have hloop : ∀ a' o', InFr a' r1.F →
      Concl R a' (exec (n + 1) .stmt false (.forS id ct .nil pre upd body rest) o') res.F res.sp := by
    intro a' o' ha'
    refine for_loop R n id ct pre upd body rest r1.F rp.F rb.F rb.sp ru.F rq.F _ _
      (fun k hk a2 o2 hin' => hP1 k hk a2 o2 hep hin') (fun k hk o2 => hB k hk o2 heb) ?_ ?_ ?_ ?_ ?_ ?_
      (n + 1) (Nat.le_refl _) a' o' (Or.inl ha')
    · intro hne k hk a2 o2 hin'
      rw [(forTail_ne hne).2, hasE_append] at he2
      exact hU k hk a2 o2 he2.1 hin'
    · intro hne k hk a2 o2 hin'
      rw [(forTail_ne hne).2, hasE_append] at he2
      exact hP2 k hk a2 o2 he2.2 hin'
    · intro f hf
      exact hback f (List.mem_append.2 (Or.inr hf))
    · intro hne f hf
      rw [(forTail_ne hne).1] at hback
      exact hback f (List.mem_append.2 (Or.inl hf))
    · intro k hk s hs hsb o2
      rw [← hres]
      refine concl_enter_cont R (ihle k hk) hrest (fun h => stops_live h) hE' ⟨⟨s.id, none⟩, ?_, rfl⟩ o2
      exact dealLoop_brk (id := id) (ct := ct)
        (F := (forTail (rb.F ++ conts rb.sp) (nonConts rb.sp) ru rq).F ++ rp.F) s
        (forTail_sp s (List.mem_filter.2 ⟨hs, hsb⟩)) hsb
    · intro hct k hk o2
      subst hct
      rw [← hres]
      exact concl_enter_cont R (ihle k hk) hrest (fun h => stops_live h) hE'
        ⟨⟨id, some kLOOP_FALSE⟩, dealLoop_false
          (F := (forTail (rb.F ++ conts rb.sp) (nonConts rb.sp) ru rq).F ++ rp.F), rfl⟩ o2
  -- the first iteration: init, then the loop
  simp only [exec]
  refine concl_bind R (hI o he1) hspres ?_
  intro _ hin1
  cases n with
  | zero => simp only [exec, stopRes, Res.bind]; simp [Concl, chainO]
  | succ m =>
    have h := hloop _ (exec (m + 1) Mode.stmt false init o).o hin1
    simp only [exec] at h
    rw [bind_pure] at h
    exact h

/-- **simulation**: at every fuel, a run of an F₀ block entered from the analysed frontier is a
chain of emitted edges and ends in the computed frontier / pending specials -/
theorem sim_all : ∀ n, ∀ m, m ≤ n → Sim R m := by
  intro n
  induction n with
  | zero =>
    intro m hm
    have : m = 0 := by omega
    subst this
    intro s _ F a o _ _
    exact concl_stop R _ _ _ _
  | succ n ih =>
    intro m hm
    by_cases hmn : m ≤ n
    · exact ih m hmn
    · have : m = n + 1 := by omega
      subst this
      intro s hin F a o hE ha
      cases s with
      | nil =>
        simp only [exec, analyze, Concl, chainO, lastO]
        exact ⟨trivial, ha⟩
      | simple id rest =>
        exact sim_succ_simple R n (ih n (Nat.le_refl n)) id rest (by simpa [inF0] using hin) F a o hE ha
      | decl id rest =>
        have hin' : inF0 rest = true := by simpa [inF0] using hin
        simp only [exec]
        simp only [analyze, Em.andThen, hasE_append, List.nil_append] at hE ⊢
        exact concl_node R ha hE.1
          (fun o' => ih n (Nat.le_refl n) rest hin' _ _ o' hE.2 ⟨⟨id, none⟩, by simp, rfl⟩)
      | ifS id thn els rest => exact sim_succ_if R n (ih n (Nat.le_refl n)) id thn els rest hin F a o hE ha
      | whileS id ct pre body els rest => exact sim_succ_while R n ih id ct pre body els rest hin F a o hE ha
      | doS id ct body pre rest => exact sim_succ_do R n ih id ct body pre rest hin F a o hE ha
      | forS id ct init pre upd body rest =>
        exact sim_succ_for R n ih id ct init pre upd body rest hin F a o hE ha
      | brk id rest => exact (sim_succ_jump R n id rest F a o).1 hE ha
      | cont id rest => exact (sim_succ_jump R n id rest F a o).2.1 hE ha
      | ret id rest => exact (sim_succ_jump R n id rest F a o).2.2 hE ha
      | classS _ _ _ _ _ _ _ => simp [inF0] at hin
      | tryS _ _ _ _ _ _ => simp [inF0] at hin
      | clause _ _ _ => simp [inF0] at hin
      | switchS _ _ _ _ => simp [inF0] at hin
      | caseS _ _ _ _ => simp [inF0] at hin
end

/-! ### the graph built from the emissions contains every emitted pair (up to self loops) -/

theorem hasEdge_pairs {g : List Edge} {a : Nat} {b : Int} (h : hasEdge g a b = true) :
    ((a : Int), b) ∈ edgePairs g := by
  unfold hasEdge at h
  rw [List.any_eq_true] at h
  obtain ⟨e, he, hab⟩ := h
  simp only [Bool.and_eq_true, beq_iff_eq] at hab
  unfold edgePairs
  exact List.mem_map.2 ⟨e, he, by rw [hab.1, hab.2]⟩

theorem addEdge_mono {g : List Edge} {e : Edge} {p : Int × Int} (h : p ∈ edgePairs g) :
    p ∈ edgePairs (addEdge g e) := by
  unfold addEdge
  split
  · exact h
  · split
    · exact h
    · split
      · exact h
      · unfold edgePairs at h ⊢
        rw [List.map_append]
        exact List.mem_append.2 (Or.inl h)

theorem addEdge_has (g : List Edge) (e : Edge) : hasE (edgePairs (addEdge g e)) (e.1 : Int) e.2.1 = true := by
  unfold hasE addEdge
  by_cases h1 : ((e.1 : Int) == e.2.1) = true
  · simp [h1]
  · have hneg : ¬ ((e.1 : Int) < 0) := by omega
    simp only [h1, hneg, Bool.false_eq_true, if_false, Bool.false_or, List.contains_iff_mem]
    split
    · rename_i h3; exact hasEdge_pairs h3
    · unfold edgePairs
      rw [List.map_append]
      exact List.mem_append.2 (Or.inr (by simp))

theorem foldl_addEdge_mono (es : List Edge) : ∀ (g : List Edge) (p : Int × Int), p ∈ edgePairs g →
    p ∈ edgePairs (es.foldl addEdge g) := by
  induction es with
  | nil => intro g p h; exact h
  | cons e es ih => intro g p h; exact ih _ p (addEdge_mono h)

theorem foldl_addEdge_has (es : List Edge) : ∀ (g : List Edge), ∀ e ∈ es,
    hasE (edgePairs (es.foldl addEdge g)) (e.1 : Int) e.2.1 = true := by
  induction es with
  | nil => intro g e he; cases he
  | cons e0 es ih =>
    intro g e he
    rcases List.mem_cons.1 he with rfl | he
    · have h0 := addEdge_has g e
      unfold hasE at h0 ⊢
      rcases Bool.or_eq_true_iff.1 h0 with h | h
      · simp [h]
      · refine Bool.or_eq_true_iff.2 (Or.inr ?_)
        rw [List.contains_iff_mem] at h ⊢
        exact foldl_addEdge_mono es _ _ h
    · exact ih _ e he

/-- every `add_edge` call is an edge of the built graph, or a self loop -/
theorem build_has (es : List Edge) : ∀ e ∈ es, hasE (edgePairs (build es)) (e.1 : Int) e.2.1 = true :=
  foldl_addEdge_has es []

end LianVerif.Cfg
