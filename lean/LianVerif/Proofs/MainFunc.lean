/-
`add_main_func` (model `MainFunc.addMainFunc`) preserves the nesting grammar, establishes the
`top_decl` clause and uses exactly two fresh ids.
-/
import LianVerif.Model.MainFunc
import LianVerif.Proofs.Flatten

namespace LianVerif.Gir
open LianVerif.MainFunc

/-! ### the grammar without side condition, as its own inductive (no `M`, `inM` indices) -/

inductive Shape : Nat → Option Row → Rows → Prop
  | nil {p last} : Shape p last []
  | stmt {p last r rest} :
      r.isMarker = false → r.parent = p → Shape p (some r) rest → Shape p last (r :: rest)
  | block {p o s e inner rest} :
      s.isStart = true → e.isEnd = true → e.id = s.id → s.parent = o.id → e.parent = o.id →
      o.hasIntAttr s.id = true → Shape s.id none inner → Shape p (some o) rest →
      Shape p (some o) (s :: (inner ++ e :: rest))

theorem shape_of_lvl {M : Row → Nat → Bool} {p : Nat} {inM : Bool} {last : Option Row} {rows : Rows}
    (h : Lvl M NoCond p inM last rows) : Shape p last rows := by
  induction h with
  | nil => exact Shape.nil
  | stmt hm hp _ _ ih => exact Shape.stmt hm hp ih
  | block hs he hid hsp hep ha _ _ ih1 ih2 => exact Shape.block hs he hid hsp hep ha ih1 ih2

theorem lvl_of_shape {p : Nat} {last : Option Row} {rows : Rows} (h : Shape p last rows) :
    ∀ (M : Row → Nat → Bool) (inM : Bool), Lvl M NoCond p inM last rows := by
  induction h with
  | nil => intro M inM; exact Lvl.nil
  | stmt hm hp _ ih => intro M inM; exact Lvl.stmt hm hp trivial (ih M inM)
  | block hs he hid hsp hep ha _ _ ih1 ih2 =>
    intro M inM; exact Lvl.block hs he hid hsp hep ha (ih1 M _) (ih2 M inM)

/-- a level that starts with a statement (or is empty) does not care about the pending owner -/
theorem Shape.append {p : Nat} {last : Option Row} {A : Rows} (h : Shape p last A) :
    ∀ B, (∀ l, Shape p l B) → Shape p last (A ++ B) := by
  induction h with
  | nil => intro B hB; exact hB _
  | stmt hm hp _ ih => intro B hB; exact Shape.stmt hm hp (ih B hB)
  | @block p o s e inner rest hs he hid hsp hep ha h1 _ _ ih2 =>
    intro B hB
    have : (s :: (inner ++ e :: rest)) ++ B = s :: (inner ++ e :: (rest ++ B)) := by simp
    rw [this]
    exact Shape.block hs he hid hsp hep ha h1 (ih2 B hB)

/-- below the top level no row has parent 0 (ids are positive) -/
theorem Shape.nz {p : Nat} {last : Option Row} {rows : Rows} (h : Shape p last rows) :
    p ≠ 0 → (∀ o, last = some o → o.id ≠ 0) → (∀ r ∈ rows, r.id ≠ 0) → ∀ r ∈ rows, r.parent ≠ 0 := by
  induction h with
  | nil => intro _ _ _ r hr; simp at hr
  | @stmt p last r rest hm hp _ ih =>
    intro hp0 _ hpos x hx
    rcases List.mem_cons.1 hx with rfl | hx
    · rw [hp]; exact hp0
    · exact ih hp0 (fun o ho => by cases ho; exact hpos _ List.mem_cons_self)
        (fun y hy => hpos y (List.mem_cons_of_mem _ hy)) x hx
  | @block p o s e inner rest hs he hid hsp hep ha _ _ ih1 ih2 =>
    intro hp0 hlast hpos x hx
    have ho : o.id ≠ 0 := hlast o rfl
    simp only [List.mem_cons, List.mem_append] at hx
    rcases hx with rfl | hx | rfl | hx
    · rw [hsp]; exact ho
    · exact ih1 (hpos s List.mem_cons_self) (fun _ h => by cases h)
        (fun y hy => hpos y (by simp [hy])) x hx
    · rw [hep]; exact ho
    · exact ih2 hp0 hlast (fun y hy => hpos y (by simp [hy])) x hx

/-! ### `split` and `reparent` on rows that are not at the top level -/

theorem reparent_nz {b : Nat} {r : Row} (h : r.parent ≠ 0) : reparent b r = r := by
  simp [reparent, h]

theorem map_reparent_nz {b : Nat} {rows : Rows} (h : ∀ r ∈ rows, r.parent ≠ 0) :
    rows.map (reparent b) = rows := by
  induction rows with
  | nil => rfl
  | cons r rest ih =>
    rw [List.map_cons, reparent_nz (h r List.mem_cons_self), ih (fun x hx => h x (List.mem_cons_of_mem _ hx))]

theorem split_nz (P : Params) (ys : Rows) : ∀ (xs : Rows) (moving : Bool), (∀ r ∈ xs, r.parent ≠ 0) →
    split P moving (xs ++ ys) =
      if moving then ((split P true ys).1, xs ++ (split P true ys).2)
      else (xs ++ (split P false ys).1, (split P false ys).2) := by
  intro xs
  induction xs with
  | nil => intro moving _; cases moving <;> simp
  | cons r rest ih =>
    intro moving h
    have hr : (r.parent == 0) = false := by
      rw [beq_eq_false_iff_ne]; exact h r List.mem_cons_self
    have ih' := ih moving (fun x hx => h x (List.mem_cons_of_mem _ hx))
    cases moving with
    | true =>
      simp only [List.cons_append, split, hr, Bool.false_eq_true, if_false, if_true]
      have ih'' := ih true (fun x hx => h x (List.mem_cons_of_mem _ hx))
      simp only [if_true] at ih''
      rw [ih'']
    | false =>
      simp only [List.cons_append, split, hr, Bool.false_eq_true, if_false]
      have ih'' := ih false (fun x hx => h x (List.mem_cons_of_mem _ hx))
      simp only [Bool.false_eq_true, if_false] at ih''
      rw [ih'']

/-! ### the main lemma: both halves of `split` are levels -/

theorem split_shape (P : Params) (b : Nat) (hb : b ≠ 0) {p : Nat} {last : Option Row} {rows : Rows}
    (h : Shape p last rows) :
    p = 0 → (∀ o, last = some o → o.id ≠ 0) → (∀ r ∈ rows, r.id ≠ 0) →
    ∀ (moving : Bool) (l1 l2 : Option Row),
      Shape 0 (if moving then l1 else last) (split P moving rows).1 ∧
      Shape b (if moving then last.map (reparent b) else l2) ((split P moving rows).2.map (reparent b)) := by
  induction h with
  | nil =>
    intro _ _ _ moving l1 l2
    simp only [split, List.map_nil]
    exact ⟨Shape.nil, Shape.nil⟩
  | @stmt p last r rest hm hp _ ih =>
    intro hp0 _ hpos moving l1 l2
    subst hp0
    have hr0 : (r.parent == 0) = true := by rw [hp]; rfl
    have hpos' : ∀ x ∈ rest, x.id ≠ 0 := fun x hx => hpos x (List.mem_cons_of_mem _ hx)
    have hrid : ∀ o, some r = some o → o.id ≠ 0 := fun o ho => by cases ho; exact hpos _ List.mem_cons_self
    by_cases hk : MainFunc.keepsTop P r.op = true
    · obtain ⟨h1, h2⟩ := ih rfl hrid hpos' false l1 (if moving then last.map (reparent b) else l2)
      simp only [Bool.false_eq_true, if_false] at h1 h2
      simp only [split, hr0, hk, if_true]
      exact ⟨Shape.stmt hm hp h1, h2⟩
    · obtain ⟨h1, h2⟩ := ih rfl hrid hpos' true (if moving then l1 else last) l2
      simp only [if_true, Option.map_some] at h1 h2
      simp only [split, hr0, hk, if_true, Bool.false_eq_true, if_false, List.map_cons]
      refine ⟨h1, Shape.stmt ?_ ?_ h2⟩
      · simpa [reparent, hp, Row.isMarker, Row.isStart, Row.isEnd] using hm
      · simp [reparent, hp]
  | @block p o s e inner rest hs he hid hsp hep ha hin _ _ ih2 =>
    intro hp0 hlast hpos moving l1 l2
    subst hp0
    have ho : o.id ≠ 0 := hlast o rfl
    have hpos' : ∀ x ∈ rest, x.id ≠ 0 := fun x hx => hpos x (by simp [hx])
    have hnzin : ∀ x ∈ inner, x.parent ≠ 0 :=
      hin.nz (hpos s List.mem_cons_self) (fun _ h => by cases h) (fun y hy => hpos y (by simp [hy]))
    have hnz : ∀ x ∈ s :: (inner ++ [e]), x.parent ≠ 0 := by
      intro x hx
      simp only [List.mem_cons, List.mem_append, List.not_mem_nil, or_false] at hx
      rcases hx with rfl | hx | rfl
      · rw [hsp]; exact ho
      · exact hnzin x hx
      · rw [hep]; exact ho
    have hlist : s :: (inner ++ e :: rest) = (s :: (inner ++ [e])) ++ rest := by simp
    obtain ⟨h1, h2⟩ := ih2 rfl hlast hpos' moving l1 l2
    rw [hlist, split_nz P rest _ moving hnz]
    cases moving with
    | true =>
      simp only [if_true, Option.map_some] at h1 h2 ⊢
      refine ⟨h1, ?_⟩
      rw [List.map_append, map_reparent_nz hnz]
      have : (s :: (inner ++ [e])) ++ List.map (reparent b) (split P true rest).2
          = s :: (inner ++ e :: List.map (reparent b) (split P true rest).2) := by simp
      rw [this]
      refine Shape.block hs he hid ?_ ?_ ?_ hin h2
      · simp only [reparent]; split <;> exact hsp
      · simp only [reparent]; split <;> exact hep
      · simp only [reparent]; split <;> exact ha
    | false =>
      simp only [Bool.false_eq_true, if_false] at h1 h2 ⊢
      refine ⟨?_, h2⟩
      have : (s :: (inner ++ [e])) ++ (split P false rest).1
          = s :: (inner ++ e :: (split P false rest).1) := by simp
      rw [this]
      exact Shape.block hs he hid hsp hep ha hin h1

/-! ### membership facts about `split` -/

theorem split_perm (P : Params) : ∀ (rows : Rows) (moving : Bool),
    ((split P moving rows).1 ++ (split P moving rows).2).Perm rows := by
  intro rows
  induction rows with
  | nil => intro moving; simp [split]
  | cons x rest ih =>
    intro moving
    simp only [split]
    by_cases h0 : (x.parent == 0) = true
    · by_cases hk : MainFunc.keepsTop P x.op = true
      · simp only [h0, hk, if_true, List.cons_append]
        exact (ih false).cons x
      · simp only [h0, hk, if_true, Bool.false_eq_true, if_false]
        exact (List.perm_middle).trans ((ih true).cons x)
    · cases moving with
      | true =>
        simp only [h0, Bool.false_eq_true, if_false, if_true]
        exact (List.perm_middle).trans ((ih true).cons x)
      | false =>
        simp only [h0, Bool.false_eq_true, if_false, List.cons_append]
        exact (ih false).cons x

theorem split_mem (P : Params) (rows : Rows) (moving : Bool) (r : Row) :
    (r ∈ (split P moving rows).1 ∨ r ∈ (split P moving rows).2) ↔ r ∈ rows := by
  rw [← List.mem_append]
  exact (split_perm P rows moving).mem_iff

/-- what stays at the top level of `regular_stmts` is a declaration / import / export / alias -/
theorem split_reg_top (P : Params) : ∀ (rows : Rows) (moving : Bool),
    ∀ r ∈ (split P moving rows).1, r.parent = 0 → MainFunc.keepsTop P r.op = true := by
  intro rows
  induction rows with
  | nil => intro moving r hr; simp [split] at hr
  | cons x rest ih =>
    intro moving r hr hp
    simp only [split] at hr
    by_cases h0 : (x.parent == 0) = true
    · by_cases hk : MainFunc.keepsTop P x.op = true
      · simp only [h0, hk, if_true, List.mem_cons] at hr
        rcases hr with rfl | hr
        · exact hk
        · exact ih false r hr hp
      · simp only [h0, hk, if_true, Bool.false_eq_true, if_false] at hr
        exact ih true r hr hp
    · cases moving with
      | true =>
        simp only [h0, Bool.false_eq_true, if_false, if_true] at hr
        exact ih true r hr hp
      | false =>
        simp only [h0, Bool.false_eq_true, if_false, List.mem_cons] at hr
        rcases hr with rfl | hr
        · simp only [beq_iff_eq] at h0; exact absurd hp h0
        · exact ih false r hr hp

/-! ### `nextId` -/

theorem foldl_max_ge (rows : Rows) : ∀ (m : Nat), m ≤ rows.foldl (fun m r => max m (r.id + 1)) m := by
  induction rows with
  | nil => intro m; exact Nat.le_refl _
  | cons r rest ih => intro m; exact Nat.le_trans (Nat.le_max_left _ _) (ih _)

theorem foldl_max_mem (rows : Rows) : ∀ (m : Nat), ∀ r ∈ rows, r.id < rows.foldl (fun m r => max m (r.id + 1)) m := by
  induction rows with
  | nil => intro m r hr; simp at hr
  | cons x rest ih =>
    intro m r hr
    rcases List.mem_cons.1 hr with rfl | hr
    · have := foldl_max_ge rest (max m (r.id + 1))
      simp only [List.foldl_cons]
      omega
    · exact ih _ r hr

theorem lt_nextId {rows : Rows} {r : Row} (h : r ∈ rows) : r.id < nextId rows := foldl_max_mem rows 0 r h

theorem foldl_max_le (rows : Rows) (k : Nat) (hk : ∀ r ∈ rows, r.id < k) :
    ∀ m, m ≤ k → rows.foldl (fun m r => max m (r.id + 1)) m ≤ k := by
  induction rows with
  | nil => intro m hm; exact hm
  | cons x rest ih =>
    intro m hm
    have := hk x List.mem_cons_self
    exact ih (fun r hr => hk r (List.mem_cons_of_mem _ hr)) _ (Nat.max_le.2 ⟨hm, this⟩)

theorem nextId_le {rows : Rows} {k : Nat} (hk : ∀ r ∈ rows, r.id < k) : nextId rows ≤ k :=
  foldl_max_le rows k hk 0 (Nat.zero_le _)

/-! ### `addMainFunc` -/

theorem defIds_map_reparent (b : Nat) (rows : Rows) : defIds (rows.map (reparent b)) = defIds rows := by
  induction rows with
  | nil => rfl
  | cons r rest ih =>
    have h1 : (reparent b r).isEnd = r.isEnd := by simp only [reparent]; split <;> rfl
    have h2 : (reparent b r).id = r.id := by simp only [reparent]; split <;> rfl
    cases he : r.isEnd with
    | true => rw [List.map_cons, defIds_cons_of_end (by rw [h1, he]), defIds_cons_of_end he, ih]
    | false => rw [List.map_cons, defIds_cons_of_not_end (by rw [h1, he]), defIds_cons_of_not_end he, ih, h2]

theorem defIds_perm {a b : Rows} (h : a.Perm b) : (defIds a).Perm (defIds b) :=
  (h.filter _).map _

/-- the `%unit_init` row -/
def initDecl (P : Params) (m : Nat) : Row :=
  { op := "method_decl", id := m, parent := 0, attrs := [("name", .str P.unitInit), ("body", .int (m + 1))] }

theorem addMainFunc_eq (P : Params) (rows : Rows) :
    addMainFunc P rows =
      if (split P false rows).2.isEmpty then rows
      else (split P false rows).1 ++ [initDecl P (nextId rows), mkStart (nextId rows + 1) (nextId rows)] ++
        (split P false rows).2.map (reparent (nextId rows + 1)) ++ [mkEnd (nextId rows + 1) (nextId rows)] := by
  simp only [addMainFunc, initDecl]

theorem initDecl_not_marker (P : Params) (m : Nat) : (initDecl P m).isMarker = false := by
  simp [initDecl, Row.isMarker, Row.isStart, Row.isEnd, opStart, opEnd]

theorem keepsTop_method_decl (P : Params) : MainFunc.keepsTop P "method_decl" = true := by
  simp only [MainFunc.keepsTop, Bool.or_eq_true]
  left; decide

/-- **`addMainFunc` keeps the table a top-level level of the grammar.** -/
theorem addMainFunc_shape (P : Params) {rows : Rows} (h : Shape 0 none rows) (hpos : ∀ r ∈ rows, r.id ≠ 0) :
    Shape 0 none (addMainFunc P rows) := by
  rw [addMainFunc_eq]
  split
  · exact h
  · obtain ⟨h1, h2⟩ := split_shape P (nextId rows + 1) (by omega) h rfl (fun _ ho => by cases ho) hpos false none none
    simp only [Bool.false_eq_true, if_false] at h1 h2
    rw [List.append_assoc, List.append_assoc]
    refine h1.append _ (fun l => ?_)
    simp only [List.cons_append, List.nil_append]
    refine Shape.stmt (initDecl_not_marker P _) rfl ?_
    refine Shape.block (o := initDecl P (nextId rows)) (s := mkStart (nextId rows + 1) (nextId rows))
      (e := mkEnd (nextId rows + 1) (nextId rows)) (rest := []) (mkStart_isStart _ _) (mkEnd_isEnd _ _) rfl rfl rfl ?_ h2 Shape.nil
    exact hasIntAttr_of_mem (k := "body") (by simp [initDecl, mkStart])

/-- **after `addMainFunc` only declarations / imports / exports / aliases are at the top level.** -/
theorem addMainFunc_top_decl (P : Params) {rows : Rows} (hpos : ∀ r ∈ rows, r.id ≠ 0) :
    ∀ r ∈ addMainFunc P rows, r.isMarker = false → r.parent = 0 → MainFunc.keepsTop P r.op = true := by
  intro r hr hm hp
  rw [addMainFunc_eq] at hr
  split at hr
  · -- nothing was moved: every top-level row of `rows` is in `regular_stmts`
    rename_i hempty
    have hmem := (split_mem P rows false r).2 hr
    rcases hmem with h | h
    · exact split_reg_top P rows false r h hp
    · rw [List.isEmpty_iff.1 hempty] at h; simp at h
  · simp only [List.mem_append, List.mem_cons, List.mem_map, List.not_mem_nil, or_false] at hr
    rcases hr with ((h | h | h) | ⟨x, _, hx⟩) | h
    · exact split_reg_top P rows false r h hp
    · subst h; exact keepsTop_method_decl P
    · subst h; simp [Row.isMarker, mkStart_isStart] at hm
    · subst hx
      simp only [reparent] at hp
      split at hp
      · simp at hp
      · rename_i hx0; simp only [beq_iff_eq] at hx0; exact absurd hp hx0
    · subst h; simp [Row.isMarker, mkEnd_isEnd] at hm

/-- **the ids of the result are the old ids plus the two fresh ones `nextId`, `nextId + 1`.** -/
theorem addMainFunc_ids (P : Params) (rows : Rows) :
    addMainFunc P rows = rows ∨
    (defIds (addMainFunc P rows)).Perm (nextId rows :: (nextId rows + 1) :: defIds rows) := by
  rw [addMainFunc_eq]
  split
  · exact Or.inl rfl
  · right
    have hp := defIds_perm (split_perm P rows false)
    rw [defIds_append] at hp
    simp only [defIds_append, defIds_map_reparent]
    rw [defIds_cons_of_not_end (r := initDecl P (nextId rows)) (isMarker_false_iff.1 (initDecl_not_marker P _)).2,
      defIds_cons_of_not_end (mkStart_not_end _ _), defIds_nil, defIds_cons_of_end (mkEnd_isEnd _ _), defIds_nil,
      List.append_nil]
    show (defIds (split P false rows).1 ++ [nextId rows, nextId rows + 1] ++ defIds (split P false rows).2).Perm _
    have : (defIds (split P false rows).1 ++ [nextId rows, nextId rows + 1] ++ defIds (split P false rows).2).Perm
        ([nextId rows, nextId rows + 1] ++ (defIds (split P false rows).1 ++ defIds (split P false rows).2)) := by
      rw [List.append_assoc]
      exact List.perm_append_comm.trans (by rw [List.append_assoc]; exact (List.perm_append_comm).append_left _ |>.trans (by simp))
    exact this.trans (hp.append_left _)

/-! ### where the rows of the result come from -/

theorem mem_addMainFunc {P : Params} {rows : Rows} {x : Row} (hx : x ∈ addMainFunc P rows) :
    x ∈ rows ∨ x = initDecl P (nextId rows) ∨ x = mkStart (nextId rows + 1) (nextId rows) ∨
    x = mkEnd (nextId rows + 1) (nextId rows) ∨
    ∃ y ∈ rows, y.parent = 0 ∧ x = reparent (nextId rows + 1) y := by
  rw [addMainFunc_eq] at hx
  split at hx
  · exact Or.inl hx
  · simp only [List.mem_append, List.mem_cons, List.mem_map, List.not_mem_nil, or_false] at hx
    rcases hx with ((h | h | h) | ⟨y, hy, hyx⟩) | h
    · exact Or.inl ((split_mem P rows false x).1 (Or.inl h))
    · exact Or.inr (Or.inl h)
    · exact Or.inr (Or.inr (Or.inl h))
    · have hyr : y ∈ rows := (split_mem P rows false y).1 (Or.inr hy)
      by_cases hp : y.parent = 0
      · exact Or.inr (Or.inr (Or.inr (Or.inr ⟨y, hyr, hp, hyx.symm⟩)))
      · rw [reparent_nz hp] at hyx; subst hyx; exact Or.inl hyr
    · exact Or.inr (Or.inr (Or.inr (Or.inl h)))

theorem mem_addMainFunc_of_nz {P : Params} {rows : Rows} {s : Row} (hs : s ∈ rows) (hp : s.parent ≠ 0) :
    s ∈ addMainFunc P rows := by
  rw [addMainFunc_eq]
  split
  · exact hs
  · simp only [List.mem_append, List.mem_cons, List.mem_map, List.not_mem_nil, or_false]
    rcases (split_mem P rows false s).2 hs with h | h
    · exact Or.inl (Or.inl (Or.inl h))
    · exact Or.inl (Or.inr ⟨s, h, reparent_nz hp⟩)

theorem addMainFunc_nonempty {P : Params} {rows : Rows} (h : addMainFunc P rows ≠ rows) : rows ≠ [] := by
  intro hr; subst hr; exact h (by simp [addMainFunc, split])

theorem mkStart_mem_addMainFunc {P : Params} {rows : Rows} (h : addMainFunc P rows ≠ rows) :
    mkStart (nextId rows + 1) (nextId rows) ∈ addMainFunc P rows := by
  rw [addMainFunc_eq] at h ⊢
  split
  · rename_i he; rw [if_pos he] at h; exact absurd rfl h
  · simp

/-- **body attributes keep naming owned blocks** -/
theorem addMainFunc_bodies (P : Params) (bk : String → Bool) {rows : Rows} (hb : BodiesOK bk rows)
    (hpos : ∀ r ∈ rows, r.id ≠ 0) : BodiesOK bk (addMainFunc P rows) := by
  by_cases hsame : addMainFunc P rows = rows
  · rw [hsame]; exact hb
  intro x hx hm kv hkv hbk b hv
  -- a witness found in `rows` is still in the result: its parent is a positive id
  have keep : ∀ (r : Row), r ∈ rows → r.isMarker = false → kv ∈ r.attrs →
      ∃ s ∈ addMainFunc P rows, s.isStart = true ∧ (s.id : Int) = b ∧ s.parent = r.id := by
    intro r hr hmr hkvr
    obtain ⟨s, hs, h1, h2, h3⟩ := hb r hr hmr kv hkvr hbk b hv
    exact ⟨s, mem_addMainFunc_of_nz hs (by rw [h3]; exact hpos r hr), h1, h2, h3⟩
  rcases mem_addMainFunc hx with h | h | h | h | ⟨y, hy, hy0, h⟩
  · exact keep x h hm hkv
  · subst h
    simp only [initDecl, List.mem_cons, List.not_mem_nil, or_false] at hkv
    rcases hkv with rfl | rfl
    · cases hv
    · simp only [AVal.int.injEq] at hv
      exact ⟨_, mkStart_mem_addMainFunc hsame, mkStart_isStart _ _, by simpa [mkStart] using hv, rfl⟩
  · subst h; simp [Row.isMarker, mkStart_isStart] at hm
  · subst h; simp [Row.isMarker, mkEnd_isEnd] at hm
  · subst h
    have e1 : (reparent (nextId rows + 1) y).attrs = y.attrs := by simp only [reparent]; split <;> rfl
    have e2 : (reparent (nextId rows + 1) y).id = y.id := by simp only [reparent]; split <;> rfl
    have e3 : (reparent (nextId rows + 1) y).isMarker = y.isMarker := by simp only [reparent]; split <;> rfl
    rw [e1] at hkv; rw [e3] at hm; rw [e2]
    exact keep y hy hm hkv

theorem addMainFunc_ids_pos (P : Params) {rows : Rows} (hpos : ∀ r ∈ rows, r.id ≠ 0) :
    ∀ r ∈ addMainFunc P rows, r.id ≠ 0 := by
  intro x hx
  rcases mem_addMainFunc hx with h | h | h | h | ⟨y, hy, _, h⟩
  · exact hpos x h
  · subst h
    by_cases hsame : addMainFunc P rows = rows
    · rw [hsame] at hx; exact hpos _ hx
    · obtain ⟨r, rest, hr⟩ := List.exists_cons_of_ne_nil (addMainFunc_nonempty hsame)
      have := lt_nextId (rows := rows) (r := r) (by rw [hr]; exact List.mem_cons_self)
      simp only [initDecl]; omega
  · subst h; simp [mkStart]
  · subst h; simp [mkEnd]
  · subst h
    have e2 : (reparent (nextId rows + 1) y).id = y.id := by simp only [reparent]; split <;> rfl
    rw [e2]; exact hpos y hy

theorem mem_defIds {rows : Rows} {i : Nat} (h : i ∈ defIds rows) : ∃ r ∈ rows, r.id = i := by
  simp only [defIds, List.mem_map, List.mem_filter] at h
  obtain ⟨r, ⟨hr, _⟩, hi⟩ := h
  exact ⟨r, hr, hi⟩

theorem addMainFunc_nodup (P : Params) {rows : Rows} (hn : (defIds rows).Nodup) :
    (defIds (addMainFunc P rows)).Nodup := by
  rcases addMainFunc_ids P rows with h | h
  · rw [h]; exact hn
  · rw [h.nodup_iff]
    have hlt : ∀ i ∈ defIds rows, i < nextId rows := by
      intro i hi
      obtain ⟨r, hr, rfl⟩ := mem_defIds hi
      exact lt_nextId hr
    refine List.nodup_cons.2 ⟨?_, List.nodup_cons.2 ⟨?_, hn⟩⟩
    · simp only [List.mem_cons, not_or]
      exact ⟨by omega, fun hm => by have := hlt _ hm; omega⟩
    · intro hm; have := hlt _ hm; omega

theorem addMainFunc_keys (P : Params) {rows : Rows} (hk : ∀ r ∈ rows, "unit_id" ∉ r.attrs.map Prod.fst) :
    ∀ r ∈ addMainFunc P rows, "unit_id" ∉ r.attrs.map Prod.fst := by
  intro x hx
  rcases mem_addMainFunc hx with h | h | h | h | ⟨y, hy, _, h⟩
  · exact hk x h
  · subst h; simp only [initDecl, List.map_cons, List.map_nil]; decide
  · subst h; simp [mkStart]
  · subst h; simp [mkEnd]
  · subst h
    have e1 : (reparent (nextId rows + 1) y).attrs = y.attrs := by simp only [reparent]; split <;> rfl
    rw [e1]; exact hk y hy

/-- **`addMainFunc` preserves the core clauses** -/
theorem addMainFunc_wfCore (P : Params) (bk : String → Bool) {rows : Rows} (h : WFCore bk rows) :
    WFCore bk (addMainFunc P rows) :=
  ⟨lvl_of_shape (addMainFunc_shape P (shape_of_lvl (h.nested (fun _ _ => false) false)) h.ids_pos),
   addMainFunc_nodup P h.ids_unique, addMainFunc_ids_pos P h.ids_pos,
   addMainFunc_bodies P bk h.bodies_exist h.ids_pos⟩

end LianVerif.Gir
