/-
Helper lemmas for C15: association lists (Python dicts) and the LRU cache.
The property theorems are in Properties/C15.lean.
-/
import LianVerif.Model.Lru
import LianVerif.Spec.LoaderSpec

namespace LianVerif.Lru
set_option linter.unusedSectionVars false

variable {K V : Type} [DecidableEq K]

/-! ### association lists -/

@[simp] theorem alookup_nil (k : K) : alookup k ([] : List (K × V)) = none := rfl

theorem alookup_cons (k k' : K) (v : V) (l : List (K × V)) :
    alookup k ((k', v) :: l) = if k' = k then some v else alookup k l := rfl

theorem alookup_mem {k : K} {v : V} {l : List (K × V)} (h : alookup k l = some v) : (k, v) ∈ l := by
  induction l with
  | nil => simp at h
  | cons p l ih =>
    obtain ⟨k', v'⟩ := p
    rw [alookup_cons] at h
    split at h
    · rename_i e; subst e; cases h; simp
    · exact List.mem_cons_of_mem _ (ih h)

theorem alookup_none_iff {k : K} {l : List (K × V)} : alookup k l = none ↔ k ∉ akeys l := by
  induction l with
  | nil => simp [akeys]
  | cons p l ih =>
    obtain ⟨k', v'⟩ := p
    rw [alookup_cons]
    by_cases e : k' = k
    · subst e; simp [akeys]
    · simp only [e, if_false, ih, akeys, List.map_cons, List.mem_cons, not_or]
      constructor
      · intro h; exact ⟨fun e' => e e'.symm, h⟩
      · intro h; exact h.2

theorem alookup_isSome_iff {k : K} {l : List (K × V)} : (alookup k l).isSome ↔ k ∈ akeys l := by
  cases h : alookup k l with
  | none => simp [alookup_none_iff.1 h]
  | some v =>
    simp only [Option.isSome_some, true_iff]
    by_cases hk : k ∈ akeys l
    · exact hk
    · rw [alookup_none_iff.2 hk] at h; cases h

theorem alookup_aset (k k' : K) (v : V) (l : List (K × V)) :
    alookup k' (aset k v l) = if k' = k then some v else alookup k' l := by
  induction l with
  | nil =>
    simp only [aset, alookup_cons, alookup_nil]
    by_cases e : k = k'
    · subst e; simp
    · have : ¬ k' = k := fun h => e h.symm
      simp [e, this]
  | cons p l ih =>
    obtain ⟨k₀, v₀⟩ := p
    simp only [aset]
    by_cases e0 : k₀ = k
    · subst e0
      simp only [if_true, alookup_cons]
      by_cases e : k₀ = k'
      · subst e; simp
      · have : ¬ k' = k₀ := fun h => e h.symm
        simp [e, this]
    · simp only [e0, if_false, alookup_cons, ih]
      by_cases e : k₀ = k'
      · subst e; simp [e0]
      · simp [e]

theorem akeys_aset (k : K) (v : V) (l : List (K × V)) :
    akeys (aset k v l) = if k ∈ akeys l then akeys l else akeys l ++ [k] := by
  induction l with
  | nil => simp [aset, akeys]
  | cons p l ih =>
    obtain ⟨k₀, v₀⟩ := p
    simp only [aset]
    by_cases e0 : k₀ = k
    · subst e0; simp [akeys]
    · have e0' : ¬ k = k₀ := fun h => e0 h.symm
      simp only [e0, if_false]
      unfold akeys at ih ⊢
      simp only [List.map_cons, List.mem_cons, e0', false_or, ih]
      split <;> simp

theorem nodup_aset {k : K} {v : V} {l : List (K × V)} (h : (akeys l).Nodup) : (akeys (aset k v l)).Nodup := by
  rw [akeys_aset]
  split
  · exact h
  · rename_i hk
    rw [List.nodup_append]
    refine ⟨h, by simp, ?_⟩
    intro a ha b hb
    rw [List.mem_singleton] at hb; subst hb
    rintro rfl; exact hk ha

theorem mem_aerase {k : K} {p : K × V} {l : List (K × V)} : p ∈ aerase k l ↔ p ∈ l ∧ p.1 ≠ k := by
  simp [aerase, List.mem_filter]

theorem alookup_aerase (k k' : K) (l : List (K × V)) :
    alookup k' (aerase k l) = if k' = k then none else alookup k' l := by
  induction l with
  | nil => simp [aerase]
  | cons p l ih =>
    obtain ⟨k₀, v₀⟩ := p
    unfold aerase at ih ⊢
    by_cases e0 : k₀ = k
    · subst e0
      simp only [List.filter_cons, ne_eq, not_true_eq_false, decide_false, Bool.false_eq_true, if_false, ih, alookup_cons]
      by_cases e : k' = k₀
      · subst e; simp
      · have : ¬ k₀ = k' := fun h => e h.symm
        simp [e, this]
    · simp only [List.filter_cons, ne_eq, e0, not_false_eq_true, decide_true, if_true, alookup_cons, ih]
      by_cases e : k₀ = k'
      · subst e; simp [e0]
      · simp [e]

theorem akeys_aerase (k : K) (l : List (K × V)) : akeys (aerase k l) = (akeys l).filter (fun x => decide (x ≠ k)) := by
  unfold akeys aerase
  rw [List.filter_map]
  rfl

theorem nodup_aerase {k : K} {l : List (K × V)} (h : (akeys l).Nodup) : (akeys (aerase k l)).Nodup := by
  rw [akeys_aerase]; exact h.filter _

theorem alookup_append (k : K) (l₁ l₂ : List (K × V)) :
    alookup k (l₁ ++ l₂) = match alookup k l₁ with | some v => some v | none => alookup k l₂ := by
  induction l₁ with
  | nil => simp
  | cons p l ih =>
    obtain ⟨k₀, v₀⟩ := p
    simp only [List.cons_append, alookup_cons]
    by_cases e : k₀ = k
    · simp [e]
    · simp [e, ih]

/-! ### sums of row counts -/

def rowsSum {R : Type} (l : List (K × List R)) : Nat := (l.map (fun p => p.2.length)).sum

@[simp] theorem rowsSum_nil {R : Type} : rowsSum ([] : List (K × List R)) = 0 := rfl

theorem rowsSum_cons {R : Type} (p : K × List R) (l : List (K × List R)) :
    rowsSum (p :: l) = p.2.length + rowsSum l := by simp [rowsSum]

theorem rowsSum_aerase_of_not_mem {R : Type} {k : K} {l : List (K × List R)} (h : k ∉ akeys l) : aerase k l = l := by
  induction l with
  | nil => rfl
  | cons p l ih =>
    simp only [akeys, List.map_cons, List.mem_cons, not_or] at h
    unfold aerase
    have hp : p.1 ≠ k := fun e => h.1 e.symm
    simp only [List.filter_cons, ne_eq, hp, not_false_eq_true, decide_true, if_true]
    congr 1
    exact ih h.2

/-- number of rows currently bound to `k` (0 when absent) -/
def oldLen {R : Type} (k : K) (l : List (K × List R)) : Nat :=
  match alookup k l with
  | some old => old.length
  | none => 0

theorem oldLen_cons {R : Type} (k k₀ : K) (v₀ : List R) (l : List (K × List R)) :
    oldLen k ((k₀, v₀) :: l) = if k₀ = k then v₀.length else oldLen k l := by
  unfold oldLen
  rw [alookup_cons]
  by_cases e : k₀ = k <;> simp [e]

theorem rowsSum_aset {R : Type} {k : K} {rows : List R} {l : List (K × List R)} (h : (akeys l).Nodup) :
    rowsSum (aset k rows l) + oldLen k l = rowsSum l + rows.length := by
  induction l with
  | nil => simp [aset, rowsSum, oldLen]
  | cons p l ih =>
    obtain ⟨k₀, v₀⟩ := p
    simp only [akeys, List.map_cons, List.nodup_cons] at h
    simp only [aset, oldLen_cons]
    by_cases e : k₀ = k
    · simp only [e, if_true, rowsSum_cons]; omega
    · simp only [e, if_false, rowsSum_cons]
      have := ih h.2
      omega

theorem rowsSum_aerase {R : Type} {k : K} {l : List (K × List R)} (h : (akeys l).Nodup) :
    rowsSum (aerase k l) + oldLen k l = rowsSum l := by
  induction l with
  | nil => simp [aerase, rowsSum, oldLen]
  | cons p l ih =>
    obtain ⟨k₀, v₀⟩ := p
    simp only [akeys, List.map_cons, List.nodup_cons] at h
    by_cases e : k₀ = k
    · subst e
      have hnot : k₀ ∉ akeys l := h.1
      have : aerase k₀ ((k₀, v₀) :: l) = l := by
        unfold aerase
        simp only [List.filter_cons, ne_eq, not_true_eq_false, decide_false, Bool.false_eq_true, if_false]
        exact rowsSum_aerase_of_not_mem hnot
      rw [this]
      simp only [oldLen_cons, if_true, rowsSum_cons]; omega
    · have : aerase k ((k₀, v₀) :: l) = (k₀, v₀) :: aerase k l := by
        unfold aerase
        simp [List.filter_cons, e]
      rw [this]
      simp only [oldLen_cons, e, if_false, rowsSum_cons]
      have := ih h.2
      omega

theorem oldLen_le_rowsSum {R : Type} (k : K) (l : List (K × List R)) : oldLen k l ≤ rowsSum l := by
  induction l with
  | nil => simp [oldLen]
  | cons p l ih =>
    obtain ⟨k₀, v₀⟩ := p
    rw [oldLen_cons, rowsSum_cons]
    split
    · simp
    · change oldLen k l ≤ v₀.length + rowsSum l; omega

theorem exists_nonempty_of_rowsSum_pos {R : Type} {l : List (K × List R)} (h : 0 < rowsSum l) :
    l.any (fun p => !p.2.isEmpty) = true := by
  induction l with
  | nil => simp at h
  | cons p l ih =>
    rw [rowsSum_cons] at h
    simp only [List.any_cons, Bool.or_eq_true]
    by_cases hp : p.2 = []
    · right; apply ih; simp [hp] at h; exact h
    · left; simp [hp]

theorem rows_nil_of_rowsSum_zero {R : Type} {l : List (K × List R)} (h : rowsSum l = 0) {k : K} {rows : List R}
    (hk : alookup k l = some rows) : rows = [] := by
  induction l with
  | nil => simp at hk
  | cons p l ih =>
    obtain ⟨k₀, v₀⟩ := p
    rw [rowsSum_cons] at h
    change v₀.length + rowsSum l = 0 at h
    rw [alookup_cons] at hk
    split at hk
    · cases hk; exact List.eq_nil_of_length_eq_zero (by omega)
    · exact ih (by omega) hk

/-! ### the cache -/

theorem Lru.lookup_mem {c : Lru K V} {k : K} {v : V} (h : c.lookup k = some v) : (k, v) ∈ c.items := alookup_mem h

theorem Lru.contain_iff {c : Lru K V} {k : K} : c.contain k = true ↔ ∃ v, c.lookup k = some v := by
  simp [Lru.contain, Option.isSome_iff_exists]

theorem Lru.get_snd (c : Lru K V) (k : K) : (c.get k).2 = c.lookup k := by
  unfold Lru.get; split <;> simp_all

theorem Lru.mem_get {c : Lru K V} {k : K} {p : K × V} (h : p ∈ (c.get k).1.items) : p ∈ c.items := by
  unfold Lru.get at h
  split at h
  · rename_i v hv
    simp only [List.mem_append, List.mem_singleton] at h
    rcases h with h | h
    · exact (mem_aerase.1 h).1
    · subst h; exact alookup_mem hv
  · exact h

theorem Lru.mem_put {c : Lru K V} {k : K} {v : V} {p : K × V} (h : p ∈ (c.put k v).items) :
    p = (k, v) ∨ (p ∈ c.items ∧ p.1 ≠ k) := by
  simp only [Lru.put] at h
  have aux : ∀ q, q ∈ aerase k c.items ++ [(k, v)] → q = (k, v) ∨ (q ∈ c.items ∧ q.1 ≠ k) := by
    intro q hq
    simp only [List.mem_append, List.mem_singleton] at hq
    rcases hq with hq | hq
    · exact Or.inr (mem_aerase.1 hq)
    · exact Or.inl hq
  split at h
  · exact aux p (List.mem_of_mem_drop h)
  · exact aux p h

theorem Lru.mem_remove {c : Lru K V} {k : K} {p : K × V} : p ∈ (c.remove k).items ↔ p ∈ c.items ∧ p.1 ≠ k := by
  simp [Lru.remove, mem_aerase]

/-! ### the LRU invariant -/

section lruinv
open LianVerif.LruSpec (specStep specRun)

/-- invariant: every cached entry is the latest `put` for its key; size and key uniqueness -/
structure LInv (c : Lru K V) (m : K → Option V) : Prop where
  fresh : ∀ p ∈ c.items, m p.1 = some p.2
  size : c.items.length ≤ c.cap
  nodup : (akeys c.items).Nodup

theorem length_aerase_lt {k : K} {v : V} {l : List (K × V)} (h : alookup k l = some v) :
    (aerase k l).length < l.length := by
  unfold aerase
  exact List.length_filter_lt_length_iff_exists.2 ⟨(k, v), alookup_mem h, by simp⟩

theorem nodup_touch {k : K} {v : V} {l : List (K × V)} (h : (akeys l).Nodup) :
    (akeys (aerase k l ++ [(k, v)])).Nodup := by
  have h1 := nodup_aerase (k := k) h
  unfold akeys at *
  rw [List.map_append, List.nodup_append]
  refine ⟨h1, by simp, ?_⟩
  intro a ha b hb
  simp only [List.map_cons, List.map_nil, List.mem_singleton] at hb
  subst hb
  rintro rfl
  obtain ⟨p, hp, rfl⟩ := List.mem_map.1 ha
  exact (mem_aerase.1 hp).2 rfl

theorem lru_step_ok {c : Lru K V} {m : K → Option V} (h : LInv c m) (op : Lru.Op K V) :
    LInv (Lru.step c op).1 (LruSpec.specStep m op) ∧ LruSpec.OutOk m op (Lru.step c op).2 := by
  cases op with
  | get k =>
    simp only [Lru.step, LruSpec.specStep]
    refine ⟨⟨fun p hp => h.fresh p (Lru.mem_get hp), ?_, ?_⟩, ?_⟩
    · unfold Lru.get
      cases hl : c.lookup k with
      | none => exact h.size
      | some v =>
        have := length_aerase_lt hl
        have := h.size
        simp only [List.length_append, List.length_singleton]
        change (aerase k c.items).length + 1 ≤ c.cap
        omega
    · unfold Lru.get
      cases hl : c.lookup k with
      | none => exact h.nodup
      | some v => exact nodup_touch h.nodup
    · rw [Lru.get_snd]
      cases hl : c.lookup k with
      | none => exact Or.inl rfl
      | some v => exact Or.inr (h.fresh _ (Lru.lookup_mem hl)).symm
  | contain k =>
    refine ⟨h, ?_⟩
    intro hc
    obtain ⟨v, hv⟩ := Lru.contain_iff.1 hc
    have := h.fresh _ (Lru.lookup_mem hv)
    simp only at this
    rw [this]; rfl
  | put k v =>
    simp only [Lru.step, LruSpec.specStep]
    refine ⟨⟨?_, ?_, ?_⟩, trivial⟩
    · intro p hp
      rcases Lru.mem_put hp with e | ⟨hp', hne⟩
      · subst e; simp
      · simp only [hne, if_false]; exact h.fresh p hp'
    · simp only [Lru.put]
      have h1 : (aerase k c.items).length ≤ c.items.length := List.length_filter_le _ _
      have h2 := h.size
      split
      · simp only [List.length_drop, List.length_append, List.length_singleton]; omega
      · rename_i hgt; simpa using Nat.le_of_not_gt hgt
    · simp only [Lru.put]
      have hn := nodup_touch (k := k) (v := v) h.nodup
      split
      · unfold akeys at hn ⊢
        rw [List.map_drop]
        exact hn.sublist (List.drop_sublist _ _)
      · exact hn
  | remove k =>
    simp only [Lru.step, LruSpec.specStep]
    refine ⟨⟨?_, ?_, ?_⟩, trivial⟩
    · intro p hp
      obtain ⟨hp', hne⟩ := Lru.mem_remove.1 hp
      simp only [hne, if_false]; exact h.fresh p hp'
    · have h1 : (aerase k c.items).length ≤ c.items.length := List.length_filter_le _ _
      have := h.size
      simp only [Lru.remove]; omega
    · exact nodup_aerase h.nodup

theorem lru_run_ok (ops : List (Lru.Op K V)) : ∀ (c : Lru K V) (m : K → Option V), LInv c m →
    LruSpec.RunOk m ops (Lru.run c ops).2 ∧ LInv (Lru.run c ops).1 (LruSpec.specRun m ops) := by
  induction ops with
  | nil => intro c m h; exact ⟨trivial, h⟩
  | cons op ops ih =>
    intro c m h
    obtain ⟨h1, o1⟩ := lru_step_ok h op
    obtain ⟨r1, r2⟩ := ih _ _ h1
    exact ⟨⟨o1, r1⟩, r2⟩

end lruinv

end LianVerif.Lru
