/-
C12: what the three actions of an edit (`relocate`, `rename`, `renumber`) do to the projection
`toScopeRow` that the scope / resolver models read, and the "rename ONE name to a fresh one" renaming.
-/
import LianVerif.Model.Meta
import LianVerif.Proofs.Resolver

namespace LianVerif.Meta
open LianVerif.Scopes LianVerif.Resolver

/-! ### locations are never read -/

theorem toScopeRow_relocate (m : Nat → Nat) (d : Bool) (r : MRow) : toScopeRow (relocate m d r) = toScopeRow r := rfl

theorem toScopeRow_eraseLoc (r : MRow) : toScopeRow (eraseLoc r) = toScopeRow r := rfl

theorem toScopeRows_relocate (m : Nat → Nat) (d : Bool) (rows : List MRow) :
    (rows.map (relocate m d)).map toScopeRow = rows.map toScopeRow := by
  rw [List.map_map]; rfl

theorem toScopeRows_eraseLoc (rows : List MRow) : (rows.map eraseLoc).map toScopeRow = rows.map toScopeRow := by
  rw [List.map_map]; rfl

/-! ### renumbering -/

theorem refOf_renumber (ρ : Nat → Nat) (r : MRow) (k : String) : refOf (renumber ρ r) k = (refOf r k).map ρ := by
  unfold refOf renumber
  simp only
  induction r.refs with
  | nil => rfl
  | cons kv rest ih =>
    simp only [List.map_cons, List.find?_cons]
    split
    · rfl
    · exact ih

theorem toScopeRow_renumber (ρ : Nat → Nat) (r : MRow) : toScopeRow (renumber ρ r) = mapScopeRow ρ (toScopeRow r) := by
  unfold toScopeRow mapScopeRow
  simp only [refOf_renumber]
  rfl

/-! ### renaming -/

theorem find_names_map (σ : String → String) (k : String) (names : List (String × List String)) :
    (names.map (fun kv => (kv.1, kv.2.map σ))).find? (fun kv => kv.1 == k) =
      (names.find? (fun kv => kv.1 == k)).map (fun kv => (kv.1, kv.2.map σ)) := by
  induction names with
  | nil => rfl
  | cons kv rest ih =>
    simp only [List.map_cons, List.find?_cons]
    cases kv.1 == k
    · exact ih
    · rfl

theorem nameOf_rename (σ : String → String) (hσ : ∀ s, (σ s).isEmpty = s.isEmpty) (r : MRow) (k : String) :
    nameOf (rename σ r) k = (nameOf r k).map σ := by
  unfold nameOf
  show (match (r.names.map (fun kv => (kv.1, kv.2.map σ))).find? (fun kv => kv.1 == k) with
      | some (_, n :: _) => if n.isEmpty then none else some n
      | _ => none) = _
  rw [find_names_map]
  cases r.names.find? (fun kv => kv.1 == k) with
  | none => rfl
  | some kv =>
    obtain ⟨key, items⟩ := kv
    cases items with
    | nil => rfl
    | cons n ns =>
      simp only [Option.map_some, List.map_cons, hσ]
      split <;> rfl

theorem toScopeRow_rename (σ : String → String) (hσ : ∀ s, (σ s).isEmpty = s.isEmpty) (r : MRow) :
    toScopeRow (rename σ r) = Row.map σ (toScopeRow r) := by
  unfold toScopeRow Row.map
  simp only [nameOf_rename σ hσ]
  rfl

/-! ### renaming one identifier to a fresh one, as an injective renaming -/

section Swap
variable {ν : Type} [DecidableEq ν]

/-- the transposition of `a` and `b` -/
def swapName (a b : ν) (x : ν) : ν := if x = a then b else if x = b then a else x

/-- what the edit does: `a` becomes `b`, nothing else changes -/
def renOne (a b : ν) (x : ν) : ν := if x = a then b else x

theorem swapName_inj (a b : ν) : Function.Injective (swapName a b) := by
  intro x y h
  unfold swapName at h
  by_cases hxa : x = a <;> by_cases hya : y = a <;> by_cases hxb : x = b <;> by_cases hyb : y = b <;>
    simp_all

theorem swapName_eq_renOne {a b x : ν} (hx : x ≠ b) : swapName a b x = renOne a b x := by
  unfold swapName renOne
  by_cases hxa : x = a
  · rw [if_pos hxa, if_pos hxa]
  · rw [if_neg hxa, if_neg hxa, if_neg hx]

/-- `b` does not occur as a name or an alias in the rows -/
def FreshIn (b : ν) (rows : List (Row ν)) : Prop := ∀ r ∈ rows, r.name ≠ some b ∧ r.alias ≠ some b

theorem rowMap_swap_eq_renOne {a b : ν} {r : Row ν} (h : r.name ≠ some b ∧ r.alias ≠ some b) :
    Row.map (swapName a b) r = Row.map (renOne a b) r := by
  unfold Row.map
  have h1 : r.name.map (swapName a b) = r.name.map (renOne a b) := by
    cases hn : r.name with
    | none => rfl
    | some x =>
      simp only [Option.map_some]
      rw [swapName_eq_renOne (fun e => h.1 (by rw [hn, e]))]
  have h2 : r.alias.map (swapName a b) = r.alias.map (renOne a b) := by
    cases hn : r.alias with
    | none => rfl
    | some x =>
      simp only [Option.map_some]
      rw [swapName_eq_renOne (fun e => h.2 (by rw [hn, e]))]
  rw [h1, h2]

theorem rowsMap_swap_eq_renOne {a b : ν} {rows : List (Row ν)} (h : FreshIn b rows) :
    rows.map (Row.map (swapName a b)) = rows.map (Row.map (renOne a b)) := by
  apply List.map_congr_left
  intro r hr
  exact rowMap_swap_eq_renOne (h r hr)

end Swap

end LianVerif.Meta
