/-
Helper lemmas for C10 / C11 (taint engine).  Property theorems are in Properties/C10.lean, C11.lean.

Part A — soundness of the worklist: every tag it sets is justified by `Reach`.
-/
import LianVerif.Model.Taint
import LianVerif.Spec.Reach

namespace LianVerif.Taint
open LianVerif.Sfg LianVerif.TaintRules LianVerif.Reach

/-! ### elementary facts about `enqueue` / `applyAct` -/

@[simp] theorem enqueue_symT (s : PState) (v : Nat) : (enqueue s v).symT = s.symT := by
  unfold enqueue; split <;> rfl
@[simp] theorem enqueue_stT (s : PState) (v : Nat) : (enqueue s v).stT = s.stT := by
  unfold enqueue; split <;> rfl
@[simp] theorem enqueue_processed (s : PState) (v : Nat) : (enqueue s v).processed = s.processed := by
  unfold enqueue; split <;> rfl

theorem mem_enqueue_self (s : PState) (v : Nat) : v ∈ (enqueue s v).wl := by
  unfold enqueue
  split
  · rename_i h; exact List.contains_iff_mem.1 h
  · simp

theorem mem_enqueue_of_mem {s : PState} {v x : Nat} (h : x ∈ s.wl) : x ∈ (enqueue s v).wl := by
  unfold enqueue
  split
  · exact h
  · simp [h]

theorem mem_enqueue_iff {s : PState} {v x : Nat} : x ∈ (enqueue s v).wl ↔ x ∈ s.wl ∨ x = v := by
  unfold enqueue
  split
  · rename_i h
    have hv : v ∈ s.wl := List.contains_iff_mem.1 h
    constructor
    · exact Or.inl
    · rintro (h | rfl)
      · exact h
      · exact hv
  · simp

/-! ### Part A: soundness -/

/-- every tagged id is reachable -/
def Sound (g : Graph) (prm : Params) (src : Nat) (s : PState) : Prop :=
  (∀ i ∈ s.symT, Reach g prm src (true, i)) ∧ (∀ i ∈ s.stT, Reach g prm src (false, i))

/-- the node's own tag is read from reachable locations -/
def HotR (g : Graph) (prm : Params) (src : Nat) (u : Nat) : Prop :=
  (g.kindOf u = K_SYMBOL ∧ Reach g prm src (symLoc g u)) ∨
  (g.kindOf u = K_STATE ∧ Reach g prm src (stLoc g u)) ∨
  (g.kindOf u = K_STMT ∧ ∃ e ∈ g.inE u, e.etype = E_USED ∧ Reach g prm src (symLoc g e.peer))

theorem hotR_step {g : Graph} {prm : Params} {src u : Nat} {l : Loc}
    (h : HotR g prm src u) (hc : Conseq g prm u l) : Reach g prm src l := by
  rcases h with ⟨hk, hr⟩ | ⟨hk, hr⟩ | ⟨hk, e, he, het, hr⟩
  · exact Reach.stepSym hk hr hc
  · exact Reach.stepState hk hr hc
  · exact Reach.stepStmt hk he het hr hc

theorem kinds_ne : K_SYMBOL ≠ K_STATE ∧ K_SYMBOL ≠ K_STMT ∧ K_STATE ≠ K_STMT := by decide

theorem nodeTag_hotR {g : Graph} {prm : Params} {src : Nat} {s : PState} {u : Nat}
    (hs : Sound g prm src s) (h : nodeTag g s u = true) : HotR g prm src u := by
  unfold nodeTag at h
  split at h
  · rename_i hk
    exact Or.inl ⟨by simpa using hk, hs.1 _ (List.contains_iff_mem.1 h)⟩
  · split at h
    · rename_i hk
      exact Or.inr (Or.inl ⟨by simpa using hk, hs.2 _ (List.contains_iff_mem.1 h)⟩)
    · split at h
      · rename_i hk
        rw [List.any_eq_true] at h
        obtain ⟨e, he, hp⟩ := h
        rw [Bool.and_eq_true] at hp
        exact Or.inr (Or.inr ⟨by simpa using hk, e, he, by simpa using hp.1,
          hs.1 _ (List.contains_iff_mem.1 hp.2)⟩)
      · exact absurd h (by simp)

/-- every action of `actsOf g prm u` that tags a location tags a consequence of `u` -/
theorem actsOf_conseq {g : Graph} {prm : Params} {u : Nat} {a : Act} {l : Loc}
    (ha : a ∈ actsOf g prm u) (hl : actLoc g a = some l) : Conseq g prm u l := by
  unfold actsOf at ha
  split at ha
  · -- symbol
    rename_i hk
    have hk' : g.kindOf u = K_SYMBOL := by simpa using hk
    unfold actsSymbol at ha
    rw [List.mem_filterMap] at ha
    obtain ⟨e, he, hea⟩ := ha
    split at hea
    · rename_i h1
      simp only [Option.some.injEq] at hea; subst hea
      simp only [actLoc, Option.some.injEq] at hl; subst hl
      exact Conseq.symState hk' he (by simpa using h1)
    · split at hea
      · simp only [Option.some.injEq] at hea; subst hea
        simp [actLoc] at hl
      · split at hea
        · rename_i h3
          split at hea
          · rename_i h4
            simp only [Option.some.injEq] at hea; subst hea
            simp only [actLoc, Option.some.injEq] at hl; subst hl
            exact Conseq.symFlow hk' he (by simpa using h3) (by simpa using h4)
          · exact absurd hea (by simp)
        · exact absurd hea (by simp)
  · split at ha
    · -- state
      rename_i hk
      have hk' : g.kindOf u = K_STATE := by simpa using hk
      unfold actsState at ha
      rw [List.mem_append] at ha
      rcases ha with ha | ha
      · rw [List.mem_filterMap] at ha
        obtain ⟨e, he, hea⟩ := ha
        split at hea
        · rename_i h1
          simp only [Option.some.injEq] at hea; subst hea
          simp only [actLoc, Option.some.injEq] at hl; subst hl
          rw [Bool.and_eq_true] at h1
          refine Conseq.stateUp hk' he (by simpa using h1.1) ?_
          intro hs
          have h2 := h1.2
          rw [hs] at h2
          simpa using h2
        · exact absurd hea (by simp)
      · rw [List.mem_filterMap] at ha
        obtain ⟨e, he, hea⟩ := ha
        split at hea
        · rename_i h1
          simp only [Option.some.injEq] at hea; subst hea
          simp only [actLoc, Option.some.injEq] at hl; subst hl
          rw [Bool.and_eq_true] at h1
          exact Conseq.stateDown hk' he (by simpa using h1.1) (by simpa using h1.2)
        · exact absurd hea (by simp)
    · split at ha
      · -- statement
        rename_i hk
        have hk' : g.kindOf u = K_STMT := by simpa using hk
        unfold actsStmt at ha
        split at ha
        · rename_i hp
          rw [List.mem_append] at ha
          rcases ha with ha | ha
          · rw [List.mem_filterMap] at ha
            obtain ⟨e, he, hea⟩ := ha
            split at hea
            · rename_i h1
              simp only [Option.some.injEq] at hea; subst hea
              simp only [actLoc, Option.some.injEq] at hl; subst hl
              exact Conseq.stmtDef hk' hp he (by simpa using h1)
            · exact absurd hea (by simp)
          · split at ha
            · rename_i hn
              rw [List.mem_filterMap] at ha
              obtain ⟨e, he, hea⟩ := ha
              split at hea
              · rename_i h1
                simp only [Option.some.injEq] at hea; subst hea
                simp only [actLoc, Option.some.injEq] at hl; subst hl
                simp only [Bool.and_eq_true, beq_iff_eq] at h1
                exact Conseq.recv hk' hp (by simpa using hn) he h1.1.1 h1.1.2 h1.2
              · exact absurd hea (by simp)
            · exact absurd ha (by simp)
        · exact absurd ha (by simp)
      · exact absurd ha (by simp)

theorem sound_of_eq {g : Graph} {prm : Params} {src : Nat} {s s' : PState}
    (hs : Sound g prm src s) (h1 : s'.symT = s.symT) (h2 : s'.stT = s.stT) : Sound g prm src s' :=
  ⟨by rw [h1]; exact hs.1, by rw [h2]; exact hs.2⟩

theorem sound_addSym {g : Graph} {prm : Params} {src : Nat} {s s' : PState} {i : Int}
    (hs : Sound g prm src s) (hi : Reach g prm src (true, i))
    (h1 : s'.symT = i :: s.symT) (h2 : s'.stT = s.stT) : Sound g prm src s' := by
  refine ⟨?_, by rw [h2]; exact hs.2⟩
  intro j hj
  rw [h1, List.mem_cons] at hj
  rcases hj with rfl | hj
  · exact hi
  · exact hs.1 j hj

theorem sound_addSt {g : Graph} {prm : Params} {src : Nat} {s s' : PState} {i : Int}
    (hs : Sound g prm src s) (hi : Reach g prm src (false, i))
    (h1 : s'.symT = s.symT) (h2 : s'.stT = i :: s.stT) : Sound g prm src s' := by
  refine ⟨by rw [h1]; exact hs.1, ?_⟩
  intro j hj
  rw [h2, List.mem_cons] at hj
  rcases hj with rfl | hj
  · exact hi
  · exact hs.2 j hj

theorem applyAct_sound {g : Graph} {prm : Params} {src : Nat} {s : PState} {a : Act}
    (hs : Sound g prm src s) (ha : ∀ l, actLoc g a = some l → Reach g prm src l) :
    Sound g prm src (applyAct g s a) := by
  cases a with
  | tagSym v =>
    simp only [applyAct]
    split
    · exact hs
    · exact sound_addSym hs (ha _ rfl) (by simp) (by simp)
  | tagSymP v =>
    simp only [applyAct]
    split
    · split
      · exact hs
      · exact sound_of_eq hs (by simp) (by simp)
    · exact sound_addSym hs (ha _ rfl) (by simp) (by simp)
  | tagSt v =>
    simp only [applyAct]
    split
    · exact hs
    · exact sound_addSt hs (ha _ rfl) (by simp) (by simp)
  | enq v =>
    simp only [applyAct]
    exact sound_of_eq hs (by simp) (by simp)

theorem foldl_applyAct_sound {g : Graph} {prm : Params} {src : Nat} (acts : List Act) :
    ∀ (s : PState), Sound g prm src s →
      (∀ a ∈ acts, ∀ l, actLoc g a = some l → Reach g prm src l) →
      Sound g prm src (acts.foldl (applyAct g) s) := by
  induction acts with
  | nil => intro s hs _; exact hs
  | cons a acts ih =>
    intro s hs h
    simp only [List.foldl_cons]
    exact ih _ (applyAct_sound hs (h a (List.mem_cons_self ..)))
      (fun b hb => h b (List.mem_cons_of_mem _ hb))

theorem step_sound {g : Graph} {prm : Params} {src : Nat} {s : PState}
    (hs : Sound g prm src s) : Sound g prm src (step g prm s) := by
  unfold step
  split
  · exact hs
  · rename_i u rest _
    have hs1 : Sound g prm src { s with wl := rest, processed := addNode s.processed u } := hs
    simp only
    split
    · rename_i hhot
      apply foldl_applyAct_sound _ _ hs1
      intro a ha l hl
      exact hotR_step (nodeTag_hotR hs1 hhot) (actsOf_conseq ha hl)
    · exact hs1

theorem run_sound {g : Graph} {prm : Params} {src : Nat} (fuel : Nat) :
    ∀ (s : PState), Sound g prm src s → Sound g prm src (run g prm fuel s) := by
  induction fuel with
  | zero => intro s hs; exact hs
  | succ n ih =>
    intro s hs
    unfold run
    split
    · exact hs
    · exact ih _ (step_sound hs)

theorem mem_addId {l : List Int} {i j : Int} : j ∈ addId l i ↔ j = i ∨ j ∈ l := by
  unfold addId
  split
  · rename_i h
    have := List.contains_iff_mem.1 h
    constructor
    · exact Or.inr
    · rintro (rfl | h) <;> assumption
  · simp

theorem init_sound (g : Graph) (prm : Params) (src : Nat) : Sound g prm src (initState g src) := by
  unfold initState
  split
  · rename_i hk
    have hk' : g.kindOf src = K_SYMBOL := by simpa using hk
    -- generalise the fold over a sub-list of the out-edges
    have key : ∀ (es : List Edge) (s : PState), (∀ e ∈ es, e ∈ g.outE src) → Sound g prm src s →
        Sound g prm src (es.foldl (fun s e =>
          if e.etype == E_SYMSTATE then enqueue { s with stT := addId s.stT (g.nid e.peer) } e.peer
          else s) s) := by
      intro es
      induction es with
      | nil => intro s _ hs; exact hs
      | cons e es ih =>
        intro s hsub hs
        simp only [List.foldl_cons]
        apply ih
        · intro e' he'; exact hsub e' (List.mem_cons_of_mem _ he')
        · split
          · rename_i het
            refine ⟨by simpa using hs.1, ?_⟩
            intro i hi
            simp only [enqueue_stT] at hi
            rcases mem_addId.1 hi with rfl | hi
            · exact Reach.initSymState hk' (hsub e (List.mem_cons_self ..)) (by simpa using het)
            · exact hs.2 i hi
          · exact hs
    apply key _ _ (fun e he => he)
    refine ⟨?_, by simp⟩
    intro i hi
    simp only [List.mem_singleton] at hi
    subst hi
    exact Reach.initSym hk'
  · split
    · rename_i hk
      refine ⟨by simp, ?_⟩
      intro i hi
      simp only [List.mem_singleton] at hi
      subst hi
      exact Reach.initState (by simpa using hk)
    · split
      · exact ⟨by simp, by simp⟩
      · exact ⟨by simp, by simp⟩

/-- **soundness of `propagate_taint`**: whatever it tags is reachable in the SFG. -/
theorem propagate_sound (g : Graph) (prm : Params) (src : Nat) :
    Sound g prm src (propagate g prm src) :=
  run_sound _ _ (init_sound g prm src)

/-! ### the saturation `reachSat` only returns reachable locations (certified checker) -/

theorem mem_addLocs {T ls : List Loc} {l : Loc} (h : l ∈ addLocs T ls) : l ∈ T ∨ l ∈ ls := by
  unfold addLocs at h
  induction ls generalizing T with
  | nil => exact Or.inl h
  | cons a ls ih =>
    simp only [List.foldl_cons] at h
    rcases ih h with h | h
    · split at h
      · exact Or.inl h
      · rw [List.mem_append, List.mem_singleton] at h
        rcases h with h | rfl
        · exact Or.inl h
        · exact Or.inr (List.mem_cons_self ..)
    · exact Or.inr (List.mem_cons_of_mem _ h)

theorem hot_hotR {g : Graph} {prm : Params} {src : Nat} {T : List Loc} {u : Nat}
    (hT : ∀ l ∈ T, Reach g prm src l) (h : hot g T u = true) : HotR g prm src u := by
  unfold hot at h
  split at h
  · rename_i hk
    exact Or.inl ⟨by simpa using hk, hT _ (List.contains_iff_mem.1 h)⟩
  · split at h
    · rename_i hk
      exact Or.inr (Or.inl ⟨by simpa using hk, hT _ (List.contains_iff_mem.1 h)⟩)
    · split at h
      · rename_i hk
        rw [List.any_eq_true] at h
        obtain ⟨e, he, hp⟩ := h
        rw [Bool.and_eq_true] at hp
        exact Or.inr (Or.inr ⟨by simpa using hk, e, he, by simpa using hp.1,
          hT _ (List.contains_iff_mem.1 hp.2)⟩)
      · exact absurd h (by simp)

theorem satRound_sound {g : Graph} {prm : Params} {src : Nat} {T : List Loc}
    (hT : ∀ l ∈ T, Reach g prm src l) : ∀ l ∈ satRound g prm T, Reach g prm src l := by
  unfold satRound
  generalize List.range g.size = us
  induction us generalizing T with
  | nil => exact hT
  | cons u us ih =>
    simp only [List.foldl_cons]
    apply ih
    split
    · rename_i hh
      intro l hl
      rcases mem_addLocs hl with hl | hl
      · exact hT l hl
      · unfold conseqs at hl
        rw [List.mem_filterMap] at hl
        obtain ⟨a, ha, hal⟩ := hl
        exact hotR_step (hot_hotR hT hh) (actsOf_conseq ha hal)
    · exact hT

theorem satIter_sound {g : Graph} {prm : Params} {src : Nat} (k : Nat) :
    ∀ {T : List Loc}, (∀ l ∈ T, Reach g prm src l) → ∀ l ∈ satIter g prm k T, Reach g prm src l := by
  induction k with
  | zero => intro T hT; exact hT
  | succ k ih =>
    intro T hT
    simp only [satIter]
    split
    · exact hT
    · exact ih (satRound_sound hT)

/-- **the closure computed by the driver is sound**: whatever `reachSat` returns is `Reach`. -/
theorem reachSat_sound (g : Graph) (prm : Params) (src : Nat) :
    ∀ l ∈ reachSat g prm src, Reach g prm src l := by
  unfold reachSat
  apply satIter_sound
  intro l hl
  unfold initLocs at hl
  split at hl
  · rename_i hk
    have hk' : g.kindOf src = K_SYMBOL := by simpa using hk
    rcases mem_addLocs hl with hl | hl
    · rw [List.mem_singleton] at hl; subst hl; exact Reach.initSym hk'
    · rw [List.mem_map] at hl
      obtain ⟨e, he, rfl⟩ := hl
      rw [List.mem_filter] at he
      exact Reach.initSymState hk' he.1 (by simpa using he.2)
  · split at hl
    · rename_i hk
      rw [List.mem_singleton] at hl; subst hl
      exact Reach.initState (by simpa using hk)
    · exact absurd hl (by simp)

/-! ### sink side: what a non-zero sink tag means -/

theorem foldl_addNew_mem (vis : List Nat) (l : List Nat) :
    ∀ (acc : List Nat) (x : Nat),
      x ∈ l.foldl (fun (acc : List Nat) v =>
        if vis.contains v || acc.contains v then acc else acc ++ [v]) acc → x ∈ acc ∨ x ∈ l := by
  induction l with
  | nil => intro acc x h; exact Or.inl h
  | cons a l ih =>
    intro acc x h
    simp only [List.foldl_cons] at h
    rcases ih _ x h with h | h
    · split at h
      · exact Or.inl h
      · rw [List.mem_append, List.mem_singleton] at h
        rcases h with h | rfl
        · exact Or.inl h
        · exact Or.inr (List.mem_cons_self ..)
    · exact Or.inr (List.mem_cons_of_mem _ h)

theorem inclBfs_sound (g : Graph) (v : Nat) (fuel : Nat) :
    ∀ (q vis : List Nat), (∀ x ∈ q, InclReach g v x) → (∀ x ∈ vis, InclReach g v x) →
      ∀ x ∈ inclBfs g fuel q vis, InclReach g v x := by
  induction fuel with
  | zero => intro q vis _ hv x hx; exact hv x (by simpa [inclBfs] using hx)
  | succ n ih =>
    intro q vis hq hv x hx
    cases q with
    | nil => exact hv x (by simpa [inclBfs] using hx)
    | cons u q =>
      simp only [inclBfs] at hx
      have hnew : ∀ y ∈ (inclSuccs g u).foldl (fun (acc : List Nat) v =>
          if vis.contains v || acc.contains v then acc else acc ++ [v]) [], InclReach g v y := by
        intro y hy
        rcases foldl_addNew_mem vis (inclSuccs g u) [] y hy with h | h
        · exact absurd h (by simp)
        · exact InclReach.step (hq u (List.mem_cons_self ..)) h
      apply ih _ _ _ _ x hx
      · intro y hy
        rcases List.mem_append.1 hy with hy | hy
        · exact hq y (List.mem_cons_of_mem _ hy)
        · exact hnew y hy
      · intro y hy
        rcases List.mem_append.1 hy with hy | hy
        · exact hv y hy
        · exact hnew y hy

theorem stateInclTag_sound {g : Graph} {s : PState} {v : Nat} (h : stateInclTag g s v = true) :
    ∃ x, InclReach g v x ∧ g.nid x ∈ s.stT := by
  unfold stateInclTag at h
  rw [List.any_eq_true] at h
  obtain ⟨x, hx, ht⟩ := h
  refine ⟨x, ?_, List.contains_iff_mem.1 ht⟩
  apply inclBfs_sound g v _ [v] [v] _ _ x hx
  · intro y hy; rw [List.mem_singleton] at hy; subst hy; exact InclReach.refl
  · intro y hy; rw [List.mem_singleton] at hy; subst hy; exact InclReach.refl

/-- a non-zero `get_symbol_with_states_tag(p)` comes from a watched location that carries the tag -/
theorem symWithStatesTag_sound {g : Graph} {s : PState} {p : Nat}
    (h : symWithStatesTag g s p = true) : ∃ l, Watch g p l ∧ TaggedLoc s l := by
  unfold symWithStatesTag at h
  rw [Bool.or_eq_true] at h
  rcases h with h | h
  · exact ⟨symLoc g p, Watch.self, Or.inl ⟨rfl, List.contains_iff_mem.1 h⟩⟩
  · rw [List.any_eq_true] at h
    obtain ⟨e, he, hp⟩ := h
    rw [Bool.and_eq_true] at hp
    obtain ⟨x, hx, ht⟩ := stateInclTag_sound hp.2
    exact ⟨stLoc g x, Watch.state he (by simpa using hp.1) hx, Or.inr ⟨rfl, ht⟩⟩

theorem taggedLoc_reach {g : Graph} {prm : Params} {src : Nat} {s : PState} {l : Loc}
    (hs : Sound g prm src s) (h : TaggedLoc s l) : Reach g prm src l := by
  rcases h with ⟨h1, h2⟩ | ⟨h1, h2⟩
  · have := hs.1 _ h2
    rw [← h1] at this; exact this
  · have := hs.2 _ h2
    rw [← h1] at this; exact this

/-- the contribution of one target when `target_pos` is re-initialised per target -/
def targetHit (g : Graph) (s : PState) (op : String) (used : List Edge) (t : Option String) : Bool :=
  used.any (fun e => posHit op t ((targetPos? t).getD (-1)) e && symWithStatesTag g s e.peer)

theorem sinkTagTarget_reset {vr : Variant} (hr : vr.resetTargetPos = true) (g : Graph) (s : PState)
    (op : String) (used : List Edge) (st : Option Int × Bool × Bool) (t : Option String) :
    sinkTagTarget vr g s op used st t =
      (some ((targetPos? t).getD (-1)), st.2.1 || targetHit g s op used t, st.2.2) := by
  unfold sinkTagTarget
  simp only [hr, if_true]
  rfl

theorem fold_targets_reset {vr : Variant} (hr : vr.resetTargetPos = true) (g : Graph) (s : PState)
    (op : String) (used : List Edge) (ts : List (Option String)) :
    ∀ (st : Option Int × Bool × Bool),
      (ts.foldl (sinkTagTarget vr g s op used) st).2.1 = (st.2.1 || ts.any (targetHit g s op used)) ∧
      (ts.foldl (sinkTagTarget vr g s op used) st).2.2 = st.2.2 := by
  induction ts with
  | nil => intro st; simp
  | cons t ts ih =>
    intro st
    simp only [List.foldl_cons, List.any_cons]
    obtain ⟨h1, h2⟩ := ih (sinkTagTarget vr g s op used st t)
    rw [h1, h2, sinkTagTarget_reset hr]
    simp [Bool.or_assoc]

theorem fold_rules_reset {vr : Variant} (hr : vr.resetTargetPos = true) (g : Graph) (s : PState)
    (op : String) (used : List Edge) (rules : List Rule) :
    ∀ (st : Option Int × Bool × Bool),
      (rules.foldl (fun st r => (targetsOf r).foldl (sinkTagTarget vr g s op used) st) st).2.1 =
        (st.2.1 || rules.any (fun r => (targetsOf r).any (targetHit g s op used))) ∧
      (rules.foldl (fun st r => (targetsOf r).foldl (sinkTagTarget vr g s op used) st) st).2.2 =
        st.2.2 := by
  induction rules with
  | nil => intro st; simp
  | cons r rules ih =>
    intro st
    simp only [List.foldl_cons, List.any_cons]
    obtain ⟨h1, h2⟩ := ih ((targetsOf r).foldl (sinkTagTarget vr g s op used) st)
    obtain ⟨h3, h4⟩ := fold_targets_reset hr g s op used (targetsOf r) st
    rw [h1, h2, h3, h4]
    simp [Bool.or_assoc]

/-- the from-code part of `get_sink_tag_by_rules` -/
def codeSinkHit (vr : Variant) (rs : RuleSet) (nd : Node) : Bool :=
  rs.sinkCode.any (fun c =>
    (!vr.codeSinkUnit || strIn c.unitPath nd.unitPath) &&
    langOk vr c.lang nd && nd.lineNo + 1 == c.lineNum && strIn c.symbolName nd.operation)

/-- closed form of the sink tag when `target_pos` is re-initialised per target (the repaired code) -/
theorem sinkTag_reset {vr : Variant} (hr : vr.resetTargetPos = true) (g : Graph) (rs : RuleSet)
    (s : PState) (n : Nat) (hk : (g.node n).kind = K_STMT) :
    (sinkTag vr g rs s n).tag =
      ((sinkMatching vr g rs n).any (fun r => (targetsOf r).any
          (targetHit g s (g.node n).name ((g.inE n).filter (fun e => e.etype == E_USED)))) ||
       (codeSinkHit vr rs (g.node n) && (g.inE n).any (fun e =>
          (!vr.codeSinkSymOnly || g.kindOf e.peer == K_SYMBOL) && symWithStatesTag g s e.peer))) ∧
    (sinkTag vr g rs s n).err = false := by
  unfold sinkTag
  simp only [hk, bne_self_eq_false, Bool.false_eq_true, if_false]
  obtain ⟨h1, h2⟩ := fold_rules_reset hr g s (g.node n).name
    ((g.inE n).filter (fun e => e.etype == E_USED)) (sinkMatching vr g rs n) (none, false, false)
  constructor
  · rw [h1]; simp [codeSinkHit]
  · rw [h2]

theorem sinkTag_nonstmt (vr : Variant) (g : Graph) (rs : RuleSet) (s : PState) (n : Nat)
    (hk : (g.node n).kind ≠ K_STMT) : (sinkTag vr g rs s n).tag = false := by
  unfold sinkTag
  have : ((g.node n).kind != K_STMT) = true := by simpa using hk
  simp [this]

/-- membership in `find_flows` -/
theorem mem_findFlows {vr : Variant} {g : Graph} {prm : Params} {rs : RuleSet}
    {sources sinks : List Nat} {f : Flow} :
    f ∈ findFlows vr g prm rs sources sinks ↔
      f.src ∈ sources ∧ f.sink ∈ sinks ∧
      (sinkTag vr g rs (propagate g prm f.src) f.sink).tag = true ∧
      f.vuln = (sinkTag vr g rs (propagate g prm f.src) f.sink).vuln := by
  unfold findFlows
  simp only [List.mem_flatMap, List.mem_filterMap]
  constructor
  · rintro ⟨src, hsrc, snk, hsnk, h⟩
    split at h
    · rename_i ht
      simp only [Option.some.injEq] at h
      subst h
      exact ⟨hsrc, hsnk, ht, rfl⟩
    · exact absurd h (by simp)
  · rintro ⟨h1, h2, h3, h4⟩
    refine ⟨f.src, h1, f.sink, h2, ?_⟩
    simp only [h3, if_true, Option.some.injEq]
    cases f
    simp_all

end LianVerif.Taint
