/-
Helper lemmas for C06 (membership characterisations of the list-encoded sets and of gen/kill,
invariance of the "every retained definition has a definition-clear path" property under a visit).
-/
import LianVerif.Model.ReachDef
import LianVerif.Spec.ClassicalRD

namespace LianVerif.ReachDef
open LianVerif.ClassicalRD

/-! ### sets as lists -/

theorem mem_union {a b : List Def} {d : Def} : d ∈ union a b ↔ d ∈ a ∨ d ∈ b := by
  unfold union
  induction b generalizing a with
  | nil => simp
  | cons x xs ih =>
    simp only [List.foldl_cons]
    rw [ih]
    cases hc : a.contains x with
    | true =>
      have hx : x ∈ a := List.contains_iff_mem.1 hc
      simp only [if_true, List.mem_cons]
      constructor
      · rintro (h1 | h1)
        · exact Or.inl h1
        · exact Or.inr (Or.inr h1)
      · rintro (h1 | h1 | h1)
        · exact Or.inl h1
        · subst h1; exact Or.inl hx
        · exact Or.inr h1
    | false =>
      simp only [Bool.false_eq_true, if_false, List.mem_append, List.mem_cons, List.not_mem_nil, or_false]
      constructor
      · rintro ((h1 | h1) | h1)
        · exact Or.inl h1
        · exact Or.inr (Or.inl h1)
        · exact Or.inr (Or.inr h1)
      · rintro (h1 | h1 | h1)
        · exact Or.inl (Or.inl h1)
        · exact Or.inl (Or.inr h1)
        · exact Or.inr h1

theorem mem_unionAll_aux (f : Int → List Def) (ps : List Int) (acc : List Def) (d : Def) :
    d ∈ ps.foldl (fun acc p => union acc (f p)) acc ↔ d ∈ acc ∨ ∃ p ∈ ps, d ∈ f p := by
  induction ps generalizing acc with
  | nil => simp
  | cons p ps ih =>
    simp only [List.foldl_cons]
    rw [ih, mem_union]
    constructor
    · rintro ((h | h) | ⟨q, hq, hd⟩)
      · exact Or.inl h
      · exact Or.inr ⟨p, List.mem_cons_self, h⟩
      · exact Or.inr ⟨q, List.mem_cons_of_mem _ hq, hd⟩
    · rintro (h | ⟨q, hq, hd⟩)
      · exact Or.inl (Or.inl h)
      · rcases List.mem_cons.1 hq with rfl | hq
        · exact Or.inl (Or.inr hd)
        · exact Or.inr ⟨q, hq, hd⟩

theorem mem_unionAll {f : Int → List Def} {ps : List Int} {d : Def} :
    d ∈ unionAll f ps ↔ ∃ p ∈ ps, d ∈ f p := by
  unfold unionAll
  rw [mem_unionAll_aux]
  simp

theorem mem_preds {E : List (Int × Int)} {p u : Int} : p ∈ preds E u ↔ (p, u) ∈ E := by
  unfold preds
  simp only [List.mem_map, List.mem_filter, beq_iff_eq]
  constructor
  · rintro ⟨⟨a, b⟩, ⟨hm, hb⟩, ha⟩
    simp only at hb ha
    subst hb; subst ha; exact hm
  · intro h
    exact ⟨(p, u), ⟨h, rfl⟩, rfl⟩

theorem upd_same {β : Type} (f : Int → β) (k : Int) (v : β) : upd f k v k = v := by
  simp [upd]

theorem upd_other {β : Type} (f : Int → β) {k x : Int} (v : β) (h : x ≠ k) : upd f k v x = f x := by
  simp [upd, h]

/-! ### gen/kill -/

theorem mem_transferIdeal (s : Int) (syms : List Int) (cur : List Def) (d : Def) :
    d ∈ transferIdeal s syms cur ↔ (d ∈ cur ∧ d.1 ∉ syms) ∨ (d.2 = s ∧ d.1 ∈ syms) := by
  induction syms generalizing cur with
  | nil => simp [transferIdeal]
  | cons sym rest ih =>
    simp only [transferIdeal]
    rw [ih]
    obtain ⟨a, b⟩ := d
    simp only [List.mem_append, List.mem_filter, bne_iff_ne, ne_eq, List.mem_cons,
      List.not_mem_nil, or_false, not_or, Prod.mk.injEq]
    constructor
    · rintro (⟨(⟨h1, h2⟩ | ⟨h1, h2⟩), h3⟩ | ⟨h1, h2⟩)
      · exact Or.inl ⟨h1, h2, h3⟩
      · exact Or.inr ⟨h2, Or.inl h1⟩
      · exact Or.inr ⟨h1, Or.inr h2⟩
    · rintro (⟨h1, h2, h3⟩ | ⟨h1, (h2 | h2)⟩)
      · exact Or.inl ⟨Or.inl ⟨h1, h2⟩, h3⟩
      · by_cases hr : a ∈ rest
        · exact Or.inr ⟨h1, hr⟩
        · exact Or.inl ⟨Or.inr ⟨h2, h1⟩, hr⟩
      · exact Or.inr ⟨h1, h2⟩

/-- when the shortcut is never taken, the code's gen/kill is the textbook one -/
theorem transfer_eq_ideal (s : Int) (syms : List Int) (cur : List Def)
    (h : (transfer s syms cur).2 = 0) : (transfer s syms cur).1 = transferIdeal s syms cur := by
  induction syms generalizing cur with
  | nil => simp [transfer, transferIdeal]
  | cons sym rest ih =>
    simp only [transfer] at h ⊢
    split at h
    · simp at h
    · rename_i hc
      simp only [hc, Bool.false_eq_true, if_false, transferIdeal]
      exact ih _ h

/-! ### soundness of kill: the invariant and its preservation by a visit -/

/-- every definition in an out set survives to that exit along a definition-clear path, every
definition in an in set reaches that entry -/
def Inv (E : List (Int × Int)) (defs : List (Int × List Int)) (ins outs : Int → List Def) : Prop :=
  (∀ u d, d ∈ outs u → ReachOut (EdgeOf E) (defsOf defs) d u) ∧
  (∀ u d, d ∈ ins u → ReachIn (EdgeOf E) (defsOf defs) d u)

theorem inv_empty (E : List (Int × Int)) (defs : List (Int × List Int)) :
    Inv E defs (fun _ => []) (fun _ => []) := by
  constructor <;> intro u d h <;> simp at h

/-- in-set of a visit: union of out sets of *some* predecessors -/
theorem reachIn_of_unionAll {E : List (Int × Int)} {defs : List (Int × List Int)}
    {outs : Int → List Def} (hout : ∀ u d, d ∈ outs u → ReachOut (EdgeOf E) (defsOf defs) d u)
    {ps : List Int} {s : Int} (hps : ∀ p ∈ ps, (p, s) ∈ E) {d : Def} (hd : d ∈ unionAll outs ps) :
    ReachIn (EdgeOf E) (defsOf defs) d s := by
  obtain ⟨p, hp, hdp⟩ := mem_unionAll.1 hd
  exact ⟨p, hout p d hdp, hps p hp⟩

/-- out-set of a visit with the textbook gen/kill -/
theorem reachOut_of_transferIdeal {E : List (Int × Int)} {defs : List (Int × List Int)}
    {s : Int} {inS : List Def} (hin : ∀ d, d ∈ inS → ReachIn (EdgeOf E) (defsOf defs) d s)
    {d : Def} (hd : d ∈ transferIdeal s (defsOf defs s) inS) :
    ReachOut (EdgeOf E) (defsOf defs) d s := by
  rcases (mem_transferIdeal s _ inS d).1 hd with ⟨h1, h2⟩ | ⟨h1, h2⟩
  · obtain ⟨p, hp, he⟩ := hin d h1
    exact ReachOut.step hp he h2
  · obtain ⟨a, b⟩ := d
    simp only at h1 h2
    subst h1
    exact ReachOut.gen h2

theorem inv_upd {E : List (Int × Int)} {defs : List (Int × List Int)} {ins outs : Int → List Def}
    (h : Inv E defs ins outs) {s : Int} {inS outS : List Def}
    (hin : ∀ d, d ∈ inS → ReachIn (EdgeOf E) (defsOf defs) d s)
    (hout : ∀ d, d ∈ outS → ReachOut (EdgeOf E) (defsOf defs) d s) :
    Inv E defs (upd ins s inS) (upd outs s outS) := by
  constructor
  · intro u d hd
    by_cases hu : u = s
    · subst hu; rw [upd_same] at hd; exact hout d hd
    · rw [upd_other _ _ hu] at hd; exact h.1 u d hd
  · intro u d hd
    by_cases hu : u = s
    · subst hu; rw [upd_same] at hd; exact hin d hd
    · rw [upd_other _ _ hu] at hd; exact h.2 u d hd

/-! ### the use-site layer: every definition in any table is a registered one -/

theorem mem_transfer_imp (s : Int) : ∀ (syms : List Int) (cur : List Def) (d : Def),
    d ∈ (transfer s syms cur).1 → d ∈ cur ∨ (d.2 = s ∧ d.1 ∈ syms) := by
  intro syms
  induction syms with
  | nil => intro cur d h; exact Or.inl (by simpa [transfer] using h)
  | cons sym rest ih =>
    intro cur d h
    simp only [transfer] at h
    split at h
    · rcases ih cur d h with h1 | ⟨h1, h2⟩
      · exact Or.inl h1
      · exact Or.inr ⟨h1, List.mem_cons_of_mem _ h2⟩
    · rcases ih _ d h with h1 | ⟨h1, h2⟩
      · rw [List.mem_append] at h1
        rcases h1 with h1 | h1
        · exact Or.inl (List.mem_filter.1 h1).1
        · rw [List.mem_singleton] at h1
          subst h1
          exact Or.inr ⟨rfl, List.mem_cons_self⟩
      · exact Or.inr ⟨h1, List.mem_cons_of_mem _ h2⟩

theorem lookup_mem : ∀ (l : List (Int × List Int)) {s : Int} {v : List Int}, l.lookup s = some v → (s, v) ∈ l := by
  intro l
  induction l with
  | nil => intro s v h; simp at h
  | cons e es ih =>
    intro s v h
    obtain ⟨a, b⟩ := e
    simp only [List.lookup_cons] at h
    split at h
    · rename_i heq
      have : s = a := by simpa using heq
      simp only [Option.some.injEq] at h
      subst this; subst h
      exact List.mem_cons_self
    · exact List.mem_cons_of_mem _ (ih h)

theorem mem_register_of_defsOf (I : Input) {sym s : Int} (h : sym ∈ defsOf I.defs s) :
    (sym, s) ∈ register I := by
  unfold defsOf at h
  split at h
  · rename_i l hl
    unfold register
    rw [List.mem_flatMap]
    refine ⟨(s, l), ?_, ?_⟩
    · exact lookup_mem I.defs hl
    · simp only [List.mem_map]
      exact ⟨sym, h, rfl⟩
  · simp at h

/-- every definition in any table of the state is a registered one -/
def RegInv (I : Input) (st : St) : Prop :=
  (∀ u d, d ∈ st.outs u → d ∈ register I) ∧ (∀ u d, d ∈ st.ins u → d ∈ register I) ∧
  (∀ l ∈ st.inTrace, ∀ d ∈ l, d ∈ register I)

theorem analyse_reg (I : Input) (G : Graph) (st : St) (s : Int) (h : RegInv I st) :
    (∀ d ∈ (analyse I G st s).1, d ∈ register I) ∧ (∀ d ∈ (analyse I G st s).2.1, d ∈ register I) := by
  have hin : ∀ d ∈ (analyse I G st s).1, d ∈ register I := by
    intro d hd
    obtain ⟨p, _, hdp⟩ := mem_unionAll.1 hd
    exact h.1 p d hdp
  refine ⟨hin, ?_⟩
  intro d hd
  rcases mem_transfer_imp s _ _ d hd with h1 | ⟨h1, h2⟩
  · exact hin d h1
  · obtain ⟨a, b⟩ := d
    simp only at h1 h2
    subst h1
    exact mem_register_of_defsOf I h2

theorem step_reg (v : Variant) (I : Input) (G : Graph) (st : St) (h : RegInv I st) :
    RegInv I (step v I G st) := by
  unfold step
  split
  · exact h
  · rename_i s _
    split
    · exact h
    · split
      · obtain ⟨ha1, ha2⟩ := analyse_reg I G st s h
        refine ⟨?_, ?_, ?_⟩
        · intro u d hd
          simp only at hd
          by_cases hu : u = s
          · subst hu; rw [upd_same] at hd; exact ha2 d hd
          · rw [upd_other _ _ hu] at hd; exact h.1 u d hd
        · intro u d hd
          simp only at hd
          by_cases hu : u = s
          · subst hu; rw [upd_same] at hd; exact ha1 d hd
          · rw [upd_other _ _ hu] at hd; exact h.2.1 u d hd
        · intro l hl d hd
          simp only at hl
          rcases List.mem_cons.1 hl with rfl | hl
          · exact ha1 d hd
          · exact h.2.2 l hl d hd
      · exact h

theorem run_reg (v : Variant) (I : Input) (G : Graph) : ∀ (fuel : Nat) (st : St), RegInv I st →
    RegInv I (run v I G fuel st) := by
  intro fuel
  induction fuel with
  | zero => intro st h; exact h
  | succ n ih => intro st h; simp only [run]; exact ih _ (step_reg v I G st h)

theorem useSite_eq_filter {reg avail : List Def} (h : ∀ d ∈ avail, d ∈ reg) (sym : Int) :
    useSite reg avail sym = avail.filter (fun d => d.1 == sym) := by
  unfold useSite
  apply List.filter_congr
  intro d hd
  have : reg.contains d = true := List.contains_iff_mem.2 (h d hd)
  rw [this, Bool.and_true]

/-! ### termination of the visit loop: a ranking function -/

open LianVerif.WorkList

theorem siftdown_length (e : Entry) : ∀ (fuel : Nat) (heap : List Entry) (pos : Nat),
    (siftdown e fuel heap pos).length = heap.length := by
  intro fuel
  induction fuel with
  | zero => intro heap pos; simp [siftdown]
  | succ n ih =>
    intro heap pos
    simp only [siftdown]
    split
    · split
      · rw [ih]; simp
      · simp
    · simp

theorem heappush_length (heap : List Entry) (e : Entry) : (heappush heap e).length = heap.length + 1 := by
  simp [heappush, siftdown_length]

theorem siftupHole_length (endpos : Nat) : ∀ (fuel : Nat) (heap : List Entry) (pos : Nat),
    (siftupHole endpos fuel heap pos).1.length = heap.length := by
  intro fuel
  induction fuel with
  | zero => intro heap pos; simp [siftupHole]
  | succ n ih =>
    intro heap pos
    simp only [siftupHole]
    split
    · rw [ih]; simp
    · rfl

theorem heappop_length (heap : List Entry) (h : heap ≠ []) : (heappop heap).length = heap.length - 1 := by
  unfold heappop
  cases hl : heap.getLast? with
  | none => simp [List.getLast?_eq_none_iff] at hl; exact absurd hl h
  | some last =>
    simp only
    cases hr : heap.dropLast with
    | nil =>
      have : heap.length - 1 = 0 := by
        have := congrArg List.length hr
        simpa using this
      simp [this]
    | cons a tl =>
      simp only
      rw [siftdown_length, List.length_set, siftupHole_length]
      have := congrArg List.length hr
      simp at this
      simp; omega

theorem add1_length (prio : List (Int × Nat)) (w : WL) (x : Int) :
    (w.add1 prio x).heap.length ≤ w.heap.length + 1 := by
  unfold WL.add1
  split
  · omega
  · split
    · simp
    · simp [heappush_length]

theorem add_length (prio : List (Int × Nat)) (items : List Int) : ∀ (w : WL),
    (w.add prio items).heap.length ≤ w.heap.length + items.length := by
  unfold WL.add
  induction items with
  | nil => intro w; simp
  | cons x xs ih =>
    intro w
    simp only [List.foldl_cons, List.length_cons]
    have h1 := ih (w.add1 prio x)
    have h2 := add1_length prio w x
    omega

theorem add1_heap_ne (prio : List (Int × Nat)) (w : WL) (x : Int) (h : w.heap ≠ []) :
    (w.add1 prio x).heap ≠ [] := by
  unfold WL.add1
  split
  · exact h
  · split
    · simp
    · intro hc
      have := congrArg List.length hc
      simp [heappush_length] at this

theorem add_heap_ne (prio : List (Int × Nat)) (items : List Int) : ∀ (w : WL), w.heap ≠ [] →
    (w.add prio items).heap ≠ [] := by
  unfold WL.add
  induction items with
  | nil => intro w h; exact h
  | cons x xs ih => intro w h; exact ih _ (add1_heap_ne prio w x h)

theorem pop0_length (w : WL) (h : w.heap ≠ []) : w.pop0.heap.length = w.heap.length - 1 := by
  unfold WL.pop0
  cases hh : w.heap with
  | nil => exact absurd hh h
  | cons e rest => simp

theorem popMin_length (w : WL) (h : w.heap ≠ []) : w.popMin.heap.length = w.heap.length - 1 := by
  unfold WL.popMin
  cases hh : w.heap with
  | nil => exact absurd hh h
  | cons e rest =>
    simp only
    have := heappop_length (e :: rest) (by simp)
    simpa using this

theorem popV_length (v : Variant) (G : Graph) (w : WL) (h : w.heap ≠ []) :
    (popV v G w).heap.length = w.heap.length - 1 := by
  unfold popV
  cases v
  · exact pop0_length w h
  · simp only; split
    · exact pop0_length w h
    · exact popMin_length w h

theorem peek_some_ne {w : WL} {s : Int} (h : w.peek = some s) : w.heap ≠ [] := by
  unfold WL.peek at h
  intro hc; rw [hc] at h; simp at h

theorem peek_none_nil {w : WL} (h : w.peek = none) : w.heap = [] := by
  unfold WL.peek at h
  cases hh : w.heap with
  | nil => rfl
  | cons e r => rw [hh] at h; simp at h

/-- remaining push budget: one unit per CFG edge and remaining visit of its source -/
def budget (M : Nat) (c : Int → Nat) : List (Int × Int) → Nat
  | [] => 0
  | e :: es => (M - c e.1) + budget M c es

theorem budget_le (M : Nat) (c : Int → Nat) : ∀ E, budget M c E ≤ M * E.length := by
  intro E
  induction E with
  | nil => simp [budget]
  | cons e es ih =>
    simp only [budget, List.length_cons]
    have : M - c e.1 ≤ M := Nat.sub_le _ _
    rw [Nat.mul_succ]; omega

theorem budget_visit (M : Nat) (c : Int → Nat) (s : Int) (hlt : c s < M) : ∀ E : List (Int × Int),
    budget M (upd c s (c s + 1)) E + (succs E s).length = budget M c E := by
  intro E
  induction E with
  | nil => simp [budget, succs]
  | cons e es ih =>
    simp only [budget]
    by_cases he : e.1 = s
    · have hs : succs (e :: es) s = e.2 :: succs es s := by
        simp [succs, he]
      rw [hs, he, upd_same]
      simp only [List.length_cons]
      omega
    · have hs : succs (e :: es) s = succs es s := by
        have : (e.1 == s) = false := by simpa using he
        simp [succs, this]
      rw [hs, upd_other _ _ he]
      omega

def mu (I : Input) (G : Graph) (st : St) : Nat := st.wl.heap.length + budget I.maxRound st.counters G.E

theorem step_mu (v : Variant) (I : Input) (G : Graph) (st : St) (hne : st.wl.heap ≠ []) :
    mu I G (step v I G st) + 1 ≤ mu I G st := by
  unfold step
  split
  · rename_i hp; exact absurd (peek_none_nil hp) hne
  · rename_i s hp
    split
    · simp only [mu]
      have := popV_length v G st.wl hne
      have : st.wl.heap.length ≥ 1 := by
        cases hh : st.wl.heap with
        | nil => exact absurd hh hne
        | cons _ _ => simp
      omega
    · split
      · rename_i hlt
        simp only [mu]
        have hb := budget_visit I.maxRound st.counters s hlt G.E
        have hlen : st.wl.heap.length ≥ 1 := by
          cases hh : st.wl.heap with
          | nil => exact absurd hh hne
          | cons _ _ => simp
        cases v with
        | pinned =>
          simp only
          have h1 := add_length G.prio (succs G.E s) st.wl
          have h2 := pop0_length (st.wl.add G.prio (succs G.E s)) (add_heap_ne _ _ _ hne)
          omega
        | r1 =>
          simp only
          have h1 := add_length G.prio (succs G.E s) (popV .r1 G st.wl)
          have h2 := popV_length .r1 G st.wl hne
          omega
      · simp only [mu]
        have := popV_length v G st.wl hne
        have : st.wl.heap.length ≥ 1 := by
          cases hh : st.wl.heap with
          | nil => exact absurd hh hne
          | cons _ _ => simp
        omega

theorem step_nil (v : Variant) (I : Input) (G : Graph) (st : St) (h : st.wl.heap = []) :
    step v I G st = st := by
  unfold step
  have : st.wl.peek = none := by simp [WL.peek, h]
  simp [this]

theorem run_nil (v : Variant) (I : Input) (G : Graph) : ∀ (fuel : Nat) (st : St), st.wl.heap = [] →
    (run v I G fuel st).wl.heap = [] := by
  intro fuel
  induction fuel with
  | zero => intro st h; exact h
  | succ n ih => intro st h; simp only [run]; rw [step_nil v I G st h]; exact ih st h

theorem run_finishes (v : Variant) (I : Input) (G : Graph) : ∀ (fuel : Nat) (st : St),
    mu I G st ≤ fuel → (run v I G fuel st).wl.heap = [] := by
  intro fuel
  induction fuel with
  | zero =>
    intro st h
    simp only [run]
    have : st.wl.heap.length = 0 := by unfold mu at h; omega
    exact List.eq_nil_of_length_eq_zero this
  | succ n ih =>
    intro st h
    simp only [run]
    by_cases hne : st.wl.heap = []
    · rw [step_nil v I G st hne]; exact run_nil v I G n st hne
    · exact ih _ (by have := step_mu v I G st hne; omega)

theorem init_mu (I : Input) (G : Graph) (hfirst : G.first.length ≤ G.nodes.length) :
    mu I G (init G) ≤ runFuel I G := by
  unfold mu init runFuel
  simp only
  have h1 := add_length G.prio G.first WL.empty
  have h2 := budget_le I.maxRound (fun _ => 0) G.E
  have h0 : (WL.empty).heap.length = 0 := rfl
  have : I.maxRound * G.E.length ≤ I.maxRound * (G.E.length + 1) * 1 := by
    rw [Nat.mul_one]; exact Nat.mul_le_mul_left _ (Nat.le_succ _)
  omega

theorem mkGraph_first_le (raw : List (Int × Int)) : (mkGraph raw).first.length ≤ (mkGraph raw).nodes.length := by
  unfold mkGraph
  simp only
  exact List.length_filter_le _ _

end LianVerif.ReachDef
