/-
`add_main_func` (model) keeps "statements of one block appear in increasing id order" and creates
at most one `%unit_init`.
-/
import LianVerif.Proofs.MainFunc

namespace LianVerif.Gir
open LianVerif.MainFunc

/-- the `ordered` clause of `WFUnit`, as a relation -/
def OrdRel (a b : Row) : Prop :=
  a.isMarker = false → b.isMarker = false → a.parent = b.parent → a.id < b.id

/-- ids increase, in table order, among the rows that introduce an id (what `flatten` gives) -/
def IncRel (a b : Row) : Prop := a.isEnd = false → b.isEnd = false → a.id < b.id

theorem IncRel.ord {a b : Row} (h : IncRel a b) : OrdRel a b :=
  fun ha hb _ => h (isMarker_false_iff.1 ha).2 (isMarker_false_iff.1 hb).2

theorem inc_of_ids {rows : Rows} {n k : Nat} (h : defIds rows = List.range' n k) : rows.Pairwise IncRel := by
  have h1 : (defIds rows).Pairwise (· < ·) := by rw [h]; exact range'_pairwise_lt n k
  simp only [defIds, List.pairwise_map, List.pairwise_filter] at h1
  refine h1.imp ?_
  intro a b hab ha hb
  exact hab (by simp [ha]) (by simp [hb])

/-! ### `split` keeps the order -/

theorem split_sublist (P : MainFunc.Params) : ∀ (rows : Rows) (moving : Bool),
    (split P moving rows).1.Sublist rows ∧ (split P moving rows).2.Sublist rows := by
  intro rows
  induction rows with
  | nil => intro moving; simp [split]
  | cons x rest ih =>
    intro moving
    simp only [split]
    by_cases h0 : (x.parent == 0) = true
    · by_cases hk : MainFunc.keepsTop P x.op = true
      · simp only [h0, hk, if_true]
        exact ⟨(ih false).1.cons_cons x, (ih false).2.cons x⟩
      · simp only [h0, hk, if_true, Bool.false_eq_true, if_false]
        exact ⟨(ih true).1.cons x, (ih true).2.cons_cons x⟩
    · cases moving with
      | true =>
        simp only [h0, Bool.false_eq_true, if_false, if_true]
        exact ⟨(ih true).1.cons x, (ih true).2.cons_cons x⟩
      | false =>
        simp only [h0, Bool.false_eq_true, if_false]
        exact ⟨(ih false).1.cons_cons x, (ih false).2.cons x⟩

/-! ### every parent is 0, the pending owner, or the id of a row of the same half -/

/-- some row of `pool` introduces the id `i` -/
def HasDef (pool : Rows) (i : Nat) : Prop := ∃ s ∈ pool, s.isEnd = false ∧ s.id = i

theorem HasDef.mono {pool pool' : Rows} {i : Nat} (h : HasDef pool i) (hsub : ∀ s ∈ pool, s ∈ pool') :
    HasDef pool' i := by
  obtain ⟨s, hs, h1, h2⟩ := h
  exact ⟨s, hsub s hs, h1, h2⟩

theorem block_closed {p : Nat} {last : Option Row} {rows : Rows} (h : Shape p last rows) :
    ∀ r ∈ rows, r.parent = p ∨ (∃ o, last = some o ∧ r.parent = o.id) ∨ HasDef rows r.parent := by
  induction h with
  | nil => intro r hr; simp at hr
  | @stmt p last r rest hm hp _ ih =>
    intro x hx
    rcases List.mem_cons.1 hx with rfl | hx
    · exact Or.inl hp
    · rcases ih x hx with h | ⟨o, ho, h⟩ | h
      · exact Or.inl h
      · cases ho
        exact Or.inr (Or.inr ⟨_, List.mem_cons_self, (isMarker_false_iff.1 hm).2, h.symm⟩)
      · exact Or.inr (Or.inr (h.mono (fun s hs => List.mem_cons_of_mem _ hs)))
  | @block p o s e inner rest hs he hid hsp hep ha _ _ ih1 ih2 =>
    intro x hx
    simp only [List.mem_cons, List.mem_append] at hx
    rcases hx with rfl | hx | rfl | hx
    · exact Or.inr (Or.inl ⟨o, rfl, hsp⟩)
    · rcases ih1 x hx with h | ⟨o', ho', _⟩ | h
      · exact Or.inr (Or.inr ⟨_, List.mem_cons_self, isStart_not_isEnd hs, h.symm⟩)
      · cases ho'
      · exact Or.inr (Or.inr (h.mono (fun t ht => by simp [ht])))
    · exact Or.inr (Or.inl ⟨o, rfl, hep⟩)
    · rcases ih2 x hx with h | h | h
      · exact Or.inl h
      · exact Or.inr (Or.inl h)
      · exact Or.inr (Or.inr (h.mono (fun t ht => by simp [ht])))

theorem split_closed (P : MainFunc.Params) {p : Nat} {last : Option Row} {rows : Rows} (h : Shape p last rows) :
    p = 0 → (∀ o, last = some o → o.id ≠ 0) → (∀ r ∈ rows, r.id ≠ 0) →
    ∀ (moving : Bool),
      (∀ r ∈ (split P moving rows).1, r.parent = 0 ∨ (moving = false ∧ ∃ o, last = some o ∧ r.parent = o.id) ∨
        HasDef (split P moving rows).1 r.parent) ∧
      (∀ r ∈ (split P moving rows).2, r.parent = 0 ∨ (moving = true ∧ ∃ o, last = some o ∧ r.parent = o.id) ∨
        HasDef (split P moving rows).2 r.parent) := by
  induction h with
  | nil => intro _ _ _ moving; simp [split]
  | @stmt p last r rest hm hp _ ih =>
    intro hp0 _ hpos moving
    subst hp0
    have hr0 : (r.parent == 0) = true := by rw [hp]; rfl
    have hpos' : ∀ x ∈ rest, x.id ≠ 0 := fun x hx => hpos x (List.mem_cons_of_mem _ hx)
    have hrid : ∀ o, some r = some o → o.id ≠ 0 := fun o ho => by cases ho; exact hpos _ List.mem_cons_self
    have hre : r.isEnd = false := (isMarker_false_iff.1 hm).2
    by_cases hk : MainFunc.keepsTop P r.op = true
    · obtain ⟨h1, h2⟩ := ih rfl hrid hpos' false
      simp only [split, hr0, hk, if_true]
      refine ⟨?_, ?_⟩
      · intro x hx
        rcases List.mem_cons.1 hx with rfl | hx
        · exact Or.inl hp
        · rcases h1 x hx with h | ⟨_, o, ho, h⟩ | h
          · exact Or.inl h
          · cases ho; exact Or.inr (Or.inr ⟨_, List.mem_cons_self, hre, h.symm⟩)
          · exact Or.inr (Or.inr (h.mono (fun s hs => List.mem_cons_of_mem _ hs)))
      · intro x hx
        rcases h2 x hx with h | ⟨hf, _⟩ | h
        · exact Or.inl h
        · cases hf
        · exact Or.inr (Or.inr h)
    · obtain ⟨h1, h2⟩ := ih rfl hrid hpos' true
      simp only [split, hr0, hk, if_true, Bool.false_eq_true, if_false]
      refine ⟨?_, ?_⟩
      · intro x hx
        rcases h1 x hx with h | ⟨hf, _⟩ | h
        · exact Or.inl h
        · cases hf
        · exact Or.inr (Or.inr h)
      · intro x hx
        rcases List.mem_cons.1 hx with rfl | hx
        · exact Or.inl hp
        · rcases h2 x hx with h | ⟨_, o, ho, h⟩ | h
          · exact Or.inl h
          · cases ho; exact Or.inr (Or.inr ⟨_, List.mem_cons_self, hre, h.symm⟩)
          · exact Or.inr (Or.inr (h.mono (fun s hs => List.mem_cons_of_mem _ hs)))
  | @block p o s e inner rest hs he hid hsp hep ha hin _ _ ih2 =>
    intro hp0 hlast hpos moving
    subst hp0
    have ho : o.id ≠ 0 := hlast o rfl
    have hpos' : ∀ x ∈ rest, x.id ≠ 0 := fun x hx => hpos x (by simp [hx])
    have hnzin : ∀ x ∈ inner, x.parent ≠ 0 :=
      hin.nz (hpos s List.mem_cons_self) (fun _ h => by cases h) (fun y hy => hpos y (by simp [hy]))
    have hnz : ∀ x ∈ s :: (inner ++ [e]), x.parent ≠ 0 := by
      intro x hx
      simp only [List.mem_cons, List.mem_append, List.not_mem_nil, or_false] at hx
      rcases hx with rfl | hx | rfl
      · rw [hsp]; exact ho
      · exact hnzin x hx
      · rw [hep]; exact ho
    have hlist : s :: (inner ++ e :: rest) = (s :: (inner ++ [e])) ++ rest := by simp
    -- the rows of the block: parent is the pending owner, or the id of a row of the block
    have hblk : ∀ x ∈ s :: (inner ++ [e]), (x.parent = o.id) ∨ HasDef (s :: (inner ++ [e])) x.parent := by
      intro x hx
      simp only [List.mem_cons, List.mem_append, List.not_mem_nil, or_false] at hx
      rcases hx with rfl | hx | rfl
      · exact Or.inl hsp
      · rcases block_closed hin x hx with h | ⟨o', ho', _⟩ | h
        · exact Or.inr ⟨_, List.mem_cons_self, isStart_not_isEnd hs, h.symm⟩
        · cases ho'
        · exact Or.inr (h.mono (fun t ht => by simp [ht]))
      · exact Or.inl hep
    obtain ⟨h1, h2⟩ := ih2 rfl hlast hpos' moving
    rw [hlist, split_nz P rest _ moving hnz]
    cases moving with
    | true =>
      simp only [if_true] at h1 h2 ⊢
      refine ⟨?_, ?_⟩
      · intro x hx
        rcases h1 x hx with h | ⟨hf, _⟩ | h
        · exact Or.inl h
        · cases hf
        · exact Or.inr (Or.inr h)
      · intro x hx
        rcases List.mem_append.1 hx with hx | hx
        · rcases hblk x hx with h | h
          · exact Or.inr (Or.inl ⟨trivial, o, rfl, h⟩)
          · exact Or.inr (Or.inr (h.mono (fun t ht => List.mem_append_left _ ht)))
        · rcases h2 x hx with h | h | h
          · exact Or.inl h
          · exact Or.inr (Or.inl h)
          · exact Or.inr (Or.inr (h.mono (fun t ht => List.mem_append_right _ ht)))
    | false =>
      simp only [Bool.false_eq_true, if_false] at h1 h2 ⊢
      refine ⟨?_, ?_⟩
      · intro x hx
        rcases List.mem_append.1 hx with hx | hx
        · rcases hblk x hx with h | h
          · exact Or.inr (Or.inl ⟨trivial, o, rfl, h⟩)
          · exact Or.inr (Or.inr (h.mono (fun t ht => List.mem_append_left _ ht)))
        · rcases h1 x hx with h | h | h
          · exact Or.inl h
          · exact Or.inr (Or.inl h)
          · exact Or.inr (Or.inr (h.mono (fun t ht => List.mem_append_right _ ht)))
      · intro x hx
        rcases h2 x hx with h | ⟨hf, _⟩ | h
        · exact Or.inl h
        · cases hf
        · exact Or.inr (Or.inr h)

/-! ### `ordered` after `addMainFunc` -/

theorem hasDef_mem_defIds {pool : Rows} {i : Nat} (h : HasDef pool i) : i ∈ defIds pool := by
  obtain ⟨s, hs, h1, h2⟩ := h
  simp only [defIds, List.mem_map, List.mem_filter]
  exact ⟨s, ⟨hs, by simp [h1]⟩, h2⟩

theorem reparent_id (b : Nat) (y : Row) : (reparent b y).id = y.id := by simp only [reparent]; split <;> rfl
theorem reparent_isEnd (b : Nat) (y : Row) : (reparent b y).isEnd = y.isEnd := by simp only [reparent]; split <;> rfl
theorem reparent_isMarker (b : Nat) (y : Row) : (reparent b y).isMarker = y.isMarker := by
  simp only [reparent]; split <;> rfl

/-- **`addMainFunc` keeps the statements of every block in increasing id order** (given the input is
a top-level level of the grammar with unique positive ids, increasing in table order — what
`flatten` returns). -/
theorem addMainFunc_ordered (P : MainFunc.Params) {rows : Rows} (hshape : Shape 0 none rows)
    (hpos : ∀ r ∈ rows, r.id ≠ 0) (hnd : (defIds rows).Nodup) (hinc : rows.Pairwise IncRel) :
    (addMainFunc P rows).Pairwise OrdRel := by
  rw [addMainFunc_eq]
  split
  · exact hinc.imp (fun h => h.ord)
  · obtain ⟨hsub1, hsub2⟩ := split_sublist P rows false
    obtain ⟨hc1, hc2⟩ := split_closed P hshape rfl (fun _ h => by cases h) hpos false
    have hperm := defIds_perm (split_perm P rows false)
    rw [defIds_append] at hperm
    have hdisj : ∀ i, i ∈ defIds (split P false rows).1 → i ∈ defIds (split P false rows).2 → False := by
      intro i h1 h2
      have hnd' : (defIds (split P false rows).1 ++ defIds (split P false rows).2).Nodup := hperm.nodup_iff.2 hnd
      exact (List.nodup_append.1 hnd').2.2 i h1 i h2 rfl
    have hmemrows : ∀ x ∈ (split P false rows).1, x ∈ rows := fun x hx => hsub1.subset hx
    have hmemrows2 : ∀ x ∈ (split P false rows).2, x ∈ rows := fun x hx => hsub2.subset hx
    -- parents of kept rows are below `nextId`
    have hparent_lt : ∀ a ∈ (split P false rows).1, a.parent < nextId rows + 1 := by
      intro a ha
      rcases hc1 a ha with h | ⟨_, o, ho, _⟩ | h
      · omega
      · cases ho
      · obtain ⟨s, hs, _, h2⟩ := h
        have := lt_nextId (hmemrows s hs)
        omega
    have htopnz : ∀ x ∈ (split P false rows).2.map (reparent (nextId rows + 1)), x.parent ≠ 0 := by
      intro x hx
      obtain ⟨y, _, rfl⟩ := List.mem_map.1 hx
      simp only [reparent]
      split
      · simp
      · rename_i h0; simpa using h0
    rw [List.append_assoc, List.append_assoc, List.pairwise_append]
    refine ⟨(hinc.sublist hsub1).imp (fun h => h.ord), ?_, ?_⟩
    · -- `%unit_init`, its block, the moved rows
      simp only [List.cons_append, List.nil_append]
      rw [List.pairwise_cons, List.pairwise_cons, List.pairwise_append]
      refine ⟨?_, ?_, ?_, ?_, ?_⟩
      · intro x hx hm1 hm2 hpar
        simp only [List.mem_cons, List.mem_append, List.not_mem_nil, or_false] at hx
        rcases hx with rfl | hx | rfl
        · simp [Row.isMarker, mkStart_isStart] at hm2
        · exact absurd hpar.symm (by simpa [initDecl] using htopnz x hx)
        · simp [Row.isMarker, mkEnd_isEnd] at hm2
      · intro x _ hm1
        simp [Row.isMarker, mkStart_isStart] at hm1
      · have : ((split P false rows).2.map (reparent (nextId rows + 1))).Pairwise IncRel := by
          rw [List.pairwise_map]
          refine (hinc.sublist hsub2).imp ?_
          intro a b hab h1 h2
          rw [reparent_isEnd] at h1 h2
          rw [reparent_id, reparent_id]
          exact hab h1 h2
        exact this.imp (fun h => h.ord)
      · simp
      · intro x _ y hy _ hm2
        simp only [List.mem_singleton] at hy
        subst hy
        simp [Row.isMarker, mkEnd_isEnd] at hm2
    · -- a kept row against `%unit_init`, the markers and the moved rows
      intro a ha x hx hm1 hm2 hpar
      simp only [List.cons_append, List.nil_append, List.mem_cons, List.mem_append, List.not_mem_nil,
        or_false] at hx
      rcases hx with rfl | rfl | hx | rfl
      · have := lt_nextId (hmemrows a ha)
        simpa [initDecl] using this
      · simp [Row.isMarker, mkStart_isStart] at hm2
      · obtain ⟨y, hy, rfl⟩ := List.mem_map.1 hx
        by_cases hy0 : y.parent = 0
        · -- re-parented to the fresh block id: no kept row has that parent
          have : (reparent (nextId rows + 1) y).parent = nextId rows + 1 := by simp [reparent, hy0]
          rw [this] at hpar
          have := hparent_lt a ha
          omega
        · rw [reparent_nz hy0] at hpar
          -- same non-zero parent on both sides: its defining row would be in both halves
          have hq : a.parent ≠ 0 := by rw [hpar]; exact hy0
          rcases hc1 a ha with h | ⟨_, o, ho, _⟩ | h
          · exact absurd h hq
          · cases ho
          · rcases hc2 y hy with h' | ⟨hf, _⟩ | h'
            · exact absurd h' hy0
            · cases hf
            · rw [hpar] at h
              exact (hdisj _ (hasDef_mem_defIds h) (hasDef_mem_defIds h')).elim
      · simp [Row.isMarker, mkEnd_isEnd] at hm2

/-! ### at most one `%unit_init` -/

theorem isUnitInit_false_of_op {W : WfParams} {r : Row} (h : r.op ≠ "method_decl") : isUnitInit W r = false := by
  simp [isUnitInit, h]

theorem isUnitInit_false_of_parent {W : WfParams} {r : Row} (h : r.parent ≠ 0) : isUnitInit W r = false := by
  simp [isUnitInit, h]

/-- **`addMainFunc` creates at most one `%unit_init`** when the table does not already contain a
top-level `method_decl` of that name. -/
theorem addMainFunc_one_init (P : MainFunc.Params) (W : WfParams) {rows : Rows}
    (hfresh : ∀ r ∈ rows, isUnitInit W r = false) :
    ((addMainFunc P rows).filter (isUnitInit W)).length ≤ 1 := by
  rw [addMainFunc_eq]
  split
  · rw [List.filter_eq_nil_iff.2 (fun r hr => by rw [hfresh r hr]; simp)]; simp
  · have h1 : (split P false rows).1.filter (isUnitInit W) = [] :=
      List.filter_eq_nil_iff.2 (fun r hr => by
        rw [hfresh r ((split_mem P rows false r).1 (Or.inl hr))]; simp)
    have h2 : ((split P false rows).2.map (reparent (nextId rows + 1))).filter (isUnitInit W) = [] := by
      refine List.filter_eq_nil_iff.2 (fun x hx => ?_)
      obtain ⟨y, hy, rfl⟩ := List.mem_map.1 hx
      by_cases hy0 : y.parent = 0
      · rw [isUnitInit_false_of_parent (by simp [reparent, hy0])]; simp
      · rw [reparent_nz hy0, hfresh y ((split_mem P rows false y).1 (Or.inr hy))]; simp
    have h3 : isUnitInit W (mkStart (nextId rows + 1) (nextId rows)) = false :=
      isUnitInit_false_of_op (by simp only [mkStart, opStart]; decide)
    have h4 : isUnitInit W (mkEnd (nextId rows + 1) (nextId rows)) = false :=
      isUnitInit_false_of_op (by simp only [mkEnd, opEnd]; decide)
    simp only [List.filter_append, h1, h2, List.filter_cons, h3, h4, List.filter_nil, List.nil_append,
      List.append_nil, Bool.false_eq_true, if_false]
    split <;> simp

theorem assocGet_assocSet_ne {β : Type} (l : List (String × β)) (k k' : String) (v : β) (h : k ≠ k') :
    assocGet (assocSet l k v) k' = assocGet l k' := by
  induction l with
  | nil =>
    have : (k == k') = false := by rw [beq_eq_false_iff_ne]; exact h
    simp [assocSet, assocGet, this]
  | cons a rest ih =>
    obtain ⟨k0, v0⟩ := a
    simp only [assocSet]
    by_cases h0 : (k0 == k) = true
    · have hk0 : k0 = k := by simpa using h0
      have : (k == k') = false := by rw [beq_eq_false_iff_ne]; exact h
      have : (k0 == k') = false := by rw [hk0]; exact this
      simp [h0, assocGet, this, hk0, ‹(k == k') = false›]
    · simp only [h0, Bool.false_eq_true, if_false, assocGet, ih]

end LianVerif.Gir
