/-
Helper lemmas about the rule matchers (Model/TaintRules.lean): membership in `findSources` /
`findSinks`, and monotonicity of every matcher in the rule lists.
-/
import LianVerif.Model.Taint

namespace LianVerif.TaintRules
open LianVerif.Sfg

/-- `rs'` contains every rule of `rs` (in any order) -/
def RuleSet.le (rs rs' : RuleSet) : Prop :=
  rs.sources ⊆ rs'.sources ∧ rs.sinks ⊆ rs'.sinks ∧ rs.srcCode ⊆ rs'.srcCode ∧
  rs.sinkCode ⊆ rs'.sinkCode

theorem any_mono {α : Type} {l l' : List α} {p : α → Bool} (hsub : l ⊆ l')
    (h : l.any p = true) : l'.any p = true := by
  rw [List.any_eq_true] at *
  obtain ⟨x, hx, hp⟩ := h
  exact ⟨x, hsub hx, hp⟩

/-- the statement `n` matches some source rule (the Boolean `find_sources` tests) -/
def srcMatch (vr : Variant) (g : Graph) (rs : RuleSet) (n : Nat) : Bool :=
  ((g.node n).name == "call_stmt" && callSource vr g rs n) ||
  ((g.node n).name == "object_call_stmt" && objCallSource vr g rs n) ||
  ((g.node n).name == "parameter_decl" && paramSource vr g rs n) ||
  ((g.node n).name == "field_read" && fieldReadSource vr g rs n) ||
  codeMatch vr (g.node n) rs.srcCode

theorem sourceOf_eq (vr : Variant) (g : Graph) (rs : RuleSet) (n : Nat) :
    sourceOf vr g rs n =
      if (g.node n).kind != K_STMT then none
      else if srcMatch vr g rs n then some (defSym g n) else none := by
  unfold sourceOf srcMatch
  simp only
  split
  · rfl
  · by_cases h1 : ((g.node n).name == "call_stmt" && callSource vr g rs n) = true
    · simp [h1]
    · by_cases h2 : ((g.node n).name == "object_call_stmt" && objCallSource vr g rs n) = true
      · simp [h1, h2]
      · by_cases h3 : ((g.node n).name == "parameter_decl" && paramSource vr g rs n) = true
        · simp [h1, h2, h3]
        · by_cases h4 : ((g.node n).name == "field_read" && fieldReadSource vr g rs n) = true
          · simp [h1, h2, h3, h4]
          · simp [h1, h2, h3, h4]

theorem mem_findSources {vr : Variant} {g : Graph} {rs : RuleSet} {o : Option Nat} :
    o ∈ findSources vr g rs ↔ ∃ n, n < g.size ∧ sourceOf vr g rs n = some o := by
  unfold findSources
  simp [List.mem_filterMap, List.mem_range]

theorem mem_findSinks {vr : Variant} {g : Graph} {rs : RuleSet} {k : Nat} :
    k ∈ findSinks vr g rs ↔ k < g.size ∧ isSink vr g rs k = true := by
  unfold findSinks
  simp [List.mem_filter, List.mem_range]

/-- a node returned by `find_sources` is the symbol defined by a statement that matches a source rule -/
theorem findSources_spec {vr : Variant} {g : Graph} {rs : RuleSet} {s : Nat}
    (h : some s ∈ findSources vr g rs) :
    ∃ n, n < g.size ∧ (g.node n).kind = K_STMT ∧ srcMatch vr g rs n = true ∧ defSym g n = some s := by
  obtain ⟨n, hn, hs⟩ := mem_findSources.1 h
  rw [sourceOf_eq] at hs
  split at hs
  · exact absurd hs (by simp)
  · rename_i hk
    split at hs
    · rename_i hm
      simp only [Option.some.injEq] at hs
      exact ⟨n, hn, by simpa using hk, hm, hs⟩
    · exact absurd hs (by simp)

/-! ### monotonicity in the rule lists -/

variable {vr : Variant} {g : Graph} {rs rs' : RuleSet}

theorem callSource_mono (h : rs.sources ⊆ rs'.sources) {n : Nat}
    (hm : callSource vr g rs n = true) : callSource vr g rs' n = true := by
  unfold callSource at *
  cases hu : usedByPos g n vr.callSrcPos with
  | mk ms mstates =>
    rw [hu] at hm
    simp only at hm ⊢
    cases ms with
    | none => simp at hm
    | some m =>
      cases hd : defSym g n with
      | none => rw [hd] at hm; simp at hm
      | some d =>
        rw [hd] at hm
        simp only at hm ⊢
        exact any_mono h hm

theorem objCallSource_mono (h : rs.sources ⊆ rs'.sources) {n : Nat}
    (hm : objCallSource vr g rs n = true) : objCallSource vr g rs' n = true := by
  unfold objCallSource at *
  simp only [Bool.and_eq_true] at hm ⊢
  exact ⟨hm.1, any_mono h hm.2⟩

theorem paramSource_mono (h : rs.sources ⊆ rs'.sources) {n : Nat}
    (hm : paramSource vr g rs n = true) : paramSource vr g rs' n = true := by
  unfold paramSource at *
  cases hh : (g.outE n).head? with
  | none => rw [hh] at hm; simp at hm
  | some e0 =>
    rw [hh] at hm
    simp only at hm ⊢
    exact any_mono h hm

theorem fieldReadSource_mono (h : rs.sources ⊆ rs'.sources) {n : Nat}
    (hm : fieldReadSource vr g rs n = true) : fieldReadSource vr g rs' n = true := by
  unfold fieldReadSource at *
  simp only at hm ⊢
  split
  · rename_i hc
    rw [if_pos hc] at hm
    exact absurd hm (by simp)
  · rename_i hc
    rw [if_neg hc] at hm
    exact any_mono h hm

theorem codeMatch_mono {l l' : List CodeRule} (h : l ⊆ l') {nd : Node}
    (hm : codeMatch vr nd l = true) : codeMatch vr nd l' = true := by
  unfold codeMatch at *
  exact any_mono h hm

theorem srcMatch_mono (h : rs.le rs') {n : Nat} (hm : srcMatch vr g rs n = true) :
    srcMatch vr g rs' n = true := by
  unfold srcMatch at *
  simp only [Bool.or_eq_true, Bool.and_eq_true] at hm ⊢
  rcases hm with (((hm | hm) | hm) | hm) | hm
  · exact Or.inl (Or.inl (Or.inl (Or.inl ⟨hm.1, callSource_mono h.1 hm.2⟩)))
  · exact Or.inl (Or.inl (Or.inl (Or.inr ⟨hm.1, objCallSource_mono h.1 hm.2⟩)))
  · exact Or.inl (Or.inl (Or.inr ⟨hm.1, paramSource_mono h.1 hm.2⟩))
  · exact Or.inl (Or.inr ⟨hm.1, fieldReadSource_mono h.1 hm.2⟩)
  · exact Or.inr (codeMatch_mono h.2.2.1 hm)

theorem findSources_mono (h : rs.le rs') {s : Nat} (hs : some s ∈ findSources vr g rs) :
    some s ∈ findSources vr g rs' := by
  obtain ⟨n, hn, hk, hm, hd⟩ := findSources_spec hs
  apply mem_findSources.2
  refine ⟨n, hn, ?_⟩
  rw [sourceOf_eq]
  have hk' : ((g.node n).kind != K_STMT) = false := by simp [hk]
  simp [hk', srcMatch_mono h hm, hd]

theorem callSink_mono (h : rs.sinks ⊆ rs'.sinks) {n : Nat}
    (hm : callSink vr g rs n = true) : callSink vr g rs' n = true := by
  unfold callSink at *
  simp only [Bool.and_eq_true] at hm ⊢
  exact ⟨hm.1, any_mono h hm.2⟩

theorem objCallSink_mono (h : rs.sinks ⊆ rs'.sinks) {n : Nat}
    (hm : objCallSink vr g rs n = true) : objCallSink vr g rs' n = true := by
  unfold objCallSink at *
  simp only [Bool.and_eq_true] at hm ⊢
  exact ⟨hm.1, any_mono h hm.2⟩

theorem recordSink_mono (h : rs.sinks ⊆ rs'.sinks) {n : Nat}
    (hm : recordSink vr g rs n = true) : recordSink vr g rs' n = true := by
  unfold recordSink at *
  simp only [Bool.and_eq_true] at hm ⊢
  exact ⟨hm.1, any_mono h hm.2⟩

theorem fieldSink_mono (h : rs.sinks ⊆ rs'.sinks) {n : Nat}
    (hm : fieldSink vr g rs n = true) : fieldSink vr g rs' n = true := by
  unfold fieldSink at *
  simp only [Bool.and_eq_true] at hm ⊢
  exact ⟨hm.1, any_mono h hm.2⟩

theorem isSink_mono (h : rs.le rs') {n : Nat} (hm : isSink vr g rs n = true) :
    isSink vr g rs' n = true := by
  unfold isSink at *
  simp only [Bool.or_eq_true] at hm ⊢
  rcases hm with (((hm | hm) | hm) | hm) | hm
  · exact Or.inl (Or.inl (Or.inl (Or.inl (callSink_mono h.2.1 hm))))
  · exact Or.inl (Or.inl (Or.inl (Or.inr (objCallSink_mono h.2.1 hm))))
  · exact Or.inl (Or.inl (Or.inr (recordSink_mono h.2.1 hm)))
  · exact Or.inl (Or.inr (fieldSink_mono h.2.1 hm))
  · exact Or.inr (codeMatch_mono h.2.2.2 hm)

theorem findSinks_mono (h : rs.le rs') {k : Nat} (hk : k ∈ findSinks vr g rs) :
    k ∈ findSinks vr g rs' := by
  obtain ⟨h1, h2⟩ := mem_findSinks.1 hk
  exact mem_findSinks.2 ⟨h1, isSink_mono h h2⟩

theorem sinkMatching_mono (h : rs.sinks ⊆ rs'.sinks) {n : Nat} {r : Rule}
    (hr : r ∈ sinkMatching vr g rs n) : r ∈ sinkMatching vr g rs' n := by
  unfold sinkMatching at *
  simp only at hr ⊢
  split
  · rename_i h1
    rw [if_pos h1] at hr
    rw [List.mem_filter] at hr ⊢
    exact ⟨h hr.1, hr.2⟩
  · rename_i h1
    rw [if_neg h1] at hr
    split
    · rename_i h2
      rw [if_pos h2] at hr
      rw [List.mem_filter] at hr ⊢
      exact ⟨h hr.1, hr.2⟩
    · rename_i h2
      rw [if_neg h2] at hr
      split
      · rename_i h3
        rw [if_pos h3] at hr
        rw [List.mem_filter] at hr ⊢
        exact ⟨h hr.1, hr.2⟩
      · rename_i h3
        rw [if_neg h3] at hr
        exact absurd hr (by simp)

/-! ### without rules nothing matches -/

theorem srcMatch_no_rules (vr : Variant) (g : Graph) (rs : RuleSet) (n : Nat)
    (h1 : rs.sources = []) (h2 : rs.srcCode = []) : srcMatch vr g rs n = false := by
  have hc : callSource vr g rs n = false := by
    unfold callSource
    cases hu : usedByPos g n vr.callSrcPos with
    | mk ms mstates =>
      cases ms with
      | none => simp
      | some m => cases hd : defSym g n <;> simp [h1]
  have ho : objCallSource vr g rs n = false := by unfold objCallSource; simp [h1]
  have hp : paramSource vr g rs n = false := by
    unfold paramSource
    cases (g.outE n).head? <;> simp [h1]
  have hf : fieldReadSource vr g rs n = false := by
    unfold fieldReadSource
    simp only [h1, List.any_nil]
    split <;> rfl
  unfold srcMatch codeMatch
  simp [hc, ho, hp, hf, h2]

theorem isSink_no_rules (vr : Variant) (g : Graph) (rs : RuleSet) (n : Nat)
    (h1 : rs.sinks = []) (h2 : rs.sinkCode = []) : isSink vr g rs n = false := by
  unfold isSink callSink objCallSink recordSink fieldSink codeMatch
  simp [h1, h2]

/-- when no rule's language applies to the unit of statement `n`, `n` matches nothing (`langOk` is
constantly true when `checkLang = false`, so the hypothesis can only hold for the repaired code) -/
theorem srcMatch_wrong_lang (vr : Variant) (g : Graph) (rs : RuleSet)
    (n : Nat) (h1 : ∀ r ∈ rs.sources, langOk vr r.lang (g.node n) = false)
    (h2 : ∀ c ∈ rs.srcCode, langOk vr c.lang (g.node n) = false) : srcMatch vr g rs n = false := by
  have anyf : ∀ (p : Rule → Bool), (∀ r ∈ rs.sources, p r = false) → rs.sources.any p = false := by
    intro p hp
    rw [Bool.eq_false_iff]
    intro ht
    rw [List.any_eq_true] at ht
    obtain ⟨r, hr, hpr⟩ := ht
    rw [hp r hr] at hpr
    exact absurd hpr (by simp)
  have hc : callSource vr g rs n = false := by
    unfold callSource
    cases hu : usedByPos g n vr.callSrcPos with
    | mk ms mstates =>
      cases ms with
      | none => simp
      | some m =>
        cases hd : defSym g n with
        | none => simp
        | some d =>
          simp only
          apply anyf
          intro r hr
          simp [h1 r hr]
  have ho : objCallSource vr g rs n = false := by
    unfold objCallSource
    simp only
    rw [anyf _ (fun r hr => by simp [h1 r hr])]
    simp
  have hp : paramSource vr g rs n = false := by
    unfold paramSource
    cases (g.outE n).head? with
    | none => simp
    | some e0 =>
      simp only
      apply anyf
      intro r hr
      simp [h1 r hr]
  have hf : fieldReadSource vr g rs n = false := by
    unfold fieldReadSource
    simp only
    split
    · rfl
    · apply anyf
      intro r hr
      simp [h1 r hr]
  have hcode : codeMatch vr (g.node n) rs.srcCode = false := by
    unfold codeMatch
    rw [Bool.eq_false_iff]
    intro ht
    rw [List.any_eq_true] at ht
    obtain ⟨c, hc', hpc⟩ := ht
    simp [h2 c hc'] at hpc
  unfold srcMatch
  simp [hc, ho, hp, hf, hcode]

end LianVerif.TaintRules
