/-
Proofs/LowerPyStmt.lean — simulation of the statement handlers (assignment, augmented assignment,
expression statement, pass, if/else, return) over pure expressions; no loops, calls or `global`.
-/
import LianVerif.Proofs.LowerPy

namespace LianVerif.LowerPy
open LianVerif.Gir LianVerif.PySrc

/-! ### executing the simple statements the handlers emit -/

theorem exec_varDecl (N : Nat) (τ τ' : State) (x : String) (rest : List Stmt)
    (hb : τ.budget = none) (hs : stepSimple τ (.varDecl x) = some (.ok τ')) :
    exec (N + 1) τ (.varDecl x :: rest) = exec N τ' rest := by
  simp only [exec, State.tick, hb, hs]

theorem exec_pass (N : Nat) (τ : State) (rest : List Stmt) (hb : τ.budget = none) :
    exec (N + 1) τ (.pass :: rest) = exec N τ rest := by
  simp only [exec, State.tick, hb, stepSimple]

theorem exec_ret (N : Nat) (τ : State) (o : Opd) (v : Val) (rest : List Stmt)
    (hb : τ.budget = none) (hv : τ.evalOpd o = .ok v) :
    exec (N + 1) τ (.ret o :: rest) = (.ret v, τ) := by
  simp only [exec, State.tick, hb, hv]

theorem exec_if_normal (N : Nat) (τ τ' : State) (c : Opd) (v : Val) (t e rest : List Stmt)
    (hb : τ.budget = none) (hv : τ.evalOpd c = .ok v)
    (hbr : exec N τ (if τ.truthy v then t else e) = (.normal, τ')) :
    exec (N + 1) τ (.ifS c t e :: rest) = exec N τ' rest := by
  simp only [exec, State.tick, hb, hv, hbr]

theorem exec_if_ret (N : Nat) (τ τ' : State) (c : Opd) (v w : Val) (t e rest : List Stmt)
    (hb : τ.budget = none) (hv : τ.evalOpd c = .ok v)
    (hbr : exec N τ (if τ.truthy v then t else e) = (.ret w, τ')) :
    exec (N + 1) τ (.ifS c t e :: rest) = (.ret w, τ') := by
  simp only [exec, State.tick, hb, hv, hbr]

/-! ### `variable_decl` -/

/-- the state after `variable_decl x` in frame `fp` with content `f`. -/
def State.decl (σ : State) (fp : Nat) (f : Frame) (x : String) : State :=
  σ.setFrame fp (if alHas f.vars x then f else { f with vars := f.vars ++ [(x, none)] })

theorem alGet_append_ne {β : Type} (l : List (String × β)) (k x : String) (v : β) (h : x ≠ k) :
    alGet (l ++ [(k, v)]) x = alGet l x := by
  induction l with
  | nil =>
    have hb : (k == x) = false := by simpa using (Ne.symm h)
    simp [alGet, hb]
  | cons p rest ih =>
    obtain ⟨k', v'⟩ := p
    by_cases h1 : k' = x
    · subst h1; simp [alGet]
    · have hb : (k' == x) = false := by simpa using h1
      simp [alGet, hb, ih]

theorem alHas_append_ne {β : Type} (l : List (String × β)) (k x : String) (v : β) (h : x ≠ k) :
    alHas (l ++ [(k, v)]) x = alHas l x := by
  rw [alHas_eq_isSome, alHas_eq_isSome, alGet_append_ne l k x v h]


/-! ### replacing a frame by one that agrees on a name -/

theorem frame_setFrame_same (σ : State) (a : Nat) (f g : Frame) (h : σ.frame a = some f) :
    (σ.setFrame a g).frame a = some g := by
  unfold State.frame at h
  have hlt : a < σ.frames.length := by
    rcases Nat.lt_or_ge a σ.frames.length with h1 | h1
    · exact h1
    · rw [List.getElem?_eq_none h1] at h; cases h
  simp [State.setFrame, State.frame, hlt]

theorem frame_setFrame_other (σ : State) (a b : Nat) (g : Frame) (h : b ≠ a) :
    (σ.setFrame a g).frame b = σ.frame b := by
  simp [State.setFrame, State.frame, Ne.symm h]

theorem findDecl_setFrame (σ : State) (a : Nat) (f g : Frame) (y : String)
    (hf : σ.frame a = some f) (hget : alGet g.vars y = alGet f.vars y) (env : List Nat) :
    (σ.setFrame a g).findDecl env y = σ.findDecl env y := by
  have hhas : alHas g.vars y = alHas f.vars y := by rw [alHas_eq_isSome, alHas_eq_isSome, hget]
  induction env with
  | nil => simp [State.findDecl]
  | cons b rest ih =>
    by_cases hb : b = a
    · subst hb
      simp only [State.findDecl, frame_setFrame_same σ b f g hf, hf, hhas, ih]
    · simp only [State.findDecl, frame_setFrame_other σ a b g hb, ih]

theorem lookupIn_setFrame (σ : State) (a : Nat) (f g : Frame) (y : String)
    (hf : σ.frame a = some f) (hg : g.globals = f.globals) (hn : g.nonlocals = f.nonlocals)
    (hget : alGet g.vars y = alGet f.vars y) (env : List Nat) :
    (σ.setFrame a g).lookupIn env y = σ.lookupIn env y := by
  have hres : (σ.setFrame a g).resolve env y = σ.resolve env y := by
    cases env with
    | nil => simp [State.resolve]
    | cons fp outer =>
      by_cases hb : fp = a
      · subst hb
        simp only [State.resolve, frame_setFrame_same σ fp f g hf, hf, hg, hn,
          findDecl_setFrame σ fp f g y hf hget]
      · simp only [State.resolve, frame_setFrame_other σ a fp g hb, findDecl_setFrame σ a f g y hf hget]
  unfold State.lookupIn
  rw [hres]
  cases hr : σ.resolve env y with
  | none => rfl
  | some b =>
    by_cases hb : b = a
    · subst hb
      simp only [frame_setFrame_same σ b f g hf, hf, hget]
    · simp only [frame_setFrame_other σ a b g hb]

theorem loc_setFrame (σ : State) (a : Nat) (f g : Frame) (x : String)
    (hf : σ.frame a = some f) (hg : g.globals = f.globals) (hn : g.nonlocals = f.nonlocals)
    (hl : σ.Loc x) : (σ.setFrame a g).Loc x := by
  obtain ⟨fp, rest, f0, henv, hfp, hgl, hnl⟩ := hl
  by_cases hb : fp = a
  · subst hb
    rw [hfp] at hf; cases hf
    exact ⟨fp, rest, g, henv, frame_setFrame_same σ fp _ g hfp, by rw [hg]; exact hgl, by rw [hn]; exact hnl⟩
  · exact ⟨fp, rest, f0, henv, by rw [frame_setFrame_other σ a fp g hb]; exact hfp, hgl, hnl⟩

/-! ### `variable_decl` -/

/-- the frame after `variable_decl x`. -/
def declFrame (f : Frame) (x : String) : Frame :=
  if alHas f.vars x then f else { f with vars := f.vars ++ [(x, none)] }

theorem declFrame_globals (f : Frame) (x : String) : (declFrame f x).globals = f.globals := by
  unfold declFrame; split <;> rfl

theorem declFrame_nonlocals (f : Frame) (x : String) : (declFrame f x).nonlocals = f.nonlocals := by
  unfold declFrame; split <;> rfl

theorem declFrame_get_ne (f : Frame) (x y : String) (h : y ≠ x) :
    alGet (declFrame f x).vars y = alGet f.vars y := by
  unfold declFrame; split
  · rfl
  · exact alGet_append_ne f.vars x y none h

theorem declFrame_has (f : Frame) (x y : String) (h : alHas f.vars y = true) :
    alHas (declFrame f x).vars y = true := by
  unfold declFrame; split
  · exact h
  · by_cases hxy : y = x
    · subst hxy; simp_all
    · rw [alHas_append_ne f.vars x y none hxy]; exact h

theorem step_varDecl (τ : State) (x : String) (fp : Nat) (rest : List Nat) (f : Frame)
    (henv : τ.env = fp :: rest) (hf : τ.frame fp = some f) :
    stepSimple τ (.varDecl x) = some (.ok (τ.setFrame fp (declFrame f x))) := by
  simp only [stepSimple, State.modFrame, henv, hf, declFrame]

/-! ### Python assignment on the source side -/

theorem assignPy_loc (σ : State) (x : String) (v : Val) (hl : σ.Loc x) :
    ∃ fp f, σ.frame fp = some f ∧ assignPy σ x v = .ok (σ.wr fp f x v) ∧
      (σ.wr fp f x v).lookup x = .ok v := by
  obtain ⟨fp, rest, f0, henv, hfp, hg, hn⟩ := hl
  refine ⟨fp, f0, hfp, ?_, ?_⟩
  · simp only [assignPy, henv, hfp, hg, Bool.false_eq_true, if_false]
    exact setVarAt_eq σ fp f0 x v hfp
  · have hres' : (σ.wr fp f0 x v).resolve σ.env x = some fp := by
      rw [henv]
      simp only [State.resolve, frame_wr_same σ fp f0 x v hfp, hg, hn, Bool.false_eq_true, if_false]
      exact findDecl_wr_head σ rest x v fp f0 hfp
    unfold State.lookup State.lookupIn
    rw [wr_env, hres']; simp only [frame_wr_same σ fp f0 x v hfp, alGet_alSet_eq]

theorem loc_congr (σ σ' : State) (hf : σ'.frames = σ.frames) (he : σ'.env = σ.env) (x : String)
    (hl : σ.Loc x) : σ'.Loc x := by
  obtain ⟨fp, rest, f0, henv, hfp, hg, hn⟩ := hl
  exact ⟨fp, rest, f0, by rw [he]; exact henv, by rw [frame_congr σ σ' hf]; exact hfp, hg, hn⟩

/-! ### the simulation relation for statements -/

structure Sim2 (σ τ : State) : Prop where
  sim : Sim σ τ
  sloc : ∀ x, σ.Loc x
  tloc : ∀ x, τ.Loc x


/-! ### the statement fragment -/

def isNameOf (e : Expr) (x : String) : Bool :=
  match e with
  | .name y => y == x
  | _ => false

mutual
/-- assignment / augmented assignment to a name, expression statement, pass, if/else, return — over
pure expressions.  (`x = x` is excluded: the handler emits `variable_decl x` between the read and
the write.) -/
def stmtFrag : PStmt → Bool
  | .assign x e => pureFrag e && !isNameOf e x
  | .aug _ _ e => pureFrag e
  | .exprS e => pureFrag e
  | .ifS c t e => pureFrag c && bodyFrag t && bodyFrag e
  | .pass => true
  | .ret e => pureFrag e
  | _ => false

def bodyFrag : List PStmt → Bool
  | [] => true
  | s :: r => stmtFrag s && bodyFrag r
end

mutual
def NoTmpS : PStmt → Prop
  | .assign x e => (∀ n, x ≠ tmp n) ∧ NoTmp e
  | .aug x _ e => (∀ n, x ≠ tmp n) ∧ NoTmp e
  | .exprS e => NoTmp e
  | .ifS c t e => NoTmp c ∧ NoTmpB t ∧ NoTmpB e
  | .ret e => NoTmp e
  | _ => True

def NoTmpB : List PStmt → Prop
  | [] => True
  | s :: r => NoTmpS s ∧ NoTmpB r
end

mutual
/-- fuel needed *inside* compound statements (beyond one unit per statement of the list itself). -/
def costS : Stmt → Nat
  | .ifS _ t e => costL t + t.length + costL e + e.length + 2
  | _ => 0

def costL : List Stmt → Nat
  | [] => 0
  | s :: r => costS s + costL r
end

theorem costL_append (a b : List Stmt) : costL (a ++ b) = costL a + costL b := by
  induction a with
  | nil => simp [costL]
  | cons s r ih => simp [costL, ih]; omega

/-! ### establishing `Sim` after both sides assigned the same source variable -/

theorem sim_assign (σ τ σ2 τ2 : State) (x : String) (v : Val) (hs : Sim σ τ)
    (hh : σ2.heap = τ2.heap) (he : σ2.env = τ2.env) (ho : σ2.out = τ2.out) (hb : τ2.budget = none)
    (hσ : ∀ y, y ≠ x → σ2.lookup y = σ.lookup y) (hτ : ∀ y, y ≠ x → τ2.lookup y = τ.lookup y)
    (hσx : σ2.lookup x = .ok v) (hτx : τ2.lookup x = .ok v) (hloc : ∀ n, τ2.Loc (tmp n)) :
    Sim σ2 τ2 := by
  refine ⟨hh, he, ho, hb, ?_, hloc⟩
  intro y hy
  by_cases hxy : y = x
  · subst hxy; rw [hσx, hτx]
  · rw [hσ y hxy, hτ y hxy]; exact hs.look y hy


theorem lookup_setFrame (σ : State) (a : Nat) (f g : Frame) (y : String)
    (hf : σ.frame a = some f) (hg : g.globals = f.globals) (hn : g.nonlocals = f.nonlocals)
    (hget : alGet g.vars y = alGet f.vars y) :
    (σ.setFrame a g).lookup y = σ.lookup y := by
  unfold State.lookup
  exact lookupIn_setFrame σ a f g y hf hg hn hget σ.env

/-- on the pure fragment an operand that is a source variable comes from the expression being
exactly that variable. -/
theorem opd_var_name (cfg : Cfg) (e : Expr) (k : Nat) (y : String) (hp : pureFrag e = true)
    (ho : (lowerE cfg e k).2.1 = .var y) (hy : ∀ n, y ≠ tmp n) : e = .name y := by
  cases e with
  | const c => simp [lowerE] at ho
  | name z => simp [lowerE] at ho; rw [ho]
  | bin op l r =>
    simp only [lowerE] at ho
    injection ho with ho
    exact absurd ho.symm (hy _)
  | un op e1 =>
    simp only [lowerE] at ho
    injection ho with ho
    exact absurd ho.symm (hy _)
  | boolop _ _ _ => simp [pureFrag] at hp
  | cmp3 _ _ _ _ _ => simp [pureFrag] at hp
  | ifexp _ _ _ => simp [pureFrag] at hp
  | call _ _ => simp [pureFrag] at hp

theorem evalOpd_lit (σ : State) (c : Val) : σ.evalOpd (.lit c) = .ok c := by
  simp [State.evalOpd, State.evalOpdIn]

theorem evalOpd_var (σ : State) (y : String) : σ.evalOpd (.var y) = σ.lookup y := by
  simp [State.evalOpd, State.evalOpdIn, State.lookup]

/-- plain assignment `x = e`. -/
theorem head_assign (cfg : Cfg) (fns : Prog) (f : Nat) (x : String) (e : Expr) (k : Nat)
    (σ τ σ1 σ2 : State) (v : Val)
    (hp : pureFrag e = true) (hne : isNameOf e x = false) (hx : ∀ n, x ≠ tmp n) (hnt : NoTmp e)
    (hev : evalE fns f σ e = (.ok v, σ1)) (has : assignPy σ1 x v = .ok σ2) (hs : Sim2 σ τ) :
    ∃ τ2, Sim2 σ2 τ2 ∧ ∀ rest N,
      exec (N + (lowerS cfg (.assign x e) k).1.length) τ ((lowerS cfg (.assign x e) k).1 ++ rest)
        = exec N τ2 rest := by
  obtain ⟨_, hop, τ1, hex, hev1, hsim1, _, hloc1⟩ := lowerE_sim cfg fns f e hp hnt k σ τ σ1 v hev hs.sim
  obtain ⟨hfr, henv1, _, _⟩ := evalE_pure_frames fns f e σ σ1 v hp hev
  have sloc1 : ∀ y, σ1.Loc y := fun y => loc_congr σ σ1 hfr henv1 y (hs.sloc y)
  have tloc1 : ∀ y, τ1.Loc y := fun y => hloc1 y (hs.tloc y)
  -- source side
  obtain ⟨fp, fs, hfs, hassign, hlook⟩ := assignPy_loc σ1 x v (sloc1 x)
  rw [hassign] at has
  injection has with has
  subst has
  -- target: variable_decl
  obtain ⟨fpt, restt, ft, henvt, hfpt, _, _⟩ := tloc1 x
  have hstepd := step_varDecl τ1 x fpt restt ft henvt hfpt
  have tlocd : ∀ y, (τ1.setFrame fpt (declFrame ft x)).Loc y := fun y =>
    loc_setFrame τ1 fpt ft _ y hfpt (declFrame_globals ft x) (declFrame_nonlocals ft x) (tloc1 y)
  have hlookd : ∀ y, y ≠ x → (τ1.setFrame fpt (declFrame ft x)).lookup y = τ1.lookup y := fun y hy =>
    lookup_setFrame τ1 fpt ft _ y hfpt (declFrame_globals ft x) (declFrame_nonlocals ft x)
      (declFrame_get_ne ft x y hy)
  -- the operand still has its value after the declaration
  have hevd : (τ1.setFrame fpt (declFrame ft x)).evalOpd (lowerE cfg e k).2.1 = .ok v := by
    rcases hop with ⟨c, hc⟩ | ⟨y, hy, hyn⟩ | ⟨ht, _⟩
    · rw [hc] at hev1 ⊢; rw [evalOpd_lit] at hev1 ⊢; exact hev1
    · have hey := opd_var_name cfg e k y hp hy hyn
      have hyx : y ≠ x := by
        intro h; subst h; rw [hey] at hne; simp [isNameOf] at hne
      rw [hy] at hev1 ⊢; rw [evalOpd_var] at hev1 ⊢; rw [hlookd y hyx]; exact hev1
    · rw [ht] at hev1 ⊢; rw [evalOpd_var] at hev1 ⊢
      rw [hlookd _ (fun h => hx _ h.symm)]; exact hev1
  -- target: the assignment
  obtain ⟨a, g, hga, hassignt, hlookt⟩ := assign_loc (τ1.setFrame fpt (declFrame ft x)) x v (tlocd x)
  have hstepa : stepSimple (τ1.setFrame fpt (declFrame ft x)) (.assign x "" (lowerE cfg e k).2.1 none)
      = some (.ok ((τ1.setFrame fpt (declFrame ft x)).wr a g x v)) := by
    simp only [stepSimple, hevd, hassignt, beq_self_eq_true, if_true]
  refine ⟨(τ1.setFrame fpt (declFrame ft x)).wr a g x v, ⟨?_, ?_, ?_⟩, ?_⟩
  · refine sim_assign σ1 τ1 _ _ x v hsim1 ?_ ?_ ?_ ?_ ?_ ?_ hlook hlookt ?_
    · simp only [wr_heap]; exact hsim1.heap
    · simp only [wr_env]; exact hsim1.env
    · simp only [wr_out]; exact hsim1.out
    · simp only [wr_budget]; exact hsim1.budget
    · intro y hy; exact lookup_wr_ne σ1 fp fs x y v hfs hy
    · intro y hy; rw [lookup_wr_ne _ a g x y v hga hy]; exact hlookd y hy
    · intro n; exact loc_wr _ a g x _ v hga (tlocd _)
  · intro y; exact loc_wr σ1 fp fs x y v hfs (sloc1 y)
  · intro y; exact loc_wr _ a g x y v hga (tlocd y)
  · intro rest N
    simp only [lowerS]
    have e1 : N + ((lowerE cfg e k).1 ++ [Stmt.varDecl x, Stmt.assign x "" (lowerE cfg e k).2.1 none]).length
        = (N + 2) + (lowerE cfg e k).1.length := by simp; omega
    have e2 : ((lowerE cfg e k).1 ++ [Stmt.varDecl x, Stmt.assign x "" (lowerE cfg e k).2.1 none]) ++ rest
        = (lowerE cfg e k).1 ++ (Stmt.varDecl x :: Stmt.assign x "" (lowerE cfg e k).2.1 none :: rest) := by simp
    rw [e1, e2, hex]
    rw [exec_varDecl (N + 1) τ1 _ x _ hsim1.budget hstepd]
    exact exec_assign N _ _ x "" _ none rest hsim1.budget hstepa


/-- expression statement. -/
theorem head_exprS (cfg : Cfg) (fns : Prog) (f : Nat) (e : Expr) (k : Nat) (σ τ σ1 : State) (v : Val)
    (hp : pureFrag e = true) (hnt : NoTmp e)
    (hev : evalE fns f σ e = (.ok v, σ1)) (hs : Sim2 σ τ) :
    ∃ τ2, Sim2 σ1 τ2 ∧ ∀ rest N,
      exec (N + (lowerS cfg (.exprS e) k).1.length) τ ((lowerS cfg (.exprS e) k).1 ++ rest)
        = exec N τ2 rest := by
  obtain ⟨_, _, τ1, hex, _, hsim1, _, hloc1⟩ := lowerE_sim cfg fns f e hp hnt k σ τ σ1 v hev hs.sim
  obtain ⟨hfr, henv1, _, _⟩ := evalE_pure_frames fns f e σ σ1 v hp hev
  refine ⟨τ1, ⟨hsim1, fun y => loc_congr σ σ1 hfr henv1 y (hs.sloc y), fun y => hloc1 y (hs.tloc y)⟩, ?_⟩
  intro rest N
  simp only [lowerS]
  exact hex rest N

/-- the final `x = <old> op <rhs>` of an augmented assignment, executed in a state `τ1` that
simulates the source state `σ1` reached after evaluating the right-hand side. -/
theorem aug_final (σ1 τ1 σ3 : State) (x op : String) (oa ob : Opd) (old v nv : Val) (h' : List Obj)
    (hs : Sim σ1 τ1) (sloc1 : ∀ y, σ1.Loc y) (tloc1 : ∀ y, τ1.Loc y)
    (hoa : τ1.evalOpd oa = .ok old) (hob : τ1.evalOpd ob = .ok v)
    (hbin : binopH σ1.heap op old v = .ok (nv, h'))
    (has : assignPy ({ σ1 with heap := h' } : State) x nv = .ok σ3) :
    ∃ τ3, Sim2 σ3 τ3 ∧ stepSimple τ1 (.assign x op oa (some ob)) = some (.ok τ3) := by
  obtain ⟨fp, fs, hfs, hassign, hlook⟩ :=
    assignPy_loc ({ σ1 with heap := h' } : State) x nv (loc_heap σ1 h' x (sloc1 x))
  rw [hassign] at has
  injection has with has
  subst has
  obtain ⟨a, g, hga, hassignt, hlookt⟩ :=
    assign_loc ({ τ1 with heap := h' } : State) x nv (loc_heap τ1 h' x (tloc1 x))
  refine ⟨({ τ1 with heap := h' } : State).wr a g x nv, ⟨?_, ?_, ?_⟩, ?_⟩
  · refine sim_assign σ1 τ1 _ _ x nv hs ?_ ?_ ?_ ?_ ?_ ?_ hlook hlookt ?_
    · simp only [wr_heap]
    · simp only [wr_env]; exact hs.env
    · simp only [wr_out]; exact hs.out
    · simp only [wr_budget]; exact hs.budget
    · intro y hy
      have e1 := lookup_heap σ1 h' y
      rw [lookup_wr_ne _ fp fs x y nv hfs hy, e1]
    · intro y hy
      have e1 := lookup_heap τ1 h' y
      rw [lookup_wr_ne _ a g x y nv hga hy, e1]
    · intro n; exact loc_wr _ a g x _ nv hga (loc_heap τ1 h' _ (tloc1 _))
  · intro y; exact loc_wr _ fp fs x y nv hfs (loc_heap σ1 h' y (sloc1 y))
  · intro y; exact loc_wr _ a g x y nv hga (loc_heap τ1 h' y (tloc1 y))
  · simp only [stepSimple, hoa, hob, State.binop, ← hs.heap, hbin, hassignt]


/-- augmented assignment `x op= e` (current and pinned handler). -/
theorem head_aug (cfg : Cfg) (fns : Prog) (f : Nat) (x op : String) (e : Expr) (k : Nat)
    (σ τ σ1 σ3 : State) (old v nv : Val) (h' : List Obj)
    (hp : pureFrag e = true) (hx : ∀ n, x ≠ tmp n) (hnt : NoTmp e)
    (hold : σ.lookup x = .ok old)
    (hev : evalE fns f σ e = (.ok v, σ1))
    (hbin : binopH σ1.heap op old v = .ok (nv, h'))
    (has : assignPy ({ σ1 with heap := h' } : State) x nv = .ok σ3) (hs : Sim2 σ τ) :
    ∃ τ3, Sim2 σ3 τ3 ∧ ∀ rest N,
      exec (N + (lowerS cfg (.aug x op e) k).1.length) τ ((lowerS cfg (.aug x op e) k).1 ++ rest)
        = exec N τ3 rest := by
  obtain ⟨hfr, henv1, _, _⟩ := evalE_pure_frames fns f e σ σ1 v hp hev
  have sloc1 : ∀ y, σ1.Loc y := fun y => loc_congr σ σ1 hfr henv1 y (hs.sloc y)
  have hold1 : σ1.lookup x = .ok old := by rw [lookup_congr σ σ1 hfr henv1 x]; exact hold
  by_cases hfix : cfg.augFixed = true
  · by_cases hemp : (lowerE cfg e k).1.isEmpty = true
    · -- atomic right-hand side: one statement
      obtain ⟨_, _, τ1, hex, hev1, hsim1, _, hloc1⟩ := lowerE_sim cfg fns f e hp hnt k σ τ σ1 v hev hs.sim
      have tloc1 : ∀ y, τ1.Loc y := fun y => hloc1 y (hs.tloc y)
      have hoa : τ1.evalOpd (.var x) = .ok old := by
        rw [evalOpd_var, ← hsim1.look x hx]; exact hold1
      obtain ⟨τ3, hs3, hstep⟩ := aug_final σ1 τ1 σ3 x op (.var x) _ old v nv h' hsim1 sloc1 tloc1 hoa hev1 hbin has
      refine ⟨τ3, hs3, ?_⟩
      intro rest N
      have hnil : (lowerE cfg e k).1 = [] := by
        cases hl : (lowerE cfg e k).1 with
        | nil => rfl
        | cons a b => rw [hl] at hemp; simp at hemp
      simp only [lowerS, hfix, hemp, if_true]
      have h0 := hex (Stmt.assign x op (Opd.var x) (some (lowerE cfg e k).2.1) :: rest) (N + 1)
      rw [hnil] at h0
      simp only [List.length_nil, Nat.add_zero, List.nil_append] at h0
      simp only [List.length_cons, List.length_nil, List.cons_append, List.nil_append]
      rw [h0]
      exact exec_assign N τ1 _ x op _ _ rest hsim1.budget hstep
    · -- the old value is copied to a fresh temporary before the right-hand side runs
      have hk1 : k ≤ (lowerE cfg e k).2.2 := (lowerE_sim cfg fns f e hp hnt k σ τ σ1 v hev hs.sim).1
      obtain ⟨a0, f0, hfa, hassign0, hlook0⟩ :=
        assign_loc τ (tmp ((lowerE cfg e k).2.2 + 1)) old (hs.tloc _)
      have hstep0 : stepSimple τ (.assign (tmp ((lowerE cfg e k).2.2 + 1)) "" (.var x) none)
          = some (.ok (τ.wr a0 f0 (tmp ((lowerE cfg e k).2.2 + 1)) old)) := by
        have : τ.evalOpd (.var x) = .ok old := by rw [evalOpd_var, ← hs.sim.look x hx]; exact hold
        simp only [stepSimple, this, hassign0, beq_self_eq_true, if_true]
      have hsimA : Sim σ (τ.wr a0 f0 (tmp ((lowerE cfg e k).2.2 + 1)) old) := by
        have := sim_after_write σ τ τ.heap a0 f0 ((lowerE cfg e k).2.2 + 1) old hs.sim hfa
        have hσ : ({ σ with heap := τ.heap } : State) = σ := by
          cases σ; simp only [State.mk.injEq, and_true]; exact hs.sim.heap.symm
        rw [hσ] at this
        exact this
      obtain ⟨_, _, τ1, hex, hev1, hsim1, hpres1, hloc1⟩ :=
        lowerE_sim cfg fns f e hp hnt k σ _ σ1 v hev hsimA
      have tloc1 : ∀ y, τ1.Loc y := fun y => hloc1 y (loc_wr τ a0 f0 _ y old hfa (hs.tloc y))
      have hoa : τ1.evalOpd (.var (tmp ((lowerE cfg e k).2.2 + 1))) = .ok old := by
        rw [evalOpd_var, hpres1 _ (Or.inr (Nat.lt_succ_self _))]; exact hlook0
      obtain ⟨τ3, hs3, hstep⟩ := aug_final σ1 τ1 σ3 x op _ _ old v nv h' hsim1 sloc1 tloc1 hoa hev1 hbin has
      refine ⟨τ3, hs3, ?_⟩
      intro rest N
      simp only [lowerS, hfix, hemp, if_true, Bool.false_eq_true, if_false]
      have e1 : N + ([Stmt.assign (tmp ((lowerE cfg e k).2.2 + 1)) "" (Opd.var x) none] ++ (lowerE cfg e k).1 ++
            [Stmt.assign x op (Opd.var (tmp ((lowerE cfg e k).2.2 + 1))) (some (lowerE cfg e k).2.1)]).length
          = ((N + 1) + (lowerE cfg e k).1.length) + 1 := by simp; omega
      have e2 : ([Stmt.assign (tmp ((lowerE cfg e k).2.2 + 1)) "" (Opd.var x) none] ++ (lowerE cfg e k).1 ++
            [Stmt.assign x op (Opd.var (tmp ((lowerE cfg e k).2.2 + 1))) (some (lowerE cfg e k).2.1)]) ++ rest
          = Stmt.assign (tmp ((lowerE cfg e k).2.2 + 1)) "" (Opd.var x) none ::
              ((lowerE cfg e k).1 ++
                (Stmt.assign x op (Opd.var (tmp ((lowerE cfg e k).2.2 + 1))) (some (lowerE cfg e k).2.1) :: rest)) := by
        simp
      rw [e1, e2, exec_assign _ τ _ _ "" _ none _ hs.sim.budget hstep0, hex]
      exact exec_assign N τ1 _ x op _ _ rest hsim1.budget hstep
  · -- pinned handler: right-hand side first, then `x = x op rhs`
    obtain ⟨_, _, τ1, hex, hev1, hsim1, _, hloc1⟩ := lowerE_sim cfg fns f e hp hnt k σ τ σ1 v hev hs.sim
    have tloc1 : ∀ y, τ1.Loc y := fun y => hloc1 y (hs.tloc y)
    have hoa : τ1.evalOpd (.var x) = .ok old := by
      rw [evalOpd_var, ← hsim1.look x hx]; exact hold1
    obtain ⟨τ3, hs3, hstep⟩ := aug_final σ1 τ1 σ3 x op (.var x) _ old v nv h' hsim1 sloc1 tloc1 hoa hev1 hbin has
    refine ⟨τ3, hs3, ?_⟩
    intro rest N
    simp only [lowerS, hfix, Bool.false_eq_true, if_false]
    have e1 : N + ((lowerE cfg e k).1 ++ [Stmt.assign x op (Opd.var x) (some (lowerE cfg e k).2.1)]).length
        = (N + 1) + (lowerE cfg e k).1.length := by simp; omega
    have e2 : ((lowerE cfg e k).1 ++ [Stmt.assign x op (Opd.var x) (some (lowerE cfg e k).2.1)]) ++ rest
        = (lowerE cfg e k).1 ++ (Stmt.assign x op (Opd.var x) (some (lowerE cfg e k).2.1) :: rest) := by simp
    rw [e1, e2, hex]
    exact exec_assign N τ1 _ x op _ _ rest hsim1.budget hstep


/-! ### sequencing -/

/-- what the execution of the lowered code `ss` from `τ` must do when the source outcome is `o`. -/
def Runs (ss : List Stmt) (τ τ' : State) (o : Outcome) : Prop :=
  ∀ rest N, costL ss + 1 ≤ N →
    (o = .normal → exec (N + ss.length) τ (ss ++ rest) = exec N τ' rest) ∧
    (∀ w, o = .ret w → exec (N + ss.length) τ (ss ++ rest) = (.ret w, τ'))

theorem seq_combine (s1 s2 : List Stmt) (τ τ2 τ' : State) (o : Outcome)
    (hhead : ∀ rest N, costL s1 + 1 ≤ N → exec (N + s1.length) τ (s1 ++ rest) = exec N τ2 rest)
    (htail : Runs s2 τ2 τ' o) : Runs (s1 ++ s2) τ τ' o := by
  intro rest N hN
  rw [costL_append] at hN
  have e1 : N + (s1 ++ s2).length = (N + s2.length) + s1.length := by simp; omega
  have e2 : (s1 ++ s2) ++ rest = s1 ++ (s2 ++ rest) := by simp
  rw [e1, e2, hhead (s2 ++ rest) (N + s2.length) (by omega)]
  exact htail rest N (by omega)

theorem exec_nil (N : Nat) (τ : State) : exec (N + 1) τ [] = (.normal, τ) := by
  simp [exec]

theorem truthy_sim (σ τ : State) (v : Val) (h : Sim σ τ) : τ.truthy v = σ.truthy v := by
  simp [State.truthy, h.heap]

/-- **Simulation of the statement handlers** on assignment / augmented assignment / expression
statement / pass / if-else / return over pure expressions. -/
theorem lowerB_sim (cfg : Cfg) (fns : Prog) : ∀ (fuel : Nat) (B : List PStmt),
    bodyFrag B = true → NoTmpB B →
    ∀ (k : Nat) (σ τ σ' : State) (o : Outcome), execP fns fuel σ B = (o, σ') →
    (o = .normal ∨ ∃ w, o = .ret w) → Sim2 σ τ →
    ∃ τ', Sim2 σ' τ' ∧ Runs (lowerB cfg B k).1 τ τ' o := by
  intro fuel
  induction fuel with
  | zero =>
    intro B _ _ k σ τ σ' o h ho _
    simp only [execP, Prod.mk.injEq] at h
    rcases ho with ho | ⟨w, ho⟩ <;> rw [ho] at h <;> cases h.1
  | succ f ih =>
    intro B hfrag hnt k σ τ σ' o h ho hs
    cases B with
    | nil =>
      simp only [execP, Prod.mk.injEq] at h
      obtain ⟨rfl, rfl⟩ := h
      refine ⟨τ, hs, ?_⟩
      intro rest N _
      simp only [lowerB]
      exact ⟨fun _ => by simp, fun w hw => by cases hw⟩
    | cons s B' =>
      simp only [bodyFrag, Bool.and_eq_true] at hfrag
      obtain ⟨hsf, hBf⟩ := hfrag
      obtain ⟨hnS, hnB⟩ := hnt
      simp only [lowerB]
      cases s with
      | pass =>
        simp only [execP] at h
        obtain ⟨τ', hs', hruns⟩ := ih B' hBf hnB (lowerS cfg .pass k).2 σ τ σ' o h ho hs
        refine ⟨τ', hs', seq_combine _ _ τ τ τ' o ?_ hruns⟩
        intro rest N _
        simp only [lowerS]
        exact exec_pass N τ rest hs.sim.budget
      | assign x e =>
        simp only [stmtFrag, Bool.and_eq_true, Bool.not_eq_true'] at hsf
        obtain ⟨hx, hne⟩ := hnS
        simp only [execP] at h
        cases h1 : evalE fns f σ e with
        | mk r1 σ1 =>
        rw [h1] at h
        cases r1 with
        | error er =>
          simp only [Prod.mk.injEq] at h
          rcases ho with ho | ⟨w, ho⟩ <;> rw [ho] at h <;> cases h.1
        | ok v =>
        simp only at h
        cases h2 : assignPy σ1 x v with
        | error er =>
          rw [h2] at h
          simp only [Prod.mk.injEq] at h
          rcases ho with ho | ⟨w, ho⟩ <;> rw [ho] at h <;> cases h.1
        | ok σ2 =>
        rw [h2] at h
        simp only at h
        obtain ⟨τ2, hs2, hhead⟩ := head_assign cfg fns f x e k σ τ σ1 σ2 v hsf.1 hsf.2 hx hne h1 h2 hs
        obtain ⟨τ', hs', hruns⟩ := ih B' hBf hnB (lowerS cfg (.assign x e) k).2 σ2 τ2 σ' o h ho hs2
        exact ⟨τ', hs', seq_combine _ _ τ τ2 τ' o (fun rest N _ => hhead rest N) hruns⟩
      | exprS e =>
        simp only [stmtFrag] at hsf
        simp only [execP] at h
        cases h1 : evalE fns f σ e with
        | mk r1 σ1 =>
        rw [h1] at h
        cases r1 with
        | error er =>
          simp only [Prod.mk.injEq] at h
          rcases ho with ho | ⟨w, ho⟩ <;> rw [ho] at h <;> cases h.1
        | ok v =>
        simp only at h
        obtain ⟨τ2, hs2, hhead⟩ := head_exprS cfg fns f e k σ τ σ1 v hsf hnS h1 hs
        obtain ⟨τ', hs', hruns⟩ := ih B' hBf hnB (lowerS cfg (.exprS e) k).2 σ1 τ2 σ' o h ho hs2
        exact ⟨τ', hs', seq_combine _ _ τ τ2 τ' o (fun rest N _ => hhead rest N) hruns⟩
      | aug x op e =>
        simp only [stmtFrag] at hsf
        obtain ⟨hx, hne⟩ := hnS
        simp only [execP] at h
        cases h0 : σ.lookup x with
        | error er =>
          rw [h0] at h
          simp only [Prod.mk.injEq] at h
          rcases ho with ho | ⟨w, ho⟩ <;> rw [ho] at h <;> cases h.1
        | ok old =>
        rw [h0] at h
        simp only at h
        cases h1 : evalE fns f σ e with
        | mk r1 σ1 =>
        rw [h1] at h
        cases r1 with
        | error er =>
          simp only [Prod.mk.injEq] at h
          rcases ho with ho | ⟨w, ho⟩ <;> rw [ho] at h <;> cases h.1
        | ok v =>
        simp only at h
        unfold State.binop at h
        cases h3 : binopH σ1.heap op old v with
        | error er =>
          rw [h3] at h
          simp only [Prod.mk.injEq] at h
          rcases ho with ho | ⟨w, ho⟩ <;> rw [ho] at h <;> cases h.1
        | ok p =>
        obtain ⟨nv, h'⟩ := p
        rw [h3] at h
        simp only at h
        cases h2 : assignPy ({ σ1 with heap := h' } : State) x nv with
        | error er =>
          rw [h2] at h
          simp only [Prod.mk.injEq] at h
          rcases ho with ho | ⟨w, ho⟩ <;> rw [ho] at h <;> cases h.1
        | ok σ3 =>
        rw [h2] at h
        simp only at h
        obtain ⟨τ3, hs3, hhead⟩ :=
          head_aug cfg fns f x op e k σ τ σ1 σ3 old v nv h' hsf hx hne h0 h1 h3 h2 hs
        obtain ⟨τ', hs', hruns⟩ := ih B' hBf hnB (lowerS cfg (.aug x op e) k).2 σ3 τ3 σ' o h ho hs3
        exact ⟨τ', hs', seq_combine _ _ τ τ3 τ' o (fun rest N _ => hhead rest N) hruns⟩
      | ret e =>
        simp only [stmtFrag] at hsf
        simp only [execP] at h
        cases h1 : evalE fns f σ e with
        | mk r1 σ1 =>
        rw [h1] at h
        cases r1 with
        | error er =>
          simp only [Prod.mk.injEq] at h
          rcases ho with ho | ⟨w, ho⟩ <;> rw [ho] at h <;> cases h.1
        | ok v =>
        simp only [Prod.mk.injEq] at h
        obtain ⟨rfl, rfl⟩ := h
        obtain ⟨_, _, τ1, hex, hev1, hsim1, _, hloc1⟩ := lowerE_sim cfg fns f e hsf hnS k σ τ σ1 v h1 hs.sim
        obtain ⟨hfr, henv1, _, _⟩ := evalE_pure_frames fns f e σ σ1 v hsf h1
        refine ⟨τ1, ⟨hsim1, fun y => loc_congr σ σ1 hfr henv1 y (hs.sloc y), fun y => hloc1 y (hs.tloc y)⟩, ?_⟩
        intro rest N _
        refine ⟨fun hc => (by cases hc), ?_⟩
        intro w hw
        cases hw
        simp only [lowerS]
        have e1 : N + (((lowerE cfg e k).1 ++ [Stmt.ret (lowerE cfg e k).2.1]) ++
              (lowerB cfg B' (lowerE cfg e k).2.2).1).length
            = ((N + (lowerB cfg B' (lowerE cfg e k).2.2).1.length) + 1) + (lowerE cfg e k).1.length := by
          simp; omega
        have e2 : (((lowerE cfg e k).1 ++ [Stmt.ret (lowerE cfg e k).2.1]) ++
              (lowerB cfg B' (lowerE cfg e k).2.2).1) ++ rest
            = (lowerE cfg e k).1 ++ (Stmt.ret (lowerE cfg e k).2.1 ::
                ((lowerB cfg B' (lowerE cfg e k).2.2).1 ++ rest)) := by simp
        rw [e1, e2, hex]
        exact exec_ret _ τ1 _ v _ hsim1.budget hev1
      | ifS c t e =>
        simp only [stmtFrag, Bool.and_eq_true] at hsf
        obtain ⟨⟨hcp, htf⟩, hef⟩ := hsf
        obtain ⟨hnc, hntt, hnte⟩ := hnS
        simp only [execP] at h
        cases h1 : evalE fns f σ c with
        | mk r1 σ1 =>
        rw [h1] at h
        cases r1 with
        | error er =>
          simp only [Prod.mk.injEq] at h
          rcases ho with ho | ⟨w, ho⟩ <;> rw [ho] at h <;> cases h.1
        | ok vc =>
        simp only at h
        obtain ⟨_, _, τ1, hex, hev1, hsim1, _, hloc1⟩ := lowerE_sim cfg fns f c hcp hnc k σ τ σ1 vc h1 hs.sim
        obtain ⟨hfr, henv1, _, _⟩ := evalE_pure_frames fns f c σ σ1 vc hcp h1
        have hs1 : Sim2 σ1 τ1 :=
          ⟨hsim1, fun y => loc_congr σ σ1 hfr henv1 y (hs.sloc y), fun y => hloc1 y (hs.tloc y)⟩
        -- name the pieces of the lowered `if`
        generalize hk1 : (lowerE cfg c k).2.2 = k1 at *
        generalize hbt : lowerB cfg t k1 = pt at *
        obtain ⟨bt, k2⟩ := pt
        generalize hbe : lowerB cfg e k2 = pe at *
        obtain ⟨be, k3⟩ := pe
        have hlow : lowerS cfg (.ifS c t e) k = ((lowerE cfg c k).1 ++ [Stmt.ifS (lowerE cfg c k).2.1 bt be], k3) := by
          simp only [lowerS, hk1, hbt, hbe]
        rw [hlow]
        simp only
        -- the branch taken
        cases hbr : execP fns f σ1 (if σ1.truthy vc = true then t else e) with
        | mk ob σ2 =>
        rw [hbr] at h
        have hob : (ob = .normal ∨ ∃ w, ob = .ret w) := by
          cases ob with
          | normal => exact Or.inl rfl
          | ret w => exact Or.inr ⟨w, rfl⟩
          | brk => simp only [Prod.mk.injEq] at h; rcases ho with ho | ⟨w, ho⟩ <;> rw [ho] at h <;> cases h.1
          | cont => simp only [Prod.mk.injEq] at h; rcases ho with ho | ⟨w, ho⟩ <;> rw [ho] at h <;> cases h.1
          | err er => simp only [Prod.mk.injEq] at h; rcases ho with ho | ⟨w, ho⟩ <;> rw [ho] at h <;> cases h.1
        -- simulate the branch
        have hbranch : ∃ τ2, Sim2 σ2 τ2 ∧
            Runs (if τ1.truthy vc = true then bt else be) τ1 τ2 ob := by
          rw [truthy_sim σ1 τ1 vc hsim1]
          by_cases htr : σ1.truthy vc = true
          · rw [if_pos htr] at hbr ⊢
            have := ih t htf hntt k1 σ1 τ1 σ2 ob hbr hob hs1
            rw [hbt] at this
            exact this
          · rw [if_neg htr] at hbr ⊢
            have := ih e hef hnte k2 σ1 τ1 σ2 ob hbr hob hs1
            rw [hbe] at this
            exact this
        obtain ⟨τ2, hs2, hrunsb⟩ := hbranch
        have hcostb : costL (if τ1.truthy vc = true then bt else be) + (if τ1.truthy vc = true then bt else be).length + 2
            ≤ costS (Stmt.ifS (lowerE cfg c k).2.1 bt be) := by
          simp only [costS]; split <;> omega
        cases ob with
        | normal =>
          simp only at h
          obtain ⟨τ', hs', hruns⟩ := ih B' hBf hnB k3 σ2 τ2 σ' o h ho hs2
          refine ⟨τ', hs', seq_combine _ _ τ τ2 τ' o ?_ hruns⟩
          intro rest N hN
          rw [costL_append] at hN
          simp only [costL, Nat.add_zero] at hN
          have e1 : N + ((lowerE cfg c k).1 ++ [Stmt.ifS (lowerE cfg c k).2.1 bt be]).length
              = (N + 1) + (lowerE cfg c k).1.length := by simp; omega
          have e2 : ((lowerE cfg c k).1 ++ [Stmt.ifS (lowerE cfg c k).2.1 bt be]) ++ rest
              = (lowerE cfg c k).1 ++ (Stmt.ifS (lowerE cfg c k).2.1 bt be :: rest) := by simp
          rw [e1, e2, hex]
          apply exec_if_normal N τ1 τ2 _ vc bt be rest hsim1.budget hev1
          -- run the branch with the fuel N
          have hfu : N = (N - (if τ1.truthy vc = true then bt else be).length)
              + (if τ1.truthy vc = true then bt else be).length := by omega
          have := (hrunsb [] (N - (if τ1.truthy vc = true then bt else be).length) (by omega)).1 rfl
          rw [← hfu, List.append_nil] at this
          rw [this]
          have hpos : N - (if τ1.truthy vc = true then bt else be).length
              = (N - (if τ1.truthy vc = true then bt else be).length - 1) + 1 := by omega
          rw [hpos]
          exact exec_nil _ τ2
        | ret w =>
          simp only [Prod.mk.injEq] at h
          obtain ⟨rfl, rfl⟩ := h
          refine ⟨τ2, hs2, ?_⟩
          intro rest N hN
          rw [costL_append, costL_append] at hN
          simp only [costL, Nat.add_zero] at hN
          refine ⟨fun hc => (by cases hc), ?_⟩
          intro w' hw'
          cases hw'
          have e1 : N + (((lowerE cfg c k).1 ++ [Stmt.ifS (lowerE cfg c k).2.1 bt be]) ++ (lowerB cfg B' k3).1).length
              = ((N + (lowerB cfg B' k3).1.length) + 1) + (lowerE cfg c k).1.length := by simp; omega
          have e2 : (((lowerE cfg c k).1 ++ [Stmt.ifS (lowerE cfg c k).2.1 bt be]) ++ (lowerB cfg B' k3).1) ++ rest
              = (lowerE cfg c k).1 ++ (Stmt.ifS (lowerE cfg c k).2.1 bt be :: ((lowerB cfg B' k3).1 ++ rest)) := by
            simp
          rw [e1, e2, hex]
          apply exec_if_ret _ τ1 τ2 _ vc w bt be _ hsim1.budget hev1
          have hfu : N + (lowerB cfg B' k3).1.length
              = (N + (lowerB cfg B' k3).1.length - (if τ1.truthy vc = true then bt else be).length)
                + (if τ1.truthy vc = true then bt else be).length := by omega
          have := (hrunsb [] (N + (lowerB cfg B' k3).1.length - (if τ1.truthy vc = true then bt else be).length)
            (by omega)).2 w rfl
          rw [← hfu, List.append_nil] at this
          exact this
        | brk => rcases hob with hc | ⟨w, hc⟩ <;> cases hc
        | cont => rcases hob with hc | ⟨w, hc⟩ <;> cases hc
        | err er => rcases hob with hc | ⟨w, hc⟩ <;> cases hc
      | whileS _ _ => simp [stmtFrag] at hsf
      | brk => simp [stmtFrag] at hsf
      | cont => simp [stmtFrag] at hsf
      | globalS _ => simp [stmtFrag] at hsf

end LianVerif.LowerPy
