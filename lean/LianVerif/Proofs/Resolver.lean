/-
Helper lemmas for C05 about the resolver (max of an intersection vs. walking up a decreasing chain).
The property theorems are in Properties/C05.lean.
-/
import LianVerif.Model.Resolver
import LianVerif.Spec.Lexical

namespace LianVerif.Resolver
open LianVerif.Scopes LianVerif.Lexical

variable {ν : Type} [DecidableEq ν]

/-! ### maxInt -/

theorem maxInt_eq_none {l : List Int} : maxInt l = none ↔ l = [] := by
  cases l with
  | nil => simp [maxInt]
  | cons x xs =>
    simp only [maxInt]
    cases maxInt xs <;> simp

theorem maxInt_some {l : List Int} {m : Int} (h : maxInt l = some m) :
    m ∈ l ∧ ∀ x ∈ l, x ≤ m := by
  induction l generalizing m with
  | nil => simp [maxInt] at h
  | cons x xs ih =>
    simp only [maxInt] at h
    cases hx : maxInt xs with
    | none =>
      rw [hx] at h
      have hnil : xs = [] := maxInt_eq_none.1 hx
      subst hnil
      simp only [Option.some.injEq] at h
      subst h
      simp
    | some m' =>
      rw [hx] at h
      simp only [Option.some.injEq] at h
      obtain ⟨hm', hle⟩ := ih hx
      by_cases hlt : m' < x
      · rw [if_pos hlt] at h; subst h
        refine ⟨List.mem_cons_self, ?_⟩
        intro y hy
        rcases List.mem_cons.1 hy with rfl | hy
        · exact Int.le_refl _
        · exact Int.le_trans (hle y hy) (Int.le_of_lt hlt)
      · rw [if_neg hlt] at h; subst h
        refine ⟨List.mem_cons_of_mem _ hm', ?_⟩
        intro y hy
        rcases List.mem_cons.1 hy with rfl | hy
        · exact Int.not_lt.1 hlt
        · exact hle y hy

/-- the maximum of a non-empty list exists. -/
theorem maxInt_isSome_of_mem {l : List Int} {x : Int} (h : x ∈ l) : ∃ m, maxInt l = some m := by
  cases hm : maxInt l with
  | none => rw [maxInt_eq_none.1 hm] at h; simp at h
  | some m => exact ⟨m, rfl⟩

/-! ### first hit on a strictly decreasing list = maximum of the hits -/

theorem find_decreasing_none {c : List Int} {p : Int → Bool} (h : c.find? p = none) :
    ∀ x ∈ c, p x = false := by
  intro x hx
  have := List.find?_eq_none.1 h x hx
  simpa using this

theorem find_decreasing_some {c : List Int} {p : Int → Bool} {s : Int}
    (hdesc : c.Pairwise (fun a b => a > b)) (h : c.find? p = some s) :
    s ∈ c ∧ p s = true ∧ ∀ x ∈ c, p x = true → x ≤ s := by
  induction c with
  | nil => simp at h
  | cons a as ih =>
    rw [List.pairwise_cons] at hdesc
    obtain ⟨hhead, htail⟩ := hdesc
    rw [List.find?_cons] at h
    cases hpa : p a with
    | true =>
      rw [hpa] at h
      simp only [Option.some.injEq] at h
      subst h
      refine ⟨List.mem_cons_self, hpa, ?_⟩
      intro x hx _
      rcases List.mem_cons.1 hx with rfl | hx
      · exact Int.le_refl _
      · exact Int.le_of_lt (hhead x hx)
    | false =>
      rw [hpa] at h
      obtain ⟨hs, hps, hmax⟩ := ih htail h
      refine ⟨List.mem_cons_of_mem _ hs, hps, ?_⟩
      intro x hx hpx
      rcases List.mem_cons.1 hx with rfl | hx
      · rw [hpa] at hpx; exact absurd hpx (by simp)
      · exact hmax x hx hpx

/-- **key lemma**: if a list `T` has exactly the members of a strictly decreasing list `c` that
satisfy `p`, then the maximum of `T` is the first element of `c` satisfying `p`. -/
theorem maxInt_eq_find {c T : List Int} {p : Int → Bool}
    (hdesc : c.Pairwise (fun a b => a > b))
    (hT : ∀ x, x ∈ T ↔ (x ∈ c ∧ p x = true)) :
    maxInt T = c.find? p := by
  cases hf : c.find? p with
  | none =>
    have hno := find_decreasing_none hf
    rw [maxInt_eq_none]
    cases T with
    | nil => rfl
    | cons t ts =>
      have := (hT t).1 List.mem_cons_self
      rw [hno t this.1] at this
      exact absurd this.2 (by simp)
  | some s =>
    obtain ⟨hs, hps, hmax⟩ := find_decreasing_some hdesc hf
    have hsT : s ∈ T := (hT s).2 ⟨hs, hps⟩
    obtain ⟨m, hm⟩ := maxInt_isSome_of_mem hsT
    obtain ⟨hmT, hle⟩ := maxInt_some hm
    have h1 : s ≤ m := hle s hsT
    have h2 : m ≤ s := by
      obtain ⟨hmc, hpm⟩ := (hT m).1 hmT
      exact hmax m hmc hpm
    rw [hm, Int.le_antisymm h2 h1]

/-! ### membership in the target set -/

theorem mem_targets {S : Summary ν} {cur : Int} {n : ν} {x : Int} :
    x ∈ targets S cur n ↔
      (x ∈ S.implicit ∨ (0 ≤ cur ∧ x ∈ (S.avail.get cur.toNat).getD [])) ∧
      (declScopes S.decls n).contains x = true := by
  unfold targets
  simp only [List.mem_filter, List.mem_append]
  constructor
  · rintro ⟨h | h, hp⟩
    · exact ⟨Or.inl h, hp⟩
    · by_cases hc : 0 ≤ cur
      · rw [if_pos hc] at h; exact ⟨Or.inr ⟨hc, h⟩, hp⟩
      · rw [if_neg hc] at h; simp at h
  · rintro ⟨h | ⟨hc, h⟩, hp⟩
    · exact ⟨Or.inl h, hp⟩
    · refine ⟨Or.inr ?_, hp⟩
      rw [if_pos hc]; exact h

/-- a declaration returned by `symbolInfo` is a member with the requested scope and name. -/
theorem symbolInfo_some {ds : List (Decl ν)} {sc : Int} {n : ν} {d : Decl ν}
    (h : symbolInfo ds sc n = some d) : d ∈ ds ∧ d.scope = sc ∧ d.name = n := by
  unfold symbolInfo at h
  have hm : d ∈ ds.filter (fun d => d.scope == sc && d.name == n) := List.mem_of_getLast? h
  rw [List.mem_filter] at hm
  obtain ⟨h1, h2⟩ := hm
  simp only [Bool.and_eq_true, beq_iff_eq] at h2
  exact ⟨h1, h2.1, h2.2⟩

/-- a scope listed for `n` holds a declaration of `n`. -/
theorem symbolInfo_isSome {ds : List (Decl ν)} {sc : Int} {n : ν}
    (h : (declScopes ds n).contains sc = true) : ∃ d, symbolInfo ds sc n = some d := by
  unfold declScopes at h
  rw [List.contains_iff_mem] at h
  obtain ⟨d, hd, hsc⟩ := List.mem_map.1 h
  rw [List.mem_filter] at hd
  have hmem : d ∈ ds.filter (fun d => d.scope == sc && d.name == n) := by
    rw [List.mem_filter]
    refine ⟨hd.1, ?_⟩
    simp only [Bool.and_eq_true, beq_iff_eq]
    exact ⟨hsc, by simpa using hd.2⟩
  unfold symbolInfo
  cases hl : (ds.filter (fun d => d.scope == sc && d.name == n)).getLast? with
  | none =>
    rw [List.getLast?_eq_none_iff] at hl
    rw [hl] at hmem; simp at hmem
  | some d' => exact ⟨d', rfl⟩

/-! ### equivariance under an injective renaming of all identifiers -/

section Equivariance
variable {μ : Type} [DecidableEq μ]

theorem shape_map (σ : ν → μ) (r : Row ν) : (Row.map σ r).shape = r.shape := by
  simp [Row.map, Row.shape]

theorem shapes_map (σ : ν → μ) (rows : List (Row ν)) :
    (rows.map (Row.map σ)).map Row.shape = rows.map Row.shape := by
  rw [List.map_map]
  apply List.map_congr_left
  intro r _
  exact shape_map σ r

theorem declName_map (σ : ν → μ) (lastSeg : ν → Option ν) (lastSeg' : μ → Option μ)
    (hseg : ∀ a, lastSeg' (σ a) = (lastSeg a).map σ) (k : SKind) (r : Row ν) :
    declName lastSeg' k (Row.map σ r) = (declName lastSeg k r).map σ := by
  unfold declName
  by_cases hk : (k == SKind.import_) = true
  · rw [if_pos hk, if_pos hk]
    cases ha : r.alias with
    | some a => simp [Row.map, ha]
    | none =>
      cases hn : r.name with
      | none => simp [Row.map, ha, hn]
      | some a => simp [Row.map, ha, hn, hseg]
  · rw [if_neg hk, if_neg hk]; rfl

theorem find_map_row (σ : ν → μ) (rows : List (Row ν)) (id : Nat) :
    (rows.map (Row.map σ)).find? (fun r => r.id == id) =
      (rows.find? (fun r => r.id == id)).map (Row.map σ) := by
  induction rows with
  | nil => rfl
  | cons r rows ih =>
    rw [List.map_cons, List.find?_cons, List.find?_cons]
    have : (Row.map σ r).id = r.id := rfl
    rw [this]
    cases h : (r.id == id) with
    | true => rfl
    | false => exact ih

theorem decls_map (σ : ν → μ) (lastSeg : ν → Option ν) (lastSeg' : μ → Option μ)
    (hseg : ∀ a, lastSeg' (σ a) = (lastSeg a).map σ) (rows : List (Row ν)) (recs : List ScopeRec) :
    decls lastSeg' (rows.map (Row.map σ)) recs = (decls lastSeg rows recs).map (Decl.map σ) := by
  unfold decls
  induction recs with
  | nil => rfl
  | cons rec recs ih =>
    rw [List.filterMap_cons, List.filterMap_cons, ih]
    by_cases hd : rec.kind.declares = true
    · rw [if_pos hd, if_pos hd, find_map_row]
      cases hf : rows.find? (fun r => r.id == rec.stmt) with
      | none => simp
      | some r =>
        simp only [Option.map_some]
        rw [declName_map σ lastSeg lastSeg' hseg]
        cases hn : declName lastSeg rec.kind r with
        | none => simp
        | some n => simp [Decl.map]
    · rw [if_neg hd, if_neg hd]

theorem beq_inj (σ : ν → μ) (hinj : Function.Injective σ) (a b : ν) : (σ a == σ b) = (a == b) := by
  by_cases h : a = b
  · subst h; simp
  · have : σ a ≠ σ b := fun e => h (hinj e)
    rw [beq_eq_false_iff_ne.2 h, beq_eq_false_iff_ne.2 this]

theorem declScopes_map (σ : ν → μ) (hinj : Function.Injective σ) (ds : List (Decl ν)) (n : ν) :
    declScopes (ds.map (Decl.map σ)) (σ n) = declScopes ds n := by
  unfold declScopes
  rw [List.filter_map, List.map_map]
  have hf : ((fun d : Decl μ => d.name == σ n) ∘ Decl.map σ) = (fun d : Decl ν => d.name == n) := by
    funext d
    simp only [Function.comp, Decl.map, beq_inj σ hinj]
  rw [hf]
  apply List.map_congr_left
  intro d _; rfl

theorem symbolInfo_map (σ : ν → μ) (hinj : Function.Injective σ) (ds : List (Decl ν)) (sc : Int) (n : ν) :
    symbolInfo (ds.map (Decl.map σ)) sc (σ n) = (symbolInfo ds sc n).map (Decl.map σ) := by
  unfold symbolInfo
  rw [List.filter_map]
  have hf : ((fun d : Decl μ => d.scope == sc && d.name == σ n) ∘ Decl.map σ) =
      (fun d : Decl ν => d.scope == sc && d.name == n) := by
    funext d
    simp only [Function.comp, Decl.map, beq_inj σ hinj]
  rw [hf, List.getLast?_map]

/-- the summary with every declared name renamed. -/
def Summary.map (σ : ν → μ) (S : Summary ν) : Summary μ :=
  { decls := S.decls.map (Decl.map σ), avail := S.avail, implicit := S.implicit }

theorem targets_map (σ : ν → μ) (hinj : Function.Injective σ) (S : Summary ν) (cur : Int) (n : ν) :
    targets (S.map σ) cur (σ n) = targets S cur n := by
  unfold targets Summary.map
  simp only [declScopes_map σ hinj]

theorem resolveDecl_map (σ : ν → μ) (hinj : Function.Injective σ) (S : Summary ν) (cur : Int) (n : ν) :
    resolveDecl (S.map σ) cur (σ n) = (resolveDecl S cur n).map (Decl.map σ) := by
  unfold resolveDecl
  rw [targets_map σ hinj]
  by_cases hc : (cur == -1) = true
  · rw [if_pos hc, if_pos hc]; rfl
  · rw [if_neg hc, if_neg hc]
    cases maxInt (targets S cur n) with
    | none => rfl
    | some m => exact symbolInfo_map σ hinj S.decls m n

theorem resolveGlobal_map (σ : ν → μ) (hinj : Function.Injective σ) (S : Summary ν) (n : ν) :
    resolveGlobal (S.map σ) (σ n) = (resolveGlobal S n).map (Decl.map σ) := by
  unfold resolveGlobal
  have : (S.map σ).decls = S.decls.map (Decl.map σ) := rfl
  rw [this, declScopes_map σ hinj]
  by_cases h : (declScopes S.decls n).contains 0 = true
  · rw [if_pos h, if_pos h]; exact symbolInfo_map σ hinj S.decls 0 n
  · rw [if_neg h, if_neg h]; rfl

theorem bind_map (σ : ν → μ) (hinj : Function.Injective σ) (S : Summary ν) (ss : Nat → Int)
    (stmt : Nat) (n : ν) (mode : Mode) :
    bind (S.map σ) ss stmt (σ n) mode = (bind S ss stmt n mode).map (Decl.map σ) := by
  cases mode with
  | global => exact resolveGlobal_map σ hinj S n
  | use =>
    unfold bind
    rw [resolveDecl_map σ hinj]
    cases resolveDecl S (ss stmt) n with
    | none => rfl
    | some d =>
      simp only [Option.map_some]
      have : (Decl.map σ d).stmt = d.stmt := rfl
      rw [this]
      by_cases h : (d.stmt == stmt) = true
      · rw [if_pos h, if_pos h]; rfl
      · rw [if_neg h, if_neg h]; rfl

end Equivariance

/-! ### renaming ONE declaration -/

theorem maxInt_of_subset {T T' : List Int} {m : Int} (h : maxInt T = some m) (hm : m ∈ T')
    (hsub : ∀ x ∈ T', x ∈ T) : maxInt T' = some m := by
  obtain ⟨m', hm'⟩ := maxInt_isSome_of_mem hm
  obtain ⟨h1, h2⟩ := maxInt_some hm'
  obtain ⟨_, h4⟩ := maxInt_some h
  have : m' = m := Int.le_antisymm (h4 m' (hsub m' h1)) (h2 m hm)
  rw [hm', this]

theorem getLast?_filter_of_last {α : Type} {l : List α} {p : α → Bool} {r : α}
    (h : l.getLast? = some r) (hp : p r = true) : (l.filter p).getLast? = some r := by
  obtain ⟨l', rfl⟩ := List.getLast?_eq_some_iff.1 h
  rw [List.filter_append]
  simp [hp]

/-- filtering the renamed list for a name different from the new one: the renamed declaration
simply disappears. -/
theorem filter_rename_old (ds : List (Decl ν)) (d0 : Nat) (n n' : ν) (hne : n ≠ n') (q : Decl ν → Bool) :
    (renameDecl ds d0 n').filter (fun d => q d && d.name == n) =
      (ds.filter (fun d => q d && d.name == n)).filter (fun d => !(d.stmt == d0)) := by
  unfold renameDecl
  induction ds with
  | nil => rfl
  | cons d ds ih =>
    rw [List.map_cons, List.filter_cons, List.filter_cons, ih]
    by_cases hd : (d.stmt == d0) = true
    · rw [if_pos hd]
      have h1 : ((q { d with name := n' } && ({ d with name := n' } : Decl ν).name == n)) = false := by
        have : (n' == n) = false := by
          rw [beq_eq_false_iff_ne]; exact fun e => hne e.symm
        simp [this]
      rw [h1]
      simp only [Bool.false_eq_true, if_false]
      by_cases h2 : (q d && d.name == n) = true
      · rw [if_pos h2, List.filter_cons]
        simp [hd]
      · rw [if_neg h2]
    · rw [if_neg hd]
      by_cases h2 : (q d && d.name == n) = true
      · rw [if_pos h2, if_pos h2, List.filter_cons]
        simp [hd]
      · rw [if_neg h2, if_neg h2]

/-- filtering the renamed list for a name that is neither the old nor the new one. -/
theorem filter_rename_other (ds : List (Decl ν)) (d0 : Nat) (n n' m : ν)
    (hold : ∀ d ∈ ds, d.stmt = d0 → d.name = n) (hmn : m ≠ n) (hmn' : m ≠ n') (q : Decl ν → Bool) :
    (renameDecl ds d0 n').filter (fun d => q d && d.name == m) =
      ds.filter (fun d => q d && d.name == m) := by
  unfold renameDecl
  induction ds with
  | nil => rfl
  | cons d ds ih =>
    rw [List.map_cons, List.filter_cons, List.filter_cons,
      ih (fun x hx => hold x (List.mem_cons_of_mem _ hx))]
    by_cases hd : (d.stmt == d0) = true
    · rw [if_pos hd]
      have hdn : d.name = n := hold d List.mem_cons_self (by simpa using hd)
      have h1 : ((q { d with name := n' } && ({ d with name := n' } : Decl ν).name == m)) = false := by
        have : (n' == m) = false := by rw [beq_eq_false_iff_ne]; exact fun e => hmn' e.symm
        simp [this]
      have h2 : (q d && d.name == m) = false := by
        have : (d.name == m) = false := by
          rw [beq_eq_false_iff_ne, hdn]; exact fun e => hmn e.symm
        simp [this]
      rw [h1, h2]
      simp only [Bool.false_eq_true, if_false]
    · rw [if_neg hd]

/-- filtering the renamed list for the NEW (fresh) name: exactly the renamed declarations. -/
theorem filter_rename_new (ds : List (Decl ν)) (d0 : Nat) (n' : ν)
    (hfresh : ∀ d ∈ ds, d.name ≠ n') (q : Decl ν → Bool)
    (hq : ∀ d : Decl ν, q { d with name := n' } = q d) :
    (renameDecl ds d0 n').filter (fun d => q d && d.name == n') =
      ((ds.filter (fun d => q d && d.stmt == d0))).map (fun d => { d with name := n' }) := by
  unfold renameDecl
  induction ds with
  | nil => rfl
  | cons d ds ih =>
    rw [List.map_cons, List.filter_cons, List.filter_cons,
      ih (fun x hx => hfresh x (List.mem_cons_of_mem _ hx))]
    by_cases hd : (d.stmt == d0) = true
    · rw [if_pos hd]
      simp [hq, hd]
      by_cases hqd : q d = true
      · simp [hqd]
      · simp [hqd]
    · rw [if_neg hd]
      have hdn : (d.name == n') = false := by
        rw [beq_eq_false_iff_ne]; exact hfresh d List.mem_cons_self
      simp [hdn, hd]

end LianVerif.Resolver
