/-
On a table that is a top-level level of the grammar with unique ids, the consumers do not fail:
the `GIRBlockViewer` constructor returns and `DataModel.read_block` finds exactly two rows for every
block id.
-/
import LianVerif.Model.Consumers
import LianVerif.Proofs.MainFunc

namespace LianVerif.Gir
open LianVerif.Consumers

/-- every `block_end` already scanned has a row introducing its id among the scanned rows -/
def EndsClosed (done : Rows) : Prop :=
  ∀ e ∈ done, e.isEnd = true → ∃ s ∈ done, s.isEnd = false ∧ s.id = e.id

theorem mem_defIds_of {rows : Rows} {r : Row} (hr : r ∈ rows) (he : r.isEnd = false) : r.id ∈ defIds rows := by
  simp only [defIds, List.mem_map, List.mem_filter]
  exact ⟨r, ⟨hr, by simp [he]⟩, rfl⟩

/-- a non-end row whose id is introduced once in `done ++ r :: more` is not yet known -/
theorem fresh_of_nodup {done more : Rows} {r : Row} (he : r.isEnd = false)
    (hnd : (defIds (done ++ r :: more)).Nodup) (hc : EndsClosed done) : ∀ x ∈ done, x.id ≠ r.id := by
  intro x hx hid
  rw [defIds_append, defIds_cons_of_not_end he] at hnd
  have hdisj := (List.nodup_append.1 hnd).2.2
  have hmem : r.id ∈ defIds done := by
    cases hxe : x.isEnd with
    | false => rw [← hid]; exact mem_defIds_of hx hxe
    | true =>
      obtain ⟨s, hs, hse, hsid⟩ := hc x hx hxe
      rw [← hid, ← hsid]; exact mem_defIds_of hs hse
  exact hdisj _ hmem _ List.mem_cons_self rfl

theorem firstWith_none {done : Rows} {i : Nat} (h : ∀ x ∈ done, x.id ≠ i) : firstWith done i = none := by
  simp only [firstWith, List.find?_eq_none, beq_iff_eq]
  exact fun x hx => h x hx

theorem endsClosed_snoc_nonend {done : Rows} {r : Row} (hc : EndsClosed done) (he : r.isEnd = false) :
    EndsClosed (done ++ [r]) := by
  intro e hmem hee
  rcases List.mem_append.1 hmem with h | h
  · obtain ⟨s, hs, h1, h2⟩ := hc e h hee
    exact ⟨s, List.mem_append_left _ hs, h1, h2⟩
  · simp only [List.mem_singleton] at h
    subst h; rw [he] at hee; cases hee

theorem EndsClosed.mono_append {a b : Rows} (ha : EndsClosed a) :
    (∀ e ∈ b, e.isEnd = true → ∃ s ∈ a ++ b, s.isEnd = false ∧ s.id = e.id) → EndsClosed (a ++ b) := by
  intro hb e hmem hee
  rcases List.mem_append.1 hmem with h | h
  · obtain ⟨s, hs, h1, h2⟩ := ha e h hee
    exact ⟨s, List.mem_append_left _ hs, h1, h2⟩
  · exact hb e h hee

/-- scanning a complete level from any state is the same as having it in `done` -/
theorem viewGo_shape {p : Nat} {last : Option Row} {pre : Rows} (h : Shape p last pre) :
    ∀ (done : Rows) (stack : List Nat) (rest : Rows),
      (defIds (done ++ pre)).Nodup → EndsClosed done →
      viewGo done stack (pre ++ rest) = viewGo (done ++ pre) stack rest ∧ EndsClosed (done ++ pre) := by
  induction h with
  | nil => intro done stack rest _ hc; simpa using hc
  | @stmt p last r rest' hm hp _ ih =>
    intro done stack rest hnd hc
    obtain ⟨hs, he⟩ := isMarker_false_iff.1 hm
    have hfresh := fresh_of_nodup he hnd hc
    have hdup : dupOk done r = true := by simp [dupOk, firstWith_none hfresh]
    have hnd' : (defIds ((done ++ [r]) ++ rest')).Nodup := by simpa using hnd
    obtain ⟨h1, h2⟩ := ih (done ++ [r]) stack rest hnd' (endsClosed_snoc_nonend hc he)
    refine ⟨?_, by simpa using h2⟩
    rw [List.cons_append]
    simp only [viewGo, hdup, Bool.not_true, Bool.false_eq_true, if_false, hs, he]
    rw [h1]; simp
  | @block p o s e inner rest' hs he hid hsp hep ha _ _ ih1 ih2 =>
    intro done stack rest hnd hc
    have hse : s.isEnd = false := isStart_not_isEnd hs
    have hes : e.isStart = false := isEnd_not_isStart he
    have hfresh := fresh_of_nodup (more := inner ++ e :: rest') hse hnd hc
    have hdup : dupOk done s = true := by simp [dupOk, firstWith_none hfresh]
    -- the inner level
    have hnd1 : (defIds ((done ++ [s]) ++ inner)).Nodup := by
      have : done ++ s :: (inner ++ e :: rest') = ((done ++ [s]) ++ inner) ++ (e :: rest') := by simp
      rw [this, defIds_append] at hnd
      exact (List.nodup_append.1 hnd).1
    obtain ⟨h1, hc1⟩ := ih1 (done ++ [s]) (s.id :: stack) (e :: (rest' ++ rest)) hnd1
      (endsClosed_snoc_nonend hc hse)
    -- the end marker: the first row with its id is the start
    have hfirst : firstWith ((done ++ [s]) ++ inner) e.id = some s := by
      rw [hid]
      simp only [firstWith, List.append_assoc, List.find?_append]
      have : List.find? (fun r => r.id == s.id) done = none := by
        rw [List.find?_eq_none]; intro x hx; simp only [beq_iff_eq]; exact hfresh x hx
      simp [this]
    have hdupe : dupOk ((done ++ [s]) ++ inner) e = true := by
      unfold dupOk; rw [hfirst]; simp [hs, he]
    have hc2 : EndsClosed (((done ++ [s]) ++ inner) ++ [e]) := by
      refine hc1.mono_append ?_
      intro x hx _
      simp only [List.mem_singleton] at hx
      subst hx
      exact ⟨s, by simp, hse, hid.symm⟩
    have hnd2 : (defIds ((((done ++ [s]) ++ inner) ++ [e]) ++ rest')).Nodup := by
      have : (((done ++ [s]) ++ inner) ++ [e]) ++ rest' = done ++ s :: (inner ++ e :: rest') := by simp
      rw [this]; exact hnd
    obtain ⟨h2, hc3⟩ := ih2 ((((done ++ [s]) ++ inner) ++ [e])) stack rest hnd2 hc2
    have hfin : (((done ++ [s]) ++ inner) ++ [e]) ++ rest' = done ++ s :: (inner ++ e :: rest') := by simp
    refine ⟨?_, by rw [← hfin]; exact hc3⟩
    rw [List.cons_append]
    simp only [viewGo, hdup, Bool.not_true, Bool.false_eq_true, if_false, hs, if_true]
    have : (inner ++ e :: rest') ++ rest = inner ++ e :: (rest' ++ rest) := by simp
    rw [this, h1]
    simp only [viewGo, hdupe, Bool.not_true, Bool.false_eq_true, if_false, hes, he, if_true, hid, bne_self_eq_false]
    rw [h2, hfin]

/-- **the `GIRBlockViewer` constructor returns on a well-nested table with unique ids** -/
theorem viewer_ok {rows : Rows} (h : Shape 0 none rows) (hnd : (defIds rows).Nodup) : viewer rows = .ok () := by
  have := (viewGo_shape h [] [] [] (by simpa using hnd) (by intro e he; simp at he)).1
  simp only [List.append_nil, List.nil_append] at this
  rw [viewer, this]
  simp [viewGo]

/-! ### `read_block` -/

def startIds (rows : Rows) : List Nat := (rows.filter (·.isStart)).map (·.id)
def endIds (rows : Rows) : List Nat := (rows.filter (·.isEnd)).map (·.id)

theorem shape_ends_perm {p : Nat} {last : Option Row} {rows : Rows} (h : Shape p last rows) :
    (endIds rows).Perm (startIds rows) := by
  induction h with
  | nil => exact List.Perm.refl _
  | stmt hm _ _ ih =>
    obtain ⟨hs, he⟩ := isMarker_false_iff.1 hm
    simpa [endIds, startIds, List.filter_cons, hs, he] using ih
  | @block p o s e inner rest hs he hid _ _ _ _ _ ih1 ih2 =>
    have hse := isStart_not_isEnd hs
    have hes := isEnd_not_isStart he
    simp only [endIds, startIds, List.filter_cons, List.filter_append, hs, hse, he, hes, List.map_cons,
      List.map_append, if_true, Bool.false_eq_true, if_false] at ih1 ih2 ⊢
    rw [hid]
    exact (List.perm_middle).trans ((ih1.append ih2).cons _)

theorem startIds_sublist (rows : Rows) : (startIds rows).Sublist (defIds rows) := by
  induction rows with
  | nil => exact List.Sublist.refl _
  | cons r rest ih =>
    cases hs : r.isStart with
    | true =>
      have he := isStart_not_isEnd hs
      simp only [startIds, defIds, List.filter_cons, hs, he, Bool.not_false, if_true, List.map_cons]
      exact ih.cons_cons _
    | false =>
      cases he : r.isEnd with
      | true =>
        simp only [startIds, defIds, List.filter_cons, hs, he, Bool.not_true, Bool.false_eq_true, if_false]
        exact ih
      | false =>
        simp only [startIds, defIds, List.filter_cons, hs, he, Bool.not_false, Bool.false_eq_true, if_false,
          if_true, List.map_cons]
        exact ih.cons _

theorem count_filter_id (rows : Rows) (b : Nat) :
    (rows.filter (fun r => r.id == b)).length = (defIds rows).count b + (endIds rows).count b := by
  induction rows with
  | nil => rfl
  | cons r rest ih =>
    cases he : r.isEnd with
    | true =>
      by_cases hb : r.id = b
      · simp [defIds, endIds, List.filter_cons, he, hb] at ih ⊢
        omega
      · have : (r.id == b) = false := by simpa using hb
        simp [defIds, endIds, List.filter_cons, he, this, hb] at ih ⊢
        omega
    | false =>
      by_cases hb : r.id = b
      · simp [defIds, endIds, List.filter_cons, he, hb] at ih ⊢
        omega
      · have : (r.id == b) = false := by simpa using hb
        simp [defIds, endIds, List.filter_cons, he, this, hb] at ih ⊢
        omega

/-- **`read_block` finds exactly two rows for every block id** -/
theorem readBlock_ok {rows : Rows} (h : Shape 0 none rows) (hnd : (defIds rows).Nodup) :
    ∀ s ∈ rows, s.isStart = true → readBlock rows s.id = true := by
  intro s hs hst
  have hmem1 : s.id ∈ defIds rows := mem_defIds_of hs (isStart_not_isEnd hst)
  have hmem2 : s.id ∈ startIds rows := by
    simp only [startIds, List.mem_map, List.mem_filter]
    exact ⟨s, ⟨hs, hst⟩, rfl⟩
  have hnd2 : (startIds rows).Nodup := hnd.sublist (startIds_sublist rows)
  have c1 : (defIds rows).count s.id = 1 := by rw [hnd.count, if_pos hmem1]
  have c2 : (endIds rows).count s.id = 1 := by
    rw [(shape_ends_perm h).count_eq, hnd2.count, if_pos hmem2]
  simp only [readBlock, count_filter_id, c1, c2]
  rfl

end LianVerif.Gir
