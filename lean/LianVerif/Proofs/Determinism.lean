/-
Helper lemmas for C14: the stable insertion sort `sortLe` returns the same list for every permutation
of its input when the order is total, transitive and antisymmetric on the elements; order facts about
`leBy` and `lexLe`; permutation lemmas for the loops of `mapArgsWith`.
-/
import LianVerif.Model.Determinism

namespace LianVerif.Determinism
open List

variable {α : Type}

/-! ### `sortLe` -/

theorem perm_insertLe (le : α → α → Bool) (x : α) (l : List α) : insertLe le x l ~ x :: l := by
  induction l with
  | nil => exact Perm.refl _
  | cons y ys ih =>
    simp only [insertLe]
    split
    · exact Perm.refl _
    · exact (Perm.cons y ih).trans (Perm.swap x y ys)

theorem perm_sortLe (le : α → α → Bool) (l : List α) : sortLe le l ~ l := by
  induction l with
  | nil => exact Perm.refl _
  | cons x xs ih =>
    show insertLe le x (sortLe le xs) ~ x :: xs
    exact (perm_insertLe le x _).trans (Perm.cons x ih)

theorem mem_insertLe {le : α → α → Bool} {x a : α} {l : List α} : a ∈ insertLe le x l ↔ a = x ∨ a ∈ l := by
  rw [(perm_insertLe le x l).mem_iff, mem_cons]

theorem pairwise_insertLe {le : α → α → Bool}
    (trans : ∀ a b c, le a b = true → le b c = true → le a c = true)
    (total : ∀ a b, le a b = true ∨ le b a = true)
    (x : α) {l : List α} (h : l.Pairwise (fun a b => le a b = true)) :
    (insertLe le x l).Pairwise (fun a b => le a b = true) := by
  induction l with
  | nil => simp [insertLe]
  | cons y ys ih =>
    simp only [insertLe]
    rw [pairwise_cons] at h
    obtain ⟨hy, hys⟩ := h
    split
    · rename_i hxy
      rw [pairwise_cons]
      refine ⟨?_, pairwise_cons.2 ⟨hy, hys⟩⟩
      intro b hb
      rcases mem_cons.1 hb with rfl | hb
      · exact hxy
      · exact trans _ _ _ hxy (hy b hb)
    · rename_i hxy
      have hyx : le y x = true := by
        rcases total x y with h | h
        · exact absurd h hxy
        · exact h
      rw [pairwise_cons]
      refine ⟨?_, ih hys⟩
      intro b hb
      rcases mem_insertLe.1 hb with rfl | hb
      · exact hyx
      · exact hy b hb

theorem pairwise_sortLe {le : α → α → Bool}
    (trans : ∀ a b c, le a b = true → le b c = true → le a c = true)
    (total : ∀ a b, le a b = true ∨ le b a = true) (l : List α) :
    (sortLe le l).Pairwise (fun a b => le a b = true) := by
  induction l with
  | nil => simp [sortLe]
  | cons x xs ih => exact pairwise_insertLe trans total x ih

/-- **the sort erases the input order** when the comparison is a total preorder that is antisymmetric
on the elements of the list (i.e. the sort key is injective on it). -/
theorem sortLe_eq_of_perm {le : α → α → Bool}
    (trans : ∀ a b c, le a b = true → le b c = true → le a c = true)
    (total : ∀ a b, le a b = true ∨ le b a = true)
    {l₁ l₂ : List α} (antisymm : ∀ a ∈ l₁, ∀ b ∈ l₁, le a b = true → le b a = true → a = b)
    (h : l₁ ~ l₂) : sortLe le l₁ = sortLe le l₂ := by
  have hp : sortLe le l₁ ~ sortLe le l₂ := (perm_sortLe le l₁).trans (h.trans (perm_sortLe le l₂).symm)
  refine Perm.eq_of_pairwise (le := fun a b => le a b = true) ?_ (pairwise_sortLe trans total l₁)
    (pairwise_sortLe trans total l₂) hp
  intro a b ha hb hab hba
  have ha' : a ∈ l₁ := (perm_sortLe le l₁).mem_iff.1 ha
  have hb' : b ∈ l₁ := h.mem_iff.2 ((perm_sortLe le l₂).mem_iff.1 hb)
  exact antisymm a ha' b hb' hab hba

/-! ### `leBy` -/

theorem leBy_trans (key : α → Int) (a b c : α) : leBy key a b = true → leBy key b c = true → leBy key a c = true := by
  simp only [leBy, decide_eq_true_eq]; omega

theorem leBy_total (key : α → Int) (a b : α) : leBy key a b = true ∨ leBy key b a = true := by
  simp only [leBy, decide_eq_true_eq]; omega

/-- a key without repetitions on the list is injective on it -/
theorem inj_of_nodup_map {β : Type} (key : α → β) :
    ∀ {l : List α}, (l.map key).Nodup → ∀ a ∈ l, ∀ b ∈ l, key a = key b → a = b := by
  intro l
  induction l with
  | nil => intro _ a ha; simp at ha
  | cons x xs ih =>
    intro h a ha b hb hab
    rw [map_cons, nodup_cons] at h
    obtain ⟨hx, hxs⟩ := h
    rcases mem_cons.1 ha with ha | ha
    · rcases mem_cons.1 hb with hb | hb
      · rw [ha, hb]
      · exact absurd (by rw [← ha, hab]; exact mem_map_of_mem hb) hx
    · rcases mem_cons.1 hb with hb | hb
      · exact absurd (by rw [← hb, ← hab]; exact mem_map_of_mem ha) hx
      · exact ih hxs a ha b hb hab

theorem sortBy_eq_of_perm (key : α → Int) {l₁ l₂ : List α} (hk : (l₁.map key).Nodup) (h : l₁ ~ l₂) :
    sortLe (leBy key) l₁ = sortLe (leBy key) l₂ := by
  refine sortLe_eq_of_perm (leBy_trans key) (leBy_total key) ?_ h
  intro a ha b hb hab hba
  apply inj_of_nodup_map key hk a ha b hb
  simp only [leBy, decide_eq_true_eq] at hab hba
  omega

/-! ### `lexLe` -/

theorem lexLe_total : ∀ (a b : List Int), lexLe a b = true ∨ lexLe b a = true
  | [], _ => Or.inl (by simp [lexLe])
  | _ :: _, [] => Or.inr (by simp [lexLe])
  | a :: as, b :: bs => by
    simp only [lexLe, Bool.or_eq_true, decide_eq_true_eq, Bool.and_eq_true, beq_iff_eq]
    rcases Int.lt_trichotomy a b with h | h | h
    · exact Or.inl (Or.inl h)
    · subst h
      rcases lexLe_total as bs with h' | h'
      · exact Or.inl (Or.inr ⟨rfl, h'⟩)
      · exact Or.inr (Or.inr ⟨rfl, h'⟩)
    · exact Or.inr (Or.inl h)

theorem lexLe_trans : ∀ (a b c : List Int), lexLe a b = true → lexLe b c = true → lexLe a c = true
  | [], _, _ => by intro _ _; simp [lexLe]
  | _ :: _, [], _ => by intro h; simp [lexLe] at h
  | _ :: _, _ :: _, [] => by intro _ h; simp [lexLe] at h
  | a :: as, b :: bs, c :: cs => by
    simp only [lexLe, Bool.or_eq_true, decide_eq_true_eq, Bool.and_eq_true, beq_iff_eq]
    rintro (h1 | ⟨h1, h1'⟩) (h2 | ⟨h2, h2'⟩)
    · exact Or.inl (by omega)
    · exact Or.inl (by omega)
    · exact Or.inl (by omega)
    · exact Or.inr ⟨by omega, lexLe_trans as bs cs h1' h2'⟩

theorem lexLe_antisymm : ∀ (a b : List Int), lexLe a b = true → lexLe b a = true → a = b
  | [], [] => by intro _ _; rfl
  | [], _ :: _ => by intro _ h; simp [lexLe] at h
  | _ :: _, [] => by intro h; simp [lexLe] at h
  | a :: as, b :: bs => by
    simp only [lexLe, Bool.or_eq_true, decide_eq_true_eq, Bool.and_eq_true, beq_iff_eq]
    rintro (h1 | ⟨h1, h1'⟩) (h2 | ⟨h2, h2'⟩)
    · omega
    · omega
    · omega
    · rw [h1, lexLe_antisymm as bs h1' h2']

/-! ### `dedupFirst` -/

theorem mem_dedupFirst (xs : List String) : ∀ (acc : List String) (t : String),
    t ∈ dedupFirst xs acc ↔ (t ∈ acc ∨ t ∈ xs) := by
  induction xs with
  | nil => intro acc t; simp [dedupFirst]
  | cons v vs ih =>
    intro acc t
    simp only [dedupFirst]
    split
    · rename_i hc
      have hv : v ∈ acc := List.contains_iff_mem.1 hc
      rw [ih, mem_cons]
      constructor
      · rintro (h | h)
        · exact Or.inl h
        · exact Or.inr (Or.inr h)
      · rintro (h | h | h)
        · exact Or.inl h
        · exact Or.inl (h ▸ hv)
        · exact Or.inr h
    · rw [ih, mem_append, mem_singleton, mem_cons]
      constructor
      · rintro ((h | h) | h)
        · exact Or.inl h
        · exact Or.inr (Or.inl h)
        · exact Or.inr (Or.inr h)
      · rintro (h | h | h)
        · exact Or.inl (Or.inl h)
        · exact Or.inl (Or.inr h)
        · exact Or.inr h

theorem nodup_dedupFirst (xs : List String) : ∀ (acc : List String), acc.Nodup → (dedupFirst xs acc).Nodup := by
  induction xs with
  | nil => intro acc h; simpa [dedupFirst] using h
  | cons v vs ih =>
    intro acc h
    simp only [dedupFirst]
    split
    · exact ih acc h
    · rename_i hc
      apply ih
      rw [nodup_append]
      refine ⟨h, by simp, ?_⟩
      intro a ha b hb
      rw [mem_singleton] at hb
      subst hb
      rintro rfl
      exact hc (List.contains_iff_mem.2 ha)

/-! ### first-match lookup over a set of pairs with distinct first components -/

theorem find?_fst_eq_of_mem {d : List (Int × Int)} (hk : (d.map Prod.fst).Nodup) {pr : Int × Int} (h : pr ∈ d) :
    d.find? (fun q => q.1 == pr.1) = some pr := by
  induction d with
  | nil => simp at h
  | cons x xs ih =>
    rw [map_cons, nodup_cons] at hk
    obtain ⟨hx, hxs⟩ := hk
    rcases mem_cons.1 h with rfl | h
    · simp [find?]
    · have hne : (x.1 == pr.1) = false := by
        rw [beq_eq_false_iff_ne]
        intro he
        exact hx (he ▸ mem_map_of_mem h)
      simp only [find?, hne]
      exact ih hxs h

theorem lookupDefault_perm {d₁ d₂ : List (Int × Int)} (hk : (d₁.map Prod.fst).Nodup) (h : d₁ ~ d₂) (sym : Int) :
    lookupDefault d₁ sym = lookupDefault d₂ sym := by
  have hk₂ : (d₂.map Prod.fst).Nodup := (h.map Prod.fst).nodup_iff.1 hk
  unfold lookupDefault
  cases h1 : d₁.find? (fun pr => pr.1 == sym) with
  | some pr =>
    have hm := mem_of_find?_eq_some h1
    have hs : pr.1 = sym := by simpa using find?_some h1
    have := find?_fst_eq_of_mem hk₂ (h.mem_iff.1 hm)
    rw [hs] at this
    rw [this]
  | none =>
    cases h2 : d₂.find? (fun pr => pr.1 == sym) with
    | none => rfl
    | some pr =>
      have hm := h.mem_iff.2 (mem_of_find?_eq_some h2)
      have hs := find?_some h2
      have := find?_eq_none.1 h1 pr hm
      exact absurd hs this

/-! ### the loops of `mapArgsWith` under a permutation of the hash-ordered inputs -/

/-- what may differ between two runs in the `rest_parameters` set: its iteration order -/
def RestRel (r₁ r₂ : List Param) : Prop := r₁ ~ r₂ ∧ (r₁.map Param.position).Nodup

theorem RestRel.discard {r₁ r₂ : List Param} (h : RestRel r₁ r₂) (p : Param) :
    RestRel (discard r₁ p) (discard r₂ p) := by
  refine ⟨h.1.filter _, ?_⟩
  exact h.2.sublist ((filter_sublist (l := r₁)).map Param.position)

theorem positionalLoop_perm (c : Consts) :
    ∀ (argss : List (List Arg)) (ps : List Param) (r₁ r₂ : List Param) (out : List Mapping),
      RestRel r₁ r₂ →
      RestRel (positionalLoop c argss ps r₁ out).1 (positionalLoop c argss ps r₂ out).1 ∧
      (positionalLoop c argss ps r₁ out).2 = (positionalLoop c argss ps r₂ out).2 := by
  intro argss
  induction argss with
  | nil => intro ps r₁ r₂ out h; simp only [positionalLoop]; exact ⟨h, trivial⟩
  | cons args argss ih =>
    intro ps r₁ r₂ out h
    cases ps with
    | nil => simp only [positionalLoop]; exact ⟨h, trivial⟩
    | cons p ps =>
      simp only [positionalLoop]
      by_cases he : args.isEmpty = true
      · simp only [he, if_true]; exact ih ps r₁ r₂ _ h
      · simp only [he, Bool.false_eq_true, if_false]; exact ih ps _ _ _ (h.discard p)

/-- two dicts of keyword arguments that differ only in the iteration order of their value sets -/
inductive NamedRel : List (String × List Arg) → List (String × List Arg) → Prop
  | nil : NamedRel [] []
  | cons {name : String} {a₁ a₂ : List Arg} {m₁ m₂ : List (String × List Arg)} :
      a₁ ~ a₂ → (a₁.map Arg.indexInSpace).Nodup → NamedRel m₁ m₂ → NamedRel ((name, a₁) :: m₁) ((name, a₂) :: m₂)

theorem NamedRel.isEmpty_eq {m₁ m₂} (h : NamedRel m₁ m₂) : m₁.isEmpty = m₂.isEmpty := by
  cases h <;> rfl

theorem isEmpty_eq_of_perm {β : Type} {a₁ a₂ : List β} (h : a₁ ~ a₂) : a₁.isEmpty = a₂.isEmpty := by
  cases a₁ with
  | nil => rw [h.symm.eq_nil]
  | cons x xs =>
    cases a₂ with
    | nil => exact absurd h.eq_nil (by simp)
    | cons y ys => rfl

abbrev sortArgs : List Arg → List Arg := sortLe (leBy Arg.indexInSpace)
abbrev sortParams : List Param → List Param := sortLe (leBy Param.position)

theorem sortArgs_perm {a₁ a₂ : List Arg} (hnd : (a₁.map Arg.indexInSpace).Nodup) (h : a₁ ~ a₂) :
    sortArgs a₁ = sortArgs a₂ := sortBy_eq_of_perm Arg.indexInSpace hnd h

theorem sortParams_perm {r₁ r₂ : List Param} (hnd : (r₁.map Param.position).Nodup) (h : r₁ ~ r₂) :
    sortParams r₁ = sortParams r₂ := sortBy_eq_of_perm Param.position hnd h

theorem namedLoop_perm (c : Consts) (tailParams : List Param) :
    ∀ {m₁ m₂ : List (String × List Arg)}, NamedRel m₁ m₂ →
      ∀ (r₁ r₂ : List Param) (matched : List String) (out : List Mapping), RestRel r₁ r₂ →
      RestRel (namedLoop c sortArgs tailParams m₁ r₁ matched out).1
              (namedLoop c sortArgs tailParams m₂ r₂ matched out).1 ∧
      (namedLoop c sortArgs tailParams m₁ r₁ matched out).2 =
        (namedLoop c sortArgs tailParams m₂ r₂ matched out).2 := by
  intro m₁ m₂ hm
  induction hm with
  | nil => intro r₁ r₂ matched out h; simp only [namedLoop]; exact ⟨h, trivial⟩
  | @cons name a₁ a₂ m₁ m₂ ha hnd _ ih =>
    intro r₁ r₂ matched out h
    simp only [namedLoop]
    cases lookupName tailParams name with
    | none => exact ih r₁ r₂ matched out h
    | some p =>
      simp only []
      rw [← isEmpty_eq_of_perm ha, ← sortArgs_perm hnd ha]
      by_cases he : a₁.isEmpty = true
      · simp only [he, if_true]; exact ih r₁ r₂ matched out h
      · simp only [he, Bool.false_eq_true, if_false]; exact ih _ _ _ _ (h.discard p)

theorem packedPosLoop_perm (c : Consts) (pp : Param) :
    ∀ (argss : List (List Arg)) (idx : Nat) (r₁ r₂ : List Param) (out : List Mapping), RestRel r₁ r₂ →
      RestRel (packedPosLoop c pp argss idx r₁ out).1 (packedPosLoop c pp argss idx r₂ out).1 ∧
      (packedPosLoop c pp argss idx r₁ out).2 = (packedPosLoop c pp argss idx r₂ out).2 := by
  intro argss
  induction argss with
  | nil => intro idx r₁ r₂ out h; simp only [packedPosLoop]; exact ⟨h, trivial⟩
  | cons args argss ih =>
    intro idx r₁ r₂ out h
    simp only [packedPosLoop]
    by_cases he : args.isEmpty = true
    · simp only [he, if_true]; exact ih _ r₁ r₂ _ h
    · simp only [he, Bool.false_eq_true, if_false]; exact ih _ _ _ _ (h.discard pp)

theorem packedNamedLoop_perm (c : Consts) (pn : Param) :
    ∀ {m₁ m₂ : List (String × List Arg)}, NamedRel m₁ m₂ →
      ∀ (r₁ r₂ : List Param) (matched : List String) (out : List Mapping), RestRel r₁ r₂ →
      RestRel (packedNamedLoop c sortArgs pn m₁ r₁ matched out).1
              (packedNamedLoop c sortArgs pn m₂ r₂ matched out).1 ∧
      (packedNamedLoop c sortArgs pn m₁ r₁ matched out).2 =
        (packedNamedLoop c sortArgs pn m₂ r₂ matched out).2 := by
  intro m₁ m₂ hm
  induction hm with
  | nil => intro r₁ r₂ matched out h; simp only [packedNamedLoop]; exact ⟨h, trivial⟩
  | @cons name a₁ a₂ m₁ m₂ ha hnd _ ih =>
    intro r₁ r₂ matched out h
    simp only [packedNamedLoop]
    by_cases hc : matched.contains name = true
    · simp only [hc, if_true]; exact ih r₁ r₂ matched out h
    · simp only [hc, Bool.false_eq_true, if_false]
      rw [← isEmpty_eq_of_perm ha, ← sortArgs_perm hnd ha]
      by_cases he : a₁.isEmpty = true
      · simp only [he, if_true]; exact ih _ _ _ _ h
      · simp only [he, Bool.false_eq_true, if_false]; exact ih _ _ _ _ (h.discard pn)

theorem defaultsLoop_perm (c : Consts) {d₁ d₂ : List (Int × Int)} (hk : (d₁.map Prod.fst).Nodup) (hd : d₁ ~ d₂)
    {r₁ r₂ : List Param} (h : RestRel r₁ r₂) :
    defaultsLoop c d₁ (sortParams r₁) = defaultsLoop c d₂ (sortParams r₂) := by
  have hs : sortParams r₁ = sortParams r₂ := sortParams_perm h.2 h.1
  rw [hs]
  unfold defaultsLoop
  congr 1
  funext p
  rw [lookupDefault_perm hk hd]

end LianVerif.Determinism
