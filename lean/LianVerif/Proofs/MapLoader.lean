/-
Helper lemmas for C15 (OneToManyMapLoader).  The property theorems are in Properties/C15.lean.
-/
import LianVerif.Model.MapLoader
import LianVerif.Spec.LoaderSpec
import LianVerif.Proofs.Lru

namespace LianVerif.MapLoader
open LianVerif.Lru LianVerif.MapSpec
set_option linter.unusedSectionVars false

variable {A B : Type} [DecidableEq A] [DecidableEq B]

theorem alookup_link (a : A) (bs : List B) (m : List (B × A)) (b : B) :
    alookup b (link a bs m) = if b ∈ bs then some a else alookup b m := by
  induction bs generalizing m with
  | nil => simp [link]
  | cons x xs ih =>
    simp only [link, List.foldl_cons] at ih ⊢
    rw [ih, alookup_aset]
    by_cases h1 : b ∈ xs
    · simp [h1]
    · by_cases h2 : b = x
      · simp [h2]
      · simp [h1, h2]

theorem alookup_unlink (a : A) (bs : List B) (m : List (B × A)) (b : B) :
    alookup b (unlink a bs m) = if b ∈ bs ∧ alookup b m = some a then none else alookup b m := by
  induction bs generalizing m with
  | nil => simp [unlink]
  | cons x xs ih =>
    simp only [unlink, List.foldl_cons] at ih ⊢
    rw [ih]
    by_cases hx : alookup x m = some a
    · simp only [hx, if_true, alookup_aerase]
      by_cases e : b = x
      · subst e; simp [hx]
      · by_cases h1 : b ∈ xs <;> simp [e, h1]
    · simp only [hx, if_false]
      by_cases e : b = x
      · subst e
        by_cases h1 : b ∈ xs <;> simp [h1, hx]
      · by_cases h1 : b ∈ xs <;> simp [e, h1]

/-- forward map of the state agrees with the specification; reverse entries are sound -/
structure Inv (s : M A B) (f : A → List B) : Prop where
  fwd : ∀ a, oneToMany s a = f a
  rev : ∀ b a, alookup b s.many2one = some a → b ∈ f a

theorem inv_init : Inv (M.init : M A B) (fun _ => []) := by
  constructor
  · intro a; simp [oneToMany, M.init]
  · intro b a h; simp [M.init] at h

theorem save_ok {s : M A B} {f : A → List B} (h : Inv s f) (a : A) (bs : List B) :
    Inv (save s a bs) (fun a' => if a' = a then bs else f a') := by
  unfold save
  cases ho : alookup a s.one2many with
  | none =>
    have hfa : f a = [] := by rw [← h.fwd a]; simp [oneToMany, ho]
    by_cases he : bs.isEmpty = true
    · have hb : bs = [] := List.isEmpty_iff.1 he
      simp only [he, if_true]
      constructor
      · intro a'
        by_cases e : a' = a
        · subst e; simp [hb, h.fwd, hfa]
        · simp [e, h.fwd]
      · intro b a' hr
        by_cases e : a' = a
        · subst e
          have := h.rev b a' hr
          rw [hfa] at this; cases this
        · simp only [e, if_false]; exact h.rev b a' hr
    · simp only [he, Bool.false_eq_true, if_false]
      constructor
      · intro a'
        simp only [oneToMany, alookup_aset]
        by_cases e : a' = a
        · simp [e]
        · simp only [e, if_false]; exact h.fwd a'
      · intro b a' hr
        simp only [alookup_link] at hr
        by_cases hb : b ∈ bs
        · simp only [hb, if_true, Option.some.injEq] at hr
          subst hr; simp [hb]
        · simp only [hb, if_false] at hr
          by_cases e : a' = a
          · subst e
            have := h.rev b a' hr
            rw [hfa] at this; cases this
          · simp only [e, if_false]; exact h.rev b a' hr
  | some old =>
    have hfa : f a = old := by rw [← h.fwd a]; simp [oneToMany, ho]
    simp only []
    constructor
    · intro a'
      simp only [oneToMany, alookup_aset]
      by_cases e : a' = a
      · simp [e]
      · simp only [e, if_false]; exact h.fwd a'
    · intro b a' hr
      simp only [alookup_link, alookup_unlink] at hr
      by_cases hb : b ∈ bs
      · simp only [hb, if_true, Option.some.injEq] at hr
        subst hr; simp [hb]
      · simp only [hb, if_false] at hr
        by_cases hc : b ∈ old ∧ alookup b s.many2one = some a
        · simp [hc] at hr
        · simp only [hc, if_false] at hr
          by_cases e : a' = a
          · subst e
            have := h.rev b a' hr
            rw [hfa] at this
            exact absurd ⟨this, hr⟩ hc
          · simp only [e, if_false]; exact h.rev b a' hr

theorem map_step_ok {s : M A B} {f : A → List B} (h : MapLoader.Inv s f) (op : MapLoader.Op A B)
    (hop : ∀ x : Unit, op ≠ .restore) :
    MapLoader.Inv (MapLoader.step s op).1 (MapSpec.specStep f op) ∧ MapSpec.OutOk f op (MapLoader.step s op).2 := by
  cases op with
  | save a bs => exact ⟨MapLoader.save_ok h a bs, trivial⟩
  | oneToMany a => exact ⟨h, h.fwd a⟩
  | manyToOne b =>
    refine ⟨h, ?_⟩
    simp only [MapLoader.step, MapLoader.stepWith, manyToOne]
    cases hb : alookup b s.many2one with
    | none => trivial
    | some a => exact h.rev b a hb
  | exp =>
    refine ⟨?_, trivial⟩
    simp only [MapLoader.step, MapLoader.stepWith, MapLoader.doExport, MapSpec.specStep]
    split
    · exact h
    · exact ⟨h.fwd, h.rev⟩
  | restore => exact absurd rfl (hop ())

end LianVerif.MapLoader
