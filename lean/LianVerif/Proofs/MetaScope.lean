/-
C12 (renumbering, construction of the scope tables): `discover_scopes`, `determine_scope`,
`correct_scopes` commute with every strictly monotone renumbering of statement ids that fixes 0.
-/
import LianVerif.Model.Meta
import LianVerif.Proofs.MetaResolver

namespace LianVerif.Meta
open LianVerif.Scopes

def mapRec (ρ : Nat → Nat) (r : ScopeRec) : ScopeRec :=
  { stmt := ρ r.stmt, scope := mapInt ρ r.scope, parent := mapInt ρ r.parent, kind := r.kind }

def mapCache (ρ : Nat → Nat) (c : Cache) : Cache := c.map (fun p => (ρ p.1, ρ p.2))

def mapDState (ρ : Nat → Nat) (st : DState) : DState :=
  { recs := st.recs.map (mapRec ρ), all := st.all.map ρ, cache := mapCache ρ st.cache }

variable {ρ : Nat → Nat}

theorem Mono.eq_zero (h : Mono ρ) (a : Nat) : (ρ a == 0) = (a == 0) := by
  have := h.beq a 0
  rwa [h.zero] at this

theorem rowOf_map (h : Mono ρ) (rows : List Shape) (id : Nat) :
    rowOf (rows.map (mapShape ρ)) (ρ id) = (rowOf rows id).map (mapShape ρ) := by
  unfold rowOf
  induction rows with
  | nil => rfl
  | cons r rs ih =>
    simp only [List.map_cons, List.find?_cons]
    have : ((mapShape ρ r).id == ρ id) = (r.id == id) := h.beq _ _
    rw [this]
    cases r.id == id
    · exact ih
    · rfl

theorem cacheGet_map (h : Mono ρ) (c : Cache) (k : Nat) :
    Cache.get (mapCache ρ c) (ρ k) = (Cache.get c k).map ρ := by
  unfold Cache.get mapCache
  induction c with
  | nil => rfl
  | cons p ps ih =>
    simp only [List.map_cons, List.find?_cons]
    rw [h.beq]
    cases p.1 == k
    · exact ih
    · rfl

theorem contains_map (h : Mono ρ) (l : List Nat) (x : Nat) : (l.map ρ).contains (ρ x) = l.contains x :=
  contains_map_inj ρ (fun _ _ e => h.inj e) l x

theorem determine_map (h : Mono ρ) (rows : List Shape) (all : List Nat) :
    ∀ (fuel : Nat) (c : Cache) (stmt : Nat),
      determine (rows.map (mapShape ρ)) (all.map ρ) fuel (mapCache ρ c) (ρ stmt) =
        (ρ (determine rows all fuel c stmt).1, mapCache ρ (determine rows all fuel c stmt).2) := by
  intro fuel
  induction fuel with
  | zero => intro c stmt; simp only [determine, h.zero]
  | succ f ih =>
    intro c stmt
    simp only [determine]
    rw [h.eq_zero]
    by_cases h0 : (stmt == 0) = true
    · simp only [h0, if_true, h.zero]
    · simp only [h0, Bool.false_eq_true, if_false]
      rw [cacheGet_map h]
      cases hc : Cache.get c stmt with
      | some r => rfl
      | none =>
        simp only [Option.map_none]
        rw [rowOf_map h]
        cases hr : rowOf rows stmt with
        | none => simp only [Option.map_none, h.zero]
        | some row =>
          simp only [Option.map_some]
          have hid : (mapShape ρ row).id = ρ row.id := rfl
          have hpar : (mapShape ρ row).parent = ρ row.parent := rfl
          rw [hid, hpar, contains_map h]
          by_cases hall : all.contains row.id = true
          · simp only [hall, if_true, mapCache, List.map_cons]
          · simp only [hall, Bool.false_eq_true, if_false]
            rw [ih c row.parent]
            simp only [mapCache, List.map_cons]

/-! ### `sorted(set(ids))` -/

theorem insertSorted_map (h : Mono ρ) (x : Nat) : ∀ (l : List Nat),
    insertSorted (ρ x) (l.map ρ) = (insertSorted x l).map ρ := by
  intro l
  induction l with
  | nil => rfl
  | cons y ys ih =>
    simp only [List.map_cons, insertSorted]
    by_cases hlt : x < y
    · rw [if_pos hlt, if_pos (h.lt _ _ hlt)]; rfl
    · have hnlt : ¬ ρ x < ρ y := by
        intro hc
        rcases Nat.lt_trichotomy x y with h1 | h1 | h1
        · exact hlt h1
        · rw [h1] at hc; omega
        · have := h.lt _ _ h1; omega
      rw [if_neg hlt, if_neg hnlt, h.beq]
      by_cases he : (x == y) = true
      · rw [if_pos he, if_pos he]; rfl
      · rw [if_neg he, if_neg he, ih]; rfl

theorem sortedIds_map (h : Mono ρ) (rows : List Shape) :
    sortedIds (rows.map (mapShape ρ)) = (sortedIds rows).map ρ := by
  unfold sortedIds
  have : ∀ (acc : List Nat), (rows.map (mapShape ρ)).foldl (fun acc r => insertSorted r.id acc) (acc.map ρ) =
      (rows.foldl (fun acc r => insertSorted r.id acc) acc).map ρ := by
    induction rows with
    | nil => intro acc; rfl
    | cons r rs ih =>
      intro acc
      simp only [List.map_cons, List.foldl_cons]
      have : (mapShape ρ r).id = ρ r.id := rfl
      rw [this, insertSorted_map h, ih]
  exact this []

/-! ### `discover_scopes` -/

theorem mapInt_cast (ρ : Nat → Nat) (n : Nat) : mapInt ρ (n : Int) = (ρ n : Int) := by
  rw [mapInt_nonneg (Int.natCast_nonneg n)]; simp

theorem discoverStep_map (h : Mono ρ) (t : OpTable) (rows : List Shape) (fuel : Nat) (st : DState) (id : Nat) :
    discoverStep t (rows.map (mapShape ρ)) fuel (mapDState ρ st) (ρ id) =
      mapDState ρ (discoverStep t rows fuel st id) := by
  unfold discoverStep
  rw [rowOf_map h]
  cases hr : rowOf rows id with
  | none => rfl
  | some row =>
    simp only [Option.map_some]
    have hop : (mapShape ρ row).op = row.op := rfl
    have hpar : (mapShape ρ row).parent = ρ row.parent := rfl
    have hname : (mapShape ρ row).hasName = row.hasName := rfl
    have hbody : (mapShape ρ row).body = row.body.map ρ := rfl
    have hdet := determine_map h rows st.all fuel st.cache row.parent
    have hall : (mapDState ρ st).all = st.all.map ρ := rfl
    have hcache : (mapDState ρ st).cache = mapCache ρ st.cache := rfl
    have hrecs : (mapDState ρ st).recs = st.recs.map (mapRec ρ) := rfl
    rw [hop, hpar, hname, hbody, hall, hcache, hrecs, hdet]
    cases classify t row.op <;>
      simp only [mapDState, mapRec, mapCache, List.map_append, List.map_cons, List.map_nil, mapInt_cast,
        Bool.false_eq_true, if_false, if_true]
    · -- case_stmt with `as`
      cases row.hasName
      · rfl
      · simp only [if_true]
        cases row.body with
        | none =>
          simp only [Option.map_none, List.map_append, List.map_cons, List.map_nil, mapInt_cast]
          rfl
        | some b =>
          simp only [Option.map_some, List.map_append, List.map_cons, List.map_nil, mapRec, mapInt_cast]

theorem rootRec_map (h : Mono ρ) : mapRec ρ rootRec = rootRec := by
  simp only [mapRec, rootRec, h.zero, mapInt_neg_one]

theorem discover_map (h : Mono ρ) (t : OpTable) (rows : List Shape) :
    discover t (rows.map (mapShape ρ)) = mapDState ρ (discover t rows) := by
  unfold discover
  rw [sortedIds_map h, List.length_map]
  have : ∀ (ids : List Nat) (st : DState),
      (ids.map ρ).foldl (discoverStep t (rows.map (mapShape ρ)) (rows.length + 1)) (mapDState ρ st) =
        mapDState ρ (ids.foldl (discoverStep t rows (rows.length + 1)) st) := by
    intro ids
    induction ids with
    | nil => intro st; rfl
    | cons i is ih =>
      intro st
      simp only [List.map_cons, List.foldl_cons]
      rw [discoverStep_map h, ih]
  have hinit : ({ recs := [rootRec], all := [0], cache := [] } : DState) =
      mapDState ρ { recs := [rootRec], all := [0], cache := [] } := by
    simp only [mapDState, List.map_cons, List.map_nil, rootRec_map h, h.zero, mapCache]
  have := this (sortedIds rows) { recs := [rootRec], all := [0], cache := [] }
  rw [← hinit] at this
  exact this

/-! ### `correct_scopes` -/

theorem markerPred_map (h : Mono ρ) (b : Nat) (op : String) (r : Shape) :
    ((mapShape ρ r).id == ρ b && (mapShape ρ r).op == op) = (r.id == b && r.op == op) := by
  have h1 : ((mapShape ρ r).id == ρ b) = (r.id == b) := h.beq _ _
  have h2 : (mapShape ρ r).op = r.op := rfl
  rw [h1, h2]

theorem dropWhile_map_congr {α β : Type} (f : α → β) (p : β → Bool) (q : α → Bool) (hpq : ∀ a, p (f a) = q a) :
    ∀ (l : List α), (l.map f).dropWhile p = (l.dropWhile q).map f := by
  intro l
  induction l with
  | nil => rfl
  | cons a as ih =>
    simp only [List.map_cons, List.dropWhile_cons, hpq]
    cases q a
    · rfl
    · exact ih

theorem takeWhile_map_congr {α β : Type} (f : α → β) (p : β → Bool) (q : α → Bool) (hpq : ∀ a, p (f a) = q a) :
    ∀ (l : List α), (l.map f).takeWhile p = (l.takeWhile q).map f := by
  intro l
  induction l with
  | nil => rfl
  | cons a as ih =>
    simp only [List.map_cons, List.takeWhile_cons, hpq]
    cases q a
    · rfl
    · simp [ih]

theorem any_map_congr {α β : Type} (f : α → β) (p : β → Bool) (q : α → Bool) (hpq : ∀ a, p (f a) = q a)
    (l : List α) : (l.map f).any p = l.any q := by
  rw [List.any_map]
  congr 1
  funext a
  exact hpq a

theorem blockRows_map (h : Mono ρ) (rows : List Shape) (b : Nat) :
    blockRows (rows.map (mapShape ρ)) (ρ b) = (blockRows rows b).map (mapShape ρ) := by
  unfold blockRows
  have hs : ∀ r, (!((mapShape ρ r).id == ρ b && (mapShape ρ r).op == "block_start")) =
      (!(r.id == b && r.op == "block_start")) := fun r => by rw [markerPred_map h]
  have he : ∀ r, (!((mapShape ρ r).id == ρ b && (mapShape ρ r).op == "block_end")) =
      (!(r.id == b && r.op == "block_end")) := fun r => by rw [markerPred_map h]
  simp only
  rw [dropWhile_map_congr (mapShape ρ) _ _ hs, ← List.map_drop,
    any_map_congr (mapShape ρ) _ _ (fun r => markerPred_map h b "block_start" r),
    any_map_congr (mapShape ρ) _ _ (fun r => markerPred_map h b "block_end" r),
    takeWhile_map_congr (mapShape ρ) _ _ he]
  split
  · rfl
  · rfl

theorem setScope_map (h : Mono ρ) (id sc : Nat) : ∀ (recs : List ScopeRec),
    setScope (recs.map (mapRec ρ)) (ρ id) (ρ sc) = (setScope recs id sc).map (mapRec ρ) := by
  intro recs
  induction recs with
  | nil => rfl
  | cons r rs ih =>
    simp only [List.map_cons, setScope]
    have : ((mapRec ρ r).stmt == ρ id) = (r.stmt == id) := h.beq _ _
    rw [this]
    cases r.stmt == id
    · simp only [Bool.false_eq_true, if_false, List.map_cons, ih]
    · simp only [if_true, List.map_cons, mapRec, mapInt_cast]

theorem rehome_map (h : Mono ρ) (sc : Nat) : ∀ (ids : List Nat) (st : DState),
    rehome (mapDState ρ st) (ids.map ρ) (ρ sc) = mapDState ρ (rehome st ids sc) := by
  intro ids
  unfold rehome
  induction ids with
  | nil => intro st; rfl
  | cons i is ih =>
    intro st
    simp only [List.map_cons, List.foldl_cons]
    have : ({ recs := setScope (mapDState ρ st).recs (ρ i) (ρ sc), all := (mapDState ρ st).all,
              cache := (ρ i, ρ sc) :: (mapDState ρ st).cache } : DState) =
        mapDState ρ { recs := setScope st.recs i sc, all := st.all, cache := (i, sc) :: st.cache } := by
      simp only [mapDState, setScope_map h, mapCache, List.map_cons]
    rw [this, ih]

theorem idsWithOp_map (ρ : Nat → Nat) (rs : List Shape) (op : String) :
    idsWithOp (rs.map (mapShape ρ)) op = (idsWithOp rs op).map ρ := by
  unfold idsWithOp
  rw [List.filter_map, List.map_map, List.map_map]
  rfl

theorem rehomeOp_map (h : Mono ρ) (rows : List Shape) (st : DState) (b cid : Nat) (op : String) :
    rehome (mapDState ρ st) (idsWithOp (blockRows (rows.map (mapShape ρ)) (ρ b)) op) (ρ cid) =
      mapDState ρ (rehome st (idsWithOp (blockRows rows b) op) cid) := by
  rw [blockRows_map h, idsWithOp_map, rehome_map h]

theorem rehomeFilter_map (h : Mono ρ) (rows : List Shape) (st : DState) (b cid : Nat)
    (p p' : Shape → Bool) (hp : ∀ r, p' (mapShape ρ r) = p r) :
    rehome (mapDState ρ st) (((blockRows (rows.map (mapShape ρ)) (ρ b)).filter p').map (·.id)) (ρ cid) =
      mapDState ρ (rehome st (((blockRows rows b).filter p).map (·.id)) cid) := by
  rw [blockRows_map h, List.filter_map, List.map_map]
  have : (p' ∘ mapShape ρ) = p := funext hp
  rw [this]
  have : ((fun (x : Shape) => x.id) ∘ mapShape ρ) = (ρ ∘ fun (x : Shape) => x.id) := rfl
  rw [this, ← List.map_map, rehome_map h]

theorem rehomeMethods_map (h : Mono ρ) (rows : List Shape) (st : DState) (b cid : Nat) :
    rehome (mapDState ρ st) (((blockRows (rows.map (mapShape ρ)) (ρ b)).filter
        (fun r => r.op == "method_decl" && r.parent == ρ b)).map (·.id)) (ρ cid) =
      mapDState ρ (rehome st (((blockRows rows b).filter (fun r => r.op == "method_decl" && r.parent == b)).map (·.id)) cid) :=
  rehomeFilter_map h rows st b cid _ _ (fun r => by
    show ((mapShape ρ r).op == "method_decl" && (mapShape ρ r).parent == ρ b) = _
    have : ((mapShape ρ r).parent == ρ b) = (r.parent == b) := h.beq _ _
    rw [this]; rfl)

theorem rehomeNested_map (h : Mono ρ) (direct : Bool) (rows : List Shape) (st : DState) (b cid : Nat) :
    rehome (mapDState ρ st) (((blockRows (rows.map (mapShape ρ)) (ρ b)).filter
        (fun r => r.op == "class_decl" && (!direct || r.parent == ρ b))).map (·.id)) (ρ cid) =
      mapDState ρ (rehome st (((blockRows rows b).filter
        (fun r => r.op == "class_decl" && (!direct || r.parent == b))).map (·.id)) cid) :=
  rehomeFilter_map h rows st b cid _ _ (fun r => by
    show ((mapShape ρ r).op == "class_decl" && (!direct || (mapShape ρ r).parent == ρ b)) = _
    have : ((mapShape ρ r).parent == ρ b) = (r.parent == b) := h.beq _ _
    rw [this]; rfl)

theorem correctClassG_map (h : Mono ρ) (direct : Bool) (rows : List Shape) (st : DState) (cid : Nat) :
    correctClassG direct (rows.map (mapShape ρ)) (mapDState ρ st) (ρ cid) =
      mapDState ρ (correctClassG direct rows st cid) := by
  unfold correctClassG
  rw [rowOf_map h]
  cases rowOf rows cid with
  | none => rfl
  | some c =>
    simp only [Option.map_some]
    have hf : (mapShape ρ c).fields = c.fields.map ρ := rfl
    have hm : (mapShape ρ c).methods = c.methods.map ρ := rfl
    have hn : (mapShape ρ c).nested = c.nested.map ρ := rfl
    rw [hf, hm, hn]
    cases c.fields <;> cases c.methods <;> cases c.nested <;>
      simp only [Option.map_some, Option.map_none, rehomeOp_map h, rehomeMethods_map h, rehomeNested_map h]

theorem correctMethod_map (h : Mono ρ) (rows : List Shape) (st : DState) (mid : Nat) :
    correctMethod (rows.map (mapShape ρ)) (mapDState ρ st) (ρ mid) = mapDState ρ (correctMethod rows st mid) := by
  unfold correctMethod
  rw [rowOf_map h]
  cases rowOf rows mid with
  | none => rfl
  | some m =>
    simp only [Option.map_some]
    have hp : (mapShape ρ m).parameters = m.parameters.map ρ := rfl
    rw [hp]
    cases m.parameters with
    | none => rfl
    | some b => simp only [Option.map_some, rehomeOp_map h]

theorem correctInit_map (h : Mono ρ) (rows : List Shape) (st : DState) (sid : Nat) :
    correctInit (rows.map (mapShape ρ)) (mapDState ρ st) (ρ sid) = mapDState ρ (correctInit rows st sid) := by
  unfold correctInit
  rw [rowOf_map h]
  cases rowOf rows sid with
  | none => rfl
  | some m =>
    simp only [Option.map_some]
    have hp : (mapShape ρ m).initBody = m.initBody.map ρ := rfl
    rw [hp]
    cases m.initBody with
    | none => rfl
    | some b => simp only [Option.map_some, rehomeOp_map h]

theorem stmtsOfKind_map (ρ : Nat → Nat) (st : DState) (k : SKind) :
    stmtsOfKind (mapDState ρ st) k = (stmtsOfKind st k).map ρ := by
  unfold stmtsOfKind
  show ((st.recs.map (mapRec ρ)).filter (fun r => r.kind == k)).map (·.stmt) = _
  rw [List.filter_map, List.map_map, List.map_map]
  rfl

theorem foldl_map_comm {σ' : Type} (f g : σ' → Nat → σ') (m : σ' → σ')
    (hfg : ∀ s i, g (m s) (ρ i) = m (f s i)) : ∀ (ids : List Nat) (s : σ'),
    (ids.map ρ).foldl g (m s) = m (ids.foldl f s) := by
  intro ids
  induction ids with
  | nil => intro s; rfl
  | cons i is ih => intro s; simp only [List.map_cons, List.foldl_cons, hfg, ih]

theorem correctG_map (h : Mono ρ) (direct : Bool) (rows : List Shape) (st : DState) :
    correctG direct (rows.map (mapShape ρ)) (mapDState ρ st) = mapDState ρ (correctG direct rows st) := by
  unfold correctG
  simp only [stmtsOfKind_map]
  rw [foldl_map_comm _ _ (mapDState ρ) (fun s i => correctClassG_map h direct rows s i),
    foldl_map_comm _ _ (mapDState ρ) (fun s i => correctMethod_map h rows s i),
    foldl_map_comm _ _ (mapDState ρ) (fun s i => correctInit_map h rows s i),
    foldl_map_comm _ _ (mapDState ρ) (fun s i => correctInit_map h rows s i)]

/-- **the scope space and memo table of the renumbered unit are the renumbered ones** -/
theorem scopeTable_map (h : Mono ρ) (t : OpTable) (rows : List Shape) :
    scopeTable t (rows.map (mapShape ρ)) = mapDState ρ (scopeTable t rows) := by
  unfold scopeTable
  rw [discover_map h, correctG_map h]

theorem scopeTable0_map (h : Mono ρ) (t : OpTable) (rows : List Shape) :
    scopeTable0 t (rows.map (mapShape ρ)) = mapDState ρ (scopeTable0 t rows) := by
  unfold scopeTable0
  rw [discover_map h, correctG_map h]

end LianVerif.Meta
