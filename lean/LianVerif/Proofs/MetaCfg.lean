/-
C12 (renumbering / renaming, CFG): the CFG model never looks at an identifier and uses statement ids
only as opaque labels (`analyze`) or compares them for equality (`_add_one_edge`): it commutes with
every injective renumbering of the statement ids.
-/
import LianVerif.Model.Meta
import LianVerif.Proofs.MetaResolver

namespace LianVerif.Meta
open LianVerif.Cfg

def mapFr (ρ : Nat → Nat) (f : Fr) : Fr := ⟨ρ f.id, f.kind⟩
def mapSp (ρ : Nat → Nat) (s : Sp) : Sp := ⟨ρ s.id, s.isBrk⟩
def mapEm (ρ : Nat → Nat) (r : Em) : Em :=
  ⟨r.F.map (mapFr ρ), r.sp.map (mapSp ρ), r.es.map (mapEdge ρ), r.err⟩

theorem mapInt_natCast (ρ : Nat → Nat) (n : Nat) : mapInt ρ (n : Int) = (ρ n : Int) := by
  rw [mapInt_nonneg (Int.natCast_nonneg n)]; simp

theorem link_map (ρ : Nat → Nat) (F : List Fr) (d : Int) :
    link (F.map (mapFr ρ)) (mapInt ρ d) = (link F d).map (mapEdge ρ) := by
  unfold link
  rw [List.map_map, List.map_map]
  rfl

theorem link_map_nat (ρ : Nat → Nat) (F : List Fr) (d : Nat) :
    link (F.map (mapFr ρ)) ((ρ d : Nat) : Int) = (link F (d : Int)).map (mapEdge ρ) := by
  rw [← mapInt_natCast, link_map]

theorem link_map_exit (ρ : Nat → Nat) (F : List Fr) :
    link (F.map (mapFr ρ)) (-1) = (link F (-1)).map (mapEdge ρ) := by
  have := link_map ρ F (-1)
  rwa [mapInt_neg_one] at this

theorem wrap_map (ρ : Nat → Nat) (k : Nat) (F : List Fr) :
    (F.map (mapFr ρ)).map (Fr.wrap k) = (F.map (Fr.wrap k)).map (mapFr ρ) := by
  rw [List.map_map, List.map_map]; rfl

theorem conts_map (ρ : Nat → Nat) (sp : List Sp) : conts (sp.map (mapSp ρ)) = (conts sp).map (mapFr ρ) := by
  unfold conts
  rw [List.filter_map, List.map_map, List.map_map]
  rfl

theorem nonConts_map (ρ : Nat → Nat) (sp : List Sp) : nonConts (sp.map (mapSp ρ)) = (nonConts sp).map (mapSp ρ) := by
  unfold nonConts
  rw [List.filter_map]
  rfl

theorem filter_notBrk_map (ρ : Nat → Nat) (sp : List Sp) :
    (sp.map (mapSp ρ)).filter (fun s => !s.isBrk) = (sp.filter (fun s => !s.isBrk)).map (mapSp ρ) := by
  rw [List.filter_map]; rfl

theorem plain_map (ρ : Nat → Nat) (sp : List Sp) : plain (sp.map (mapSp ρ)) = (plain sp).map (mapFr ρ) := by
  unfold plain
  rw [List.map_map, List.map_map]; rfl

theorem isNil_mapS (ρ : Nat → Nat) (s : S) : (mapS ρ s).isNil = s.isNil := by
  cases s <;> rfl

theorem dealLoop_map (ρ : Nat → Nat) (id : Nat) (ct : Bool) (F : List Fr) (lsp : List Sp) :
    dealLoop (ρ id) ct (F.map (mapFr ρ)) (lsp.map (mapSp ρ)) =
      ((dealLoop id ct F lsp).1.map (mapFr ρ), (dealLoop id ct F lsp).2.map (mapEdge ρ)) := by
  unfold dealLoop
  simp only [← List.map_reverse, List.filter_map, plain_map, wrap_map, link_map_nat, conts_map,
    List.map_append]
  cases ct
  · simp only [List.map_append, List.map_cons, List.map_nil, Bool.false_eq_true, if_false]
    rfl
  · simp only [if_true]
    rfl

theorem popLast_map (ρ : Nat → Nat) (q : Q) (res : List Fr) :
    popLast q (res.map (mapFr ρ)) = ((popLast q res).1.map (mapFr ρ), (popLast q res).2) := by
  unfold popLast
  cases q.popGuard
  · simp only [Bool.false_eq_true, if_false]
    cases res with
    | nil => rfl
    | cons a as =>
      show ((List.map (mapFr ρ) (a :: as)).dropLast, 0) = _
      rw [← List.map_dropLast]
  · simp only [if_true, List.getLast?_map]
    cases res.getLast? with
    | none => rfl
    | some f =>
      simp only [Option.map_some]
      have : (mapFr ρ f).kind = f.kind := rfl
      rw [this]
      split
      · simp only [← List.map_dropLast]
      · rfl

theorem isEmpty_app {α : Type} (a b : List α) : (a ++ b).isEmpty = (a.isEmpty && b.isEmpty) := by
  cases a <;> simp

theorem stops_map (ρ : Nat → Nat) (q : Q) (nb : Bool) (F : List Fr) :
    stops q nb (F.map (mapFr ρ)) = stops q nb F := by
  unfold stops; simp only [List.isEmpty_map]

theorem andThen_map (ρ : Nat → Nat) (r : Em) (f f' : List Fr → Em)
    (hf : ∀ F, f' (F.map (mapFr ρ)) = mapEm ρ (f F)) :
    (mapEm ρ r).andThen f' = mapEm ρ (r.andThen f) := by
  unfold Em.andThen
  simp only [mapEm, hf, List.map_append]

theorem cont_map (ρ : Nat → Nat) (r : Em) (stop : Bool) (f f' : List Fr → Em)
    (hf : ∀ F, f' (F.map (mapFr ρ)) = mapEm ρ (f F)) :
    (mapEm ρ r).cont stop f' = mapEm ρ (r.cont stop f) := by
  unfold Em.cont
  cases stop
  · simp only [Bool.false_eq_true, if_false]; exact andThen_map ρ r f f' hf
  · rfl

theorem withPre_map (ρ : Nat → Nat) (q : Q) (pre : S) (rb : Em) (rec rec' : List Fr → Em)
    (hf : ∀ F, rec' (F.map (mapFr ρ)) = mapEm ρ (rec F)) :
    withPre q (mapS ρ pre) (mapEm ρ rb) rec' = mapEm ρ (withPre q pre rb rec) := by
  unfold withPre
  rw [isNil_mapS]
  split
  · simp only [mapEm, conts_map, nonConts_map, ← List.map_append, List.isEmpty_map]
    split
    · rfl
    · rw [hf]; simp only [mapEm, List.map_append]
  · rfl

theorem forTail_map (ρ : Nat → Nat) (Fb : List Fr) (lsp : List Sp) (ru rq : Em) :
    forTail (Fb.map (mapFr ρ)) (lsp.map (mapSp ρ)) (mapEm ρ ru) (mapEm ρ rq) = mapEm ρ (forTail Fb lsp ru rq) := by
  unfold forTail
  simp only [List.isEmpty_map]
  split
  · rfl
  · simp only [mapEm, List.map_append]

end LianVerif.Meta

namespace LianVerif.Meta
open LianVerif.Cfg

/-- what is proved by one induction over the statement sequence -/
def Comm (ρ : Nat → Nat) (q : Q) (s : S) : Prop :=
  (∀ F, analyze q (mapS ρ s) (F.map (mapFr ρ)) = mapEm ρ (analyze q s F)) ∧
  (∀ Fb, analyze.catchLoop q (Fb.map (mapFr ρ)) (mapS ρ s) = mapEm ρ (analyze.catchLoop q Fb s)) ∧
  (∀ sid prev, analyze.caseLoop q (ρ sid) (mapS ρ s) (prev.map (mapFr ρ)) = mapEm ρ (analyze.caseLoop q sid s prev)) ∧
  (analyze.hasDflt (mapS ρ s) = analyze.hasDflt s)

theorem single_map (ρ : Nat → Nat) (id : Nat) (k : Option Nat) :
    [(⟨ρ id, k⟩ : Fr)] = [(⟨id, k⟩ : Fr)].map (mapFr ρ) := rfl

theorem comm_all (ρ : Nat → Nat) (q : Q) (s : S) : Comm ρ q s := by
  induction s with
  | nil =>
    refine ⟨fun F => ?_, fun Fb => ?_, fun sid prev => ?_, ?_⟩ <;> simp [analyze, analyze.catchLoop, analyze.caseLoop, analyze.hasDflt, mapS, mapEm]
  | simple id rest ih =>
    refine ⟨fun F => ?_, fun Fb => ?_, fun sid prev => ?_, ?_⟩
    · simp only [mapS, analyze]
      have := andThen_map ρ ⟨[⟨id, none⟩], [], link F id, 0⟩ (analyze q rest) (analyze q (mapS ρ rest)) ih.1
      simpa only [mapEm, link_map_nat, List.map_cons, List.map_nil, mapFr] using this
    all_goals simp [analyze.catchLoop, analyze.caseLoop, analyze.hasDflt, mapS, mapEm]
  | decl id rest ih =>
    refine ⟨fun F => ?_, fun Fb => ?_, fun sid prev => ?_, ?_⟩
    · simp only [mapS, analyze]
      have := andThen_map ρ ⟨[⟨id, none⟩], [], link F id, 0⟩ (analyze q rest) (analyze q (mapS ρ rest)) ih.1
      simpa only [mapEm, link_map_nat, List.map_cons, List.map_nil, mapFr] using this
    all_goals simp [analyze.catchLoop, analyze.caseLoop, analyze.hasDflt, mapS, mapEm]
  | brk id rest ih =>
    refine ⟨fun F => ?_, fun Fb => ?_, fun sid prev => ?_, ?_⟩
    · simp only [mapS, analyze, mapEm, link_map_nat, List.map_cons, List.map_nil, mapSp]
    all_goals simp [analyze.catchLoop, analyze.caseLoop, analyze.hasDflt, mapS, mapEm]
  | cont id rest ih =>
    refine ⟨fun F => ?_, fun Fb => ?_, fun sid prev => ?_, ?_⟩
    · simp only [mapS, analyze, mapEm, link_map_nat, List.map_cons, List.map_nil, mapSp]
    all_goals simp [analyze.catchLoop, analyze.caseLoop, analyze.hasDflt, mapS, mapEm]
  | ret id rest ih =>
    refine ⟨fun F => ?_, fun Fb => ?_, fun sid prev => ?_, ?_⟩
    · simp only [mapS, analyze, mapEm, link_map_nat, List.map_cons, List.map_nil, List.map_append, mapEdge,
        mapInt_neg_one]
    all_goals simp [analyze.catchLoop, analyze.caseLoop, analyze.hasDflt, mapS, mapEm]
  | ifS id thn els rest ih1 ih2 ih3 =>
    refine ⟨fun F => ?_, fun Fb => ?_, fun sid prev => ?_, ?_⟩
    · simp only [mapS, analyze, isNil_mapS]
      rw [single_map ρ id (some kIF_TRUE), single_map ρ id (some kIF_FALSE), ih1.1, ih2.1]
      refine Eq.trans ?_ (cont_map ρ _ _ _ _ ih3.1)
      congr 1
      · simp only [mapEm, List.map_append, link_map_nat]
      · simp only [mapEm]; rw [← List.map_append, stops_map]
    all_goals simp [analyze.catchLoop, analyze.caseLoop, analyze.hasDflt, mapS, mapEm]
  | whileS id ct pre body els rest ihp ihb ihe ihr =>
    refine ⟨fun F => ?_, fun Fb => ?_, fun sid prev => ?_, ?_⟩
    · have h0 : (if q.pre = true then analyze q (mapS ρ pre) (F.map (mapFr ρ)) else ⟨F.map (mapFr ρ), [], [], 0⟩) =
          mapEm ρ (if q.pre = true then analyze q pre F else ⟨F, [], [], 0⟩) := by
        split
        · exact ihp.1 F
        · rfl
      have hb : withPre q (mapS ρ pre) (analyze q (mapS ρ body) [⟨ρ id, some kLOOP_TRUE⟩]) (analyze q (mapS ρ pre)) =
          mapEm ρ (withPre q pre (analyze q body [⟨id, some kLOOP_TRUE⟩]) (analyze q pre)) := by
        rw [single_map, ihb.1]; exact withPre_map ρ q pre _ _ _ ihp.1
      simp only [mapS, analyze, isNil_mapS]
      rw [h0, hb]
      split
      · refine Eq.trans ?_ (cont_map ρ _ _ _ _ ihr.1)
        congr 1
        · simp only [mapEm, List.map_append, link_map_nat, dealLoop_map]
        · simp only [mapEm, dealLoop_map, stops_map]
      · rw [single_map ρ id (some kLOOP_TRUE), ihe.1]
        refine Eq.trans ?_ (andThen_map ρ _ _ _ ihr.1)
        congr 1
        simp only [mapEm, List.map_append, link_map_nat, dealLoop_map, popLast_map]
        cases q.elseSp <;> simp
    all_goals simp [analyze.catchLoop, analyze.caseLoop, analyze.hasDflt, mapS, mapEm]
  | doS id ct body pre rest ihb ihp ihr =>
    refine ⟨fun F => ?_, fun Fb => ?_, fun sid prev => ?_, ?_⟩
    · have hb : withPre q (mapS ρ pre) (analyze q (mapS ρ body) (F.map (mapFr ρ) ++ [⟨ρ id, some kLOOP_TRUE⟩]))
            (analyze q (mapS ρ pre)) =
          mapEm ρ (withPre q pre (analyze q body (F ++ [⟨id, some kLOOP_TRUE⟩])) (analyze q pre)) := by
        rw [single_map, ← List.map_append, ihb.1]; exact withPre_map ρ q pre _ _ _ ihp.1
      simp only [mapS, analyze, isNil_mapS]
      rw [hb]
      refine Eq.trans ?_ (cont_map ρ _ _ _ _ ihr.1)
      congr 1
      · simp only [mapEm, List.map_append, dealLoop_map, List.map_nil]
      · simp only [mapEm, dealLoop_map, stops_map]
    all_goals simp [analyze.catchLoop, analyze.caseLoop, analyze.hasDflt, mapS, mapEm]
  | forS id ct init pre upd body rest ihi ihp ihu ihb ihr =>
    refine ⟨fun F => ?_, fun Fb => ?_, fun sid prev => ?_, ?_⟩
    · simp only [mapS, analyze, isNil_mapS]
      rw [ihi.1 F]
      generalize analyze q init F = r1
      rw [show (mapEm ρ r1).F = r1.F.map (mapFr ρ) from rfl, ihp.1 r1.F]
      generalize analyze q pre r1.F = rp
      rw [single_map ρ id (some kLOOP_TRUE), ihb.1]
      generalize analyze q body [⟨id, some kLOOP_TRUE⟩] = rb
      have hFb : (if q.forCont = true then (mapEm ρ rb).F ++ conts (mapEm ρ rb).sp else (mapEm ρ rb).F) =
          List.map (mapFr ρ) (if q.forCont = true then rb.F ++ conts rb.sp else rb.F) := by
        split <;> simp [mapEm, conts_map]
      have hls : (if q.forCont = true then nonConts (mapEm ρ rb).sp else (mapEm ρ rb).sp) =
          List.map (mapSp ρ) (if q.forCont = true then nonConts rb.sp else rb.sp) := by
        split <;> simp [mapEm, nonConts_map]
      rw [hFb, hls]
      generalize (if q.forCont = true then rb.F ++ conts rb.sp else rb.F) = Fb
      generalize (if q.forCont = true then nonConts rb.sp else rb.sp) = lsp
      rw [ihu.1 Fb]
      generalize analyze q upd Fb = ru
      rw [show (mapEm ρ ru).F = ru.F.map (mapFr ρ) from rfl, ihp.1 ru.F]
      generalize analyze q pre ru.F = rq
      rw [forTail_map]
      generalize forTail Fb lsp ru rq = r2
      refine Eq.trans ?_ (cont_map ρ _ _ _ _ ihr.1)
      congr 1
      · simp only [mapEm, ← List.map_append, dealLoop_map]
      · simp only [mapEm, ← List.map_append, dealLoop_map, stops_map]
    all_goals simp [analyze.catchLoop, analyze.caseLoop, analyze.hasDflt, mapS, mapEm]
  | classS id flds sinit init methods nested rest ihs ihi ihm ihn ihr =>
    refine ⟨fun F => ?_, fun Fb => ?_, fun sid prev => ?_, ?_⟩
    · simp only [mapS, analyze, isNil_mapS]
      refine Eq.trans ?_ (cont_map ρ _ _ _ _ ihr.1)
      have h4 : (((((⟨[⟨ρ id, none⟩], [], link (F.map (mapFr ρ)) (ρ id), if (!q.sinit && !sinit.isNil) = true then 2 else 0⟩ : Em).andThen
            (analyze q (mapS ρ sinit))).andThen (analyze q (mapS ρ init))).andThen (analyze q (mapS ρ methods))).andThen
            (analyze q (mapS ρ nested))) =
          mapEm ρ (((((⟨[⟨id, none⟩], [], link F id, if (!q.sinit && !sinit.isNil) = true then 2 else 0⟩ : Em).andThen
            (analyze q sinit)).andThen (analyze q init)).andThen (analyze q methods)).andThen (analyze q nested)) := by
        refine Eq.trans ?_ (andThen_map ρ _ _ _ ihn.1)
        congr 1
        refine Eq.trans ?_ (andThen_map ρ _ _ _ ihm.1)
        congr 1
        refine Eq.trans ?_ (andThen_map ρ _ _ _ ihi.1)
        congr 1
        refine Eq.trans ?_ (andThen_map ρ _ _ _ ihs.1)
        congr 1
        simp only [mapEm, link_map_nat, List.map_cons, List.map_nil, mapFr]
      rw [h4]
      congr 1
      simp only [mapEm, stops_map]
    all_goals simp [analyze.catchLoop, analyze.caseLoop, analyze.hasDflt, mapS, mapEm]
  | tryS id body catches els fin rest ihb ihc ihe ihf ihr =>
    refine ⟨fun F => ?_, fun Fb => ?_, fun sid prev => ?_, ?_⟩
    · simp only [mapS, analyze, isNil_mapS]
      rw [single_map ρ id none, ihb.1]
      generalize analyze q body [⟨id, none⟩] = rb
      rw [show (mapEm ρ rb).F = rb.F.map (mapFr ρ) from rfl, ihc.2.1 rb.F]
      generalize analyze.catchLoop q rb.F catches = rc
      have he : (if els.isNil = true then (⟨List.map (mapFr ρ) rb.F, [], [], 0⟩ : Em)
            else analyze q (mapS ρ els) (List.map (Fr.wrap kCATCH_FALSE) (List.map (mapFr ρ) rb.F))) =
          mapEm ρ (if els.isNil = true then ⟨rb.F, [], [], 0⟩ else analyze q els (rb.F.map (Fr.wrap kCATCH_FALSE))) := by
        split
        · rfl
        · rw [wrap_map, ihe.1]
      rw [he]
      generalize (if els.isNil = true then (⟨rb.F, [], [], 0⟩ : Em) else analyze q els (rb.F.map (Fr.wrap kCATCH_FALSE))) = re
      have hf : (if fin.isNil = true then (⟨(mapEm ρ rc).F ++ (mapEm ρ re).F, [], [], 0⟩ : Em)
            else analyze q (mapS ρ fin) (List.map (Fr.wrap kCATCH_FINALLY) ((mapEm ρ rc).F ++ (mapEm ρ re).F))) =
          mapEm ρ (if fin.isNil = true then ⟨rc.F ++ re.F, [], [], 0⟩
            else analyze q fin ((rc.F ++ re.F).map (Fr.wrap kCATCH_FINALLY))) := by
        split
        · simp only [mapEm, List.map_append, List.map_nil]
        · rw [show (mapEm ρ rc).F ++ (mapEm ρ re).F = (rc.F ++ re.F).map (mapFr ρ) from by simp [mapEm],
            wrap_map, ihf.1]
      rw [hf]
      generalize (if fin.isNil = true then (⟨rc.F ++ re.F, [], [], 0⟩ : Em)
            else analyze q fin ((rc.F ++ re.F).map (Fr.wrap kCATCH_FINALLY))) = rf
      refine Eq.trans ?_ (cont_map ρ _ _ _ _ ihr.1)
      congr 1
      · simp only [mapEm, List.map_append, link_map_nat]
      · simp only [mapEm, stops_map]
    all_goals simp [analyze.catchLoop, analyze.caseLoop, analyze.hasDflt, mapS, mapEm]
  | clause id body rest ihb ihr =>
    refine ⟨fun F => ?_, fun Fb => ?_, fun sid prev => ?_, ?_⟩
    · simp [analyze, mapS, mapEm]
    · simp only [mapS, analyze.catchLoop]
      rw [single_map ρ id (some kCATCH_TRUE), ihb.1, ihr.2.1]
      simp only [mapEm, List.map_append, link_map_nat]
    all_goals simp [analyze.caseLoop, analyze.hasDflt, mapS, mapEm]
  | switchS id ft cases rest ihc ihr =>
    refine ⟨fun F => ?_, fun Fb => ?_, fun sid prev => ?_, ?_⟩
    · simp only [mapS, analyze, isNil_mapS]
      have := ihc.2.2.1 id []
      simp only [List.map_nil] at this
      rw [this, ihc.2.2.2]
      generalize analyze.caseLoop q id cases [] = rc
      refine Eq.trans ?_ (cont_map ρ _ _ _ _ ihr.1)
      congr 1
      · simp only [mapEm, nonConts_map, filter_notBrk_map, plain_map, link_map_nat, List.map_append]
        cases q.swNoDflt <;> cases q.swCont <;> cases analyze.hasDflt cases <;>
          simp [plain_map, mapFr, List.map_append]
      · simp only [mapEm, nonConts_map, plain_map, stops_map]
        cases q.swNoDflt <;> cases q.swCont <;> cases analyze.hasDflt cases <;>
          simp [plain_map, mapFr, stops, isEmpty_app, List.isEmpty_cons, List.isEmpty_map]
    all_goals simp [analyze.catchLoop, analyze.caseLoop, analyze.hasDflt, mapS, mapEm]
  | caseS id dflt body rest ihb ihr =>
    refine ⟨fun F => ?_, fun Fb => ?_, fun sid prev => ?_, ?_⟩
    · simp [analyze, mapS, mapEm]
    · simp [analyze.catchLoop, mapS, mapEm]
    · simp only [mapS, analyze.caseLoop]
      rw [single_map ρ id none, ← List.map_append, ihb.1]
      generalize analyze q body (prev ++ [⟨id, none⟩]) = r
      rw [show (mapEm ρ r).F = r.F.map (mapFr ρ) from rfl, ihr.2.2.1]
      simp only [mapEm, List.map_append, List.map_cons, mapEdge, mapInt_natCast]
    · simp only [mapS, analyze.hasDflt, ihr.2.2.2]

theorem mapInt_inj' {ρ : Nat → Nat} (hinj : ∀ a b, ρ a = ρ b → a = b) {i j : Int} (hij : mapInt ρ i = mapInt ρ j) :
    i = j := by
  by_cases hi : 0 ≤ i <;> by_cases hj : 0 ≤ j
  · rw [mapInt_nonneg hi, mapInt_nonneg hj] at hij
    have := hinj _ _ (Int.ofNat_inj.1 hij)
    omega
  · rw [mapInt_nonneg hi, mapInt_neg hj] at hij
    have := Int.natCast_nonneg (ρ i.toNat); omega
  · rw [mapInt_neg hi, mapInt_nonneg hj] at hij
    have := Int.natCast_nonneg (ρ j.toNat); omega
  · rwa [mapInt_neg hi, mapInt_neg hj] at hij

theorem hasEdge_map {ρ : Nat → Nat} (hinj : ∀ a b, ρ a = ρ b → a = b) (g : List Edge) (a : Nat) (b : Int) :
    hasEdge (g.map (mapEdge ρ)) (ρ a) (mapInt ρ b) = hasEdge g a b := by
  unfold hasEdge
  rw [List.any_map]
  congr 1
  funext e
  simp only [Function.comp, mapEdge]
  congr 1
  · rw [Bool.eq_iff_iff]; simp only [beq_iff_eq]
    exact ⟨fun h => hinj _ _ h, fun h => h ▸ rfl⟩
  · rw [Bool.eq_iff_iff]; simp only [beq_iff_eq]
    exact ⟨fun h => mapInt_inj' hinj h, fun h => h ▸ rfl⟩

theorem addEdge_map {ρ : Nat → Nat} (hinj : ∀ a b, ρ a = ρ b → a = b) (g : List Edge) (e : Edge) :
    addEdge (g.map (mapEdge ρ)) (mapEdge ρ e) = (addEdge g e).map (mapEdge ρ) := by
  unfold addEdge
  have h1 : ((((mapEdge ρ e).1 : Nat) : Int) == (mapEdge ρ e).2.1) = ((e.1 : Int) == e.2.1) := by
    show (((ρ e.1 : Nat) : Int) == mapInt ρ e.2.1) = _
    rw [← mapInt_natCast, Bool.eq_iff_iff]; simp only [beq_iff_eq]
    exact ⟨fun h => mapInt_inj' hinj h, fun h => h ▸ rfl⟩
  have h2 : ((((mapEdge ρ e).1 : Nat) : Int) < 0) = False := by
    simp only [eq_iff_iff, iff_false]; have := Int.natCast_nonneg (mapEdge ρ e).1; omega
  have h3 : (((e.1 : Nat) : Int) < 0) = False := by
    simp only [eq_iff_iff, iff_false]; have := Int.natCast_nonneg e.1; omega
  have h4 : hasEdge (g.map (mapEdge ρ)) (mapEdge ρ e).1 (mapEdge ρ e).2.1 = hasEdge g e.1 e.2.1 :=
    hasEdge_map hinj g e.1 e.2.1
  rw [h1, h4]
  simp only [h2, h3, if_false]
  split
  · rfl
  · split
    · rfl
    · simp only [List.map_append, List.map_cons, List.map_nil]

theorem build_map {ρ : Nat → Nat} (hinj : ∀ a b, ρ a = ρ b → a = b) (es : List Edge) :
    build (es.map (mapEdge ρ)) = (build es).map (mapEdge ρ) := by
  unfold build
  have : ∀ (g : List Edge), (es.map (mapEdge ρ)).foldl addEdge (g.map (mapEdge ρ)) = (es.foldl addEdge g).map (mapEdge ρ) := by
    induction es with
    | nil => intro g; rfl
    | cons e es ih =>
      intro g
      simp only [List.map_cons, List.foldl_cons]
      rw [addEdge_map hinj, ih]
  exact this []

theorem emitted_map (ρ : Nat → Nat) (q : Q) (params body : S) :
    emitted q (mapS ρ params) (mapS ρ body) = mapEm ρ (emitted q params body) := by
  unfold emitted
  have h1 := (comm_all ρ q params).1 []
  simp only [List.map_nil] at h1
  simp only []
  rw [h1]
  generalize analyze q params [] = r1
  rw [show (mapEm ρ r1).F = r1.F.map (mapFr ρ) from rfl, (comm_all ρ q body).1 r1.F]
  simp only [mapEm, List.map_append, link_map_exit]

theorem cfg_map {ρ : Nat → Nat} (hinj : ∀ a b, ρ a = ρ b → a = b) (q : Q) (params body : S) :
    cfg q (mapS ρ params) (mapS ρ body) = mapResult ρ (cfg q params body) := by
  unfold cfg
  simp only []
  rw [emitted_map]
  generalize emitted q params body = r
  cases r with
  | mk F sp es err =>
    show (if (err != 0) = true then Result.error err else Result.ok (build (es.map (mapEdge ρ)))) =
      mapResult ρ (if (err != 0) = true then Result.error err else Result.ok (build es))
    by_cases he : (err != 0) = true
    · rw [if_pos he, if_pos he]; rfl
    · rw [if_neg he, if_neg he]; simp only [mapResult, build_map hinj]

end LianVerif.Meta
