/-
Helper lemmas for C20 (EntryPointGenerator).  The property theorems are in Properties/C20.lean.
-/
import LianVerif.Model.EntryPoints
import LianVerif.Spec.EntrySelect

namespace LianVerif.EntryPoints
open LianVerif.EntrySelect

/-! ### text primitives -/

theorem isInfix_iff {p s : Text} : isInfix p s = true ↔ p <:+: s := by
  induction s with
  | nil => simp [isInfix, List.isEmpty_iff]
  | cons c cs ih =>
    rw [isInfix, Bool.or_eq_true, ih, List.isPrefixOf_iff_prefix, List.infix_cons_iff]

theorem isInfix_nil (s : Text) : isInfix [] s = true := isInfix_iff.2 (List.nil_infix)

theorem not_isInfix_iff {p s : Text} : isInfix p s = false ↔ ¬ p <:+: s := by
  rw [← isInfix_iff]; simp

theorem takeWhile_ne_not_mem (c : Char) (l : Text) : c ∉ l.takeWhile (fun x => x != c) := by
  induction l with
  | nil => simp
  | cons a l ih =>
    rw [List.takeWhile_cons]
    split
    · rename_i h
      intro hm
      rcases List.mem_cons.1 hm with rfl | hm
      · simp at h
      · exact ih hm
    · simp

theorem takeWhile_ne_split (c : Char) (l : Text) :
    l.takeWhile (fun x => x != c) = l ∨ ∃ t, l = l.takeWhile (fun x => x != c) ++ c :: t := by
  induction l with
  | nil => left; rfl
  | cons a l ih =>
    rw [List.takeWhile_cons]
    split
    · rcases ih with h | ⟨t, h⟩
      · left; rw [h]
      · right; exact ⟨t, by rw [List.cons_append, ← h]⟩
    · rename_i h
      right
      refine ⟨l, ?_⟩
      have : a = c := by simpa using h
      rw [this]; rfl

/-- `basename` returns the file name of the path -/
theorem basename_spec (p : Text) : IsBasename (basename p) p := by
  unfold IsBasename basename
  constructor
  · intro h
    exact takeWhile_ne_not_mem '/' p.reverse (List.mem_reverse.1 h)
  · rcases takeWhile_ne_split '/' p.reverse with h | ⟨t, h⟩
    · left; rw [h, List.reverse_reverse]
    · right
      refine ⟨t.reverse, ?_⟩
      generalize List.takeWhile (fun x => x != '/') p.reverse = b at h ⊢
      have := congrArg List.reverse h
      rw [List.reverse_reverse] at this
      rw [this]
      simp

/-! ### membership of the list-backed sets -/

theorem mem_setAdd {s : List Int} {x y : Int} : x ∈ setAdd s y ↔ x ∈ s ∨ x = y := by
  unfold setAdd
  split
  · rename_i h
    have hy : y ∈ s := List.contains_iff_mem.1 h
    constructor
    · exact Or.inl
    · rintro (h | rfl)
      · exact h
      · exact hy
  · simp

theorem mem_setUnion {b : List Int} : ∀ {a : List Int} {x : Int}, x ∈ setUnion a b ↔ x ∈ a ∨ x ∈ b := by
  induction b with
  | nil => intro a x; simp [setUnion]
  | cons y b ih =>
    intro a x
    have := @ih (setAdd a y) x
    unfold setUnion at this ⊢
    rw [List.foldl_cons, this, mem_setAdd, List.mem_cons]
    constructor
    · rintro ((h | h) | h)
      · exact Or.inl h
      · exact Or.inr (Or.inl h)
      · exact Or.inr (Or.inr h)
    · rintro (h | h | h)
      · exact Or.inl (Or.inl h)
      · exact Or.inl (Or.inr h)
      · exact Or.inr h

theorem nodup_setAdd {s : List Int} (h : s.Nodup) (y : Int) : (setAdd s y).Nodup := by
  unfold setAdd
  split
  · exact h
  · rename_i hc
    have hy : y ∉ s := fun hm => hc (List.contains_iff_mem.2 hm)
    rw [List.nodup_append]
    refine ⟨h, by simp, ?_⟩
    intro a ha b hb
    rw [List.mem_singleton] at hb
    subst hb
    rintro rfl
    exact hy ha

theorem nodup_setUnion {b : List Int} : ∀ {a : List Int}, a.Nodup → (setUnion a b).Nodup := by
  induction b with
  | nil => intro a h; simpa [setUnion] using h
  | cons y b ih =>
    intro a h
    have := @ih (setAdd a y) (nodup_setAdd h y)
    unfold setUnion at this ⊢
    rw [List.foldl_cons]
    exact this

/-! ### the two loops -/

theorem matchedLoop_iff {rs : List Rule} {m : MethodScope} :
    matchedLoop rs m = true ↔ ∃ r ∈ rs, methodMatches r m = true := by
  induction rs with
  | nil => simp [matchedLoop]
  | cons r rs ih =>
    rw [matchedLoop]
    split
    · rename_i h
      simp only [true_iff]
      exact ⟨r, List.mem_cons_self, h⟩
    · rename_i h
      rw [ih]
      constructor
      · rintro ⟨r', hr', hm⟩; exact ⟨r', List.mem_cons_of_mem _ hr', hm⟩
      · rintro ⟨r', hr', hm⟩
        rcases List.mem_cons.1 hr' with rfl | hr'
        · exact absurd hm h
        · exact ⟨r', hr', hm⟩

theorem mem_checkRules {cands : List Rule} {ms : List MethodScope} :
    ∀ {acc : List Int} {x : Int}, x ∈ checkRules cands ms acc ↔
      x ∈ acc ∨ ∃ m ∈ ms, m.stmtId = x ∧ matchedLoop cands m = true := by
  induction ms with
  | nil => intro acc x; simp [checkRules]
  | cons m ms ih =>
    intro acc x
    unfold checkRules at ih ⊢
    rw [List.foldl_cons, ih]
    by_cases hm : matchedLoop cands m = true
    · simp only [hm, if_true, mem_setAdd]
      constructor
      · rintro ((h | h) | ⟨m', hm', h⟩)
        · exact Or.inl h
        · exact Or.inr ⟨m, List.mem_cons_self, h.symm, hm⟩
        · exact Or.inr ⟨m', List.mem_cons_of_mem _ hm', h⟩
      · rintro (h | ⟨m', hm', h1, h2⟩)
        · exact Or.inl (Or.inl h)
        · rcases List.mem_cons.1 hm' with rfl | hm'
          · exact Or.inl (Or.inr h1.symm)
          · exact Or.inr ⟨m', hm', h1, h2⟩
    · simp only [hm, Bool.false_eq_true, if_false]
      constructor
      · rintro (h | ⟨m', hm', h⟩)
        · exact Or.inl h
        · exact Or.inr ⟨m', List.mem_cons_of_mem _ hm', h⟩
      · rintro (h | ⟨m', hm', h1, h2⟩)
        · exact Or.inl h
        · rcases List.mem_cons.1 hm' with rfl | hm'
          · exact absurd h2 hm
          · exact Or.inr ⟨m', hm', h1, h2⟩

theorem nodup_checkRules {cands : List Rule} {ms : List MethodScope} :
    ∀ {acc : List Int}, acc.Nodup → (checkRules cands ms acc).Nodup := by
  induction ms with
  | nil => intro acc h; simpa [checkRules] using h
  | cons m ms ih =>
    intro acc h
    unfold checkRules at ih ⊢
    rw [List.foldl_cons]
    apply ih
    split
    · exact nodup_setAdd h _
    · exact h

/-- the contribution of one unit, as a predicate -/
def UnitSelects (rules : List Rule) (um : UnitInfo × List MethodScope) (x : Int) : Prop :=
  ∃ m ∈ um.2, m.stmtId = x ∧ ∃ r ∈ rules, unitMatches r um.1 = true ∧ methodMatches r m = true

theorem matchedLoop_filterRules {rules : List Rule} {u : UnitInfo} {m : MethodScope} :
    matchedLoop (filterRules rules u) m = true ↔
      ∃ r ∈ rules, unitMatches r u = true ∧ methodMatches r m = true := by
  rw [matchedLoop_iff]
  unfold filterRules
  constructor
  · rintro ⟨r, hr, hm⟩
    obtain ⟨h1, h2⟩ := List.mem_filter.1 hr
    exact ⟨r, h1, h2, hm⟩
  · rintro ⟨r, h1, h2, hm⟩
    exact ⟨r, List.mem_filter.2 ⟨h1, h2⟩, hm⟩

/-- invariant carried through the unit loop: the loader's set and the generator's set agree -/
def Agree (st : State) : Prop := ∀ x, x ∈ st.saved ↔ x ∈ st.results

theorem collectUnit_results {rules : List Rule} {st : State} {um : UnitInfo × List MethodScope} {x : Int} :
    x ∈ (collectUnit rules st um).results ↔ x ∈ st.results ∨ UnitSelects rules um x := by
  unfold collectUnit
  by_cases hc : (filterRules rules um.1).isEmpty = true
  · simp only [hc, if_true]
    constructor
    · exact Or.inl
    · rintro (h | ⟨m, _, _, r, hr, hu, _⟩)
      · exact h
      · have : r ∈ filterRules rules um.1 := List.mem_filter.2 ⟨hr, hu⟩
        rw [List.isEmpty_iff] at hc
        rw [hc] at this
        exact absurd this (by simp)
  · simp only [hc, Bool.false_eq_true, if_false]
    rw [mem_checkRules]
    unfold UnitSelects
    constructor
    · rintro (h | ⟨m, hm, h1, h2⟩)
      · exact Or.inl h
      · exact Or.inr ⟨m, hm, h1, matchedLoop_filterRules.1 h2⟩
    · rintro (h | ⟨m, hm, h1, h2⟩)
      · exact Or.inl h
      · exact Or.inr ⟨m, hm, h1, matchedLoop_filterRules.2 h2⟩

theorem collectUnit_agree {rules : List Rule} {st : State} (h : Agree st) (um : UnitInfo × List MethodScope) :
    Agree (collectUnit rules st um) := by
  intro x
  have hres := @collectUnit_results rules st um x
  unfold collectUnit at hres ⊢
  by_cases hc : (filterRules rules um.1).isEmpty = true
  · simp only [hc, if_true]; exact h x
  · simp only [hc, Bool.false_eq_true, if_false] at hres ⊢
    rw [mem_setUnion, h x]
    constructor
    · rintro (h1 | h1)
      · exact hres.2 (Or.inl h1)
      · exact h1
    · exact Or.inr

theorem collectUnit_nodup {rules : List Rule} {st : State} (h : st.results.Nodup ∧ st.saved.Nodup)
    (um : UnitInfo × List MethodScope) :
    (collectUnit rules st um).results.Nodup ∧ (collectUnit rules st um).saved.Nodup := by
  unfold collectUnit
  by_cases hc : (filterRules rules um.1).isEmpty = true
  · simp only [hc, if_true]; exact h
  · simp only [hc, Bool.false_eq_true, if_false]
    exact ⟨nodup_checkRules h.1, nodup_setUnion h.2⟩

theorem foldl_collect {rules : List Rule} (units : List (UnitInfo × List MethodScope)) :
    ∀ (st : State), Agree st → (st.results.Nodup ∧ st.saved.Nodup) →
      Agree (units.foldl (collectUnit rules) st) ∧
      ((units.foldl (collectUnit rules) st).results.Nodup ∧ (units.foldl (collectUnit rules) st).saved.Nodup) ∧
      ∀ x, x ∈ (units.foldl (collectUnit rules) st).results ↔
        x ∈ st.results ∨ ∃ um ∈ units, UnitSelects rules um x := by
  induction units with
  | nil => intro st h hn; exact ⟨h, hn, by simp⟩
  | cons um units ih =>
    intro st h hn
    obtain ⟨h1, h2, h3⟩ := ih (collectUnit rules st um) (collectUnit_agree h um) (collectUnit_nodup hn um)
    rw [List.foldl_cons]
    refine ⟨h1, h2, ?_⟩
    intro x
    rw [h3 x, collectUnit_results]
    constructor
    · rintro ((h | h) | ⟨um', hu, h⟩)
      · exact Or.inl h
      · exact Or.inr ⟨um, List.mem_cons_self, h⟩
      · exact Or.inr ⟨um', List.mem_cons_of_mem _ hu, h⟩
    · rintro (h | ⟨um', hu, h⟩)
      · exact Or.inl (Or.inl h)
      · rcases List.mem_cons.1 hu with rfl | hu
        · exact Or.inl (Or.inr h)
        · exact Or.inr ⟨um', hu, h⟩

/-! ### the Boolean tests decide the specification's predicates -/

theorem names_iff {v : StrOrList} {x : Text} : v.has x = true ↔ Names v x := by
  cases v with
  | str s => simp [StrOrList.has, Names, isInfix_iff]
  | list l => simp [StrOrList.has, Names]

theorem ite_chain4 (c1 c2 c3 c4 : Bool) :
    (if c1 = true then false else if c2 = true then false else if c3 = true then false
      else if c4 = true then false else true) = (!c1 && !c2 && !c3 && !c4) := by
  cases c1 <;> cases c2 <;> cases c3 <;> cases c4 <;> rfl

theorem unitMatches_eq (r : Rule) (u : UnitInfo) : unitMatches r u =
    ((r.lang.isEmpty || r.lang == u.lang) && (!decide (r.unitId ≥ 0) || r.unitId == u.moduleId) &&
     (r.unitName.isEmpty || isInfix r.unitName (basename u.path)) &&
     (r.unitPath.isEmpty || isInfix r.unitPath u.path)) := by
  unfold unitMatches
  rw [ite_chain4]
  simp only [bne, Bool.not_and, Bool.not_not]

theorem unitMatches_iff {r : Rule} {u : UnitInfo} : unitMatches r u = true ↔ UnitOk r u := by
  rw [unitMatches_eq]
  unfold UnitOk
  simp only [Bool.and_eq_true, Bool.or_eq_true, List.isEmpty_iff, beq_iff_eq, Bool.not_eq_true',
    decide_eq_false_iff_not, isInfix_iff, and_assoc]
  constructor
  · rintro ⟨h1, h2, h3, h4⟩
    refine ⟨fun hn => h1.resolve_left hn, fun hp => h2.resolve_left (fun hn => hn hp), ?_, ?_⟩
    · rcases h3 with h | h
      · rw [h]; exact List.nil_infix
      · exact h
    · rcases h4 with h | h
      · rw [h]; exact List.nil_infix
      · exact h
  · rintro ⟨h1, h2, h3, h4⟩
    refine ⟨?_, ?_, Or.inr h3, Or.inr h4⟩
    · by_cases h : r.lang = []
      · exact Or.inl h
      · exact Or.inr (h1 h)
    · by_cases h : 0 ≤ r.unitId
      · exact Or.inr (h2 h)
      · exact Or.inl h

theorem methodMatches_iff {r : Rule} {m : MethodScope} : methodMatches r m = true ↔ MethodOk r m := by
  unfold methodMatches MethodOk
  by_cases h : 0 ≤ r.methodId
  · have hd : decide (r.methodId ≥ 0) = true := decide_eq_true h
    rw [if_pos hd, if_pos h]
    exact beq_iff_eq
  · have hd : ¬ (decide (r.methodId ≥ 0) = true) := by simpa using h
    rw [if_neg hd, if_neg h, ite_chain4]
    simp only [bne, Bool.and_eq_true, Bool.not_eq_true', Bool.and_eq_false_iff, Bool.or_eq_false_iff,
      Bool.not_eq_false', names_iff, List.isEmpty_iff, List.all_eq_true, isInfix_iff, beq_iff_eq,
      ne_eq, and_assoc]
    have he : List.isEmpty m.attrs = false ↔ ¬ m.attrs = [] := by
      rw [← List.isEmpty_iff]; simp
    rw [he]
    constructor
    · rintro ⟨h1, h2, h3, h4⟩
      refine ⟨?_, ?_, h3.elim id id, h4.elim id id⟩
      · intro ha
        rcases h1 with h1 | h1
        · rw [ha] at h1; exact absurd h1 (by simp)
        · exact h1
      · intro ha
        rcases h2 with h2 | h2
        · rw [ha] at h2; exact absurd h2 (by simp)
        · exact h2
    · rintro ⟨h1, h2, h3, h4⟩
      refine ⟨?_, ?_, Or.inl h3, Or.inl h4⟩
      · cases ha : r.methodList.avail
        · exact Or.inl rfl
        · exact Or.inr (h1 ha)
      · cases ha : r.attrs.avail
        · exact Or.inl rfl
        · exact Or.inr (h2 ha)

/-! ### the whole selection -/

theorem agree_init : Agree ({} : State) := fun _ => Iff.rfl

theorem select_mem {rules : List Rule} {units : List (UnitInfo × List MethodScope)} {x : Int} :
    x ∈ select rules units ↔ ∃ um ∈ units, UnitSelects rules um x := by
  obtain ⟨h1, _, h3⟩ := foldl_collect (rules := rules) units {} agree_init ⟨List.nodup_nil, List.nodup_nil⟩
  unfold select collectAll
  rw [h1 x, h3 x]
  simp

theorem select_nodup (rules : List Rule) (units : List (UnitInfo × List MethodScope)) :
    (select rules units).Nodup :=
  (foldl_collect (rules := rules) units {} agree_init ⟨List.nodup_nil, List.nodup_nil⟩).2.1.2

theorem collectAll_agree (rules : List Rule) (units : List (UnitInfo × List MethodScope)) :
    Agree (collectAll rules units) :=
  (foldl_collect (rules := rules) units {} agree_init ⟨List.nodup_nil, List.nodup_nil⟩).1

/-! ### settings file names -/

theorem takeWhile_dash_isEmpty (name : Text) :
    (name.takeWhile (fun c => c != '-')).isEmpty = true ↔ (name = [] ∨ name.head? = some '-') := by
  cases name with
  | nil => simp
  | cons a t =>
    rw [List.takeWhile_cons]
    by_cases h : a = '-'
    · subst h; simp
    · have : (a != '-') = true := by simpa using h
      simp [this, h]

theorem fileSelected_iff {req name : Text} : fileSelected req name = true ↔ IsRuleFile req name := by
  unfold fileSelected IsRuleFile
  by_cases h : name = req
  · subst h; simp
  · have hb : (name == req) = false := by simpa using h
    simp only [hb, Bool.false_eq_true, if_false, h, false_or]
    by_cases hs : ('-' :: req).isSuffixOf name = true
    · have hs' := List.isSuffixOf_iff_suffix.1 hs
      have hne : name ≠ [] := by
        rintro rfl
        have := List.IsSuffix.length_le hs'
        simp at this
      simp only [hs, if_true, hs', true_and]
      rw [Bool.not_eq_true', ← Bool.not_eq_true, takeWhile_dash_isEmpty]
      simp [hne]
    · have hs' : ¬ ('-' :: req) <:+ name := fun h' => hs (List.isSuffixOf_iff_suffix.2 h')
      simp [hs, hs']

theorem mem_loadRules {req : Text} {files : List (Text × List Rule)} {r : Rule} :
    r ∈ loadRules req files ↔ ∃ f ∈ files, IsRuleFile req f.1 ∧ r ∈ f.2 := by
  unfold loadRules
  simp only [List.mem_flatMap, List.mem_filter, fileSelected_iff]
  constructor
  · rintro ⟨f, ⟨hf, hs⟩, hr⟩; exact ⟨f, hf, hs, hr⟩
  · rintro ⟨f, hf, hs, hr⟩; exact ⟨f, ⟨hf, hs⟩, hr⟩

/-! ### the consumers -/

theorem p3Roots_eq {G : Type} (analyse : Int → G) (entries : List Int) : p3Roots analyse entries = entries := by
  unfold p3Roots p3Run
  rw [List.map_map]
  exact List.map_id' entries

theorem sfgLookup_p3Run {G : Type} (analyse : Int → G) (entries : List Int) (m : Int) :
    sfgLookup (p3Run analyse entries) m = if m ∈ entries then some (analyse m) else none := by
  unfold sfgLookup p3Run
  induction entries with
  | nil => simp
  | cons e es ih =>
    rw [List.map_cons, List.find?_cons]
    by_cases h : e = m
    · subst h; simp
    · have hb : ((e, analyse e).1 == m) = false := by simpa using h
      rw [hb]
      simp only [ih, List.mem_cons]
      have : ¬ m = e := fun h' => h h'.symm
      simp [this]

theorem mem_taintRun {G F : Type} (flowsOf : G → List F) (analyse : Int → G) (entries allMethods : List Int) (f : F) :
    f ∈ taintRun flowsOf (p3Run analyse entries) allMethods ↔
      ∃ e ∈ entries, e ∈ allMethods ∧ f ∈ flowsOf (analyse e) := by
  unfold taintRun
  simp only [List.mem_flatMap, sfgLookup_p3Run]
  constructor
  · rintro ⟨m, hm, hf⟩
    by_cases he : m ∈ entries
    · rw [if_pos he] at hf
      exact ⟨m, he, hm, hf⟩
    · rw [if_neg he] at hf
      exact absurd hf (by simp)
  · rintro ⟨e, he, hm, hf⟩
    refine ⟨e, hm, ?_⟩
    rw [if_pos he]
    exact hf

end LianVerif.EntryPoints
