/-
Helper lemmas for C13 (termination and step bounds).  Property theorems are in Properties/C13.lean.
-/
import LianVerif.Spec.TerminationBounds

namespace LianVerif.Termination

/-! ### visit loop -/

/-- what an event may add to the ranking function: only an interruption does (it pushes the
successors of its statement without popping) -/
def evCost (succ : Int → List Int) : Ev → Nat
  | .intr s => (succ s).length + 1
  | _ => 0

def allow (succ : Int → List Int) (evs : List Ev) : Nat := sumOver (evCost succ) evs

theorem visit_potential {ω γ : Type} (D : Discipline ω) (succ : Int → List Int) (V : List Int)
    (lim : Int → Nat) (analyse : Int → γ → γ × Bool) (w : ω) (cnt : Int → Nat) (g : γ) :
    (visitLoop D succ V lim analyse w cnt g).events.length
      + rank D succ V lim (visitLoop D succ V lim analyse w cnt g).w (visitLoop D succ V lim analyse w cnt g).cnt
      ≤ rank D succ V lim w cnt + allow succ (visitLoop D succ V lim analyse w cnt g).events := by
  fun_induction visitLoop D succ V lim analyse w cnt g with
  | case1 w cnt g h0 => simp [allow, sumOver]
  | case2 w cnt g h0 s hs r ih =>
    have := D.pop_lt w h0
    unfold r
    simp only [List.length_cons, allow, sumOver, evCost] at ih ⊢
    unfold rank at ih ⊢
    omega
  | case3 w cnt g h0 s hs hl w1 g1 hg =>
    have := D.foldl_push_le (succ s) w
    unfold w1
    simp only [List.length_cons, List.length_nil, allow, sumOver, evCost]
    unfold rank
    omega
  | case4 w cnt g h0 s hs hl w1 g1 hg r ih =>
    have hV : s ∈ V := by
      have : V.contains s = true := by
        cases hc : V.contains s with
        | true => rfl
        | false => exact absurd (Or.inr hc) hs
      exact List.contains_iff_mem.1 this
    have := rank_visit D succ V lim w cnt s h0 hV hl
    unfold r w1 at *
    simp only [List.length_cons, allow, sumOver, evCost] at ih ⊢
    omega
  | case5 w cnt g h0 s hs hl r ih =>
    have := D.pop_lt w h0
    unfold r
    simp only [List.length_cons, allow, sumOver, evCost] at ih ⊢
    unfold rank at ih ⊢
    omega


theorem allow_le {ω γ : Type} (D : Discipline ω) (succ : Int → List Int) (V : List Int)
    (lim : Int → Nat) (analyse : Int → γ → γ × Bool) (dmax : Nat) (hd : ∀ s, (succ s).length ≤ dmax)
    (w : ω) (cnt : Int → Nat) (g : γ) :
    allow succ (visitLoop D succ V lim analyse w cnt g).events ≤ dmax + 1 ∧
    ((visitLoop D succ V lim analyse w cnt g).interrupted = false →
      allow succ (visitLoop D succ V lim analyse w cnt g).events = 0) := by
  fun_induction visitLoop D succ V lim analyse w cnt g with
  | case1 w cnt g h0 => simp [allow, sumOver]
  | case2 w cnt g h0 s hs r ih =>
    unfold r at *
    obtain ⟨ih1, ih2⟩ := ih
    simp only [allow, sumOver, evCost] at ih1 ih2 ⊢
    exact ⟨by omega, fun h => by have := ih2 h; omega⟩
  | case3 w cnt g h0 s hs hl w1 g1 hg =>
    have := hd s
    simp only [allow, sumOver, evCost]
    exact ⟨by omega, fun h => by cases h⟩
  | case4 w cnt g h0 s hs hl w1 g1 hg r ih =>
    unfold r w1 at *
    obtain ⟨ih1, ih2⟩ := ih
    simp only [allow, sumOver, evCost] at ih1 ih2 ⊢
    exact ⟨by omega, fun h => by have := ih2 h; omega⟩
  | case5 w cnt g h0 s hs hl r ih =>
    unfold r at *
    obtain ⟨ih1, ih2⟩ := ih
    simp only [allow, sumOver, evCost] at ih1 ih2 ⊢
    exact ⟨by omega, fun h => by have := ih2 h; omega⟩

theorem allow_zero {ω γ : Type} (D : Discipline ω) (succ : Int → List Int) (V : List Int)
    (lim : Int → Nat) (analyse : Int → γ → γ × Bool) (w : ω) (cnt : Int → Nat) (g : γ) :
    (visitLoop D succ V lim analyse w cnt g).interrupted = false →
      allow succ (visitLoop D succ V lim analyse w cnt g).events = 0 := by
  fun_induction visitLoop D succ V lim analyse w cnt g with
  | case1 w cnt g h0 => simp [allow, sumOver]
  | case2 w cnt g h0 s hs r ih =>
    unfold r at *
    simp only [allow, sumOver, evCost] at ih ⊢
    intro h; have := ih h; omega
  | case3 w cnt g h0 s hs hl w1 g1 hg => intro h; cases h
  | case4 w cnt g h0 s hs hl w1 g1 hg r ih =>
    unfold r w1 at *
    simp only [allow, sumOver, evCost] at ih ⊢
    intro h; have := ih h; omega
  | case5 w cnt g h0 s hs hl r ih =>
    unfold r at *
    simp only [allow, sumOver, evCost] at ih ⊢
    intro h; have := ih h; omega

theorem sumOver_mul_left {α : Type} (c : Nat) (f : α → Nat) (l : List α) :
    sumOver (fun x => c * f x) l = c * sumOver f l := by
  induction l with
  | nil => simp [sumOver]
  | cons x l ih => simp only [sumOver, ih, Nat.mul_add]

/-- an invariant of the abstract analysis state that every statement analysis preserves holds at
the end of the loop -/
theorem visitLoop_inv {ω γ : Type} (D : Discipline ω) (succ : Int → List Int) (V : List Int)
    (lim : Int → Nat) (analyse : Int → γ → γ × Bool) (P : γ → Prop)
    (hP : ∀ s g, P g → P (analyse s g).1) (w : ω) (cnt : Int → Nat) (g : γ) (h : P g) :
    P (visitLoop D succ V lim analyse w cnt g).g := by
  fun_induction visitLoop D succ V lim analyse w cnt g with
  | case1 w cnt g h0 => exact h
  | case2 w cnt g h0 s hs r ih => exact ih h
  | case3 w cnt g h0 s hs hl w1 g1 hg => have := hP s g h; rw [hg] at this; exact this
  | case4 w cnt g h0 s hs hl w1 g1 hg r ih => have := hP s g h; rw [hg] at this; exact ih this
  | case5 w cnt g h0 s hs hl r ih => exact ih h

/-- the loop reports an interruption exactly when its last statement analysis asked for one -/
theorem visitLoop_intr {ω γ : Type} (D : Discipline ω) (succ : Int → List Int) (V : List Int)
    (lim : Int → Nat) (analyse : Int → γ → γ × Bool) (Q : γ → Prop)
    (hQ : ∀ s g, (analyse s g).2 = true → Q (analyse s g).1) (w : ω) (cnt : Int → Nat) (g : γ) :
    (visitLoop D succ V lim analyse w cnt g).interrupted = true →
      Q (visitLoop D succ V lim analyse w cnt g).g := by
  fun_induction visitLoop D succ V lim analyse w cnt g with
  | case1 w cnt g h0 => intro h; cases h
  | case2 w cnt g h0 s hs r ih => exact ih
  | case3 w cnt g h0 s hs hl w1 g1 hg =>
    intro _
    have := hQ s g (by rw [hg])
    rw [hg] at this; exact this
  | case4 w cnt g h0 s hs hl w1 g1 hg r ih => exact ih
  | case5 w cnt g h0 s hs hl r ih => exact ih

theorem visitLoop_not_intr {ω γ : Type} (D : Discipline ω) (succ : Int → List Int) (V : List Int)
    (lim : Int → Nat) (analyse : Int → γ → γ × Bool) (Q : γ → Prop)
    (hQ : ∀ s g, (analyse s g).2 = false → Q (analyse s g).1) (w : ω) (cnt : Int → Nat) (g : γ)
    (h : Q g) :
    (visitLoop D succ V lim analyse w cnt g).interrupted = false →
      Q (visitLoop D succ V lim analyse w cnt g).g := by
  fun_induction visitLoop D succ V lim analyse w cnt g with
  | case1 w cnt g h0 => intro _; exact h
  | case2 w cnt g h0 s hs r ih => exact ih h
  | case3 w cnt g h0 s hs hl w1 g1 hg => intro h; cases h
  | case4 w cnt g h0 s hs hl w1 g1 hg r ih =>
    have := hQ s g (by rw [hg])
    rw [hg] at this; exact ih this
  | case5 w cnt g h0 s hs hl r ih => exact ih h

/-! ### frame driver -/

def pendTotal {φ : Type} (st : List (Frame φ)) : Nat := sumOver (fun f => pendingCount f.caa) st

def pushes (evs : List DEv) : Nat :=
  (evs.filter (fun e => match e with | .push _ => true | _ => false)).length

theorem framesCreated_eq (evs : List DEv) : framesCreated evs = 1 + pushes evs := rfl

theorem driver_steps_le {φ : Type} {U : List Site} {B : Nat} (R : Runner U B φ) (hasBody : Glob → Frame φ → Nat → Bool)
    (mkLoc : Int → φ) (stack : List (Frame φ)) (G : Glob) (tick : Nat) :
    (driver R hasBody mkLoc stack G tick).1.length ≤ drank U B stack G := by
  fun_induction driver R hasBody mkLoc stack G tick with
  | case1 G tick => simp
  | case2 G tick f rest hi hb r ih =>
    unfold r
    simp only [List.length_cons]
    simp only [drank, stackWeight, sumOver, weight] at ih ⊢; omega
  | case3 G tick f rest hi hb path G1 r ih =>
    unfold r G1 path at *
    simp only [List.length_cons]
    simp only [drank, stackWeight, sumOver, weight, initGlob_cnt, hi] at ih ⊢
    simp at ih ⊢
    omega
  | case4 G tick f rest hi key caa' hp child r ih =>
    have := takePending_count f.caa key caa' hp
    have hi' : f.inited = true := by cases h : f.inited <;> simp_all
    unfold r child at *
    simp only [List.length_cons]
    simp only [drank, stackWeight, sumOver, weight, pendingCount, List.filter_nil, List.length_nil, hi'] at ih ⊢
    simp only [pendingCount] at this
    simp at ih ⊢
    omega
  | case5 G tick f rest hi hp out s k ks ho caa r ih =>
    have hpay := R.pay G f tick s (k :: ks) ho
    have hc := mkCaa_count f.method s (k :: ks) []
    have hi' : f.inited = true := by cases h : f.inited <;> simp_all
    unfold r caa out at *
    simp only [List.length_cons]
    simp only [drank, stackWeight, sumOver, weight, hi'] at ih ⊢
    simp only [pendingCount, List.filter_nil, List.length_nil, List.length_cons] at hc hpay ih ⊢
    simp at ih ⊢
    omega
  | case6 G tick f rest hi hp out r hno ih =>
    have hm := budget_anti U B (R.mono G f tick)
    unfold r out at *
    simp only [List.length_cons]
    simp only [drank, stackWeight, sumOver, weight] at ih ⊢
    omega


def isPush : DEv → Nat
  | .push _ => 1
  | _ => 0

def isIntr : DEv → Nat
  | .intr .. => 1
  | _ => 0

theorem pushes_nil : pushes [] = 0 := rfl
theorem pushes_cons (e : DEv) (evs : List DEv) : pushes (e :: evs) = isPush e + pushes evs := by
  cases e <;> simp [pushes, isPush] <;> omega

theorem interruptions_nil : interruptions [] = 0 := rfl
theorem interruptions_cons (e : DEv) (evs : List DEv) :
    interruptions (e :: evs) = isIntr e + interruptions evs := by
  cases e <;> simp [interruptions, isIntr] <;> omega

/-- frames still to be created are paid for by pending children and by call-site budget -/
theorem driver_pushes_le {φ : Type} {U : List Site} {B : Nat} (R : Runner U B φ) (hasBody : Glob → Frame φ → Nat → Bool)
    (mkLoc : Int → φ) (stack : List (Frame φ)) (G : Glob) (tick : Nat) :
    pushes (driver R hasBody mkLoc stack G tick).1 ≤ pendTotal stack + budget U B G.cnt := by
  fun_induction driver R hasBody mkLoc stack G tick with
  | case1 G tick => simp [pushes]
  | case2 G tick f rest hi hb r ih =>
    unfold r
    simp only [pushes_cons, isPush, pendTotal, sumOver] at ih ⊢
    omega
  | case3 G tick f rest hi hb path G1 r ih =>
    unfold r G1 path at *
    simp only [pushes_cons, isPush, pendTotal, sumOver, initGlob_cnt] at ih ⊢
    omega
  | case4 G tick f rest hi key caa' hp child r ih =>
    have := takePending_count f.caa key caa' hp
    unfold r child at *
    simp only [pushes_cons, isPush, pendTotal, sumOver, pendingCount, List.filter_nil,
      List.length_nil] at ih this ⊢
    omega
  | case5 G tick f rest hi hp out s k ks ho caa r ih =>
    have hpay := R.pay G f tick s (k :: ks) ho
    have hc := mkCaa_count f.method s (k :: ks) []
    unfold r caa out at *
    simp only [pushes_cons, isPush, pendTotal, sumOver] at ih ⊢
    simp only [pendingCount, List.filter_nil, List.length_nil, List.length_cons] at hc hpay ih ⊢
    omega
  | case6 G tick f rest hi hp out r hno ih =>
    have hm := budget_anti U B (R.mono G f tick)
    unfold r out at *
    simp only [pushes_cons, isPush, pendTotal, sumOver] at ih ⊢
    omega

/-- every interruption consumes call-site budget -/
theorem driver_intrs_le {φ : Type} {U : List Site} {B : Nat} (R : Runner U B φ) (hasBody : Glob → Frame φ → Nat → Bool)
    (mkLoc : Int → φ) (stack : List (Frame φ)) (G : Glob) (tick : Nat) :
    interruptions (driver R hasBody mkLoc stack G tick).1 ≤ budget U B G.cnt := by
  fun_induction driver R hasBody mkLoc stack G tick with
  | case1 G tick => simp [interruptions]
  | case2 G tick f rest hi hb r ih =>
    unfold r
    simp only [interruptions_cons, isIntr] at ih ⊢
    omega
  | case3 G tick f rest hi hb path G1 r ih =>
    unfold r G1 path at *
    simp only [interruptions_cons, isIntr, initGlob_cnt] at ih ⊢
    omega
  | case4 G tick f rest hi key caa' hp child r ih =>
    unfold r child at *
    simp only [interruptions_cons, isIntr] at ih ⊢
    omega
  | case5 G tick f rest hi hp out s k ks ho caa r ih =>
    have hpay := R.pay G f tick s (k :: ks) ho
    unfold r caa out at *
    simp only [interruptions_cons, isIntr, List.length_cons] at ih hpay ⊢
    omega
  | case6 G tick f rest hi hp out r hno ih =>
    have hm := budget_anti U B (R.mono G f tick)
    unfold r out at *
    simp only [interruptions_cons, isIntr] at ih ⊢
    omega

theorem sumOver_const {α : Type} (c : Nat) (l : List α) : sumOver (fun _ => c) l = c * l.length := by
  induction l with
  | nil => simp [sumOver]
  | cons x l ih => simp only [sumOver, ih, List.length_cons, Nat.mul_succ]; omega

theorem budget_zero (U : List Site) (B : Nat) : budget U B (fun _ => 0) = (B + 1) * U.length := by
  unfold budget; simp only [Nat.sub_zero]; exact sumOver_const (B + 1) U

/-! ### taint queue -/

theorem taint_steps_le (T : TGraph) (st : TState) : (taintLoop T st).1.length ≤ trank T st := by
  fun_induction taintLoop T st with
  | case1 st hq => simp
  | case2 st u q hq st1 utag he r ih =>
    have := trank_dequeue T st.tags u q st.processed
    have hst : st = { tags := st.tags, queue := u :: q, processed := st.processed } := by
      cases st; simp_all
    unfold r st1 at *
    simp only [List.length_cons]
    rw [hst]; simp only at ih ⊢
    omega
  | case3 st u q hq st1 utag he r ih =>
    have h1 := trank_dequeue T st.tags u q st.processed
    have h2 := trank_foldl T (unionTags st.tags (T.src u)) (T.acts u)
      { tags := st.tags, queue := q, processed := u :: st.processed }
    have hst : st = { tags := st.tags, queue := u :: q, processed := st.processed } := by
      cases st; simp_all
    unfold r utag st1 at *
    simp only [List.length_cons]
    unfold alwaysDeg at h1
    unfold applyActs at ih ⊢
    rw [hst]; simp only at ih ⊢
    omega

theorem ind_sum_le {α : Type} (p : α → Bool) (l : List α) : sumOver (fun x => ind (p x)) l ≤ l.length := by
  induction l with
  | nil => simp [sumOver]
  | cons x l ih => simp only [sumOver, List.length_cons]; have := ind_le_one (p x); omega

theorem unsetPairs_le (T : TGraph) (tags : Nat → List Nat) :
    unsetPairs T tags ≤ T.slots.length * T.bits.length := by
  unfold unsetPairs
  have : sumOver (fun s => sumOver (fun b => ind (!(tags s).contains b)) T.bits) T.slots
      ≤ sumOver (fun _ => T.bits.length) T.slots := by
    apply sumOver_le; intro s; exact ind_sum_le _ _
  rw [sumOver_const] at this
  rw [Nat.mul_comm]; exact this

theorem dormant_le (T : TGraph) (st : TState) : dormant T st ≤ T.n := by
  unfold dormant
  have := ind_sum_le (fun v => !st.processed.contains v && !st.queue.contains v) (List.range T.n)
  simpa using this

theorem qweight_le (T : TGraph) (q : List Nat) (h : queueOk T q = true) :
    qweight T q ≤ q.length * wmax T := by
  induction q with
  | nil => simp [qweight, sumOver]
  | cons u q ih =>
    simp only [queueOk, List.all_cons, Bool.and_eq_true, decide_eq_true_eq] at h
    have h1 := alwaysDeg_lt_wmax T h.1
    have h2 := ih (by simpa [queueOk] using h.2)
    simp only [qweight, sumOver, List.length_cons, Nat.succ_mul] at h2 ⊢
    omega

theorem trank_le_bound (T : TGraph) (st : TState) (h : queueOk T st.queue = true) :
    trank T st ≤ taintBound T.slots.length T.bits.length T.n st.queue.length (wmax T) := by
  unfold trank taintBound
  have h1 := unsetPairs_le T st.tags
  have h2 := dormant_le T st
  have h3 := qweight_le T st.queue h
  have := Nat.mul_le_mul_right (wmax T) (Nat.add_le_add h1 h2)
  rw [Nat.add_mul (T.slots.length * T.bits.length + T.n)]
  omega

/-! ### closure -/

theorem closure_steps_le {ω : Type} (D : Discipline ω) (next : Int → List Int) (N : List Int) (w : ω)
    (visited : List Int) : (closureLoop D next N w visited).pops.length ≤ crank D next N w visited := by
  fun_induction closureLoop D next N w visited with
  | case1 w visited h0 => simp
  | case2 w visited h0 x hv r ih =>
    have := D.pop_lt w h0
    unfold r at *
    simp only [List.length_cons]
    unfold crank at ih ⊢
    omega
  | case3 w visited h0 x hv r ih =>
    have := crank_mark D next N w visited x h0 (by simpa using hv)
    unfold r at *
    simp only [List.length_cons]
    omega

theorem crank_le (D : Discipline ω) (next : Int → List Int) (N : List Int) (w : ω) :
    crank D next N w [] = closureBound (D.size w) (sumOver (fun v => (next v).length) N) := by
  unfold crank closureBound
  simp only [List.contains_nil, Bool.false_eq_true, if_false]
  omega


/-! ### call paths: at most one cycle, hence at most |methods| + 1 sites -/

def freeCount (M : List Int) (visited : List Int) : Nat := sumOver (fun m => ind (!visited.contains m)) M

theorem freeCount_nil (M : List Int) : freeCount M [] = M.length := by
  unfold freeCount
  have : (fun m : Int => ind (!([] : List Int).contains m)) = fun _ => 1 := by
    funext m; simp [ind]
  rw [this, sumOver_const]; omega

theorem countCyclesGo_len (M : List Int) : ∀ (p : List Site) (visited : List Int),
    (∀ s ∈ p, s.2.2 ∈ M) → p.length ≤ countCyclesGo p visited + freeCount M visited := by
  intro p
  induction p with
  | nil => intro visited _; simp
  | cons s rest ih =>
    intro visited hM
    have ih' := ih (s.1 :: s.2.2 :: visited) (fun t ht => hM t (List.mem_cons_of_mem _ ht))
    have hmono : ∀ m, ind (!(s.1 :: s.2.2 :: visited).contains m) ≤ ind (!visited.contains m) := by
      intro m
      simp only [List.contains_cons]
      generalize (m == s.1) = a
      generalize (m == s.2.2) = b
      generalize visited.contains m = c
      cases a <;> cases b <;> cases c <;> decide
    simp only [countCyclesGo, List.length_cons]
    cases hc : visited.contains s.2.2 with
    | true =>
      have := sumOver_le M hmono
      unfold freeCount at ih' ⊢
      simp only [if_true]
      omega
    | false =>
      have hdrop : freeCount M (s.1 :: s.2.2 :: visited) + 1 ≤ freeCount M visited := by
        unfold freeCount
        apply sumOver_drop (hM s (List.mem_cons_self)) hmono
        simp only [List.contains_cons, hc, beq_self_eq_true, Bool.or_true, Bool.true_or]
        decide
      simp only [Bool.false_eq_true, if_false]
      omega

theorem path_len_le (M : List Int) (p : List Site) (hM : ∀ s ∈ p, s.2.2 ∈ M) :
    p.length ≤ countCycles p + M.length := by
  have := countCyclesGo_len M p [] hM
  rw [freeCount_nil] at this
  exact this

/-- a runner only ever asks the driver to descend into call sites of the universe whose extended
call path has at most one cycle -/
def PathSafe {φ : Type} {U : List Site} {B : Nat} (R : Runner U B φ) : Prop :=
  ∀ G f t s ks, (R.run G f t).intr = some (s, ks) →
    ∀ k ∈ ks, (f.method, s, k) ∈ U ∧ countCycles (f.path ++ [(f.method, s, k)]) ≤ 1

theorem request_todo_ok {φ : Type} (U : List Site) (B : Nat) (f : Frame φ) (stmt : Int) (ks : List Int) :
    ∀ (G : Glob) (todo : List Int), ∀ k ∈ (request U B f stmt ks G todo).2,
      k ∈ todo ∨ ((f.method, stmt, k) ∈ U ∧ countCycles (f.path ++ [(f.method, stmt, k)]) ≤ 1) := by
  induction ks with
  | nil => intro G todo k hk; exact Or.inl (by simpa [request] using hk)
  | cons k0 ks ih =>
    intro G todo k hk
    simp only [request] at hk
    split at hk
    · exact ih G todo k hk
    · rename_i hc
      simp only [Bool.or_eq_true, decide_eq_true_eq, Bool.not_eq_true', not_or, Bool.not_eq_true,
        Bool.not_eq_false] at hc
      obtain ⟨⟨⟨⟨_, hcy⟩, _⟩, _⟩, hU⟩ := hc
      rcases ih _ _ k hk with h | h
      · rcases List.mem_append.1 h with h | h
        · exact Or.inl h
        · rw [List.mem_singleton] at h; subst h
          exact Or.inr ⟨List.contains_iff_mem.1 hU, by omega⟩
      · exact Or.inr h

theorem processReqs_pathSafe {φ : Type} (U : List Site) (B : Nat) (f : Frame φ)
    (reqs : List (Int × List Int)) :
    ∀ (G : Glob) (n : Nat) s ks, (processReqs U B f reqs G n).intr = some (s, ks) →
      ∀ k ∈ ks, (f.method, s, k) ∈ U ∧ countCycles (f.path ++ [(f.method, s, k)]) ≤ 1 := by
  induction reqs with
  | nil => intro G n s ks h; simp [processReqs] at h
  | cons r reqs ih =>
    intro G n s ks h
    obtain ⟨s0, ks0⟩ := r
    simp only [processReqs] at h
    split at h
    · exact ih _ _ s ks h
    · simp only [Option.some.injEq, Prod.mk.injEq] at h
      obtain ⟨rfl, rfl⟩ := h
      intro k hk
      rcases request_todo_ok U B f s0 ks0 G [] k hk with h | h
      · cases h
      · exact h

theorem scriptRunner_pathSafe (U : List Site) (B : Nat)
    (oracle : Glob → Frame Unit → Nat → List (Int × List Int)) : PathSafe (scriptRunner U B oracle) := by
  intro G f t s ks h
  exact processReqs_pathSafe U B f (oracle G f t) G 0 s ks h

/-- invariant of an initialised frame -/
def FrameInv {φ : Type} (U : List Site) (c : Frame φ) : Prop :=
  countCycles c.path ≤ 1 ∧ (∀ s ∈ c.path, s ∈ U) ∧
  ∀ kb ∈ c.caa, kb.1.1 = c.method ∧ kb.1 ∈ U ∧ countCycles (c.path ++ [kb.1]) ≤ 1

def StackOk {φ : Type} (U : List Site) : List (Frame φ) → Prop
  | [] => True
  | c :: rest =>
    (c.inited = true → FrameInv U c) ∧
    (c.inited = false → c.caa = [] ∧
      match rest with
      | [] => True
      | f :: _ => f.inited = true ∧ ∃ b, ((f.method, c.callStmt, c.method), b) ∈ f.caa) ∧
    StackOk U rest

theorem takePending_mem : ∀ (caa : List (Site × Bool)) (k : Site) (caa' : List (Site × Bool)),
    takePending caa = some (k, caa') →
      (k, true) ∈ caa' ∧ (∃ b, (k, b) ∈ caa) ∧ ∀ kb ∈ caa', ∃ b, (kb.1, b) ∈ caa := by
  intro caa
  induction caa with
  | nil => intro k caa' h; simp [takePending] at h
  | cons p rest ih =>
    intro k caa' h
    obtain ⟨s, b⟩ := p
    cases b with
    | true =>
      simp only [takePending, if_true] at h
      cases hr : takePending rest with
      | none => rw [hr] at h; simp at h
      | some v =>
        rw [hr] at h
        obtain ⟨k2, rest'⟩ := v
        simp only [Option.some.injEq, Prod.mk.injEq] at h
        obtain ⟨rfl, rfl⟩ := h
        obtain ⟨h1, ⟨b, h2⟩, h3⟩ := ih k2 rest' hr
        refine ⟨List.mem_cons_of_mem _ h1, ⟨b, List.mem_cons_of_mem _ h2⟩, ?_⟩
        intro kb hkb
        rcases List.mem_cons.1 hkb with rfl | hkb
        · exact ⟨true, List.mem_cons_self⟩
        · obtain ⟨b', hb'⟩ := h3 kb hkb
          exact ⟨b', List.mem_cons_of_mem _ hb'⟩
    | false =>
      simp only [takePending, Bool.false_eq_true, if_false, Option.some.injEq, Prod.mk.injEq] at h
      obtain ⟨rfl, rfl⟩ := h
      refine ⟨List.mem_cons_self, ⟨false, List.mem_cons_self⟩, ?_⟩
      intro kb hkb
      rcases List.mem_cons.1 hkb with rfl | hkb
      · exact ⟨false, List.mem_cons_self⟩
      · exact ⟨kb.2, List.mem_cons_of_mem _ hkb⟩

theorem mkCaa_mem (caller stmt : Int) (ks : List Int) :
    ∀ acc, ∀ kb ∈ mkCaa caller stmt ks acc, kb ∈ acc ∨ ∃ k ∈ ks, kb.1 = (caller, stmt, k) := by
  induction ks with
  | nil => intro acc kb h; exact Or.inl (by simpa [mkCaa] using h)
  | cons k ks ih =>
    intro acc kb h
    simp only [mkCaa] at h
    split at h
    · rcases ih acc kb h with h | ⟨k', hk', he⟩
      · exact Or.inl h
      · exact Or.inr ⟨k', List.mem_cons_of_mem _ hk', he⟩
    · rcases ih _ kb h with h | ⟨k', hk', he⟩
      · rcases List.mem_append.1 h with h | h
        · exact Or.inl h
        · rw [List.mem_singleton] at h; subst h
          exact Or.inr ⟨k, List.mem_cons_self, rfl⟩
      · exact Or.inr ⟨k', List.mem_cons_of_mem _ hk', he⟩

def initOk (U : List Site) : DEv → Prop
  | .init _ p => countCycles p ≤ 1 ∧ ∀ s ∈ p, s ∈ U
  | _ => True

theorem driver_paths_ok {φ : Type} {U : List Site} {B : Nat} (R : Runner U B φ) (hR : PathSafe R)
    (hasBody : Glob → Frame φ → Nat → Bool) (mkLoc : Int → φ) (stack : List (Frame φ)) (G : Glob) (tick : Nat) :
    StackOk U stack → ∀ e ∈ (driver R hasBody mkLoc stack G tick).1, initOk U e := by
  fun_induction driver R hasBody mkLoc stack G tick with
  | case1 G tick => intro _ e he; cases he
  | case2 G tick f rest hi hb r ih =>
    intro hok e he
    unfold r at he
    rcases List.mem_cons.1 he with rfl | he
    · trivial
    · exact ih hok.2.2 e he
  | case3 G tick f rest hi hb path G1 r ih =>
    intro hok e he
    obtain ⟨_, h2, h3⟩ := hok
    obtain ⟨hcaa, hpar⟩ := h2 hi
    have hinv : FrameInv U { f with inited := true, path := path } := by
      unfold path
      cases rest with
      | nil =>
        refine ⟨by simp [initPath, countCycles, countCyclesGo], by simp [initPath], ?_⟩
        simp [hcaa]
      | cons p rest' =>
        obtain ⟨hpi, b, hb⟩ := hpar
        obtain ⟨_, hpU, hpk⟩ := h3.1 hpi
        obtain ⟨_, hkU, hkc⟩ := hpk _ hb
        refine ⟨by simpa [initPath] using hkc, ?_, by simp [hcaa]⟩
        intro s hs
        simp only [initPath, List.mem_append, List.mem_singleton] at hs
        rcases hs with hs | rfl
        · exact hpU s hs
        · exact hkU
    unfold r at he
    rcases List.mem_cons.1 he with rfl | he
    · exact ⟨hinv.1, hinv.2.1⟩
    · refine ih ⟨fun _ => hinv, fun h => by simp at h, h3⟩ e he
  | case4 G tick f rest hi key caa' hp child r ih =>
    intro hok e he
    have hi' : f.inited = true := by cases h : f.inited <;> simp_all
    obtain ⟨h1, _, h3⟩ := hok
    obtain ⟨hc, hU, hk⟩ := h1 hi'
    obtain ⟨hm1, ⟨b0, hm2⟩, hm3⟩ := takePending_mem f.caa key caa' hp
    have hkey := hk _ hm2
    have hf' : FrameInv U { f with caa := caa' } := by
      refine ⟨hc, hU, ?_⟩
      intro kb hkb
      obtain ⟨b', hb'⟩ := hm3 kb hkb
      exact hk (kb.1, b') hb'
    unfold r at he
    rcases List.mem_cons.1 he with rfl | he
    · trivial
    · refine ih ⟨fun h => by simp [child] at h, fun _ => ⟨rfl, ?_⟩, fun _ => hf', fun h => ?_, h3⟩ e he
      · refine ⟨hi', true, ?_⟩
        have : (f.method, child.callStmt, child.method) = key := by
          obtain ⟨a, b, c⟩ := key
          simp only [child] at hkey ⊢
          rw [hkey.1]
        rw [this]; exact hm1
      · simp [hi'] at h
  | case5 G tick f rest hi hp out s k ks ho caa r ih =>
    intro hok e he
    have hi' : f.inited = true := by cases h : f.inited <;> simp_all
    obtain ⟨h1, _, h3⟩ := hok
    obtain ⟨hc, hU, _⟩ := h1 hi'
    have hsafe := hR G f tick s (k :: ks) ho
    have hf' : FrameInv U { f with caa := caa, loc := out.loc } := by
      refine ⟨hc, hU, ?_⟩
      intro kb hkb
      rcases mkCaa_mem f.method s (k :: ks) [] kb hkb with h | ⟨k', hk', hke⟩
      · cases h
      · obtain ⟨hu, hcy⟩ := hsafe k' hk'
        rw [hke]; exact ⟨rfl, hu, hcy⟩
    unfold r at he
    rcases List.mem_cons.1 he with rfl | he
    · trivial
    · exact ih ⟨fun _ => hf', fun h => by simp [hi'] at h, h3⟩ e he
  | case6 G tick f rest hi hp out r hno ih =>
    intro hok e he
    unfold r at he
    rcases List.mem_cons.1 he with rfl | he
    · trivial
    · exact ih hok.2.2 e he

theorem maxPathLen_le (evs : List DEv) (n : Nat)
    (h : ∀ e ∈ evs, match e with | .init _ p => p.length ≤ n | _ => True) : maxPathLen evs ≤ n := by
  induction evs with
  | nil => simp [maxPathLen]
  | cons e evs ih =>
    have ih' := ih (fun e' he' => h e' (List.mem_cons_of_mem _ he'))
    have he := h e List.mem_cons_self
    cases e <;> simp only [maxPathLen] <;> try exact ih'
    simp only at he
    omega

end LianVerif.Termination
