/-
Proofs/Aref.lean — soundness of the reference abstract interpreter `Aref.exec` against the collecting
semantics `Collect.runs`, for every sound abstract binary operation.  Core Lean only.
-/
import LianVerif.Spec.Collect

namespace LianVerif.ArefProofs
open LianVerif.PyStrLit LianVerif.Aref LianVerif.Collect

theorem mem_union {A B : ASet} {a : AVal} : a ∈ union A B ↔ a ∈ A ∨ a ∈ B := by
  unfold union
  simp only [List.mem_append, List.mem_filter, Bool.not_eq_true', List.contains_eq_mem, decide_eq_false_iff_not]
  constructor
  · rintro (h | ⟨h, _⟩)
    · exact Or.inl h
    · exact Or.inr h
  · rintro (h | h)
    · exact Or.inl h
    · by_cases ha : a ∈ A
      · exact Or.inl ha
      · exact Or.inr ⟨h, ha⟩

theorem covers_mono {A B : ASet} {v : CVal} (h : ∀ a ∈ A, a ∈ B) : covers A v → covers B v := by
  intro hc
  rcases hc with hu | hv
  · exact Or.inl (h _ hu)
  · right
    cases v with
    | prim p => exact h _ hv
    | ref s => exact h _ hv

theorem covers_union_left {A B : ASet} {v : CVal} : covers A v → covers (union A B) v :=
  covers_mono (fun _ ha => mem_union.2 (Or.inl ha))

theorem covers_union_right {A B : ASet} {v : CVal} : covers B v → covers (union A B) v :=
  covers_mono (fun _ ha => mem_union.2 (Or.inr ha))

/-- an abstract binary operation is sound: it covers Python's result for every covered pair of operands. -/
def ABinSound (ab : ABin) : Prop :=
  ∀ op A B r a b v, ab op A B = some r → covers A a → covers B b → cBin op a b = some v → covers r v

/-- abstract and concrete cell agree: whatever the concrete cell holds is covered. -/
def RelV (A : Option ASet) (v : Option CVal) : Prop := ∀ c, v = some c → ∃ S, A = some S ∧ covers S c

def Rel (σ : AEnv) (ρ : CEnv) : Prop := (∀ x, RelV (σ.vars x) (ρ.vars x)) ∧ (∀ h, RelV (σ.heap h) (ρ.heap h))

theorem relV_upd {κ : Type} [DecidableEq κ] {m : κ → Option ASet} {c : κ → Option CVal} {k : κ} {S : ASet} {v : CVal}
    (h : ∀ x, RelV (m x) (c x)) (hc : covers S v) : ∀ x, RelV (upd m k S x) (cupd c k v x) := by
  intro x w hw
  unfold upd; unfold cupd at hw
  by_cases hx : x = k
  · simp only [hx, if_true] at hw ⊢
    cases hw; exact ⟨S, rfl, hc⟩
  · simp only [hx, if_false] at hw ⊢
    exact h x w hw

theorem relV_join_left {κ : Type} {a b : κ → Option ASet} {c : κ → Option CVal}
    (h : ∀ x, RelV (a x) (c x)) : ∀ x, RelV (joinMap a b x) (c x) := by
  intro x w hw
  obtain ⟨S, hS, hc⟩ := h x w hw
  unfold joinMap
  rw [hS]
  cases hb : b x with
  | none => exact ⟨S, rfl, hc⟩
  | some B => exact ⟨union S B, rfl, covers_union_left hc⟩

theorem relV_join_right {κ : Type} {a b : κ → Option ASet} {c : κ → Option CVal}
    (h : ∀ x, RelV (b x) (c x)) : ∀ x, RelV (joinMap a b x) (c x) := by
  intro x w hw
  obtain ⟨S, hS, hc⟩ := h x w hw
  unfold joinMap
  rw [hS]
  cases ha : a x with
  | none => exact ⟨S, rfl, hc⟩
  | some A => exact ⟨union A S, rfl, covers_union_right hc⟩

theorem rel_get {σ : AEnv} {ρ : CEnv} (h : Rel σ ρ) {x : Var} {v : CVal} (hv : ρ.get x = some v) :
    covers (σ.get x) v := by
  obtain ⟨S, hS, hc⟩ := h.1 x v hv
  unfold AEnv.get; rw [hS]; exact hc

theorem rel_evalOpnd {σ : AEnv} {ρ : CEnv} (h : Rel σ ρ) {a : Opnd} {v : CVal} (hv : evalC ρ a = some v) :
    covers (evalOpnd σ a) v := by
  cases a with
  | var x => exact rel_get h hv
  | const c =>
    simp only [evalC, Option.some.injEq] at hv
    subst hv
    exact Or.inr (List.mem_singleton.2 rfl)

theorem rel_set {σ : AEnv} {ρ : CEnv} (h : Rel σ ρ) {x : Var} {S : ASet} {v : CVal} (hc : covers S v) :
    Rel (σ.set x S) (ρ.set x v) :=
  ⟨relV_upd h.1 hc, h.2⟩


/-- what a run logs is covered by what the abstract execution logs under the same key. -/
def LogCovered (alog : Log) (clog : CLog) : Prop := ∀ kv ∈ clog, ∃ A, (kv.1, A) ∈ alog ∧ covers A kv.2

theorem logCovered_append {a1 a2 : Log} {c1 c2 : CLog} (h1 : LogCovered a1 c1) (h2 : LogCovered a2 c2) :
    LogCovered (a1 ++ a2) (c1 ++ c2) := by
  intro kv hkv
  rcases List.mem_append.1 hkv with h | h
  · obtain ⟨A, hA, hc⟩ := h1 kv h; exact ⟨A, List.mem_append.2 (Or.inl hA), hc⟩
  · obtain ⟨A, hA, hc⟩ := h2 kv h; exact ⟨A, List.mem_append.2 (Or.inr hA), hc⟩

theorem logCovered_mono_left {a1 a2 : Log} {c : CLog} (h : LogCovered a1 c) : LogCovered (a1 ++ a2) c := by
  intro kv hkv; obtain ⟨A, hA, hc⟩ := h kv hkv; exact ⟨A, List.mem_append.2 (Or.inl hA), hc⟩

theorem logCovered_mono_right {a1 a2 : Log} {c : CLog} (h : LogCovered a2 c) : LogCovered (a1 ++ a2) c := by
  intro kv hkv; obtain ⟨A, hA, hc⟩ := h kv hkv; exact ⟨A, List.mem_append.2 (Or.inr hA), hc⟩

theorem logCovered_single {k : Key} {A : ASet} {v : CVal} (hc : covers A v) : LogCovered [(k, A)] [(k, v)] := by
  intro kv hkv
  rw [List.mem_singleton] at hkv; subst hkv
  exact ⟨A, List.mem_singleton.2 rfl, hc⟩


/-! ### helper lemmas for objects and calls -/

theorem relV_initFields {k : Site} {A : ASet} {va : CVal} {ha : Site × String → Option ASet}
    {hc : Site × String → Option CVal} (h : ∀ x, RelV (ha x) (hc x)) (hcov : covers A va) :
    ∀ (fs : List (String × Option PyVal)) x, RelV (initFields k A ha fs x) (initFieldsC k va hc fs x) := by
  intro fs
  induction fs with
  | nil => exact h
  | cons fd rest ih =>
    obtain ⟨f, c⟩ := fd
    cases c with
    | none => exact relV_upd ih hcov
    | some c => exact relV_upd ih (Or.inr (List.mem_singleton.2 rfl))

theorem covers_readAll {heap : Site × String → Option ASet} {f : String} {s : Site} {v : CVal}
    (hc : covers ((heap (s, f)).getD [.unknown]) v) :
    ∀ (sites : List Site), s ∈ sites → covers (readAll heap f sites) v := by
  intro sites
  induction sites with
  | nil => intro h; exact absurd h (List.not_mem_nil)
  | cons t ts ih =>
    intro h
    simp only [readAll]
    rcases List.mem_cons.1 h with rfl | h
    · exact covers_union_left hc
    · exact covers_union_right (ih h)

theorem mem_sitesOf {A : ASet} {s : Site} : AVal.obj s ∈ A → s ∈ sitesOf A := by
  intro h
  unfold sitesOf
  exact List.mem_filterMap.2 ⟨_, h, rfl⟩

theorem hasNonObj_of_unknown {A : ASet} : AVal.unknown ∈ A → hasNonObj A = true := by
  intro h
  unfold hasNonObj
  exact List.any_eq_true.2 ⟨_, h, rfl⟩

/-- helper bodies: local environments and logs stay related. -/
theorem sound_execH (ab : ABin) (hab : ABinSound ab) :
    ∀ (body : List HStmt) (env : Var → Option ASet) (envC : Var → Option CVal) (log : Log) (logC : CLog)
      (env' : Var → Option ASet) (log' : Log) (envC' : Var → Option CVal) (logC' : CLog),
      (∀ y, RelV (env y) (envC y)) → LogCovered log logC →
      execH ab body env log = some (env', log') → execHC body envC logC = some (envC', logC') →
      (∀ y, RelV (env' y) (envC' y)) ∧ LogCovered log' logC' := by
  intro body
  induction body with
  | nil =>
    intro env envC log logC env' log' envC' logC' hr hl he hc
    simp only [execH, Option.some.injEq, Prod.mk.injEq] at he
    simp only [execHC, Option.some.injEq, Prod.mk.injEq] at hc
    obtain ⟨rfl, rfl⟩ := he; obtain ⟨rfl, rfl⟩ := hc
    exact ⟨hr, hl⟩
  | cons st rest ih =>
    intro env envC log logC env' log' envC' logC' hr hl he hc
    cases st with
    | const k x c =>
      simp only [execH] at he
      simp only [execHC] at hc
      have hcov : covers [AVal.const c] (CVal.prim c) := Or.inr (List.mem_singleton.2 rfl)
      exact ih _ _ _ _ _ _ _ _ (relV_upd hr hcov) (logCovered_append hl (logCovered_single hcov)) he hc
    | bin k x op a b =>
      simp only [execH] at he
      simp only [execHC] at hc
      have hop : ∀ (o : Opnd) (v : CVal), evalHC envC o = some v → covers (evalH env o) v := by
        intro o v hv
        cases o with
        | var y =>
          obtain ⟨S, hS, hcv⟩ := hr y v hv
          simp only [evalH, hS, Option.getD]; exact hcv
        | const c =>
          simp only [evalHC, Option.some.injEq] at hv; subst hv
          exact Or.inr (List.mem_singleton.2 rfl)
      cases hva : evalHC envC a with
      | none => simp [hva] at hc
      | some va =>
        cases hvb : evalHC envC b with
        | none => simp [hva, hvb] at hc
        | some vb =>
          cases hv : cBin op va vb with
          | none => simp [hva, hvb, hv] at hc
          | some v =>
            simp only [hva, hvb, hv] at hc
            cases hr0 : ab op (evalH env a) (evalH env b) with
            | none => simp [hr0] at he
            | some res =>
              simp only [hr0] at he
              have hcov := hab op _ _ res va vb v hr0 (hop a va hva) (hop b vb hvb) hv
              exact ih _ _ _ _ _ _ _ _ (relV_upd hr hcov) (logCovered_append hl (logCovered_single hcov)) he hc

theorem sound_bindParams {σ : AEnv} {ρ : CEnv} (hrel : Rel σ ρ) :
    ∀ (ps : List (Key × Var)) (args : List Opnd) (vs : List CVal),
      allSome (args.map (evalC ρ)) = some vs →
      (∀ y, RelV ((bindParams ps (args.map (evalOpnd σ))).1 y) ((bindParamsC ps vs).1 y)) ∧
      LogCovered (bindParams ps (args.map (evalOpnd σ))).2 (bindParamsC ps vs).2 := by
  intro ps
  induction ps with
  | nil =>
    intro args vs _
    simp only [bindParams, bindParamsC]
    exact ⟨fun y c hc => by simp at hc, fun _ h => absurd h (List.not_mem_nil)⟩
  | cons kp ps ih =>
    intro args vs hs
    obtain ⟨k, p⟩ := kp
    cases args with
    | nil =>
      simp only [List.map, allSome, Option.some.injEq] at hs
      subst hs
      simp only [List.map, bindParams, bindParamsC]
      exact ⟨fun y c hc => by simp at hc, fun _ h => absurd h (List.not_mem_nil)⟩
    | cons a as =>
      simp only [List.map] at hs
      cases ha : evalC ρ a with
      | none => simp [ha, allSome] at hs
      | some va =>
        simp only [ha, allSome] at hs
        cases hrest : allSome (as.map (evalC ρ)) with
        | none => simp [hrest] at hs
        | some vs' =>
          simp only [hrest, Option.map, Option.some.injEq] at hs
          subst hs
          obtain ⟨ih1, ih2⟩ := ih as vs' hrest
          simp only [List.map, bindParams, bindParamsC]
          have hcov := rel_evalOpnd hrel ha
          refine ⟨relV_upd ih1 hcov, ?_⟩
          intro kv hkv
          rcases List.mem_cons.1 hkv with rfl | h
          · exact ⟨_, List.mem_cons_self .., hcov⟩
          · obtain ⟨A, hA, hc⟩ := ih2 kv h
            exact ⟨A, List.mem_cons_of_mem _ hA, hc⟩

/-- every field write of the abstract execution goes through a receiver that denotes exactly one object
(C09's "objects reached through a single allocation per variable"; without it the analyser's strong
update of every receiver state is unsound — `C08_multi_target_write_unsound`). -/
def WritesOK (ab : ABin) (P : Prog) : Prg → AEnv → Prop
  | .seq a b, σ => WritesOK ab P a σ ∧ ∀ σ1 l1, exec ab P a σ = some (σ1, l1) → WritesOK ab P b σ1
  | .ite _ t e, σ => WritesOK ab P t σ ∧ WritesOK ab P e σ
  | .fwrite o _ _, σ => ∃ s, σ.get o = [.obj s]
  | _, _ => True

theorem sound_exec (ab : ABin) (hab : ABinSound ab) (P : Prog) :
    ∀ (p : Prg) (σ : AEnv), WritesOK ab P p σ → ∀ (ρ : CEnv) (σ' : AEnv) (alog : Log),
      exec ab P p σ = some (σ', alog) → Rel σ ρ →
      ∀ r ∈ runs P p ρ, Rel σ' r.1 ∧ LogCovered alog r.2 := by
  intro p
  induction p with
  | skip =>
    intro σ _ ρ σ' alog he hrel r hr
    simp only [exec, Option.some.injEq, Prod.mk.injEq] at he
    simp only [runs, List.mem_singleton] at hr
    subst hr; obtain ⟨rfl, rfl⟩ := he
    exact ⟨hrel, fun _ h => absurd h (List.not_mem_nil)⟩
  | seq a b iha ihb =>
    intro σ hw ρ σ' alog he hrel r hr
    simp only [WritesOK] at hw
    simp only [exec] at he
    cases h1 : exec ab P a σ with
    | none => simp [h1] at he
    | some r1 =>
      obtain ⟨σ1, l1⟩ := r1
      simp only [h1] at he
      cases h2 : exec ab P b σ1 with
      | none => simp [h2] at he
      | some r2 =>
        obtain ⟨σ2, l2⟩ := r2
        simp only [h2, Option.some.injEq, Prod.mk.injEq] at he
        obtain ⟨rfl, rfl⟩ := he
        simp only [runs, List.mem_flatMap, List.mem_map] at hr
        obtain ⟨c1, hc1, c2, hc2, rfl⟩ := hr
        obtain ⟨hr1, hl1⟩ := iha σ hw.1 ρ σ1 l1 h1 hrel c1 hc1
        obtain ⟨hr2, hl2⟩ := ihb σ1 (hw.2 σ1 l1 h1) c1.1 σ2 l2 h2 hr1 c2 hc2
        exact ⟨hr2, logCovered_append hl1 hl2⟩
  | const k x c =>
    intro σ _ ρ σ' alog he hrel r hr
    simp only [exec, Option.some.injEq, Prod.mk.injEq] at he
    obtain ⟨rfl, rfl⟩ := he
    simp only [runs, stepC, Option.toList, List.mem_singleton] at hr
    subst hr
    have hcov : covers [AVal.const c] (CVal.prim c) := Or.inr (List.mem_singleton.2 rfl)
    exact ⟨rel_set hrel hcov, logCovered_single hcov⟩
  | copy k x y =>
    intro σ _ ρ σ' alog he hrel r hr
    simp only [exec, Option.some.injEq, Prod.mk.injEq] at he
    obtain ⟨rfl, rfl⟩ := he
    simp only [runs, stepC] at hr
    cases hy : ρ.get y with
    | none => simp [hy] at hr
    | some v =>
      simp only [hy, Option.map, Option.toList, List.mem_singleton] at hr
      subst hr
      have hcov := rel_get hrel hy
      exact ⟨rel_set hrel hcov, logCovered_single hcov⟩
  | bin k x op a b =>
    intro σ _ ρ σ' alog he hrel r hr
    simp only [exec] at he
    cases hr0 : ab op (evalOpnd σ a) (evalOpnd σ b) with
    | none => simp [hr0] at he
    | some res =>
      simp only [hr0, Option.some.injEq, Prod.mk.injEq] at he
      obtain ⟨rfl, rfl⟩ := he
      simp only [runs, stepC] at hr
      cases ha : evalC ρ a with
      | none => simp [ha] at hr
      | some va =>
        cases hb : evalC ρ b with
        | none => simp [ha, hb] at hr
        | some vb =>
          cases hv : cBin op va vb with
          | none => simp [ha, hb, hv] at hr
          | some v =>
            simp only [ha, hb, hv, Option.map, Option.toList, List.mem_singleton] at hr
            subst hr
            have hcov := hab op _ _ res va vb v hr0 (rel_evalOpnd hrel ha) (rel_evalOpnd hrel hb) hv
            exact ⟨rel_set hrel hcov, logCovered_single hcov⟩
  | ite i t e iht ihe =>
    intro σ hw ρ σ' alog he hrel r hr
    simp only [WritesOK] at hw
    simp only [exec] at he
    cases h1 : exec ab P t σ with
    | none => simp [h1] at he
    | some r1 =>
      obtain ⟨σ1, l1⟩ := r1
      cases h2 : exec ab P e σ with
      | none => simp [h1, h2] at he
      | some r2 =>
        obtain ⟨σ2, l2⟩ := r2
        simp only [h1, h2, Option.some.injEq, Prod.mk.injEq] at he
        obtain ⟨rfl, rfl⟩ := he
        simp only [runs, List.mem_append] at hr
        rcases hr with hr | hr
        · obtain ⟨hr1, hl1⟩ := iht σ hw.1 ρ σ1 l1 h1 hrel r hr
          exact ⟨⟨relV_join_left hr1.1, relV_join_left hr1.2⟩, logCovered_mono_left hl1⟩
        · obtain ⟨hr2, hl2⟩ := ihe σ hw.2 ρ σ2 l2 h2 hrel r hr
          exact ⟨⟨relV_join_right hr2.1, relV_join_right hr2.2⟩, logCovered_mono_right hl2⟩
  | new k x cls a =>
    intro σ _ ρ σ' alog he hrel r hr
    simp only [exec] at he
    simp only [runs, stepC] at hr
    cases hcls : P.classes.find? (fun c => c.name = cls) with
    | none => simp [hcls] at he
    | some c =>
      simp only [hcls, Option.some.injEq, Prod.mk.injEq] at he
      obtain ⟨rfl, rfl⟩ := he
      cases ha : evalC ρ a with
      | none => simp [hcls, ha] at hr
      | some va =>
        simp only [hcls, ha, Option.toList, List.mem_singleton] at hr
        subst hr
        have hcov : covers [AVal.obj k] (CVal.ref k) := Or.inr (List.mem_singleton.2 rfl)
        exact ⟨⟨relV_upd hrel.1 hcov, relV_initFields hrel.2 (rel_evalOpnd hrel ha) c.fields⟩, logCovered_single hcov⟩
  | fwrite o f a =>
    intro σ hw ρ σ' alog he hrel r hr
    simp only [WritesOK] at hw
    obtain ⟨s, hs⟩ := hw
    simp only [exec, Option.some.injEq, Prod.mk.injEq] at he
    obtain ⟨rfl, rfl⟩ := he
    simp only [runs, stepC] at hr
    cases ho : ρ.get o with
    | none => simp [ho] at hr
    | some vo =>
      cases vo with
      | prim pv => simp [ho] at hr
      | ref s' =>
        cases ha : evalC ρ a with
        | none => simp [ho, ha] at hr
        | some va =>
          simp only [ho, ha, Option.toList, List.mem_singleton] at hr
          subst hr
          have hco := rel_get hrel ho
          rw [hs] at hco
          have hss : s' = s := by
            rcases hco with hu | hv
            · simp at hu
            · simpa using hv
          subst hss
          refine ⟨⟨hrel.1, ?_⟩, fun _ h => absurd h (List.not_mem_nil)⟩
          simp only [hs, sitesOf, List.filterMap, writeAll]
          exact relV_upd hrel.2 (rel_evalOpnd hrel ha)
  | fread k x o f =>
    intro σ _ ρ σ' alog he hrel r hr
    simp only [exec, Option.some.injEq, Prod.mk.injEq] at he
    obtain ⟨rfl, rfl⟩ := he
    simp only [runs, stepC] at hr
    cases ho : ρ.get o with
    | none => simp [ho] at hr
    | some vo =>
      cases vo with
      | prim pv => simp [ho] at hr
      | ref s =>
        cases hf : ρ.heap (s, f) with
        | none => simp [ho, hf] at hr
        | some v =>
          simp only [ho, hf, Option.map, Option.toList, List.mem_singleton] at hr
          subst hr
          have hco := rel_get hrel ho
          have hcov : covers (if hasNonObj (σ.get o) then union (readAll σ.heap f (sitesOf (σ.get o))) [AVal.unknown]
              else readAll σ.heap f (sitesOf (σ.get o))) v := by
            rcases hco with hu | hv
            · rw [hasNonObj_of_unknown hu]
              exact Or.inl (mem_union.2 (Or.inr (List.mem_singleton.2 rfl)))
            · obtain ⟨S, hS, hc⟩ := hrel.2 (s, f) v hf
              have h1 : covers ((σ.heap (s, f)).getD [AVal.unknown]) v := by rw [hS]; exact hc
              have h2 := covers_readAll h1 _ (mem_sitesOf hv)
              split
              · exact covers_union_left h2
              · exact h2
          exact ⟨rel_set hrel hcov, logCovered_single hcov⟩
  | call k x h args =>
    intro σ _ ρ σ' alog he hrel r hr
    simp only [exec] at he
    simp only [runs, stepC] at hr
    cases hh : P.helpers.find? (fun hp => hp.name = h) with
    | none => simp [hh] at he
    | some hp =>
      simp only [hh] at he hr
      cases hvs : allSome (args.map (evalC ρ)) with
      | none => simp [hvs] at hr
      | some vs =>
        simp only [hvs] at hr
        obtain ⟨hb1, hb2⟩ := sound_bindParams hrel hp.params args vs hvs
        cases hA : execH ab hp.body (bindParams hp.params (args.map (evalOpnd σ))).1
            (bindParams hp.params (args.map (evalOpnd σ))).2 with
        | none => simp [hA] at he
        | some ra =>
          obtain ⟨env, hlog⟩ := ra
          simp only [hA, Option.some.injEq, Prod.mk.injEq] at he
          obtain ⟨rfl, rfl⟩ := he
          cases hC : execHC hp.body (bindParamsC hp.params vs).1 (bindParamsC hp.params vs).2 with
          | none => simp [hC] at hr
          | some rc =>
            obtain ⟨envC, hlogC⟩ := rc
            simp only [hC] at hr
            cases hret : envC hp.ret with
            | none => simp [hret] at hr
            | some rv =>
              simp only [hret, Option.map, Option.toList, List.mem_singleton] at hr
              subst hr
              obtain ⟨he1, he2⟩ := sound_execH ab hab hp.body _ _ _ _ _ _ _ _ hb1 hb2 hA hC
              obtain ⟨S, hS, hc⟩ := he1 hp.ret rv hret
              have hcov : covers ((env hp.ret).getD [AVal.unknown]) rv := by rw [hS]; exact hc
              exact ⟨rel_set hrel hcov, logCovered_append he2 (logCovered_single hcov)⟩

/-! ### merging the log -/

theorem mem_keysDedup {k : Key} : ∀ (l : List Key), k ∈ l → k ∈ keysDedup l := by
  intro l
  induction l with
  | nil => intro h; exact h
  | cons a as ih =>
    intro h
    simp only [keysDedup]
    rcases List.mem_cons.1 h with rfl | h
    · split
      · rename_i hc; exact ih (List.contains_iff_mem.1 hc)
      · exact List.mem_cons_self ..
    · split
      · exact ih h
      · exact List.mem_cons_of_mem _ (ih h)

theorem subset_unionAll {A : ASet} : ∀ (l : List ASet), A ∈ l → ∀ a ∈ A, a ∈ unionAll l := by
  intro l
  induction l with
  | nil => intro h; exact absurd h (List.not_mem_nil)
  | cons B rest ih =>
    intro h a ha
    simp only [unionAll]
    rcases List.mem_cons.1 h with rfl | h
    · exact mem_union.2 (Or.inl ha)
    · exact mem_union.2 (Or.inr (ih h a ha))

theorem mem_mergeLog {log : Log} {k : Key} {A : ASet} (h : (k, A) ∈ log) :
    ∃ A', (k, A') ∈ mergeLog log ∧ ∀ a ∈ A, a ∈ A' := by
  refine ⟨unionAll ((log.filter (fun p => p.1 = k)).map (·.2)), ?_, ?_⟩
  · unfold mergeLog
    refine List.mem_map.2 ⟨k, mem_keysDedup _ (List.mem_map.2 ⟨(k, A), h, rfl⟩), rfl⟩
  · apply subset_unionAll
    exact List.mem_map.2 ⟨(k, A), List.mem_filter.2 ⟨h, by simp⟩, rfl⟩


end LianVerif.ArefProofs
