/-
Soundness of the local successor check: if every required edge (`req`) is in a relation `R`, every
control-skeleton run (`exec`) is an `R`-chain whose last step is `R`-linked to what follows.
-/
import LianVerif.Spec.Ctl

namespace LianVerif.Cfg

/-! ### chains with an optional predecessor -/

section chain
variable (R : Int → Int → Prop)

def linkO : Option Int → Int → Prop
  | none, _ => True
  | some a, b => R a b

def chainO : Option Int → List Int → Prop
  | _, [] => True
  | a, x :: xs => linkO R a x ∧ chainO (some x) xs

def lastO : Option Int → List Int → Option Int
  | a, [] => a
  | _, x :: xs => lastO (some x) xs

theorem lastO_append (a : Option Int) (t1 t2 : List Int) :
    lastO a (t1 ++ t2) = lastO (lastO a t1) t2 := by
  induction t1 generalizing a with
  | nil => rfl
  | cons x xs ih => simp [lastO, ih]

theorem chainO_append (a : Option Int) (t1 t2 : List Int) :
    chainO R a (t1 ++ t2) ↔ chainO R a t1 ∧ chainO R (lastO a t1) t2 := by
  induction t1 generalizing a with
  | nil => simp [chainO, lastO]
  | cons x xs ih => simp [chainO, lastO, ih, and_assoc]

/-- what a run must satisfy relative to the continuation sets `k`, started after `a` -/
def Post (a : Option Int) (r : Res) (k : K) : Prop :=
  chainO R a r.tr ∧
    match r.out with
    | .normal => ∀ j ∈ k.nxt, linkO R (lastO a r.tr) j
    | .brk => ∀ j ∈ k.brk, linkO R (lastO a r.tr) j
    | .cont => ∀ j ∈ k.cnt, linkO R (lastO a r.tr) j
    | .ret => linkO R (lastO a r.tr) (-1)
    | .raise => ∀ j ∈ k.exc, linkO R (lastO a r.tr) j
    | .stop => True

theorem post_stop (a : Option Int) (o : List Bool) (k : K) : Post R a (stopRes o) k := by
  simp [Post, stopRes, chainO]

theorem post_nil (a : Option Int) (o : List Bool) (k : K) (h : ∀ j ∈ k.nxt, linkO R a j) :
    Post R a ⟨[], .normal, o⟩ k := by
  simp only [Post, chainO, lastO, true_and]
  exact h

/-- sequencing -/
theorem post_bind {a : Option Int} {r : Res} {f : List Bool → Res} {k1 k : K}
    (h1 : Post R a r k1) (hb : r.out = .brk → k1.brk = k.brk) (hc : r.out = .cont → k1.cnt = k.cnt)
    (he : r.out = .raise → k1.exc = k.exc)
    (h2 : r.out = .normal → (∀ j ∈ k1.nxt, linkO R (lastO a r.tr) j) →
      Post R (lastO a r.tr) (f r.o) k) :
    Post R a (r.bind f) k := by
  obtain ⟨hch, hout⟩ := h1
  unfold Res.bind
  cases hr : r.out with
  | normal =>
    simp only [hr] at hout ⊢
    obtain ⟨hch2, hout2⟩ := h2 hr hout
    refine ⟨(chainO_append R a _ _).2 ⟨hch, hch2⟩, ?_⟩
    simp only [lastO_append]
    exact hout2
  | brk => simp only [hr] at hout ⊢; exact ⟨hch, by simpa [hr, hb hr] using hout⟩
  | cont => simp only [hr] at hout ⊢; exact ⟨hch, by simpa [hr, hc hr] using hout⟩
  | ret => simp only [hr] at hout ⊢; exact ⟨hch, by simpa [hr] using hout⟩
  | raise => simp only [hr] at hout ⊢; exact ⟨hch, by simpa [hr, he hr] using hout⟩
  | stop => simp only [hr] at hout ⊢; exact ⟨hch, by simp [hr]⟩

/-- same run, other continuation sets: only the set of the actual outcome matters -/
theorem post_cast {a : Option Int} {r : Res} {k1 k : K} (h1 : Post R a r k1)
    (hn : r.out = .normal → ∀ j ∈ k.nxt, j ∈ k1.nxt) (hb : r.out = .brk → ∀ j ∈ k.brk, j ∈ k1.brk)
    (hc : r.out = .cont → ∀ j ∈ k.cnt, j ∈ k1.cnt) (he : r.out = .raise → ∀ j ∈ k.exc, j ∈ k1.exc) :
    Post R a r k := by
  obtain ⟨hch, hout⟩ := h1
  refine ⟨hch, ?_⟩
  cases hr : r.out <;> simp only [hr] at hout ⊢
  · exact fun j hj => hout j (hn hr j hj)
  · exact fun j hj => hout j (hb hr j hj)
  · exact fun j hj => hout j (hc hr j hj)
  · exact hout
  · exact fun j hj => hout j (he hr j hj)

/-- an abrupt outcome turned into normal completion towards its own target set -/
theorem post_norm {a : Option Int} {r : Res} {k1 : K} (h1 : Post R a r k1) (tgt : List Int)
    (h : match r.out with
      | .normal => tgt = k1.nxt | .brk => tgt = k1.brk | .cont => tgt = k1.cnt | .raise => tgt = k1.exc
      | _ => False) (k : K) (hk : k.nxt = tgt) : Post R a r.norm k := by
  obtain ⟨hch, hout⟩ := h1
  refine ⟨hch, ?_⟩
  simp only [Res.norm, hk]
  cases hr : r.out <;> simp only [hr] at hout h <;> first | (subst h; exact hout) | exact h.elim

/-- the continuation after a loop body -/
theorem post_afterBody {a : Option Int} {rb : Res} {again exit : List Bool → Res} {kb k : K}
    (hb : Post R a rb kb) (he : kb.exc = k.exc) (hcn : kb.cnt = kb.nxt)
    (hagain : ∀ a' o', (∀ j ∈ kb.nxt, linkO R a' j) → Post R a' (again o') k)
    (hexit : ∀ a' o', (∀ j ∈ kb.brk, linkO R a' j) → Post R a' (exit o') k) :
    Post R a (afterBody rb again exit) k := by
  unfold afterBody
  cases hr : rb.out with
  | normal =>
    simp only
    refine post_bind R (k1 := ⟨kb.nxt, k.brk, k.cnt, k.exc⟩)
      (post_norm R hb kb.nxt (by simp [hr]) _ rfl) (fun _ => rfl) (fun _ => rfl) (fun _ => rfl) ?_
    intro _ hl; exact hagain _ _ hl
  | cont =>
    simp only
    refine post_bind R (k1 := ⟨kb.nxt, k.brk, k.cnt, k.exc⟩)
      (post_norm R hb kb.nxt (by simp [hr, hcn]) _ rfl) (fun _ => rfl) (fun _ => rfl) (fun _ => rfl) ?_
    intro _ hl; exact hagain _ _ hl
  | brk =>
    simp only
    refine post_bind R (k1 := ⟨kb.brk, k.brk, k.cnt, k.exc⟩)
      (post_norm R hb kb.brk (by simp [hr]) _ rfl) (fun _ => rfl) (fun _ => rfl) (fun _ => rfl) ?_
    intro _ hl; exact hexit _ _ hl
  | ret =>
    simp only
    exact post_cast R hb (by simp [hr]) (by simp [hr]) (by simp [hr]) (by simp [hr])
  | raise =>
    simp only
    exact post_cast R hb (by simp [hr]) (by simp [hr]) (by simp [hr]) (fun _ j hj => he ▸ hj)
  | stop =>
    simp only
    exact post_cast R hb (by simp [hr]) (by simp [hr]) (by simp [hr]) (by simp [hr])

theorem tick_tr (rz : Bool) (id : Nat) (o : List Bool) : (tick rz id o).tr = [(id : Int)] := by
  unfold tick
  cases rz <;> simp
  cases o with
  | nil => rfl
  | cons b o' => cases b <;> rfl

/-- a step that may raise -/
theorem post_tick {a : Option Int} (rz : Bool) (id : Nat) (o : List Bool) (k : K)
    (ha : linkO R a id) (hn : ∀ j ∈ k.nxt, R id j) (he : rz = true → ∀ j ∈ k.exc, R id j) :
    Post R a (tick rz id o) k := by
  unfold tick
  cases rz with
  | false => simp only [Post, chainO, lastO]; exact ⟨⟨ha, trivial⟩, hn⟩
  | true =>
    simp only [if_true]
    cases o with
    | nil => simp only [Post, chainO, lastO]; exact ⟨⟨ha, trivial⟩, trivial⟩
    | cons b o' =>
      cases b
      · simp only [Post, chainO, lastO]; exact ⟨⟨ha, trivial⟩, hn⟩
      · simp only [Post, chainO, lastO]; exact ⟨⟨ha, trivial⟩, he rfl⟩

theorem post_step {a : Option Int} (id : Nat) (o : List Bool) (k : K)
    (ha : linkO R a id) (hn : ∀ j ∈ k.nxt, R id j) : Post R a (step id o) k := by
  simp only [step, Post, chainO, lastO]; exact ⟨⟨ha, trivial⟩, hn⟩

end chain

/-! ### membership facts about `node` / `edgesFrom` -/

theorem mem_edgesFrom {id : Nat} {succs : List Int} {j : Int} (h : j ∈ succs) :
    ((id : Int), j) ∈ edgesFrom id succs := by
  unfold edgesFrom
  exact List.mem_map.2 ⟨j, h, rfl⟩

theorem mem_node_succ {rz : Bool} {k : K} {id : Nat} {succs : List Int} {j : Int} (h : j ∈ succs) :
    ((id : Int), j) ∈ node rz k id succs := by
  unfold node
  exact List.mem_append.2 (Or.inl (mem_edgesFrom h))

theorem mem_node_exc {k : K} {id : Nat} {succs : List Int} {j : Int} (h : j ∈ k.exc) :
    ((id : Int), j) ∈ node true k id succs := by
  unfold node
  exact List.mem_append.2 (Or.inr (by simpa using mem_edgesFrom h))

/-! ### the main lemma -/

def Holds (R : Int → Int → Prop) (l : List (Int × Int)) : Prop := ∀ e ∈ l, R e.1 e.2

theorem holds_append {R : Int → Int → Prop} {l1 l2 : List (Int × Int)} :
    Holds R (l1 ++ l2) ↔ Holds R l1 ∧ Holds R l2 := by
  unfold Holds
  constructor
  · intro h
    exact ⟨fun e he => h e (List.mem_append.2 (Or.inl he)), fun e he => h e (List.mem_append.2 (Or.inr he))⟩
  · rintro ⟨h1, h2⟩ e he
    rcases List.mem_append.1 he with he | he
    · exact h1 e he
    · exact h2 e he

theorem holds_nil {R : Int → Int → Prop} : Holds R [] := by
  intro e he; cases he

theorem pick_some {R : Int → Int → Prop} {cs suf : S} {o o' : List Bool} (h : pick cs o = some (some suf, o')) :
    isCase suf = true ∧ (∀ j ∈ (caseIds suf).head?, j ∈ caseIds cs) ∧
      ∀ rz ft K, Holds R (req.reqCases rz ft cs K) → Holds R (req.reqCases rz ft suf K) := by
  induction cs generalizing o with
  | caseS cid d body more _ ihm =>
    unfold pick at h
    cases d with
    | true =>
      simp only [if_true] at h
      obtain ⟨h1, h2, h3⟩ := ihm h
      refine ⟨h1, fun j hj => by simp [caseIds, h2 j hj], ?_⟩
      intro rz ft K hh
      simp only [req.reqCases, holds_append] at hh
      exact h3 rz ft K hh.2
    | false =>
      simp only [Bool.false_eq_true, if_false] at h
      cases o with
      | nil => simp at h
      | cons b o1 =>
        cases b with
        | true =>
          simp only [Option.some.injEq, Prod.mk.injEq] at h
          obtain ⟨h1, _⟩ := h
          subst h1
          exact ⟨rfl, by simp [caseIds], fun _ _ _ hh => hh⟩
        | false =>
          simp only at h
          obtain ⟨h1, h2, h3⟩ := ihm h
          refine ⟨h1, fun j hj => by simp [caseIds, h2 j hj], ?_⟩
          intro rz ft K hh
          simp only [req.reqCases, holds_append] at hh
          exact h3 rz ft K hh.2
  | _ => simp [pick] at h

theorem dflt_some {R : Int → Int → Prop} {cs suf : S} (h : dfltSuffix cs = some suf) :
    isCase suf = true ∧ (∀ j ∈ (caseIds suf).head?, j ∈ caseIds cs) ∧
      ∀ rz ft K, Holds R (req.reqCases rz ft cs K) → Holds R (req.reqCases rz ft suf K) := by
  induction cs with
  | caseS cid d body more _ ihm =>
    unfold dfltSuffix at h
    cases d with
    | true =>
      simp only [if_true, Option.some.injEq] at h
      subst h
      exact ⟨rfl, by simp [caseIds], fun _ _ _ hh => hh⟩
    | false =>
      simp only [Bool.false_eq_true, if_false] at h
      obtain ⟨h1, h2, h3⟩ := ihm h
      refine ⟨h1, fun j hj => by simp [caseIds, h2 j hj], ?_⟩
      intro rz ft K hh
      simp only [req.reqCases, holds_append] at hh
      exact h3 rz ft K hh.2
  | _ => simp [dfltSuffix] at h

theorem dflt_none {cs : S} (h : dfltSuffix cs = none) : hasDefault cs = false := by
  induction cs with
  | caseS cid d body more _ ihm =>
    unfold dfltSuffix at h
    cases d with
    | true => simp at h
    | false =>
      simp only [Bool.false_eq_true, if_false] at h
      simp [hasDefault, ihm h]
  | _ => simp [hasDefault]

section
variable (R : Int → Int → Prop)

/-- a step with its required out-edges, then a continuation -/
theorem post_node_bind {a : Option Int} {rz : Bool} {id : Nat} {o : List Bool} {k : K}
    {succs : List Int} {f : List Bool → Res} (ha : linkO R a id)
    (hnode : Holds R (node rz k id succs)) (hf : ∀ o', Post R (some (id : Int)) (f o') k) :
    Post R a ((tick rz id o).bind f) k := by
  refine post_bind R (k1 := ⟨succs, k.brk, k.cnt, k.exc⟩) ?_ (fun _ => rfl) (fun _ => rfl) (fun _ => rfl) ?_
  · refine post_tick R rz id o _ ha (fun j hj => hnode _ (mem_node_succ hj)) ?_
    intro hrz j hj
    subst hrz
    exact hnode _ (mem_node_exc hj)
  · intro _ _
    rw [tick_tr]
    exact hf _

theorem post_step_bind {a : Option Int} {id : Nat} {o : List Bool} {k : K}
    {succs : List Int} {f : List Bool → Res} (ha : linkO R a id)
    (hnode : Holds R (edgesFrom id succs)) (hf : ∀ o', Post R (some (id : Int)) (f o') k) :
    Post R a ((step id o).bind f) k := by
  refine post_bind R (k1 := ⟨succs, k.brk, k.cnt, k.exc⟩) ?_ (fun _ => rfl) (fun _ => rfl) (fun _ => rfl) ?_
  · exact post_step R id o _ ha (fun j hj => hnode _ (mem_edgesFrom hj))
  · intro _ _
    exact hf _

theorem bind_pure (o : List Bool) (f : List Bool → Res) : (⟨[], .normal, o⟩ : Res).bind f = f o := by
  simp [Res.bind]

theorem choose_false {ct : Bool} {o o' : List Bool} (h : choose ct o = some (false, o')) : ct = false := by
  unfold choose at h
  cases ct with
  | false => rfl
  | true => simp at h

def StmtOk (n : Nat) : Prop :=
  ∀ rz s k o a, Holds R (req rz s k) → (∀ j ∈ first s k.nxt, linkO R a j) →
    Post R a (exec n .stmt rz s o) k

def CatchOk (n : Nat) : Prop :=
  ∀ rz s k o a, isClause s = true → Holds R (req.reqCatch rz s k) → (∀ j ∈ clauseIds s, linkO R a j) →
    Post R a (exec n .catch rz s o) k

def FallOk (n : Nat) : Prop :=
  ∀ rz ft jmp s k o a, Holds R (req.reqCases rz ft s k) →
    (if jmp then isCase s = true ∧ ∀ j ∈ (caseIds s).head?, linkO R a j
     else ∀ j ∈ fallFirst ft s k.nxt, linkO R a j) →
    Post R a (exec n (.fall ft jmp) rz s o) k

theorem stmt_succ (n : Nat) (ih : StmtOk R n) (ihC : CatchOk R n) (ihF : FallOk R n) : StmtOk R (n + 1) := by
  intro rz s k o a hreq hfirst
  cases s with
  | nil => exact post_nil R a o k (by simpa [first] using hfirst)
  | clause cid body more => exact post_nil R a o k (by simpa [first] using hfirst)
  | caseS cid d body more => exact post_nil R a o k (by simpa [first] using hfirst)
  | simple id rest =>
    simp only [exec]
    simp only [req, holds_append] at hreq
    obtain ⟨hnode, hrest⟩ := hreq
    have ha : linkO R a id := hfirst id (by simp [first])
    exact post_node_bind R ha hnode
      (fun o' => ih rz rest k o' _ hrest (fun j hj => hnode _ (mem_node_succ hj)))
  | decl id rest =>
    simp only [exec]
    simp only [req, holds_append] at hreq
    obtain ⟨hnode, hrest⟩ := hreq
    have ha : linkO R a id := hfirst id (by simp [first])
    exact post_node_bind R ha hnode
      (fun o' => ih rz rest k o' _ hrest (fun j hj => hnode _ (mem_node_succ hj)))
  | ifS id thn els rest =>
    simp only [exec]
    simp only [req, holds_append] at hreq
    obtain ⟨⟨⟨hnode, hthn⟩, hels⟩, hrest⟩ := hreq
    have ha : linkO R a id := hfirst id (by simp [first])
    refine post_node_bind R ha hnode ?_
    intro o'
    cases o' with
    | nil => exact post_stop R _ _ _
    | cons b o'' =>
      simp only
      cases b with
      | true =>
        refine post_bind R (ih rz thn _ o'' _ hthn ?_) (fun _ => rfl) (fun _ => rfl) (fun _ => rfl) ?_
        · intro j hj; exact hnode _ (mem_node_succ (List.mem_append.2 (Or.inl hj)))
        · intro _ hl; exact ih rz rest k _ _ hrest hl
      | false =>
        refine post_bind R (ih rz els _ o'' _ hels ?_) (fun _ => rfl) (fun _ => rfl) (fun _ => rfl) ?_
        · intro j hj; exact hnode _ (mem_node_succ (List.mem_append.2 (Or.inr hj)))
        · intro _ hl; exact ih rz rest k _ _ hrest hl
  | whileS id ct pre body els rest =>
    have hreq0 := hreq
    simp only [exec]
    simp only [req, holds_append] at hreq
    obtain ⟨⟨⟨⟨hpre, hnode⟩, hbody⟩, hels⟩, hrest⟩ := hreq
    simp only [first] at hfirst
    refine post_bind R (ih rz pre _ o a hpre hfirst) (fun _ => rfl) (fun _ => rfl) (fun _ => rfl) ?_
    intro _ hl
    have ha : linkO R (lastO a (exec n Mode.stmt rz pre o).tr) id := hl id (by simp)
    refine post_node_bind R ha hnode ?_
    intro o'
    cases hch : choose ct o' with
    | none => exact post_stop R _ _ _
    | some p =>
      obtain ⟨b, o''⟩ := p
      cases b with
      | true =>
        simp only
        refine post_afterBody R (ih rz body _ o'' _ hbody ?_) rfl rfl ?_ ?_
        · intro j hj; exact hnode _ (mem_node_succ (List.mem_append.2 (Or.inl hj)))
        · intro a' o3 hl'
          exact ih rz _ k o3 a' hreq0 (by simpa [first] using hl')
        · intro a' o3 hl'
          exact ih rz rest k o3 a' hrest hl'
      | false =>
        simp only
        have hct := choose_false hch
        subst hct
        refine post_bind R (ih rz els _ o'' _ hels ?_) (fun _ => rfl) (fun _ => rfl) (fun _ => rfl) ?_
        · intro j hj; exact hnode _ (mem_node_succ (List.mem_append.2 (Or.inr (by simpa using hj))))
        · intro _ hl'; exact ih rz rest k _ _ hrest hl'
  | doS id ct body pre rest =>
    have hreq0 := hreq
    simp only [exec]
    simp only [req, holds_append] at hreq
    obtain ⟨⟨⟨hbody, hpre⟩, hnode⟩, hrest⟩ := hreq
    simp only [first] at hfirst
    refine post_afterBody R (ih rz body _ o a hbody hfirst) rfl rfl ?_ ?_
    · intro a' o1 hl
      refine post_bind R (ih rz pre _ o1 a' hpre hl) (fun _ => rfl) (fun _ => rfl) (fun _ => rfl) ?_
      intro _ hl2
      have ha : linkO R (lastO a' (exec n Mode.stmt rz pre o1).tr) id := hl2 id (by simp)
      refine post_node_bind R ha hnode ?_
      intro o'
      cases hch : choose ct o' with
      | none => exact post_stop R _ _ _
      | some p =>
        obtain ⟨b, o''⟩ := p
        cases b with
        | true =>
          simp only
          refine ih rz _ k o'' _ hreq0 ?_
          intro j hj
          simp only [first] at hj
          exact hnode _ (mem_node_succ (List.mem_append.2 (Or.inl hj)))
        | false =>
          simp only
          have hct := choose_false hch
          subst hct
          refine ih rz rest k o'' _ hrest ?_
          intro j hj
          exact hnode _ (mem_node_succ (List.mem_append.2 (Or.inr (by simpa using hj))))
    · intro a' o1 hl
      exact ih rz rest k o1 a' hrest hl
  | forS id ct init pre upd body rest =>
    simp only [exec]
    simp only [req, holds_append] at hreq
    obtain ⟨⟨⟨⟨⟨hinit, hpre⟩, hnode⟩, hbody⟩, hupd⟩, hrest⟩ := hreq
    have hreq' : Holds R (req rz (S.forS id ct S.nil pre upd body rest) k) := by
      simp only [req, holds_append]
      exact ⟨⟨⟨⟨⟨holds_nil, hpre⟩, hnode⟩, hbody⟩, hupd⟩, hrest⟩
    simp only [first] at hfirst
    refine post_bind R (ih rz init _ o a hinit hfirst) (fun _ => rfl) (fun _ => rfl) (fun _ => rfl) ?_
    intro _ hl0
    refine post_bind R (ih rz pre _ _ _ hpre hl0) (fun _ => rfl) (fun _ => rfl) (fun _ => rfl) ?_
    intro _ hl
    refine post_node_bind R (hl id (by simp)) hnode ?_
    intro o'
    cases hch : choose ct o' with
    | none => exact post_stop R _ _ _
    | some p =>
      obtain ⟨b, o''⟩ := p
      cases b with
      | true =>
        simp only
        refine post_afterBody R (ih rz body _ o'' _ hbody ?_) rfl rfl ?_ ?_
        · intro j hj; exact hnode _ (mem_node_succ (List.mem_append.2 (Or.inl hj)))
        · intro a' o3 hl'
          refine post_bind R (ih rz upd _ o3 a' hupd hl') (fun _ => rfl) (fun _ => rfl) (fun _ => rfl) ?_
          intro _ hl2
          exact ih rz _ k _ _ hreq' (by simpa [first] using hl2)
        · intro a' o3 hl'
          exact ih rz rest k o3 a' hrest hl'
      | false =>
        simp only
        have hct := choose_false hch
        subst hct
        refine ih rz rest k o'' _ hrest ?_
        intro j hj
        exact hnode _ (mem_node_succ (List.mem_append.2 (Or.inr (by simpa using hj))))
  | brk id rest =>
    simp only [exec, req] at hreq ⊢
    refine ⟨⟨hfirst id (by simp [first]), trivial⟩, ?_⟩
    intro j hj
    exact hreq _ (mem_edgesFrom hj)
  | cont id rest =>
    simp only [exec, req] at hreq ⊢
    refine ⟨⟨hfirst id (by simp [first]), trivial⟩, ?_⟩
    intro j hj
    exact hreq _ (mem_edgesFrom hj)
  | ret id rest =>
    simp only [exec, req] at hreq ⊢
    refine ⟨⟨hfirst id (by simp [first]), trivial⟩, ?_⟩
    exact hreq ((id : Int), -1) (by simp)
  | classS id flds sinit init methods nested rest =>
    simp only [exec]
    simp only [req, holds_append] at hreq
    obtain ⟨⟨⟨⟨⟨hnode, hsinit⟩, hinit⟩, hmeth⟩, hnest⟩, hrest⟩ := hreq
    have ha : linkO R a id := hfirst id (by simp [first])
    refine post_node_bind R ha hnode ?_
    intro o1
    refine post_bind R (ih rz sinit _ o1 _ hsinit (fun j hj => hnode _ (mem_node_succ hj)))
      (fun _ => rfl) (fun _ => rfl) (fun _ => rfl) ?_
    intro _ hl1
    refine post_bind R (ih rz init _ _ _ hinit hl1) (fun _ => rfl) (fun _ => rfl) (fun _ => rfl) ?_
    intro _ hl2
    refine post_bind R (ih rz methods _ _ _ hmeth hl2) (fun _ => rfl) (fun _ => rfl) (fun _ => rfl) ?_
    intro _ hl3
    refine post_bind R (ih rz nested _ _ _ hnest hl3) (fun _ => rfl) (fun _ => rfl) (fun _ => rfl) ?_
    intro _ hl4
    exact ih rz rest k _ _ hrest hl4
  | tryS id body catches els fin rest =>
    simp only [exec]
    simp only [req, holds_append] at hreq
    obtain ⟨⟨⟨⟨⟨hid, hbody⟩, hcatch⟩, hels⟩, hfin⟩, hrest⟩ := hreq
    have ha : linkO R a id := hfirst id (by simp [first])
    refine post_step_bind R ha hid ?_
    intro o1
    have htail : ∀ a' o', (∀ j ∈ first fin (first rest k.nxt), linkO R a' j) →
        Post R a' ((exec n Mode.stmt rz fin o').bind (exec n Mode.stmt rz rest)) k := by
      intro a' o' hl
      refine post_bind R (ih rz fin _ o' a' hfin hl) (fun _ => rfl) (fun _ => rfl) (fun _ => rfl) ?_
      intro _ hl2
      exact ih rz rest k _ _ hrest hl2
    have hB := ih (rz || isClause catches) body _ o1 (some (id : Int)) hbody
      (fun j hj => hid _ (mem_edgesFrom hj))
    generalize exec n Mode.stmt (rz || isClause catches) body o1 = rb at hB ⊢
    cases hr : rb.out with
    | normal =>
      simp only
      refine post_bind R hB (by simp [hr]) (by simp [hr]) (by simp [hr]) ?_
      intro _ hl
      refine post_bind R (ih rz els _ _ _ hels hl) (fun _ => rfl) (fun _ => rfl) (fun _ => rfl) ?_
      intro _ hl2
      exact htail _ _ hl2
    | raise =>
      simp only
      cases hc : isClause catches with
      | true =>
        simp only [if_true]
        simp only [hc, if_true] at hB
        refine post_bind R (k1 := ⟨clauseIds catches, k.brk, k.cnt, k.exc⟩)
          (post_norm R hB (clauseIds catches) (by simp [hr]) _ rfl) (fun _ => rfl) (fun _ => rfl) (fun _ => rfl) ?_
        intro _ hl
        refine post_bind R (ihC rz catches _ _ _ hc hcatch hl) (fun _ => rfl) (fun _ => rfl) (fun _ => rfl) ?_
        intro _ hl2
        exact htail _ _ hl2
      | false =>
        simp only [Bool.false_eq_true, if_false]
        simp only [hc, Bool.false_eq_true, if_false] at hB
        exact post_cast R hB (by simp [hr]) (by simp [hr]) (by simp [hr]) (fun _ j hj => hj)
    | brk =>
      simp only
      exact post_cast R hB (by simp [hr]) (fun _ j hj => hj) (by simp [hr]) (by simp [hr])
    | cont =>
      simp only
      exact post_cast R hB (by simp [hr]) (by simp [hr]) (fun _ j hj => hj) (by simp [hr])
    | ret =>
      simp only
      exact post_cast R hB (by simp [hr]) (by simp [hr]) (by simp [hr]) (by simp [hr])
    | stop =>
      simp only
      exact post_cast R hB (by simp [hr]) (by simp [hr]) (by simp [hr]) (by simp [hr])
  | switchS id ft cases rest =>
    simp only [exec]
    simp only [req, holds_append] at hreq
    obtain ⟨⟨hnode, hcases⟩, hrest⟩ := hreq
    have ha : linkO R a id := hfirst id (by simp [first])
    refine post_node_bind R ha hnode ?_
    intro o1
    have hjump : ∀ suf o', isCase suf = true → (∀ j ∈ (caseIds suf).head?, j ∈ caseIds cases) →
        Holds R (req.reqCases rz ft suf { k with nxt := first rest k.nxt, brk := first rest k.nxt }) →
        Post R (some (id : Int))
          (match (exec n (Mode.fall ft true) rz suf o').out with
            | Out.brk => (exec n (Mode.fall ft true) rz suf o').norm.bind (exec n Mode.stmt rz rest)
            | _ => (exec n (Mode.fall ft true) rz suf o').bind (exec n Mode.stmt rz rest)) k := by
      intro suf o' hcase hhead hsuf
      have hF := ihF rz ft true suf _ o' (some (id : Int)) hsuf (by
        simp only [if_true]
        refine ⟨hcase, ?_⟩
        intro j hj
        exact hnode _ (mem_node_succ (List.mem_append.2 (Or.inl (hhead j hj)))))
      generalize exec n (Mode.fall ft true) rz suf o' = r at hF ⊢
      cases hr : r.out with
      | brk =>
        simp only
        refine post_bind R (k1 := ⟨first rest k.nxt, k.brk, k.cnt, k.exc⟩)
          (post_norm R hF (first rest k.nxt) (by simp [hr]) _ rfl) (fun _ => rfl) (fun _ => rfl) (fun _ => rfl) ?_
        intro _ hl
        exact ih rz rest k _ _ hrest hl
      | normal =>
        simp only
        refine post_bind R hF (by simp [hr]) (by simp [hr]) (by simp [hr]) ?_
        intro _ hl
        exact ih rz rest k _ _ hrest hl
      | cont =>
        simp only
        refine post_bind R hF (by simp [hr]) (fun _ => rfl) (by simp [hr]) ?_
        intro h; simp [hr] at h
      | ret =>
        simp only
        refine post_bind R hF (by simp [hr]) (by simp [hr]) (by simp [hr]) ?_
        intro h; simp [hr] at h
      | raise =>
        simp only
        refine post_bind R hF (by simp [hr]) (by simp [hr]) (fun _ => rfl) ?_
        intro h; simp [hr] at h
      | stop =>
        simp only
        refine post_bind R hF (by simp [hr]) (by simp [hr]) (by simp [hr]) ?_
        intro h; simp [hr] at h
    cases hp : pick cases o1 with
    | none => exact post_stop R _ _ _
    | some p =>
      obtain ⟨osuf, o2⟩ := p
      cases osuf with
      | some suf =>
        simp only
        obtain ⟨h1, h2, h3⟩ := pick_some (R := R) hp
        exact hjump suf o2 h1 h2 (h3 rz ft _ hcases)
      | none =>
        simp only
        cases hd : dfltSuffix cases with
        | some suf =>
          simp only
          obtain ⟨h1, h2, h3⟩ := dflt_some (R := R) hd
          exact hjump suf o2 h1 h2 (h3 rz ft _ hcases)
        | none =>
          simp only
          refine ih rz rest k o2 _ hrest ?_
          intro j hj
          refine hnode _ (mem_node_succ (List.mem_append.2 (Or.inr ?_)))
          simp [dflt_none hd, hj]

theorem catch_succ (n : Nat) (ih : StmtOk R n) (ihC : CatchOk R n) : CatchOk R (n + 1) := by
  intro rz s k o a hcl hreq hl
  cases s with
  | clause cid body more =>
    simp only [exec]
    simp only [req.reqCatch, holds_append] at hreq
    obtain ⟨⟨hcid, hbody⟩, hmore⟩ := hreq
    have ha : linkO R a cid := hl cid (by simp [clauseIds])
    have hthis : ∀ o', Post R a ((step cid o').bind (exec n Mode.stmt rz body)) k := by
      intro o'
      refine post_step_bind R ha hcid ?_
      intro o2
      exact ih rz body k o2 _ hbody (fun j hj => hcid _ (mem_edgesFrom hj))
    cases hm : isClause more with
    | true =>
      simp only [if_true]
      cases o with
      | nil => exact post_stop R _ _ _
      | cons b o' =>
        cases b with
        | true => exact hthis o'
        | false =>
          simp only
          exact ihC rz more k o' a hm hmore (fun j hj => hl j (by simp [clauseIds, hj]))
    | false =>
      simp only [Bool.false_eq_true, if_false]
      exact hthis o
  | _ => simp [isClause] at hcl

theorem fall_succ (n : Nat) (ih : StmtOk R n) (ihF : FallOk R n) : FallOk R (n + 1) := by
  intro rz ft jmp s k o a hreq hl
  cases s with
  | caseS cid d body more =>
    simp only [exec]
    simp only [req.reqCases, holds_append] at hreq
    obtain ⟨⟨hcid, hbody⟩, hmore⟩ := hreq
    -- what runs after the (optional) case_stmt step
    have hrun : ∀ a' o', (∀ j ∈ first body (if (ft || body.isNil) = true then fallFirst ft more k.nxt else k.nxt),
          linkO R a' j) →
        Post R a' ((exec n Mode.stmt rz body o').bind fun o =>
          if (ft || body.isNil) = true then exec n (Mode.fall ft false) rz more o
          else { tr := [], out := Out.normal, o := o }) k := by
      intro a' o' hl'
      refine post_bind R (ih rz body _ o' a' hbody hl') (fun _ => rfl) (fun _ => rfl) (fun _ => rfl) ?_
      intro _ hl2
      cases hft : (ft || body.isNil) with
      | true =>
        simp only [if_true]
        simp only [hft, if_true] at hl2
        exact ihF rz ft false more k _ _ hmore (by simpa using hl2)
      | false =>
        simp only [Bool.false_eq_true, if_false]
        simp only [hft, Bool.false_eq_true, if_false] at hl2
        exact post_nil R _ _ k hl2
    cases jmp with
    | true =>
      simp only [if_true] at hl ⊢
      have ha : linkO R a cid := hl.2 cid (by simp [caseIds])
      refine post_step_bind R ha hcid ?_
      intro o2
      exact hrun _ o2 (fun j hj => hcid _ (mem_edgesFrom hj))
    | false =>
      simp only [Bool.false_eq_true, if_false] at hl ⊢
      rw [bind_pure]
      exact hrun a o (by simpa [fallFirst] using hl)
  | _ =>
    cases jmp with
    | true => simp [isCase] at hl
    | false =>
      simp only [exec]
      exact post_nil R a o k (by simpa [fallFirst] using hl)

/-- **main lemma**: for every fuel, in every mode, a run is a chain of required edges -/
theorem exec_ok : ∀ n, StmtOk R n ∧ CatchOk R n ∧ FallOk R n := by
  intro n
  induction n with
  | zero =>
    refine ⟨?_, ?_, ?_⟩
    · intro rz s k o a _ _; exact post_stop R _ _ _
    · intro rz s k o a _ _ _; exact post_stop R _ _ _
    · intro rz ft jmp s k o a _ _; exact post_stop R _ _ _
  | succ n ih =>
    obtain ⟨ihS, ihC, ihF⟩ := ih
    exact ⟨stmt_succ R n ihS ihC ihF, catch_succ R n ihS ihC, fall_succ R n ihS ihF⟩
end
/-! ### sources of required edges -/

def SrcOk (l : List (Int × Int)) : Prop := ∀ e ∈ l, 0 ≤ e.1

@[simp] theorem srcOk_nil : SrcOk [] := by intro e he; cases he
@[simp] theorem srcOk_append {l1 l2 : List (Int × Int)} : SrcOk (l1 ++ l2) ↔ SrcOk l1 ∧ SrcOk l2 := by
  unfold SrcOk
  constructor
  · intro h
    exact ⟨fun e he => h e (List.mem_append.2 (Or.inl he)), fun e he => h e (List.mem_append.2 (Or.inr he))⟩
  · rintro ⟨h1, h2⟩ e he
    rcases List.mem_append.1 he with he | he
    · exact h1 e he
    · exact h2 e he
@[simp] theorem srcOk_edgesFrom (id : Nat) (l : List Int) : SrcOk (edgesFrom id l) := by
  intro e he
  unfold edgesFrom at he
  obtain ⟨j, _, rfl⟩ := List.mem_map.1 he
  simp
@[simp] theorem srcOk_node (rz : Bool) (k : K) (id : Nat) (l : List Int) : SrcOk (node rz k id l) := by
  unfold node
  cases rz <;> simp
@[simp] theorem srcOk_single (id : Nat) (j : Int) : SrcOk [((id : Int), j)] := by
  intro e he
  simp at he
  subst he
  simp

/-- sources of required edges are statement ids (never the exit node) -/
theorem req_src (s : S) :
    (∀ rz k, SrcOk (req rz s k)) ∧ (∀ rz k, SrcOk (req.reqCatch rz s k)) ∧
      (∀ rz ft k, SrcOk (req.reqCases rz ft s k)) := by
  induction s with
  | tryS id body catches els fin rest ihb ihc ihe ihf ihr =>
    refine ⟨?_, by simp [req.reqCatch], by simp [req.reqCases]⟩
    intro rz k
    simp only [req, srcOk_append]
    exact ⟨⟨⟨⟨⟨srcOk_edgesFrom _ _, ihb.1 _ _⟩, ihc.2.1 _ _⟩, ihe.1 _ _⟩, ihf.1 _ _⟩, ihr.1 _ _⟩
  | switchS id ft cases rest ihc ihr =>
    refine ⟨?_, by simp [req.reqCatch], by simp [req.reqCases]⟩
    intro rz k
    simp only [req, srcOk_append]
    exact ⟨⟨srcOk_node _ _ _ _, ihc.2.2 _ _ _⟩, ihr.1 _ _⟩
  | _ => simp_all [req, req.reqCatch, req.reqCases]
end LianVerif.Cfg
