/-
Helper lemmas for C17 (EventManager.notify / register, event_return flag algebra).
The property theorems are in Properties/C17.lean.  Core Lean only.
-/
import LianVerif.Model.Events
import LianVerif.Spec.Events

namespace LianVerif.Events

set_option linter.unusedSectionVars false

/-! ### flag algebra -/

/-- bit tests with a mask below 16 only look at the low four bits -/
theorem and_mod16 (r k : Nat) (hk : k < 16) : r &&& k = (r % 16) &&& k := by
  have h : r &&& k < 2 ^ 4 := Nat.lt_of_le_of_lt Nat.and_le_right (by simpa using hk)
  have h2 := @Nat.and_mod_two_pow r k 4
  rw [Nat.mod_eq_of_lt h, Nat.mod_eq_of_lt (show k < 2 ^ 4 by simpa using hk)] at h2
  simpa using h2

/-- normalisation lemma: `sync` is "or in the normalised local value". -/
theorem sync_eq_or_norm (l : Option Nat) (g : Nat) : sync l g = g ||| norm l := by
  cases l with
  | none => simp [sync, norm]
  | some r =>
    simp only [sync, norm]
    cases isProcessed r <;> cases blocksOthers r <;> cases blocksRequester r <;>
      cases interruptsCall r <;> simp [Nat.or_assoc]

theorem norm_lt (l : Option Nat) : norm l < 16 := by
  cases l with
  | none => decide
  | some r =>
    simp only [norm]
    cases isProcessed r <;> cases blocksOthers r <;> cases blocksRequester r <;>
      cases interruptsCall r <;> decide

theorem blocksOthers_or (a b : Nat) :
    blocksOthers (a ||| b) = (blocksOthers a || blocksOthers b) := by
  simp only [blocksOthers, Nat.and_or_distrib_right]
  generalize a &&& STOP_OTHER_EVENT_HANDLERS = x
  generalize b &&& STOP_OTHER_EVENT_HANDLERS = y
  rw [Bool.eq_iff_iff]
  simp only [bne_iff_ne, Bool.or_eq_true, ne_eq, Nat.or_eq_zero_iff]
  omega

theorem blocksOthers_norm (l : Option Nat) : blocksOthers (norm l) = blocksRet l := by
  cases l with
  | none => decide
  | some r =>
    simp only [norm, blocksRet]
    cases isProcessed r <;> cases blocksOthers r <;> cases blocksRequester r <;>
      cases interruptsCall r <;> decide

/-- the accumulated value requests blocking iff it did before or the handler's own return does:
the lemma that lets `notify`'s test on the accumulated value be read as "this handler blocks". -/
theorem blocksOthers_sync (l : Option Nat) (g : Nat) :
    blocksOthers (sync l g) = (blocksOthers g || blocksRet l) := by
  rw [sync_eq_or_norm, blocksOthers_or, blocksOthers_norm]

/-- the finite table behind the closed form of `norm` -/
theorem flag_table : ∀ x < 16,
    ((if (x &&& 2 != 0) = true then 2 else 0) = x &&& 2) ∧
    ((if (x &&& 4 != 0) = true then 4 else 0) = x &&& 4) ∧
    ((if (x &&& 8 != 0) = true then 8 else 0) = x &&& 8) ∧
    (x &&& 14 = (x &&& 2) ||| (x &&& 4) ||| (x &&& 8)) := by decide +kernel

/-- closed form: a return value contributes its bits 2, 4, 8 and SUCCESS iff it is non-zero. -/
theorem norm_closed (r : Nat) : norm (some r) = (r &&& 14) ||| (if r = 0 then 0 else 1) := by
  have hx : r % 16 < 16 := Nat.mod_lt _ (by decide)
  obtain ⟨h2, h4, h8, h14⟩ := flag_table (r % 16) hx
  rw [← and_mod16 r 2 (by decide)] at h2
  rw [← and_mod16 r 4 (by decide)] at h4
  rw [← and_mod16 r 8 (by decide)] at h8
  rw [← and_mod16 r 2 (by decide), ← and_mod16 r 4 (by decide), ← and_mod16 r 8 (by decide),
    ← and_mod16 r 14 (by decide)] at h14
  have e : norm (some r) =
      (if (r != 0) = true then 1 else 0) ||| (if (r &&& 2 != 0) = true then 2 else 0) |||
      (if (r &&& 4 != 0) = true then 4 else 0) ||| (if (r &&& 8 != 0) = true then 8 else 0) := rfl
  rw [e, h2, h4, h8, h14]
  by_cases h0 : r = 0
  · subst h0; decide
  · have h1 : (r != 0) = true := by simpa using h0
    rw [if_pos h1, if_neg h0]
    ac_rfl

theorem documented_table : ∀ r < 16, (r == 0 || r % 2 == 1) = true → norm (some r) = r := by
  decide +kernel

/-- on the documented return values the normalisation is the identity -/
theorem norm_documented (l : Option Nat) (h : documented l = true) : norm l = l.getD 0 := by
  cases l with
  | none => simp [documented] at h
  | some r =>
    simp only [documented, Bool.or_eq_true, Bool.and_eq_true, decide_eq_true_eq] at h
    simp only [Option.getD_some]
    rcases h with h | ⟨h1, h2⟩
    · have : r = 0 := by simpa using h
      subst this; decide
    · exact documented_table r h1 (by simp [h2])

/-! ### closed form of the union of normalised returns -/

theorem foldl_raw_shift (rets : List (Option Nat)) : ∀ b : Nat,
    rets.foldl (fun a r => a ||| r.getD 0) b = b ||| rets.foldl (fun a r => a ||| r.getD 0) 0 := by
  induction rets with
  | nil => intro b; simp
  | cons r rs ih =>
    intro b
    simp only [List.foldl_cons]
    rw [ih (b ||| r.getD 0), ih (0 ||| r.getD 0), Nat.zero_or, Nat.or_assoc]

theorem norm_as_raw (r : Option Nat) :
    norm r = (r.getD 0 &&& 14) ||| (nonZeroRet r).toNat := by
  cases r with
  | none => decide
  | some x =>
    rw [norm_closed]
    by_cases h : x = 0
    · subst h; decide
    · have h1 : (x != 0) = true := by simpa using h
      simp only [nonZeroRet, Option.getD_some, h, if_false, h1, Bool.toNat_true]

theorem toNat_or (p q : Bool) : (p || q).toNat = p.toNat ||| q.toNat := by
  cases p <;> cases q <;> decide

theorem unionNorm_closed_aux (rets : List (Option Nat)) : ∀ a : Nat,
    rets.foldl (fun a r => a ||| norm r) a =
      a ||| ((unionRaw rets &&& 14) ||| (anyNonZero rets).toNat) := by
  induction rets with
  | nil => intro a; simp [unionRaw, anyNonZero]
  | cons r rs ih =>
    intro a
    simp only [List.foldl_cons, unionRaw, anyNonZero, List.any_cons] at ih ⊢
    rw [ih, foldl_raw_shift rs (0 ||| r.getD 0), Nat.zero_or, Nat.and_or_distrib_right, norm_as_raw r,
      toNat_or]
    ac_rfl

theorem unionNorm_closed (rets : List (Option Nat)) :
    unionNorm rets = (unionRaw rets &&& 14) ||| (anyNonZero rets).toNat := by
  have := unionNorm_closed_aux rets 0
  rw [Nat.zero_or] at this
  exact this

/-! ### `takeThrough` -/

section TakeThrough
variable {α : Type} (p : α → Bool)

theorem takeThrough_prefix : ∀ l : List α, takeThrough p l <+: l
  | [] => List.prefix_refl _
  | a :: as => by
    simp only [takeThrough]
    split
    · exact ⟨as, rfl⟩
    · exact (List.cons_prefix_cons).2 ⟨rfl, takeThrough_prefix as⟩

/-- nobody before the last element of the cut list satisfies `p` -/
theorem takeThrough_dropLast : ∀ l : List α, ∀ a ∈ (takeThrough p l).dropLast, p a = false
  | [], a, h => by simp [takeThrough] at h
  | b :: bs, a, h => by
    simp only [takeThrough] at h
    split at h
    · simp at h
    · rename_i hb
      cases hbs : takeThrough p bs with
      | nil => rw [hbs] at h; simp at h
      | cons c cs =>
        rw [hbs, List.dropLast_cons_cons] at h
        rcases List.mem_cons.1 h with rfl | h
        · simpa using hb
        · exact takeThrough_dropLast bs a (by rw [hbs]; exact h)

/-- the list is cut short only after an element satisfying `p` -/
theorem takeThrough_short : ∀ l : List α, (takeThrough p l).length < l.length →
    ∃ a, (takeThrough p l).getLast? = some a ∧ p a = true
  | [], h => by simp [takeThrough] at h
  | b :: bs, h => by
    simp only [takeThrough] at h ⊢
    split
    · rename_i hb; exact ⟨b, rfl, hb⟩
    · rename_i hb
      rw [if_neg hb] at h
      simp only [List.length_cons, Nat.add_lt_add_iff_right] at h
      obtain ⟨a, ha, hpa⟩ := takeThrough_short bs h
      refine ⟨a, ?_, hpa⟩
      rw [List.getLast?_cons, ha]; rfl

/-- if no element satisfies `p` nothing is cut -/
theorem takeThrough_all (l : List α) (h : ∀ a ∈ l, p a = false) : takeThrough p l = l := by
  induction l with
  | nil => rfl
  | cons b bs ih =>
    simp only [takeThrough]
    rw [if_neg (by simp [h b (List.mem_cons_self)])]
    rw [ih (fun a ha => h a (List.mem_cons_of_mem _ ha))]

/-- the first element satisfying `p`, if any, is the last of the cut list (it did run) -/
theorem takeThrough_contains_first (l : List α) (a : α) (h : l.find? p = some a) :
    (takeThrough p l).getLast? = some a := by
  induction l with
  | nil => simp at h
  | cons b bs ih =>
    simp only [takeThrough]
    by_cases hb : p b = true
    · rw [if_pos hb]
      rw [List.find?_cons_of_pos hb] at h
      simpa using h
    · rw [if_neg hb]
      rw [List.find?_cons_of_neg hb] at h
      rw [List.getLast?_cons, ih h]; rfl

end TakeThrough

/-! ### the `notify` loop -/

section Loop
variable {L D : Type} [DecidableEq L]

/-- the loop ignores registrations whose language set does not match -/
theorem loop_filter (anyL lang : L) (beh : Beh D) (rs : List (Reg L)) :
    ∀ acc i o, loop anyL lang beh rs acc i o =
      loop anyL lang beh (rs.filter (matchesLang anyL lang)) acc i o := by
  induction rs with
  | nil => intro acc i o; rfl
  | cons r rs ih =>
    intro acc i o
    by_cases hm : matchesLang anyL lang r = true
    · rw [List.filter_cons_of_pos hm]
      simp only [loop, hm, if_true]
      split
      · rfl
      · rw [ih]
    · rw [List.filter_cons_of_neg hm]
      simp only [loop, hm]
      exact ih acc i o

/-- The calls made by the loop are the statement's run cut after the first handler whose own return
requests blocking — provided the accumulated value did not already request it (it is 0 at entry). -/
theorem loop_trace (anyL lang : L) (beh : Beh D) (rs : List (Reg L)) :
    ∀ acc i o, blocksOthers acc = false →
      (loop anyL lang beh rs acc i o).trace =
        takeThrough (fun e => blocksRet e.ret)
          (fullRun beh (rs.filter (matchesLang anyL lang)) i o) := by
  induction rs with
  | nil => intro acc i o _; rfl
  | cons r rs ih =>
    intro acc i o hacc
    by_cases hm : matchesLang anyL lang r = true
    · rw [List.filter_cons_of_pos hm]
      simp only [loop, hm, if_true, fullRun, takeThrough]
      rw [blocksOthers_sync, hacc, Bool.false_or]
      by_cases hb : blocksRet (beh r.h i o).1 = true
      · simp only [hb, if_true]
      · simp only [hb]
        rw [ih]
        · rfl
        · rw [blocksOthers_sync, hacc, Bool.false_or]; simpa using hb
    · rw [List.filter_cons_of_neg hm]
      simp only [loop, hm]
      exact ih acc i o hacc

/-- the returned value is the accumulator or-ed with the normalised return of every call made -/
theorem loop_flags (anyL lang : L) (beh : Beh D) (rs : List (Reg L)) :
    ∀ acc i o, (loop anyL lang beh rs acc i o).flags =
      ((loop anyL lang beh rs acc i o).trace.map (·.ret)).foldl (fun a r => a ||| norm r) acc := by
  induction rs with
  | nil => intro acc i o; rfl
  | cons r rs ih =>
    intro acc i o
    by_cases hm : matchesLang anyL lang r = true
    · simp only [loop, hm, if_true]
      split
      · simp [sync_eq_or_norm]
      · simp only [List.map_cons, List.foldl_cons]
        rw [ih, sync_eq_or_norm]
    · simp only [loop, hm]
      exact ih acc i o

theorem loop_final (anyL lang : L) (beh : Beh D) (rs : List (Reg L)) :
    ∀ acc i o, blocksOthers acc = false →
      (loop anyL lang beh rs acc i o).outD =
        (((loop anyL lang beh rs acc i o).trace.getLast?).map (·.outLeft)).getD o ∧
      (loop anyL lang beh rs acc i o).inD =
        (((loop anyL lang beh rs acc i o).trace.getLast?).map finalIn).getD i := by
  induction rs with
  | nil => intro acc i o _; exact ⟨rfl, rfl⟩
  | cons r rs ih =>
    intro acc i o hacc
    by_cases hm : matchesLang anyL lang r = true
    · simp only [loop, hm, if_true]
      rw [blocksOthers_sync, hacc, Bool.false_or]
      by_cases hb : blocksRet (beh r.h i o).1 = true
      · simp [hb, finalIn]
      · have hb' : blocksRet (beh r.h i o).1 = false := by simpa using hb
        simp only [hb]
        have hacc' : blocksOthers (sync (beh r.h i o).1 acc) = false := by
          rw [blocksOthers_sync, hacc, Bool.false_or]; exact hb'
        obtain ⟨ih1, ih2⟩ := ih (sync (beh r.h i o).1 acc)
          (if processedRet (beh r.h i o).1 then (beh r.h i o).2 else i) (beh r.h i o).2 hacc'
        generalize loop anyL lang beh rs _ _ _ = res at ih1 ih2 ⊢
        simp only [Bool.false_eq_true, if_false]
        rw [ih1, ih2, List.getLast?_cons]
        cases res.trace.getLast? with
        | none => simp [finalIn, hb']
        | some x => simp
    · simp only [loop, hm]
      exact ih acc i o hacc

/-- handlers of the statement's run, in order, are the handlers of the list -/
theorem fullRun_handlers (beh : Beh D) (rs : List (Reg L)) :
    ∀ i o, (fullRun beh rs i o).map (·.h) = rs.map (·.h) := by
  induction rs with
  | nil => intro i o; rfl
  | cons r rs ih => intro i o; simp [fullRun, ih]

theorem fullRun_length (beh : Beh D) (rs : List (Reg L)) (i o : D) :
    (fullRun beh rs i o).length = rs.length := by
  have := congrArg List.length (fullRun_handlers beh rs i o)
  simpa using this

/-- every call's return value and `out_data` are what the handler computes from what it saw -/
theorem fullRun_consistent (beh : Beh D) (rs : List (Reg L)) :
    ∀ i o, ∀ e ∈ fullRun beh rs i o, e.ret = (beh e.h e.inSeen e.outSeen).1 ∧
      e.outLeft = (beh e.h e.inSeen e.outSeen).2 := by
  induction rs with
  | nil => intro i o e h; simp [fullRun] at h
  | cons r rs ih =>
    intro i o e h
    simp only [fullRun, List.mem_cons] at h
    rcases h with rfl | h
    · exact ⟨rfl, rfl⟩
    · exact ih _ _ e h

/-- data flow in the statement's run: the k-th call sees as `in_data` the `out_data` left by the
last earlier call that processed the event, else the initial `in_data`; and as `out_data` what the
call before it left, else the initial `out_data`. -/
theorem fullRun_sees (beh : Beh D) (rs : List (Reg L)) :
    ∀ i o k e, (fullRun beh rs i o)[k]? = some e →
      e.inSeen = ((((fullRun beh rs i o).take k).reverse.find? (fun x => processedRet x.ret)).map
        (·.outLeft)).getD i ∧
      e.outSeen = ((((fullRun beh rs i o).take k).getLast?).map (·.outLeft)).getD o := by
  induction rs with
  | nil => intro i o k e h; simp [fullRun] at h
  | cons r rs ih =>
    intro i o k e h
    cases k with
    | zero =>
      simp only [fullRun, List.getElem?_cons_zero, Option.some.injEq] at h
      subst h
      simp
    | succ k =>
      simp only [fullRun, List.getElem?_cons_succ] at h
      obtain ⟨ih1, ih2⟩ := ih _ _ k e h
      simp only [fullRun, List.take_succ_cons, List.reverse_cons, List.find?_append]
      refine ⟨?_, ?_⟩
      · rw [ih1]
        cases (List.take k (fullRun beh rs
            (if processedRet (beh r.h i o).1 = true then (beh r.h i o).2 else i)
            (beh r.h i o).2)).reverse.find? (fun x => processedRet x.ret) with
        | some x => simp
        | none =>
          by_cases hp : processedRet (beh r.h i o).1 = true <;> simp [hp]
      · rw [ih2, List.getLast?_cons]
        cases (List.take k (fullRun beh rs
            (if processedRet (beh r.h i o).1 = true then (beh r.h i o).2 else i)
            (beh r.h i o).2)).getLast? with
        | some x => simp
        | none => simp

/-- the same for a prefix of the run (in particular the run cut at the first blocker) -/
theorem prefix_sees {T F : List (Entry D)} (hpre : T <+: F) (k : Nat) (e : Entry D)
    (h : T[k]? = some e) : F[k]? = some e ∧ F.take k = T.take k := by
  obtain ⟨s, rfl⟩ := hpre
  have hk : k < T.length := by
    rcases Nat.lt_or_ge k T.length with hk | hk
    · exact hk
    · rw [List.getElem?_eq_none hk] at h; exact absurd h (by simp)
  refine ⟨?_, ?_⟩
  · rw [List.getElem?_append_left hk]; exact h
  · rw [List.take_append_of_le_length (Nat.le_of_lt hk)]

end Loop

/-! ### the table -/

section Table
variable {E L : Type} [DecidableEq E] [DecidableEq L]

theorem get_append_same (t : Table E L) (e : E) (r : Reg L) :
    (t.append e r).get e = (t.get e).map (· ++ [r]) := by
  induction t with
  | nil => rfl
  | cons kv t ih =>
    obtain ⟨k, v⟩ := kv
    by_cases hk : k = e
    · simp [Table.append, Table.get, hk]
    · simp [Table.append, Table.get, hk, ih]

theorem get_append_other (t : Table E L) (e e' : E) (r : Reg L) (hne : e' ≠ e) :
    (t.append e r).get e' = t.get e' := by
  induction t with
  | nil => rfl
  | cons kv t ih =>
    obtain ⟨k, v⟩ := kv
    by_cases hk : k = e
    · subst hk
      have : ¬ k = e' := fun h => hne h.symm
      simp [Table.append, Table.get, this]
    · by_cases hk' : k = e'
      · subst hk'
        simp [Table.append, Table.get, hk]
      · simp [Table.append, Table.get, hk, hk', ih]

/-- the registration `register_list` makes out of one element -/
def regOf (x : E × Nat × LangArg L) : Reg L := { langs := normLangs x.2.2, h := x.2.1 }

theorem get_register (t : Table E L) (e e' : E) (h : Nat) (la : LangArg L) :
    (register t e h la).1.get e' =
      if e' = e then (t.get e).map (· ++ [{ langs := normLangs la, h := h }]) else t.get e' := by
  unfold register
  cases hg : t.get e with
  | none =>
    by_cases he : e' = e
    · subst he; simp [hg]
    · simp [he]
  | some v =>
    by_cases he : e' = e
    · subst he; simp [get_append_same, hg]
    · simp [he, get_append_other _ _ _ _ he]

theorem get_registerList (xs : List (E × Nat × LangArg L)) :
    ∀ (t : Table E L) (e : E), (registerList t xs).get e =
      (t.get e).map (· ++ (xs.filter (fun x => x.1 = e)).map regOf) := by
  induction xs with
  | nil => intro t e; cases h : t.get e <;> simp [registerList, h]
  | cons x xs ih =>
    intro t e
    obtain ⟨e1, h1, la1⟩ := x
    simp only [registerList]
    rw [ih, get_register]
    by_cases he : e = e1
    · subst he
      cases t.get e with
      | none => simp
      | some v => simp [regOf]
    · have he' : ¬ e1 = e := fun h => he h.symm
      cases t.get e with
      | none => simp [he]
      | some v => simp [he, he']

theorem get_emptyTable (keys : List E) (e : E) :
    (emptyTable keys : Table E L).get e = if e ∈ keys then some [] else none := by
  induction keys with
  | nil => rfl
  | cons k ks ih =>
    by_cases hk : k = e
    · simp [emptyTable, Table.get, hk]
    · have : ¬ e = k := fun h => hk h.symm
      simp only [emptyTable, List.map_cons, Table.get, hk, if_false, List.mem_cons, this, false_or]
      exact ih

end Table

end LianVerif.Events
