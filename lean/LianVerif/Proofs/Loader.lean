/-
Helper lemmas for C15 (GeneralLoader): the representation invariant tying the loader state to the
"latest save wins" map, and its preservation by every operation of the repaired code.
The property theorems are in Properties/C15.lean.
-/
import LianVerif.Model.Loader
import LianVerif.Spec.LoaderSpec
import LianVerif.Proofs.Lru

namespace LianVerif.Loader
open LianVerif.Lru LianVerif.LoaderSpec
set_option linter.unusedSectionVars false

variable {K R : Type} [DecidableEq K]

/-- the rows a query for `k` finds in a bundle table -/
def rowsOf (k : K) (items : Bundle K R) : List R := (alookup k items).getD []

/-- a cached value says what the specification says -/
def CacheVal.agrees : CacheVal R → Option (List R) → Prop
  | .rows r, e => e = some r
  | .notFound, e => e = some []

/-- Representation invariant of the loader with respect to the specification map `m`. -/
structure Inv (s : L K R) (m : Spec K R) : Prop where
  idx_dom : ∀ k, (alookup k s.index).isSome = (m k).isSome
  active_ok : ∀ k rows, alookup k s.active = some rows → alookup k s.index = some none ∧ m k = some rows
  ghost : ∀ k, alookup k s.index = some none → alookup k s.active = none → m k = some []
  idx_disk : ∀ k b, alookup k s.index = some (some b) →
    ∃ bf, alookup b s.disk = some (some bf) ∧ bf.cols = true ∧ m k = some (rowsOf k bf.items)
  bc_ok : ∀ p ∈ s.bundleCache.items, alookup p.1 s.disk = some (some p.2)
  ic_ok : ∀ p ∈ s.itemCache.items, p.2.agrees (m p.1)
  idx_lt : ∀ k b, alookup k s.index = some (some b) → b < s.bundleCount
  bc_lt : ∀ p ∈ s.bundleCache.items, p.1 < s.bundleCount
  len_ok : s.activeLen = rowsSum s.active
  active_nodup : (akeys s.active).Nodup
  index_nodup : (akeys s.index).Nodup

/-- no id is indexed as active without being in the active bundle (false only after reopening a
loader that held items without rows) -/
def Ghostfree (s : L K R) : Prop :=
  ∀ k, alookup k s.index = some none → (alookup k s.active).isSome = true

theorem inv_init (cfg : Cfg K R) : Inv (L.init cfg) (Spec.empty : Spec K R) := by
  refine ⟨?_, ?_, ?_, ?_, ?_, ?_, ?_, ?_, ?_, ?_, ?_⟩ <;> simp [L.init, Spec.empty, Lru.empty, akeys]

theorem ghostfree_init (cfg : Cfg K R) : Ghostfree (L.init cfg) := by
  intro k h; simp [L.init] at h

/-! ### query -/

theorem query_agrees (k : K) (items : Bundle K R) : (query k items).agrees (some (rowsOf k items)) := by
  unfold query rowsOf
  cases h : alookup k items with
  | none => simp [CacheVal.agrees]
  | some rows =>
    cases rows with
    | nil => simp [CacheVal.agrees]
    | cons r rs => simp [CacheVal.agrees]

theorem agrees_gotOk {cv : CacheVal R} {e : Option (List R)} (g : Bool) (h : cv.agrees e) : GotOk g e cv.toGot := by
  cases cv with
  | rows r =>
    simp only [CacheVal.agrees] at h; subst h
    cases r with
    | nil => simp [GotOk, CacheVal.toGot]
    | cons a l => simp [GotOk, CacheVal.toGot]
  | notFound =>
    simp only [CacheVal.agrees] at h; subst h
    simp [GotOk, CacheVal.toGot]

/-! ### changing only a cache -/

theorem Inv.with_itemCache {s : L K R} {m : Spec K R} (h : Inv s m) (c : Lru K (CacheVal R))
    (hc : ∀ p ∈ c.items, p.2.agrees (m p.1)) : Inv { s with itemCache := c } m :=
  { h with ic_ok := hc }

theorem Inv.with_bundleCache {s : L K R} {m : Spec K R} (h : Inv s m) (c : Lru Nat (BFile K R))
    (hc : ∀ p ∈ c.items, alookup p.1 s.disk = some (some p.2) ∧ p.1 < s.bundleCount) :
    Inv { s with bundleCache := c } m :=
  { h with bc_ok := fun p hp => (hc p hp).1, bc_lt := fun p hp => (hc p hp).2 }

/-! ### loading a bundle -/

theorem loadBundle_ok {s : L K R} {m : Spec K R} (h : Inv s m) {b : Nat} {bf : BFile K R}
    (hd : alookup b s.disk = some (some bf)) (hb : b < s.bundleCount) :
    ∃ s1, loadBundle s b = some (s1, bf) ∧ Inv s1 m ∧ s1.index = s.index ∧ s1.active = s.active ∧
      s1.itemCache = s.itemCache := by
  unfold loadBundle
  by_cases hc : s.bundleCache.contain b = true
  · obtain ⟨v, hv⟩ := Lru.contain_iff.1 hc
    have hmem := Lru.lookup_mem hv
    have hv' : alookup b s.disk = some (some v) := h.bc_ok _ hmem
    have e : v = bf := by rw [hd] at hv'; cases hv'; rfl
    subst e
    simp only [hc, if_true, Lru.get_snd, hv]
    refine ⟨_, rfl, ?_, rfl, rfl, rfl⟩
    apply h.with_bundleCache
    intro p hp
    have := Lru.mem_get hp
    exact ⟨h.bc_ok p this, h.bc_lt p this⟩
  · simp only [hc, Bool.false_eq_true, if_false, hd]
    refine ⟨_, rfl, ?_, rfl, rfl, rfl⟩
    apply h.with_bundleCache
    intro p hp
    rcases Lru.mem_put hp with e | ⟨hp', _⟩
    · subst e; exact ⟨hd, hb⟩
    · exact ⟨h.bc_ok p hp', h.bc_lt p hp'⟩

/-! ### get -/

theorem get_ok (cfg : Cfg K R) (hq : cfg.queryOk = true) {s : L K R} {m : Spec K R} (h : Inv s m) (k : K) :
    Inv (get cfg s k).1 m ∧ (get cfg s k).1.index = s.index ∧ (get cfg s k).1.active = s.active ∧
    GotOk true (m k) (get cfg s k).2 ∧ (Ghostfree s → GotOk false (m k) (get cfg s k).2) := by
  unfold get
  by_cases hc : s.itemCache.contain k = true
  · obtain ⟨v, hv⟩ := Lru.contain_iff.1 hc
    have hmem := Lru.lookup_mem hv
    have hag : v.agrees (m k) := h.ic_ok _ hmem
    simp only [hc, if_true, Lru.get_snd, hv]
    refine ⟨?_, trivial, trivial, agrees_gotOk _ hag, fun _ => agrees_gotOk _ hag⟩
    apply h.with_itemCache
    intro p hp
    exact h.ic_ok p (Lru.mem_get hp)
  · simp only [hc, Bool.false_eq_true, if_false]
    cases hi : alookup k s.index with
    | none =>
      have : (m k).isSome = false := by rw [← h.idx_dom k, hi]; rfl
      have hm : m k = none := by cases hmk : m k <;> simp_all
      simp only [hm]
      exact ⟨h, trivial, trivial, by simp [GotOk], fun _ => by simp [GotOk]⟩
    | some ob =>
      cases ob with
      | none =>
        cases ha : alookup k s.active with
        | some rows =>
          have hm := (h.active_ok k rows ha).2
          simp only []
          have hg : ∀ g, GotOk g (m k) (Got.item rows) := by
            intro g; rw [hm]; cases rows <;> simp [GotOk]
          refine ⟨?_, trivial, trivial, hg _, fun _ => hg _⟩
          apply h.with_itemCache
          intro p hp
          rcases Lru.mem_put hp with e | ⟨hp', _⟩
          · subst e; exact hm
          · exact h.ic_ok p hp'
        | none =>
          have hm := h.ghost k hi ha
          simp only []
          refine ⟨h, trivial, trivial, ?_, ?_⟩
          · rw [hm]; simp [GotOk]
          · intro hgf
            have := hgf k hi
            rw [ha] at this; cases this
      | some b =>
        obtain ⟨bf, hd, hcols, hm⟩ := h.idx_disk k b hi
        obtain ⟨s1, hl, hinv1, hidx1, hact1, hic1⟩ := loadBundle_ok h hd (h.idx_lt k b hi)
        simp only [hl, hq, hcols, Bool.and_self, if_true]
        have hag : (query k bf.items).agrees (m k) := by rw [hm]; exact query_agrees k bf.items
        refine ⟨?_, hidx1, hact1, agrees_gotOk _ hag, fun _ => agrees_gotOk _ hag⟩
        apply hinv1.with_itemCache
        intro p hp
        rcases Lru.mem_put hp with e | ⟨hp', _⟩
        · subst e; exact hag
        · rw [hic1] at hp'; exact h.ic_ok p hp'

/-! ### export -/

theorem alookup_map_index (k : K) (n : Nat) (idx : List (K × Option Nat)) :
    alookup k (idx.map (fun p => if p.2 = none then (p.1, some n) else p)) =
      (alookup k idx).map (fun b => if b = none then some n else b) := by
  induction idx with
  | nil => rfl
  | cons p l ih =>
    obtain ⟨k₀, b₀⟩ := p
    simp only [List.map_cons]
    by_cases hb : b₀ = none
    · subst hb
      simp only [if_true, alookup_cons]
      by_cases e : k₀ = k
      · simp [e]
      · simp [e, ih]
    · simp only [hb, if_false, alookup_cons]
      by_cases e : k₀ = k
      · simp [e, hb]
      · simp [e, ih]

theorem akeys_map_index (n : Nat) (idx : List (K × Option Nat)) :
    akeys (idx.map (fun p => if p.2 = none then (p.1, some n) else p)) = akeys idx := by
  induction idx with
  | nil => rfl
  | cons p l ih =>
    unfold akeys at ih ⊢
    simp only [List.map_cons, ih]
    by_cases hb : p.2 = none <;> simp [hb]

theorem export_ok (cfg : Cfg K R) (hw : ∀ b, cfg.writable b = true) {s : L K R} {m : Spec K R} (h : Inv s m) :
    Inv (doExport cfg s) m ∧ (Ghostfree s → Ghostfree (doExport cfg s)) ∧
    ((doExport cfg s).activeLen = 0) := by
  unfold doExport
  by_cases hpos : s.activeLen > 0
  · simp only [hpos, if_true, hw]
    have hany : s.active.any (fun p => !p.2.isEmpty) = true :=
      exists_nonempty_of_rowsSum_pos (by rw [← h.len_ok]; exact hpos)
    refine ⟨?_, ?_, trivial⟩
    · refine ⟨?_, ?_, ?_, ?_, ?_, ?_, ?_, ?_, ?_, ?_, ?_⟩
      · intro k
        simp only [alookup_map_index]
        rw [← h.idx_dom k]
        cases alookup k s.index <;> rfl
      · intro k rows hk; simp at hk
      · intro k hk _
        simp only [alookup_map_index] at hk
        cases hi : alookup k s.index with
        | none => simp [hi] at hk
        | some ob =>
          cases ob with
          | none => simp [hi] at hk
          | some b => simp [hi] at hk
      · intro k b hk
        simp only [alookup_map_index] at hk
        cases hi : alookup k s.index with
        | none => simp [hi] at hk
        | some ob =>
          cases ob with
          | none =>
            simp only [hi, Option.map_some, if_true, Option.some.injEq] at hk
            subst hk
            refine ⟨{ cols := cfg.hasSchema || s.active.any (fun p => !p.2.isEmpty), items := s.active }, ?_, ?_, ?_⟩
            · simp [alookup_aset]
            · simp [hany]
            · simp only [rowsOf]
              cases ha : alookup k s.active with
              | some rows => simp [(h.active_ok k rows ha).2]
              | none => simp [h.ghost k hi ha]
          | some b' =>
            simp only [hi, Option.map_some, Option.some.injEq] at hk
            have hb : b' = b := by simpa using hk
            subst hb
            obtain ⟨bf, hd, hc, hm⟩ := h.idx_disk k b' hi
            have hlt := h.idx_lt k b' hi
            refine ⟨bf, ?_, hc, hm⟩
            rw [alookup_aset]
            have : ¬ b' = s.bundleCount := by omega
            simp [this, hd]
      · intro p hp
        have old : ∀ q ∈ s.bundleCache.items, alookup q.1 (aset s.bundleCount
            (some { cols := cfg.hasSchema || s.active.any (fun p => !p.2.isEmpty), items := s.active }) s.disk) = some (some q.2) := by
          intro q hq
          rw [alookup_aset]
          have hlt := h.bc_lt q hq
          have : ¬ q.1 = s.bundleCount := by omega
          simp [this, h.bc_ok q hq]
        by_cases hce : cfg.cachesExported = true
        · simp only [hce, if_true] at hp
          rcases Lru.mem_put hp with e | ⟨hp', _⟩
          · subst e; simp [alookup_aset]
          · exact old p hp'
        · simp only [hce, Bool.false_eq_true, if_false] at hp
          exact old p hp
      · exact h.ic_ok
      · intro k b hk
        simp only [alookup_map_index] at hk
        cases hi : alookup k s.index with
        | none => simp [hi] at hk
        | some ob =>
          cases ob with
          | none =>
            simp only [hi, Option.map_some, if_true, Option.some.injEq] at hk
            subst hk; simp
          | some b' =>
            simp only [hi, Option.map_some, Option.some.injEq] at hk
            have hb : b' = b := by simpa using hk
            subst hb
            have := h.idx_lt k b' hi
            simp; omega
      · intro p hp
        by_cases hce : cfg.cachesExported = true
        · simp only [hce, if_true] at hp
          rcases Lru.mem_put hp with e | ⟨hp', _⟩
          · subst e; simp
          · have := h.bc_lt p hp'; simp; omega
        · simp only [hce, Bool.false_eq_true, if_false] at hp
          have := h.bc_lt p hp; simp; omega
      · simp
      · simp [akeys]
      · simp only [akeys_map_index]; exact h.index_nodup
    · intro _ k hk
      simp only [alookup_map_index] at hk
      cases hi : alookup k s.index with
      | none => simp [hi] at hk
      | some ob =>
        cases ob with
        | none => simp [hi] at hk
        | some b => simp [hi] at hk
  · simp only [hpos, if_false]
    exact ⟨h, fun g => g, by omega⟩

/-! ### save -/

theorem activeRows_eq (s : L K R) (k : K) : activeRows s k = oldLen k s.active := rfl

theorem activeRows_le {s : L K R} {m : Spec K R} (h : Inv s m) (k : K) : activeRows s k ≤ s.activeLen := by
  rw [activeRows_eq, h.len_ok]; exact oldLen_le_rowsSum k s.active

/-- the state `save` reaches before it looks at the row limit -/
def savePre (s : L K R) (k : K) (rows : List R) : L K R :=
  { s with itemCache := s.itemCache.remove k, active := aset k rows s.active, index := aset k none s.index,
           activeLen := s.activeLen - activeRows s k + rows.length }

theorem save_eq (cfg : Cfg K R) (s : L K R) (k : K) (rows : List R) :
    save cfg s k rows = if (savePre s k rows).activeLen > cfg.maxRows then doExport cfg (savePre s k rows) else savePre s k rows := rfl

theorem save_pre_ok {s : L K R} {m : Spec K R} (h : Inv s m) (k : K) (rows : List R) :
    Inv (savePre s k rows) (upd m k (some rows)) := by
  unfold savePre
  refine ⟨?_, ?_, ?_, ?_, ?_, ?_, ?_, ?_, ?_, ?_, ?_⟩
  · intro k'
    simp only [alookup_aset, upd]
    by_cases e : k' = k
    · simp [e]
    · simp [e, h.idx_dom k']
  · intro k' r hk
    simp only [alookup_aset] at hk ⊢
    simp only [upd]
    by_cases e : k' = k
    · simp only [e, if_true, Option.some.injEq] at hk ⊢
      exact ⟨trivial, by rw [hk]⟩
    · simp only [e, if_false] at hk ⊢
      exact h.active_ok k' r hk
  · intro k' hi ha
    simp only [alookup_aset] at hi ha
    simp only [upd]
    by_cases e : k' = k
    · simp [e] at ha
    · simp only [e, if_false] at hi ha ⊢
      exact h.ghost k' hi ha
  · intro k' b hi
    simp only [alookup_aset] at hi
    simp only [upd]
    by_cases e : k' = k
    · simp [e] at hi
    · simp only [e, if_false] at hi ⊢
      exact h.idx_disk k' b hi
  · exact h.bc_ok
  · intro p hp
    obtain ⟨hp', hne⟩ := Lru.mem_remove.1 hp
    simp only [upd, hne, if_false]
    exact h.ic_ok p hp'
  · intro k' b hi
    simp only [alookup_aset] at hi
    by_cases e : k' = k
    · simp [e] at hi
    · simp only [e, if_false] at hi
      exact h.idx_lt k' b hi
  · exact h.bc_lt
  · have h1 := rowsSum_aset (k := k) (rows := rows) h.active_nodup
    have h2 := activeRows_le h k
    have h3 := h.len_ok
    rw [activeRows_eq] at h2 ⊢
    simp only [] at h1 ⊢
    omega
  · exact nodup_aset h.active_nodup
  · exact nodup_aset h.index_nodup

theorem save_ok (cfg : Cfg K R) (hw : ∀ b, cfg.writable b = true) {s : L K R} {m : Spec K R} (h : Inv s m)
    (k : K) (rows : List R) :
    Inv (save cfg s k rows) (upd m k (some rows)) ∧ (Ghostfree s → Ghostfree (save cfg s k rows)) := by
  have hpre := save_pre_ok h k rows
  have hgf : Ghostfree s → Ghostfree (savePre s k rows) := by
    intro g k' hi
    simp only [savePre, alookup_aset] at hi ⊢
    by_cases e : k' = k
    · simp [e]
    · simp only [e, if_false] at hi ⊢
      exact g k' hi
  rw [save_eq]
  split
  · have := export_ok cfg hw hpre
    exact ⟨this.1, fun g => this.2.1 (hgf g)⟩
  · exact ⟨hpre, hgf⟩

/-! ### remove_unit_id -/

theorem removeUnit_ok (cfg : Cfg K R) (hw : ∀ b, cfg.writable b = true) {s : L K R} {m : Spec K R} (h : Inv s m) (k : K) :
    Inv (removeUnit cfg s k).1 (upd m k none) ∧ (removeUnit cfg s k).2 = .ok ∧
    (Ghostfree s → Ghostfree (removeUnit cfg s k).1) := by
  have hic : ∀ p ∈ (s.itemCache.remove k).items, p.2.agrees (upd m k none p.1) := by
    intro p hp
    obtain ⟨hp', hne⟩ := Lru.mem_remove.1 hp
    simp only [upd, hne, if_false]
    exact h.ic_ok p hp'
  unfold removeUnit removeUnitWith
  simp only []
  cases hi : alookup k s.index with
  | none =>
    have hmk : m k = none := by
      have : (m k).isSome = false := by rw [← h.idx_dom k, hi]; rfl
      cases hm : m k <;> simp_all
    have hupd : upd m k none = m := by
      funext k'; simp only [upd]; by_cases e : k' = k <;> simp [e, hmk]
    simp only []
    rw [hupd] at hic ⊢
    exact ⟨h.with_itemCache _ hic, trivial, fun g => g⟩
  | some ob =>
    -- facts shared by both branches: the index loses `k`
    have hidx : ∀ k', alookup k' (aerase k s.index) = if k' = k then none else alookup k' s.index :=
      fun k' => alookup_aerase k k' s.index
    cases ob with
    | none =>
      simp only []
      by_cases ha : (alookup k s.active).isSome = true
      · simp only [ha, if_true]
        refine ⟨?_, trivial, ?_⟩
        · refine ⟨?_, ?_, ?_, ?_, ?_, ?_, ?_, ?_, ?_, ?_, ?_⟩
          · intro k'
            simp only [hidx, upd]
            by_cases e : k' = k
            · simp [e]
            · simp [e, h.idx_dom k']
          · intro k' r hk
            simp only [alookup_aerase] at hk
            simp only [hidx, upd]
            by_cases e : k' = k
            · simp [e] at hk
            · simp only [e, if_false] at hk ⊢
              exact h.active_ok k' r hk
          · intro k' hi' ha'
            simp only [hidx] at hi'
            simp only [alookup_aerase] at ha'
            simp only [upd]
            by_cases e : k' = k
            · simp [e] at hi'
            · simp only [e, if_false] at hi' ha' ⊢
              exact h.ghost k' hi' ha'
          · intro k' b hi'
            simp only [hidx] at hi'
            simp only [upd]
            by_cases e : k' = k
            · simp [e] at hi'
            · simp only [e, if_false] at hi' ⊢
              exact h.idx_disk k' b hi'
          · exact h.bc_ok
          · exact hic
          · intro k' b hi'
            simp only [hidx] at hi'
            by_cases e : k' = k
            · simp [e] at hi'
            · simp only [e, if_false] at hi'
              exact h.idx_lt k' b hi'
          · exact h.bc_lt
          · have h1 := rowsSum_aerase (k := k) h.active_nodup
            have h2 := activeRows_le h k
            have h3 := h.len_ok
            rw [activeRows_eq] at h2
            simp only [activeRows_eq] at h1 ⊢
            omega
          · exact nodup_aerase h.active_nodup
          · exact nodup_aerase h.index_nodup
        · intro g k' hi'
          simp only [hidx] at hi'
          simp only [alookup_aerase]
          by_cases e : k' = k
          · simp [e] at hi'
          · simp only [e, if_false] at hi' ⊢
            exact g k' hi'
      · have ha' : alookup k s.active = none := by
          cases hx : alookup k s.active <;> simp_all
        simp only [ha, Bool.false_eq_true, if_false, if_true]
        refine ⟨?_, trivial, ?_⟩
        · refine ⟨?_, ?_, ?_, ?_, ?_, ?_, ?_, ?_, ?_, ?_, ?_⟩
          · intro k'
            simp only [hidx, upd]
            by_cases e : k' = k
            · simp [e]
            · simp [e, h.idx_dom k']
          · intro k' r hk
            simp only [hidx, upd]
            by_cases e : k' = k
            · rw [e, ha'] at hk; cases hk
            · simp only [e, if_false]
              exact h.active_ok k' r hk
          · intro k' hi' hak
            simp only [hidx] at hi'
            simp only [upd]
            by_cases e : k' = k
            · simp [e] at hi'
            · simp only [e, if_false] at hi' ⊢
              exact h.ghost k' hi' hak
          · intro k' b hi'
            simp only [hidx] at hi'
            simp only [upd]
            by_cases e : k' = k
            · simp [e] at hi'
            · simp only [e, if_false] at hi' ⊢
              exact h.idx_disk k' b hi'
          · exact h.bc_ok
          · exact hic
          · intro k' b hi'
            simp only [hidx] at hi'
            by_cases e : k' = k
            · simp [e] at hi'
            · simp only [e, if_false] at hi'
              exact h.idx_lt k' b hi'
          · exact h.bc_lt
          · exact h.len_ok
          · exact h.active_nodup
          · exact nodup_aerase h.index_nodup
        · intro g k' hi'
          simp only [hidx] at hi'
          by_cases e : k' = k
          · simp [e] at hi'
          · simp only [e, if_false] at hi'
            exact g k' hi'
    | some n =>
      obtain ⟨bf, hd, hcols, _⟩ := h.idx_disk k n hi
      simp only [hd, hcols, if_true, hw]
      refine ⟨?_, trivial, ?_⟩
      · refine ⟨?_, ?_, ?_, ?_, ?_, ?_, ?_, ?_, ?_, ?_, ?_⟩
        · intro k'
          simp only [hidx, upd]
          by_cases e : k' = k
          · simp [e]
          · simp [e, h.idx_dom k']
        · intro k' r hk
          simp only [hidx, upd]
          by_cases e : k' = k
          · have := (h.active_ok k' r hk).1
            rw [e, hi] at this; cases this
          · simp only [e, if_false]
            exact h.active_ok k' r hk
        · intro k' hi' hak
          simp only [hidx] at hi'
          simp only [upd]
          by_cases e : k' = k
          · simp [e] at hi'
          · simp only [e, if_false] at hi' ⊢
            exact h.ghost k' hi' hak
        · intro k' b hi'
          simp only [hidx] at hi'
          simp only [upd]
          by_cases e : k' = k
          · simp [e] at hi'
          · simp only [e, if_false] at hi' ⊢
            obtain ⟨bf', hd', hc', hm'⟩ := h.idx_disk k' b hi'
            by_cases eb : b = n
            · subst eb
              have : bf' = bf := by rw [hd] at hd'; cases hd'; rfl
              subst this
              refine ⟨_, (by rw [alookup_aset, if_pos rfl]), ?_, ?_⟩
              · first | rfl | exact hc'
              · simp only [rowsOf, alookup_aerase, e, if_false]
                exact hm'
            · refine ⟨bf', ?_, hc', hm'⟩
              rw [alookup_aset]; simp [eb, hd']
        · intro p hp
          obtain ⟨hp', hne⟩ := Lru.mem_remove.1 hp
          rw [alookup_aset]
          simp [hne, h.bc_ok p hp']
        · exact hic
        · intro k' b hi'
          simp only [hidx] at hi'
          by_cases e : k' = k
          · simp [e] at hi'
          · simp only [e, if_false] at hi'
            exact h.idx_lt k' b hi'
        · intro p hp
          exact h.bc_lt p (Lru.mem_remove.1 hp).1
        · exact h.len_ok
        · exact h.active_nodup
        · exact nodup_aerase h.index_nodup
      · intro g k' hi'
        simp only [hidx] at hi'
        by_cases e : k' = k
        · simp [e] at hi'
        · simp only [e, if_false] at hi'
          exact g k' hi'

/-! ### reopening from the files -/

/-- the index `restore_indexing` builds -/
def restoreIndex (rows : List (K × Option Nat)) (init : List (K × Option Nat)) : List (K × Option Nat) :=
  rows.foldl (fun i p => aset p.1 p.2 i) init

def restoreCount (rows : List (K × Option Nat)) (init : Nat) : Nat :=
  rows.foldl (fun c p => max c (bNext p.2)) init

theorem restoreCount_cons (p : K × Option Nat) (l : List (K × Option Nat)) (init : Nat) :
    restoreCount (p :: l) init = restoreCount l (max init (bNext p.2)) := rfl

theorem restore_fold (rows : List (K × Option Nat)) (acc : L K R) :
    rows.foldl restoreStep acc =
    { acc with index := restoreIndex rows acc.index, bundleCount := restoreCount rows acc.bundleCount } := by
  induction rows generalizing acc with
  | nil => rfl
  | cons p l ih =>
    rw [List.foldl_cons, ih]
    rfl

theorem alookup_restoreIndex {rows : List (K × Option Nat)} (hn : (akeys rows).Nodup) (init : List (K × Option Nat)) (k : K) :
    alookup k (restoreIndex rows init) = match alookup k rows with | some v => some v | none => alookup k init := by
  induction rows generalizing init with
  | nil => rfl
  | cons p l ih =>
    obtain ⟨k₀, b₀⟩ := p
    simp only [akeys, List.map_cons, List.nodup_cons] at hn
    simp only [restoreIndex, List.foldl_cons] at ih ⊢
    rw [ih hn.2, alookup_cons, alookup_aset]
    by_cases e : k₀ = k
    · subst e
      have : alookup k₀ l = none := alookup_none_iff.2 hn.1
      simp [this]
    · have : ¬ k = k₀ := fun h => e h.symm
      simp [e, this]

theorem nodup_restoreIndex (rows : List (K × Option Nat)) {init : List (K × Option Nat)} (h : (akeys init).Nodup) :
    (akeys (restoreIndex rows init)).Nodup := by
  induction rows generalizing init with
  | nil => exact h
  | cons p l ih => exact ih (nodup_aset h)

theorem le_restoreCount (rows : List (K × Option Nat)) (init : Nat) : init ≤ restoreCount rows init := by
  induction rows generalizing init with
  | nil => exact Nat.le_refl _
  | cons p l ih =>
    rw [restoreCount_cons]
    exact Nat.le_trans (Nat.le_max_left _ _) (ih _)

theorem lt_restoreCount {rows : List (K × Option Nat)} {k : K} {b : Nat} (h : (k, some b) ∈ rows) (init : Nat) :
    b < restoreCount rows init := by
  induction rows generalizing init with
  | nil => simp at h
  | cons p l ih =>
    rw [restoreCount_cons]
    rcases List.mem_cons.1 h with e | h'
    · subst e
      show b < restoreCount l (max init (b + 1))
      have h1 := le_restoreCount l (max init (b + 1))
      have h2 : b + 1 ≤ max init (b + 1) := Nat.le_max_right _ _
      omega
    · exact ih h' _

theorem restore_exportIndexing (cfg : Cfg K R) (s1 : L K R) :
    restore cfg (exportIndexing s1) =
      { L.init cfg with disk := s1.disk, diskIndex := some s1.index, log := s1.log,
                        index := restoreIndex s1.index [], bundleCount := restoreCount s1.index 0 } := by
  unfold restore exportIndexing
  simp only [restore_fold]
  rfl

theorem reopen_ok (cfg : Cfg K R) (hw : ∀ b, cfg.writable b = true) {s : L K R} {m : Spec K R} (h : Inv s m) :
    Inv (restore cfg (exportIndexing (doExport cfg s))) m := by
  obtain ⟨h1, _, hlen⟩ := export_ok cfg hw h
  generalize doExport cfg s = s1 at h1 hlen
  rw [restore_exportIndexing]
  have hlook : ∀ k, alookup k (restoreIndex s1.index ([] : List (K × Option Nat))) = alookup k s1.index := by
    intro k
    rw [alookup_restoreIndex h1.index_nodup]
    cases alookup k s1.index <;> rfl
  refine ⟨?_, ?_, ?_, ?_, ?_, ?_, ?_, ?_, ?_, ?_, ?_⟩
  · intro k; simp only [hlook]; exact h1.idx_dom k
  · intro k rows hk; simp [L.init] at hk
  · intro k hi _
    simp only [hlook] at hi
    cases ha : alookup k s1.active with
    | none => exact h1.ghost k hi ha
    | some rows =>
      have hz : rowsSum s1.active = 0 := by rw [← h1.len_ok]; exact hlen
      have := rows_nil_of_rowsSum_zero hz ha
      subst this
      exact (h1.active_ok k [] ha).2
  · intro k b hi
    simp only [hlook] at hi
    exact h1.idx_disk k b hi
  · intro p hp; simp [L.init, Lru.empty] at hp
  · intro p hp; simp [L.init, Lru.empty] at hp
  · intro k b hi
    simp only [hlook] at hi
    exact lt_restoreCount (alookup_mem hi) _
  · intro p hp; simp [L.init, Lru.empty] at hp
  · simp [L.init]
  · simp [L.init, akeys]
  · exact nodup_restoreIndex _ (by simp [akeys])

/-! ### whole runs -/

/-- one step of the repaired loader preserves the invariant and answers as the specification says -/
theorem step_ok (cfg : Cfg K R) (hw : ∀ b, cfg.writable b = true) (hq : cfg.queryOk = true)
    {s : L K R} {m : Spec K R} (h : Inv s m) (op : Op K R) (hop : ∀ x : Unit, op ≠ .restore) :
    Inv (step cfg s op).1 (specStep m op) ∧ OutOk true m op (step cfg s op).2 ∧
    (Ghostfree s → (∀ x : Unit, op ≠ .reopen) →
      Ghostfree (step cfg s op).1 ∧ OutOk false m op (step cfg s op).2) := by
  cases op with
  | save k rows =>
    have := save_ok cfg hw h k rows
    exact ⟨this.1, trivial, fun g _ => ⟨this.2 g, trivial⟩⟩
  | get k =>
    obtain ⟨h1, hi, ha, g1, g2⟩ := get_ok cfg hq h k
    refine ⟨h1, g1, fun g _ => ⟨?_, g2 g⟩⟩
    intro k' hk
    have : (step cfg s (.get k)).1 = (get cfg s k).1 := rfl
    rw [this, hi] at hk
    rw [this, ha]
    exact g k' hk
  | contain k =>
    have : contain s k = (m k).isSome := h.idx_dom k
    exact ⟨h, this, fun g _ => ⟨g, this⟩⟩
  | exp =>
    have := export_ok cfg hw h
    exact ⟨this.1, trivial, fun g _ => ⟨this.2.1 g, trivial⟩⟩
  | exportIndexing =>
    refine ⟨⟨h.idx_dom, h.active_ok, h.ghost, h.idx_disk, h.bc_ok, h.ic_ok, h.idx_lt, h.bc_lt, h.len_ok,
      h.active_nodup, h.index_nodup⟩, trivial, fun g _ => ⟨g, trivial⟩⟩
  | removeUnit k =>
    obtain ⟨h1, h2, h3⟩ := removeUnit_ok cfg hw h k
    exact ⟨h1, h2, fun g _ => ⟨h3 g, h2⟩⟩
  | restore => exact absurd rfl (hop ())
  | reopen =>
    refine ⟨reopen_ok cfg hw h, trivial, fun _ hne => absurd rfl (hne ())⟩

theorem run_ok_from (cfg : Cfg K R) (hw : ∀ b, cfg.writable b = true) (hq : cfg.queryOk = true)
    (ops : List (Op K R)) : ∀ (s : L K R) (m : Spec K R), Inv s m → noRestore ops = true →
      RunOk true m ops (run (step cfg) s ops).2 ∧ Inv (run (step cfg) s ops).1 (specRun m ops) := by
  induction ops with
  | nil => intro s m h _; exact ⟨trivial, h⟩
  | cons op ops ih =>
    intro s m h hn
    have hop : ∀ x : Unit, op ≠ .restore := by
      intro _ e; subst e; simp [noRestore] at hn
    have hn' : noRestore ops = true := by
      cases op <;> simp_all [noRestore]
    obtain ⟨h1, o1, _⟩ := step_ok cfg hw hq h op hop
    obtain ⟨r1, r2⟩ := ih _ _ h1 hn'
    exact ⟨⟨o1, r1⟩, r2⟩

theorem run_exact_from (cfg : Cfg K R) (hw : ∀ b, cfg.writable b = true) (hq : cfg.queryOk = true)
    (ops : List (Op K R)) : ∀ (s : L K R) (m : Spec K R), Inv s m → Ghostfree s → noReopen ops = true →
      RunOk false m ops (run (step cfg) s ops).2 := by
  induction ops with
  | nil => intro s m _ _ _; trivial
  | cons op ops ih =>
    intro s m h g hn
    have hop : ∀ x : Unit, op ≠ .restore := by
      intro _ e; subst e; simp [noReopen] at hn
    have hop2 : ∀ x : Unit, op ≠ .reopen := by
      intro _ e; subst e; simp [noReopen] at hn
    have hn' : noReopen ops = true := by
      cases op <;> simp_all [noReopen]
    obtain ⟨h1, _, h3⟩ := step_ok cfg hw hq h op hop
    obtain ⟨g1, o1⟩ := h3 g hop2
    exact ⟨o1, ih _ _ h1 g1 hn'⟩

theorem noRestore_append_reopen (ops : List (Op K R)) (hn : noRestore ops = true) :
    noRestore (ops ++ [Op.reopen]) = true := by
  induction ops with
  | nil => rfl
  | cons op ops ih => cases op <;> simp_all [noRestore]

theorem specRun_append_reopen (ops : List (Op K R)) (m : Spec K R) :
    specRun m (ops ++ [.reopen]) = specRun m ops := by
  induction ops generalizing m with
  | nil => rfl
  | cons op ops ih => simp only [List.cons_append, specRun]; exact ih _

end LianVerif.Loader
