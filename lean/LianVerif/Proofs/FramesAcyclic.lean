/-
C07, acyclic case: if the call relation the oracle can produce is well-founded (ranked), the driver
descends into every call site it is shown.  Helper lemmas and the run invariant; the property theorem
is in Properties/C07.lean.
-/
import LianVerif.Proofs.Frames

namespace LianVerif.Frames
open LianVerif.PathStore LianVerif.MaxPaths

/-- a frame was pushed for this call site -/
def Created (log : List Event) (site : Site) : Prop := ∃ n, Event.create n site ∈ log

/-- some frame on the stack still has to push a frame for this call site -/
def PendingIn (stack : List Frame) (site : Site) : Prop := ∃ f ∈ stack, (site, false) ∈ f.caa

theorem Created.mono {log log' : List Event} (h : ∀ e ∈ log, e ∈ log') {site : Site}
    (hc : Created log site) : Created log' site := by
  obtain ⟨n, hn⟩ := hc; exact ⟨n, h _ hn⟩

theorem createdFor_iff (log : List Event) (site : Site) : createdFor log site = true ↔ Created log site := by
  simp only [createdFor, List.any_eq_true, Created]
  constructor
  · rintro ⟨e, he, hm⟩
    cases e with
    | create n s => simp only [beq_iff_eq] at hm; subst hm; exact ⟨n, he⟩
    | init n m p ok => simp at hm
    | cts n m st cs d rs => simp at hm
    | pop n => simp at hm
  · rintro ⟨n, hn⟩; exact ⟨_, hn, by simp⟩

/-! ### rank-decreasing call paths close no cycle -/

/-- `p` is a call path from method `a` to method `m` along which the rank strictly decreases -/
inductive ChainTo (rk : Nat → Nat) : Nat → List Site → Nat → Prop
  | nil (a : Nat) : ChainTo rk a [] a
  | cons (a s c : Nat) (p : List Site) (m : Nat) : rk c < rk a → ChainTo rk c p m →
      ChainTo rk a ((a, s, c) :: p) m

theorem ChainTo.append {rk : Nat → Nat} {a : Nat} {p : List Site} {m : Nat} (h : ChainTo rk a p m)
    (s c : Nat) (hc : rk c < rk m) : ChainTo rk a (p ++ [(m, s, c)]) c := by
  induction h with
  | nil a => exact ChainTo.cons a s c [] c hc (ChainTo.nil c)
  | cons a s' c' p m hlt _ ih => exact ChainTo.cons a s' c' _ c hlt (ih hc)

theorem ChainTo.cyclesAux {rk : Nat → Nat} {a : Nat} {p : List Site} {m : Nat} (h : ChainTo rk a p m) :
    ∀ (visited : List Nat), (∀ v ∈ visited, rk a ≤ rk v) → countCyclesAux p visited = 0 := by
  induction h with
  | nil a => intro visited _; rfl
  | cons a s c p m hlt _ ih =>
    intro visited hv
    simp only [countCyclesAux, Site.callee, Site.caller]
    have hnot : visited.contains c = false := by
      rw [Bool.eq_false_iff]; intro hc
      have := hv c (List.contains_iff_mem.1 hc); omega
    simp only [hnot, Bool.false_eq_true, if_false, Nat.zero_add]
    apply ih
    intro v hv'
    rcases List.mem_cons.1 hv' with rfl | hv'
    · exact Nat.le_refl _
    · rcases List.mem_cons.1 hv' with rfl | hv'
      · omega
      · have := hv v hv'; omega

theorem ChainTo.cycles {rk : Nat → Nat} {a : Nat} {p : List Site} {m : Nat} (h : ChainTo rk a p m) :
    countCycles p = 0 := h.cyclesAux [] (by simp)

/-! ### content_already_analyzed lookups -/

theorem caaGet_true_mem {c : Caa} {s : Site} (h : caaGet c s = true) : (s, true) ∈ c := by
  induction c with
  | nil => simp [caaGet] at h
  | cons kv rest ih =>
    obtain ⟨k, v⟩ := kv
    simp only [caaGet] at h
    split at h
    · rename_i hk; subst hk; subst h; exact List.mem_cons_self
    · exact List.mem_cons_of_mem _ (ih h)

theorem firstFalse_none_mem {c : Caa} (h : firstFalse c = none) (s : Site) : (s, false) ∉ c := by
  induction c with
  | nil => simp
  | cons kv rest ih =>
    obtain ⟨k, v⟩ := kv
    cases v with
    | false => simp [firstFalse] at h
    | true =>
      simp only [firstFalse, if_true] at h
      cases hr : firstFalse rest with
      | none =>
        intro hm
        rcases List.mem_cons.1 hm with hm | hm
        · simp at hm
        · exact ih hr hm
      | some x => rw [hr] at h; obtain ⟨a, b⟩ := x; simp at h

/-- effect of the scan that picks the next child -/
theorem firstFalse_some_mem {c : Caa} {k : Site} {c' : Caa} (h : firstFalse c = some (k, c')) :
    (k, false) ∈ c ∧ (k, true) ∈ c' ∧
    (∀ s, (s, false) ∈ c → s = k ∨ (s, false) ∈ c') ∧
    (∀ s, (s, false) ∈ c' → (s, false) ∈ c) ∧
    (∀ s, (s, true) ∈ c' → s = k ∨ (s, true) ∈ c) ∧
    (∀ kv ∈ c', ∃ b, (kv.1, b) ∈ c) := by
  induction c generalizing c' with
  | nil => simp [firstFalse] at h
  | cons kv rest ih =>
    obtain ⟨k0, v⟩ := kv
    cases v with
    | false =>
      simp only [firstFalse, Bool.false_eq_true, if_false, Option.some.injEq, Prod.mk.injEq] at h
      obtain ⟨rfl, rfl⟩ := h
      refine ⟨List.mem_cons_self, List.mem_cons_self, ?_, ?_, ?_, ?_⟩
      · intro s hs
        rcases List.mem_cons.1 hs with hs | hs
        · left; simp only [Prod.mk.injEq, and_true] at hs; exact hs
        · right; exact List.mem_cons_of_mem _ hs
      · intro s hs
        rcases List.mem_cons.1 hs with hs | hs
        · simp at hs
        · exact List.mem_cons_of_mem _ hs
      · intro s hs
        rcases List.mem_cons.1 hs with hs | hs
        · left; simp only [Prod.mk.injEq, and_true] at hs; exact hs
        · right; exact List.mem_cons_of_mem _ hs
      · intro kv hkv
        rcases List.mem_cons.1 hkv with rfl | hkv
        · exact ⟨false, List.mem_cons_self⟩
        · exact ⟨kv.2, List.mem_cons_of_mem _ hkv⟩
    | true =>
      simp only [firstFalse, if_true] at h
      cases hr : firstFalse rest with
      | none => rw [hr] at h; simp at h
      | some x =>
        obtain ⟨a, b⟩ := x
        rw [hr] at h
        simp only [Option.some.injEq, Prod.mk.injEq] at h
        obtain ⟨rfl, rfl⟩ := h
        obtain ⟨i1, i2, i3, i4, i5, i6⟩ := ih hr
        refine ⟨List.mem_cons_of_mem _ i1, List.mem_cons_of_mem _ i2, ?_, ?_, ?_, ?_⟩
        · intro s hs
          rcases List.mem_cons.1 hs with hs | hs
          · simp at hs
          · rcases i3 s hs with h' | h'
            · exact Or.inl h'
            · exact Or.inr (List.mem_cons_of_mem _ h')
        · intro s hs
          rcases List.mem_cons.1 hs with hs | hs
          · simp at hs
          · exact List.mem_cons_of_mem _ (i4 s hs)
        · intro s hs
          rcases List.mem_cons.1 hs with hs | hs
          · right; rw [hs]; exact List.mem_cons_self
          · rcases i5 s hs with h' | h'
            · exact Or.inl h'
            · exact Or.inr (List.mem_cons_of_mem _ h')
        · intro kv hkv
          rcases List.mem_cons.1 hkv with rfl | hkv
          · exact ⟨true, List.mem_cons_self⟩
          · obtain ⟨b', hb'⟩ := i6 kv hkv
            exact ⟨b', List.mem_cons_of_mem _ hb'⟩

theorem caaHas_iff (d : Caa) (s : Site) : caaHas d s = true ↔ ∃ b, (s, b) ∈ d := by
  induction d with
  | nil => simp [caaHas]
  | cons kv rest ih =>
    obtain ⟨k, v⟩ := kv
    simp only [caaHas]
    split
    · rename_i hk; subst hk
      simp only [true_iff]; exact ⟨v, List.mem_cons_self⟩
    · rename_i hk
      rw [ih]
      constructor
      · rintro ⟨b, hb⟩; exact ⟨b, List.mem_cons_of_mem _ hb⟩
      · rintro ⟨b, hb⟩
        rcases List.mem_cons.1 hb with hb | hb
        · simp only [Prod.mk.injEq] at hb; exact absurd hb.1.symm hk
        · exact ⟨b, hb⟩

/-- the dictionary built at an interruption: exactly the selected callees, all marked False -/
theorem newCaa_mem (m stmt : Nat) (acc : List Nat) :
    (∀ c ∈ acc, ((m, stmt, c), false) ∈ newCaa m stmt acc) ∧
    (∀ kv ∈ newCaa m stmt acc, ∃ c ∈ acc, kv = ((m, stmt, c), false)) := by
  unfold newCaa
  suffices h : ∀ (d : Caa),
      (∀ kv ∈ d, kv.2 = false) →
      (∀ kv ∈ d, kv ∈ acc.foldl (fun d c => if caaHas d (m, stmt, c) then d else d ++ [((m, stmt, c), false)]) d) ∧
      (∀ c ∈ acc, ((m, stmt, c), false) ∈
        acc.foldl (fun d c => if caaHas d (m, stmt, c) then d else d ++ [((m, stmt, c), false)]) d) ∧
      (∀ kv ∈ acc.foldl (fun d c => if caaHas d (m, stmt, c) then d else d ++ [((m, stmt, c), false)]) d,
        kv ∈ d ∨ ∃ c ∈ acc, kv = ((m, stmt, c), false)) by
    obtain ⟨_, h2, h3⟩ := h [] (by simp)
    refine ⟨h2, ?_⟩
    intro kv hkv
    rcases h3 kv hkv with h' | h'
    · simp at h'
    · exact h'
  induction acc with
  | nil => intro d _; simp
  | cons c cs ih =>
    intro d hd
    simp only [List.foldl_cons]
    split
    · rename_i hhas
      obtain ⟨i1, i2, i3⟩ := ih d hd
      refine ⟨i1, ?_, ?_⟩
      · intro c' hc'
        rcases List.mem_cons.1 hc' with rfl | hc'
        · obtain ⟨b, hb⟩ := (caaHas_iff d _).1 hhas
          have : b = false := hd _ hb
          subst this
          exact i1 _ hb
        · exact i2 c' hc'
      · intro kv hkv
        rcases i3 kv hkv with h' | ⟨c', hc', rfl⟩
        · exact Or.inl h'
        · exact Or.inr ⟨c', List.mem_cons_of_mem _ hc', rfl⟩
    · have hd' : ∀ kv ∈ d ++ [((m, stmt, c), false)], kv.2 = false := by
        intro kv hkv
        rcases List.mem_append.1 hkv with h' | h'
        · exact hd kv h'
        · rw [List.mem_singleton] at h'; subst h'; rfl
      obtain ⟨i1, i2, i3⟩ := ih (d ++ [((m, stmt, c), false)]) hd'
      refine ⟨fun kv hkv => i1 kv (List.mem_append_left _ hkv), ?_, ?_⟩
      · intro c' hc'
        rcases List.mem_cons.1 hc' with rfl | hc'
        · exact i1 _ (List.mem_append_right _ (List.mem_singleton.2 rfl))
        · exact i2 c' hc'
      · intro kv hkv
        rcases i3 kv hkv with h' | ⟨c', hc', rfl⟩
        · rcases List.mem_append.1 h' with h' | h'
          · exact Or.inl h'
          · rw [List.mem_singleton] at h'; subst h'
            exact Or.inr ⟨c, List.mem_cons_self, rfl⟩
        · exact Or.inr ⟨c', List.mem_cons_of_mem _ hc', rfl⟩

/-! ### the cut-off loops under a ranked (acyclic) call relation -/

/-- facts about the top frame `f` of `stack` that stay fixed while `analyze` runs -/
structure TopFacts (rk : Nat → Nat) (log : List Event) (stack : List Frame) (f : Frame) : Prop where
  noPend : ∀ site : Site, site.caller = f.method → ¬ PendingIn stack site
  caaTrue : ∀ site, (site, true) ∈ f.caa → Created log site
  chain : ∃ a, ChainTo rk a f.path f.method

/-- a callee that fails the cut-off test already has a frame (or was selected just before) -/
theorem not_descend_created {max : Nat} {rk : Nat → Nat} {log : List Event} {stack : List Frame} {f : Frame}
    {st : Store Site} {ctr : Counter} (tf : TopFacts rk log stack f) (acc : List Nat) (stmt c : Nat)
    (hrk : rk c < rk f.method)
    (htouched : ∀ site, 0 < ctrGet ctr site →
      Created log site ∨ PendingIn stack site ∨ ∃ c' ∈ acc, site = (f.method, stmt, c'))
    (hstore : ∀ p ∈ st.terms, ∀ site ∈ p, 0 < ctrGet ctr site ∨ Created log site)
    (hnd : descendOk max st f ctr stmt c = false) :
    Created log (f.method, stmt, c) ∨ c ∈ acc := by
  have key : 0 < ctrGet ctr (f.method, stmt, c) → Created log (f.method, stmt, c) ∨ c ∈ acc := by
    intro h0
    rcases htouched _ h0 with h | h | ⟨c', hc', he⟩
    · exact Or.inl h
    · exact absurd h (tf.noPend _ rfl)
    · simp only [Prod.mk.injEq, true_and] at he; subst he; exact Or.inr hc'
  simp only [descendOk, Bool.not_eq_false', Bool.or_eq_true, decide_eq_true_eq] at hnd
  rcases hnd with ((hA | hB) | hC) | hD
  · have hm : (f.method, stmt, c) ∈ f.path ++ [(f.method, stmt, c)] := by simp
    rcases hstore _ (List.contains_iff_mem.1 hA) _ hm with h | h
    · exact key h
    · exact Or.inl h
  · obtain ⟨a, ha⟩ := tf.chain
    have := (ha.append stmt c hrk).cycles
    omega
  · exact Or.inl (tf.caaTrue _ (caaGet_true_mem hC))
  · exact key (by omega)

theorem firstLoop_acyc {max : Nat} {rk : Nat → Nat} {log : List Event} {stack : List Frame} {f : Frame}
    {st : Store Site} (tf : TopFacts rk log stack f) (stmt : Nat) (cs : List Nat)
    (hrk : ∀ c ∈ cs, rk c < rk f.method)
    (hstore0 : ∀ (ctr : Counter), True) :
    ∀ (ctr : Counter) (acc : List Nat),
      (∀ site, 0 < ctrGet ctr site →
        Created log site ∨ PendingIn stack site ∨ ∃ c' ∈ acc, site = (f.method, stmt, c')) →
      (∀ p ∈ st.terms, ∀ site ∈ p, 0 < ctrGet ctr site ∨ Created log site) →
      (∀ site, 0 < ctrGet (firstLoop max st f stmt cs ctr acc).1 site →
        Created log site ∨ PendingIn stack site ∨
          ∃ c' ∈ (firstLoop max st f stmt cs ctr acc).2, site = (f.method, stmt, c')) ∧
      (∀ c ∈ cs, Created log (f.method, stmt, c) ∨ c ∈ (firstLoop max st f stmt cs ctr acc).2) ∧
      (∀ c ∈ acc, c ∈ (firstLoop max st f stmt cs ctr acc).2) ∧
      (∀ c ∈ (firstLoop max st f stmt cs ctr acc).2, c ∈ acc ∨ c ∈ cs) ∧
      (∀ site, ctrGet ctr site ≤ ctrGet (firstLoop max st f stmt cs ctr acc).1 site) := by
  induction cs with
  | nil =>
    intro ctr acc ht _
    simp only [firstLoop]
    exact ⟨ht, by simp, fun c hc => hc, fun c hc => Or.inl hc, fun _ => Nat.le_refl _⟩
  | cons c cs ih =>
    intro ctr acc ht hs
    have hrk' : ∀ c' ∈ cs, rk c' < rk f.method := fun c' hc' => hrk c' (List.mem_cons_of_mem _ hc')
    simp only [firstLoop]
    split
    · -- selected
      have ht' : ∀ site, 0 < ctrGet (ctrInc ctr (f.method, stmt, c)) site →
          Created log site ∨ PendingIn stack site ∨ ∃ c' ∈ acc ++ [c], site = (f.method, stmt, c') := by
        intro site h0
        by_cases he : (f.method, stmt, c) = site
        · exact Or.inr (Or.inr ⟨c, by simp, he.symm⟩)
        · rw [ctrGet_ctrInc_ne _ he] at h0
          rcases ht site h0 with h | h | ⟨c', hc', rfl⟩
          · exact Or.inl h
          · exact Or.inr (Or.inl h)
          · exact Or.inr (Or.inr ⟨c', List.mem_append_left _ hc', rfl⟩)
      have hs' : ∀ p ∈ st.terms, ∀ site ∈ p, 0 < ctrGet (ctrInc ctr (f.method, stmt, c)) site ∨ Created log site := by
        intro p hp site hsite
        rcases hs p hp site hsite with h | h
        · left; have := ctrGet_ctrInc_ge ctr (f.method, stmt, c) site; omega
        · exact Or.inr h
      obtain ⟨i1, i2, i3, i4, i5⟩ := ih hrk' (ctrInc ctr (f.method, stmt, c)) (acc ++ [c]) ht' hs'
      refine ⟨i1, ?_, fun c' hc' => i3 c' (List.mem_append_left _ hc'), ?_, ?_⟩
      · intro c' hc'
        rcases List.mem_cons.1 hc' with rfl | hc'
        · exact Or.inr (i3 _ (by simp))
        · exact i2 c' hc'
      · intro c' hc'
        rcases i4 c' hc' with h | h
        · rcases List.mem_append.1 h with h | h
          · exact Or.inl h
          · rw [List.mem_singleton] at h; subst h; exact Or.inr List.mem_cons_self
        · exact Or.inr (List.mem_cons_of_mem _ h)
      · intro site
        have := ctrGet_ctrInc_ge ctr (f.method, stmt, c) site
        have := i5 site
        omega
    · -- refused
      rename_i hnd
      have hnd' : descendOk max st f ctr stmt c = false := by simpa using hnd
      obtain ⟨i1, i2, i3, i4, i5⟩ := ih hrk' ctr acc ht hs
      refine ⟨i1, ?_, i3, ?_, i5⟩
      · intro c' hc'
        rcases List.mem_cons.1 hc' with rfl | hc'
        · rcases not_descend_created tf acc stmt _ (hrk _ List.mem_cons_self) ht hs hnd' with h | h
          · exact Or.inl h
          · exact Or.inr (i3 _ h)
        · exact i2 c' hc'
      · intro c' hc'
        rcases i4 c' hc' with h | h
        · exact Or.inl h
        · exact Or.inr (List.mem_cons_of_mem _ h)

/-- the loop invariant of `analyze` (the state that changes from invocation to invocation) -/
structure LoopInv (log : List Event) (stack : List Frame) (f : Frame) (st : Store Site) (ctr : Counter) :
    Prop where
  inv : PathStore.Inv st
  touched : ∀ site, 0 < ctrGet ctr site → Created log site ∨ PendingIn stack site
  storeSites : ∀ p ∈ st.terms, ∀ site ∈ p, 0 < ctrGet ctr site ∨ Created log site
  pathSites : ∀ site ∈ f.path, 0 < ctrGet ctr site ∨ Created log site

theorem secondLoop_acyc {log : List Event} {stack : List Frame} {f : Frame} (stmt : Nat) (cs : List Nat)
    (hcr : ∀ c ∈ cs, Created log (f.method, stmt, c)) :
    ∀ (ctr : Counter) (st : Store Site), LoopInv log stack f st ctr →
      LoopInv log stack f (secondLoop f stmt cs ctr st).2 (secondLoop f stmt cs ctr st).1 ∧
      (∀ site, ctrGet ctr site ≤ ctrGet (secondLoop f stmt cs ctr st).1 site) := by
  induction cs with
  | nil => intro ctr st h; simp only [secondLoop]; exact ⟨h, fun _ => Nat.le_refl _⟩
  | cons c cs ih =>
    intro ctr st h
    have hcr' : ∀ c' ∈ cs, Created log (f.method, stmt, c') := fun c' hc' => hcr c' (List.mem_cons_of_mem _ hc')
    have hc := hcr c List.mem_cons_self
    simp only [secondLoop]
    have hge := ctrGet_ctrInc_ge ctr (f.method, stmt, c)
    have hmono : ∀ site, 0 < ctrGet ctr site → 0 < ctrGet (ctrInc ctr (f.method, stmt, c)) site := by
      intro site h0; have := hge site; omega
    have ht' : ∀ site, 0 < ctrGet (ctrInc ctr (f.method, stmt, c)) site → Created log site ∨ PendingIn stack site := by
      intro site h0
      by_cases he : (f.method, stmt, c) = site
      · subst he; exact Or.inl hc
      · rw [ctrGet_ctrInc_ne _ he] at h0; exact h.touched site h0
    have hp' : ∀ site ∈ f.path, 0 < ctrGet (ctrInc ctr (f.method, stmt, c)) site ∨ Created log site := by
      intro site hs
      rcases h.pathSites site hs with h' | h'
      · exact Or.inl (hmono site h')
      · exact Or.inr h'
    have step : LoopInv log stack f
        (if (f.method != c) = true then (mgrAdd allValid st (f.path ++ [(f.method, stmt, c)])).1 else st)
        (ctrInc ctr (f.method, stmt, c)) := by
      split
      · obtain ⟨a1, _, _, a4⟩ := mgrAdd_props h.inv (f.path ++ [(f.method, stmt, c)])
        refine ⟨a1, ht', ?_, hp'⟩
        intro p hp site hs
        rcases a4 p hp with hp | rfl
        · rcases h.storeSites p hp site hs with h' | h'
          · exact Or.inl (hmono site h')
          · exact Or.inr h'
        · rcases List.mem_append.1 hs with hs | hs
          · exact hp' site hs
          · rw [List.mem_singleton] at hs; subst hs; exact Or.inr hc
      · refine ⟨h.inv, ht', ?_, hp'⟩
        intro p hp site hs
        rcases h.storeSites p hp site hs with h' | h'
        · exact Or.inl (hmono site h')
        · exact Or.inr h'
    obtain ⟨i1, i2⟩ := ih hcr' _ _ step
    refine ⟨i1, ?_⟩
    intro site
    have := hge site; have := i2 site; omega

theorem analyze_create_mem (max : Nat) (f : Frame) (todo : List Inv) (n : Nat) (site : Site) :
    ∀ (st : Store Site) (ctr : Counter) (log : List Event),
      Event.create n site ∈ (analyze max f todo st ctr log).log ↔ Event.create n site ∈ log := by
  induction todo with
  | nil => intro st ctr log; simp [analyze]
  | cons inv rest ih =>
    intro st ctr log
    simp only [analyze]
    split
    · rw [ih]; simp
    · simp

theorem analyze_log_mono (max : Nat) (f : Frame) (todo : List Inv) :
    ∀ (st : Store Site) (ctr : Counter) (log : List Event),
      ∀ e ∈ log, e ∈ (analyze max f todo st ctr log).log := by
  induction todo with
  | nil => intro st ctr log e he; simpa [analyze] using he
  | cons inv rest ih =>
    intro st ctr log e he
    simp only [analyze]
    split
    · exact ih _ _ _ e (List.mem_append_left _ he)
    · exact List.mem_append_left _ he

theorem analyze_init_mem (max : Nat) (f : Frame) (todo : List Inv) (n m : Nat) (p : List Site) (ok : Bool) :
    ∀ (st : Store Site) (ctr : Counter) (log : List Event),
      Event.init n m p ok ∈ (analyze max f todo st ctr log).log ↔ Event.init n m p ok ∈ log := by
  induction todo with
  | nil => intro st ctr log; simp [analyze]
  | cons inv rest ih =>
    intro st ctr log
    simp only [analyze]
    split
    · rw [ih]; simp
    · simp

/-- what one call of `analyze` achieves under a ranked call relation (`log0` only fixes `Created`) -/
theorem analyze_acyc {max : Nat} {rk : Nat → Nat} {log0 : List Event} {stack : List Frame} {f : Frame}
    (tf : TopFacts rk log0 stack f) (todo : List Inv)
    (hrk : ∀ inv ∈ todo, ∀ c ∈ inv.callees, rk c < rk f.method) :
    ∀ (st : Store Site) (ctr : Counter) (log : List Event), LoopInv log0 stack f st ctr →
      (∀ site, ctrGet ctr site ≤ ctrGet (analyze max f todo st ctr log).counter site) ∧
      PathStore.Inv (analyze max f todo st ctr log).store ∧
      (∀ p ∈ (analyze max f todo st ctr log).store.terms, ∀ site ∈ p,
          0 < ctrGet (analyze max f todo st ctr log).counter site ∨ Created log0 site) ∧
      (match (analyze max f todo st ctr log).outcome with
       | .finished =>
          (∀ site, 0 < ctrGet (analyze max f todo st ctr log).counter site →
              Created log0 site ∨ PendingIn stack site) ∧
          (∀ inv ∈ todo, ∀ c ∈ inv.callees, Created log0 (f.method, inv.stmt, c))
       | .interrupt stmt acc =>
          ∃ pre inv, todo = pre ++ inv :: (analyze max f todo st ctr log).todo ∧ inv.stmt = stmt ∧
            (∀ c ∈ acc, c ∈ inv.callees) ∧
            (∀ i ∈ pre, ∀ c ∈ i.callees, Created log0 (f.method, i.stmt, c)) ∧
            (∀ c ∈ inv.callees, Created log0 (f.method, stmt, c) ∨ c ∈ acc) ∧
            (∀ site, 0 < ctrGet (analyze max f todo st ctr log).counter site →
              Created log0 site ∨ PendingIn stack site ∨ ∃ c ∈ acc, site = (f.method, stmt, c))) := by
  induction todo with
  | nil =>
    intro st ctr log h
    simp only [analyze]
    exact ⟨fun _ => Nat.le_refl _, h.inv, h.storeSites, h.touched, by simp⟩
  | cons inv rest ih =>
    intro st ctr log h
    have hrk' : ∀ i ∈ rest, ∀ c ∈ i.callees, rk c < rk f.method := fun i hi => hrk i (List.mem_cons_of_mem _ hi)
    have hrk0 := hrk inv List.mem_cons_self
    obtain ⟨f1, f2, f3, f4, f5⟩ := firstLoop_acyc (max := max) (st := st) tf inv.stmt inv.callees hrk0
      (fun _ => trivial) ctr []
      (fun site h0 => by
        rcases h.touched site h0 with h' | h'
        · exact Or.inl h'
        · exact Or.inr (Or.inl h'))
      h.storeSites
    simp only [analyze]
    split
    · -- the invocation runs through
      rename_i hemp
      have hnil : (firstLoop max st f inv.stmt inv.callees ctr []).2 = [] := by
        simpa [List.isEmpty_iff] using hemp
      rw [hnil] at f1 f2
      have hcr : ∀ c ∈ inv.callees, Created log0 (f.method, inv.stmt, c) := by
        intro c hc
        rcases f2 c hc with h' | h'
        · exact h'
        · simp at h'
      have hL1 : LoopInv log0 stack f st (firstLoop max st f inv.stmt inv.callees ctr []).1 := by
        refine ⟨h.inv, ?_, ?_, ?_⟩
        · intro site h0
          rcases f1 site h0 with h' | h' | ⟨c', hc', _⟩
          · exact Or.inl h'
          · exact Or.inr h'
          · simp at hc'
        · intro p hp site hs
          rcases h.storeSites p hp site hs with h' | h'
          · left; have := f5 site; omega
          · exact Or.inr h'
        · intro site hs
          rcases h.pathSites site hs with h' | h'
          · left; have := f5 site; omega
          · exact Or.inr h'
      obtain ⟨s1, s2⟩ := secondLoop_acyc inv.stmt inv.callees hcr _ _ hL1
      obtain ⟨a1, a2, a3, a4⟩ := ih hrk'
        (secondLoop f inv.stmt inv.callees (firstLoop max st f inv.stmt inv.callees ctr []).1 st).2
        (secondLoop f inv.stmt inv.callees (firstLoop max st f inv.stmt inv.callees ctr []).1 st).1
        (log ++ [.cts f.serial f.method inv.stmt inv.callees []
          (reasons max st f inv.stmt inv.callees ctr)]) s1
      refine ⟨?_, a2, a3, ?_⟩
      · intro site
        have := f5 site; have := s2 site; have := a1 site; omega
      · revert a4
        split
        · rintro ⟨b1, b2⟩
          refine ⟨b1, ?_⟩
          intro i hi
          rcases List.mem_cons.1 hi with rfl | hi
          · exact hcr
          · exact b2 i hi
        · rintro ⟨pre, inv', e1, e2, e3, e4, e5, e6⟩
          refine ⟨inv :: pre, inv', ?_, e2, e3, ?_, e5, e6⟩
          · rw [List.cons_append]; exact congrArg (List.cons inv) e1
          · intro i hi
            rcases List.mem_cons.1 hi with rfl | hi
            · exact hcr
            · exact e4 i hi
    · -- the invocation interrupts
      dsimp only
      refine ⟨f5, h.inv, ?_, ?_⟩
      · intro p hp site hs
        rcases h.storeSites p hp site hs with h' | h'
        · left; have := f5 site; omega
        · exact Or.inr h'
      · refine ⟨[], inv, by simp, rfl, ?_, by simp, f2, f1⟩
        intro c hc
        rcases f4 c hc with h' | h'
        · simp at h'
        · exact h'

theorem analyze_covered (max : Nat) (f : Frame) (todo : List Inv) :
    ∀ (st : Store Site) (ctr : Counter) (log : List Event), PathStore.Inv st →
      PathStore.Inv (analyze max f todo st ctr log).store ∧
      (∀ p', Covered st p' → Covered (analyze max f todo st ctr log).store p') := by
  induction todo with
  | nil => intro st ctr log h; simp only [analyze]; exact ⟨h, fun _ hp => hp⟩
  | cons inv rest ih =>
    intro st ctr log h
    simp only [analyze]
    split
    · obtain ⟨b1, b2, _, _⟩ := secondLoop_store f inv.stmt inv.callees
        (firstLoop max st f inv.stmt inv.callees ctr []).1 st h
      obtain ⟨c1, c2⟩ := ih _ _ (log ++ [.cts f.serial f.method inv.stmt inv.callees []
        (reasons max st f inv.stmt inv.callees ctr)]) b1
      exact ⟨c1, fun p' hp' => c2 p' (b2 p' hp')⟩
    · exact ⟨h, fun _ hp => hp⟩

/-! ### the run invariant -/

/-- the oracle's call relation is ranked: every callee it ever shows has a smaller rank than its caller -/
def Ranked (oracle : Oracle) (rk : Nat → Nat) : Prop :=
  ∀ n m inv, inv ∈ (oracle n m).script → ∀ c ∈ inv.callees, rk c < rk m

/-- methods on the stack have strictly increasing rank from the top down -/
def StackRk (rk : Nat → Nat) : List Frame → Prop
  | [] => True
  | f :: rest => (∀ g ∈ rest, rk f.method < rk g.method) ∧ StackRk rk rest

structure AcycInv (oracle : Oracle) (rk : Nat → Nat) (s : St) : Prop where
  sinv : PathStore.Inv s.store
  stackRk : StackRk rk s.stack
  chain : ∀ f ∈ s.stack, ∃ a, ChainTo rk a f.path f.method
  todoRk : ∀ f ∈ s.stack, ∀ inv ∈ f.todo, ∀ c ∈ inv.callees, rk c < rk f.method
  caaKeys : ∀ f ∈ s.stack, ∀ kv ∈ f.caa, kv.1.caller = f.method ∧ rk kv.1.callee < rk f.method
  caaTrue : ∀ f ∈ s.stack, ∀ site, (site, true) ∈ f.caa → Created s.log site
  touched : ∀ site, 0 < ctrGet s.counter site → Created s.log site ∨ PendingIn s.stack site
  storeSites : ∀ p ∈ s.store.terms, ∀ site ∈ p, 0 < ctrGet s.counter site ∨ Created s.log site
  pathSites : ∀ f ∈ s.stack, ∀ site ∈ f.path, 0 < ctrGet s.counter site ∨ Created s.log site
  executed : ∀ f ∈ s.stack, ∃ done, (oracle f.serial f.method).script = done ++ f.todo ∧
      ∀ inv ∈ done, ∀ c ∈ inv.callees,
        Created s.log (f.method, inv.stmt, c) ∨ ((f.method, inv.stmt, c), false) ∈ f.caa
  finished : ∀ n m p, Event.init n m p true ∈ s.log →
      (∃ f ∈ s.stack, f.serial = n ∧ f.method = m) ∨
      (∀ inv ∈ (oracle n m).script, ∀ c ∈ inv.callees, Created s.log (m, inv.stmt, c))
  createdInit : ∀ n site, Event.create n site ∈ s.log →
      ∃ p, Event.init n site.callee p (oracle n site.callee).inits ∈ s.log
  createdEdge : ∀ n site, Event.create n site ∈ s.log → (oracle n site.callee).inits = true →
      EdgeIn s.store site

theorem site_eta (k : Site) : k = (k.caller, k.stmt, k.callee) := rfl

/-- the top frame has nothing pending, and no frame below has the same method -/
theorem top_noPend {rk : Nat → Nat} {f : Frame} {below : List Frame}
    (hrk : StackRk rk (f :: below))
    (hkeys : ∀ g ∈ f :: below, ∀ kv ∈ g.caa, kv.1.caller = g.method ∧ rk kv.1.callee < rk g.method)
    (hff : firstFalse f.caa = none) (site : Site) (hs : site.caller = f.method) :
    ¬ PendingIn (f :: below) site := by
  rintro ⟨g, hg, hm⟩
  rcases List.mem_cons.1 hg with rfl | hg'
  · exact firstFalse_none_mem hff site hm
  · have h1 := (hkeys g hg _ hm).1
    have h2 := hrk.1 g hg'
    simp only at h1
    rw [← h1, hs] at h2
    omega

theorem step_acycInv (max : Nat) (oracle : Oracle) (rk : Nat → Nat) (hR : Ranked oracle rk)
    (s : St) (h : AcycInv oracle rk s) : AcycInv oracle rk (step max oracle s) := by
  cases hst : s.stack with
  | nil => simp only [step, hst]; exact h
  | cons f below =>
    obtain ⟨hsinv, hsrk, hchain, htodo, hkeys, htrue, htouched, hstore, hpath, hexec, hfin, hcinit, hcedge⟩ := h
    rw [hst] at hsrk hchain htodo hkeys htrue htouched hpath hexec hfin
    have hf := List.mem_cons_self (a := f) (l := below)
    have hb : ∀ g ∈ below, g ∈ f :: below := fun g hg => List.mem_cons_of_mem _ hg
    simp only [step, hst]
    split
    · -- push (fused with init)
      rename_i key caa' hff
      obtain ⟨m1, m2, m3, m4, m5, m6⟩ := firstFalse_some_mem hff
      have hk := hkeys f hf _ m1
      simp only at hk
      have hkey : key = (f.method, key.stmt, key.callee) := by rw [← hk.1]; rfl
      split
      · -- the callee initialises
        rename_i hin
        obtain ⟨a1, a2, a3, a4⟩ := mgrAdd_props hsinv (f.path ++ [(f.method, key.stmt, key.callee)])
        have hlog : ∀ e ∈ s.log, e ∈ s.log ++ [Event.create s.created key,
            Event.init s.created key.callee (f.path ++ [(f.method, key.stmt, key.callee)]) true] :=
          fun e he => List.mem_append_left _ he
        have hnew : Created (s.log ++ [Event.create s.created key,
            Event.init s.created key.callee (f.path ++ [(f.method, key.stmt, key.callee)]) true]) key :=
          ⟨s.created, by simp⟩
        have hnew' : Created (s.log ++ [Event.create s.created key,
            Event.init s.created key.callee (f.path ++ [(f.method, key.stmt, key.callee)]) true])
            (f.method, key.stmt, key.callee) :=
          ⟨s.created, by rw [← hkey]; simp⟩
        refine ⟨a1, ?_, ?_, ?_, ?_, ?_, ?_, ?_, ?_, ?_, ?_, ?_, ?_⟩
        · -- stackRk
          refine ⟨?_, ?_, hsrk.2⟩
          · intro g hg
            rcases List.mem_cons.1 hg with rfl | hg
            · exact hk.2
            · have := hsrk.1 g hg; have := hk.2; simp only; omega
          · exact hsrk.1
        · -- chain
          intro g hg
          rcases List.mem_cons.1 hg with rfl | hg
          · obtain ⟨a, ha⟩ := hchain f hf
            exact ⟨a, ha.append key.stmt key.callee hk.2⟩
          · rcases List.mem_cons.1 hg with rfl | hg
            · exact hchain f hf
            · exact hchain g (hb g hg)
        · -- todoRk
          intro g hg
          rcases List.mem_cons.1 hg with rfl | hg
          · exact fun inv hinv c hc => hR _ _ inv hinv c hc
          · rcases List.mem_cons.1 hg with rfl | hg
            · exact htodo f hf
            · exact htodo g (hb g hg)
        · -- caaKeys
          intro g hg
          rcases List.mem_cons.1 hg with rfl | hg
          · intro kv hkv; simp at hkv
          · rcases List.mem_cons.1 hg with rfl | hg
            · intro kv hkv
              obtain ⟨b, hb'⟩ := m6 kv hkv
              exact hkeys f hf (kv.1, b) hb'
            · exact hkeys g (hb g hg)
        · -- caaTrue
          intro g hg site hs
          rcases List.mem_cons.1 hg with rfl | hg
          · simp at hs
          · rcases List.mem_cons.1 hg with rfl | hg
            · rcases m5 site hs with rfl | h'
              · exact hnew
              · exact (htrue f hf site h').mono hlog
            · exact (htrue g (hb g hg) site hs).mono hlog
        · -- touched
          intro site h0
          rcases htouched site h0 with h' | ⟨g, hg, hm⟩
          · exact Or.inl (h'.mono hlog)
          · rcases List.mem_cons.1 hg with rfl | hg
            · rcases m3 site hm with rfl | h'
              · exact Or.inl hnew
              · exact Or.inr ⟨_, List.mem_cons_of_mem _ List.mem_cons_self, h'⟩
            · exact Or.inr ⟨g, List.mem_cons_of_mem _ (List.mem_cons_of_mem _ hg), hm⟩
        · -- storeSites
          intro p hp site hs
          rcases a4 p hp with hp | rfl
          · rcases hstore p hp site hs with h' | h'
            · exact Or.inl h'
            · exact Or.inr (h'.mono hlog)
          · rcases List.mem_append.1 hs with hs | hs
            · rcases hpath f hf site hs with h' | h'
              · exact Or.inl h'
              · exact Or.inr (h'.mono hlog)
            · rw [List.mem_singleton] at hs; rw [hs]; exact Or.inr hnew'
        · -- pathSites
          intro g hg site hs
          rcases List.mem_cons.1 hg with rfl | hg
          · rcases List.mem_append.1 hs with hs | hs
            · rcases hpath f hf site hs with h' | h'
              · exact Or.inl h'
              · exact Or.inr (h'.mono hlog)
            · rw [List.mem_singleton] at hs; rw [hs]; exact Or.inr hnew'
          · rcases List.mem_cons.1 hg with rfl | hg
            · rcases hpath f hf site hs with h' | h'
              · exact Or.inl h'
              · exact Or.inr (h'.mono hlog)
            · rcases hpath g (hb g hg) site hs with h' | h'
              · exact Or.inl h'
              · exact Or.inr (h'.mono hlog)
        · -- executed
          intro g hg
          rcases List.mem_cons.1 hg with rfl | hg
          · exact ⟨[], by simp, by simp⟩
          · rcases List.mem_cons.1 hg with rfl | hg
            · obtain ⟨done, hd1, hd2⟩ := hexec f hf
              refine ⟨done, hd1, ?_⟩
              intro inv hinv c hc
              rcases hd2 inv hinv c hc with h' | h'
              · exact Or.inl (h'.mono hlog)
              · rcases m3 _ h' with he | h''
                · left; rw [he]; exact hnew
                · exact Or.inr h''
            · obtain ⟨done, hd1, hd2⟩ := hexec g (hb g hg)
              refine ⟨done, hd1, ?_⟩
              intro inv hinv c hc
              rcases hd2 inv hinv c hc with h' | h'
              · exact Or.inl (h'.mono hlog)
              · exact Or.inr h'
        · -- finished
          intro n m p hev
          rcases List.mem_append.1 hev with hev | hev
          · rcases hfin n m p hev with ⟨g, hg, hg1, hg2⟩ | h'
            · rcases List.mem_cons.1 hg with rfl | hg
              · exact Or.inl ⟨_, List.mem_cons_of_mem _ List.mem_cons_self, hg1, hg2⟩
              · exact Or.inl ⟨g, List.mem_cons_of_mem _ (List.mem_cons_of_mem _ hg), hg1, hg2⟩
            · exact Or.inr (fun inv hinv c hc => (h' inv hinv c hc).mono hlog)
          · simp only [List.mem_cons, List.not_mem_nil, or_false] at hev
            rcases hev with hev | hev
            · cases hev
            · injection hev with e1 e2 e3 _
              exact Or.inl ⟨_, List.mem_cons_self, e1.symm, e2.symm⟩
        · -- createdInit
          intro n site hev
          rcases List.mem_append.1 hev with hev | hev
          · obtain ⟨p, hp⟩ := hcinit n site hev
            exact ⟨p, hlog _ hp⟩
          · simp only [List.mem_cons, List.not_mem_nil, or_false] at hev
            rcases hev with hev | hev
            · injection hev with e1 e2
              rw [e1, e2]
              refine ⟨f.path ++ [(f.method, key.stmt, key.callee)], ?_⟩
              rw [hin]; simp
            · cases hev
        · -- createdEdge
          intro n site hev hi
          rcases List.mem_append.1 hev with hev | hev
          · exact (hcedge n site hev hi).mono a3
          · simp only [List.mem_cons, List.not_mem_nil, or_false] at hev
            rcases hev with hev | hev
            · injection hev with e1 e2
              rw [e2]
              refine a2.edgeIn ?_
              rw [List.mem_append]; right; rw [List.mem_singleton]; exact hkey
            · cases hev
      · -- the callee does not initialise: created, logged, popped
        rename_i hin
        have hin' : (oracle s.created key.callee).inits = false := by simpa using hin
        have hlog : ∀ e ∈ s.log, e ∈ s.log ++ [Event.create s.created key,
            Event.init s.created key.callee [] false, Event.pop s.created] :=
          fun e he => List.mem_append_left _ he
        have hnew : Created (s.log ++ [Event.create s.created key,
            Event.init s.created key.callee [] false, Event.pop s.created]) key :=
          ⟨s.created, by simp⟩
        refine ⟨hsinv, ?_, ?_, ?_, ?_, ?_, ?_, ?_, ?_, ?_, ?_, ?_, ?_⟩
        · exact ⟨hsrk.1, hsrk.2⟩
        · intro g hg
          rcases List.mem_cons.1 hg with rfl | hg
          · exact hchain f hf
          · exact hchain g (hb g hg)
        · intro g hg
          rcases List.mem_cons.1 hg with rfl | hg
          · exact htodo f hf
          · exact htodo g (hb g hg)
        · intro g hg
          rcases List.mem_cons.1 hg with rfl | hg
          · intro kv hkv
            obtain ⟨b, hb'⟩ := m6 kv hkv
            exact hkeys f hf (kv.1, b) hb'
          · exact hkeys g (hb g hg)
        · intro g hg site hs
          rcases List.mem_cons.1 hg with rfl | hg
          · rcases m5 site hs with rfl | h'
            · exact hnew
            · exact (htrue f hf site h').mono hlog
          · exact (htrue g (hb g hg) site hs).mono hlog
        · intro site h0
          rcases htouched site h0 with h' | ⟨g, hg, hm⟩
          · exact Or.inl (h'.mono hlog)
          · rcases List.mem_cons.1 hg with rfl | hg
            · rcases m3 site hm with rfl | h'
              · exact Or.inl hnew
              · exact Or.inr ⟨_, List.mem_cons_self, h'⟩
            · exact Or.inr ⟨g, List.mem_cons_of_mem _ hg, hm⟩
        · intro p hp site hs
          rcases hstore p hp site hs with h' | h'
          · exact Or.inl h'
          · exact Or.inr (h'.mono hlog)
        · intro g hg site hs
          rcases List.mem_cons.1 hg with rfl | hg
          · rcases hpath f hf site hs with h' | h'
            · exact Or.inl h'
            · exact Or.inr (h'.mono hlog)
          · rcases hpath g (hb g hg) site hs with h' | h'
            · exact Or.inl h'
            · exact Or.inr (h'.mono hlog)
        · intro g hg
          rcases List.mem_cons.1 hg with rfl | hg
          · obtain ⟨done, hd1, hd2⟩ := hexec f hf
            refine ⟨done, hd1, ?_⟩
            intro inv hinv c hc
            rcases hd2 inv hinv c hc with h' | h'
            · exact Or.inl (h'.mono hlog)
            · rcases m3 _ h' with he | h''
              · left; rw [he]; exact hnew
              · exact Or.inr h''
          · obtain ⟨done, hd1, hd2⟩ := hexec g (hb g hg)
            refine ⟨done, hd1, ?_⟩
            intro inv hinv c hc
            rcases hd2 inv hinv c hc with h' | h'
            · exact Or.inl (h'.mono hlog)
            · exact Or.inr h'
        · intro n m p hev
          rcases List.mem_append.1 hev with hev | hev
          · rcases hfin n m p hev with ⟨g, hg, hg1, hg2⟩ | h'
            · rcases List.mem_cons.1 hg with rfl | hg
              · exact Or.inl ⟨_, List.mem_cons_self, hg1, hg2⟩
              · exact Or.inl ⟨g, List.mem_cons_of_mem _ hg, hg1, hg2⟩
            · exact Or.inr (fun inv hinv c hc => (h' inv hinv c hc).mono hlog)
          · simp only [List.mem_cons, List.not_mem_nil, or_false] at hev
            rcases hev with hev | hev | hev
            · cases hev
            · injection hev with _ _ _ e4; cases e4
            · cases hev
        · intro n site hev
          rcases List.mem_append.1 hev with hev | hev
          · obtain ⟨p, hp⟩ := hcinit n site hev
            exact ⟨p, hlog _ hp⟩
          · simp only [List.mem_cons, List.not_mem_nil, or_false] at hev
            rcases hev with hev | hev | hev
            · injection hev with e1 e2
              rw [e1, e2]
              refine ⟨[], ?_⟩
              rw [hin']; simp
            · cases hev
            · cases hev
        · intro n site hev hi
          rcases List.mem_append.1 hev with hev | hev
          · exact hcedge n site hev hi
          · simp only [List.mem_cons, List.not_mem_nil, or_false] at hev
            rcases hev with hev | hev | hev
            · injection hev with e1 e2
              rw [e1, e2, hin'] at hi; cases hi
            · cases hev
            · cases hev
    · -- analyze
      rename_i hff
      have hnp := top_noPend hsrk hkeys hff
      have hnf : ∀ site, (site, false) ∉ f.caa := firstFalse_none_mem hff
      have tf : TopFacts rk s.log (f :: below) f := ⟨hnp, htrue f hf, hchain f hf⟩
      have hL : LoopInv s.log (f :: below) f s.store s.counter := ⟨hsinv, htouched, hstore, hpath f hf⟩
      obtain ⟨r1, r2, r3, r4⟩ := analyze_acyc (max := max) tf f.todo (htodo f hf) s.store s.counter s.log hL
      obtain ⟨_, g2⟩ := analyze_covered max f f.todo s.store s.counter s.log hsinv
      have hlogm := analyze_log_mono max f f.todo s.store s.counter s.log
      have hcm : ∀ site, Created s.log site → Created (analyze max f f.todo s.store s.counter s.log).log site :=
        fun site hc => hc.mono hlogm
      have hcm' : ∀ site, Created (analyze max f f.todo s.store s.counter s.log).log site → Created s.log site := by
        rintro site ⟨n, hn⟩
        exact ⟨n, (analyze_create_mem max f f.todo n site s.store s.counter s.log).1 hn⟩
      have hpos : ∀ site, 0 < ctrGet s.counter site →
          0 < ctrGet (analyze max f f.todo s.store s.counter s.log).counter site := by
        intro site h0; have := r1 site; omega
      -- frames below keep their facts
      have hpendb : ∀ site, PendingIn (f :: below) site → PendingIn below site := by
        rintro site ⟨g, hg, hm⟩
        rcases List.mem_cons.1 hg with rfl | hg
        · exact absurd hm (hnf site)
        · exact ⟨g, hg, hm⟩
      split
      · -- the frame is done
        rename_i hout
        rw [hout] at r4
        obtain ⟨q1, q2⟩ := r4
        have hlog2 : ∀ e ∈ (analyze max f f.todo s.store s.counter s.log).log,
            e ∈ (analyze max f f.todo s.store s.counter s.log).log ++ [Event.pop f.serial] :=
          fun e he => List.mem_append_left _ he
        have hcm2 : ∀ site, Created s.log site →
            Created ((analyze max f f.todo s.store s.counter s.log).log ++ [Event.pop f.serial]) site :=
          fun site hc => (hcm site hc).mono hlog2
        refine ⟨r2, hsrk.2, fun g hg => hchain g (hb g hg), fun g hg => htodo g (hb g hg),
          fun g hg => hkeys g (hb g hg), ?_, ?_, ?_, ?_, ?_, ?_, ?_, ?_⟩
        · exact fun g hg site hs => hcm2 site (htrue g (hb g hg) site hs)
        · intro site h0
          rcases q1 site h0 with h' | h'
          · exact Or.inl (hcm2 site h')
          · exact Or.inr (hpendb site h')
        · intro p hp site hs
          rcases r3 p hp site hs with h' | h'
          · exact Or.inl h'
          · exact Or.inr (hcm2 site h')
        · intro g hg site hs
          rcases hpath g (hb g hg) site hs with h' | h'
          · exact Or.inl (hpos site h')
          · exact Or.inr (hcm2 site h')
        · intro g hg
          obtain ⟨done, hd1, hd2⟩ := hexec g (hb g hg)
          refine ⟨done, hd1, ?_⟩
          intro inv hinv c hc
          rcases hd2 inv hinv c hc with h' | h'
          · exact Or.inl (hcm2 _ h')
          · exact Or.inr h'
        · intro n m p hev
          rcases List.mem_append.1 hev with hev | hev
          · have hev' := (analyze_init_mem max f f.todo n m p true s.store s.counter s.log).1 hev
            rcases hfin n m p hev' with ⟨g, hg, hg1, hg2⟩ | h'
            · rcases List.mem_cons.1 hg with rfl | hg
              · -- the popped frame itself: everything it was shown has a frame
                right
                obtain ⟨done, hd1, hd2⟩ := hexec g hf
                rw [← hg1, ← hg2, hd1]
                intro inv hinv c hc
                rcases List.mem_append.1 hinv with hinv | hinv
                · rcases hd2 inv hinv c hc with h' | h'
                  · exact hcm2 _ h'
                  · exact absurd h' (hnf _)
                · exact hcm2 _ (q2 inv hinv c hc)
              · exact Or.inl ⟨g, hg, hg1, hg2⟩
            · exact Or.inr (fun inv hinv c hc => hcm2 _ (h' inv hinv c hc))
          · rw [List.mem_singleton] at hev; cases hev
        · intro n site hev
          rcases List.mem_append.1 hev with hev | hev
          · obtain ⟨p, hp⟩ := hcinit n site ((analyze_create_mem max f f.todo n site s.store s.counter s.log).1 hev)
            exact ⟨p, hlog2 _ (hlogm _ hp)⟩
          · rw [List.mem_singleton] at hev; cases hev
        · intro n site hev hi
          rcases List.mem_append.1 hev with hev | hev
          · exact (hcedge n site ((analyze_create_mem max f f.todo n site s.store s.counter s.log).1 hev) hi).mono g2
          · rw [List.mem_singleton] at hev; cases hev
      · -- the frame is interrupted
        rename_i stmt acc hout
        rw [hout] at r4
        obtain ⟨pre, inv, e1, e2, e3, e4, e5, e6⟩ := r4
        obtain ⟨n1, n2⟩ := newCaa_mem f.method stmt acc
        have hinvmem : inv ∈ f.todo := by rw [e1]; simp
        refine ⟨r2, ⟨hsrk.1, hsrk.2⟩, ?_, ?_, ?_, ?_, ?_, ?_, ?_, ?_, ?_, ?_, ?_⟩
        · intro g hg
          rcases List.mem_cons.1 hg with rfl | hg
          · exact hchain f hf
          · exact hchain g (hb g hg)
        · intro g hg
          rcases List.mem_cons.1 hg with rfl | hg
          · intro i hi
            exact htodo f hf i (by rw [e1]; simp [hi])
          · exact htodo g (hb g hg)
        · intro g hg
          rcases List.mem_cons.1 hg with rfl | hg
          · intro kv hkv
            obtain ⟨c, hc, rfl⟩ := n2 kv hkv
            exact ⟨rfl, htodo f hf inv hinvmem c (e3 c hc)⟩
          · exact hkeys g (hb g hg)
        · intro g hg site hs
          rcases List.mem_cons.1 hg with rfl | hg
          · obtain ⟨c, _, he⟩ := n2 _ hs
            simp at he
          · exact hcm site (htrue g (hb g hg) site hs)
        · intro site h0
          rcases e6 site h0 with h' | h' | ⟨c, hc, rfl⟩
          · exact Or.inl (hcm site h')
          · obtain ⟨g, hg, hm⟩ := hpendb site h'
            exact Or.inr ⟨g, List.mem_cons_of_mem _ hg, hm⟩
          · exact Or.inr ⟨_, List.mem_cons_self, n1 c hc⟩
        · intro p hp site hs
          rcases r3 p hp site hs with h' | h'
          · exact Or.inl h'
          · exact Or.inr (hcm site h')
        · intro g hg site hs
          rcases List.mem_cons.1 hg with rfl | hg
          · rcases hpath f hf site hs with h' | h'
            · exact Or.inl (hpos site h')
            · exact Or.inr (hcm site h')
          · rcases hpath g (hb g hg) site hs with h' | h'
            · exact Or.inl (hpos site h')
            · exact Or.inr (hcm site h')
        · intro g hg
          rcases List.mem_cons.1 hg with rfl | hg
          · obtain ⟨done, hd1, hd2⟩ := hexec f hf
            refine ⟨done ++ pre ++ [inv], ?_, ?_⟩
            · show (oracle f.serial f.method).script
                  = done ++ pre ++ [inv] ++ (analyze max f f.todo s.store s.counter s.log).todo
              generalize (analyze max f f.todo s.store s.counter s.log).todo = rt at e1
              rw [hd1, e1]; simp
            · intro i hi c hc
              rcases List.mem_append.1 hi with hi | hi
              · rcases List.mem_append.1 hi with hi | hi
                · rcases hd2 i hi c hc with h' | h'
                  · exact Or.inl (hcm _ h')
                  · exact absurd h' (hnf _)
                · exact Or.inl (hcm _ (e4 i hi c hc))
              · rw [List.mem_singleton] at hi; subst hi
                rw [e2]
                rcases e5 c hc with h' | h'
                · exact Or.inl (hcm _ h')
                · exact Or.inr (n1 c h')
          · obtain ⟨done, hd1, hd2⟩ := hexec g (hb g hg)
            refine ⟨done, hd1, ?_⟩
            intro i hi c hc
            rcases hd2 i hi c hc with h' | h'
            · exact Or.inl (hcm _ h')
            · exact Or.inr h'
        · intro n m p hev
          have hev' := (analyze_init_mem max f f.todo n m p true s.store s.counter s.log).1 hev
          rcases hfin n m p hev' with ⟨g, hg, hg1, hg2⟩ | h'
          · rcases List.mem_cons.1 hg with rfl | hg
            · exact Or.inl ⟨_, List.mem_cons_self, hg1, hg2⟩
            · exact Or.inl ⟨g, List.mem_cons_of_mem _ hg, hg1, hg2⟩
          · exact Or.inr (fun i hi c hc => hcm _ (h' i hi c hc))
        · intro n site hev
          obtain ⟨p, hp⟩ := hcinit n site ((analyze_create_mem max f f.todo n site s.store s.counter s.log).1 hev)
          exact ⟨p, hlogm _ hp⟩
        · intro n site hev hi
          exact (hcedge n site ((analyze_create_mem max f f.todo n site s.store s.counter s.log).1 hev) hi).mono g2

theorem drive_acycInv (max : Nat) (oracle : Oracle) (rk : Nat → Nat) (hR : Ranked oracle rk) :
    ∀ (fuel : Nat) (s : St), AcycInv oracle rk s → AcycInv oracle rk (drive max oracle fuel s) := by
  intro fuel
  induction fuel with
  | zero => intro s h; exact h
  | succ n ih =>
    intro s h
    simp only [drive]
    split
    · exact h
    · exact ih _ (step_acycInv max oracle rk hR s h)

theorem initSt_acycInv (oracle : Oracle) (rk : Nat → Nat) (hR : Ranked oracle rk) (entry : Nat) :
    AcycInv oracle rk (initSt oracle entry Store.empty 0 []) := by
  simp only [initSt]
  split
  · refine ⟨inv_empty, ⟨by simp, trivial⟩, ?_, ?_, ?_, ?_, ?_, ?_, ?_, ?_, ?_, ?_, ?_⟩
    · intro f hf; simp only [List.mem_singleton] at hf; subst hf; exact ⟨entry, ChainTo.nil entry⟩
    · intro f hf; simp only [List.mem_singleton] at hf; subst hf
      exact fun inv hinv c hc => hR _ _ inv hinv c hc
    · intro f hf; simp only [List.mem_singleton] at hf; subst hf; intro kv hkv; simp at hkv
    · intro f hf; simp only [List.mem_singleton] at hf; subst hf; intro site hs; simp at hs
    · intro site h0; simp [ctrGet] at h0
    · intro p hp; simp [Store.empty] at hp
    · intro f hf; simp only [List.mem_singleton] at hf; subst hf; intro site hs; simp at hs
    · intro f hf; simp only [List.mem_singleton] at hf; subst hf; exact ⟨[], by simp, by simp⟩
    · intro n m p hev
      simp only [List.nil_append, List.mem_singleton] at hev
      injection hev with e1 e2 _ _
      exact Or.inl ⟨_, List.mem_singleton.2 rfl, e1.symm, e2.symm⟩
    · intro n site hev; simp at hev
    · intro n site hev; simp at hev
  · refine ⟨inv_empty, trivial, ?_, ?_, ?_, ?_, ?_, ?_, ?_, ?_, ?_, ?_, ?_⟩
    · intro f hf; simp at hf
    · intro f hf; simp at hf
    · intro f hf; simp at hf
    · intro f hf; simp at hf
    · intro site h0; simp [ctrGet] at h0
    · intro p hp; simp [Store.empty] at hp
    · intro f hf; simp at hf
    · intro f hf; simp at hf
    · intro n m p hev
      simp only [List.nil_append, List.mem_cons, List.not_mem_nil, or_false] at hev
      rcases hev with hev | hev
      · injection hev with _ _ _ e4; cases e4
      · cases hev
    · intro n site hev; simp at hev
    · intro n site hev; simp at hev

/-! ### the log only grows -/

theorem step_log_mono (max : Nat) (oracle : Oracle) (s : St) : ∀ e ∈ s.log, e ∈ (step max oracle s).log := by
  intro e he
  cases hst : s.stack with
  | nil => simp only [step, hst]; exact he
  | cons f below =>
    simp only [step, hst]
    split
    · split
      · exact List.mem_append_left _ he
      · exact List.mem_append_left _ he
    · split
      · exact List.mem_append_left _ (analyze_log_mono max f f.todo s.store s.counter s.log e he)
      · exact analyze_log_mono max f f.todo s.store s.counter s.log e he

theorem drive_log_mono (max : Nat) (oracle : Oracle) :
    ∀ (fuel : Nat) (s : St), ∀ e ∈ s.log, e ∈ (drive max oracle fuel s).log := by
  intro fuel
  induction fuel with
  | zero => intro s e he; exact he
  | succ n ih =>
    intro s e he
    simp only [drive]
    split
    · exact he
    · exact ih _ e (step_log_mono max oracle s e he)

theorem initSt_entry_event (oracle : Oracle) (entry : Nat) :
    Event.init 0 entry [] (oracle 0 entry).inits ∈ (initSt oracle entry Store.empty 0 []).log := by
  simp only [initSt]
  split
  · rename_i h; rw [h]; simp
  · rename_i h
    have : (oracle 0 entry).inits = false := by simpa using h
    rw [this]; simp

end LianVerif.Frames
