/-
Assembly for C18: `prepare_directory` only creates directories; from the state it leaves, the clean-up
loop and the fill phase stay strictly below the physical workspace directory.  The hypotheses are
the decidable fragment predicate `inFragment` of Model/Workspace.lean, unpacked as `Frag`.
-/
import LianVerif.Proofs.WorkspaceWipe

namespace LianVerif.Workspace
open LianVerif.Fs

/-! ### `os.makedirs` only adds directories -/

/-- what a phase that only creates directories guarantees -/
structure OnlyMkdirs (s s' : St) : Prop where
  log : ∀ e ∈ s'.log, e ∈ s.log ∨ ∃ p, e = .mkdir p
  fs : ∀ p, lookup s'.fs p = lookup s.fs p ∨ (lookup s.fs p = none ∧ lookup s'.fs p = some .dir)

theorem OnlyMkdirs.refl (s : St) : OnlyMkdirs s s := ⟨fun _ h => Or.inl h, fun _ => Or.inl rfl⟩

theorem OnlyMkdirs.trans {a b c : St} (h1 : OnlyMkdirs a b) (h2 : OnlyMkdirs b c) : OnlyMkdirs a c := by
  refine ⟨?_, ?_⟩
  · intro e he
    rcases h2.log e he with h | h
    · exact h1.log e h
    · exact Or.inr h
  · intro p
    rcases h2.fs p with h | ⟨h, h'⟩
    · rw [h]; exact h1.fs p
    · rcases h1.fs p with g | ⟨g, g'⟩
      · exact Or.inr ⟨by rw [← g]; exact h, h'⟩
      · rw [g'] at h; simp at h

theorem mkdir_fold_only : ∀ (comps : List String) (s : St) (a : Except Err Path),
    OnlyMkdirs s (comps.foldl mkdirStep (s, a)).1 := by
  intro comps
  induction comps with
  | nil => intro s a; exact OnlyMkdirs.refl s
  | cons c r ih =>
    intro s a
    rw [List.foldl_cons]
    cases a with
    | error e => rw [mkdirStep_error]; exact ih s _
    | ok cur =>
      have step : OnlyMkdirs s (mkdirStep (s, .ok cur) c).1 := by
        simp only [mkdirStep]
        split
        · exact OnlyMkdirs.refl s
        · split
          · exact OnlyMkdirs.refl s
          · cases hl : lookup s.fs (cur ++ [c]) with
            | none =>
              simp only
              refine ⟨?_, ?_⟩
              · intro e he
                simp only [List.mem_append, List.mem_singleton] at he
                rcases he with he | he
                · exact Or.inl he
                · exact Or.inr ⟨_, he⟩
              · intro p
                by_cases hp : p = cur ++ [c]
                · subst hp
                  exact Or.inr ⟨hl, lookup_setNode_self _ _ (by simp)⟩
                · exact Or.inl (lookup_setNode_ne _ _ _ hp)
            | some n =>
              cases n with
              | file x => exact OnlyMkdirs.refl s
              | dir => exact OnlyMkdirs.refl s
              | link t =>
                simp only
                split <;> exact OnlyMkdirs.refl s
      cases hm : mkdirStep (s, .ok cur) c with
      | mk s1 a1 =>
        rw [hm] at step
        exact step.trans (ih s1 a1)

theorem mkdirs_only (cwd : Path) (p : RPath) (s : St) : OnlyMkdirs s (mkdirs cwd p s).1 := by
  unfold mkdirs
  split
  · exact OnlyMkdirs.refl s
  · cases startOf s.fs cwd p with
    | error e => exact OnlyMkdirs.refl s
    | ok st => exact mkdir_fold_only p.comps s (.ok st)

theorem mkdirsOp_fst (cwd : Path) (p : RPath) (s : St) : (mkdirsOp cwd p s).1 = (mkdirs cwd p s).1 := by
  unfold mkdirsOp
  cases mkdirs cwd p s with
  | mk s' r => cases r <;> rfl

theorem prepareDirectory_only (cwd : Path) (path : RPath) (s : St) :
    OnlyMkdirs s (prepareDirectory cwd path s).1 := by
  unfold prepareDirectory
  split
  · exact OnlyMkdirs.refl s
  · rw [mkdirsOp_fst]; exact mkdirs_only cwd path s

/-! ### the fragment predicate, unpacked -/

theorem plainAll_of_B {fs : FS} (h : plainAllB fs = true) : ∀ e ∈ fs, ∀ c ∈ e.1, plain c = true := by
  simp only [plainAllB, List.all_eq_true] at h
  exact h

theorem wfp_of_B {fs : FS} (h : wfB fs = true) : WFp fs := by
  intro e he k hk0 hk
  simp only [wfB, List.all_eq_true, List.mem_range, Bool.or_eq_true, beq_iff_eq] at h
  rcases h e he k hk with h | h
  · omega
  · exact h

theorem physDir_of_B {fs : FS} {d : Path} (h : physDirB fs d = true) : PhysDir fs d := by
  simp only [physDirB, Bool.and_eq_true, List.all_eq_true, List.mem_range, beq_iff_eq] at h
  exact ⟨h.1, h.2⟩

theorem leadsTo_of_B {r : Except Err Path} {W : Path} (h : leadsToB r W = true) : r = .ok W := by
  unfold leadsToB at h
  cases r with
  | error e => simp at h
  | ok q => simp at h; rw [h]

/-- the state `prepare_directory` leaves -/
def prepState (cfg : Cfg) (fs : FS) : St :=
  (prepareDirectory cfg.cwd (wsAbsPath cfg (setWorkspaceDir cfg)) (initSt fs)).1

structure Frag (cfg : Cfg) (fs : FS) (W : Path) : Prop where
  ne : W ≠ []
  plainAll : ∀ e ∈ (prepState cfg fs).fs, ∀ c ∈ e.1, plain c = true
  wf : WFp (prepState cfg fs).fs
  phys : PhysDir (prepState cfg fs).fs W
  robustAbs : resolveDir (hideBelow W (prepState cfg fs).fs) linkFuel []
    (abspath cfg.cwd (setWorkspaceDir cfg)) = .ok W
  robustRaw : resolveDir (hideBelow W (prepState cfg fs).fs) linkFuel
    (if (setWorkspaceDir cfg).abs then [] else cfg.cwd)
    (dropTrailingEmpty (setWorkspaceDir cfg).comps) = .ok W
  params : ParamsOk cfg

theorem frag_of_inFragment {cfg : Cfg} {fs : FS} {W : Path} (h : inFragment cfg fs W = true) :
    Frag cfg fs W := by
  simp only [inFragment, Bool.and_eq_true, Bool.not_eq_true', List.isEmpty_eq_false_iff,
    List.all_eq_true, List.contains_iff_mem] at h
  obtain ⟨⟨⟨⟨⟨⟨⟨⟨⟨h1, h2⟩, h3⟩, h4⟩, h5⟩, h6⟩, h7⟩, h8⟩, h9⟩, _⟩ := h
  exact ⟨h1, plainAll_of_B h2, wfp_of_B h3, physDir_of_B h4, leadsTo_of_B h5, leadsTo_of_B h6,
    ⟨h7, h8, h9⟩⟩

/-! ### clean-up loop followed by the fill phase -/

/-- when the clean-up loop completes, the fill-phase invariant holds -/
theorem wipe_establishes {cfg : Cfg} {fs : FS} {W : Path} (hf : Frag cfg fs W) {s2 : St}
    (h : wipe cfg.cwd (wsAbsPath cfg (setWorkspaceDir cfg)) (prepState cfg fs) = (s2, none)) :
    Inv W (prepState cfg fs).fs s2 := by
  have hs1 : InvW W (prepState cfg fs).fs (prepState cfg fs) := ⟨fun _ _ => rfl, hf.plainAll, hf.wf⟩
  obtain ⟨hw, hwc⟩ := wipe_spec (A := abspath cfg.cwd (setWorkspaceDir cfg)) cfg.cwd hf.robustAbs hs1
  have hpath : wsAbsPath cfg (setWorkspaceDir cfg) = ofPath (abspath cfg.cwd (setWorkspaceDir cfg)) := rfl
  rw [hpath] at h
  rw [h] at hw hwc
  have hempty := hwc rfl
  refine ⟨hw.inv.agree, ?_, hw.inv.plainAll⟩
  intro p t hb hl
  have hpne : p ≠ [] := by
    intro e; subst e
    have := hb.length_lt; simp at this
  exact hempty _ (mem_of_lookup hpne hl) hb

theorem after_prepare {cfg : Cfg} {fs : FS} {W : Path} (hf : Frag cfg fs W) (v : Variant) (fuel : Nat)
    (wsReal : Path) :
    LogExt W (prepState cfg fs)
      (andThen (wipe cfg.cwd (wsAbsPath cfg (setWorkspaceDir cfg)) (prepState cfg fs))
        (fill v fuel cfg (setWorkspaceDir cfg) wsReal)).1 ∧
    (∀ p, ¬ Below W p →
      lookup (andThen (wipe cfg.cwd (wsAbsPath cfg (setWorkspaceDir cfg)) (prepState cfg fs))
        (fill v fuel cfg (setWorkspaceDir cfg) wsReal)).1.fs p = lookup (prepState cfg fs).fs p) := by
  have hs1 : InvW W (prepState cfg fs).fs (prepState cfg fs) := ⟨fun _ _ => rfl, hf.plainAll, hf.wf⟩
  obtain ⟨hw, hwc⟩ := wipe_spec (A := abspath cfg.cwd (setWorkspaceDir cfg)) cfg.cwd hf.robustAbs hs1
  have hpath : wsAbsPath cfg (setWorkspaceDir cfg) = ofPath (abspath cfg.cwd (setWorkspaceDir cfg)) := rfl
  rw [hpath]
  cases hwr : wipe cfg.cwd (ofPath (abspath cfg.cwd (setWorkspaceDir cfg))) (prepState cfg fs) with
  | mk s2 o =>
    rw [hwr] at hw hwc
    cases o with
    | some x => exact ⟨hw.log, hw.inv.agree⟩
    | none =>
      have hempty := hwc rfl
      have hinv : Inv W (prepState cfg fs).fs s2 := by
        refine ⟨hw.inv.agree, ?_, hw.inv.plainAll⟩
        intro p t hb hl
        have hpne : p ≠ [] := by
          intro e; subst e
          have := hb.length_lt; simp at this
        exact hempty _ (mem_of_lookup hpne hl) hb
      have ctx : WsCtx W (prepState cfg fs).fs cfg.cwd (setWorkspaceDir cfg) :=
        ⟨hf.ne, hf.phys, hf.robustRaw⟩
      have hfill := fill_step ctx hf.params v fuel wsReal hinv
      exact ⟨hw.log.trans hfill.log, hfill.inv.agree⟩

/-! ### the three ways a run can go -/

theorem prepare_cases (v : Variant) (fuel : Nat) (cfg : Cfg) (fs : FS) :
    prepare v fuel cfg fs = (initSt fs, some .quit) ∨
    (∃ stop, prepare v fuel cfg fs = (prepState cfg fs, some stop)) ∨
    (cfg.force = true ∧
     prepare v fuel cfg fs =
      andThen (wipe cfg.cwd (wsAbsPath cfg (setWorkspaceDir cfg)) (prepState cfg fs))
        (fill v fuel cfg (setWorkspaceDir cfg) (realpath fs cfg.cwd (setWorkspaceDir cfg)))) := by
  unfold prepare manage
  simp only
  by_cases hforce : cfg.force = true
  · simp only [hforce, Bool.not_true, Bool.false_eq_true, if_false]
    split
    · left; rfl
    · right
      unfold prepState
      cases hp : prepareDirectory cfg.cwd (wsAbsPath cfg (setWorkspaceDir cfg)) (initSt fs) with
      | mk s1 o =>
        cases o with
        | some stop => left; exact ⟨stop, rfl⟩
        | none => right; exact ⟨trivial, rfl⟩
  · left
    have : cfg.force = false := by simpa using hforce
    simp [this, andThen]

end LianVerif.Workspace
