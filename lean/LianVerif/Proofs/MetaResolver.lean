/-
C12 (renumbering): `resolve_symbol_source_decl` — "max of the intersection" — and the def-use rule
commute with every strictly monotone renumbering of statement ids that fixes 0.
-/
import LianVerif.Model.Meta
import LianVerif.Proofs.Resolver

namespace LianVerif.Meta
open LianVerif.Scopes LianVerif.Resolver

/-- strictly monotone, `0 ↦ 0`: what inserting statements does to the ids of the other statements -/
structure Mono (ρ : Nat → Nat) : Prop where
  lt : ∀ a b, a < b → ρ a < ρ b
  zero : ρ 0 = 0

theorem Mono.inj {ρ : Nat → Nat} (h : Mono ρ) {a b : Nat} (hab : ρ a = ρ b) : a = b := by
  rcases Nat.lt_trichotomy a b with h1 | h1 | h1
  · have := h.lt a b h1; omega
  · exact h1
  · have := h.lt b a h1; omega

theorem Mono.beq {ρ : Nat → Nat} (h : Mono ρ) (a b : Nat) : (ρ a == ρ b) = (a == b) := by
  rw [Bool.eq_iff_iff]; simp only [beq_iff_eq]
  exact ⟨fun e => h.inj e, fun e => e ▸ rfl⟩

theorem Mono.pos {ρ : Nat → Nat} (h : Mono ρ) {a : Nat} (ha : 0 < a) : 0 < ρ a := by
  have := h.lt 0 a ha; rw [h.zero] at this; exact this

theorem mapInt_nonneg {ρ : Nat → Nat} {i : Int} (hi : 0 ≤ i) : mapInt ρ i = (ρ i.toNat : Int) := by
  unfold mapInt; rw [if_pos hi]

theorem mapInt_neg {ρ : Nat → Nat} {i : Int} (hi : ¬ 0 ≤ i) : mapInt ρ i = i := by
  unfold mapInt; rw [if_neg hi]

theorem mapInt_nonneg_iff (ρ : Nat → Nat) (i : Int) : 0 ≤ mapInt ρ i ↔ 0 ≤ i := by
  by_cases hi : 0 ≤ i
  · rw [mapInt_nonneg hi]; exact ⟨fun _ => hi, fun _ => Int.natCast_nonneg _⟩
  · rw [mapInt_neg hi]

theorem mapInt_toNat {ρ : Nat → Nat} {i : Int} (hi : 0 ≤ i) : (mapInt ρ i).toNat = ρ i.toNat := by
  rw [mapInt_nonneg hi]; simp

theorem mapInt_lt {ρ : Nat → Nat} (h : Mono ρ) {i j : Int} (hij : i < j) : mapInt ρ i < mapInt ρ j := by
  by_cases hi : 0 ≤ i
  · have hj : 0 ≤ j := by omega
    rw [mapInt_nonneg hi, mapInt_nonneg hj]
    have : i.toNat < j.toNat := by omega
    exact Int.ofNat_lt.2 (h.lt _ _ this)
  · rw [mapInt_neg hi]
    by_cases hj : 0 ≤ j
    · rw [mapInt_nonneg hj]; have := Int.natCast_nonneg (ρ j.toNat); omega
    · rw [mapInt_neg hj]; exact hij

theorem mapInt_inj {ρ : Nat → Nat} (h : Mono ρ) {i j : Int} (hij : mapInt ρ i = mapInt ρ j) : i = j := by
  rcases Int.lt_trichotomy i j with h1 | h1 | h1
  · have := mapInt_lt h h1; omega
  · exact h1
  · have := mapInt_lt h h1; omega

theorem mapInt_beq {ρ : Nat → Nat} (h : Mono ρ) (i j : Int) : (mapInt ρ i == mapInt ρ j) = (i == j) := by
  rw [Bool.eq_iff_iff]; simp only [beq_iff_eq]
  exact ⟨fun e => mapInt_inj h e, fun e => e ▸ rfl⟩

theorem mapInt_zero {ρ : Nat → Nat} (h : Mono ρ) : mapInt ρ 0 = 0 := by
  rw [mapInt_nonneg (Int.le_refl 0)]; simp [h.zero]

theorem mapInt_neg_one (ρ : Nat → Nat) : mapInt ρ (-1) = -1 := mapInt_neg (by decide)

theorem mapInt_eq_neg_one {ρ : Nat → Nat} (i : Int) : (mapInt ρ i == -1) = (i == -1) := by
  by_cases hi : 0 ≤ i
  · rw [mapInt_nonneg hi]
    have h1 : ((ρ i.toNat : Int) == -1) = false := by
      rw [beq_eq_false_iff_ne]; have := Int.natCast_nonneg (ρ i.toNat); omega
    have h2 : (i == -1) = false := by rw [beq_eq_false_iff_ne]; omega
    rw [h1, h2]
  · rw [mapInt_neg hi]

theorem contains_map_inj {α β : Type} [BEq α] [BEq β] [LawfulBEq α] [LawfulBEq β] (f : α → β)
    (hf : ∀ a b, f a = f b → a = b) (l : List α) (x : α) : (l.map f).contains (f x) = l.contains x := by
  induction l with
  | nil => rfl
  | cons a as ih =>
    simp only [List.map_cons, List.contains_cons, ih]
    congr 1
    rw [Bool.eq_iff_iff]; simp only [beq_iff_eq]
    exact ⟨fun e => hf _ _ e, fun e => e ▸ rfl⟩

/-! ### maxInt -/

theorem maxInt_map {ρ : Nat → Nat} (h : Mono ρ) : ∀ (l : List Int),
    maxInt (l.map (mapInt ρ)) = (maxInt l).map (mapInt ρ) := by
  intro l
  induction l with
  | nil => rfl
  | cons x xs ih =>
    simp only [List.map_cons, maxInt, ih]
    cases hm : maxInt xs with
    | none => rfl
    | some m =>
      simp only [Option.map_some]
      by_cases hlt : m < x
      · rw [if_pos hlt, if_pos (mapInt_lt h hlt)]
      · rw [if_neg hlt]
        have : ¬ mapInt ρ m < mapInt ρ x := by
          intro hc
          rcases Int.lt_trichotomy m x with h1 | h1 | h1
          · exact hlt h1
          · rw [h1] at hc; omega
          · have := mapInt_lt h h1; omega
        rw [if_neg this]

variable {ν : Type} [DecidableEq ν]

/-! ### the tables -/

theorem declScopes_mapDecl (ρ : Nat → Nat) (ds : List (Decl ν)) (n : ν) :
    declScopes (ds.map (mapDecl ρ)) n = (declScopes ds n).map (mapInt ρ) := by
  unfold declScopes
  induction ds with
  | nil => rfl
  | cons d ds ih =>
    simp only [List.map_cons, List.filter_cons]
    have : (mapDecl ρ d).name = d.name := rfl
    rw [this]
    split
    · simp only [List.map_cons, ih]; rfl
    · exact ih

theorem symbolInfo_mapDecl {ρ : Nat → Nat} (h : Mono ρ) (ds : List (Decl ν)) (sc : Int) (n : ν) :
    symbolInfo (ds.map (mapDecl ρ)) (mapInt ρ sc) n = (symbolInfo ds sc n).map (mapDecl ρ) := by
  unfold symbolInfo
  rw [← List.getLast?_map]
  congr 1
  induction ds with
  | nil => rfl
  | cons d ds ih =>
    simp only [List.map_cons, List.filter_cons]
    have h1 : ((mapDecl ρ d).scope == mapInt ρ sc) = (d.scope == sc) := mapInt_beq h _ _
    have h2 : (mapDecl ρ d).name = d.name := rfl
    rw [h1, h2]
    split
    · simp only [List.map_cons, ih]
    · exact ih

theorem availGet_map {ρ : Nat → Nat} (h : Mono ρ) (a : Avail) (k : Nat) :
    Avail.get (a.map (fun p => (ρ p.1, p.2.map (mapInt ρ)))) (ρ k) = (Avail.get a k).map (List.map (mapInt ρ)) := by
  unfold Avail.get
  induction a with
  | nil => rfl
  | cons p ps ih =>
    simp only [List.map_cons, List.find?_cons]
    rw [h.beq]
    split
    · rfl
    · exact ih

theorem targets_mapSummary {ρ : Nat → Nat} (h : Mono ρ) (S : Summary ν) (cur : Int) (n : ν) :
    targets (mapSummary ρ S) (mapInt ρ cur) n = (targets S cur n).map (mapInt ρ) := by
  unfold targets
  simp only [mapSummary]
  rw [declScopes_mapDecl]
  have hvis : (List.map (mapInt ρ) S.implicit ++
      (if 0 ≤ mapInt ρ cur then
        ((Avail.get (List.map (fun p => (ρ p.1, List.map (mapInt ρ) p.2)) S.avail) (mapInt ρ cur).toNat).getD [])
       else [])) =
      (S.implicit ++ (if 0 ≤ cur then ((Avail.get S.avail cur.toNat).getD []) else [])).map (mapInt ρ) := by
    rw [List.map_append]
    congr 1
    by_cases hc : 0 ≤ cur
    · rw [if_pos hc, if_pos ((mapInt_nonneg_iff ρ cur).2 hc), mapInt_toNat hc, availGet_map h]
      cases Avail.get S.avail cur.toNat <;> rfl
    · rw [if_neg hc, if_neg (fun hh => hc ((mapInt_nonneg_iff ρ cur).1 hh))]; rfl
  rw [hvis, List.filter_map]
  congr 1
  apply List.filter_congr
  intro x _
  exact contains_map_inj (mapInt ρ) (fun a b e => mapInt_inj h e) _ x

theorem resolveDecl_mapSummary {ρ : Nat → Nat} (h : Mono ρ) (S : Summary ν) (cur : Int) (n : ν) :
    resolveDecl (mapSummary ρ S) (mapInt ρ cur) n = (resolveDecl S cur n).map (mapDecl ρ) := by
  unfold resolveDecl
  rw [mapInt_eq_neg_one, targets_mapSummary h, maxInt_map h]
  split
  · rfl
  · cases maxInt (targets S cur n) with
    | none => rfl
    | some m => exact symbolInfo_mapDecl h S.decls m n

theorem resolveGlobal_mapSummary {ρ : Nat → Nat} (h : Mono ρ) (S : Summary ν) (n : ν) :
    resolveGlobal (mapSummary ρ S) n = (resolveGlobal S n).map (mapDecl ρ) := by
  have hd : (mapSummary ρ S).decls = S.decls.map (mapDecl ρ) := rfl
  have hc : (declScopes (mapSummary ρ S).decls n).contains 0 = (declScopes S.decls n).contains 0 := by
    rw [hd, declScopes_mapDecl]
    have := contains_map_inj (mapInt ρ) (fun a b e => mapInt_inj h e) (declScopes S.decls n) 0
    rwa [mapInt_zero h] at this
  have hs : symbolInfo (mapSummary ρ S).decls 0 n = (symbolInfo S.decls 0 n).map (mapDecl ρ) := by
    have := symbolInfo_mapDecl h S.decls 0 n
    rwa [mapInt_zero h] at this
  unfold resolveGlobal
  by_cases hcc : (declScopes S.decls n).contains 0 = true
  · rw [if_pos hcc, if_pos (hc.trans hcc), hs]
  · rw [if_neg hcc, if_neg (fun hh => hcc (hc.symm.trans hh))]; rfl

theorem bind_mapSummary {ρ : Nat → Nat} (h : Mono ρ) (S : Summary ν) (ss ss' : Nat → Int) (stmt : Nat)
    (hss : ss' (ρ stmt) = mapInt ρ (ss stmt)) (n : ν) (mode : Mode) :
    Resolver.bind (mapSummary ρ S) ss' (ρ stmt) n mode = (Resolver.bind S ss stmt n mode).map (mapDecl ρ) := by
  cases mode with
  | global => exact resolveGlobal_mapSummary h S n
  | use =>
    simp only [Resolver.bind]
    rw [hss, resolveDecl_mapSummary h]
    cases resolveDecl S (ss stmt) n with
    | none => rfl
    | some d =>
      simp only [Option.map_some]
      have : ((mapDecl ρ d).stmt == ρ stmt) = (d.stmt == stmt) := h.beq _ _
      rw [this]
      split <;> rfl

end LianVerif.Meta
