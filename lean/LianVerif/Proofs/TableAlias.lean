/-
Helper lemmas for the two-wrapper model (`DataModel(other)`), used by `C16_shared_caches_partial`.
-/
import LianVerif.Proofs.Table

namespace LianVerif.Table
open LianVerif.Scan

/-- the calls that cannot change a frame -/
def Op.isQuery : Op → Bool
  | .len | .isEmpty | .getRows | .iter | .accessPos _ | .accessList _ | .accessLoc _ _ | .column _
  | .queryIdx _ _ | .queryTable _ _ | .queryFirst _ _ | .searchBlock _ | .readBlock _ _
  | .readBlockWith _ _ | .boundary _ | .slowQueryEq _ _ _ _ | .slowQueryIsin _ _ _
  | .slowQueryLabels _ _ | .toDicts | .slice _ _ | .clone => true
  | _ => false

theorem query_not_rebinds {op : Op} (h : op.isQuery = true) : op.rebinds = false := by
  cases op <;> simp [Op.isQuery] at h <;> rfl

theorem query_frame {op : Op} (h : op.isQuery = true) (f : Frame) : (specStep f op).1 = f := by
  cases op <;> simp [Op.isQuery] at h <;> simp only [specStep] <;> (repeat' split) <;> rfl

/-- the invariant without the ghost field -/
def CParts (f : Frame) (schema : List String) (dirty : Bool) (rows : Option (List (List Cell)))
    (idx : Indexer) : Prop :=
  schema = f.cols ∧ (dirty = false → rows = some f.rows) ∧
  (∀ c m, (c, m) ∈ idx → ∃ col, f.column c = some col ∧ m = buildIndex col)

theorem consistent_iff (t : T) : Consistent t ↔ CParts t.data t.schema t.dirty t.rows t.idx := Iff.rfl

/-- both wrappers refer to the frame `f` and both have consistent caches -/
def DInv (d : Duo) (f : Frame) : Prop :=
  d.frame d.a.fr = f ∧ d.frame d.b.fr = f ∧
  CParts f d.a.schema d.a.dirty d.a.rows (d.dict d.a.ix) ∧
  CParts f d.b.schema d.b.dirty d.b.rows (d.dict d.b.ix)

theorem dinv_share {t : T} (h : Consistent t) : DInv (Duo.share t) t.data := by
  obtain ⟨h1, h2, h3⟩ := h
  refine ⟨rfl, rfl, ⟨h1, h2, h3⟩, ⟨rfl, ?_, h3⟩⟩
  intro hd; simp [Duo.share] at hd


theorem view_consistent {d : Duo} {f : Frame} (h : DInv d f) (who : Bool) :
    Consistent (d.view who) ∧ (d.view who).data = f := by
  obtain ⟨ha, hb, ca, cb⟩ := h
  cases who
  · exact ⟨by simpa [consistent_iff, Duo.view, Duo.side, ha] using ca, by simpa [Duo.view, Duo.side] using ha⟩
  · exact ⟨by simpa [consistent_iff, Duo.view, Duo.side, hb] using cb, by simpa [Duo.view, Duo.side] using hb⟩

theorem store_inv {d : Duo} {f : Frame} (h : DInv d f) (who : Bool) (op : Op) (out : Out) (t' : T)
    (hq : op.rebinds = false) (hd : t'.data = f) (hc : Consistent t') :
    DInv (d.store who op out t') f := by
  obtain ⟨ha, hb, ca, cb⟩ := h
  obtain ⟨c1, c2, c3⟩ := (consistent_iff t').1 hc
  rw [hd] at c1 c2 c3
  unfold Duo.store
  simp only [hq, Bool.false_and, Bool.false_eq_true, if_false, hd]
  cases who <;> cases hax : d.a.ix <;> cases hbx : d.b.ix <;> cases hr : t'.idxRebound <;>
    cases hfa : d.a.fr <;> cases hfb : d.b.fr <;>
    simp_all [DInv, Duo.side, Duo.setSide, Duo.setDict, Duo.setFrame, Duo.dict, Duo.frame, CParts]


theorem stepD_query {d : Duo} {f : Frame} (h : DInv d f) (who : Bool) {op : Op}
    (hq : op.isQuery = true) :
    DInv (stepD current d who op).1 f ∧ (stepD current d who op).2 = (specStep f op).2.1 := by
  obtain ⟨hc, hd⟩ := view_consistent h who
  obtain ⟨s1, s2, s3, _, _⟩ := step_refines hc op
  rw [hd, query_frame hq] at s1
  rw [hd] at s3
  unfold stepD
  rcases hs : step current (d.view who) op with ⟨t', out, ch⟩
  rw [hs] at s1 s2 s3
  simp only at s1 s2 s3
  exact ⟨store_inv h who op out t' (query_not_rebinds hq) s1 s2, s3⟩

/-- both pointers of the specification's two-wrapper state refer to `f` -/
def SInv (d : SDuo) (f : Frame) : Prop := d.frame d.aFr = f ∧ d.frame d.bFr = f

theorem specStepD_query {d : SDuo} {f : Frame} (h : SInv d f) (who : Bool) {op : Op}
    (hq : op.isQuery = true) :
    SInv (specStepD d who op).1 f ∧ (specStepD d who op).2 = (specStep f op).2.1 ∧
    (specStepD d who op).1.frame ((specStepD d who op).1.ptr who) = f := by
  obtain ⟨ha, hb⟩ := h
  have hf := query_frame hq f
  unfold specStepD
  simp only [query_not_rebinds hq, Bool.false_and, Bool.false_eq_true, if_false]
  cases who <;> cases hfa : d.aFr <;> cases hfb : d.bFr <;>
    simp_all [SInv, SDuo.ptr, SDuo.frame] <;>
    (rcases hs : specStep f op with ⟨f', out, ch⟩; rw [hs] at hf; simp_all)

end LianVerif.Table
