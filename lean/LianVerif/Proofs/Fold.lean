/-
Proofs/Fold.lean — helper lemmas about the folding model (size bounds, collecting the pair results).
Core Lean only.
-/
import LianVerif.Model.Fold

namespace LianVerif.FoldProofs
open LianVerif.PyStrLit LianVerif.Fold

theorem pow_bound : 2 ^ 4096 < 10 ^ 4300 := by decide +kernel

theorem printable_of_bits (n : Int) (h : bitLength n ≤ maxBits) : unprintable (.int n) = false := by
  unfold unprintable
  simp only [decide_eq_false_iff_not, Nat.not_le]
  unfold bitLength at h
  by_cases h0 : n.natAbs = 0
  · rw [h0]; exact Nat.pow_pos (by decide)
  · simp only [h0, if_false] at h
    have h1 : n.natAbs < 2 ^ (Nat.log2 n.natAbs + 1) := Nat.lt_log2_self
    have h2 : 2 ^ (Nat.log2 n.natAbs + 1) ≤ 2 ^ 4096 := Nat.pow_le_pow_right (by decide) h
    exact Nat.lt_of_lt_of_le h1 (Nat.le_trans h2 (Nat.le_of_lt pow_bound))

theorem not_unprintable_of_not_overLimit (v : Obj) (h : overLimit v = false) : unprintable v = false := by
  cases v with
  | str s => rfl
  | bool b => rfl
  | int n =>
    simp only [overLimit, decide_eq_false_iff_not, Nat.not_lt] at h
    exact printable_of_bits n h


def outVal : Out → OState
  | .state v dt => .val v dt
  | _ => .anything

theorem contains_false_of_all_states (outs : List Out) (h : ∀ o ∈ outs, ∃ v dt, o = Out.state v dt)
    (x : Out) (hx : ∀ v dt, x ≠ Out.state v dt) : outs.contains x = false := by
  cases hcx : outs.contains x with
  | false => rfl
  | true =>
    obtain ⟨v, dt, e⟩ := h x (List.contains_iff_mem.1 hcx)
    exact absurd e (hx v dt)

theorem filterMap_all_states : ∀ (outs : List Out), (∀ o ∈ outs, ∃ v dt, o = Out.state v dt) →
    outs.filterMap outState? = outs.map outVal ∧
    OState.anything ∉ outs.map outVal := by
  intro outs
  induction outs with
  | nil => intro _; simp
  | cons o rest ih =>
    intro h
    obtain ⟨v, dt, rfl⟩ := h o (List.mem_cons_self ..)
    obtain ⟨ih1, ih2⟩ := ih (fun o' ho' => h o' (List.mem_cons_of_mem _ ho'))
    refine ⟨?_, ?_⟩
    · simp only [List.filterMap_cons, List.map_cons, outVal, outState?, ih1]
    · simp only [List.map_cons, List.mem_cons, not_or]
      exact ⟨by simp [outVal], ih2⟩

theorem collect_all_states (outs : List Out) (h : ∀ o ∈ outs, ∃ v dt, o = Out.state v dt) :
    collect outs = .states (outs.map outVal) := by
  unfold collect
  rw [contains_false_of_all_states outs h .crash (by intro v dt; simp),
      contains_false_of_all_states outs h .unmodelled (by intro v dt; simp)]
  simp only [Bool.false_eq_true, if_false]
  rw [(filterMap_all_states outs h).1]



theorem int_result_avail (o : Op) (a b : Int) (v : PyVal) (hv : pyBinop o (.int a) (.int b) = .ok v) :
    avail (PyVal.toObj v) = true := by
  cases v with
  | int n => rfl
  | bool c => rfl
  | str s =>
    exfalso
    simp only [pyBinop, PyVal.asInt?] at hv
    cases o <;> simp only [intBinop] at hv <;> (repeat' split at hv) <;> simp at hv

theorem tooLarge_int_some (o : Op) (a b : Int) : tooLarge o (.int a) (.int b) false ≠ none := by
  unfold tooLarge
  simp only [pyInt?]
  repeat' split
  all_goals simp

end LianVerif.FoldProofs
