/-
Soundness and completeness of the GIR well-formedness checker (`Gir/WellFormed.lean`).
Property theorems are restated in Properties/C03.lean.
-/
import LianVerif.Gir.WellFormed

namespace LianVerif.Gir

/-! ### markers -/

theorem opStart_ne_opEnd : (opStart == opEnd) = false := by decide

theorem isStart_not_isEnd {r : Row} (h : r.isStart = true) : r.isEnd = false := by
  simp only [Row.isStart, Row.isEnd, beq_iff_eq] at h ⊢
  rw [h]; exact opStart_ne_opEnd

theorem isEnd_not_isStart {r : Row} (h : r.isEnd = true) : r.isStart = false := by
  cases hs : r.isStart with
  | false => rfl
  | true => rw [isStart_not_isEnd hs] at h; exact absurd h (by simp)

theorem isMarker_false_iff {r : Row} : r.isMarker = false ↔ r.isStart = false ∧ r.isEnd = false := by
  simp [Row.isMarker]

/-! ### `parseLvl` is sound for `Lvl` -/

theorem parseLvl_sound {M : Row → Nat → Bool} {q : Nat → Bool → Row → Bool}
    {Q : Nat → Bool → Row → Prop} (hq : ∀ p inM r, q p inM r = true → Q p inM r) :
    ∀ fuel p inM last rows rem, parseLvl M q fuel p inM last rows = some rem →
      ∃ pre, rows = pre ++ rem ∧ Lvl M Q p inM last pre := by
  intro fuel
  induction fuel with
  | zero => intro p inM last rows rem h; simp [parseLvl] at h
  | succ fuel ih =>
    intro p inM last rows rem h
    cases rows with
    | nil =>
      simp only [parseLvl] at h
      injection h with h; subst h
      exact ⟨[], rfl, Lvl.nil⟩
    | cons r rest =>
      simp only [parseLvl] at h
      by_cases hE : r.isEnd = true
      · rw [if_pos hE] at h
        injection h with h; subst h
        exact ⟨[], rfl, Lvl.nil⟩
      · rw [if_neg hE] at h
        by_cases hS : r.isStart = true
        · rw [if_pos hS] at h
          cases last with
          | none => simp at h
          | some o =>
            simp only at h
            by_cases hc : (r.parent == o.id && o.hasIntAttr r.id) = true
            · rw [if_pos hc] at h
              cases hin : parseLvl M q fuel r.id (inM || M o r.id) none rest with
              | none => rw [hin] at h; simp at h
              | some rem1 =>
                rw [hin] at h
                cases rem1 with
                | nil => simp at h
                | cons e rest' =>
                  simp only at h
                  by_cases he : (e.isEnd && e.id == r.id && e.parent == o.id) = true
                  · rw [if_pos he] at h
                    obtain ⟨pre1, h1, l1⟩ := ih _ _ _ _ _ hin
                    obtain ⟨pre2, h2, l2⟩ := ih _ _ _ _ _ h
                    simp only [Bool.and_eq_true, beq_iff_eq] at hc he
                    refine ⟨r :: (pre1 ++ e :: pre2), ?_, ?_⟩
                    · rw [h1, h2]; simp
                    · exact Lvl.block hS he.1.1 he.1.2 hc.1 he.2 hc.2 l1 l2
                  · rw [if_neg he] at h; simp at h
            · rw [if_neg hc] at h; simp at h
        · rw [if_neg hS] at h
          by_cases hc : (r.parent == p && q p inM r) = true
          · rw [if_pos hc] at h
            obtain ⟨pre, h1, l1⟩ := ih _ _ _ _ _ h
            simp only [Bool.and_eq_true, beq_iff_eq] at hc
            refine ⟨r :: pre, by rw [h1]; simp, ?_⟩
            refine Lvl.stmt ?_ hc.1 (hq _ _ _ hc.2) l1
            simp only [Row.isMarker, Bool.or_eq_false_iff]
            exact ⟨by simpa using hS, by simpa using hE⟩
          · rw [if_neg hc] at h; simp at h

/-! ### `parseLvl` is complete for `Lvl` -/

/-- what `parseLvl` stops in front of: the end of the table or a `block_end`. -/
def StopsAt (rem : Rows) : Prop := rem = [] ∨ ∃ e rest, rem = e :: rest ∧ e.isEnd = true

theorem parseLvl_complete {M : Row → Nat → Bool} {q : Nat → Bool → Row → Bool}
    {Q : Nat → Bool → Row → Prop} (hq : ∀ p inM r, Q p inM r → q p inM r = true)
    {p : Nat} {inM : Bool} {last : Option Row} {pre : Rows} (h : Lvl M Q p inM last pre) :
    ∀ rem fuel, StopsAt rem → pre.length < fuel → parseLvl M q fuel p inM last (pre ++ rem) = some rem := by
  induction h with
  | nil =>
    intro rem fuel hrem hf
    cases fuel with
    | zero => omega
    | succ fuel =>
      rcases hrem with rfl | ⟨e, rest, rfl, he⟩
      · simp [parseLvl]
      · simp [parseLvl, he]
  | @stmt p inM last r rest hm hp hQ _ ih =>
    intro rem fuel hrem hf
    cases fuel with
    | zero => simp at hf
    | succ fuel =>
      obtain ⟨hs, he⟩ := isMarker_false_iff.1 hm
      have := ih rem fuel hrem (by simp at hf; omega)
      simp only [List.cons_append, parseLvl, he, hs, hp, beq_self_eq_true, hq _ _ _ hQ, Bool.and_self,
        if_true, Bool.false_eq_true, if_false]
      exact this
  | @block p inM o s e inner rest hs he hid hsp hep hattr _ _ ih1 ih2 =>
    intro rem fuel hrem hf
    cases fuel with
    | zero => simp at hf
    | succ fuel =>
      have hlen : inner.length + (rest.length + 1) < fuel := by
        simp only [List.length_cons, List.length_append] at hf; omega
      have h1 := ih1 (e :: (rest ++ rem)) fuel (Or.inr ⟨e, _, rfl, he⟩) (by omega)
      have h2 := ih2 rem fuel hrem (by omega)
      have hse := isStart_not_isEnd hs
      simp only [List.cons_append, List.append_assoc, parseLvl, hse, hs, hsp, beq_self_eq_true, hattr,
        Bool.and_self, if_true, Bool.false_eq_true, if_false]
      rw [h1]
      simp only [he, hid, hep, beq_self_eq_true, Bool.and_self, if_true]
      exact h2

/-! ### the clauses one by one: `chk… = true ↔ clause` -/

theorem execOk_iff (P : WfParams) (p : Nat) (inM : Bool) (r : Row) :
    execOk P p inM r = true ↔ ExecOk P p inM r := by
  unfold execOk ExecOk
  by_cases hp : p = 0
  · subst hp; simp
  · cases isExec P r.op <;> cases inM <;> simp [hp]

theorem chkNested_iff (P : WfParams) (rows : Rows) :
    chkNested P rows = true ↔ Lvl (opensMethod P) (ExecOk P) 0 false none rows := by
  unfold chkNested
  constructor
  · intro h
    cases hp : parseLvl (opensMethod P) (execOk P) (rows.length + 1) 0 false none rows with
    | none => rw [hp] at h; simp at h
    | some rem =>
      rw [hp] at h
      cases rem with
      | cons _ _ => simp at h
      | nil =>
        obtain ⟨pre, h1, l⟩ := parseLvl_sound (fun p inM r => (execOk_iff P p inM r).1) _ _ _ _ _ _ hp
        rw [List.append_nil] at h1; subst h1; exact l
  · intro h
    have := parseLvl_complete (q := execOk P) (fun p inM r => (execOk_iff P p inM r).2) h [] (rows.length + 1)
      (Or.inl rfl) (by omega)
    rw [List.append_nil] at this
    rw [this]

theorem chkShape_sound (rows : Rows) :
    chkShape rows = true → Lvl (fun _ _ => false) NoCond 0 false none rows := by
  unfold chkShape
  intro h
  cases hp : parseLvl (fun _ _ => false) (fun _ _ _ => true) (rows.length + 1) 0 false none rows with
  | none => rw [hp] at h; simp at h
  | some rem =>
    rw [hp] at h
    cases rem with
    | cons _ _ => simp at h
    | nil =>
      obtain ⟨pre, h1, l⟩ := parseLvl_sound (Q := NoCond) (fun _ _ _ _ => trivial) _ _ _ _ _ _ hp
      rw [List.append_nil] at h1; subst h1; exact l

theorem chkIdsUnique_iff (rows : Rows) : chkIdsUnique rows = true ↔ (defIds rows).Nodup := by
  simp [chkIdsUnique]

theorem chkIdsPos_iff (rows : Rows) : chkIdsPos rows = true ↔ ∀ r ∈ rows, r.id ≠ 0 := by
  simp [chkIdsPos]

theorem chkTopDecl_iff (P : WfParams) (rows : Rows) :
    chkTopDecl P rows = true ↔
      ∀ r ∈ rows, r.isMarker = false → r.parent = 0 → keepsTop P r.op = true := by
  simp only [chkTopDecl, List.all_eq_true, Bool.or_eq_true, bne_iff_ne, ne_eq]
  constructor
  · intro h r hr hm hp
    rcases h r hr with (h1 | h1) | h1
    · rw [hm] at h1; exact absurd h1 (by simp)
    · exact absurd hp h1
    · exact h1
  · intro h r hr
    by_cases hm : r.isMarker = true
    · exact Or.inl (Or.inl hm)
    · by_cases hp : r.parent = 0
      · exact Or.inr (h r hr (by simpa using hm) hp)
      · exact Or.inl (Or.inr hp)

theorem chkBodiesExist_iff (P : WfParams) (rows : Rows) :
    chkBodiesExist P rows = true ↔
      ∀ r ∈ rows, r.isMarker = false → ∀ kv ∈ r.attrs, bodyKey P kv.1 = true →
        ∀ b : Int, kv.2 = AVal.int b → ∃ s ∈ rows, s.isStart = true ∧ (s.id : Int) = b ∧ s.parent = r.id := by
  simp only [chkBodiesExist, List.all_eq_true, Bool.or_eq_true]
  constructor
  · intro h r hr hm kv hkv hb b hv
    rcases h r hr with h1 | h1
    · rw [hm] at h1; exact absurd h1 (by simp)
    · rcases h1 kv hkv with h2 | h2
      · rw [hb] at h2; exact absurd h2 (by simp)
      · rw [hv] at h2
        simp only [List.any_eq_true, Bool.and_eq_true, beq_iff_eq] at h2
        obtain ⟨s, hs, ⟨h3, h4⟩, h5⟩ := h2
        exact ⟨s, hs, h3, h4, h5⟩
  · intro h r hr
    by_cases hm : r.isMarker = true
    · exact Or.inl hm
    · refine Or.inr (fun kv hkv => ?_)
      by_cases hb : bodyKey P kv.1 = true
      · refine Or.inr ?_
        cases hv : kv.2 with
        | none => rfl
        | str _ => rfl
        | int b =>
          obtain ⟨s, hs, h3, h4, h5⟩ := h r hr (by simpa using hm) kv hkv hb b hv
          simp only [List.any_eq_true, Bool.and_eq_true, beq_iff_eq]
          exact ⟨s, hs, ⟨h3, h4⟩, h5⟩
      · exact Or.inl (by simpa using hb)

theorem orderedRel_iff (a b : Row) :
    orderedRel a b = true ↔ (a.isMarker = false → b.isMarker = false → a.parent = b.parent → a.id < b.id) := by
  unfold orderedRel
  cases a.isMarker <;> cases b.isMarker <;> by_cases hp : a.parent = b.parent <;> simp [hp]

theorem chkOrderedFrom_iff (rows : Rows) :
    chkOrderedFrom rows = true ↔
      rows.Pairwise (fun a b => a.isMarker = false → b.isMarker = false → a.parent = b.parent → a.id < b.id) := by
  induction rows with
  | nil => simp [chkOrderedFrom]
  | cons a rest ih =>
    simp only [chkOrderedFrom, Bool.and_eq_true, List.all_eq_true, List.pairwise_cons, ih]
    constructor
    · rintro ⟨h1, h2⟩
      exact ⟨fun b hb => (orderedRel_iff a b).1 (h1 b hb), h2⟩
    · rintro ⟨h1, h2⟩
      exact ⟨fun b hb => (orderedRel_iff a b).2 (h1 b hb), h2⟩

theorem chkOneInit_iff (P : WfParams) (rows : Rows) :
    chkOneInit P rows = true ↔ (rows.filter (isUnitInit P)).length ≤ 1 := by
  simp [chkOneInit]

/-- **the unit checker decides the unit specification** -/
theorem wfUnitCheck_iff (P : WfParams) (rows : Rows) : wfUnitCheck P rows = true ↔ WFUnit P rows := by
  simp only [wfUnitCheck, Bool.and_eq_true, chkNested_iff, chkIdsUnique_iff, chkIdsPos_iff, chkTopDecl_iff,
    chkBodiesExist_iff, chkOrderedFrom_iff, chkOneInit_iff]
  constructor
  · rintro ⟨⟨⟨⟨⟨⟨h1, h2⟩, h3⟩, h4⟩, h5⟩, h6⟩, h7⟩
    exact ⟨h1, h2, h3, h4, h5, h6, h7⟩
  · rintro ⟨h1, h2, h3, h4, h5, h6, h7⟩
    exact ⟨⟨⟨⟨⟨⟨h1, h2⟩, h3⟩, h4⟩, h5⟩, h6⟩, h7⟩

/-! ### id ranges -/

theorem idRange_none {rows : Rows} : idRange rows = none ↔ rows = [] := by
  cases rows with
  | nil => simp [idRange]
  | cons r rest =>
    simp only [idRange]
    cases idRange rest with
    | none => simp
    | some lh => simp

theorem idRange_spec : ∀ {rows : Rows} {lo hi : Nat}, idRange rows = some (lo, hi) →
    (∀ r ∈ rows, lo ≤ r.id ∧ r.id ≤ hi) ∧ (∃ r ∈ rows, r.id = lo) ∧ (∃ r ∈ rows, r.id = hi) := by
  intro rows
  induction rows with
  | nil => intro lo hi h; simp [idRange] at h
  | cons r rest ih =>
    intro lo hi h
    simp only [idRange] at h
    cases hr : idRange rest with
    | none =>
      rw [hr] at h
      simp only [Option.some.injEq, Prod.mk.injEq] at h
      obtain ⟨rfl, rfl⟩ := h
      have : rest = [] := idRange_none.1 hr
      subst this
      simp
    | some lh =>
      obtain ⟨lo', hi'⟩ := lh
      rw [hr] at h
      simp only [Option.some.injEq, Prod.mk.injEq] at h
      obtain ⟨rfl, rfl⟩ := h
      obtain ⟨h1, ⟨a, ha, ha'⟩, ⟨b, hb, hb'⟩⟩ := ih hr
      refine ⟨?_, ?_, ?_⟩
      · intro x hx
        rcases List.mem_cons.1 hx with rfl | hx
        · omega
        · have := h1 x hx; omega
      · by_cases hc : lo' ≤ r.id
        · exact ⟨a, List.mem_cons_of_mem _ ha, by omega⟩
        · exact ⟨r, List.mem_cons_self, by omega⟩
      · by_cases hc : r.id ≤ hi'
        · exact ⟨b, List.mem_cons_of_mem _ hb, by omega⟩
        · exact ⟨r, List.mem_cons_self, by omega⟩

theorem rangesDisjoint_iff (u v : Rows) : rangesDisjoint u v = true ↔ RangesDisjoint u v := by
  unfold rangesDisjoint RangesDisjoint
  cases hu : idRange u with
  | none =>
    have : u = [] := idRange_none.1 hu
    subst this; simp
  | some r1 =>
    obtain ⟨lo1, hi1⟩ := r1
    cases hv : idRange v with
    | none =>
      have : v = [] := idRange_none.1 hv
      subst this; simp
    | some r2 =>
      obtain ⟨lo2, hi2⟩ := r2
      obtain ⟨b1, ⟨x1, hx1, e1⟩, ⟨y1, hy1, f1⟩⟩ := idRange_spec hu
      obtain ⟨b2, ⟨x2, hx2, e2⟩, ⟨y2, hy2, f2⟩⟩ := idRange_spec hv
      simp only [Bool.or_eq_true, decide_eq_true_eq]
      constructor
      · rintro (h | h)
        · left; intro a ha b hb
          have := b1 a ha; have := b2 b hb; omega
        · right; intro a ha b hb
          have := b1 a ha; have := b2 b hb; omega
      · rintro (h | h)
        · left; have := h y1 hy1 x2 hx2; omega
        · right; have := h x1 hx1 y2 hy2; omega

theorem chkRangesFrom_iff (units : List Rows) :
    chkRangesFrom units = true ↔ units.Pairwise RangesDisjoint := by
  induction units with
  | nil => simp [chkRangesFrom]
  | cons u rest ih =>
    simp only [chkRangesFrom, Bool.and_eq_true, List.all_eq_true, List.pairwise_cons, ih]
    constructor
    · rintro ⟨h1, h2⟩
      exact ⟨fun v hv => (rangesDisjoint_iff u v).1 (h1 v hv), h2⟩
    · rintro ⟨h1, h2⟩
      exact ⟨fun v hv => (rangesDisjoint_iff u v).2 (h1 v hv), h2⟩

/-- **the project checker decides the project specification** -/
theorem wfCheck_iff (P : WfParams) (units : List Rows) : wfCheck P units = true ↔ WFProject P units := by
  simp only [wfCheck, Bool.and_eq_true, List.all_eq_true, chkRangesFrom_iff]
  constructor
  · rintro ⟨h1, h2⟩
    exact ⟨fun u hu => (wfUnitCheck_iff P u).1 (h1 u hu), h2⟩
  · rintro ⟨h1, h2⟩
    exact ⟨fun u hu => (wfUnitCheck_iff P u).2 (h1 u hu), h2⟩

end LianVerif.Gir
