/-
Part C — termination of the worklist (C10): on a consistently serialised, edge-typed SFG the loop of
`propagate_taint` empties the worklist within `fuelFor g` iterations.

Potential.  With N = number of nodes and counts over the nodes v < N:
  A = non-symbol nodes in the worklist,  B = symbol nodes in the worklist,
  Us / Ut = nodes whose id is not yet in the symbol / state table,
  R = nodes that are neither in `_processed_nodes` nor in the worklist,
  Φ = A + (N+1)·B + (N+2)·(Us + Ut + R).
Every iteration decreases Φ: a dequeued statement or state costs 1 and each of its actions pays for
what it enqueues with a newly tagged id or a node leaving R; a dequeued symbol costs N+1 and its
unconditional SYMBOL_IS_USED enqueues add at most N to A (they are distinct statements).
-/
import LianVerif.Proofs.TaintComplete

namespace LianVerif.Taint
open LianVerif.Sfg LianVerif.TaintRules LianVerif.Reach

/-! ### counting the nodes below `n` that satisfy a Boolean predicate -/

def cnt : Nat → (Nat → Bool) → Nat
  | 0, _ => 0
  | n + 1, p => cnt n p + (if p n then 1 else 0)

theorem cnt_le (n : Nat) (p : Nat → Bool) : cnt n p ≤ n := by
  induction n with
  | zero => simp [cnt]
  | succ n ih => simp only [cnt]; split <;> omega

theorem cnt_mono {n : Nat} {p q : Nat → Bool} (h : ∀ v, v < n → p v = true → q v = true) :
    cnt n p ≤ cnt n q := by
  induction n with
  | zero => simp [cnt]
  | succ n ih =>
    simp only [cnt]
    have ih' := ih (fun v hv => h v (by omega))
    cases hpn : p n with
    | false => cases hqn : q n <;> simp <;> omega
    | true =>
      have hqn := h n (by omega) hpn
      simp [hqn]; omega

/-- a witness that satisfies `q` but not `p` makes the count strictly smaller -/
theorem cnt_lt {n : Nat} {p q : Nat → Bool} (h : ∀ v, v < n → p v = true → q v = true) {x : Nat}
    (hx : x < n) (hq : q x = true) (hp : p x = false) : cnt n p + 1 ≤ cnt n q := by
  induction n with
  | zero => omega
  | succ n ih =>
    simp only [cnt]
    by_cases hxn : x = n
    · subst hxn
      have := cnt_mono (n := x) (p := p) (q := q) (fun v hv => h v (by omega))
      simp [hp, hq]; omega
    · have ih' := ih (fun v hv => h v (by omega)) (by omega)
      cases hpn : p n with
      | false => cases hqn : q n <;> simp <;> omega
      | true =>
        have hqn := h n (by omega) hpn
        simp [hqn]; omega

/-- at most one more node satisfies `q` than `p` when they differ at most at `x` -/
theorem cnt_add_one {n : Nat} {p q : Nat → Bool} {x : Nat}
    (h : ∀ v, v < n → q v = true → p v = true ∨ v = x) : cnt n q ≤ cnt n p + 1 := by
  induction n with
  | zero => simp [cnt]
  | succ n ih =>
    simp only [cnt]
    by_cases hxn : x = n
    · subst hxn
      have : cnt x q ≤ cnt x p := cnt_mono (fun v hv hqv => by
        rcases h v (by omega) hqv with h1 | h1
        · exact h1
        · omega)
      cases hpn : p x <;> cases hqn : q x <;> simp <;> omega
    · have ih' := ih (fun v hv => h v (by omega))
      cases hqn : q n with
      | false => cases hpn : p n <;> simp <;> omega
      | true =>
        rcases h n (by omega) hqn with h1 | h1
        · simp [h1]; omega
        · omega

/-! ### the potential -/

def cA (g : Graph) (s : PState) : Nat :=
  cnt g.size (fun v => s.wl.contains v && !(g.kindOf v == K_SYMBOL))
def cB (g : Graph) (s : PState) : Nat :=
  cnt g.size (fun v => s.wl.contains v && g.kindOf v == K_SYMBOL)
def cUs (g : Graph) (s : PState) : Nat := cnt g.size (fun v => !s.symT.contains (g.nid v))
def cUt (g : Graph) (s : PState) : Nat := cnt g.size (fun v => !s.stT.contains (g.nid v))
def cR (g : Graph) (s : PState) : Nat :=
  cnt g.size (fun v => !s.processed.contains v && !s.wl.contains v)

def Psi (g : Graph) (s : PState) : Nat :=
  (g.size + 1) * cB g s + (g.size + 2) * (cUs g s + cUt g s + cR g s)
def Phi (g : Graph) (s : PState) : Nat := cA g s + Psi g s

/-- worklist without duplicates, all entries are node indices -/
def WInv (g : Graph) (s : PState) : Prop := s.wl.Nodup ∧ ∀ v ∈ s.wl, v < g.size

variable {g : Graph}

theorem mul_succ_le {n a b : Nat} (h : a ≤ b + 1) : n * a ≤ n * b + n := by
  have := Nat.mul_le_mul_left n h
  rw [Nat.mul_add, Nat.mul_one] at this
  exact this

theorem mul_pred_le {n a b : Nat} (h : a + 1 ≤ b) : n * a + n ≤ n * b := by
  have := Nat.mul_le_mul_left n h
  rw [Nat.mul_add, Nat.mul_one] at this
  exact this

/-! #### effect of `enqueue` -/

theorem enqueue_counts (s : PState) (v : Nat) :
    cUs g (enqueue s v) = cUs g s ∧ cUt g (enqueue s v) = cUt g s ∧
    cR g (enqueue s v) ≤ cR g s ∧
    cA g (enqueue s v) ≤ cA g s + 1 ∧ cB g (enqueue s v) ≤ cB g s + 1 ∧
    (g.kindOf v = K_SYMBOL → cA g (enqueue s v) ≤ cA g s) ∧
    (g.kindOf v ≠ K_SYMBOL → cB g (enqueue s v) ≤ cB g s) := by
  refine ⟨by unfold cUs; rw [enqueue_symT], by unfold cUt; rw [enqueue_stT], ?_, ?_, ?_, ?_, ?_⟩
  · unfold cR
    apply cnt_mono
    intro x _ hx
    simp only [enqueue_processed, Bool.and_eq_true, Bool.not_eq_true', List.contains_eq_mem,
      decide_eq_false_iff_not] at hx ⊢
    exact ⟨hx.1, fun h => hx.2 (mem_enqueue_of_mem h)⟩
  · unfold cA
    apply cnt_add_one (x := v)
    intro x _ hx
    simp only [Bool.and_eq_true, List.contains_eq_mem, decide_eq_true_eq] at hx ⊢
    rcases mem_enqueue_iff.1 hx.1 with h | h
    · exact Or.inl ⟨h, hx.2⟩
    · exact Or.inr h
  · unfold cB
    apply cnt_add_one (x := v)
    intro x _ hx
    simp only [Bool.and_eq_true, List.contains_eq_mem, decide_eq_true_eq] at hx ⊢
    rcases mem_enqueue_iff.1 hx.1 with h | h
    · exact Or.inl ⟨h, hx.2⟩
    · exact Or.inr h
  · intro hk
    unfold cA
    apply cnt_mono
    intro x _ hx
    simp only [Bool.and_eq_true, List.contains_eq_mem, decide_eq_true_eq, Bool.not_eq_true',
      beq_eq_false_iff_ne, ne_eq] at hx ⊢
    rcases mem_enqueue_iff.1 hx.1 with h | h
    · exact ⟨h, hx.2⟩
    · subst h; exact absurd hk hx.2
  · intro hk
    unfold cB
    apply cnt_mono
    intro x _ hx
    simp only [Bool.and_eq_true, List.contains_eq_mem, decide_eq_true_eq, beq_iff_eq] at hx ⊢
    rcases mem_enqueue_iff.1 hx.1 with h | h
    · exact ⟨h, hx.2⟩
    · subst h; exact absurd hx.2 hk

/-- a node that was neither processed nor queued leaves `R` when it is enqueued -/
theorem enqueue_cR_lt {s : PState} {v : Nat} (hv : v < g.size) (h1 : v ∉ s.wl)
    (h2 : v ∉ s.processed) : cR g (enqueue s v) + 1 ≤ cR g s := by
  unfold cR
  apply cnt_lt (x := v) _ hv
  · simp [h1, h2]
  · simp only [enqueue_processed, Bool.and_eq_false_iff, Bool.not_eq_false', List.contains_eq_mem,
      decide_eq_true_eq]
    exact Or.inr (mem_enqueue_self s v)
  · intro x _ hx
    simp only [enqueue_processed, Bool.and_eq_true, Bool.not_eq_true', List.contains_eq_mem,
      decide_eq_false_iff_not] at hx ⊢
    exact ⟨hx.1, fun h => hx.2 (mem_enqueue_of_mem h)⟩

theorem winv_enqueue {s : PState} {v : Nat} (h : WInv g s) (hv : v < g.size) :
    WInv g (enqueue s v) := by
  unfold enqueue
  split
  · exact h
  · rename_i hc
    have hnot : v ∉ s.wl := by simpa using hc
    constructor
    · show (s.wl ++ [v]).Nodup
      rw [List.nodup_append]
      refine ⟨h.1, by simp, ?_⟩
      intro a ha b hb
      rw [List.mem_singleton] at hb
      subst hb
      intro hab; subst hab; exact hnot ha
    · intro x hx
      have : x ∈ s.wl ++ [v] := hx
      rw [List.mem_append, List.mem_singleton] at this
      rcases this with h1 | rfl
      · exact h.2 x h1
      · exact hv

/-! #### effect of setting a tag -/

theorem tagSym_counts (s : PState) (i : Int) :
    cA g { s with symT := i :: s.symT } = cA g s ∧ cB g { s with symT := i :: s.symT } = cB g s ∧
    cR g { s with symT := i :: s.symT } = cR g s ∧ cUt g { s with symT := i :: s.symT } = cUt g s ∧
    cUs g { s with symT := i :: s.symT } ≤ cUs g s :=
  ⟨rfl, rfl, rfl, rfl, by
    unfold cUs
    apply cnt_mono
    intro x _ hx
    simp only [Bool.not_eq_true', List.contains_eq_mem, decide_eq_false_iff_not, List.mem_cons,
      not_or] at hx ⊢
    exact hx.2⟩

theorem tagSym_cUs_lt {s : PState} {v : Nat} (hv : v < g.size) (hn : g.nid v ∉ s.symT) :
    cUs g { s with symT := g.nid v :: s.symT } + 1 ≤ cUs g s := by
  unfold cUs
  apply cnt_lt (x := v) _ hv
  · simp [hn]
  · simp
  · intro x _ hx
    simp only [Bool.not_eq_true', List.contains_eq_mem, decide_eq_false_iff_not, List.mem_cons,
      not_or] at hx ⊢
    exact hx.2

theorem tagSt_counts (s : PState) (i : Int) :
    cA g { s with stT := i :: s.stT } = cA g s ∧ cB g { s with stT := i :: s.stT } = cB g s ∧
    cR g { s with stT := i :: s.stT } = cR g s ∧ cUs g { s with stT := i :: s.stT } = cUs g s ∧
    cUt g { s with stT := i :: s.stT } ≤ cUt g s :=
  ⟨rfl, rfl, rfl, rfl, by
    unfold cUt
    apply cnt_mono
    intro x _ hx
    simp only [Bool.not_eq_true', List.contains_eq_mem, decide_eq_false_iff_not, List.mem_cons,
      not_or] at hx ⊢
    exact hx.2⟩

theorem tagSt_cUt_lt {s : PState} {v : Nat} (hv : v < g.size) (hn : g.nid v ∉ s.stT) :
    cUt g { s with stT := g.nid v :: s.stT } + 1 ≤ cUt g s := by
  unfold cUt
  apply cnt_lt (x := v) _ hv
  · simp [hn]
  · simp
  · intro x _ hx
    simp only [Bool.not_eq_true', List.contains_eq_mem, decide_eq_false_iff_not, List.mem_cons,
      not_or] at hx ⊢
    exact hx.2

/-! #### potential after `enqueue` / after setting a tag -/

theorem enqueue_pot (s : PState) (v : Nat) :
    Psi g (enqueue s v) ≤ Psi g s + (g.size + 1) ∧ Phi g (enqueue s v) ≤ Phi g s + (g.size + 1) ∧
    (g.kindOf v ≠ K_SYMBOL → Psi g (enqueue s v) ≤ Psi g s) := by
  obtain ⟨h1, h2, h3, h4, h5, h6, h7⟩ := enqueue_counts (g := g) s v
  have hU : (g.size + 2) * (cUs g (enqueue s v) + cUt g (enqueue s v) + cR g (enqueue s v)) ≤
      (g.size + 2) * (cUs g s + cUt g s + cR g s) := Nat.mul_le_mul_left _ (by omega)
  have hB : (g.size + 1) * cB g (enqueue s v) ≤ (g.size + 1) * cB g s + (g.size + 1) :=
    mul_succ_le h5
  refine ⟨?_, ?_, ?_⟩
  · unfold Psi; omega
  · unfold Phi Psi
    by_cases hk : g.kindOf v = K_SYMBOL
    · have := h6 hk; omega
    · have hB' : (g.size + 1) * cB g (enqueue s v) ≤ (g.size + 1) * cB g s :=
        Nat.mul_le_mul_left _ (h7 hk)
      omega
  · intro hk
    have hB' : (g.size + 1) * cB g (enqueue s v) ≤ (g.size + 1) * cB g s :=
      Nat.mul_le_mul_left _ (h7 hk)
    unfold Psi; omega

theorem enqueue_pot_fresh {s : PState} {v : Nat} (hv : v < g.size) (h1 : v ∉ s.wl)
    (h2 : v ∉ s.processed) :
    Psi g (enqueue s v) + 1 ≤ Psi g s ∧ Phi g (enqueue s v) + 1 ≤ Phi g s := by
  obtain ⟨e1, e2, _, e4, e5, e6, e7⟩ := enqueue_counts (g := g) s v
  have hR := enqueue_cR_lt (g := g) hv h1 h2
  have hU : (g.size + 2) * (cUs g (enqueue s v) + cUt g (enqueue s v) + cR g (enqueue s v)) +
      (g.size + 2) ≤ (g.size + 2) * (cUs g s + cUt g s + cR g s) := mul_pred_le (by omega)
  have hB : (g.size + 1) * cB g (enqueue s v) ≤ (g.size + 1) * cB g s + (g.size + 1) :=
    mul_succ_le e5
  refine ⟨by unfold Psi; omega, ?_⟩
  unfold Phi Psi
  by_cases hk : g.kindOf v = K_SYMBOL
  · have := e6 hk; omega
  · have hB' : (g.size + 1) * cB g (enqueue s v) ≤ (g.size + 1) * cB g s :=
      Nat.mul_le_mul_left _ (e7 hk)
    omega

theorem tagSym_pot {s : PState} {v : Nat} (hv : v < g.size) (hn : g.nid v ∉ s.symT) :
    Psi g { s with symT := g.nid v :: s.symT } + (g.size + 2) ≤ Psi g s ∧
    Phi g { s with symT := g.nid v :: s.symT } + (g.size + 2) ≤ Phi g s := by
  obtain ⟨e1, e2, e3, e4, _⟩ := tagSym_counts (g := g) s (g.nid v)
  have hlt := tagSym_cUs_lt (g := g) hv hn
  have hU : (g.size + 2) * (cUs g { s with symT := g.nid v :: s.symT } +
      cUt g { s with symT := g.nid v :: s.symT } + cR g { s with symT := g.nid v :: s.symT }) +
      (g.size + 2) ≤ (g.size + 2) * (cUs g s + cUt g s + cR g s) := mul_pred_le (by omega)
  constructor
  · unfold Psi; rw [e2]; omega
  · unfold Phi Psi; rw [e1, e2]; omega

theorem tagSt_pot {s : PState} {v : Nat} (hv : v < g.size) (hn : g.nid v ∉ s.stT) :
    Psi g { s with stT := g.nid v :: s.stT } + (g.size + 2) ≤ Psi g s ∧
    Phi g { s with stT := g.nid v :: s.stT } + (g.size + 2) ≤ Phi g s := by
  obtain ⟨e1, e2, e3, e4, _⟩ := tagSt_counts (g := g) s (g.nid v)
  have hlt := tagSt_cUt_lt (g := g) hv hn
  have hU : (g.size + 2) * (cUs g { s with stT := g.nid v :: s.stT } +
      cUt g { s with stT := g.nid v :: s.stT } + cR g { s with stT := g.nid v :: s.stT }) +
      (g.size + 2) ≤ (g.size + 2) * (cUs g s + cUt g s + cR g s) := mul_pred_le (by omega)
  constructor
  · unfold Psi; rw [e2]; omega
  · unfold Phi Psi; rw [e1, e2]; omega

/-! #### one action -/

def actNode : Act → Nat
  | .tagSym v => v
  | .tagSymP v => v
  | .tagSt v => v
  | .enq v => v

def isEnq : Act → Bool
  | .enq _ => true
  | _ => false

/-- no action increases `Psi`; actions other than `enq` do not increase `Phi`; `WInv` is kept -/
theorem applyAct_pot {s : PState} {a : Act} (hok : ActOK g a) (hin : actNode a < g.size)
    (hw : WInv g s) :
    Psi g (applyAct g s a) ≤ Psi g s ∧ (isEnq a = false → Phi g (applyAct g s a) ≤ Phi g s) ∧
    WInv g (applyAct g s a) := by
  cases a with
  | tagSym v =>
    have hin : v < g.size := hin
    simp only [applyAct]
    split
    · exact ⟨Nat.le_refl _, fun _ => Nat.le_refl _, hw⟩
    · rename_i hc
      have hn : g.nid v ∉ s.symT := by simpa using hc
      obtain ⟨t1, t2⟩ := tagSym_pot (g := g) (s := s) hin hn
      obtain ⟨q1, q2, _⟩ := enqueue_pot (g := g) { s with symT := g.nid v :: s.symT } v
      exact ⟨by omega, fun _ => by omega, winv_enqueue (g := g) (s := { s with symT := g.nid v :: s.symT }) hw hin⟩
  | tagSymP v =>
    have hin : v < g.size := hin
    simp only [applyAct]
    split
    · split
      · exact ⟨Nat.le_refl _, fun _ => Nat.le_refl _, hw⟩
      · rename_i hp
        have hnp : v ∉ s.processed := by simpa using hp
        by_cases hwl : v ∈ s.wl
        · have : enqueue s v = s := by
            unfold enqueue; rw [if_pos (List.contains_iff_mem.2 hwl)]
          rw [this]
          exact ⟨Nat.le_refl _, fun _ => Nat.le_refl _, hw⟩
        · obtain ⟨f1, f2⟩ := enqueue_pot_fresh (g := g) hin hwl hnp
          exact ⟨by omega, fun _ => by omega, winv_enqueue hw hin⟩
    · rename_i hc
      have hn : g.nid v ∉ s.symT := by simpa using hc
      obtain ⟨t1, t2⟩ := tagSym_pot (g := g) (s := s) hin hn
      obtain ⟨q1, q2, _⟩ := enqueue_pot (g := g) { s with symT := g.nid v :: s.symT } v
      exact ⟨by omega, fun _ => by omega, winv_enqueue (g := g) (s := { s with symT := g.nid v :: s.symT }) hw hin⟩
  | tagSt v =>
    have hin : v < g.size := hin
    simp only [applyAct]
    split
    · exact ⟨Nat.le_refl _, fun _ => Nat.le_refl _, hw⟩
    · rename_i hc
      have hn : g.nid v ∉ s.stT := by simpa using hc
      obtain ⟨t1, t2⟩ := tagSt_pot (g := g) (s := s) hin hn
      obtain ⟨q1, q2, _⟩ := enqueue_pot (g := g) { s with stT := g.nid v :: s.stT } v
      exact ⟨by omega, fun _ => by omega, winv_enqueue (g := g) (s := { s with stT := g.nid v :: s.stT }) hw hin⟩
  | enq v =>
    have hin : v < g.size := hin
    simp only [applyAct]
    have hk : g.kindOf v ≠ K_SYMBOL := by
      have : g.kindOf v = K_STMT := hok
      rw [this]; decide
    exact ⟨(enqueue_pot (g := g) s v).2.2 hk, fun h => absurd h (by simp [isEnq]), winv_enqueue hw hin⟩

theorem foldl_pot (acts : List Act) : ∀ {s : PState}, (∀ a ∈ acts, ActOK g a) →
    (∀ a ∈ acts, actNode a < g.size) → WInv g s →
    Psi g (acts.foldl (applyAct g) s) ≤ Psi g s ∧
    ((∀ a ∈ acts, isEnq a = false) → Phi g (acts.foldl (applyAct g) s) ≤ Phi g s) ∧
    WInv g (acts.foldl (applyAct g) s) := by
  induction acts with
  | nil => intro s _ _ hw; exact ⟨Nat.le_refl _, fun _ => Nat.le_refl _, hw⟩
  | cons a acts ih =>
    intro s hok hin hw
    simp only [List.foldl_cons]
    obtain ⟨p1, p2, p3⟩ := applyAct_pot (hok a (List.mem_cons_self ..)) (hin a (List.mem_cons_self ..)) hw
    obtain ⟨i1, i2, i3⟩ := ih (s := applyAct g s a) (fun b hb => hok b (List.mem_cons_of_mem _ hb))
      (fun b hb => hin b (List.mem_cons_of_mem _ hb)) p3
    refine ⟨by omega, ?_, i3⟩
    intro hne
    have := p2 (hne a (List.mem_cons_self ..))
    have := i2 (fun b hb => hne b (List.mem_cons_of_mem _ hb))
    omega

/-! ### every action of a node targets a node index; statements and states have no `enq` -/

theorem peers_lt (hw : g.wf = true) :
    (∀ u e, e ∈ g.outE u → e.peer < g.size) ∧ (∀ u e, e ∈ g.inE u → e.peer < g.size) := by
  unfold Graph.wf at hw
  simp only [Bool.and_eq_true, beq_iff_eq, List.all_eq_true, List.mem_range, decide_eq_true_eq] at hw
  obtain ⟨⟨ho, hi⟩, hall⟩ := hw
  constructor
  · intro u e he
    by_cases hu : u < g.nodes.length
    · exact ((hall u hu).1 e he).1
    · rw [outE_of_ge (by omega)] at he; exact absurd he (by simp)
  · intro u e he
    by_cases hu : u < g.nodes.length
    · exact ((hall u hu).2 e he).1
    · rw [inE_of_ge (by omega)] at he; exact absurd he (by simp)

theorem actsOf_peer {prm : Params} {u : Nat} {a : Act} (ha : a ∈ actsOf g prm u) :
    ∃ e, (e ∈ g.outE u ∨ e ∈ g.inE u) ∧ actNode a = e.peer := by
  unfold actsOf at ha
  split at ha
  · unfold actsSymbol at ha
    rw [List.mem_filterMap] at ha
    obtain ⟨e, he, hea⟩ := ha
    refine ⟨e, Or.inl he, ?_⟩
    split at hea
    · simp only [Option.some.injEq] at hea; subst hea; rfl
    · split at hea
      · simp only [Option.some.injEq] at hea; subst hea; rfl
      · split at hea
        · split at hea
          · simp only [Option.some.injEq] at hea; subst hea; rfl
          · exact absurd hea (by simp)
        · exact absurd hea (by simp)
  · split at ha
    · unfold actsState at ha
      rw [List.mem_append] at ha
      rcases ha with ha | ha
      · rw [List.mem_filterMap] at ha
        obtain ⟨e, he, hea⟩ := ha
        refine ⟨e, Or.inr he, ?_⟩
        split at hea
        · simp only [Option.some.injEq] at hea; subst hea; rfl
        · exact absurd hea (by simp)
      · rw [List.mem_filterMap] at ha
        obtain ⟨e, he, hea⟩ := ha
        refine ⟨e, Or.inl he, ?_⟩
        split at hea
        · simp only [Option.some.injEq] at hea; subst hea; rfl
        · exact absurd hea (by simp)
    · split at ha
      · unfold actsStmt at ha
        split at ha
        · rw [List.mem_append] at ha
          rcases ha with ha | ha
          · rw [List.mem_filterMap] at ha
            obtain ⟨e, he, hea⟩ := ha
            refine ⟨e, Or.inl he, ?_⟩
            split at hea
            · simp only [Option.some.injEq] at hea; subst hea; rfl
            · exact absurd hea (by simp)
          · split at ha
            · rw [List.mem_filterMap] at ha
              obtain ⟨e, he, hea⟩ := ha
              refine ⟨e, Or.inr he, ?_⟩
              split at hea
              · simp only [Option.some.injEq] at hea; subst hea; rfl
              · exact absurd hea (by simp)
            · exact absurd ha (by simp)
        · exact absurd ha (by simp)
      · exact absurd ha (by simp)

theorem actsOf_in {prm : Params} {u : Nat} {a : Act} (hw : g.wf = true)
    (ha : a ∈ actsOf g prm u) : actNode a < g.size := by
  obtain ⟨e, he, hn⟩ := actsOf_peer ha
  rw [hn]
  rcases he with he | he
  · exact (peers_lt hw).1 u e he
  · exact (peers_lt hw).2 u e he

theorem actsOf_noenq {prm : Params} {u : Nat} {a : Act} (hk : g.kindOf u ≠ K_SYMBOL)
    (ha : a ∈ actsOf g prm u) : isEnq a = false := by
  unfold actsOf at ha
  rw [if_neg (by simpa using hk)] at ha
  split at ha
  · unfold actsState at ha
    rw [List.mem_append] at ha
    rcases ha with ha | ha
    · rw [List.mem_filterMap] at ha
      obtain ⟨e, _, hea⟩ := ha
      split at hea
      · simp only [Option.some.injEq] at hea; subst hea; rfl
      · exact absurd hea (by simp)
    · rw [List.mem_filterMap] at ha
      obtain ⟨e, _, hea⟩ := ha
      split at hea
      · simp only [Option.some.injEq] at hea; subst hea; rfl
      · exact absurd hea (by simp)
  · split at ha
    · unfold actsStmt at ha
      split at ha
      · rw [List.mem_append] at ha
        rcases ha with ha | ha
        · rw [List.mem_filterMap] at ha
          obtain ⟨e, _, hea⟩ := ha
          split at hea
          · simp only [Option.some.injEq] at hea; subst hea; rfl
          · exact absurd hea (by simp)
        · split at ha
          · rw [List.mem_filterMap] at ha
            obtain ⟨e, _, hea⟩ := ha
            split at hea
            · simp only [Option.some.injEq] at hea; subst hea; rfl
            · exact absurd hea (by simp)
          · exact absurd ha (by simp)
      · exact absurd ha (by simp)
    · exact absurd ha (by simp)

/-! ### one iteration decreases the potential -/

theorem step_pot {prm : Params} (hc : Consistent g) (ht : EdgeTyped g) (hwf : g.wf = true)
    {s : PState} (hw : WInv g s) (hne : s.wl ≠ []) :
    Phi g (step g prm s) + 1 ≤ Phi g s ∧ WInv g (step g prm s) := by
  unfold step
  cases hwl : s.wl with
  | nil => exact absurd hwl hne
  | cons x rest =>
    simp only
    have hnd : (x :: rest).Nodup := by rw [← hwl]; exact hw.1
    have hxr : x ∉ rest := (List.nodup_cons.1 hnd).1
    have hx : x < g.size := hw.2 x (by rw [hwl]; exact List.mem_cons_self ..)
    have hrest : ∀ v ∈ rest, v < g.size := fun v hv => hw.2 v (by rw [hwl]; exact List.mem_cons_of_mem _ hv)
    have hmem : ∀ v, v ∈ s.wl ↔ v = x ∨ v ∈ rest := by intro v; rw [hwl]; exact List.mem_cons
    -- the state right after the dequeue
    have hw1 : WInv g ({ s with wl := rest, processed := addNode s.processed x } : PState) :=
      ⟨(List.nodup_cons.1 hnd).2, hrest⟩
    have hR : cR g ({ s with wl := rest, processed := addNode s.processed x } : PState) ≤ cR g s := by
      unfold cR
      apply cnt_mono
      intro v _ hv
      simp only [Bool.and_eq_true, Bool.not_eq_true', List.contains_eq_mem, decide_eq_false_iff_not] at hv ⊢
      have hvx : v ≠ x := fun h => hv.1 (mem_addNode.2 (Or.inl h))
      refine ⟨fun h => hv.1 (mem_addNode.2 (Or.inr h)), ?_⟩
      intro h
      rcases (hmem v).1 h with h | h
      · exact hvx h
      · exact hv.2 h
    have hA : cA g ({ s with wl := rest, processed := addNode s.processed x } : PState) ≤ cA g s := by
      unfold cA
      apply cnt_mono
      intro v _ hv
      simp only [Bool.and_eq_true, List.contains_eq_mem, decide_eq_true_eq] at hv ⊢
      exact ⟨(hmem v).2 (Or.inr hv.1), hv.2⟩
    have hB : cB g ({ s with wl := rest, processed := addNode s.processed x } : PState) ≤ cB g s := by
      unfold cB
      apply cnt_mono
      intro v _ hv
      simp only [Bool.and_eq_true, List.contains_eq_mem, decide_eq_true_eq] at hv ⊢
      exact ⟨(hmem v).2 (Or.inr hv.1), hv.2⟩
    have hUs : cUs g ({ s with wl := rest, processed := addNode s.processed x } : PState) = cUs g s := rfl
    have hUt : cUt g ({ s with wl := rest, processed := addNode s.processed x } : PState) = cUt g s := rfl
    have hU : (g.size + 2) * (cUs g ({ s with wl := rest, processed := addNode s.processed x } : PState)
        + cUt g ({ s with wl := rest, processed := addNode s.processed x } : PState)
        + cR g ({ s with wl := rest, processed := addNode s.processed x } : PState)) ≤
        (g.size + 2) * (cUs g s + cUt g s + cR g s) := Nat.mul_le_mul_left _ (by omega)
    by_cases hk : g.kindOf x = K_SYMBOL
    · -- a symbol leaves the worklist: B decreases
      have hB1 : cB g ({ s with wl := rest, processed := addNode s.processed x } : PState) + 1 ≤ cB g s := by
        unfold cB
        apply cnt_lt (x := x) _ hx
        · simp [hwl, hk]
        · simp [hxr]
        · intro v _ hv
          simp only [Bool.and_eq_true, List.contains_eq_mem, decide_eq_true_eq] at hv ⊢
          exact ⟨(hmem v).2 (Or.inr hv.1), hv.2⟩
      have hBm : (g.size + 1) * cB g ({ s with wl := rest, processed := addNode s.processed x } : PState)
          + (g.size + 1) ≤ (g.size + 1) * cB g s := mul_pred_le hB1
      have hPsi : Psi g ({ s with wl := rest, processed := addNode s.processed x } : PState)
          + (g.size + 1) ≤ Psi g s := by unfold Psi; omega
      split
      · -- hot: SYMBOL_IS_USED successors may be enqueued, but A never exceeds N
        obtain ⟨p1, _, p3⟩ := foldl_pot (g := g) (actsOf g prm x)
          (s := ({ s with wl := rest, processed := addNode s.processed x } : PState))
          (fun a ha => actsOf_ok hc ht ha) (fun a ha => actsOf_in hwf ha) hw1
        refine ⟨?_, p3⟩
        have hAle := cnt_le g.size (fun v =>
          ((actsOf g prm x).foldl (applyAct g)
            ({ s with wl := rest, processed := addNode s.processed x } : PState)).wl.contains v &&
          !(g.kindOf v == K_SYMBOL))
        unfold Phi
        unfold cA at *
        omega
      · refine ⟨?_, hw1⟩
        unfold Phi; omega
    · -- a statement / state leaves the worklist: A decreases
      have hA1 : cA g ({ s with wl := rest, processed := addNode s.processed x } : PState) + 1 ≤ cA g s := by
        unfold cA
        apply cnt_lt (x := x) _ hx
        · simp [hwl, hk]
        · simp [hxr]
        · intro v _ hv
          simp only [Bool.and_eq_true, List.contains_eq_mem, decide_eq_true_eq] at hv ⊢
          exact ⟨(hmem v).2 (Or.inr hv.1), hv.2⟩
      have hBm : (g.size + 1) * cB g ({ s with wl := rest, processed := addNode s.processed x } : PState)
          ≤ (g.size + 1) * cB g s := Nat.mul_le_mul_left _ hB
      have hPhi1 : Phi g ({ s with wl := rest, processed := addNode s.processed x } : PState) + 1
          ≤ Phi g s := by unfold Phi Psi; omega
      split
      · obtain ⟨_, p2, p3⟩ := foldl_pot (g := g) (actsOf g prm x)
          (s := ({ s with wl := rest, processed := addNode s.processed x } : PState))
          (fun a ha => actsOf_ok hc ht ha) (fun a ha => actsOf_in hwf ha) hw1
        have := p2 (fun a ha => actsOf_noenq hk ha)
        exact ⟨by omega, p3⟩
      · exact ⟨hPhi1, hw1⟩

theorem run_terminates {prm : Params} (hc : Consistent g) (ht : EdgeTyped g) (hwf : g.wf = true)
    (fuel : Nat) : ∀ {s : PState}, WInv g s → Phi g s ≤ fuel → (run g prm fuel s).wl = [] := by
  induction fuel with
  | zero =>
    intro s hw hle
    unfold run
    by_cases hne : s.wl = []
    · exact hne
    · have := (step_pot (prm := prm) hc ht hwf hw hne).1
      omega
  | succ n ih =>
    intro s hw hle
    unfold run
    split
    · rename_i he
      simpa using he
    · rename_i he
      have hne : s.wl ≠ [] := by simpa using he
      obtain ⟨h1, h2⟩ := step_pot (prm := prm) hc ht hwf hw hne
      exact ih h2 (by omega)

theorem phi_le_fuel (s : PState) : Phi g s + 1 ≤ fuelFor g := by
  unfold Phi Psi fuelFor
  have h1 := cnt_le g.size (fun v => s.wl.contains v && !(g.kindOf v == K_SYMBOL))
  have h2 : (g.size + 1) * cB g s ≤ (g.size + 1) * g.size := Nat.mul_le_mul_left _ (cnt_le _ _)
  have h3 : (g.size + 2) * (cUs g s + cUt g s + cR g s) ≤ (g.size + 2) * (g.size + g.size + g.size) := by
    apply Nat.mul_le_mul_left
    have := cnt_le g.size (fun v => !s.symT.contains (g.nid v))
    have := cnt_le g.size (fun v => !s.stT.contains (g.nid v))
    have := cnt_le g.size (fun v => !s.processed.contains v && !s.wl.contains v)
    unfold cUs cUt cR
    omega
  unfold cA
  omega

/-! ### the initial worklist -/

theorem kindOf_of_ge {u : Nat} (h : g.size ≤ u) : g.kindOf u = 0 := by
  unfold Graph.kindOf Graph.node
  unfold Graph.size at h
  rw [List.getD_eq_getElem?_getD, List.getElem?_eq_none h]
  rfl

theorem winv_init (hwf : g.wf = true) (src : Nat) : WInv g (initState g src) := by
  by_cases hlt : src < g.size
  · unfold initState
    split
    · -- symbol source: the fold only enqueues peers of out-edges
      have key : ∀ (es : List Edge) (s : PState), (∀ e ∈ es, e.peer < g.size) → WInv g s →
          WInv g (es.foldl (fun s e =>
            if e.etype == E_SYMSTATE then enqueue { s with stT := addId s.stT (g.nid e.peer) } e.peer
            else s) s) := by
        intro es
        induction es with
        | nil => intro s _ h; exact h
        | cons e es ih =>
          intro s hp h
          simp only [List.foldl_cons]
          apply ih _ (fun e' he' => hp e' (List.mem_cons_of_mem _ he'))
          split
          · exact winv_enqueue (g := g) (s := { s with stT := addId s.stT (g.nid e.peer) }) h
              (hp e (List.mem_cons_self ..))
          · exact h
      apply key _ _ (fun e he => (peers_lt hwf).1 src e he)
      exact ⟨by simp, by intro v hv; simp only [List.mem_singleton] at hv; subst hv; exact hlt⟩
    · split
      · exact ⟨by simp, by intro v hv; simp only [List.mem_singleton] at hv; subst hv; exact hlt⟩
      · split
        · exact ⟨by simp, by intro v hv; simp only [List.mem_singleton] at hv; subst hv; exact hlt⟩
        · exact ⟨by simp, by intro v hv; exact absurd hv (by simp)⟩
  · have hk : g.kindOf src = 0 := kindOf_of_ge (by omega)
    have : initState g src = {} := by
      unfold initState
      rw [hk]
      rfl
    rw [this]
    exact ⟨by simp, by intro v hv; exact absurd hv (by simp)⟩

/-- **termination of `propagate_taint`** on a consistently serialised, edge-typed SFG: the worklist
is empty after `fuelFor g` iterations. -/
theorem propagate_terminates (prm : Params) (hwf : g.wf = true) (hty : edgeTyped g = true)
    (src : Nat) : (propagate g prm src).wl = [] := by
  unfold propagate
  apply run_terminates (consistent_of_wf hwf) (edgeTyped_of_check hwf hty) hwf _ (winv_init hwf src)
  have := phi_le_fuel (g := g) (initState g src)
  omega

end LianVerif.Taint
