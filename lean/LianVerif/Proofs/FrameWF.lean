/-
Well-formedness of frames (rectangular, one label per row) is preserved by every pandas reference
operation of `Model/Frame.lean`.  Used to show that the `IndexError` branches the totalised row
accessors carry (`labels[i]?` missing for an existing row) are unreachable.
-/
import LianVerif.Model.Frame

namespace LianVerif.Table
namespace Frame

/-- one label per row, every row as wide as the header -/
def WF (f : Frame) : Prop :=
  f.labels.length = f.rows.length ∧ ∀ r ∈ f.rows, r.length = f.cols.length

theorem rangeLabels_length (n : Nat) : (rangeLabels n).length = n := by simp [rangeLabels]

theorem wf_empty : WF Frame.empty := by simp [WF, Frame.empty]

theorem wf_ofRows {cols : List String} {rows : List (List Cell)}
    (h : ∀ r ∈ rows, r.length = cols.length) : WF (ofRows cols rows) :=
  ⟨by simp [ofRows, rangeLabels_length], h⟩

theorem wf_ofDicts (ds : List (List (String × Cell))) : WF (ofDicts ds) := by
  refine ⟨by simp [ofDicts, rangeLabels_length], ?_⟩
  intro r hr
  simp only [ofDicts, List.mem_map] at hr
  obtain ⟨d, _, rfl⟩ := hr
  simp [ofDicts]

theorem wf_ilocSlice {f : Frame} (h : WF f) (a b : Int) : WF (f.ilocSlice a b) := by
  obtain ⟨h1, h2⟩ := h
  refine ⟨by simp [ilocSlice, h1], ?_⟩
  intro r hr
  simp only [ilocSlice] at hr
  exact h2 r (List.mem_of_mem_drop (List.mem_of_mem_take hr))

theorem getD_mem_or_nil {rows : List (List Cell)} {p : Nat} (hp : p < rows.length) :
    rows.getD p [] ∈ rows := by
  simp only [List.getD_eq_getElem?_getD, List.getElem?_eq_getElem hp, Option.getD_some]
  exact List.getElem_mem hp

theorem wf_ilocTake {f g : Frame} (h : WF f) {ps : List Nat} (hg : f.ilocTake ps = some g) : WF g := by
  obtain ⟨h1, h2⟩ := h
  unfold ilocTake at hg
  by_cases hall : ps.all (fun p => decide (p < f.nrows)) = true
  · simp only [hall, if_true, Option.some.injEq] at hg
    subst hg
    refine ⟨by simp, ?_⟩
    intro r hr
    simp only [List.mem_map] at hr
    obtain ⟨p, hp, rfl⟩ := hr
    have : p < f.rows.length := by
      have := List.all_eq_true.1 hall p hp
      exact of_decide_eq_true this
    exact h2 _ (getD_mem_or_nil this)
  · simp [hall] at hg

theorem labelPos_lt {f : Frame} {l : Int} {p : Nat} (h : f.labelPos l = some p) : p < f.labels.length := by
  unfold labelPos at h
  by_cases hh : f.labels.idxOf l < f.labels.length
  · simp only [hh, if_true, Option.some.injEq] at h; omega
  · simp [hh] at h

theorem wf_locTake {f g : Frame} (h : WF f) {ls : List Int} (hg : f.locTake ls = some g) : WF g := by
  obtain ⟨h1, h2⟩ := h
  unfold locTake at hg
  by_cases hall : ls.all (fun l => (f.labelPos l).isSome) = true
  · simp only [hall, if_true, Option.some.injEq] at hg
    subst hg
    refine ⟨by simp, ?_⟩
    intro r hr
    simp only [List.mem_map] at hr
    obtain ⟨l, hl, rfl⟩ := hr
    have hs := List.all_eq_true.1 hall l hl
    cases hp : f.labelPos l with
    | none => simp [hp] at hs
    | some p =>
      have := labelPos_lt hp
      simp only [Option.getD_some]
      exact h2 _ (getD_mem_or_nil (by omega))
  · simp [hall] at hg

theorem zip_filter_length {α β : Type} (m : List Bool) :
    ∀ (xs : List α) (ys : List β), xs.length = ys.length →
      ((xs.zip m).filter (fun x => x.2)).length = ((ys.zip m).filter (fun x => x.2)).length := by
  induction m with
  | nil => intro xs ys _; simp
  | cons b m ih =>
    intro xs ys h
    cases xs with
    | nil => cases ys with
      | nil => simp
      | cons y ys => simp at h
    | cons x xs =>
      cases ys with
      | nil => simp at h
      | cons y ys =>
        have h' : xs.length = ys.length := by simpa using h
        cases b <;> simp [List.zip_cons_cons, ih xs ys h']

theorem wf_maskTake {f : Frame} (h : WF f) (m : List Bool) : WF (f.maskTake m) := by
  obtain ⟨h1, h2⟩ := h
  refine ⟨by simp only [maskTake, List.length_map]; exact zip_filter_length m _ _ h1, ?_⟩
  intro r hr
  simp only [maskTake, List.mem_map, List.mem_filter] at hr
  obtain ⟨⟨r', b⟩, ⟨hz, _⟩, rfl⟩ := hr
  exact h2 _ (List.of_mem_zip hz).1


theorem mem_set {α : Type} {l : List α} {i : Nat} {a x : α} (h : x ∈ l.set i a) : x = a ∨ x ∈ l := by
  rcases List.mem_or_eq_of_mem_set h with h | h
  · exact Or.inr h
  · exact Or.inl h

theorem normPos_lt {n : Nat} {i : Int} {r : Nat} (h : normPos n i = some r) : r < n := by
  unfold normPos at h
  by_cases h0 : 0 ≤ i
  · simp only [h0, if_true] at h
    by_cases h1 : i < n
    · simp only [h1, if_true, Option.some.injEq] at h; omega
    · simp [h1] at h
  · simp only [h0, if_false] at h
    by_cases h1 : -(n : Int) ≤ i
    · simp only [h1, if_true, Option.some.injEq] at h; omega
    · simp [h1] at h

theorem wf_setIloc {f : Frame} (h : WF f) (i : Int) (newRow : List Cell) (stop : Option Nat) :
    WF (f.setIloc i newRow stop).1 := by
  obtain ⟨h1, h2⟩ := h
  unfold setIloc
  by_cases hl : (newRow.length != f.ncols) = true
  · simp only [hl, if_true]; exact ⟨h1, h2⟩
  · simp only [hl, Bool.false_eq_true, if_false]
    cases hn : normPos f.nrows i with
    | none => exact ⟨h1, h2⟩
    | some r =>
      simp only
      have hr : r < f.rows.length := normPos_lt hn
      refine ⟨by simp [h1], ?_⟩
      intro x hx
      rcases mem_set hx with rfl | hx
      · simp only [List.length_map, List.length_range]
        exact h2 _ (getD_mem_or_nil hr)
      · exact h2 x hx

theorem wf_setCol {f g : Frame} (h : WF f) {c : String} {vals : List Cell}
    (hg : f.setCol c vals = .ok g) : WF g := by
  obtain ⟨h1, h2⟩ := h
  unfold setCol at hg
  by_cases h0 : (f.nrows == 0 && f.labels.length == 0) = true
  · simp only [h0, if_true] at hg
    cases hp : f.colPos c with
    | some p =>
      simp only [hp, Except.ok.injEq] at hg; subst hg
      refine ⟨by simp [rangeLabels_length], ?_⟩
      intro r hr
      simp only [List.mem_map] at hr
      obtain ⟨v, _, rfl⟩ := hr
      simp [ncols]
    | none =>
      simp only [hp, Except.ok.injEq] at hg; subst hg
      refine ⟨by simp [rangeLabels_length], ?_⟩
      intro r hr
      simp only [List.mem_map] at hr
      obtain ⟨v, _, rfl⟩ := hr
      simp [ncols]
  · simp only [h0, Bool.false_eq_true, if_false] at hg
    by_cases hl : (vals.length != f.nrows) = true
    · simp [hl] at hg
    · simp only [hl, Bool.false_eq_true, if_false] at hg
      have hl' : vals.length = f.rows.length := by simpa [nrows] using hl
      cases hp : f.colPos c with
      | some p =>
        simp only [hp, Except.ok.injEq] at hg; subst hg
        refine ⟨by simp [h1, hl'], ?_⟩
        intro r hr
        simp only [List.mem_map] at hr
        obtain ⟨⟨r', v⟩, hz, rfl⟩ := hr
        simp only [List.length_set]
        exact h2 _ (List.of_mem_zip hz).1
      | none =>
        simp only [hp, Except.ok.injEq] at hg; subst hg
        refine ⟨by simp [h1, hl'], ?_⟩
        intro r hr
        simp only [List.mem_map] at hr
        obtain ⟨⟨r', v⟩, hz, rfl⟩ := hr
        simp only [List.length_append, List.length_singleton]
        rw [h2 _ (List.of_mem_zip hz).1]

theorem wf_setLoc {f : Frame} (h : WF f) (label : Int) (c : String) (v : Cell) (refused : Bool) :
    WF (f.setLoc label c v refused).1 := by
  obtain ⟨h1, h2⟩ := h
  unfold setLoc
  cases hl : f.labelPos label with
  | some r =>
    cases hp : f.colPos c with
    | some p =>
      simp only
      cases refused
      · simp only [Bool.false_eq_true, if_false]
        have hr : r < f.rows.length := by have := labelPos_lt hl; omega
        refine ⟨by simp [h1], ?_⟩
        intro x hx
        rcases mem_set hx with rfl | hx
        · simp only [List.length_set]; exact h2 _ (getD_mem_or_nil hr)
        · exact h2 x hx
      · exact ⟨h1, h2⟩
    | none =>
      simp only
      refine ⟨by simp [h1, nrows], ?_⟩
      intro x hx
      simp only [List.mem_map] at hx
      obtain ⟨⟨r', i⟩, hz, rfl⟩ := hx
      simp only [List.length_append, List.length_singleton]
      rw [h2 _ (List.of_mem_zip hz).1]
  | none =>
    cases hp : f.colPos c with
    | some p =>
      simp only
      cases refused
      · simp only [Bool.false_eq_true, if_false]
        refine ⟨by simp [h1], ?_⟩
        intro x hx
        rcases List.mem_append.1 hx with hx | hx
        · exact h2 x hx
        · simp only [List.mem_singleton] at hx; subst hx; simp [ncols]
      · simp only [if_true]
        refine ⟨by simp [h1], ?_⟩
        intro x hx
        rcases List.mem_append.1 hx with hx | hx
        · exact h2 x hx
        · simp only [List.mem_singleton] at hx; subst hx; simp [ncols]
    | none =>
      simp only
      refine ⟨by simp [h1], ?_⟩
      intro x hx
      rcases List.mem_append.1 hx with hx | hx
      · simp only [List.mem_map] at hx
        obtain ⟨r', hr', rfl⟩ := hx
        simp [h2 r' hr']
      · simp only [List.mem_singleton] at hx; subst hx; simp [ncols]

theorem wf_renameCol {f : Frame} (h : WF f) (old new : String) : WF (f.renameCol old new) := by
  obtain ⟨h1, h2⟩ := h
  exact ⟨h1, by intro r hr; simp only [renameCol, List.length_map]; exact h2 r hr⟩

theorem wf_concat {f g : Frame} (hf : WF f) : WF (f.concat g) := by
  obtain ⟨h1, h2⟩ := hf
  refine ⟨by simp [concat, rangeLabels_length, nrows], ?_⟩
  intro r hr
  simp only [concat, List.mem_append, List.mem_map] at hr
  rcases hr with ⟨r', hr', rfl⟩ | ⟨r', _, rfl⟩
  · simp [concat, h2 r' hr']
  · simp [concat]

theorem wf_filterNe {f g : Frame} (h : WF f) {c : String} {v : Cell} (hg : f.filterNe c v = some g) :
    WF g := by
  unfold filterNe at hg
  cases hc : f.column c with
  | none => simp [hc] at hg
  | some col =>
    simp only [hc, Option.some.injEq] at hg; subst hg
    exact wf_maskTake h _

theorem wf_resetIndex {f : Frame} (h : WF f) : WF f.resetIndex :=
  ⟨by simp [resetIndex, rangeLabels_length, nrows], h.2⟩

theorem wf_moved {f : Frame} (h : WF f) (name : String) :
    WF { cols := name :: f.cols, labels := rangeLabels f.nrows,
         rows := (f.rows.zip f.labels).map (fun x => Cell.int x.2 :: x.1) } := by
  obtain ⟨h1, h2⟩ := h
  refine ⟨by simp [rangeLabels_length, nrows, h1], ?_⟩
  intro r hr
  simp only [List.mem_map] at hr
  obtain ⟨⟨r', l⟩, hz, rfl⟩ := hr
  simp [h2 _ (List.of_mem_zip hz).1]

theorem wf_resetIndexMove {f g : Frame} (h : WF f) (hg : f.resetIndexMove = .ok g) : WF g := by
  unfold resetIndexMove at hg
  by_cases h1 : (!f.cols.contains "index") = true
  · simp only [h1, if_true, Except.ok.injEq] at hg; subst hg; exact wf_moved h _
  · simp only [h1, Bool.false_eq_true, if_false] at hg
    by_cases h2 : (!f.cols.contains "level_0") = true
    · simp only [h2, if_true, Except.ok.injEq] at hg; subst hg; exact wf_moved h _
    · have h2' : (!f.cols.contains "level_0") = false := by simpa using h2
      simp only [h2', Bool.false_eq_true, if_false] at hg
      exact absurd hg (by simp)

theorem wf_fillna {f : Frame} (h : WF f) (v : Cell) : WF (f.fillna v) := by
  obtain ⟨h1, h2⟩ := h
  refine ⟨by simp [fillna, h1], ?_⟩
  intro r hr
  simp only [fillna, List.mem_map] at hr
  obtain ⟨r', hr', rfl⟩ := hr
  simp [fillna, h2 r' hr']

theorem wf_setColumns {f g : Frame} (h : WF f) {names : List String} (hg : f.setColumns names = .ok g) :
    WF g := by
  obtain ⟨h1, h2⟩ := h
  unfold setColumns at hg
  by_cases hl : (names.length != f.ncols) = true
  · simp [hl] at hg
  · simp only [hl, Bool.false_eq_true, if_false, Except.ok.injEq] at hg; subst hg
    have : names.length = f.cols.length := by simpa [ncols] using hl
    exact ⟨h1, by intro r hr; rw [this]; exact h2 r hr⟩

end Frame
end LianVerif.Table
