/-
Helper lemmas for C13_prelim_bound (bottom-up driver `analyze_method`).
-/
import LianVerif.Model.TerminationPrelim

namespace LianVerif.Termination

def pIsIntr : PEv → Nat
  | .intr .. => 1
  | _ => 0

theorem pInterruptions_nil : pInterruptions [] = 0 := rfl

theorem pInterruptions_cons (e : PEv) (evs : List PEv) :
    pInterruptions (e :: evs) = pIsIntr e + pInterruptions evs := by
  cases e <;> simp [pInterruptions, pIsIntr] <;> omega

theorem pInterruptions_pushes (ks : List Int) (evs : List PEv) :
    pInterruptions (ks.map PEv.push ++ evs) = pInterruptions evs := by
  induction ks with
  | nil => rfl
  | cons k ks ih => simp only [List.map_cons, List.cons_append, pInterruptions_cons, pIsIntr, ih]; omega

theorem pFree_le_length (M analyzed : List Int) (st : List PFrame) : pFree M analyzed st ≤ M.length := by
  unfold pFree
  induction M with
  | nil => simp [sumOver]
  | cons m M ih =>
    simp only [sumOver, List.length_cons]
    have := ind_le_one (!(analyzed.contains m || onStack st m))
    omega

/-- every interruption puts on the stack a method of `M` that was neither analysed nor on it -/
theorem prelim_intrs_le (M : List Int) (hasBody : List Int → List PFrame → Nat → Bool)
    (oracle : List Int → List PFrame → Nat → List (Int × List Int))
    (stack : List PFrame) (analyzed : List Int) (tick : Nat) :
    pInterruptions (prelimDriver M hasBody oracle stack analyzed tick).1 ≤ pFree M analyzed stack := by
  fun_induction prelimDriver M hasBody oracle stack analyzed tick with
  | case1 analyzed tick => simp [pInterruptions]
  | case2 analyzed tick f rest hi hb r ih =>
    unfold r
    have := pFree_pop_le M analyzed f rest
    simp only [pInterruptions_cons, pIsIntr] at ih ⊢
    omega
  | case3 analyzed tick f rest hi hb r ih =>
    unfold r
    have : pFree M analyzed ({ f with inited := true } :: rest) = pFree M analyzed (f :: rest) := rfl
    simp only [pInterruptions_cons, pIsIntr] at ih ⊢
    omega
  | case4 analyzed tick f rest hi s k ks hp r ih =>
    unfold r
    obtain ⟨_, hnd, hall⟩ := pFirst_some hp
    have := pFree_push_all M analyzed (k :: ks) (f :: rest) hnd hall
    simp only [pInterruptions_cons, pIsIntr, pInterruptions_pushes, List.length_cons] at ih this ⊢
    omega
  | case5 analyzed tick f rest hi r hno ih =>
    unfold r
    have := pFree_pop_le M analyzed f rest
    simp only [pInterruptions_cons, pIsIntr] at ih ⊢
    omega


/-- every event is paid by the ranking function -/
theorem prelim_steps_le (M : List Int) (hasBody : List Int → List PFrame → Nat → Bool)
    (oracle : List Int → List PFrame → Nat → List (Int × List Int))
    (stack : List PFrame) (analyzed : List Int) (tick : Nat) :
    (prelimDriver M hasBody oracle stack analyzed tick).1.length ≤ prank M analyzed stack := by
  fun_induction prelimDriver M hasBody oracle stack analyzed tick with
  | case1 analyzed tick => simp
  | case2 analyzed tick f rest hi hb r ih =>
    unfold r
    have := pFree_pop_le M analyzed f rest
    simp only [prank, pWeight, sumOver, List.length_cons] at ih ⊢
    omega
  | case3 analyzed tick f rest hi hb r ih =>
    unfold r
    have : pFree M analyzed ({ f with inited := true } :: rest) = pFree M analyzed (f :: rest) := rfl
    simp only [prank, pWeight, sumOver, List.length_cons, hi, this] at ih ⊢
    simp at ih ⊢
    omega
  | case4 analyzed tick f rest hi s k ks hp r ih =>
    unfold r
    obtain ⟨_, hnd, hall⟩ := pFirst_some hp
    have h1 := pFree_push_all M analyzed (k :: ks) (f :: rest) hnd hall
    have h2 := pWeight_pPush (f :: rest) (k :: ks)
    simp only [prank, List.length_cons, List.length_append, List.length_map] at ih h1 h2 ⊢
    omega
  | case5 analyzed tick f rest hi r hno ih =>
    unfold r
    have := pFree_pop_le M analyzed f rest
    simp only [prank, pWeight, sumOver, List.length_cons] at ih ⊢
    omega

end LianVerif.Termination
