/-
Helper lemmas for C13_total_polynomial: the visit loop as a `Runner` of the frame driver, and the
potential function that pays for every statement-loop iteration of every frame of an entry point.
-/
import LianVerif.Model.TerminationTotal
import LianVerif.Proofs.Termination

namespace LianVerif.Termination

/-- invariant + interruption post-condition through the loop -/
theorem visitLoop_intr_inv {ω γ : Type} (D : Discipline ω) (succ : Int → List Int) (V : List Int)
    (lim : Int → Nat) (analyse : Int → γ → γ × Bool) (P Q : γ → Prop)
    (hP : ∀ s g, P g → P (analyse s g).1)
    (hQ : ∀ s g, P g → (analyse s g).2 = true → Q (analyse s g).1) (w : ω) (cnt : Int → Nat) (g : γ)
    (h : P g) :
    (visitLoop D succ V lim analyse w cnt g).interrupted = true →
      Q (visitLoop D succ V lim analyse w cnt g).g := by
  fun_induction visitLoop D succ V lim analyse w cnt g with
  | case1 w cnt g h0 => intro h; cases h
  | case2 w cnt g h0 s hs r ih => exact ih h
  | case3 w cnt g h0 s hs hl w1 g1 hg =>
    intro _
    have := hQ s g h (by rw [hg])
    rw [hg] at this; exact this
  | case4 w cnt g h0 s hs hl w1 g1 hg r ih =>
    have := hP s g h
    rw [hg] at this; exact ih this
  | case5 w cnt g h0 s hs hl r ih => exact ih h

theorem analyseCall_mono {ω : Type} (U : List Site) (B : Nat) (P : Prog ω) (f : Frame (VLoc ω))
    (tick : Nat) (s : Int) (g : VG) (u : Site) : g.1.cnt u ≤ (analyseCall U B P f tick s g).1.1.cnt u := by
  unfold analyseCall
  have h := (request_spec U B f s (P.calls f.method s g.1 tick) g.1 []).1 u
  simp only
  split
  · exact Nat.le_trans h (settle_mono f s _ _ u)
  · exact h

theorem analyseCall_pay {ω : Type} (U : List Site) (B : Nat) (P : Prog ω) (f : Frame (VLoc ω))
    (tick : Nat) (s : Int) (g : VG) (h : (analyseCall U B P f tick s g).2 = true) :
    ∃ s' ks, (analyseCall U B P f tick s g).1.2 = some (s', ks) ∧ ks ≠ [] ∧
      budget U B (analyseCall U B P f tick s g).1.1.cnt + ks.length ≤ budget U B g.1.cnt ∧
      ∀ k ∈ ks, (f.method, s', k) ∈ U ∧ countCycles (f.path ++ [(f.method, s', k)]) ≤ 1 := by
  unfold analyseCall at h ⊢
  have hs := (request_spec U B f s (P.calls f.method s g.1 tick) g.1 []).2
  have ht := request_todo_ok U B f s (P.calls f.method s g.1 tick) g.1 []
  simp only at h ⊢
  split
  · rename_i he; rw [if_pos he] at h; cases h
  · rename_i he
    refine ⟨s, _, rfl, ?_, by simpa using hs, ?_⟩
    · intro hnil; rw [hnil] at he; exact he rfl
    · intro k hk
      rcases ht k hk with h | h
      · cases h
      · exact h

/-- what the loop's analysis state says when it is not interrupted: no pending interruption -/
theorem analyseCall_none {ω : Type} (U : List Site) (B : Nat) (P : Prog ω) (f : Frame (VLoc ω))
    (tick : Nat) (s : Int) (g : VG) (h : (analyseCall U B P f tick s g).2 = false) :
    (analyseCall U B P f tick s g).1.2 = none := by
  unfold analyseCall at h ⊢
  simp only at h ⊢
  split
  · rfl
  · rename_i he; rw [if_neg he] at h; cases h

def visitRunner {ω : Type} (U : List Site) (B : Nat) (P : Prog ω) : Runner U B (VLoc ω) where
  run := visitRun U B P
  mono G f t u := by
    unfold visitRun
    exact visitLoop_inv P.D (P.succ f.method) (P.V f.method) (P.lim f.method) (analyseCall U B P f t)
      (fun g => G.cnt u ≤ g.1.cnt u)
      (fun s g hg => Nat.le_trans hg (analyseCall_mono U B P f t s g u)) f.loc.w f.loc.cnt (G, none)
      (Nat.le_refl _)
  pay G f t s ks h := by
    unfold visitRun at h ⊢
    simp only at h ⊢
    split at h
    · rename_i hi
      have := visitLoop_intr_inv P.D (P.succ f.method) (P.V f.method) (P.lim f.method)
        (analyseCall U B P f t)
        (fun g => budget U B g.1.cnt ≤ budget U B G.cnt)
        (fun g => ∀ s ks, g.2 = some (s, ks) → budget U B g.1.cnt + ks.length ≤ budget U B G.cnt)
        (fun s g hg => Nat.le_trans (budget_anti U B (analyseCall_mono U B P f t s g)) hg)
        (fun s g hg hb => by
          obtain ⟨s', ks', he, _, hpay, _⟩ := analyseCall_pay U B P f t s g hb
          intro s2 ks2 h2
          rw [he] at h2
          simp only [Option.some.injEq, Prod.mk.injEq] at h2
          obtain ⟨_, rfl⟩ := h2
          omega)
        f.loc.w f.loc.cnt (G, none) (Nat.le_refl _) hi
      exact this s ks h
    · cases h

theorem visitRunner_pathSafe {ω : Type} (U : List Site) (B : Nat) (P : Prog ω) :
    PathSafe (visitRunner U B P) := by
  intro G f t s ks h
  simp only [visitRunner, visitRun] at h
  split at h
  · rename_i hi
    have := visitLoop_intr_inv P.D (P.succ f.method) (P.V f.method) (P.lim f.method)
      (analyseCall U B P f t) (fun _ => True)
      (fun g => ∀ s ks, g.2 = some (s, ks) →
        ∀ k ∈ ks, (f.method, s, k) ∈ U ∧ countCycles (f.path ++ [(f.method, s, k)]) ≤ 1)
      (fun _ _ _ => trivial)
      (fun s g _ hb => by
        obtain ⟨s', ks', he, _, _, hsafe⟩ := analyseCall_pay U B P f t s g hb
        intro s2 ks2 h2
        rw [he] at h2
        simp only [Option.some.injEq, Prod.mk.injEq] at h2
        obtain ⟨rfl, rfl⟩ := h2
        exact hsafe)
      f.loc.w f.loc.cnt (G, none) trivial hi
    exact this s ks h
  · cases h

/-- the interrupted flag and the reported interruption agree: a reported interruption has ≥ 1 callee -/
theorem visitRun_intr_nonempty {ω : Type} (U : List Site) (B : Nat) (P : Prog ω) (G : Glob)
    (f : Frame (VLoc ω)) (t : Nat) (s : Int) (ks : List Int)
    (h : (visitRun U B P G f t).intr = some (s, ks)) : ks ≠ [] := by
  unfold visitRun at h
  simp only at h
  split at h
  · rename_i hi
    have := visitLoop_intr_inv P.D (P.succ f.method) (P.V f.method) (P.lim f.method)
      (analyseCall U B P f t) (fun _ => True)
      (fun g => ∀ s ks, g.2 = some (s, ks) → ks ≠ [])
      (fun _ _ _ => trivial)
      (fun s g _ hb => by
        obtain ⟨s', ks', he, hne, _, _⟩ := analyseCall_pay U B P f t s g hb
        intro s2 ks2 h2
        rw [he] at h2
        simp only [Option.some.injEq, Prod.mk.injEq] at h2
        obtain ⟨_, rfl⟩ := h2
        exact hne)
      f.loc.w f.loc.cnt (G, none) trivial hi
    exact this s ks h
  · cases h

/-- an invocation that does not report an interruption was not interrupted -/
theorem visitRun_not_intr {ω : Type} (U : List Site) (B : Nat) (P : Prog ω) (G : Glob)
    (f : Frame (VLoc ω)) (t : Nat)
    (h : ∀ s k ks, (visitRun U B P G f t).intr = some (s, k :: ks) → False) :
    (visitLoop P.D (P.succ f.method) (P.V f.method) (P.lim f.method)
      (analyseCall U B P f t) f.loc.w f.loc.cnt (G, none)).interrupted = false := by
  cases hi : (visitLoop P.D (P.succ f.method) (P.V f.method) (P.lim f.method)
      (analyseCall U B P f t) f.loc.w f.loc.cnt (G, none)).interrupted with
  | false => rfl
  | true =>
    exfalso
    have hq := visitLoop_intr_inv P.D (P.succ f.method) (P.V f.method) (P.lim f.method)
      (analyseCall U B P f t) (fun _ => True)
      (fun g => ∃ s k ks, g.2 = some (s, k :: ks))
      (fun _ _ _ => trivial)
      (fun s g _ hb => by
        obtain ⟨s', ks', he, hne, _, _⟩ := analyseCall_pay U B P f t s g hb
        cases ks' with
        | nil => exact absurd rfl hne
        | cons k ks => exact ⟨s', k, ks, he⟩)
      f.loc.w f.loc.cnt (G, none) trivial hi
    obtain ⟨s, k, ks, he⟩ := hq
    apply h s k ks
    unfold visitRun
    simp only [hi, if_true]
    exact he

/-! ### the potential that pays for all statement-loop iterations of an entry point -/

def frameRank {ω : Type} (P : Prog ω) (f : Frame (VLoc ω)) : Nat :=
  rank P.D (P.succ f.method) (P.V f.method) (P.lim f.method) f.loc.w f.loc.cnt

def psi {ω : Type} (U : List Site) (B : Nat) (P : Prog ω) (K dmax : Nat) (st : List (Frame (VLoc ω)))
    (G : Glob) : Nat :=
  sumOver (frameRank P) st + K * pendTotal st + (K + dmax + 1) * budget U B G.cnt

theorem innerCost_le {ω : Type} (U : List Site) (B : Nat) (P : Prog ω) (K dmax : Nat)
    (hK : ∀ m, rank P.D (P.succ m) (P.V m) (P.lim m) (P.init m).w (P.init m).cnt ≤ K)
    (hd : ∀ m s, (P.succ m s).length ≤ dmax) (hasBody : Glob → Frame (VLoc ω) → Nat → Bool)
    (stack : List (Frame (VLoc ω))) (G : Glob) (tick : Nat) :
    innerCost (driver (visitRunner U B P) hasBody P.init stack G tick).1 ≤ psi U B P K dmax stack G := by
  fun_induction driver (visitRunner U B P) hasBody P.init stack G tick with
  | case1 G tick => simp [innerCost]
  | case2 G tick f rest hi hb r ih =>
    unfold r
    simp only [innerCost, psi, sumOver, pendTotal, Nat.mul_add] at ih ⊢
    omega
  | case3 G tick f rest hi hb path G1 r ih =>
    unfold r G1 path at *
    simp only [innerCost, psi, sumOver, pendTotal, initGlob_cnt, frameRank] at ih ⊢
    omega
  | case4 G tick f rest hi key caa' hp child r ih =>
    have hc := takePending_count f.caa key caa' hp
    have hk := hK key.2.2
    unfold r child at *
    simp only [innerCost, psi, sumOver, pendTotal, frameRank, pendingCount, List.filter_nil,
      List.length_nil, Nat.zero_add] at ih hc ⊢
    have : K * ((List.filter (fun p => !p.snd) f.caa).length + sumOver (fun f => (List.filter (fun p => !p.snd) f.caa).length) rest)
        = K * ((List.filter (fun p => !p.snd) caa').length + sumOver (fun f => (List.filter (fun p => !p.snd) f.caa).length) rest) + K := by
      rw [← hc, Nat.add_right_comm, Nat.mul_add, Nat.mul_one]
    omega
  | case5 G tick f rest hi hp out s k ks ho caa r ih =>
    have hpay := (visitRunner U B P).pay G f tick s (k :: ks) ho
    have hcaa := mkCaa_count f.method s (k :: ks) []
    have hpot := visit_potential P.D (P.succ f.method) (P.V f.method) (P.lim f.method)
      (analyseCall U B P f tick) f.loc.w f.loc.cnt (G, none)
    have hal := (allow_le P.D (P.succ f.method) (P.V f.method) (P.lim f.method)
      (analyseCall U B P f tick) dmax (hd f.method) f.loc.w f.loc.cnt (G, none)).1
    unfold r caa out at *
    simp only [innerCost, psi, sumOver, pendTotal, frameRank] at ih ⊢
    simp only [visitRunner, visitRun] at ih hpay ⊢
    simp only [pendingCount, List.filter_nil, List.length_nil, List.length_cons, Nat.zero_add] at hcaa hpay
    -- arithmetic: the interruption's allowance and the pending children are paid by budget
    generalize hn : ks.length + 1 = n at hcaa hpay
    have hn1 : 1 ≤ n := by omega
    have e1 : K * (List.filter (fun p => !p.snd) (mkCaa f.method s (k :: ks) [])).length ≤ K * n :=
      Nat.mul_le_mul_left K hcaa
    have e2 := Nat.mul_le_mul_left (K + dmax + 1) hpay
    rw [Nat.mul_add] at e2
    have e3 : (K + dmax + 1) * n = K * n + (dmax + 1) * n := by rw [Nat.add_assoc, Nat.add_mul]
    have e4 : dmax + 1 ≤ (dmax + 1) * n := Nat.le_mul_of_pos_right _ hn1
    simp only [pendingCount] at ih ⊢
    simp only [Nat.mul_add] at ih ⊢
    omega
  | case6 G tick f rest hi hp out r hno ih =>
    have hm := budget_anti U B ((visitRunner U B P).mono G f tick)
    have hni := visitRun_not_intr U B P G f tick hno
    have hpot := visit_potential P.D (P.succ f.method) (P.V f.method) (P.lim f.method)
      (analyseCall U B P f tick) f.loc.w f.loc.cnt (G, none)
    have hal := allow_zero P.D (P.succ f.method) (P.V f.method) (P.lim f.method)
      (analyseCall U B P f tick) f.loc.w f.loc.cnt (G, none) hni
    have e2 := Nat.mul_le_mul_left (K + dmax + 1) hm
    unfold r out at *
    simp only [innerCost, psi, sumOver, pendTotal, frameRank] at ih ⊢
    simp only [visitRunner, visitRun] at ih e2 ⊢
    simp only [Nat.mul_add] at ih ⊢
    omega

end LianVerif.Termination
