/-
Proofs/ArefExact.lean — exactness of the reference abstract interpreter on the object-free, call-free
sub-fragment whose binary operations have at most one variable operand: every abstract element is
taken by some execution.  Core Lean only.
-/
import LianVerif.Proofs.Aref

namespace LianVerif.ArefProofs
open LianVerif.PyStrLit LianVerif.Aref LianVerif.Collect

/-- at most one operand is a variable (then the transfer function reads one variable and the
per-variable value sets lose nothing; with two variable operands a non-relational analysis combines
values of different executions — C09_binop_cartesian states what the result is then). -/
def LinOp : Opnd → Opnd → Bool
  | .var _, .var _ => false
  | _, _ => true

/-- constants, copies, linear binary operations, sequencing, branches. -/
def CoreLin : Prg → Bool
  | .skip => true
  | .seq a b => CoreLin a && CoreLin b
  | .const .. => true
  | .copy .. => true
  | .bin _ _ _ a b => LinOp a b
  | .ite _ t e => CoreLin t && CoreLin e
  | _ => false

/-- every pair of operand elements is a pair of constants on which Python's operation is defined. -/
def AllDefined (op : String) (A B : ASet) : Prop :=
  ∀ a ∈ A, ∀ b ∈ B, ∃ pa pb pv, a = AVal.const pa ∧ b = AVal.const pb ∧
    cBin op (.prim pa) (.prim pb) = some (.prim pv)

/-- an abstract binary operation is exact: on operand sets all of whose combinations are defined constants,
every element of its result is Python's result for some pair of operand constants (in particular: no
unknown, no retained or invented value). -/
def ABinExact (ab : ABin) : Prop :=
  ∀ op A B r, ab op A B = some r → AllDefined op A B → ∀ x ∈ r, ∃ a ∈ A, ∃ b ∈ B, ∃ pa pb pv,
    a = AVal.const pa ∧ b = AVal.const pb ∧ cBin op (.prim pa) (.prim pb) = some (.prim pv) ∧ x = AVal.const pv

abbrev Envs := CEnv → Prop

/-- the environments after running `p` from an environment of `R`. -/
def next (P : Prog) (p : Prg) (R : Envs) : Envs := fun ρ' => ∃ ρ, R ρ ∧ ∃ r ∈ runs P p ρ, r.1 = ρ'

/-- no execution raises (the fragment is "unknown-free": every operation is defined on every path). -/
def NoStuck (P : Prog) : Prg → Envs → Prop
  | .skip, _ => True
  | .seq a b, R => NoStuck P a R ∧ NoStuck P b (next P a R)
  | .ite _ t e, R => NoStuck P t R ∧ NoStuck P e R
  | .const k x c, R => ∀ ρ, R ρ → stepC P (.const k x c) ρ ≠ none
  | .copy k x y, R => ∀ ρ, R ρ → stepC P (.copy k x y) ρ ≠ none
  | .bin k x op a b, R => ∀ ρ, R ρ → stepC P (.bin k x op a b) ρ ≠ none
  | .new k x cls a, R => ∀ ρ, R ρ → stepC P (.new k x cls a) ρ ≠ none
  | .fwrite o f a, R => ∀ ρ, R ρ → stepC P (.fwrite o f a) ρ ≠ none
  | .fread k x o f, R => ∀ ρ, R ρ → stepC P (.fread k x o f) ρ ≠ none
  | .call k x h args, R => ∀ ρ, R ρ → stepC P (.call k x h args) ρ ≠ none

/-- every abstract element of every variable is the value of that variable in some environment of `R`. -/
def Realised (σ : AEnv) (R : Envs) : Prop :=
  ∀ x S, σ.vars x = some S → ∀ a ∈ S, ∃ ρ, R ρ ∧ ∃ p, ρ.vars x = some (.prim p) ∧ a = AVal.const p

structure Inv (σ : AEnv) (R : Envs) : Prop where
  ne : ∃ ρ, R ρ
  rel : ∀ ρ, R ρ → Rel σ ρ
  real : Realised σ R

/-- every logged abstract element is logged, under the same key, by some execution. -/
def LogExact (P : Prog) (p : Prg) (alog : Log) (R : Envs) : Prop :=
  ∀ kA ∈ alog, ∀ a ∈ kA.2, ∃ ρ, R ρ ∧ ∃ r ∈ runs P p ρ, ∃ pv, (kA.1, CVal.prim pv) ∈ r.2 ∧ a = AVal.const pv

theorem writesOK_of_coreLin (ab : ABin) (P : Prog) : ∀ (p : Prg), CoreLin p = true → ∀ σ, WritesOK ab P p σ := by
  intro p
  induction p with
  | seq a b iha ihb =>
    intro hc σ
    simp only [CoreLin, Bool.and_eq_true] at hc
    exact ⟨iha hc.1 σ, fun σ1 _ _ => ihb hc.2 σ1⟩
  | ite i t e iht ihe =>
    intro hc σ
    simp only [CoreLin, Bool.and_eq_true] at hc
    exact ⟨iht hc.1 σ, ihe hc.2 σ⟩
  | fwrite o f a => intro hc; simp [CoreLin] at hc
  | skip => intro _ _; trivial
  | const k x c => intro _ _; trivial
  | copy k x y => intro _ _; trivial
  | bin k x op a b => intro _ _; trivial
  | new k x cls a => intro _ _; trivial
  | fread k x o f => intro _ _; trivial
  | call k x h args => intro _ _; trivial

theorem runs_nonempty (P : Prog) : ∀ (p : Prg), CoreLin p = true → ∀ (R : Envs), NoStuck P p R →
    ∀ ρ, R ρ → ∃ r, r ∈ runs P p ρ := by
  intro p
  induction p with
  | skip => intro _ R _ ρ _; exact ⟨(ρ, []), by simp [runs]⟩
  | seq a b iha ihb =>
    intro hc R hn ρ hρ
    simp only [CoreLin, Bool.and_eq_true] at hc
    simp only [NoStuck] at hn
    obtain ⟨r1, hr1⟩ := iha hc.1 R hn.1 ρ hρ
    obtain ⟨r2, hr2⟩ := ihb hc.2 (next P a R) hn.2 r1.1 ⟨ρ, hρ, r1, hr1, rfl⟩
    exact ⟨(r2.1, r1.2 ++ r2.2), by simp only [runs, List.mem_flatMap, List.mem_map]; exact ⟨r1, hr1, r2, hr2, rfl⟩⟩
  | ite i t e iht _ =>
    intro hc R hn ρ hρ
    simp only [CoreLin, Bool.and_eq_true] at hc
    simp only [NoStuck] at hn
    obtain ⟨r, hr⟩ := iht hc.1 R hn.1 ρ hρ
    exact ⟨r, by simp only [runs, List.mem_append]; exact Or.inl hr⟩
  | const k x c =>
    intro _ R hn ρ hρ
    simp only [NoStuck] at hn
    cases h : stepC P (.const k x c) ρ with
    | none => exact absurd h (hn ρ hρ)
    | some r => exact ⟨r, by simp [runs, h]⟩
  | copy k x y =>
    intro _ R hn ρ hρ
    simp only [NoStuck] at hn
    cases h : stepC P (.copy k x y) ρ with
    | none => exact absurd h (hn ρ hρ)
    | some r => exact ⟨r, by simp [runs, h]⟩
  | bin k x op a b =>
    intro _ R hn ρ hρ
    simp only [NoStuck] at hn
    cases h : stepC P (.bin k x op a b) ρ with
    | none => exact absurd h (hn ρ hρ)
    | some r => exact ⟨r, by simp [runs, h]⟩
  | new k x cls a => intro hc; simp [CoreLin] at hc
  | fwrite o f a => intro hc; simp [CoreLin] at hc
  | fread k x o f => intro hc; simp [CoreLin] at hc
  | call k x h args => intro hc; simp [CoreLin] at hc

theorem inv_congr {σ : AEnv} {R R' : Envs} (h : ∀ ρ, R ρ ↔ R' ρ) (hi : Inv σ R) : Inv σ R' := by
  obtain ⟨ρ0, h0⟩ := hi.ne
  refine ⟨⟨ρ0, (h ρ0).1 h0⟩, fun ρ hρ => hi.rel ρ ((h ρ).2 hρ), ?_⟩
  intro x S hS a ha
  obtain ⟨ρ, hρ, p, hp, hap⟩ := hi.real x S hS a ha
  exact ⟨ρ, (h ρ).1 hρ, p, hp, hap⟩

theorem cupd_same {κ : Type} [DecidableEq κ] (m : κ → Option CVal) (k : κ) (v : CVal) : cupd m k v k = some v := by
  simp [cupd]

theorem cupd_other {κ : Type} [DecidableEq κ] (m : κ → Option CVal) {k k' : κ} (v : CVal) (h : k' ≠ k) :
    cupd m k v k' = m k' := by
  simp [cupd, h]

theorem upd_same {κ : Type} [DecidableEq κ] (m : κ → Option ASet) (k : κ) (v : ASet) : upd m k v k = some v := by
  simp [upd]

theorem upd_other {κ : Type} [DecidableEq κ] (m : κ → Option ASet) {k k' : κ} (v : ASet) (h : k' ≠ k) :
    upd m k v k' = m k' := by
  simp [upd, h]

/-- after `x := …`: the new set of `x` is realised by `hx`, every other variable keeps a realiser because
no environment of `R` is stuck (`hstep`). -/
theorem realised_set {σ : AEnv} {R R' : Envs} {x : Var} {S : ASet} (hreal : Realised σ R)
    (hx : ∀ a ∈ S, ∃ ρ', R' ρ' ∧ ∃ p, ρ'.vars x = some (.prim p) ∧ a = AVal.const p)
    (hstep : ∀ ρ, R ρ → ∃ v, R' (ρ.set x v)) :
    Realised (σ.set x S) R' := by
  intro y T hT a ha
  by_cases hy : y = x
  · subst hy
    simp only [AEnv.set, upd_same, Option.some.injEq] at hT
    subst hT
    exact hx a ha
  · simp only [AEnv.set, upd_other _ _ hy] at hT
    obtain ⟨ρ, hρ, p, hp, hap⟩ := hreal y T hT a ha
    obtain ⟨v, hv⟩ := hstep ρ hρ
    exact ⟨ρ.set x v, hv, p, by simp only [CEnv.set, cupd_other _ _ hy]; exact hp, hap⟩

theorem cBin_prim {op : String} {a b v : CVal} (h : cBin op a b = some v) :
    ∃ pa pb pv, a = .prim pa ∧ b = .prim pb ∧ v = .prim pv := by
  unfold cBin at h
  cases ho : Op.ofString op with
  | none => simp [ho] at h
  | some o =>
    cases a with
    | ref s => simp [ho] at h
    | prim pa =>
      cases b with
      | ref s => simp [ho] at h
      | prim pb =>
        simp only [ho] at h
        cases hb : pyBinop o pa pb with
        | ok pv => simp only [hb, Option.some.injEq] at h; exact ⟨pa, pb, pv, rfl, rfl, h.symm⟩
        | err => simp [hb] at h
        | unmodelled => simp [hb] at h

/-- the elements of an operand's abstract set, when no environment is stuck on the operand: the constant
itself, or values of the variable in environments of `R`. -/
theorem opnd_elems {σ : AEnv} {R : Envs} (hi : Inv σ R) (a : Opnd)
    (hb : ∀ ρ, R ρ → ∃ v, evalC ρ a = some v) :
    ∀ ea ∈ evalOpnd σ a,
      (∃ c, a = .const c ∧ ea = AVal.const c) ∨
      (∃ y, a = .var y ∧ ∃ ρ p, R ρ ∧ ρ.vars y = some (.prim p) ∧ ea = AVal.const p) := by
  intro ea hm
  cases a with
  | const c =>
    left
    simp only [evalOpnd, List.mem_singleton] at hm
    exact ⟨c, rfl, hm⟩
  | var y =>
    right
    refine ⟨y, rfl, ?_⟩
    obtain ⟨ρ0, h0⟩ := hi.ne
    obtain ⟨v0, hv0⟩ := hb ρ0 h0
    obtain ⟨S, hS, _⟩ := (hi.rel ρ0 h0).1 y v0 hv0
    simp only [evalOpnd, AEnv.get, hS, Option.getD] at hm
    obtain ⟨ρ, hρ, p, hp, hap⟩ := hi.real y S hS ea hm
    exact ⟨ρ, p, hρ, hp, hap⟩

/-- with at most one variable operand, every pair of abstract operand elements is the pair of operand
values of ONE environment of `R`. -/
theorem pair_realised {σ : AEnv} {R : Envs} (hi : Inv σ R) (a b : Opnd) (hl : LinOp a b = true)
    (hba : ∀ ρ, R ρ → ∃ v, evalC ρ a = some v) (hbb : ∀ ρ, R ρ → ∃ v, evalC ρ b = some v) :
    ∀ ea ∈ evalOpnd σ a, ∀ eb ∈ evalOpnd σ b, ∃ pa pb ρ, R ρ ∧ ea = AVal.const pa ∧ eb = AVal.const pb ∧
      evalC ρ a = some (.prim pa) ∧ evalC ρ b = some (.prim pb) := by
  intro ea hma eb hmb
  rcases opnd_elems hi a hba ea hma with ⟨ca, rfl, rfl⟩ | ⟨ya, rfl, ρa, pa, hρa, hva, rfl⟩
  · rcases opnd_elems hi b hbb eb hmb with ⟨cb, rfl, rfl⟩ | ⟨yb, rfl, ρb, pb, hρb, hvb, rfl⟩
    · obtain ⟨ρ0, h0⟩ := hi.ne
      exact ⟨ca, cb, ρ0, h0, rfl, rfl, rfl, rfl⟩
    · exact ⟨ca, pb, ρb, hρb, rfl, rfl, rfl, hvb⟩
  · rcases opnd_elems hi b hbb eb hmb with ⟨cb, rfl, rfl⟩ | ⟨yb, rfl, ρb, pb, hρb, hvb, rfl⟩
    · exact ⟨pa, cb, ρa, hρa, rfl, rfl, hva, rfl⟩
    · simp [LinOp] at hl

theorem exact_exec (ab : ABin) (hs : ABinSound ab) (hx : ABinExact ab) (P : Prog) :
    ∀ (p : Prg), CoreLin p = true → ∀ (σ : AEnv) (R : Envs) (σ' : AEnv) (alog : Log),
      exec ab P p σ = some (σ', alog) → Inv σ R → NoStuck P p R →
      Inv σ' (next P p R) ∧ LogExact P p alog R := by
  intro p
  induction p with
  | skip =>
    intro _ σ R σ' alog he hi _
    simp only [exec, Option.some.injEq, Prod.mk.injEq] at he
    obtain ⟨rfl, rfl⟩ := he
    refine ⟨inv_congr (fun ρ => ?_) hi, fun _ h => absurd h (List.not_mem_nil)⟩
    simp only [next, runs, List.mem_singleton]
    constructor
    · intro h; exact ⟨ρ, h, (ρ, []), rfl, rfl⟩
    · rintro ⟨ρ0, h0, r, rfl, rfl⟩; exact h0
  | seq a b iha ihb =>
    intro hc σ R σ' alog he hi hn
    simp only [CoreLin, Bool.and_eq_true] at hc
    simp only [NoStuck] at hn
    simp only [exec] at he
    cases h1 : exec ab P a σ with
    | none => simp [h1] at he
    | some r1 =>
      obtain ⟨σ1, l1⟩ := r1
      simp only [h1] at he
      cases h2 : exec ab P b σ1 with
      | none => simp [h2] at he
      | some r2 =>
        obtain ⟨σ2, l2⟩ := r2
        simp only [h2, Option.some.injEq, Prod.mk.injEq] at he
        obtain ⟨rfl, rfl⟩ := he
        obtain ⟨hi1, hl1⟩ := iha hc.1 σ R σ1 l1 h1 hi hn.1
        obtain ⟨hi2, hl2⟩ := ihb hc.2 σ1 (next P a R) σ2 l2 h2 hi1 hn.2
        refine ⟨inv_congr (fun ρ'' => ?_) hi2, ?_⟩
        · simp only [next, runs, List.mem_flatMap, List.mem_map]
          constructor
          · rintro ⟨ρ1, ⟨ρ, hρ, r1, hr1, rfl⟩, r2, hr2, rfl⟩
            exact ⟨ρ, hρ, (r2.1, r1.2 ++ r2.2), ⟨r1, hr1, r2, hr2, rfl⟩, rfl⟩
          · rintro ⟨ρ, hρ, r, ⟨r1, hr1, r2, hr2, rfl⟩, rfl⟩
            exact ⟨r1.1, ⟨ρ, hρ, r1, hr1, rfl⟩, r2, hr2, rfl⟩
        · intro kA hkA el hel
          rcases List.mem_append.1 hkA with h | h
          · obtain ⟨ρ, hρ, r1, hr1, pv, hpv, hap⟩ := hl1 kA h el hel
            obtain ⟨r2, hr2⟩ := runs_nonempty P b hc.2 (next P a R) hn.2 r1.1 ⟨ρ, hρ, r1, hr1, rfl⟩
            refine ⟨ρ, hρ, (r2.1, r1.2 ++ r2.2), ?_, pv, List.mem_append.2 (Or.inl hpv), hap⟩
            simp only [runs, List.mem_flatMap, List.mem_map]
            exact ⟨r1, hr1, r2, hr2, rfl⟩
          · obtain ⟨ρ1, ⟨ρ, hρ, r1, hr1, rfl⟩, r2, hr2, pv, hpv, hap⟩ := hl2 kA h el hel
            refine ⟨ρ, hρ, (r2.1, r1.2 ++ r2.2), ?_, pv, List.mem_append.2 (Or.inr hpv), hap⟩
            simp only [runs, List.mem_flatMap, List.mem_map]
            exact ⟨r1, hr1, r2, hr2, rfl⟩
  | const k x c =>
    intro _ σ R σ' alog he hi _
    simp only [exec, Option.some.injEq, Prod.mk.injEq] at he
    obtain ⟨rfl, rfl⟩ := he
    have hnext : ∀ ρ, R ρ → next P (.const k x c) R (ρ.set x (.prim c)) := by
      intro ρ hρ
      exact ⟨ρ, hρ, (ρ.set x (.prim c), [(k, .prim c)]), by simp [runs, stepC], rfl⟩
    obtain ⟨ρ0, h0⟩ := hi.ne
    have hcov : covers [AVal.const c] (CVal.prim c) := Or.inr (List.mem_singleton.2 rfl)
    refine ⟨⟨⟨_, hnext ρ0 h0⟩, ?_, ?_⟩, ?_⟩
    · rintro ρ' ⟨ρ, hρ, r, hr, rfl⟩
      simp only [runs, stepC, Option.toList, List.mem_singleton] at hr
      subst hr
      exact rel_set (hi.rel ρ hρ) hcov
    · apply realised_set hi.real
      · intro a ha
        rw [List.mem_singleton] at ha; subst ha
        exact ⟨_, hnext ρ0 h0, c, by simp [CEnv.set, cupd_same], rfl⟩
      · intro ρ hρ; exact ⟨_, hnext ρ hρ⟩
    · intro kA hkA a ha
      rw [List.mem_singleton] at hkA; subst hkA
      simp only [List.mem_singleton] at ha; subst ha
      exact ⟨ρ0, h0, (ρ0.set x (.prim c), [(k, .prim c)]), by simp [runs, stepC], c, List.mem_singleton.2 rfl, rfl⟩
  | copy k x y =>
    intro _ σ R σ' alog he hi hn
    simp only [exec, Option.some.injEq, Prod.mk.injEq] at he
    obtain ⟨rfl, rfl⟩ := he
    simp only [NoStuck] at hn
    -- every environment has y bound
    have hb : ∀ ρ, R ρ → ∃ v, ρ.get y = some v := by
      intro ρ hρ
      cases hy : ρ.get y with
      | none => exact absurd (by simp [stepC, hy]) (hn ρ hρ)
      | some v => exact ⟨v, rfl⟩
    have hnext : ∀ ρ v, R ρ → ρ.get y = some v → next P (.copy k x y) R (ρ.set x v) := by
      intro ρ v hρ hv
      exact ⟨ρ, hρ, (ρ.set x v, [(k, v)]), by simp [runs, stepC, hv], rfl⟩
    obtain ⟨ρ0, h0⟩ := hi.ne
    obtain ⟨v0, hv0⟩ := hb ρ0 h0
    obtain ⟨S, hS, _⟩ := (hi.rel ρ0 h0).1 y v0 hv0
    have hget : σ.get y = S := by simp [AEnv.get, hS]
    rw [hget]
    refine ⟨⟨⟨_, hnext ρ0 v0 h0 hv0⟩, ?_, ?_⟩, ?_⟩
    · rintro ρ' ⟨ρ, hρ, r, hr, rfl⟩
      obtain ⟨v, hv⟩ := hb ρ hρ
      simp only [runs, stepC, hv, Option.map, Option.toList, List.mem_singleton] at hr
      subst hr
      have := rel_get (hi.rel ρ hρ) hv
      rw [hget] at this
      exact rel_set (hi.rel ρ hρ) this
    · apply realised_set hi.real
      · intro a ha
        obtain ⟨ρ, hρ, p, hp, hap⟩ := hi.real y S hS a ha
        exact ⟨_, hnext ρ (.prim p) hρ hp, p, by simp [CEnv.set, cupd_same], hap⟩
      · intro ρ hρ
        obtain ⟨v, hv⟩ := hb ρ hρ
        exact ⟨v, hnext ρ v hρ hv⟩
    · intro kA hkA a ha
      rw [List.mem_singleton] at hkA; subst hkA
      obtain ⟨ρ, hρ, p, hp, hap⟩ := hi.real y S hS a ha
      exact ⟨ρ, hρ, (ρ.set x (.prim p), [(k, .prim p)]), by simp [runs, stepC, CEnv.get, hp], p,
        List.mem_singleton.2 rfl, hap⟩
  | bin k x op a b =>
    intro hc σ R σ' alog he hi hn
    simp only [CoreLin] at hc
    simp only [NoStuck] at hn
    simp only [exec] at he
    cases hr0 : ab op (evalOpnd σ a) (evalOpnd σ b) with
    | none => simp [hr0] at he
    | some res =>
      simp only [hr0, Option.some.injEq, Prod.mk.injEq] at he
      obtain ⟨rfl, rfl⟩ := he
      -- the step of an environment
      have hstep : ∀ ρ, R ρ → ∃ v, stepC P (.bin k x op a b) ρ = some (ρ.set x v, [(k, v)]) := by
        intro ρ hρ
        have := hn ρ hρ
        simp only [stepC] at this ⊢
        cases ha : evalC ρ a with
        | none => simp [ha] at this
        | some va =>
          cases hb : evalC ρ b with
          | none => simp [ha, hb] at this
          | some vb =>
            cases hv : cBin op va vb with
            | none => simp [ha, hb, hv] at this
            | some v => exact ⟨v, by simp [hv]⟩
      have hnext : ∀ ρ v, R ρ → stepC P (.bin k x op a b) ρ = some (ρ.set x v, [(k, v)]) →
          next P (.bin k x op a b) R (ρ.set x v) := by
        intro ρ v hρ hv
        exact ⟨ρ, hρ, (ρ.set x v, [(k, v)]), by simp [runs, hv], rfl⟩
      -- no environment is stuck on an operand
      have hba : ∀ ρ, R ρ → ∃ v, evalC ρ a = some v := by
        intro ρ hρ
        have := hn ρ hρ
        simp only [stepC] at this
        cases ha : evalC ρ a with
        | none => simp [ha] at this
        | some va => exact ⟨va, rfl⟩
      have hbb : ∀ ρ, R ρ → ∃ v, evalC ρ b = some v := by
        intro ρ hρ
        have := hn ρ hρ
        simp only [stepC] at this
        cases ha : evalC ρ a with
        | none => simp [ha] at this
        | some va =>
          cases hb : evalC ρ b with
          | none => simp [ha, hb] at this
          | some vb => exact ⟨vb, rfl⟩
      -- every pair of abstract operand elements is defined: it is the operand pair of one environment
      have hpair := pair_realised hi a b hc hba hbb
      have hdef : AllDefined op (evalOpnd σ a) (evalOpnd σ b) := by
        intro ea hma eb hmb
        obtain ⟨pa, pb, ρ, hρ, hea, heb, hva, hvb⟩ := hpair ea hma eb hmb
        obtain ⟨v, hv⟩ := hstep ρ hρ
        simp only [stepC, hva, hvb] at hv
        cases hcb : cBin op (.prim pa) (.prim pb) with
        | none => simp [hcb] at hv
        | some w =>
          obtain ⟨_, _, pv, _, _, hw⟩ := cBin_prim hcb
          subst hw
          exact ⟨pa, pb, pv, hea, heb, hcb⟩
      -- every element of the result is produced by some environment
      have hprod : ∀ e ∈ res, ∃ ρ, R ρ ∧ ∃ pv, stepC P (.bin k x op a b) ρ = some (ρ.set x (.prim pv), [(k, .prim pv)]) ∧
          e = AVal.const pv := by
        intro e he
        obtain ⟨ea, hma, eb, hmb, pa, pb, pv, hea, heb, hcb, hev⟩ := hx op _ _ res hr0 hdef e he
        obtain ⟨pa', pb', ρ, hρ, hea', heb', hva, hvb⟩ := hpair ea hma eb hmb
        rw [hea] at hea'; rw [heb] at heb'
        cases hea'; cases heb'
        exact ⟨ρ, hρ, pv, by simp [stepC, hva, hvb, hcb], hev⟩
      obtain ⟨ρ0, h0⟩ := hi.ne
      obtain ⟨v0, hv0⟩ := hstep ρ0 h0
      refine ⟨⟨⟨_, hnext ρ0 v0 h0 hv0⟩, ?_, ?_⟩, ?_⟩
      · rintro ρ' ⟨ρ, hρ, r, hr, rfl⟩
        have hw := writesOK_of_coreLin ab P (.bin k x op a b) (by simpa [CoreLin] using hc) σ
        have hex : exec ab P (.bin k x op a b) σ = some (σ.set x res, [(k, res)]) := by simp [exec, hr0]
        exact (sound_exec ab hs P _ σ hw ρ _ _ hex (hi.rel ρ hρ) r hr).1
      · apply realised_set hi.real
        · intro e he
          obtain ⟨ρ, hρ, pv, hst, hev⟩ := hprod e he
          exact ⟨_, hnext ρ _ hρ hst, pv, by simp [CEnv.set, cupd_same], hev⟩
        · intro ρ hρ
          obtain ⟨v, hv⟩ := hstep ρ hρ
          exact ⟨v, hnext ρ v hρ hv⟩
      · intro kA hkA e he
        rw [List.mem_singleton] at hkA; subst hkA
        obtain ⟨ρ, hρ, pv, hst, hev⟩ := hprod e he
        exact ⟨ρ, hρ, (ρ.set x (.prim pv), [(k, .prim pv)]), by simp [runs, hst], pv, List.mem_singleton.2 rfl, hev⟩
  | ite i t e iht ihe =>
    intro hc σ R σ' alog he hi hn
    simp only [CoreLin, Bool.and_eq_true] at hc
    simp only [NoStuck] at hn
    simp only [exec] at he
    cases h1 : exec ab P t σ with
    | none => simp [h1] at he
    | some r1 =>
      obtain ⟨σ1, l1⟩ := r1
      cases h2 : exec ab P e σ with
      | none => simp [h1, h2] at he
      | some r2 =>
        obtain ⟨σ2, l2⟩ := r2
        simp only [h1, h2, Option.some.injEq, Prod.mk.injEq] at he
        obtain ⟨rfl, rfl⟩ := he
        obtain ⟨hi1, hl1⟩ := iht hc.1 σ R σ1 l1 h1 hi hn.1
        obtain ⟨hi2, hl2⟩ := ihe hc.2 σ R σ2 l2 h2 hi hn.2
        have hleft : ∀ ρ', next P t R ρ' → next P (.ite i t e) R ρ' := by
          rintro ρ' ⟨ρ, hρ, r, hr, rfl⟩
          exact ⟨ρ, hρ, r, by simp only [runs, List.mem_append]; exact Or.inl hr, rfl⟩
        have hright : ∀ ρ', next P e R ρ' → next P (.ite i t e) R ρ' := by
          rintro ρ' ⟨ρ, hρ, r, hr, rfl⟩
          exact ⟨ρ, hρ, r, by simp only [runs, List.mem_append]; exact Or.inr hr, rfl⟩
        obtain ⟨ρ1, hρ1⟩ := hi1.ne
        refine ⟨⟨⟨ρ1, hleft ρ1 hρ1⟩, ?_, ?_⟩, ?_⟩
        · rintro ρ' ⟨ρ, hρ, r, hr, rfl⟩
          simp only [runs, List.mem_append] at hr
          rcases hr with hr | hr
          · have := hi1.rel r.1 ⟨ρ, hρ, r, hr, rfl⟩
            exact ⟨relV_join_left this.1, relV_join_left this.2⟩
          · have := hi2.rel r.1 ⟨ρ, hρ, r, hr, rfl⟩
            exact ⟨relV_join_right this.1, relV_join_right this.2⟩
        · intro y S hS a ha
          simp only [AEnv.join, joinMap] at hS
          cases hA : σ1.vars y with
          | none =>
            cases hB : σ2.vars y with
            | none => simp [hA, hB] at hS
            | some B =>
              simp only [hA, hB, Option.some.injEq] at hS
              subst hS
              obtain ⟨ρ, hρ, p, hp, hap⟩ := hi2.real y B hB a ha
              exact ⟨ρ, hright ρ hρ, p, hp, hap⟩
          | some A =>
            cases hB : σ2.vars y with
            | none =>
              simp only [hA, hB, Option.some.injEq] at hS
              subst hS
              obtain ⟨ρ, hρ, p, hp, hap⟩ := hi1.real y A hA a ha
              exact ⟨ρ, hleft ρ hρ, p, hp, hap⟩
            | some B =>
              simp only [hA, hB, Option.some.injEq] at hS
              subst hS
              rcases mem_union.1 ha with h | h
              · obtain ⟨ρ, hρ, p, hp, hap⟩ := hi1.real y A hA a h
                exact ⟨ρ, hleft ρ hρ, p, hp, hap⟩
              · obtain ⟨ρ, hρ, p, hp, hap⟩ := hi2.real y B hB a h
                exact ⟨ρ, hright ρ hρ, p, hp, hap⟩
        · intro kA hkA a ha
          rcases List.mem_append.1 hkA with h | h
          · obtain ⟨ρ, hρ, r, hr, pv, hpv, hap⟩ := hl1 kA h a ha
            exact ⟨ρ, hρ, r, by simp only [runs, List.mem_append]; exact Or.inl hr, pv, hpv, hap⟩
          · obtain ⟨ρ, hρ, r, hr, pv, hpv, hap⟩ := hl2 kA h a ha
            exact ⟨ρ, hρ, r, by simp only [runs, List.mem_append]; exact Or.inr hr, pv, hpv, hap⟩
  | new k x cls a => intro hc; simp [CoreLin] at hc
  | fwrite o f a => intro hc; simp [CoreLin] at hc
  | fread k x o f => intro hc; simp [CoreLin] at hc
  | call k x h args => intro hc; simp [CoreLin] at hc


theorem mem_unionAll {a : AVal} : ∀ (l : List ASet), a ∈ unionAll l → ∃ A ∈ l, a ∈ A := by
  intro l
  induction l with
  | nil => intro h; simp [unionAll] at h
  | cons B rest ih =>
    intro h
    simp only [unionAll] at h
    rcases mem_union.1 h with h | h
    · exact ⟨B, List.mem_cons_self .., h⟩
    · obtain ⟨A, hA, ha⟩ := ih h
      exact ⟨A, List.mem_cons_of_mem _ hA, ha⟩

theorem mem_keysDedup_rev {k : Key} : ∀ (l : List Key), k ∈ keysDedup l → k ∈ l := by
  intro l
  induction l with
  | nil => intro h; exact h
  | cons a as ih =>
    intro h
    simp only [keysDedup] at h
    split at h
    · exact List.mem_cons_of_mem _ (ih h)
    · rcases List.mem_cons.1 h with rfl | h
      · exact List.mem_cons_self ..
      · exact List.mem_cons_of_mem _ (ih h)

/-- an element of a merged entry comes from an entry of the log with the same key. -/
theorem of_mem_mergeLog {log : Log} {k : Key} {A' : ASet} (h : (k, A') ∈ mergeLog log) :
    ∀ a ∈ A', ∃ A, (k, A) ∈ log ∧ a ∈ A := by
  intro a ha
  unfold mergeLog at h
  obtain ⟨k', _, hk⟩ := List.mem_map.1 h
  simp only [Prod.mk.injEq] at hk
  obtain ⟨rfl, rfl⟩ := hk
  obtain ⟨A, hA, haA⟩ := mem_unionAll _ ha
  obtain ⟨p, hp, rfl⟩ := List.mem_map.1 hA
  obtain ⟨hpl, hpk⟩ := List.mem_filter.1 hp
  simp only [decide_eq_true_eq] at hpk
  exact ⟨p.2, by rw [← hpk]; exact hpl, haA⟩


/-! ### an ideal folding (used for non-vacuity examples) -/

def isConst : AVal → Bool
  | .const _ => true
  | _ => false

def combo (op : String) (a b : AVal) : Option AVal :=
  match a, b with
  | .const pa, .const pb =>
    match cBin op (.prim pa) (.prim pb) with
    | some (.prim pv) => some (.const pv)
    | _ => none
  | _, _ => none

/-- an ideal folding: defined on sets of constants only, yields exactly the defined combinations. -/
def idealBin : ABin := fun op A B =>
  if A.all isConst && B.all isConst then some (A.flatMap (fun a => B.filterMap (fun b => combo op a b))) else none

theorem idealBin_sound : ABinSound idealBin := by
  intro op A B r a b v hr ha hb hv
  unfold idealBin at hr
  split at hr
  · rename_i hall
    simp only [Bool.and_eq_true, List.all_eq_true] at hall
    simp only [Option.some.injEq] at hr
    subst hr
    obtain ⟨pa, pb, pv, rfl, rfl, rfl⟩ := cBin_prim hv
    have hA : AVal.const pa ∈ A := by
      rcases ha with hu | hc
      · have := hall.1 _ hu; simp [isConst] at this
      · exact hc
    have hB : AVal.const pb ∈ B := by
      rcases hb with hu | hc
      · have := hall.2 _ hu; simp [isConst] at this
      · exact hc
    right
    show AVal.const pv ∈ _
    refine List.mem_flatMap.2 ⟨_, hA, List.mem_filterMap.2 ⟨_, hB, ?_⟩⟩
    simp [combo, hv]
  · exact absurd hr (by simp)

theorem idealBin_exact : ABinExact idealBin := by
  intro op A B r hr _ x hx
  unfold idealBin at hr
  split at hr
  · simp only [Option.some.injEq] at hr
    subst hr
    obtain ⟨a, ha, hxa⟩ := List.mem_flatMap.1 hx
    obtain ⟨b, hb, hab⟩ := List.mem_filterMap.1 hxa
    cases a with
    | const pa =>
      cases b with
      | const pb =>
        simp only [combo] at hab
        cases hc : cBin op (.prim pa) (.prim pb) with
        | none => simp [hc] at hab
        | some w =>
          cases w with
          | prim pv =>
            simp only [hc, Option.some.injEq] at hab
            exact ⟨_, ha, _, hb, pa, pb, pv, rfl, rfl, hc, hab.symm⟩
          | ref s => simp [hc] at hab
      | obj s => simp [combo] at hab
      | unknown => simp [combo] at hab
    | obj s => simp [combo] at hab
    | unknown => simp [combo] at hab
  · exact absurd hr (by simp)


end LianVerif.ArefProofs
