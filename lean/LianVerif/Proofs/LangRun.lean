/-
Id allocation over the units of a project (`LangRun.langRun`): every unit is well-formed and the id
ranges of different units are disjoint and increasing.
-/
import LianVerif.Model.LangRun
import LianVerif.Proofs.MainFuncOrder

namespace LianVerif.Gir
open LianVerif.LangRun LianVerif.MainFunc

/-! ### `adjust_node_id` -/

theorem adjust_ge (i n : Nat) : n + i ≤ adjustNodeId i n := by
  unfold adjustNodeId
  simp only []
  split <;> omega

theorem adjust_mod (i n : Nat) : adjustNodeId i n % 10 = 0 := by
  unfold adjustNodeId
  simp only [bne_iff_ne, ne_eq]
  split <;> omega

/-! ### `stamp` (the `unit_id` attribute) -/

theorem stamp_id (u : Nat) (r : Row) : (stamp u r).id = r.id := rfl
theorem stamp_op (u : Nat) (r : Row) : (stamp u r).op = r.op := rfl
theorem stamp_parent (u : Nat) (r : Row) : (stamp u r).parent = r.parent := rfl
theorem stamp_isMarker (u : Nat) (r : Row) : (stamp u r).isMarker = r.isMarker := rfl
theorem stamp_isStart (u : Nat) (r : Row) : (stamp u r).isStart = r.isStart := rfl
theorem stamp_isEnd (u : Nat) (r : Row) : (stamp u r).isEnd = r.isEnd := rfl

theorem stamp_attrs {u : Nat} {r : Row} (hk : "unit_id" ∉ r.attrs.map Prod.fst) :
    (stamp u r).attrs = r.attrs ++ [("unit_id", AVal.int u)] := by
  simp only [stamp]
  exact assocSet_fresh _ _ _ hk

theorem stamp_hasIntAttr {u : Nat} {r : Row} {b : Nat} (hk : "unit_id" ∉ r.attrs.map Prod.fst)
    (h : r.hasIntAttr b = true) : (stamp u r).hasIntAttr b = true := by
  simp only [Row.hasIntAttr, stamp_attrs hk, List.any_append, Bool.or_eq_true]
  exact Or.inl h

theorem shape_map_stamp (u : Nat) {p : Nat} {last : Option Row} {rows : Rows} (h : Shape p last rows) :
    (∀ r ∈ rows, "unit_id" ∉ r.attrs.map Prod.fst) →
    (∀ o, last = some o → "unit_id" ∉ o.attrs.map Prod.fst) →
    Shape p (last.map (stamp u)) (rows.map (stamp u)) := by
  induction h with
  | nil => intro _ _; exact Shape.nil
  | @stmt p last r rest hm hp _ ih =>
    intro hk _
    rw [List.map_cons]
    refine Shape.stmt (by rw [stamp_isMarker]; exact hm) (by rw [stamp_parent]; exact hp) ?_
    exact ih (fun x hx => hk x (List.mem_cons_of_mem _ hx)) (fun o ho => by cases ho; exact hk _ List.mem_cons_self)
  | @block p o s e inner rest hs he hid hsp hep ha _ _ ih1 ih2 =>
    intro hk hlast
    have : List.map (stamp u) (s :: (inner ++ e :: rest))
        = stamp u s :: (List.map (stamp u) inner ++ stamp u e :: List.map (stamp u) rest) := by simp
    rw [this]
    refine Shape.block (o := stamp u o) (by rw [stamp_isStart]; exact hs) (by rw [stamp_isEnd]; exact he)
      (by simp only [stamp_id]; exact hid) (by simp only [stamp_id, stamp_parent]; exact hsp)
      (by simp only [stamp_id, stamp_parent]; exact hep) ?_ ?_ ?_
    · rw [stamp_id]; exact stamp_hasIntAttr (hlast o rfl) ha
    · rw [stamp_id]; exact ih1 (fun x hx => hk x (by simp [hx])) (fun _ h => by cases h)
    · exact ih2 (fun x hx => hk x (by simp [hx])) hlast

theorem defIds_map_stamp (u : Nat) (rows : Rows) : defIds (rows.map (stamp u)) = defIds rows := by
  induction rows with
  | nil => rfl
  | cons r rest ih =>
    cases he : r.isEnd with
    | true => rw [List.map_cons, defIds_cons_of_end (by rw [stamp_isEnd, he]), defIds_cons_of_end he, ih]
    | false =>
      rw [List.map_cons, defIds_cons_of_not_end (by rw [stamp_isEnd, he]), defIds_cons_of_not_end he, ih, stamp_id]

/-- stamping `unit_id` keeps the core clauses -/
theorem stamp_wfCore (u : Nat) (bk : String → Bool) (hbk : bk "unit_id" = false) {rows : Rows}
    (h : WFCore bk rows) (hk : ∀ r ∈ rows, "unit_id" ∉ r.attrs.map Prod.fst) :
    WFCore bk (rows.map (stamp u)) := by
  refine ⟨?_, ?_, ?_, ?_⟩
  · have := shape_map_stamp u (shape_of_lvl (h.nested (fun _ _ => false) false)) hk (fun _ h => by cases h)
    exact lvl_of_shape this
  · rw [defIds_map_stamp]; exact h.ids_unique
  · intro r hr
    obtain ⟨x, hx, rfl⟩ := List.mem_map.1 hr
    rw [stamp_id]; exact h.ids_pos x hx
  · intro r hr hm kv hkv hb b hv
    obtain ⟨x, hx, rfl⟩ := List.mem_map.1 hr
    rw [stamp_attrs (hk x hx)] at hkv
    rcases List.mem_append.1 hkv with hkv | hkv
    · obtain ⟨s, hs, h1, h2, h3⟩ := h.bodies_exist x hx (by rw [stamp_isMarker] at hm; exact hm) kv hkv hb b hv
      exact ⟨stamp u s, List.mem_map_of_mem hs, by rw [stamp_isStart]; exact h1, by rw [stamp_id]; exact h2,
        by rw [stamp_parent, stamp_id]; exact h3⟩
    · simp only [List.mem_singleton] at hkv
      subst hkv
      rw [hbk] at hb; cases hb

theorem stamp_ordered (u : Nat) {rows : Rows} (h : rows.Pairwise OrdRel) : (rows.map (stamp u)).Pairwise OrdRel := by
  rw [List.pairwise_map]
  exact h.imp (fun hab => hab)

theorem stamp_isUnitInit (W : WfParams) (u : Nat) (r : Row) : isUnitInit W (stamp u r) = isUnitInit W r := by
  simp only [isUnitInit, stamp_op, stamp_parent, Row.get, stamp]
  rw [assocGet_assocSet_ne _ _ _ _ (by decide)]

theorem stamp_one_init (W : WfParams) (u : Nat) {rows : Rows} (h : (rows.filter (isUnitInit W)).length ≤ 1) :
    ((rows.map (stamp u)).filter (isUnitInit W)).length ≤ 1 := by
  have : (rows.map (stamp u)).filter (isUnitInit W) = (rows.filter (isUnitInit W)).map (stamp u) := by
    rw [List.filter_map]
    congr 1
    apply List.filter_congr
    intro x _
    simp [stamp_isUnitInit]
  rw [this, List.length_map]; exact h

/-! ### one unit -/

/-- the rows saved for one unit: core clauses, `top_decl`, ids inside `[n, n' + 2)` where `n'` is the
counter `flatten` returns. -/
theorem unitRun_spec (P : LangRun.Params) (bk : String → Bool) (hbk1 : bk "original_stmt" = false)
    (hbk2 : bk "unit_id" = false) (n uid : Nat) (hn : 1 ≤ n) (tree : Option JVal)
    (hwf : ∀ t, tree = some t → treeFalsy (some t) = false → WfGir bk t = true) :
    ∃ n' rows?, unitRunGir P n uid tree = .ok (n', rows?) ∧ n ≤ n' ∧
      ∀ rows, rows? = some rows →
        (∀ r ∈ rows, n ≤ r.id ∧ r.id < n' + 2) ∧ WFCore bk rows ∧
        (∀ r ∈ rows, r.isMarker = false → r.parent = 0 → MainFunc.keepsTop P.main r.op = true) ∧
        rows.Pairwise OrdRel := by
  unfold unitRunGir
  by_cases hf : treeFalsy tree = true
  · rw [if_pos hf]
    exact ⟨n, none, rfl, Nat.le_refl _, fun rows h => by cases h⟩
  · rw [if_neg hf]
    cases tree with
    | none => exact absurd rfl hf
    | some t =>
      simp only []
      obtain ⟨n', rows, hfl, hlt, hseg, hlvl⟩ :=
        flatten_spec P.flat bk hbk1 n t (hwf t rfl (by simpa using hf))
      rw [hfl]
      refine ⟨n', _, rfl, by omega, ?_⟩
      intro rows' hrows'
      simp only [Option.some.injEq] at hrows'
      subst hrows'
      have hcore : WFCore bk rows := hseg.wfCore hn hlvl
      have hcore' := addMainFunc_wfCore P.main bk hcore
      have hkeys := addMainFunc_keys P.main hseg.keys
      refine ⟨?_, stamp_wfCore uid bk hbk2 hcore' hkeys, ?_, ?_⟩
      · intro r hr
        obtain ⟨x, hx, rfl⟩ := List.mem_map.1 hr
        rw [stamp_id]
        have hnext : nextId rows ≤ n' := nextId_le (fun r hr => (hseg.bound r hr).2)
        rcases mem_addMainFunc hx with h | h | h | h | ⟨y, hy, _, h⟩
        · have := hseg.bound x h; omega
        · subst h
          -- the table is not empty, so `nextId` is above `n`
          have hne : rows ≠ [] := by
            intro he
            have := hseg.ids
            rw [he] at this
            simp only [defIds_nil] at this
            have hl : (List.range' n (n' - n)).length = 0 := by rw [← this]; rfl
            simp at hl; omega
          obtain ⟨r0, rest, hr0⟩ := List.exists_cons_of_ne_nil hne
          have h1 := lt_nextId (rows := rows) (r := r0) (by rw [hr0]; exact List.mem_cons_self)
          have h2 := hseg.bound r0 (by rw [hr0]; exact List.mem_cons_self)
          simp only [initDecl]; omega
        · subst h; simp only [mkStart]
          have hne : rows ≠ [] := by
            intro he
            have := hseg.ids
            rw [he] at this
            simp only [defIds_nil] at this
            have hl : (List.range' n (n' - n)).length = 0 := by rw [← this]; rfl
            simp at hl; omega
          obtain ⟨r0, rest, hr0⟩ := List.exists_cons_of_ne_nil hne
          have h1 := lt_nextId (rows := rows) (r := r0) (by rw [hr0]; exact List.mem_cons_self)
          have h2 := hseg.bound r0 (by rw [hr0]; exact List.mem_cons_self)
          omega
        · subst h; simp only [mkEnd]
          have hne : rows ≠ [] := by
            intro he
            have := hseg.ids
            rw [he] at this
            simp only [defIds_nil] at this
            have hl : (List.range' n (n' - n)).length = 0 := by rw [← this]; rfl
            simp at hl; omega
          obtain ⟨r0, rest, hr0⟩ := List.exists_cons_of_ne_nil hne
          have h1 := lt_nextId (rows := rows) (r := r0) (by rw [hr0]; exact List.mem_cons_self)
          have h2 := hseg.bound r0 (by rw [hr0]; exact List.mem_cons_self)
          omega
        · subst h
          have e2 : (reparent (nextId rows + 1) y).id = y.id := by simp only [reparent]; split <;> rfl
          rw [e2]; have := hseg.bound y hy; omega
      · intro r hr hm hp
        obtain ⟨x, hx, rfl⟩ := List.mem_map.1 hr
        exact addMainFunc_top_decl P.main hcore.ids_pos x hx hm hp
      · exact stamp_ordered uid (addMainFunc_ordered P.main (shape_of_lvl (hlvl (fun _ _ => false) false none))
          hcore.ids_pos hcore.ids_unique (inc_of_ids hseg.ids))

/-! ### the whole run -/

/-- **`langRun` on `WfGir` trees**: completes; every saved unit satisfies the core clauses and
`top_decl`; all ids lie in `[n, final)`; units processed earlier have strictly smaller ids than units
processed later (so the ranges are disjoint). -/
theorem langRun_spec (P : LangRun.Params) (bk : String → Bool) (hbk1 : bk "original_stmt" = false)
    (hbk2 : bk "unit_id" = false) (hI : 2 ≤ P.interval) :
    ∀ (units : List (Nat × Frontend)) (n : Nat), 1 ≤ n →
      (∀ u ∈ units, ∀ t, u.2 = .gir (some t) → treeFalsy (some t) = false → WfGir bk t = true) →
      ∃ us nf, langRun P n units = .ok (us, nf) ∧ n ≤ nf ∧
        (∀ u ∈ us, ∀ r ∈ u.2, n ≤ r.id ∧ r.id < nf) ∧
        us.Pairwise (fun u v => ∀ a ∈ u.2, ∀ b ∈ v.2, a.id < b.id) ∧
        (∀ u ∈ us, WFCore bk u.2 ∧
          (∀ r ∈ u.2, r.isMarker = false → r.parent = 0 → MainFunc.keepsTop P.main r.op = true) ∧
          u.2.Pairwise OrdRel) := by
  intro units
  induction units with
  | nil =>
    intro n _ _
    exact ⟨[], n, rfl, Nat.le_refl _, by simp, List.Pairwise.nil, by simp⟩
  | cons u rest ih =>
    intro n hn hwf
    obtain ⟨uid, fe⟩ := u
    have hunit : ∃ n' rows?, unitRun P n uid fe = .ok (n', rows?) ∧ n ≤ n' ∧
        ∀ rows, rows? = some rows →
          (∀ r ∈ rows, n ≤ r.id ∧ r.id < n' + 2) ∧ WFCore bk rows ∧
          (∀ r ∈ rows, r.isMarker = false → r.parent = 0 → MainFunc.keepsTop P.main r.op = true) ∧
          rows.Pairwise OrdRel := by
      cases fe with
      | raised cls => exact ⟨n, none, rfl, Nat.le_refl _, fun rows h => by cases h⟩
      | gir tree =>
        exact unitRun_spec P bk hbk1 hbk2 n uid hn tree
          (fun t ht hf => hwf (uid, .gir tree) List.mem_cons_self t (by rw [ht]) hf)
    obtain ⟨n', rows?, hu, hle, hspec⟩ := hunit
    have hadj := adjust_ge P.interval n'
    obtain ⟨us, nf, hrest, hle2, hb2, hp2, hw2⟩ :=
      ih (adjustNodeId P.interval n') (by omega) (fun v hv => hwf v (List.mem_cons_of_mem _ hv))
    have hrest' : langRunWith P.interval (unitRun P) (adjustNodeId P.interval n') rest = .ok (us, nf) := hrest
    cases hr : rows? with
    | none =>
      refine ⟨us, nf, by simp only [langRun, langRunWith, hu, hrest', hr], by omega, ?_, hp2, hw2⟩
      intro v hv r hr'
      have := hb2 v hv r hr'; omega
    | some rows =>
      obtain ⟨hb, hcore, htop, hord⟩ := hspec rows hr
      refine ⟨(uid, rows) :: us, nf, by simp only [langRun, langRunWith, hu, hrest', hr], by omega, ?_, ?_, ?_⟩
      · intro v hv r hr'
        rcases List.mem_cons.1 hv with rfl | hv
        · have := hb r hr'; omega
        · have := hb2 v hv r hr'; omega
      · refine List.Pairwise.cons ?_ hp2
        intro v hv a ha b hb'
        have h1 := hb a ha
        have h2 := hb2 v hv b hb'
        omega
      · intro v hv
        rcases List.mem_cons.1 hv with rfl | hv
        · exact ⟨hcore, htop, hord⟩
        · exact hw2 v hv

end LianVerif.Gir
