/-
Every frame the specification can reach is well-formed (rectangular, one label per row).
-/
import LianVerif.Proofs.FrameWF
import LianVerif.Spec.Scan

namespace LianVerif.Scan
open LianVerif.Table LianVerif.Table.Frame

theorem wf_resetIf {f : Frame} (h : f.WF) (r : Bool) : (resetIf f r).WF := by
  cases r
  · exact h
  · exact wf_resetIndex h

/-- frame afterwards and derived frame are both well-formed -/
def StepWF (f : Frame) (op : Op) : Prop :=
  (specStep f op).1.WF ∧ ∀ g, (specStep f op).2.2 = some g → g.WF

theorem nochild {P : Frame → Prop} : ∀ g, (none : Option Frame) = some g → P g := by
  intro g hg; exact absurd hg (by simp)

theorem thechild {P : Frame → Prop} {c : Frame} (h : P c) : ∀ g, some c = some g → P g := by
  intro g hg; cases hg; exact h

theorem specStep_wf {f : Frame} (h : f.WF) (op : Op) : StepWF f op := by
  unfold StepWF
  cases op with
  | len => exact ⟨h, nochild⟩
  | isEmpty => exact ⟨h, nochild⟩
  | getRows => exact ⟨h, nochild⟩
  | toDicts => exact ⟨h, nochild⟩
  | iter => simp only [specStep]; split <;> exact ⟨h, nochild⟩
  | accessPos i => simp only [specStep]; split <;> exact ⟨h, nochild⟩
  | accessList is => simp only [specStep]; split <;> exact ⟨h, nochild⟩
  | accessLoc l c => simp only [specStep]; split <;> exact ⟨h, nochild⟩
  | column c => simp only [specStep]; split <;> exact ⟨h, nochild⟩
  | queryIdx c v => simp only [specStep]; split <;> exact ⟨h, nochild⟩
  | searchBlock id => simp only [specStep]; split <;> exact ⟨h, nochild⟩
  | boundary ids => simp only [specStep]; split <;> exact ⟨h, nochild⟩
  | queryFirst c v =>
    simp only [specStep]
    split
    · exact ⟨h, nochild⟩
    · exact ⟨h, nochild⟩
    · split <;> exact ⟨h, nochild⟩
  | queryTable c v =>
    simp only [specStep]
    split
    · exact ⟨h, nochild⟩
    · exact ⟨h, nochild⟩
    · rename_i l _ _
      cases ht : f.ilocTake l with
      | none => exact ⟨h, nochild⟩
      | some g => exact ⟨h, thechild (wf_ilocTake h ht)⟩
  | readBlock id r =>
    simp only [specStep]
    split
    · exact ⟨h, nochild⟩
    · exact ⟨h, nochild⟩
    · exact ⟨h, thechild (wf_resetIf (wf_ilocSlice h _ _) r)⟩
    · exact ⟨h, nochild⟩
  | readBlockWith id r =>
    simp only [specStep]
    split
    · exact ⟨h, nochild⟩
    · exact ⟨h, nochild⟩
    · exact ⟨h, thechild (wf_resetIf (wf_ilocSlice h _ _) r)⟩
    · exact ⟨h, nochild⟩
  | slowQueryEq c v oc r =>
    simp only [specStep]
    cases f.column c with
    | none => exact ⟨h, nochild⟩
    | some cs =>
      cases oc with
      | some o => simp only; split <;> exact ⟨h, nochild⟩
      | none => exact ⟨h, thechild (wf_resetIf (wf_maskTake h _) r)⟩
  | slowQueryIsin c vs r =>
    simp only [specStep]
    cases f.column c with
    | none => exact ⟨h, nochild⟩
    | some cs => exact ⟨h, thechild (wf_resetIf (wf_maskTake h _) r)⟩
  | slowQueryLabels ls r =>
    simp only [specStep]
    split
    · exact ⟨h, nochild⟩
    · cases ht : f.locTake ls with
      | none => exact ⟨h, nochild⟩
      | some g => exact ⟨h, thechild (wf_resetIf (wf_locTake h ht) r)⟩
  | slice a b => exact ⟨h, thechild (wf_ilocSlice h a b)⟩
  | clone => exact ⟨h, thechild h⟩
  | modifyRow i r s =>
    simp only [specStep]
    have := wf_setIloc h i r s
    rcases hs : f.setIloc i r s with ⟨f', _ | e⟩ <;> (rw [hs] at this; exact ⟨this, nochild⟩)
  | modifyColumn c v =>
    simp only [specStep, mutated]
    cases hs : f.setCol c (List.replicate f.nrows v) with
    | ok g => exact ⟨wf_setCol h hs, nochild⟩
    | error e => exact ⟨h, nochild⟩
  | modifyColumnList c vs =>
    simp only [specStep, mutated]
    cases hs : f.setCol c vs with
    | ok g => exact ⟨wf_setCol h hs, nochild⟩
    | error e => exact ⟨h, nochild⟩
  | modifyElement l c v r =>
    simp only [specStep]
    have := wf_setLoc h l c v r
    rcases hs : f.setLoc l c v r with ⟨f', _ | e⟩ <;> (rw [hs] at this; exact ⟨this, nochild⟩)
  | renameColumn o n =>
    simp only [specStep]
    split
    · exact ⟨h, nochild⟩
    · exact ⟨wf_renameCol h o n, nochild⟩
  | append g =>
    simp only [specStep]
    split
    · exact ⟨h, nochild⟩
    · exact ⟨wf_concat h, nochild⟩
  | removeRows c v =>
    simp only [specStep]
    cases hs : f.filterNe c v with
    | some g => exact ⟨wf_filterNe h hs, nochild⟩
    | none => exact ⟨h, nochild⟩
  | resetIndex m =>
    simp only [specStep]
    cases m with
    | false => exact ⟨wf_resetIndex h, nochild⟩
    | true =>
      simp only [if_true, mutated]
      cases hs : f.resetIndexMove with
      | ok g => exact ⟨wf_resetIndexMove h hs, nochild⟩
      | error e => exact ⟨h, nochild⟩
  | fillna v => exact ⟨wf_fillna h v, nochild⟩
  | setColumns ns =>
    simp only [specStep]
    split
    · exact ⟨h, nochild⟩
    · simp only [mutated]
      cases hs : f.setColumns ns with
      | ok g => exact ⟨wf_setColumns h hs, nochild⟩
      | error e => exact ⟨h, nochild⟩
  | saveLoad ok =>
    simp only [specStep]
    cases ok with
    | true => exact ⟨wf_resetIndex h, thechild (wf_resetIndex h)⟩
    | false => exact ⟨wf_resetIndex h, nochild⟩

def SWorld.WF (w : SWorld) : Prop := w.cur.WF ∧ ∀ o, w.other = some o → o.WF

theorem specStepW_wf {w : SWorld} (h : w.WF) (op : WOp) : (specStepW w op).1.WF := by
  obtain ⟨hc, ho⟩ := h
  cases op with
  | on op enter =>
    obtain ⟨h1, h2⟩ := specStep_wf hc op
    simp only [specStepW]
    rcases hs : specStep w.cur op with ⟨f', out, child⟩
    rw [hs] at h1 h2
    cases child with
    | none => exact ⟨h1, ho⟩
    | some c =>
      cases enter with
      | true => exact ⟨h2 c rfl, by intro o hoo; cases hoo; exact h1⟩
      | false => exact ⟨h1, ho⟩
  | swap =>
    simp only [specStepW]
    cases hw : w.other with
    | none => exact ⟨hc, by simp [hw]⟩
    | some o => exact ⟨ho o hw, by intro x hx; cases hx; exact hc⟩
  | appendOther =>
    simp only [specStepW]
    cases hw : w.other with
    | none => exact ⟨hc, by simp [hw]⟩
    | some o =>
      obtain ⟨h1, _⟩ := specStep_wf hc (.append o)
      refine ⟨by simpa using h1, ?_⟩
      intro x hx
      exact ho x (by simpa [hw] using hx)

theorem specRun_wf (ops : List WOp) :
    ∀ w : SWorld, w.WF → (specRun w ops).1.WF ∧ ∀ o ∈ (specRun w ops).2, o.2.WF := by
  induction ops with
  | nil => intro w h; exact ⟨h, by simp [specRun]⟩
  | cons op ops ih =>
    intro w h
    have h1 := specStepW_wf h op
    obtain ⟨i1, i2⟩ := ih _ h1
    simp only [specRun]
    refine ⟨i1, ?_⟩
    intro o ho
    rcases List.mem_cons.1 ho with rfl | ho
    · exact h1.1
    · exact i2 o ho

/-- the constructor's data is rectangular -/
def CtorWF : Ctor → Prop
  | .rows cs rs _ => ∀ r ∈ rs, r.length = cs.length
  | .dicts _ => True
  | .frame f _ => f.WF
  | .load f => f.WF

theorem specInit_wf {c : Ctor} (h : CtorWF c) : (specInit c).WF := by
  cases c with
  | rows cs rs reset =>
    refine ⟨?_, by simp [specInit]⟩
    simp only [specInit]
    cases reset
    · exact wf_ofRows h
    · exact wf_resetIndex (wf_ofRows h)
  | dicts ds => exact ⟨wf_ofDicts ds, by simp [specInit]⟩
  | frame f reset =>
    refine ⟨?_, by simp [specInit]⟩
    simp only [specInit]
    cases reset
    · exact h
    · exact wf_resetIndex h
  | load f => exact ⟨h, by simp [specInit]⟩

end LianVerif.Scan
