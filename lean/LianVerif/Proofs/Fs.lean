/-
Lemmas about the abstract file system (Spec/Fs.lean): lookup after physical mutations, and the
three facts about the kernel path walk that the C18 proofs rest on:

* `resolveDir_ext`     — a successful walk only depends on the directories and links it met
                          (so it is unchanged when other parts of the file system change);
* `resolveDir_inside`  — below a directory `W` that contains no symbolic links, a walk whose
                          components never climb above `W` stays below `W`;
* `resolveDir_append`  — walking `a ++ b` is walking `a`, then `b`.
-/
import LianVerif.Spec.Fs

namespace LianVerif.Fs

/-! ### prefixes -/

/-- `p` lies strictly below `w` -/
def Below (w p : Path) : Prop := w <+: p ∧ p ≠ w

theorem below_append_singleton {w p : Path} (h : w <+: p) (c : String) : Below w (p ++ [c]) := by
  refine ⟨h.trans (List.prefix_append _ _), ?_⟩
  intro e
  have h1 := h.length_le
  have h2 : (p ++ [c]).length = w.length := by rw [e]
  simp at h2; omega

theorem Below.prefix {w p : Path} (h : Below w p) : w <+: p := h.1

theorem Below.length_lt {w p : Path} (h : Below w p) : w.length < p.length := by
  obtain ⟨h1, h2⟩ := h
  have := h1.length_le
  rcases Nat.lt_or_ge w.length p.length with hl | hl
  · exact hl
  · exact absurd (h1.eq_of_length (by omega)).symm h2

theorem not_below_self (w : Path) : ¬ Below w w := fun h => h.2 rfl

theorem prefix_dropLast_of_below {w p : Path} (h : Below w p) : w <+: p.dropLast := by
  obtain ⟨r, rfl⟩ := h.1
  have hr : r ≠ [] := by
    intro e; subst e; exact h.2 (by simp)
  rw [List.dropLast_append_of_ne_nil hr]
  exact List.prefix_append _ _

/-! ### lookup -/

theorem lookup_nil (fs : FS) : lookup fs [] = some .dir := rfl

theorem lookup_cons (fs : FS) (c : String) (p : Path) :
    lookup fs (c :: p) = (fs.find? (fun e => e.1 == c :: p)).map (·.2) := rfl

theorem lookup_of_ne_nil (fs : FS) {p : Path} (h : p ≠ []) :
    lookup fs p = (fs.find? (fun e => e.1 == p)).map (·.2) := by
  cases p with
  | nil => exact absurd rfl h
  | cons c p => rfl

/-- filtering by a predicate on paths -/
theorem lookup_filter (fs : FS) (P : Path → Bool) {q : Path} (hq : q ≠ []) :
    lookup (fs.filter (fun e => P e.1)) q = if P q then lookup fs q else none := by
  rw [lookup_of_ne_nil _ hq, lookup_of_ne_nil _ hq]
  induction fs with
  | nil => simp
  | cons e fs ih =>
    by_cases hP : P e.1 = true
    · have hf : (e :: fs).filter (fun e => P e.1) = e :: fs.filter (fun e => P e.1) := by
        simp [List.filter_cons, hP]
      rw [hf]
      by_cases he : e.1 = q
      · subst he; simp [hP]
      · have : (e.1 == q) = false := by simpa using he
        simp only [List.find?_cons, this]
        exact ih
    · have hP' : P e.1 = false := by simpa using hP
      have hf : (e :: fs).filter (fun e => P e.1) = fs.filter (fun e => P e.1) := by
        simp [List.filter_cons, hP']
      rw [hf]
      by_cases he : e.1 = q
      · subst he
        rw [ih]; simp [hP']
      · have : (e.1 == q) = false := by simpa using he
        simp only [List.find?_cons, this]
        exact ih

theorem lookup_remove (fs : FS) (p : Path) {q : Path} (hq : q ≠ []) :
    lookup (remove fs p) q = if q = p then none else lookup fs q := by
  have := lookup_filter fs (fun x => !(x == p)) hq
  unfold remove
  rw [this]
  by_cases h : q = p <;> simp [h]

theorem lookup_append_single (fs : FS) (p : Path) (n : Node) {q : Path} (hq : q ≠ []) :
    lookup (fs ++ [(p, n)]) q =
      match lookup fs q with
      | some x => some x
      | none => if p = q then some n else none := by
  rw [lookup_of_ne_nil _ hq, lookup_of_ne_nil _ hq, List.find?_append]
  cases h : fs.find? (fun e => e.1 == q) with
  | some x => simp
  | none =>
    by_cases hp : p = q
    · subst hp; simp
    · have : (p == q) = false := by simpa using hp
      simp [this, hp]

theorem lookup_setNode (fs : FS) (p : Path) (n : Node) {q : Path} (hq : q ≠ []) :
    lookup (setNode fs p n) q = if q = p then some n else lookup fs q := by
  unfold setNode
  rw [lookup_append_single _ _ _ hq, lookup_remove _ _ hq]
  by_cases h : q = p
  · subst h; simp
  · have h' : ¬ p = q := fun e => h e.symm
    simp only [h, if_false, h']
    cases lookup fs q <;> rfl

theorem lookup_setNode_self (fs : FS) {p : Path} (n : Node) (hp : p ≠ []) :
    lookup (setNode fs p n) p = some n := by
  rw [lookup_setNode _ _ _ hp]; simp

theorem lookup_setNode_ne (fs : FS) (p : Path) (n : Node) {q : Path} (h : q ≠ p) :
    lookup (setNode fs p n) q = lookup fs q := by
  by_cases hq : q = []
  · subst hq; rfl
  · rw [lookup_setNode _ _ _ hq]; simp [h]

theorem lookup_remove_ne (fs : FS) (p : Path) {q : Path} (h : q ≠ p) :
    lookup (remove fs p) q = lookup fs q := by
  by_cases hq : q = []
  · subst hq; rfl
  · rw [lookup_remove _ _ hq]; simp [h]


/-! ### the kernel walk -/

theorem foldl_stepDir_error (fs : FS) (rec : Path → List String → Except Err Path) (e : Err)
    (comps : List String) : comps.foldl (stepDir fs rec) (.error e) = .error e := by
  induction comps with
  | nil => rfl
  | cons c r ih => simpa [List.foldl_cons, stepDir] using ih

theorem resolveDir_succ (fs : FS) (f : Nat) (cur : Path) (comps : List String) :
    resolveDir fs (f + 1) cur comps = comps.foldl (stepDir fs (resolveDir fs f)) (.ok cur) := rfl

theorem resolveDir_nil (fs : FS) (f : Nat) (cur : Path) : resolveDir fs (f + 1) cur [] = .ok cur := rfl

theorem resolveDir_cons (fs : FS) (f : Nat) (cur : Path) (c : String) (r : List String) :
    resolveDir fs (f + 1) cur (c :: r) =
      match stepDir fs (resolveDir fs f) (.ok cur) c with
      | .ok q => resolveDir fs (f + 1) q r
      | .error e => .error e := by
  rw [resolveDir_succ, List.foldl_cons]
  cases h : stepDir fs (resolveDir fs f) (.ok cur) c with
  | ok q => rfl
  | error e => exact foldl_stepDir_error _ _ _ _

theorem resolveDir_append (fs : FS) (f : Nat) (cur : Path) (a b : List String) :
    resolveDir fs (f + 1) cur (a ++ b) =
      match resolveDir fs (f + 1) cur a with
      | .ok q => resolveDir fs (f + 1) q b
      | .error e => .error e := by
  induction a generalizing cur with
  | nil => rfl
  | cons c r ih =>
    rw [List.cons_append, resolveDir_cons, resolveDir_cons]
    cases h : stepDir fs (resolveDir fs f) (.ok cur) c with
    | ok q => exact ih q
    | error e => rfl

/-- `fs'` keeps every directory and every symbolic link of `fs` -/
def Ext (fs fs' : FS) : Prop :=
  ∀ p, (lookup fs p = some .dir → lookup fs' p = some .dir) ∧
       (∀ t, lookup fs p = some (.link t) → lookup fs' p = some (.link t))

theorem Ext.refl (fs : FS) : Ext fs fs := fun _ => ⟨id, fun _ => id⟩

theorem Ext.trans {a b c : FS} (h1 : Ext a b) (h2 : Ext b c) : Ext a c :=
  fun p => ⟨fun h => (h2 p).1 ((h1 p).1 h), fun t h => (h2 p).2 t ((h1 p).2 t h)⟩

/-- a successful walk met only directories and links: it is the same walk in any `fs'` keeping them -/
theorem resolveDir_ext {fs fs' : FS} (h : Ext fs fs') :
    ∀ (fuel : Nat) (cur : Path) (comps : List String) (q : Path),
      resolveDir fs fuel cur comps = .ok q → resolveDir fs' fuel cur comps = .ok q := by
  intro fuel
  induction fuel with
  | zero => intro cur comps q hq; simp [resolveDir] at hq
  | succ f ihf =>
    intro cur comps
    induction comps generalizing cur with
    | nil => intro q hq; simpa [resolveDir_nil] using hq
    | cons c r ihc =>
      intro q hq
      rw [resolveDir_cons] at hq ⊢
      have key : ∀ q1, stepDir fs (resolveDir fs f) (.ok cur) c = .ok q1 →
          stepDir fs' (resolveDir fs' f) (.ok cur) c = .ok q1 := by
        intro q1 h1
        simp only [stepDir] at h1 ⊢
        by_cases ht : trivialComp c = true
        · simpa [ht] using h1
        · simp only [ht, if_false, Bool.false_eq_true] at h1 ⊢
          by_cases hd : (c == "..") = true
          · simpa [hd] using h1
          · simp only [hd, if_false, Bool.false_eq_true] at h1 ⊢
            cases hl : lookup fs (cur ++ [c]) with
            | none => rw [hl] at h1; simp at h1
            | some n =>
              rw [hl] at h1
              cases n with
              | file x => simp at h1
              | dir => rw [(h _).1 hl]; simpa using h1
              | link t =>
                rw [(h _).2 t hl]
                simp only at h1 ⊢
                exact ihf _ _ _ h1
      cases h1 : stepDir fs (resolveDir fs f) (.ok cur) c with
      | error e => rw [h1] at hq; simp at hq
      | ok q1 =>
        rw [h1] at hq
        rw [key q1 h1]
        exact ihc q1 q hq

/-- the components never climb above the directory the walk is `d` levels below -/
def safeComps : Nat → List String → Bool
  | _, [] => true
  | d, c :: r =>
    if trivialComp c then safeComps d r
    else if c == ".." then (d != 0 && safeComps (d - 1) r)
    else safeComps (d + 1) r

def LinkFreeBelow (W : Path) (fs : FS) : Prop :=
  ∀ p t, Below W p → lookup fs p ≠ some (.link t)

/-- below a link-free `W`, a walk that never climbs above `W` ends below-or-at `W` -/
theorem resolveDir_inside {W : Path} {fs : FS} (hlf : LinkFreeBelow W fs) (f : Nat) :
    ∀ (comps : List String) (cur : Path) (d : Nat) (q : Path),
      W <+: cur → cur.length = W.length + d → safeComps d comps = true →
      resolveDir fs (f + 1) cur comps = .ok q → W <+: q := by
  intro comps
  induction comps with
  | nil => intro cur d q hw _ _ hq; simp [resolveDir_nil] at hq; subst hq; exact hw
  | cons c r ih =>
    intro cur d q hw hlen hs hq
    rw [resolveDir_cons] at hq
    simp only [stepDir] at hq
    simp only [safeComps] at hs
    by_cases ht : trivialComp c = true
    · simp only [ht, if_true] at hq hs
      exact ih cur d q hw hlen hs hq
    · simp only [ht, if_false, Bool.false_eq_true] at hq hs
      by_cases hd : (c == "..") = true
      · simp only [hd, if_true, Bool.and_eq_true, bne_iff_ne, ne_eq] at hq hs
        have hb : Below W cur := ⟨hw, fun e => hs.1 (by rw [e] at hlen; omega)⟩
        refine ih cur.dropLast (d - 1) q (prefix_dropLast_of_below hb) ?_ hs.2 hq
        rw [List.length_dropLast]; omega
      · simp only [hd, if_false, Bool.false_eq_true] at hq hs
        have hb : Below W (cur ++ [c]) := below_append_singleton hw c
        cases hl : lookup fs (cur ++ [c]) with
        | none => rw [hl] at hq; simp at hq
        | some n =>
          rw [hl] at hq
          cases n with
          | file x => simp at hq
          | link t => exact absurd hl (hlf _ t hb)
          | dir =>
            simp only at hq
            refine ih (cur ++ [c]) (d + 1) q hb.1 ?_ hs hq
            simp; omega


/-! ### physical directories -/

/-- `d` is the physical path of a directory: plain components, every prefix a directory -/
def PhysDir (fs : FS) (d : Path) : Prop :=
  (∀ c ∈ d, plain c = true) ∧ ∀ k, k < d.length → lookup fs (d.take (k + 1)) = some .dir

theorem physDir_nil (fs : FS) : PhysDir fs [] := ⟨by simp, by simp⟩

theorem physDir_snoc {fs : FS} {d : Path} {c : String} (h : PhysDir fs d) (hc : plain c = true)
    (hl : lookup fs (d ++ [c]) = some .dir) : PhysDir fs (d ++ [c]) := by
  refine ⟨?_, ?_⟩
  · intro x hx
    rcases List.mem_append.1 hx with hx | hx
    · exact h.1 x hx
    · simp at hx; subst hx; exact hc
  · intro k hk
    simp only [List.length_append, List.length_singleton] at hk
    by_cases hk' : k < d.length
    · rw [List.take_append_of_le_length (by omega)]; exact h.2 k hk'
    · have : k = d.length := by omega
      subst this
      rw [List.take_of_length_le (by simp)]; exact hl

theorem physDir_dropLast {fs : FS} {d : Path} (h : PhysDir fs d) : PhysDir fs d.dropLast := by
  refine ⟨fun c hc => h.1 c (List.dropLast_subset d hc), ?_⟩
  intro k hk
  rw [List.length_dropLast] at hk
  have : d.dropLast.take (k + 1) = d.take (k + 1) := by
    rw [List.dropLast_eq_take, List.take_take]; congr 1; omega
  rw [this]; exact h.2 k (by omega)

theorem physDir_lookup {fs : FS} {d : Path} (h : PhysDir fs d) : lookup fs d = some .dir := by
  cases hd : d.length with
  | zero =>
    have : d = [] := List.eq_nil_of_length_eq_zero hd
    subst this; rfl
  | succ n =>
    have := h.2 n (by omega)
    rwa [List.take_of_length_le (by omega)] at this

theorem PhysDir.ext {fs fs' : FS} {d : Path} (h : PhysDir fs d) (hx : Ext fs fs') : PhysDir fs' d :=
  ⟨h.1, fun k hk => (hx _).1 (h.2 k hk)⟩

theorem plain_not_trivial {c : String} (h : plain c = true) : trivialComp c = false := by
  simp only [plain, Bool.and_eq_true, Bool.not_eq_true'] at h; exact h.1

theorem plain_not_dotdot {c : String} (h : plain c = true) : (c == "..") = false := by
  simp only [plain, Bool.and_eq_true, Bool.not_eq_true'] at h; exact h.2

theorem plain_of {c : String} (h1 : ¬ trivialComp c = true) (h2 : ¬ (c == "..") = true) : plain c = true := by
  simp only [plain, Bool.and_eq_true, Bool.not_eq_true']
  exact ⟨by simpa using h1, by simpa using h2⟩

/-- one step of the walk over a plain name that is a directory -/
theorem stepDir_plain_dir {fs : FS} {rec : Path → List String → Except Err Path} {cur : Path} {c : String}
    (hc : plain c = true) (hl : lookup fs (cur ++ [c]) = some .dir) :
    stepDir fs rec (.ok cur) c = .ok (cur ++ [c]) := by
  simp [stepDir, plain_not_trivial hc, plain_not_dotdot hc, hl]

/-- the components of a physical directory, walked from its prefix, lead to it -/
theorem physDir_resolves_from {fs : FS} (f : Nat) : ∀ (r pre : Path), PhysDir fs (pre ++ r) →
    resolveDir fs (f + 1) pre r = .ok (pre ++ r) := by
  intro r
  induction r with
  | nil => intro pre _; simp [resolveDir_nil]
  | cons c r ih =>
    intro pre h
    rw [resolveDir_cons]
    have hc : plain c = true := h.1 c (by simp)
    have hl : lookup fs (pre ++ [c]) = some .dir := by
      have := h.2 pre.length (by simp)
      rwa [show (pre ++ c :: r).take (pre.length + 1) = pre ++ [c] by
        rw [List.take_append, List.take_of_length_le (by omega)]; simp] at this
    rw [stepDir_plain_dir hc hl]
    have := ih (pre ++ [c]) (by simpa using h)
    simpa using this

theorem physDir_resolves {fs : FS} (f : Nat) {d : Path} (h : PhysDir fs d) :
    resolveDir fs (f + 1) [] d = .ok d := by
  simpa using physDir_resolves_from f d [] (by simpa using h)

/-- the walk leads from physical directories to physical directories -/
theorem resolveDir_phys {fs : FS} : ∀ (fuel : Nat) (comps : List String) (cur q : Path),
    PhysDir fs cur → resolveDir fs fuel cur comps = .ok q → PhysDir fs q := by
  intro fuel
  induction fuel with
  | zero => intro comps cur q _ h; simp [resolveDir] at h
  | succ f ihf =>
    intro comps
    induction comps with
    | nil => intro cur q hc h; simp [resolveDir_nil] at h; subst h; exact hc
    | cons c r ihc =>
      intro cur q hcur h
      rw [resolveDir_cons] at h
      simp only [stepDir] at h
      by_cases ht : trivialComp c = true
      · simp only [ht, if_true] at h; exact ihc cur q hcur h
      · simp only [ht, if_false, Bool.false_eq_true] at h
        by_cases hd : (c == "..") = true
        · simp only [hd, if_true] at h; exact ihc _ q (physDir_dropLast hcur) h
        · simp only [hd, if_false, Bool.false_eq_true] at h
          cases hl : lookup fs (cur ++ [c]) with
          | none => rw [hl] at h; simp at h
          | some n =>
            rw [hl] at h
            cases n with
            | file x => simp at h
            | dir => exact ihc _ q (physDir_snoc hcur (plain_of ht hd) hl) h
            | link t =>
              simp only at h
              cases hr : resolveDir fs f (if t.abs = true then [] else cur) t.comps with
              | error e => rw [hr] at h; simp at h
              | ok q1 =>
                rw [hr] at h
                have hq1 : PhysDir fs q1 := by
                  refine ihf _ _ _ ?_ hr
                  split
                  · exact physDir_nil fs
                  · exact hcur
                exact ihc _ q hq1 h

/-! ### the last component -/

/-- the last component is a plain name and either the caller does not follow links or there is no
link there: the result is that name in the directory the rest of the path leads to -/
theorem resolve_snoc {fs : FS} {f : Nat} {follow : Bool} {cur d : Path} {pre : List String} {c : String}
    (hc : plain c = true) (hd : resolveDir fs (f + 1) cur pre = .ok d)
    (hl : follow = false ∨ ∀ t, lookup fs (d ++ [c]) ≠ some (.link t)) :
    resolve fs (f + 1) follow cur (pre ++ [c]) = .ok (d ++ [c], lookup fs (d ++ [c])) := by
  simp only [resolve, List.getLast?_concat, List.dropLast_concat, hd, plain_not_trivial hc,
    plain_not_dotdot hc, Bool.false_eq_true, if_false]
  cases hn : lookup fs (d ++ [c]) with
  | none => rfl
  | some n =>
    cases n with
    | file x => rfl
    | dir => rfl
    | link t =>
      rcases hl with hl | hl
      · subst hl; simp
      · exact absurd hn (hl t)

theorem resolve_snoc_trivial {fs : FS} {f : Nat} {follow : Bool} {cur d : Path} {pre : List String} {c : String}
    (hc : trivialComp c = true) (hd : resolveDir fs (f + 1) cur pre = .ok d) :
    resolve fs (f + 1) follow cur (pre ++ [c]) = .ok (d, some .dir) := by
  simp only [resolve, List.getLast?_concat, List.dropLast_concat, hd, hc, if_true]

theorem resolve_snoc_dotdot {fs : FS} {f : Nat} {follow : Bool} {cur d : Path} {pre : List String}
    (hd : resolveDir fs (f + 1) cur pre = .ok d) :
    resolve fs (f + 1) follow cur (pre ++ [".."]) = .ok (d.dropLast, some .dir) := by
  simp [resolve, hd, trivialComp]

theorem resolve_nil (fs : FS) (f : Nat) (follow : Bool) (cur : Path) :
    resolve fs (f + 1) follow cur [] = .ok (cur, some .dir) := by
  simp [resolve]

theorem resolve_error_of_resolveDir {fs : FS} {f : Nat} {follow : Bool} {cur : Path} {pre : List String}
    {c : String} {e : Err} (hd : resolveDir fs (f + 1) cur pre = .error e) :
    resolve fs (f + 1) follow cur (pre ++ [c]) = .error e := by
  simp only [resolve, List.getLast?_concat, List.dropLast_concat, hd]


/-! ### directory listings -/

theorem mem_insertName {n x : String} {l : List String} : x ∈ insertName n l ↔ x = n ∨ x ∈ l := by
  induction l with
  | nil => simp [insertName]
  | cons m r ih =>
    simp only [insertName]
    by_cases h1 : (n == m) = true
    · have : n = m := by simpa using h1
      subst this; simp
    · simp only [h1, if_false, Bool.false_eq_true]
      by_cases h2 : n < m
      · simp [h2]
      · simp only [h2, if_false, List.mem_cons, ih]
        constructor
        · rintro (h | h | h)
          · exact Or.inr (Or.inl h)
          · exact Or.inl h
          · exact Or.inr (Or.inr h)
        · rintro (h | h | h)
          · exact Or.inr (Or.inl h)
          · exact Or.inl h
          · exact Or.inr (Or.inr h)

/-- the membership condition of `childNames` -/
def isChildEntry (p : Path) (e : Path × Node) : Bool := p.isPrefixOf e.1 && e.1.length == p.length + 1

theorem child_entry_eq {p q : Path} (h1 : p <+: q) (h2 : q.length = p.length + 1) :
    ∃ n, q = p ++ [n] ∧ q.getLast? = some n := by
  obtain ⟨r, rfl⟩ := h1
  simp at h2
  match r, h2 with
  | [n], _ => exact ⟨n, rfl, by simp⟩

theorem mem_childNames_aux (p : Path) : ∀ (fs : FS) (acc : List String) (x : String),
    x ∈ fs.foldl (fun acc e =>
      if p.isPrefixOf e.1 && e.1.length == p.length + 1 then
        match e.1.getLast? with
        | some n => insertName n acc
        | none => acc
      else acc) acc ↔ (x ∈ acc ∨ ∃ e ∈ fs, e.1 = p ++ [x]) := by
  intro fs
  induction fs with
  | nil => intro acc x; simp
  | cons e fs ih =>
    intro acc x
    rw [List.foldl_cons, ih]
    by_cases hc : (p.isPrefixOf e.1 && e.1.length == p.length + 1) = true
    · simp only [hc, if_true]
      simp only [Bool.and_eq_true, List.isPrefixOf_iff_prefix, beq_iff_eq] at hc
      obtain ⟨n, hn, hlast⟩ := child_entry_eq hc.1 hc.2
      rw [hlast]
      simp only [mem_insertName, List.mem_cons, exists_eq_or_imp]
      constructor
      · rintro ((h | h) | h)
        · subst h; exact Or.inr (Or.inl hn)
        · exact Or.inl h
        · exact Or.inr (Or.inr h)
      · rintro (h | h | h)
        · exact Or.inl (Or.inr h)
        · left; left
          rw [hn] at h
          have := List.append_cancel_left h
          simpa using this.symm
        · exact Or.inr h
    · simp only [hc, if_false, Bool.false_eq_true, List.mem_cons, exists_eq_or_imp]
      constructor
      · rintro (h | h)
        · exact Or.inl h
        · exact Or.inr (Or.inr h)
      · rintro (h | h | h)
        · exact Or.inl h
        · exfalso; apply hc
          simp only [Bool.and_eq_true, List.isPrefixOf_iff_prefix, beq_iff_eq]
          rw [h]; exact ⟨List.prefix_append _ _, by simp⟩
        · exact Or.inr h

/-- `n` is listed in `p` iff some entry has the path `p ++ [n]` -/
theorem mem_childNames {fs : FS} {p : Path} {x : String} :
    x ∈ childNames fs p ↔ ∃ e ∈ fs, e.1 = p ++ [x] := by
  exact (mem_childNames_aux p fs [] x).trans (by simp)


/-! ### trailing slash, start of a walk -/

theorem dropTrailingEmpty_snoc_empty (l : List String) : dropTrailingEmpty (l ++ [""]) = l := by
  unfold dropTrailingEmpty; simp

theorem dropTrailingEmpty_snoc_ne (l : List String) {a : String} (ha : a ≠ "") :
    dropTrailingEmpty (l ++ [a]) = l ++ [a] := by
  unfold dropTrailingEmpty
  simp only [List.getLast?_append, List.getLast?_singleton, Option.some_or]
  split
  · rename_i heq; simp at heq; exact absurd heq ha
  · rfl

theorem dropTrailingEmpty_cases (l : List String) :
    dropTrailingEmpty l = l ∨ l = dropTrailingEmpty l ++ [""] := by
  rcases List.eq_nil_or_concat l with h | ⟨l', a, h⟩
  · subst h; left; rfl
  · rw [List.concat_eq_append] at h
    subst h
    by_cases ha : a = ""
    · subst ha; right; rw [dropTrailingEmpty_snoc_empty]
    · left; exact dropTrailingEmpty_snoc_ne l' ha

theorem resolveDir_dropTrailingEmpty (fs : FS) (f : Nat) (cur : Path) (l : List String) :
    resolveDir fs (f + 1) cur (dropTrailingEmpty l) = resolveDir fs (f + 1) cur l := by
  rcases dropTrailingEmpty_cases l with h | h
  · rw [h]
  · conv => rhs; rw [h]
    rw [resolveDir_append]
    cases resolveDir fs (f + 1) cur (dropTrailingEmpty l) with
    | error e => rfl
    | ok q => simp [resolveDir_cons, stepDir, trivialComp, resolveDir_nil]

theorem startOf_ok {fs : FS} {cwd : Path} {p : RPath} {st : Path} (h : startOf fs cwd p = .ok st) :
    st = if p.abs then [] else cwd := by
  unfold startOf at h
  by_cases ha : p.abs = true
  · simp [ha] at h ⊢; exact h
  · simp only [ha, if_false, Bool.false_eq_true] at h ⊢
    split at h <;> simp at h
    exact h.symm

theorem startOf_ext {fs fs' : FS} {cwd : Path} {p : RPath} {st : Path} (hx : Ext fs fs')
    (h : startOf fs cwd p = .ok st) : startOf fs' cwd p = .ok st := by
  unfold startOf at h ⊢
  by_cases ha : p.abs = true
  · simpa [ha] using h
  · simp only [ha, if_false, Bool.false_eq_true] at h ⊢
    split at h <;> simp at h
    rename_i hl
    rw [(hx cwd).1 hl]; simp [h]

theorem startOf_abs_eq {fs : FS} {cwd : Path} {p p' : RPath} (h : p'.abs = p.abs) :
    startOf fs cwd p' = startOf fs cwd p := by
  unfold startOf; rw [h]


/-! ### textual path functions -/

theorem normLex_append (acc : Path) (a b : List String) :
    normLex acc (a ++ b) = normLex (normLex acc a) b := by
  induction a generalizing acc with
  | nil => rfl
  | cons c r ih =>
    simp only [List.cons_append, normLex]
    split
    · exact ih acc
    · split
      · exact ih _
      · exact ih _

theorem normLex_plain (acc : Path) {n : String} (h : plain n = true) : normLex acc [n] = acc ++ [n] := by
  simp [normLex, plain_not_trivial h, plain_not_dotdot h]

theorem normLex_dropTrailingEmpty (acc : Path) (l : List String) :
    normLex acc (dropTrailingEmpty l) = normLex acc l := by
  rcases dropTrailingEmpty_cases l with h | h
  · rw [h]
  · conv => rhs; rw [h]
    rw [normLex_append]
    simp [normLex, trivialComp]

theorem abspath_joinName_plain (cwd : Path) (top : RPath) {n : String} (h : plain n = true) :
    abspath cwd (joinName top n) = abspath cwd top ++ [n] := by
  have : joinName top n = { abs := top.abs, comps := dropTrailingEmpty top.comps ++ [n] } := by
    simp [joinName, join]
  rw [this]
  unfold abspath
  simp only
  split <;> rw [normLex_append, normLex_dropTrailingEmpty, normLex_plain _ h]

theorem commonPrefixLen_append (s ns : List String) : commonPrefixLen s (s ++ ns) = s.length := by
  induction s with
  | nil => cases ns <;> rfl
  | cons a r ih => simp [commonPrefixLen, ih]

/-- `os.path.relpath(top, src)` when `top` is textually `src` followed by the names `ns` -/
theorem relpath_of_top {cwd : Path} {top src : RPath} {ns : List String}
    (h : abspath cwd top = abspath cwd src ++ ns) :
    relpath cwd top src = { abs := false, comps := if ns.isEmpty then ["."] else ns } := by
  unfold relpath
  simp only [h, commonPrefixLen_append, Nat.sub_self, List.replicate_zero, List.nil_append,
    List.drop_left]


/-- a walk that ends in a directory: `stat` (following links) reports that directory -/
theorem resolve_of_resolveDir {fs : FS} : ∀ (f : Nat) (cur : Path) (comps : List String) (q : Path),
    resolveDir fs f cur comps = .ok q → resolve fs f true cur comps = .ok (q, some .dir) := by
  intro f
  induction f with
  | zero => intro cur comps q h; simp [resolveDir] at h
  | succ f ih =>
    intro cur comps q h
    rcases List.eq_nil_or_concat comps with hc | ⟨pre, c, hc⟩
    · subst hc
      simp [resolveDir_nil] at h; subst h
      exact resolve_nil fs f true cur
    · rw [List.concat_eq_append] at hc
      subst hc
      rw [resolveDir_append] at h
      cases hd : resolveDir fs (f + 1) cur pre with
      | error e => rw [hd] at h; simp at h
      | ok d =>
        rw [hd] at h
        simp only at h
        rw [resolveDir_cons] at h
        simp only [stepDir] at h
        by_cases ht : trivialComp c = true
        · simp only [ht, if_true, resolveDir_nil] at h
          simp only [Except.ok.injEq] at h; subst h
          exact resolve_snoc_trivial ht hd
        · simp only [ht, if_false, Bool.false_eq_true] at h
          by_cases hdd : (c == "..") = true
          · simp only [hdd, if_true, resolveDir_nil, Except.ok.injEq] at h
            subst h
            have : c = ".." := by simpa using hdd
            subst this
            exact resolve_snoc_dotdot hd
          · simp only [hdd, if_false, Bool.false_eq_true] at h
            cases hl : lookup fs (d ++ [c]) with
            | none => rw [hl] at h; simp at h
            | some n =>
              rw [hl] at h
              cases n with
              | file x => simp at h
              | dir =>
                simp only [resolveDir_nil, Except.ok.injEq] at h
                subst h
                have := resolve_snoc (follow := true) (plain_of ht hdd) hd
                  (Or.inr (fun t => by rw [hl]; simp))
                rw [this, hl]
              | link t =>
                simp only at h
                cases hr : resolveDir fs f (if t.abs = true then [] else d) t.comps with
                | error e => rw [hr] at h; simp at h
                | ok q1 =>
                  rw [hr] at h
                  simp only [resolveDir_nil, Except.ok.injEq] at h
                  subst h
                  have := ih _ _ _ hr
                  simp only [resolve, List.getLast?_concat, List.dropLast_concat, hd, ht, hdd,
                    Bool.false_eq_true, if_false, hl, if_true]
                  exact this


theorem resolveDir_singleton (fs : FS) (f : Nat) (d : Path) (c : String) :
    resolveDir fs (f + 1) d [c] = stepDir fs (resolveDir fs f) (.ok d) c := by
  rw [resolveDir_succ]; rfl

/-- conversely: if `stat` (following links) reports a directory, the walk leads there -/
theorem resolveDir_of_resolve {fs : FS} : ∀ (f : Nat) (cur : Path) (comps : List String) (q : Path),
    resolve fs f true cur comps = .ok (q, some .dir) → resolveDir fs f cur comps = .ok q := by
  intro f
  induction f with
  | zero => intro cur comps q h; simp [resolve] at h
  | succ f ih =>
    intro cur comps q h
    rcases List.eq_nil_or_concat comps with hc | ⟨pre, c, hc⟩
    · subst hc
      rw [resolve_nil] at h
      simp only [Except.ok.injEq, Prod.mk.injEq] at h
      rw [resolveDir_nil, h.1]
    · rw [List.concat_eq_append] at hc
      subst hc
      rw [resolveDir_append]
      cases hd : resolveDir fs (f + 1) cur pre with
      | error e => rw [resolve_error_of_resolveDir hd] at h; simp at h
      | ok d =>
        simp only
        rw [resolveDir_singleton]
        simp only [stepDir]
        by_cases ht : trivialComp c = true
        · rw [resolve_snoc_trivial ht hd] at h
          simp only [Except.ok.injEq, Prod.mk.injEq] at h
          simp [ht, h.1]
        · by_cases hdd : (c == "..") = true
          · have : c = ".." := by simpa using hdd
            subst this
            rw [resolve_snoc_dotdot hd] at h
            simp only [Except.ok.injEq, Prod.mk.injEq] at h
            simp [trivialComp, h.1]
          · simp only [ht, hdd, if_false, Bool.false_eq_true]
            cases hl : lookup fs (d ++ [c]) with
            | none =>
              rw [resolve_snoc (plain_of ht hdd) hd (Or.inr (fun t => by rw [hl]; simp)), hl] at h
              simp at h
            | some n =>
              cases n with
              | file x =>
                rw [resolve_snoc (plain_of ht hdd) hd (Or.inr (fun t => by rw [hl]; simp)), hl] at h
                simp at h
              | dir =>
                rw [resolve_snoc (plain_of ht hdd) hd (Or.inr (fun t => by rw [hl]; simp)), hl] at h
                simp only [Except.ok.injEq, Prod.mk.injEq] at h
                simp [h.1]
              | link t =>
                simp only [resolve, List.getLast?_concat, List.dropLast_concat, hd, ht, hdd,
                  Bool.false_eq_true, if_false, hl, if_true] at h
                simp only
                rw [ih _ _ _ h]

theorem mem_length_le_maxDepth_aux : ∀ (fs : FS) (m : Nat) (e : Path × Node),
    (e ∈ fs → e.1.length ≤ fs.foldl (fun m e => max m e.1.length) m) ∧
    m ≤ fs.foldl (fun m e => max m e.1.length) m := by
  intro fs
  induction fs with
  | nil => intro m e; simp
  | cons a r ih =>
    intro m e
    rw [List.foldl_cons]
    have h1 := ih (max m a.1.length) e
    have h2 := ih (max m a.1.length) a
    refine ⟨?_, by have := h1.2; omega⟩
    intro he
    rcases List.mem_cons.1 he with he | he
    · subst he; have := h1.2; omega
    · exact h1.1 he

end LianVerif.Fs
