/-
Helper lemmas for C19 (PathTrie / PathManager).  The property theorems are in Properties/C19.lean.
-/
import LianVerif.Model.PathStore
import LianVerif.Spec.MaxPaths

namespace LianVerif.PathStore
open LianVerif.MaxPaths

variable {α : Type} [DecidableEq α]

/-- Representation invariant of the repaired trie: the nodes are exactly the non-empty prefixes of
the stored paths (no dead branches). -/
def Inv (s : Store α) : Prop :=
  ∀ n, n ∈ s.nodes ↔ (n ≠ [] ∧ ∃ t ∈ s.terms, n <+: t)

theorem strictPrefix_iff {q p : List α} :
    strictPrefix q p = true ↔ q <+: p ∧ q.length ≠ p.length := by
  simp [strictPrefix, List.isPrefixOf_iff_prefix]

theorem strictPrefix_iff' {q p : List α} :
    strictPrefix q p = true ↔ q <+: p ∧ q ≠ p := by
  rw [strictPrefix_iff]
  constructor
  · rintro ⟨h, hl⟩; exact ⟨h, fun e => hl (by rw [e])⟩
  · rintro ⟨h, hne⟩; exact ⟨h, fun hl => hne (h.eq_of_length hl)⟩

theorem strictPrefix_irrefl (p : List α) : strictPrefix p p = false := by
  simp [strictPrefix]

theorem strictPrefix_trans {a b c : List α} (h1 : strictPrefix a b = true) (h2 : b <+: c) :
    strictPrefix a c = true := by
  rw [strictPrefix_iff] at *
  refine ⟨h1.1.trans h2, ?_⟩
  have := h1.1.length_le; have := h2.length_le; omega

/-- a strict prefix extends by one element to a prefix. -/
theorem strictPrefix_child {p t : List α} (h : strictPrefix p t = true) :
    ∃ c, p <+: c ∧ c.length = p.length + 1 ∧ c <+: t := by
  rw [strictPrefix_iff] at h
  obtain ⟨⟨r, rfl⟩, hl⟩ := h
  cases r with
  | nil => simp at hl
  | cons e r =>
    refine ⟨p ++ [e], List.prefix_append _ _, by simp, ?_⟩
    exact ⟨r, by simp⟩

theorem hasChild_iff {s : Store α} (h : Inv s) (p : List α) :
    hasChild s.nodes p = true ↔ ∃ t ∈ s.terms, strictPrefix p t = true := by
  simp only [hasChild, List.any_eq_true, Bool.and_eq_true, List.isPrefixOf_iff_prefix, beq_iff_eq]
  constructor
  · rintro ⟨c, hc, hpc, hl⟩
    obtain ⟨_, t, ht, hct⟩ := (h c).1 hc
    refine ⟨t, ht, ?_⟩
    rw [strictPrefix_iff]
    refine ⟨hpc.trans hct, ?_⟩
    have := hct.length_le; omega
  · rintro ⟨t, ht, hpt⟩
    obtain ⟨c, hpc, hl, hct⟩ := strictPrefix_child hpt
    refine ⟨c, (h c).2 ⟨?_, t, ht, hct⟩, hpc, hl⟩
    intro e; subst e; simp at hl

theorem present_iff {s : Store α} (h : Inv s) (p : List α) :
    present s p = true ↔ (p = [] ∨ ∃ t ∈ s.terms, p <+: t) := by
  simp only [present, Bool.or_eq_true, List.isEmpty_iff, List.contains_iff_mem]
  constructor
  · rintro (h0 | h1)
    · exact Or.inl h0
    · exact Or.inr ((h p).1 h1).2
  · rintro (h0 | h1)
    · exact Or.inl h0
    · by_cases hp : p = []
      · exact Or.inl hp
      · exact Or.inr ((h p).2 ⟨hp, h1⟩)

/-- The refusal test of `add_path` says exactly: already stored, or a proper prefix of a stored path. -/
theorem reject_iff {s : Store α} (h : Inv s) (p : List α) :
    (present s p && (s.terms.contains p || hasChild s.nodes p)) = true ↔
      (p ∈ s.terms ∨ ∃ t ∈ s.terms, strictPrefix p t = true) := by
  rw [Bool.and_eq_true, Bool.or_eq_true, present_iff h, hasChild_iff h, List.contains_iff_mem]
  constructor
  · rintro ⟨_, h2⟩; exact h2
  · intro h2
    refine ⟨?_, h2⟩
    rcases h2 with h2 | ⟨t, ht, hpt⟩
    · exact Or.inr ⟨p, h2, List.prefix_refl p⟩
    · exact Or.inr ⟨t, ht, (strictPrefix_iff.1 hpt).1⟩

/-- loop invariant of the pruning walk: nodes are justified by a stored path or lie on the way to `q`. -/
def PruneInv (nodes terms : List (List α)) (q : List α) : Prop :=
  ∀ n, n ∈ nodes ↔ (n ≠ [] ∧ ((∃ t ∈ terms, n <+: t) ∨ n <+: q))

theorem prefix_dropLast_of_ne {n q : List α} (h : n <+: q) (hne : n ≠ q) : n <+: q.dropLast := by
  obtain ⟨r, rfl⟩ := h
  cases hr : r.reverse with
  | nil => simp at hr; subst hr; simp at hne
  | cons e r' =>
    have : r = r'.reverse ++ [e] := by
      have := congrArg List.reverse hr; simpa using this
    subst this
    rw [← List.append_assoc, List.dropLast_concat]
    exact List.prefix_append _ _

theorem prune_inv (terms : List (List α)) :
    ∀ (fuel : Nat) (nodes : List (List α)) (q : List α), q.length < fuel →
      PruneInv nodes terms q → Inv { nodes := prune terms fuel nodes q, terms := terms } := by
  intro fuel
  induction fuel with
  | zero => intro nodes q hf; omega
  | succ fuel ih =>
    intro nodes q hf hJ
    unfold prune
    by_cases hq : q = []
    · subst hq
      simp only [List.isEmpty_nil, if_true]
      intro n
      rw [hJ n]
      constructor
      · rintro ⟨hn, h | h⟩
        · exact ⟨hn, h⟩
        · exact absurd (List.prefix_nil.1 h) hn
      · rintro ⟨hn, h⟩; exact ⟨hn, Or.inl h⟩
    · have hqe : q.isEmpty = false := by simpa using hq
      simp only [hqe, Bool.false_eq_true, if_false]
      by_cases hstop : (hasChild nodes q || terms.contains q) = true
      · simp only [hstop, if_true]
        intro n
        rw [hJ n]
        constructor
        · rintro ⟨hn, h | h⟩
          · exact ⟨hn, h⟩
          · refine ⟨hn, ?_⟩
            rw [Bool.or_eq_true] at hstop
            rcases hstop with hc | ht
            · simp only [hasChild, List.any_eq_true, Bool.and_eq_true,
                List.isPrefixOf_iff_prefix, beq_iff_eq] at hc
              obtain ⟨c, hc, hqc, hl⟩ := hc
              obtain ⟨_, hc' | hc'⟩ := (hJ c).1 hc
              · obtain ⟨t, ht, hct⟩ := hc'
                exact ⟨t, ht, h.trans (hqc.trans hct)⟩
              · have := hc'.length_le; omega
            · exact ⟨q, List.contains_iff_mem.1 ht, h⟩
        · rintro ⟨hn, h⟩; exact ⟨hn, Or.inl h⟩
      · simp only [hstop, Bool.false_eq_true, if_false]
        apply ih
        · have : q.dropLast.length = q.length - 1 := List.length_dropLast
          have : 0 < q.length := List.length_pos_iff.2 hq
          omega
        · intro n
          simp only [List.mem_filter, bne_iff_ne, ne_eq]
          rw [hJ n]
          have hstop' : hasChild nodes q = false ∧ terms.contains q = false := by
            simpa [Bool.or_eq_false_iff] using hstop
          constructor
          · rintro ⟨⟨hn, h | h⟩, hnq⟩
            · exact ⟨hn, Or.inl h⟩
            · exact ⟨hn, Or.inr (prefix_dropLast_of_ne h hnq)⟩
          · rintro ⟨hn, h | h⟩
            · refine ⟨⟨hn, Or.inl h⟩, ?_⟩
              rintro rfl
              obtain ⟨t, ht, hnt⟩ := h
              have hne : n ≠ t := by
                rintro rfl
                have := hstop'.2
                simp [List.contains_iff_mem] at this
                exact this ht
              obtain ⟨c, hpc, hl, hct⟩ := strictPrefix_child (strictPrefix_iff'.2 ⟨hnt, hne⟩)
              have hcn : c ∈ nodes := (hJ c).2 ⟨by intro e; subst e; simp at hl, Or.inl ⟨t, ht, hct⟩⟩
              have : hasChild nodes n = true := by
                simp only [hasChild, List.any_eq_true, Bool.and_eq_true,
                  List.isPrefixOf_iff_prefix, beq_iff_eq]
                exact ⟨c, hcn, hpc, hl⟩
              rw [hstop'.1] at this; exact absurd this (by simp)
            · have h' : n <+: q := h.trans (List.dropLast_prefix q)
              refine ⟨⟨hn, Or.inr h'⟩, ?_⟩
              rintro rfl
              have := h.length_le
              have : n.dropLast.length = n.length - 1 := List.length_dropLast
              have : 0 < n.length := List.length_pos_iff.2 hq
              omega

theorem unmark_terms (s : Store α) (q : List α) :
    (unmark s q).terms = s.terms.filter (fun t => t != q) := by
  unfold unmark; split <;> rfl

theorem unmark_inv {s : Store α} (h : Inv s) (q : List α) : Inv (unmark s q) := by
  unfold unmark
  by_cases hp : present s q = true
  · simp only [hp, if_true]
    apply prune_inv _ _ _ _ (by omega)
    intro n
    rw [h n]
    simp only [List.mem_filter, bne_iff_ne, ne_eq]
    constructor
    · rintro ⟨hn, t, ht, hnt⟩
      refine ⟨hn, ?_⟩
      by_cases htq : t = q
      · subst htq; exact Or.inr hnt
      · exact Or.inl ⟨t, ⟨ht, htq⟩, hnt⟩
    · rintro ⟨hn, ⟨t, ⟨ht, _⟩, hnt⟩ | hnq⟩
      · exact ⟨hn, t, ht, hnt⟩
      · refine ⟨hn, ?_⟩
        rcases (present_iff h q).1 hp with rfl | ⟨t, ht, hqt⟩
        · exact absurd (List.prefix_nil.1 hnq) hn
        · exact ⟨t, ht, hnq.trans hqt⟩
  · simp only [hp, Bool.false_eq_true, if_false]
    -- `q` is not on the trie at all, so it is not stored and the filter removes nothing
    have hq : q ∉ s.terms := by
      intro hq
      apply hp
      exact (present_iff h q).2 (Or.inr ⟨q, hq, List.prefix_refl q⟩)
    have : s.terms.filter (fun t => t != q) = s.terms := by
      apply List.filter_eq_self.2
      intro t ht
      simp only [bne_iff_ne, ne_eq]
      rintro rfl; exact hq ht
    intro n
    simp only [this]
    exact h n

theorem foldl_unmark_inv (rm : List (List α)) :
    ∀ {s : Store α}, Inv s → Inv (rm.foldl unmark s) := by
  induction rm with
  | nil => intro s h; exact h
  | cons q rm ih => intro s h; exact ih (unmark_inv h q)

theorem foldl_unmark_terms (rm : List (List α)) :
    ∀ (s : Store α), (rm.foldl unmark s).terms = s.terms.filter (fun t => !rm.contains t) := by
  induction rm with
  | nil => intro s; symm; apply List.filter_eq_self.2; intro t _; simp
  | cons q rm ih =>
    intro s
    simp only [List.foldl_cons]
    rw [ih, unmark_terms, List.filter_filter]
    congr 1
    funext t
    by_cases htq : t = q <;> simp [htq]

theorem mem_addNodes (qs : List (List α)) :
    ∀ (nodes : List (List α)) (n : List α), n ∈ addNodes nodes qs ↔ (n ∈ nodes ∨ n ∈ qs) := by
  unfold addNodes
  induction qs with
  | nil => intro nodes n; simp
  | cons q qs ih =>
    intro nodes n
    simp only [List.foldl_cons]
    rw [ih]
    by_cases hq : nodes.contains q = true
    · simp only [hq, if_true, List.mem_cons]
      constructor
      · rintro (h | h); exact Or.inl h; exact Or.inr (Or.inr h)
      · rintro (h | h | h)
        · exact Or.inl h
        · subst h; exact Or.inl (List.contains_iff_mem.1 hq)
        · exact Or.inr h
    · simp only [hq, Bool.false_eq_true, if_false, List.mem_append, List.mem_singleton, List.mem_cons,
        List.not_mem_nil, or_false]
      constructor
      · rintro ((h | h) | h)
        · exact Or.inl h
        · exact Or.inr (Or.inl h)
        · exact Or.inr (Or.inr h)
      · rintro (h | h | h)
        · exact Or.inl (Or.inl h)
        · exact Or.inl (Or.inr h)
        · exact Or.inr h

theorem mem_nodePrefixes (p n : List α) : n ∈ nodePrefixes p ↔ (n ≠ [] ∧ n <+: p) := by
  simp only [nodePrefixes, List.mem_map, List.mem_range]
  constructor
  · rintro ⟨i, hi, rfl⟩
    refine ⟨?_, List.take_prefix _ _⟩
    intro e
    have := congrArg List.length e
    simp only [List.length_take, List.length_nil] at this; omega
  · rintro ⟨hn, hnp⟩
    have hl : 0 < n.length := List.length_pos_iff.2 hn
    refine ⟨n.length - 1, ?_, ?_⟩
    · have := hnp.length_le; omega
    · have : n.length - 1 + 1 = n.length := by omega
      rw [this]
      exact (List.prefix_iff_eq_take.1 hnp).symm

theorem mem_strictPrefixes (p q : List α) : q ∈ strictPrefixes p ↔ strictPrefix q p = true := by
  simp only [strictPrefixes, List.mem_map, List.mem_range, strictPrefix_iff]
  constructor
  · rintro ⟨i, hi, rfl⟩
    refine ⟨List.take_prefix _ _, ?_⟩
    simp; omega
  · rintro ⟨hqp, hl⟩
    refine ⟨q.length, ?_, (List.prefix_iff_eq_take.1 hqp).symm⟩
    have := hqp.length_le; omega

/-- terms after an accepted `add`: evict exactly the stored strict prefixes, append `p`. -/
theorem add_accept_terms (s : Store α) (p : List α) :
    (((strictPrefixes p).filter (fun q => s.terms.contains q)).foldl unmark s).terms
      = s.terms.filter (fun q => !strictPrefix q p) := by
  rw [foldl_unmark_terms]
  apply List.filter_congr
  intro t ht
  congr 1
  rw [Bool.eq_iff_iff, List.contains_iff_mem, List.mem_filter, mem_strictPrefixes,
    List.contains_iff_mem]
  exact ⟨fun h => h.1, fun h => ⟨h, ht⟩⟩

theorem add_inv {s : Store α} (h : Inv s) (p : List α) : Inv (add s p).1 := by
  unfold add
  split
  · exact h
  · rename_i hrej
    simp only
    have h1 := foldl_unmark_inv ((strictPrefixes p).filter (fun q => s.terms.contains q)) h
    intro n
    rw [mem_addNodes, h1 n, mem_nodePrefixes]
    simp only [List.mem_append, List.mem_singleton]
    constructor
    · rintro (⟨hn, t, ht, hnt⟩ | ⟨hn, hnp⟩)
      · exact ⟨hn, t, Or.inl ht, hnt⟩
      · exact ⟨hn, p, Or.inr rfl, hnp⟩
    · rintro ⟨hn, t, ht | rfl, hnt⟩
      · exact Or.inl ⟨hn, t, ht, hnt⟩
      · exact Or.inr ⟨hn, hnt⟩

theorem remove_inv {s : Store α} (h : Inv s) (p : List α) : Inv (remove s p).1 := by
  unfold remove; split
  · exact unmark_inv h p
  · exact h

theorem inv_empty : Inv (Store.empty : Store α) := by
  intro n; simp [Store.empty]

/-- One repaired step agrees with the specification step, given the invariant. -/
theorem step_refines (valid : α → Bool) {s : Store α} (h : Inv s) (op : Op α) :
    Inv (step valid s op).1 ∧ (step valid s op).1.terms = (specStep valid s.terms op).1 ∧
      (step valid s op).2 = (specStep valid s.terms op).2 := by
  cases op with
  | exist p => exact ⟨h, rfl, rfl⟩
  | remove p =>
    refine ⟨remove_inv h p, ?_, ?_⟩ <;>
    · simp only [step, specStep, remove, specRemove]
      split <;> simp [unmark_terms]
  | add p =>
    simp only [step, specStep, mgrAdd, specAdd]
    by_cases hv : p.all valid = true
    · by_cases hm : s.terms.contains p = true
      · simp only [hv, hm, Bool.not_true, Bool.false_eq_true, if_false, if_true, Bool.false_or,
          Bool.true_or]
        (first | exact h | exact ⟨h, trivial⟩ | exact ⟨h, trivial, trivial⟩)
      · have hm' : s.terms.contains p = false := by simpa using hm
        simp only [hv, hm', Bool.not_true, Bool.false_eq_true, if_false, Bool.false_or]
        refine ⟨add_inv h p, ?_⟩
        unfold add
        by_cases hrej : (present s p && (s.terms.contains p || hasChild s.nodes p)) = true
        · have hany : s.terms.any (fun q => strictPrefix p q) = true := by
            rcases (reject_iff h p).1 hrej with hc | ⟨t, ht, hpt⟩
            · rw [List.contains_iff_mem.2 hc] at hm'; exact absurd hm' (by simp)
            · exact List.any_eq_true.2 ⟨t, ht, hpt⟩
          simp only [hrej, hany, if_true]
          (first | trivial | exact ⟨trivial, trivial⟩)
        · have hany : s.terms.any (fun q => strictPrefix p q) = false := by
            rw [Bool.eq_false_iff]
            intro hany
            obtain ⟨t, ht, hpt⟩ := List.any_eq_true.1 hany
            exact hrej ((reject_iff h p).2 (Or.inr ⟨t, ht, hpt⟩))
          simp only [hrej, hany, Bool.false_eq_true, if_false]
          rw [add_accept_terms]; exact ⟨rfl, trivial⟩
    · have hv' : p.all valid = false := by simpa using hv
      simp only [hv', Bool.not_false, Bool.true_or, if_true]
      (first | exact h | exact ⟨h, trivial⟩ | exact ⟨h, trivial, trivial⟩)

end LianVerif.PathStore
