/-
Proofs/LowerPy.lean — simulation lemmas for the lowering model on the pure expression fragment
(constants, names, binary arithmetic / two-operand comparison, unary operators).
-/
import LianVerif.Proofs.GirStore
import LianVerif.Model.LowerPy
import Std.Data.String.ToNat

namespace LianVerif.LowerPy
open LianVerif.Gir LianVerif.PySrc

/-! ### temporaries are pairwise distinct -/

theorem tmp_inj {i j : Nat} (h : tmp i = tmp j) : i = j := by
  unfold tmp at h
  have h2 := (String.append_right_inj "%vv").1 h
  exact Nat.repr_inj.1 h2

/-! ### the fragment -/

/-- constants, names, binary and unary operators only. -/
def pureFrag : Expr → Bool
  | .const _ => true
  | .name _ => true
  | .bin _ l r => pureFrag l && pureFrag r
  | .un _ e => pureFrag e
  | _ => false

/-- no variable of the expression has the form of a lian temporary. -/
def NoTmp : Expr → Prop
  | .const _ => True
  | .name x => ∀ n, x ≠ tmp n
  | .bin _ l r => NoTmp l ∧ NoTmp r
  | .un _ e => NoTmp e
  | _ => True

/-- source state σ and target state τ: equal except for the values of temporaries. -/
structure Sim (σ τ : State) : Prop where
  heap : σ.heap = τ.heap
  env : σ.env = τ.env
  out : σ.out = τ.out
  budget : τ.budget = none
  look : ∀ x, (∀ n, x ≠ tmp n) → σ.lookup x = τ.lookup x
  loc : ∀ n, τ.Loc (tmp n)

/-- an operand produced by the lowering from counter `k` to `k'` is a constant, a source variable,
or the newest temporary. -/
def OpdOK (o : Opd) (k k' : Nat) : Prop :=
  (∃ v, o = .lit v) ∨ (∃ x, o = .var x ∧ ∀ n, x ≠ tmp n) ∨ (o = .var (tmp k') ∧ k < k')

/-! ### heap updates do not affect name resolution -/

theorem lookup_heap (τ : State) (h : List Obj) (x : String) :
    ({ τ with heap := h } : State).lookup x = τ.lookup x :=
  lookup_congr τ { τ with heap := h } rfl rfl x

theorem loc_heap (τ : State) (h : List Obj) (x : String) (hl : τ.Loc x) :
    ({ τ with heap := h } : State).Loc x := hl

/-! ### pure source evaluation only extends the heap -/

theorem evalE_pure_frames (fns : Prog) : ∀ (fuel : Nat) (e : Expr) (σ σ' : State) (v : Val),
    pureFrag e = true → evalE fns fuel σ e = (.ok v, σ') →
    σ'.frames = σ.frames ∧ σ'.env = σ.env ∧ σ'.out = σ.out ∧ σ'.budget = σ.budget := by
  intro fuel
  induction fuel with
  | zero => intro e σ σ' v _ h; simp [evalE] at h
  | succ f ih =>
    intro e σ σ' v hp h
    cases e with
    | const c => simp [evalE] at h; obtain ⟨_, rfl⟩ := h; exact ⟨rfl, rfl, rfl, rfl⟩
    | name x => simp [evalE] at h; obtain ⟨_, rfl⟩ := h; exact ⟨rfl, rfl, rfl, rfl⟩
    | bin op l r =>
      simp only [pureFrag, Bool.and_eq_true] at hp
      simp only [evalE] at h
      cases h1 : evalE fns f σ l with
      | mk r1 σ1 =>
        rw [h1] at h
        cases r1 with
        | error er => simp at h
        | ok a =>
          simp only at h
          cases h2 : evalE fns f σ1 r with
          | mk r2 σ2 =>
            rw [h2] at h
            cases r2 with
            | error er => simp at h
            | ok b =>
              simp only at h
              obtain ⟨e1, e2, e3, e4⟩ := ih l σ σ1 a hp.1 h1
              obtain ⟨g1, g2, g3, g4⟩ := ih r σ1 σ2 b hp.2 h2
              unfold State.binop at h
              cases h3 : binopH σ2.heap op a b with
              | error er => rw [h3] at h; simp at h
              | ok p =>
                rw [h3] at h
                obtain ⟨v', h'⟩ := p
                simp only [Prod.mk.injEq, Except.ok.injEq] at h
                obtain ⟨_, rfl⟩ := h
                exact ⟨by simp [g1, e1], by simp [g2, e2], by simp [g3, e3], by simp [g4, e4]⟩
    | un op e1 =>
      simp only [pureFrag] at hp
      simp only [evalE] at h
      cases h1 : evalE fns f σ e1 with
      | mk r1 σ1 =>
        rw [h1] at h
        cases r1 with
        | error er => simp at h
        | ok a =>
          simp only at h
          cases h3 : σ1.unop op a with
          | error er => rw [h3] at h; simp at h
          | ok v' =>
            rw [h3] at h
            simp only [Prod.mk.injEq, Except.ok.injEq] at h
            obtain ⟨_, rfl⟩ := h
            exact ih e1 σ σ1 a hp h1
    | boolop _ _ _ => simp [pureFrag] at hp
    | cmp3 _ _ _ _ _ => simp [pureFrag] at hp
    | ifexp _ _ _ => simp [pureFrag] at hp
    | call _ _ => simp [pureFrag] at hp


/-! ### executing one `assign_stmt` -/

theorem exec_assign (N : Nat) (τ τ' : State) (t op : String) (a : Opd) (b : Option Opd) (rest : List Stmt)
    (hb : τ.budget = none) (hs : stepSimple τ (.assign t op a b) = some (.ok τ')) :
    exec (N + 1) τ (.assign t op a b :: rest) = exec N τ' rest := by
  simp only [exec, State.tick, hb, hs]

theorem exec_nil_append (N : Nat) (τ : State) (rest : List Stmt) :
    exec (N + ([] : List Stmt).length) τ ([] ++ rest) = exec N τ rest := by
  simp


/-! ### operands keep their value while later temporaries are assigned -/

theorem opd_stable (σ1 σ2 τ1 τ2 : State) (a : Opd) (k k1 : Nat) (va : Val)
    (hop : OpdOK a k k1) (hev : τ1.evalOpd a = .ok va)
    (hs1 : Sim σ1 τ1) (hs2 : Sim σ2 τ2)
    (hfr : σ2.frames = σ1.frames) (henv : σ2.env = σ1.env)
    (hpres : ∀ j, j ≤ k1 → τ2.lookup (tmp j) = τ1.lookup (tmp j)) :
    τ2.evalOpd a = .ok va := by
  rcases hop with ⟨c, rfl⟩ | ⟨x, rfl, hx⟩ | ⟨rfl, _⟩
  · simpa [State.evalOpd, State.evalOpdIn] using hev
  · have h1 : τ1.lookup x = .ok va := by simpa [State.evalOpd, State.evalOpdIn, State.lookup] using hev
    have h2 : τ2.lookup x = .ok va := by
      rw [← hs2.look x hx, lookup_congr σ1 σ2 hfr henv x, hs1.look x hx]; exact h1
    simpa [State.evalOpd, State.evalOpdIn, State.lookup] using h2
  · have h1 : τ1.lookup (tmp k1) = .ok va := by simpa [State.evalOpd, State.evalOpdIn, State.lookup] using hev
    have h2 : τ2.lookup (tmp k1) = .ok va := by rw [hpres k1 (Nat.le_refl _)]; exact h1
    simpa [State.evalOpd, State.evalOpdIn, State.lookup] using h2

/-- the state reached by writing the newest temporary. -/
theorem sim_after_write (σ τ2 : State) (h' : List Obj) (a0 : Nat) (f0 : Frame) (n : Nat) (v : Val)
    (hs : Sim σ τ2) (hfa : ({ τ2 with heap := h' } : State).frame a0 = some f0) :
    Sim { σ with heap := h' } (({ τ2 with heap := h' } : State).wr a0 f0 (tmp n) v) := by
  refine ⟨rfl, hs.env, hs.out, hs.budget, ?_, ?_⟩
  · intro x hx
    have e1 := lookup_heap σ h' x
    have e2 := lookup_heap τ2 h' x
    rw [lookup_wr_ne _ a0 f0 (tmp n) x v hfa (hx n), e1, e2]
    exact hs.look x hx
  · intro m
    exact loc_wr _ a0 f0 (tmp n) (tmp m) v hfa (loc_heap τ2 h' _ (hs.loc m))

/-- **Simulation of the expression handlers on the pure fragment.** -/
theorem lowerE_sim (cfg : Cfg) (fns : Prog) : ∀ (fuel : Nat) (e : Expr), pureFrag e = true → NoTmp e →
    ∀ (k : Nat) (σ τ σ' : State) (v : Val), evalE fns fuel σ e = (.ok v, σ') → Sim σ τ →
    k ≤ (lowerE cfg e k).2.2 ∧ OpdOK (lowerE cfg e k).2.1 k (lowerE cfg e k).2.2 ∧
    ∃ τ', (∀ rest N, exec (N + (lowerE cfg e k).1.length) τ ((lowerE cfg e k).1 ++ rest) = exec N τ' rest) ∧
      τ'.evalOpd (lowerE cfg e k).2.1 = .ok v ∧ Sim σ' τ' ∧
      (∀ j, (j ≤ k ∨ (lowerE cfg e k).2.2 < j) → τ'.lookup (tmp j) = τ.lookup (tmp j)) ∧
      (∀ x, τ.Loc x → τ'.Loc x) := by
  intro fuel
  induction fuel with
  | zero => intro e _ _ k σ τ σ' v h _; simp [evalE] at h
  | succ f ih =>
  intro e
  cases e with
  | const c =>
    intro _ _ k σ τ σ' v h hsim
    · simp only [evalE, Prod.mk.injEq, Except.ok.injEq] at h
      obtain ⟨rfl, rfl⟩ := h
      simp only [lowerE]
      refine ⟨Nat.le_refl _, Or.inl ⟨c, rfl⟩, τ, ?_, ?_, hsim, fun _ _ => rfl, fun _ h => h⟩
      · intro rest N; simp
      · simp [State.evalOpd, State.evalOpdIn]
  | name x =>
    intro _ hnt k σ τ σ' v h hsim
    · simp only [evalE, Prod.mk.injEq] at h
      obtain ⟨hl, rfl⟩ := h
      simp only [lowerE]
      refine ⟨Nat.le_refl _, Or.inr (Or.inl ⟨x, rfl, hnt⟩), τ, ?_, ?_, hsim, fun _ _ => rfl, fun _ h => h⟩
      · intro rest N; simp
      · have : τ.lookup x = .ok v := by rw [← hsim.look x hnt]; exact hl
        simpa [State.evalOpd, State.evalOpdIn, State.lookup] using this
  | bin op l r =>
    intro hp hnt k σ τ σ' v h hsim
    simp only [pureFrag, Bool.and_eq_true] at hp
    obtain ⟨hntl, hntr⟩ := hnt
    · simp only [evalE] at h
      cases h1 : evalE fns f σ l with
      | mk r1 σ1 =>
      rw [h1] at h
      cases r1 with
      | error er => simp at h
      | ok va =>
      simp only at h
      cases h2 : evalE fns f σ1 r with
      | mk r2 σ2 =>
      rw [h2] at h
      cases r2 with
      | error er => simp at h
      | ok vb =>
      simp only at h
      unfold State.binop at h
      cases h3 : binopH σ2.heap op va vb with
      | error er => rw [h3] at h; simp at h
      | ok p =>
      obtain ⟨v', h'⟩ := p
      rw [h3] at h
      simp only [Prod.mk.injEq, Except.ok.injEq] at h
      obtain ⟨rfl, rfl⟩ := h
      have ih1 := ih l hp.1 hntl k σ τ σ1 va h1 hsim
      cases hl : lowerE cfg l k with
      | mk s1 p1 =>
      obtain ⟨a, k1⟩ := p1
      rw [hl] at ih1
      simp only at ih1
      obtain ⟨hk1, hop1, τ1, hex1, hev1, hsim1, hpres1, hloc1⟩ := ih1
      have ih2 := ih r hp.2 hntr k1 σ1 τ1 σ2 vb h2 hsim1
      cases hr : lowerE cfg r k1 with
      | mk s2 p2 =>
      obtain ⟨b, k2⟩ := p2
      rw [hr] at ih2
      simp only at ih2
      obtain ⟨hk2, hop2, τ2, hex2, hev2, hsim2, hpres2, hloc2⟩ := ih2
      obtain ⟨hfr2, henv2, _, _⟩ := evalE_pure_frames fns f r σ1 σ2 vb hp.2 h2
      have hF1 : τ2.evalOpd a = .ok va :=
        opd_stable σ1 σ2 τ1 τ2 a k k1 va hop1 hev1 hsim1 hsim2 hfr2 henv2 (fun j hj => hpres2 j (Or.inl hj))
      obtain ⟨a0, f0, hfa, hassign, hlook⟩ :=
        assign_loc ({ τ2 with heap := h' } : State) (tmp (k2 + 1)) v' (loc_heap τ2 h' _ (hsim2.loc (k2 + 1)))
      have hstep : stepSimple τ2 (.assign (tmp (k2 + 1)) op a (some b)) =
          some (.ok (({ τ2 with heap := h' } : State).wr a0 f0 (tmp (k2 + 1)) v')) := by
        simp only [stepSimple, hF1, hev2, State.binop, ← hsim2.heap, h3, hassign]
      simp only [lowerE, hl, hr]
      refine ⟨by omega, Or.inr (Or.inr ⟨rfl, by omega⟩),
        ({ τ2 with heap := h' } : State).wr a0 f0 (tmp (k2 + 1)) v', ?_, ?_, ?_, ?_, ?_⟩
      · intro rest N
        have e1 : N + (s1 ++ s2 ++ [Stmt.assign (tmp (k2 + 1)) op a (some b)]).length
            = (N + 1 + s2.length) + s1.length := by simp; omega
        have e2 : (s1 ++ s2 ++ [Stmt.assign (tmp (k2 + 1)) op a (some b)]) ++ rest
            = s1 ++ (s2 ++ (Stmt.assign (tmp (k2 + 1)) op a (some b) :: rest)) := by simp
        rw [e1, e2, hex1, hex2]
        exact exec_assign N τ2 _ _ op a (some b) rest hsim2.budget hstep
      · simpa [State.evalOpd, State.evalOpdIn, State.lookup] using hlook
      · exact sim_after_write σ2 τ2 h' a0 f0 (k2 + 1) v' hsim2 hfa
      · intro j hj
        have hne : tmp j ≠ tmp (k2 + 1) := fun hc => by have := tmp_inj hc; omega
        rw [lookup_wr_ne _ a0 f0 (tmp (k2 + 1)) (tmp j) v' hfa hne, lookup_heap,
          hpres2 j (by omega), hpres1 j (by omega)]
      · intro x hx
        exact loc_wr _ a0 f0 (tmp (k2 + 1)) x v' hfa (loc_heap τ2 h' x (hloc2 x (hloc1 x hx)))
  | un op e1 =>
    intro hp hnt k σ τ σ' v h hsim
    simp only [pureFrag] at hp
    · simp only [evalE] at h
      cases h1 : evalE fns f σ e1 with
      | mk r1 σ1 =>
      rw [h1] at h
      cases r1 with
      | error er => simp at h
      | ok va =>
      simp only at h
      cases h3 : σ1.unop op va with
      | error er => rw [h3] at h; simp at h
      | ok v' =>
      rw [h3] at h
      simp only [Prod.mk.injEq, Except.ok.injEq] at h
      obtain ⟨rfl, rfl⟩ := h
      have ih1 := ih e1 hp hnt k σ τ σ1 va h1 hsim
      cases hl : lowerE cfg e1 k with
      | mk s1 p1 =>
      obtain ⟨a, k1⟩ := p1
      rw [hl] at ih1
      simp only at ih1
      obtain ⟨hk1, hop1, τ1, hex1, hev1, hsim1, hpres1, hloc1⟩ := ih1
      have hopne : (op == "") = false := by
        cases hop : (op == "") with
        | false => rfl
        | true =>
          have : op = "" := by simpa using hop
          subst this
          simp [State.unop, unopH] at h3
          cases hva : asInt? va <;> simp [hva] at h3
      obtain ⟨a0, f0, hfa, hassign, hlook⟩ :=
        assign_loc τ1 (tmp (k1 + 1)) v' (hsim1.loc (k1 + 1))
      have hstep : stepSimple τ1 (.assign (tmp (k1 + 1)) op a none) =
          some (.ok (τ1.wr a0 f0 (tmp (k1 + 1)) v')) := by
        have hu : τ1.unop op va = .ok v' := by
          unfold State.unop at h3 ⊢; rw [← hsim1.heap]; exact h3
        simp only [stepSimple, hev1, hopne, hu, hassign, Bool.false_eq_true, if_false]
      simp only [lowerE, hl]
      refine ⟨by omega, Or.inr (Or.inr ⟨rfl, by omega⟩), τ1.wr a0 f0 (tmp (k1 + 1)) v', ?_, ?_, ?_, ?_, ?_⟩
      · intro rest N
        have e1 : N + (s1 ++ [Stmt.assign (tmp (k1 + 1)) op a none]).length = (N + 1) + s1.length := by
          simp; omega
        have e2 : (s1 ++ [Stmt.assign (tmp (k1 + 1)) op a none]) ++ rest
            = s1 ++ (Stmt.assign (tmp (k1 + 1)) op a none :: rest) := by simp
        rw [e1, e2, hex1]
        exact exec_assign N τ1 _ _ op a none rest hsim1.budget hstep
      · simpa [State.evalOpd, State.evalOpdIn, State.lookup] using hlook
      · have := sim_after_write σ1 τ1 τ1.heap a0 f0 (k1 + 1) v' hsim1 hfa
        have hσ : ({ σ1 with heap := τ1.heap } : State) = σ1 := by
          cases σ1; simp only [State.mk.injEq, and_true]; exact hsim1.heap.symm
        rw [hσ] at this
        exact this
      · intro j hj
        have hne : tmp j ≠ tmp (k1 + 1) := fun hc => by have := tmp_inj hc; omega
        rw [lookup_wr_ne _ a0 f0 (tmp (k1 + 1)) (tmp j) v' hfa hne, hpres1 j (by omega)]
      · intro x hx
        exact loc_wr _ a0 f0 (tmp (k1 + 1)) x v' hfa (hloc1 x hx)
  | boolop _ _ _ => intro hp; simp [pureFrag] at hp
  | cmp3 _ _ _ _ _ => intro hp; simp [pureFrag] at hp
  | ifexp _ _ _ => intro hp; simp [pureFrag] at hp
  | call _ _ => intro hp; simp [pureFrag] at hp

end LianVerif.LowerPy
