/-
Helper lemmas for C16 (DataModel).  The property theorems are in Properties/C16.lean.
-/
import LianVerif.Model.Table
import LianVerif.Spec.Scan

namespace LianVerif.Table
open LianVerif.Scan

/-! ### the equality index equals the scan -/

theorem lookupValue_bump (m : ValueIndex) (k v : Cell) (i : Nat) :
    lookupValue (bump m k i) v = if k = v then lookupValue m v ++ [i] else lookupValue m v := by
  induction m with
  | nil =>
    by_cases h : k = v
    · simp [bump, lookupValue, List.find?, h]
    · simp [bump, lookupValue, List.find?, h]
  | cons kv rest ih =>
    obtain ⟨k', l⟩ := kv
    by_cases hk : k' = k
    · subst hk
      by_cases h : k' = v
      · simp [bump, lookupValue, List.find?, h]
      · simp [bump, lookupValue, List.find?, h]
    · by_cases h' : k' = v
      · subst h'
        have : ¬ k = k' := fun e => hk e.symm
        simp [bump, lookupValue, List.find?, hk, this]
      · have ih' := ih
        simp only [lookupValue] at ih'
        simp only [bump, hk, if_false, lookupValue, List.find?, h', decide_false]
        exact ih'

theorem lookupValue_indexFrom (col : List Cell) (v : Cell) (hv : v.isna = false) :
    ∀ (m : ValueIndex) (s : Nat),
      lookupValue (indexFrom m s col) v = lookupValue m v ++ scanFrom s col v := by
  induction col with
  | nil => intro m s; simp [indexFrom, scanFrom]
  | cons c cs ih =>
    intro m s
    simp only [indexFrom, scanFrom]
    by_cases hc : c.isna = true
    · have hne : c ≠ v := by intro e; rw [e, hv] at hc; exact absurd hc (by simp)
      simp only [hc, if_true, hne, if_false]
      exact ih m (s + 1)
    · have hc' : c.isna = false := by simpa using hc
      simp only [hc', Bool.false_eq_true, if_false]
      rw [ih, lookupValue_bump]
      by_cases h : c = v
      · simp [h]
      · simp [h]

/-- **index = scan**: what `_indexing_column` followed by `.get(value, set())` returns is the list
of positions a scan of the column finds. -/
theorem lookupValue_buildIndex (col : List Cell) (v : Cell) (hv : v.isna = false) :
    lookupValue (buildIndex col) v = scanFrom 0 col v := by
  have := lookupValue_indexFrom col v hv [] 0
  simpa [buildIndex, lookupValue] using this

theorem mem_scanFrom {col : List Cell} {v : Cell} :
    ∀ {s p : Nat}, p ∈ scanFrom s col v ↔ s ≤ p ∧ p - s < col.length ∧ col[p - s]? = some v := by
  induction col with
  | nil => intro s p; simp [scanFrom]
  | cons c cs ih =>
    intro s p
    simp only [scanFrom]
    by_cases h : c = v
    · simp only [h, if_true, List.mem_cons, ih]
      constructor
      · rintro (rfl | ⟨h1, h2, h3⟩)
        · simp
        · refine ⟨by omega, by simp; omega, ?_⟩
          have : p - s = (p - (s + 1)) + 1 := by omega
          rw [this]; simpa using h3
      · rintro ⟨h1, h2, h3⟩
        by_cases hp : p = s
        · exact Or.inl hp
        · right
          have : p - s = (p - (s + 1)) + 1 := by omega
          rw [this] at h2 h3
          exact ⟨by omega, by simpa using h2, by simpa using h3⟩
    · simp only [h, if_false, ih]
      constructor
      · rintro ⟨h1, h2, h3⟩
        refine ⟨by omega, by simp; omega, ?_⟩
        have : p - s = (p - (s + 1)) + 1 := by omega
        rw [this]; simpa using h3
      · rintro ⟨h1, h2, h3⟩
        have hp : p ≠ s := by
          rintro rfl
          simp at h3; exact h h3
        have : p - s = (p - (s + 1)) + 1 := by omega
        rw [this] at h2 h3
        exact ⟨by omega, by simpa using h2, by simpa using h3⟩


/-! ### the representation invariant of the repaired `DataModel` -/

/-- schema mirrors the columns; a clean rows cache is the current rows; every cached column index
is the index of the current column. -/
def Consistent (t : T) : Prop :=
  t.schema = t.data.cols ∧
  (t.dirty = false → t.rows = some t.data.rows) ∧
  (∀ c m, (c, m) ∈ t.idx → ∃ col, t.data.column c = some col ∧ m = buildIndex col)

theorem consistent_construct (f : Frame) (reset : Bool) : Consistent (construct f reset) := by
  cases reset <;> simp [construct, refreshSchema, Consistent, Frame.resetIndex]

theorem construct_data (f : Frame) (reset : Bool) :
    (construct f reset).data = Scan.resetIf f reset := by
  cases reset <;> simp [construct, refreshSchema, Scan.resetIf]

theorem consistent_flag (t : T) : Consistent (setRefreshFlag current t) := by
  simp [setRefreshFlag, refreshSchema, Consistent, current]

theorem flag_data (v : Variant) (t : T) : (setRefreshFlag v t).data = t.data := by
  simp [setRefreshFlag, refreshSchema]

theorem consistent_loadT (f : Frame) : Consistent (loadT current f) := consistent_flag _

theorem loadT_data (v : Variant) (f : Frame) : (loadT v f).data = f := by
  simp [loadT, flag_data]

theorem refreshRows_spec {t : T} (h : Consistent t) :
    (refreshRows t).data = t.data ∧ (refreshRows t).schema = t.schema ∧
    (refreshRows t).rows = some t.data.rows ∧ Consistent (refreshRows t) := by
  obtain ⟨h1, h2, h3⟩ := h
  unfold refreshRows
  by_cases hd : t.dirty = true
  · simp [hd, Consistent, h1]
  · have hd' : t.dirty = false := by simpa using hd
    simp only [hd', Bool.not_false, if_true]
    exact ⟨trivial, trivial, h2 hd', h1, h2, h3⟩

theorem column_none_iff (f : Frame) (c : String) : f.column c = none ↔ f.cols.contains c = false := by
  unfold Frame.column Frame.colPos
  by_cases h : f.cols.idxOf c < f.cols.length
  · have hm : c ∈ f.cols := List.idxOf_lt_length_iff.1 h
    simp [h, hm]
  · have hm : c ∉ f.cols := fun hm => h (List.idxOf_lt_length_iff.2 hm)
    simp [h, hm]

theorem mem_of_lookupCol {ix : Indexer} {c : String} {m : ValueIndex} (h : lookupCol ix c = some m) :
    (c, m) ∈ ix := by
  unfold lookupCol at h
  cases hf : ix.find? (fun kv => decide (kv.1 = c)) with
  | none => simp [hf] at h
  | some kv =>
    simp only [hf, Option.some.injEq] at h
    have hmem := List.mem_of_find?_eq_some hf
    have hp := List.find?_some hf
    simp only [decide_eq_true_eq] at hp
    obtain ⟨k, m'⟩ := kv
    simp only at hp h
    subst hp; subst h
    exact hmem

/-- **the cached equality query is the scan** (and leaves a consistent table with the same frame). -/
theorem queryIdx_spec {t : T} (h : Consistent t) (c : String) (v : Cell) :
    (queryIdx t c v).2 = Scan.queryIdx t.data c v ∧ (queryIdx t c v).1.data = t.data ∧
    Consistent (queryIdx t c v).1 := by
  obtain ⟨h1, h2, h3⟩ := h
  unfold queryIdx Scan.queryIdx
  by_cases hv : v.isna = true
  · simp [hv]; exact ⟨h1, h2, h3⟩
  · have hv' : v.isna = false := by simpa using hv
    simp only [hv', Bool.false_eq_true, if_false]
    by_cases hs : t.schema.contains c = true
    · simp only [hs, Bool.not_true, Bool.false_eq_true, if_false]
      have hcol : t.data.column c ≠ none := by
        intro hn; rw [column_none_iff, ← h1, hs] at hn; exact absurd hn (by simp)
      cases hl : lookupCol t.idx c with
      | some m =>
        obtain ⟨col, hc, hm⟩ := h3 c m (mem_of_lookupCol hl)
        simp only [hc]
        refine ⟨?_, trivial, h1, h2, h3⟩
        rw [hm, lookupValue_buildIndex col v hv']
      | none =>
        cases hc : t.data.column c with
        | none => exact absurd hc hcol
        | some col =>
          simp only
          refine ⟨by rw [lookupValue_buildIndex col v hv'], trivial, h1, h2, ?_⟩
          intro c' m' hm'
          rcases List.mem_append.1 hm' with hm' | hm'
          · exact h3 c' m' hm'
          · simp only [List.mem_singleton, Prod.mk.injEq] at hm'
            obtain ⟨rfl, rfl⟩ := hm'
            exact ⟨col, hc, rfl⟩
    · have hs' : t.schema.contains c = false := by simpa using hs
      have hcol : t.data.column c = none := by rw [column_none_iff, ← h1, hs']
      simp only [hs', Bool.not_false, if_true, hcol]
      exact ⟨trivial, trivial, h1, h2, h3⟩


theorem searchBlock_spec {t : T} (h : Consistent t) (id : Cell) :
    (searchBlock t id).2 = Scan.searchBlock t.data id ∧ (searchBlock t id).1.data = t.data ∧
    Consistent (searchBlock t id).1 := by
  unfold searchBlock Scan.searchBlock
  by_cases hv : id.isna = true
  · simp only [hv, if_true]; exact ⟨trivial, trivial, h⟩
  · have hv' : id.isna = false := by simpa using hv
    simp only [hv', Bool.false_eq_true, if_false]
    obtain ⟨hq, hd, hc⟩ := queryIdx_spec h "stmt_id" id
    rcases hq' : queryIdx t "stmt_id" id with ⟨t', r⟩
    rw [hq'] at hq hd hc
    simp only at hq hd hc
    rw [← hq]
    cases r with
    | ok l => exact ⟨rfl, hd, hc⟩
    | error e => exact ⟨rfl, hd, hc⟩

theorem boundaryLoop_spec (ids : List Cell) :
    ∀ (t : T) (acc : Int), Consistent t →
      (boundaryLoop t acc ids).2 = Scan.boundaryLoop t.data acc ids ∧
      (boundaryLoop t acc ids).1.data = t.data ∧ Consistent (boundaryLoop t acc ids).1 := by
  induction ids with
  | nil => intro t acc h; exact ⟨rfl, rfl, h⟩
  | cons id ids ih =>
    intro t acc h
    unfold boundaryLoop Scan.boundaryLoop
    by_cases hv : id.isna = true
    · simp only [hv, if_true]; exact ih t acc h
    · have hv' : id.isna = false := by simpa using hv
      simp only [hv', Bool.false_eq_true, if_false]
      obtain ⟨hq, hd, hc⟩ := searchBlock_spec h id
      rcases hq' : searchBlock t id with ⟨t', r⟩
      rw [hq'] at hq hd hc
      simp only at hq hd hc
      rw [← hq]
      cases r with
      | error e => exact ⟨rfl, hd, hc⟩
      | ok o =>
        cases o with
        | none =>
          simp only
          have := ih t' acc hc
          rw [hd] at this; exact this
        | some l =>
          simp only
          have := ih t' (l.foldl (fun m p => max m (Int.ofNat p)) acc) hc
          rw [hd] at this; exact this

theorem mkRow_spec {t : T} (hs : t.schema = t.data.cols) (i : Int) :
    mkRow t t.data.rows i = Scan.rowAt t.data i := by
  unfold mkRow Scan.rowAt
  rw [hs]
  rfl

theorem mkRows_spec {t : T} (hs : t.schema = t.data.cols) (is : List Int) :
    mkRows t t.data.rows is = Scan.rowsAt t.data is := by
  induction is with
  | nil => rfl
  | cons i is ih => simp only [mkRows, Scan.rowsAt, mkRow_spec hs, ih]; rfl


/-! ### one method call: the model answers what the scan answers -/

/-- what it means for one call to refine the specification -/
def StepOK (t : T) (op : Op) : Prop :=
  (step current t op).1.data = (specStep t.data op).1 ∧
  Consistent (step current t op).1 ∧
  (step current t op).2.1 = (specStep t.data op).2.1 ∧
  (step current t op).2.2.map T.data = (specStep t.data op).2.2 ∧
  (∀ c, (step current t op).2.2 = some c → Consistent c)

theorem stepOK_of {t t' : T} {op : Op} {out out' : Out} {child : Option T} {f' : Frame}
    {child' : Option Frame}
    (h1 : step current t op = (t', out, child)) (h2 : specStep t.data op = (f', out', child'))
    (hd : t'.data = f') (hc : Consistent t') (ho : out = out')
    (hch : child.map T.data = child') (hcc : ∀ c, child = some c → Consistent c) : StepOK t op := by
  unfold StepOK; rw [h1, h2]; exact ⟨hd, hc, ho, hch, hcc⟩

theorem mutate_ok {t : T} (h : Consistent t) (r : Except Err Frame) :
    (mutate current t r).1.data = (Scan.mutated t.data r).1 ∧
    Consistent (mutate current t r).1 ∧
    (mutate current t r).2.1 = (Scan.mutated t.data r).2.1 ∧
    (mutate current t r).2.2 = none ∧ (Scan.mutated t.data r).2.2 = none := by
  cases r with
  | ok f => exact ⟨by simp [mutate, Scan.mutated, flag_data], consistent_flag _, rfl, rfl, rfl⟩
  | error e => exact ⟨rfl, h, rfl, rfl, rfl⟩

theorem stepOK_mutate {t : T} (h : Consistent t) {op : Op} {r : Except Err Frame}
    (h1 : step current t op = mutate current t r) (h2 : specStep t.data op = Scan.mutated t.data r) :
    StepOK t op := by
  obtain ⟨a, b, c, d, e⟩ := mutate_ok h r
  unfold StepOK; rw [h1, h2]
  refine ⟨a, b, c, ?_, ?_⟩
  · rw [d, e]; rfl
  · intro x hx; rw [d] at hx; exact absurd hx (by simp)


theorem no_child {α : Type} {P : α → Prop} : ∀ c, (none : Option α) = some c → P c := by
  intro c hc; exact absurd hc (by simp)

/-- closes the five components of `StepOK` once both sides have been reduced to the same shape -/
macro "close_step" : tactic =>
  `(tactic| (refine ⟨?_, ?_, ?_, ?_, ?_⟩ <;>
      first | assumption | rfl | trivial | exact no_child | (intro c hc; simp at hc; done)))

theorem step_reads {t : T} (h : Consistent t) :
    StepOK t .len ∧ StepOK t .isEmpty ∧ StepOK t .toDicts ∧
    (∀ l c, StepOK t (.accessLoc l c)) ∧ (∀ c, StepOK t (.column c)) := by
  refine ⟨?_, ?_, ?_, ?_, ?_⟩
  · exact stepOK_of rfl rfl rfl h rfl rfl no_child
  · exact stepOK_of rfl rfl rfl h rfl rfl no_child
  · exact stepOK_of rfl rfl rfl h rfl rfl no_child
  · intro l c
    unfold StepOK
    simp only [step, specStep]
    cases t.data.labelPos l <;> cases t.data.colPos c <;> close_step
  · intro c
    unfold StepOK
    simp only [step, specStep]
    cases t.data.column c <;> close_step

theorem step_cached_reads {t : T} (h : Consistent t) :
    StepOK t .getRows ∧ StepOK t .iter ∧ (∀ i, StepOK t (.accessPos i)) ∧
    (∀ is, StepOK t (.accessList is)) := by
  obtain ⟨hd, hs, hr, hc⟩ := refreshRows_spec h
  have hs' : (refreshRows t).schema = (refreshRows t).data.cols := hc.1
  refine ⟨?_, ?_, ?_, ?_⟩
  · unfold StepOK
    simp only [step, specStep, hr]
    close_step
  · unfold StepOK
    have hm := mkRows_spec hs' ((List.range t.data.rows.length).map Int.ofNat)
    rw [hd] at hm
    simp only [step, specStep, hr, iterRows, hm]
    cases rowsAt t.data ((List.range t.data.rows.length).map Int.ofNat) <;> close_step
  · intro i
    unfold StepOK
    have hm := mkRow_spec hs' i
    rw [hd] at hm
    simp only [step, specStep, hr, hm]
    rcases rowAt t.data i with e | (_ | r) <;> close_step
  · intro is
    unfold StepOK
    have hm := mkRows_spec hs' is
    rw [hd] at hm
    simp only [step, specStep, hr, hm]
    cases rowsAt t.data is <;> close_step


theorem construct_data_false (f : Frame) : (construct f false).data = f := by
  simp [construct, refreshSchema]

theorem resetChild_data (c : T) (reset : Bool) :
    (resetChild c reset).data = Scan.resetIf c.data reset := by
  cases reset <;> simp [resetChild, Scan.resetIf]

theorem consistent_resetIndex {t : T} (h : Consistent t) :
    Consistent { t with data := t.data.resetIndex } := by
  obtain ⟨h1, h2, h3⟩ := h
  refine ⟨h1, h2, ?_⟩
  intro c m hm
  obtain ⟨col, hc, e⟩ := h3 c m hm
  exact ⟨col, hc, e⟩

theorem consistent_resetChild {c : T} (h : Consistent c) (reset : Bool) :
    Consistent (resetChild c reset) := by
  cases reset
  · exact h
  · exact consistent_resetIndex h

theorem some_child {c : T} (hc : Consistent c) : ∀ x, some c = some x → Consistent x := by
  intro x hx; cases hx; exact hc

theorem step_index {t : T} (h : Consistent t) :
    (∀ c v, StepOK t (.queryIdx c v)) ∧ (∀ c v, StepOK t (.queryTable c v)) ∧
    (∀ c v, StepOK t (.queryFirst c v)) := by
  refine ⟨?_, ?_, ?_⟩
  all_goals
    intro c v
    obtain ⟨hq, hd, hc⟩ := queryIdx_spec h c v
    unfold StepOK
    simp only [step, specStep]
    rcases hq' : queryIdx t c v with ⟨t', r⟩
    rw [hq'] at hq hd hc
    simp only at hq hd hc
    rw [← hq]
  · cases r <;> close_step
  · cases r with
    | error e => close_step
    | ok l =>
      cases l with
      | nil => close_step
      | cons p ps =>
        simp only [hd]
        cases t.data.ilocTake (p :: ps) with
        | none => close_step
        | some f =>
          simp only
          exact ⟨hd, hc, by rw [construct_data_false], by simp [construct_data_false],
            some_child (consistent_construct f false)⟩
  · cases r with
    | error e => close_step
    | ok l =>
      cases l with
      | nil => close_step
      | cons p ps =>
        simp only [hd, hc.1]
        cases t.data.rows[p]? <;> close_step

theorem step_blocks {t : T} (h : Consistent t) :
    (∀ id, StepOK t (.searchBlock id)) ∧ (∀ id r, StepOK t (.readBlock id r)) ∧
    (∀ id r, StepOK t (.readBlockWith id r)) ∧ (∀ ids, StepOK t (.boundary ids)) := by
  refine ⟨?_, ?_, ?_, ?_⟩
  · intro id
    obtain ⟨hq, hd, hc⟩ := searchBlock_spec h id
    unfold StepOK
    simp only [step, specStep]
    rcases hq' : searchBlock t id with ⟨t', r⟩
    rw [hq'] at hq hd hc
    simp only at hq hd hc
    rw [← hq]
    rcases r with e | (_ | l) <;> close_step
  · intro id reset
    obtain ⟨hq, hd, hc⟩ := searchBlock_spec h id
    unfold StepOK
    simp only [step, specStep]
    rcases hq' : searchBlock t id with ⟨t', r⟩
    rw [hq'] at hq hd hc
    simp only at hq hd hc
    rw [← hq]
    rcases r with e | (_ | l)
    · close_step
    · close_step
    · rcases l with _ | ⟨p, _ | ⟨q, _ | ⟨x, xs⟩⟩⟩
      · close_step
      · close_step
      · simp only [sliceT, hd]
        refine ⟨?_, hc, ?_, ?_, some_child (consistent_resetChild (consistent_construct _ false) reset)⟩
        · first | exact hd | trivial
        · rw [resetChild_data, construct_data_false]
        · simp [resetChild_data, construct_data_false]
      · close_step
  · intro id reset
    obtain ⟨hq, hd, hc⟩ := searchBlock_spec h id
    unfold StepOK
    simp only [step, specStep]
    rcases hq' : searchBlock t id with ⟨t', r⟩
    rw [hq'] at hq hd hc
    simp only at hq hd hc
    rw [← hq]
    rcases r with e | (_ | l)
    · close_step
    · close_step
    · rcases l with _ | ⟨p, _ | ⟨q, xs⟩⟩
      · close_step
      · close_step
      · simp only [sliceT, hd]
        refine ⟨?_, hc, ?_, ?_, some_child (consistent_resetChild (consistent_construct _ false) reset)⟩
        · first | exact hd | trivial
        · rw [resetChild_data, construct_data_false]
        · simp [resetChild_data, construct_data_false]
  · intro ids
    obtain ⟨hq, hd, hc⟩ := boundaryLoop_spec ids t (-1) h
    unfold StepOK
    simp only [step, specStep]
    rcases hq' : boundaryLoop t (-1) ids with ⟨t', r⟩
    rw [hq'] at hq hd hc
    simp only at hq hd hc
    rw [← hq]
    cases r <;> close_step


theorem child_ok (f : Frame) (reset : Bool) :
    (Out.frame (construct f reset).data = Out.frame (Scan.resetIf f reset)) ∧
    (Option.map T.data (some (construct f reset)) = some (Scan.resetIf f reset)) ∧
    (∀ x, some (construct f reset) = some x → Consistent x) :=
  ⟨by rw [construct_data], by simp [construct_data], some_child (consistent_construct f reset)⟩

theorem step_derived {t : T} (h : Consistent t) :
    (∀ c v oc r, StepOK t (.slowQueryEq c v oc r)) ∧ (∀ c vs r, StepOK t (.slowQueryIsin c vs r)) ∧
    (∀ ls r, StepOK t (.slowQueryLabels ls r)) ∧ (∀ a b, StepOK t (.slice a b)) ∧ StepOK t .clone := by
  refine ⟨?_, ?_, ?_, ?_, ?_⟩
  · intro c v oc r
    unfold StepOK
    simp only [step, specStep]
    cases t.data.column c with
    | none => close_step
    | some cs =>
      cases oc with
      | some o =>
        simp only
        cases (t.data.maskTake (cs.map (fun x => Frame.maskEq x v))).column o <;> close_step
      | none =>
        obtain ⟨a, b, c'⟩ := child_ok (t.data.maskTake (cs.map (fun x => Frame.maskEq x v))) r
        exact ⟨rfl, h, a, b, c'⟩
  · intro c vs r
    unfold StepOK
    simp only [step, specStep]
    cases t.data.column c with
    | none => close_step
    | some cs =>
      obtain ⟨a, b, c'⟩ := child_ok (t.data.maskTake (Frame.isinMask cs vs)) r
      exact ⟨rfl, h, a, b, c'⟩
  · intro ls r
    unfold StepOK
    simp only [step, specStep]
    split
    · close_step
    · cases t.data.locTake ls with
      | none => close_step
      | some f =>
        obtain ⟨a, b, c'⟩ := child_ok f r
        exact ⟨rfl, h, a, b, c'⟩
  · intro a b
    unfold StepOK
    simp only [step, specStep, sliceT]
    obtain ⟨x, y, z⟩ := child_ok (t.data.ilocSlice a b) false
    exact ⟨by first | rfl | trivial, h, x, y, z⟩
  · unfold StepOK
    simp only [step, specStep]
    obtain ⟨x, y, z⟩ := child_ok t.data false
    exact ⟨by first | rfl | trivial, h, x, y, z⟩

theorem step_mutations {t : T} (h : Consistent t) :
    (∀ i r s, StepOK t (.modifyRow i r s)) ∧ (∀ c v, StepOK t (.modifyColumn c v)) ∧
    (∀ c vs, StepOK t (.modifyColumnList c vs)) ∧ (∀ l c v r, StepOK t (.modifyElement l c v r)) ∧
    (∀ o n, StepOK t (.renameColumn o n)) ∧ (∀ g, StepOK t (.append g)) ∧
    (∀ c v, StepOK t (.removeRows c v)) ∧ (∀ m, StepOK t (.resetIndex m)) ∧
    (∀ v, StepOK t (.fillna v)) ∧ (∀ ns, StepOK t (.setColumns ns)) ∧ (∀ ok, StepOK t (.saveLoad ok)) := by
  refine ⟨?_, ?_, ?_, ?_, ?_, ?_, ?_, ?_, ?_, ?_, ?_⟩
  · intro i r s
    unfold StepOK
    simp only [step, specStep]
    rcases t.data.setIloc i r s with ⟨f, _ | e⟩
    · exact ⟨flag_data _ _, consistent_flag _, rfl, rfl, no_child⟩
    · exact ⟨flag_data _ _, consistent_flag _, rfl, rfl, no_child⟩
  · intro c v
    exact stepOK_mutate h rfl rfl
  · intro c vs
    exact stepOK_mutate h rfl rfl
  · intro l c v r
    unfold StepOK
    simp only [step, specStep]
    rcases t.data.setLoc l c v r with ⟨f, _ | e⟩
    · exact ⟨flag_data _ _, consistent_flag _, rfl, rfl, no_child⟩
    · exact ⟨flag_data _ _, consistent_flag _, rfl, rfl, no_child⟩
  · intro o n
    unfold StepOK
    simp only [step, specStep]
    split
    · close_step
    · exact ⟨flag_data _ _, consistent_flag _, rfl, rfl, no_child⟩
  · intro g
    unfold StepOK
    simp only [step, specStep]
    split
    · close_step
    · exact ⟨flag_data _ _, consistent_flag _, rfl, rfl, no_child⟩
  · intro c v
    unfold StepOK
    simp only [step, specStep]
    cases t.data.filterNe c v with
    | none => close_step
    | some f => exact ⟨flag_data _ _, consistent_flag _, rfl, rfl, no_child⟩
  · intro m
    unfold StepOK
    simp only [step, specStep]
    cases m with
    | true =>
      simp only [if_true]
      cases t.data.resetIndexMove with
      | ok f => exact ⟨flag_data _ _, consistent_flag _, rfl, rfl, no_child⟩
      | error e => close_step
    | false =>
      refine ⟨?_, consistent_resetIndex h, ?_, ?_, no_child⟩ <;> first | rfl | trivial
  · intro v
    unfold StepOK
    simp only [step, specStep]
    refine ⟨flag_data _ _, consistent_flag _, ?_, ?_, no_child⟩ <;> first | rfl | trivial
  · intro ns
    unfold StepOK
    simp only [step, specStep]
    split
    · close_step
    · cases t.data.setColumns ns with
      | ok f => exact ⟨flag_data _ _, consistent_flag _, rfl, rfl, no_child⟩
      | error e => close_step
  · intro ok
    unfold StepOK
    simp only [step, specStep]
    cases ok with
    | true =>
      exact ⟨rfl, consistent_resetIndex h, by simp [loadT_data], by simp [loadT_data],
        some_child (consistent_loadT _)⟩
    | false =>
      refine ⟨?_, consistent_resetIndex h, ?_, ?_, no_child⟩ <;> first | rfl | trivial

/-- **every public method call of the repaired `DataModel` answers what a scan of the current frame
answers, leaves the frame the reference semantics prescribes, and keeps the caches consistent.** -/
theorem step_refines {t : T} (h : Consistent t) (op : Op) : StepOK t op := by
  obtain ⟨r1, r2, r3, r4, r5⟩ := step_reads h
  obtain ⟨c1, c2, c3, c4⟩ := step_cached_reads h
  obtain ⟨i1, i2, i3⟩ := step_index h
  obtain ⟨b1, b2, b3, b4⟩ := step_blocks h
  obtain ⟨d1, d2, d3, d4, d5⟩ := step_derived h
  obtain ⟨m1, m2, m3, m4, m5, m6, m7, m8, m9, m10, m11⟩ := step_mutations h
  cases op with
  | len => exact r1
  | isEmpty => exact r2
  | getRows => exact c1
  | iter => exact c2
  | accessPos i => exact c3 i
  | accessList is => exact c4 is
  | accessLoc l c => exact r4 l c
  | column c => exact r5 c
  | queryIdx c v => exact i1 c v
  | queryTable c v => exact i2 c v
  | queryFirst c v => exact i3 c v
  | searchBlock id => exact b1 id
  | readBlock id r => exact b2 id r
  | readBlockWith id r => exact b3 id r
  | boundary ids => exact b4 ids
  | slowQueryEq c v oc r => exact d1 c v oc r
  | slowQueryIsin c vs r => exact d2 c vs r
  | slowQueryLabels ls r => exact d3 ls r
  | toDicts => exact r3
  | slice a b => exact d4 a b
  | clone => exact d5
  | modifyRow i r s => exact m1 i r s
  | modifyColumn c v => exact m2 c v
  | modifyColumnList c vs => exact m3 c vs
  | modifyElement l c v r => exact m4 l c v r
  | renameColumn o n => exact m5 o n
  | append g => exact m6 g
  | removeRows c v => exact m7 c v
  | resetIndex m => exact m8 m
  | fillna v => exact m9 v
  | setColumns ns => exact m10 ns
  | saveLoad ok => exact m11 ok

end LianVerif.Table
